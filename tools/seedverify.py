#!/usr/bin/env python3
"""tools/seedverify.py <Cxx> [--checks C01,C02,…|all] [--tier quick|thorough]

Verifies a seeded change delivered under /tmp/seed/<Cxx>/out (patch.diff, demo/, meta.json):
  1. scratch copy of /repo (git worktree), apply patch.diff, go build ./... (root and test module)
  2. run the repository's own suite unedited (must pass)
  3. run the demonstration with and without the change (standalone demo/go.mod or package test)
  4. run the registered check(s) against the scratch copy with VERIF_REPO
  5. print a summary, remove the scratch copy
Never touches /repo's working tree."""
import json, os, re, shutil, subprocess, sys

V = os.path.dirname(os.path.dirname(os.path.abspath(__file__)))
ENV = dict(os.environ, GOFLAGS="-mod=mod", GOPROXY="off")


def sh(cmd, cwd=None, timeout=3600, env=None):
    p = subprocess.run(cmd, cwd=cwd, env=env or ENV, shell=isinstance(cmd, str), stdout=subprocess.PIPE, stderr=subprocess.STDOUT, text=True, timeout=timeout)
    return p.returncode, p.stdout


def main():
    args = sys.argv[1:]
    prop = args[0]
    src = args[1] if len(args) > 1 and not args[1].startswith("--") else f"/tmp/seed/{prop}/out"
    checks = [prop]
    tier = "quick"
    fast = "--fast" in args  # skip the repository's suite and the demonstration (re-checks of already verified changes)
    for i, a in enumerate(args):
        if a == "--checks":
            checks = sorted(f[:-5] for f in os.listdir(os.path.join(V, "props.d")) if re.match(r"C\d+\.json", f)) if args[i + 1] == "all" else args[i + 1].split(",")
        if a == "--tier":
            tier = args[i + 1]
    patch = os.path.join(src, "patch.diff")
    meta = json.load(open(os.path.join(src, "meta.json"))) if os.path.exists(os.path.join(src, "meta.json")) else {}
    base = f"/tmp/sv/{prop}.{os.getpid()}"
    scratch = base + "/repo"
    shutil.rmtree(base, ignore_errors=True)
    os.makedirs(base)
    sh(["git", "-C", "/repo", "worktree", "prune"])
    rc, out = sh(["git", "-C", "/repo", "worktree", "add", "--detach", scratch, "HEAD"])
    if rc != 0:
        print("cannot create worktree:", out)
        return 2
    res = {"property": prop, "summary": meta.get("summary"), "needs": meta.get("needs")}
    try:
        rc, out = sh(["git", "-C", scratch, "apply", "--whitespace=nowarn", patch])
        res["applies"] = rc == 0
        if rc != 0:
            print("patch does not apply:", out[-800:])
            return 1
        rc, out = sh("go build ./... && (cd test && go build ./...)", cwd=scratch)
        res["builds"] = rc == 0
        if rc != 0:
            print("does not build:", out[-800:])
        if not fast:
            rc1, out1 = sh("go test -mod=mod -vet=off -count=1 ./... 2>&1 | grep -v 'no test files' | grep -v '^ok' | head -20", cwd=scratch)
            rc2, out2 = sh("go test -mod=mod -vet=off -count=1 ./... 2>&1 | grep -v 'no test files' | grep -v '^ok' | head -20", cwd=os.path.join(scratch, "test"))
            res["suite_passes"] = (out1.strip() == "" and out2.strip() == "")
            if not res["suite_passes"]:
                print("SUITE OUTPUT:", (out1 + out2)[-1500:])
            # demonstration
            demo = os.path.join(src, "demo")
            res["demo"] = run_demo(demo, scratch, patch)
        # checks
        env = dict(ENV, VERIF_REPO=scratch)
        caught = {}
        for c in checks:
            rc, out = sh(["./check", c, tier], cwd=V, env=env)
            line = [l for l in out.splitlines() if l.startswith(("VIOLATION", "OK"))]
            caught[c] = line[-1] if line else out[-300:]
            if line and line[-1].startswith("VIOLATION"):
                m = re.search(r"replay=(\S+)", line[-1])
                if m:
                    try:
                        r = json.load(open(os.path.join(V, m.group(1))))
                        caught[c] += " || " + str(r.get("kind")) + ": " + str(r.get("oracle") or r.get("theorem") or r.get("correspondence")) + " :: " + str(r.get("human") or r.get("case") or r.get("detail"))[:300].replace("\n", " ")
                    except Exception:
                        pass
        res["checks"] = caught
    finally:
        # leave lean/ScriggoV/Gen regenerated from /repo itself (the checks above regenerated it from the scratch copy)
        sh(["flock", os.path.join(V, ".lock"), os.path.join(V, "bin", "extract"), "-repo", "/repo", "-out", os.path.join(V, "lean", "ScriggoV", "Gen")])
        sh(["git", "-C", "/repo", "worktree", "remove", "--force", scratch])
        shutil.rmtree(base, ignore_errors=True)
    print(json.dumps(res, indent=1))
    return 0


def run_demo(demo, scratch, patch):
    """returns {'with': (rc, tail), 'without': (rc, tail)}; rc != 0 with the change and rc == 0 without is the expectation"""
    if not os.path.isdir(demo):
        return {"error": "no demo directory"}
    out = {}
    readme = ""
    for n in os.listdir(demo):
        if n.lower().startswith("readme"):
            readme = open(os.path.join(demo, n)).read()
    files = [f for f in os.listdir(demo) if f.endswith(".go")]
    standalone = os.path.exists(os.path.join(demo, "go.mod"))
    def once(tag):
        if standalone:
            d = f"/tmp/sv/demo_{os.getpid()}"
            shutil.rmtree(d, ignore_errors=True)
            shutil.copytree(demo, d)
            gm = open(os.path.join(d, "go.mod")).read()
            gm = re.sub(r"(replace\s+github.com/open2b/scriggo\s*=>\s*)\S+", r"\g<1>" + scratch, gm)
            open(os.path.join(d, "go.mod"), "w").write(gm)
            shutil.copy(os.path.join(scratch, "go.sum"), os.path.join(d, "go.sum"))
            has_test = any(f.endswith("_test.go") for f in os.listdir(d))
            cmd = "go test -mod=mod -vet=off -count=1 ./... 2>&1 | tail -15" if has_test else "go run -mod=mod . 2>&1 | tail -15; exit ${PIPESTATUS[0]}"
            rc, o = sh(["bash", "-c", "set -o pipefail; " + cmd], cwd=d, timeout=900)
            shutil.rmtree(d, ignore_errors=True)
            return rc, o[-700:]
        # package test: find target directory from README ("copy to <dir>") or default to repo root
        tdir = scratch
        pkgdirs = {"scriggo": ".", "scriggo_test": ".", "native": "native", "native_test": "native", "builtin": "builtin",
                   "builtin_test": "builtin", "compiler": "internal/compiler", "runtime": "internal/runtime", "main": "cmd/scriggo",
                   "misc": "test/misc", "astutil": "ast/astutil", "astutil_test": "ast/astutil", "ast": "ast", "ast_test": "ast"}
        for f in files:
            m = re.search(r"^package\s+(\w+)", open(os.path.join(demo, f)).read(), flags=re.M)
            if m and m.group(1) in pkgdirs:
                tdir = os.path.join(scratch, pkgdirs[m.group(1)])
                break
        copied = []
        for f in files:
            shutil.copy(os.path.join(demo, f), os.path.join(tdir, f))
            copied.append(os.path.join(tdir, f))
        rc, o = sh(["bash", "-c", "set -o pipefail; go test -mod=mod -vet=off -count=1 . 2>&1 | tail -15"], cwd=tdir, timeout=900)
        for f in copied:
            os.remove(f)
        return rc, o[-700:]
    out["with"] = once("with")
    sh(["git", "-C", scratch, "apply", "-R", "--whitespace=nowarn", patch])
    out["without"] = once("without")
    sh(["git", "-C", scratch, "apply", "--whitespace=nowarn", patch])
    out["readme"] = readme[:400]
    out["as_expected"] = out["with"][0] != 0 and out["without"][0] == 0
    return out


if __name__ == "__main__":
    sys.exit(main())
