#!/usr/bin/env python3
"""tools/seedrecheck.py [jobs] [ids…]: re-runs every seeded change under seeded/ against its property's check
(quick, then thorough if quick misses) and records the outcome in its meta.json (`final_run`, `caught_by`)."""
import json, os, subprocess, sys, glob, re
from concurrent.futures import ThreadPoolExecutor
V = os.path.dirname(os.path.dirname(os.path.abspath(__file__)))
jobs = int(sys.argv[1]) if len(sys.argv) > 1 and sys.argv[1].isdigit() else 3
only = [a for a in sys.argv[1:] if not a.isdigit()]
def verdict(line):
    if line.startswith('OK'): return 'missed'
    return 'obligation/tie only (no failing input found)' if 'no-failing-input-found' in line else 'caught with a failing input'
def one(d):
    sid = os.path.basename(d)
    m = json.load(open(d + '/meta.json'))
    p = m['property']
    res = {}
    for tier in ('quick', 'thorough'):
        out = subprocess.run([V + '/tools/seedverify.py', p, d, '--tier', tier, '--fast'], stdout=subprocess.PIPE, stderr=subprocess.STDOUT, text=True).stdout
        i = out.find('{\n "property"')
        try:
            r = json.loads(out[i:]); line = r['checks'][p]
        except Exception:
            line = 'ERROR ' + out[-300:]
        res[tier] = verdict(line); res[tier + '_detail'] = line[:600]
        if res[tier] == 'caught with a failing input':
            break
    m['final_run'] = res
    q, t = res.get('quick', 'missed'), res.get('thorough', 'missed')
    parts = []
    if q != 'missed':
        parts.append(f"./check {p} quick: {q}")
    if not q.startswith('caught') and t != 'missed':
        parts.append(f"./check {p} thorough: {t}")
    m['caught_by'] = '; '.join(parts) if parts else 'MISSED'
    json.dump(m, open(d + '/meta.json', 'w'), indent=1)
    return sid, m['caught_by']
dirs = sorted(d for d in glob.glob(V + '/seeded/*') if os.path.isdir(d) and (not only or os.path.basename(d) in only or any(os.path.basename(d).startswith(o) for o in only)))
with ThreadPoolExecutor(jobs) as ex:
    for sid, c in ex.map(one, dirs):
        print(sid, '->', c, flush=True)
