#!/bin/sh
# tools/runall.sh [tier] [jobs] : run every registered check, print one line each (for the lead's use)
cd "$(dirname "$0")/.."
tier=${1:-quick}; jobs=${2:-4}
ls props.d/C*.json | sed 's#props.d/##; s#.json##' | xargs -P "$jobs" -I{} sh -c './check {} '"$tier"' 2>&1 | grep -E "^(OK|VIOLATION|KNOWN-FINDING|check:)" | sed "s/^/{}: /"'
