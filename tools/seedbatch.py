#!/usr/bin/env python3
"""tools/seedbatch.py <wave> <quick|thorough> <jobs> <Cxx>…: runs tools/seedverify.py on the deliveries of a seeding wave
(/tmp/seed<wave>/<Cxx>/out) in parallel, keeps each report in /tmp/seed<wave>/<Cxx>/verify_<tier>.txt, prints one summary per seed."""
import json, os, subprocess, sys
from concurrent.futures import ThreadPoolExecutor
V = os.path.dirname(os.path.dirname(os.path.abspath(__file__)))
wave, tier, jobs, ids = sys.argv[1], sys.argv[2], int(sys.argv[3]), sys.argv[4:]
def one(c):
    base = f"/tmp/seed{wave}/{c}"
    out = subprocess.run([V + "/tools/seedverify.py", c, base + "/out", "--tier", tier], stdout=subprocess.PIPE, stderr=subprocess.STDOUT, text=True).stdout
    open(f"{base}/verify_{tier}.txt", "w").write(out)
    i = out.find('{\n "property"')
    try:
        r = json.loads(out[i:])
        s = f"== {c} applies={r.get('applies')} builds={r.get('builds')} suite={r.get('suite_passes')} demo_ok={r.get('demo', {}).get('as_expected')}\n"
        for k, v in r.get("checks", {}).items():
            s += f"   {k} {v[:420]}\n"
        return s
    except Exception as e:
        return f"== {c} PARSE FAIL {e} {out[-500:]}\n"
with ThreadPoolExecutor(jobs) as ex:
    for s in ex.map(one, ids):
        print(s, end="", flush=True)
