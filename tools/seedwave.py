#!/usr/bin/env python3
"""tools/seedwave.py <wave-number> <Cxx>…: prepares a seeding wave: for each property a scratch git worktree of /repo at
/tmp/seed<N>/<Cxx>/wt and /tmp/seed<N>/<Cxx>/INSTRUCTIONS.md (tools/prompts/seed_prompt.md filled in from properties.jsonl,
plus the summaries of every change already archived under seeded/ for that property, to be avoided). The seeding agents get
only that file and that worktree — nothing from /verif."""
import json, os, sys, glob, subprocess
V = os.path.dirname(os.path.dirname(os.path.abspath(__file__)))
wave = sys.argv[1]
props = {}
for l in open(V + "/properties.jsonl"):
    p = json.loads(l); props[p["id"]] = p
tmpl = open(V + "/tools/prompts/seed_prompt.md").read()
subprocess.run(["git", "-C", "/repo", "worktree", "prune"])
for pid in sys.argv[2:]:
    p = props[pid]
    base = f"/tmp/seed{wave}/{pid}"; wt = base + "/wt"; out = base + "/out"
    os.makedirs(base, exist_ok=True)
    if not os.path.isdir(wt):
        r = subprocess.run(["git", "-C", "/repo", "worktree", "add", "--detach", wt, "HEAD"], capture_output=True, text=True)
        if r.returncode != 0:
            print(pid, "worktree failed:", r.stderr.strip()); continue
    a = p["anchors"]
    anchors = "files: " + ", ".join(a.get("files", [])) + "; mechanisms: " + "; ".join(f"{m['name']} ({m['where']})" for m in a.get("mechanism", []))
    t = (tmpl.replace("{WT}", wt).replace("{OUT}", out).replace("{PROPERTY_ID}", pid).replace("{TITLE}", p["title"])
         .replace("{STATEMENT}", p["statement"]).replace("{QUANTIFIER}", p["quantifier"]["text"]).replace("{ANCHORS}", anchors))
    prev = []
    for d in sorted(glob.glob(f"{V}/seeded/{pid}-*")):
        try:
            prev.append(json.load(open(d + "/meta.json"))["summary"][:260])
        except Exception:
            pass
    avoid = ""
    if prev:
        avoid = ("Other people have already made these changes — do something with a DIFFERENT mechanism and a different code site than all of them: "
                 + " ;; ".join(f'({i+1}) "{s}"' for i, s in enumerate(prev)) + ". ")
    extra = (avoid + "Prefer a change in the files the property is anchored in; changes in the glue around them (option handling, conversions, "
             "caches, error paths, the code connecting two of the mechanisms, rarely used language or template features, interactions between two "
             "features) are welcome. Files named verif_*.go and the verifhook/ directory are test hooks: do not touch them. Avoid changes that merely "
             "make everything crash. Think about which inputs the existing tests exercise (read the tests near the code you change) and aim between them.")
    t = t.replace("Prefer a change in the files the property is anchored in. Avoid changes that merely make everything crash. Think about which inputs the existing tests exercise (read the tests near the code you change) and aim between them.", extra)
    open(base + "/INSTRUCTIONS.md", "w").write(t)
    print(pid, "ready:", base, f"({len(prev)} earlier changes to avoid)")
