#!/usr/bin/env python3
"""tools/seedarchive.py <wave> <Cxx>=<slug>…: archives verified deliveries of a seeding wave (/tmp/seed<wave>/<Cxx>/out, with the
reports written by tools/seedbatch.py) as seeded/<Cxx>-<slug>/ (patch.diff, demo/, meta.json with wave, verified_by_lead, first_run)."""
import json, os, shutil, sys
V = os.path.dirname(os.path.dirname(os.path.abspath(__file__)))
wave = sys.argv[1]
def load(f):
    if not os.path.exists(f): return None
    t = open(f).read(); i = t.find('{\n "property"')
    try: return json.loads(t[i:])
    except Exception: return None
def cls(line):
    if line.startswith("OK"): return "missed"
    if "no-failing-input-found" in line: return "caught (broken obligation/tie/correspondence, no failing input)"
    if line.startswith("VIOLATION"): return "caught with a failing input"
    return "error: " + line[:100]
for a in sys.argv[2:]:
    c, s = a.split("=")
    src = f"/tmp/seed{wave}/{c}/out"; dst = f"{V}/seeded/{c}-{s}"
    q = load(f"/tmp/seed{wave}/{c}/verify_quick.txt"); th = load(f"/tmp/seed{wave}/{c}/verify_thorough.txt")
    v = q or th
    if not (v and v.get("applies") and v.get("builds") and v.get("suite_passes")):
        print(c, "NOT ARCHIVED: not verified", v and {k: v.get(k) for k in ("applies", "builds", "suite_passes")}); continue
    shutil.rmtree(dst, ignore_errors=True); os.makedirs(dst)
    shutil.copy(src + "/patch.diff", dst); shutil.copytree(src + "/demo", dst + "/demo")
    m = json.load(open(src + "/meta.json"))
    m["wave"] = int(wave)
    m["verified_by_lead"] = {"how": "tools/seedverify.py (see wave 1)", "applies": True, "builds": True, "suite_passes_with_change": True,
                             "demo_fails_with_change_and_passes_without": bool(v["demo"].get("as_expected"))}
    fr = {}
    if q: fr["quick"] = cls(q["checks"][c]); fr["quick_detail"] = q["checks"][c][:600]
    if th: fr["thorough"] = cls(th["checks"][c]); fr["thorough_detail"] = th["checks"][c][:600]
    m["first_run"] = fr
    json.dump(m, open(dst + "/meta.json", "w"), indent=1)
    print(c, s, fr.get("quick"), fr.get("thorough"), "demo_ok", m["verified_by_lead"]["demo_fails_with_change_and_passes_without"])
