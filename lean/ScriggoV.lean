-- root of the library: every property module (lake build = re-prove everything)
import ScriggoV.Props.C24
