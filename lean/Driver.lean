import ScriggoV.Drv.C24
/-! Line protocol driver: one request per line `<prop> <op> <arg>…`, one response per line
(`ok …`, `err …` or `bad-op`). Core Lean only. -/
open ScriggoV

def dispatch (line : String) : String :=
  let ws := (line.splitOn " ").filter (· ≠ "")
  let r : Option String := match ws with
    | "C24" :: rest => Drv.C24.handle rest
    | _ => none
  r.getD "bad-op"

partial def loop (hin hout : IO.FS.Stream) : IO Unit := do
  let line ← hin.getLine
  if line.isEmpty then return ()
  let l := line.trimAscii.toString
  if l == "#flush" then hout.flush   -- end of a batch: the client is waiting for the answers
  else hout.putStrLn (dispatch l)
  loop hin hout

def main : IO Unit := do
  let hin ← IO.getStdin
  let hout ← IO.getStdout
  loop hin hout
  hout.flush
