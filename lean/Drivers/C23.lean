import ScriggoV.Drv.Main
import ScriggoV.Drv.C23
def main : IO Unit := ScriggoV.Drv.runDriver "C23" ScriggoV.Drv.C23.handle
