import ScriggoV.Drv.Main
import ScriggoV.Drv.C28
def main : IO Unit := ScriggoV.Drv.runDriver "C28" ScriggoV.Drv.C28.handle
