import ScriggoV.Drv.Main
import ScriggoV.Drv.C08
def main : IO Unit := ScriggoV.Drv.runDriver "C08" ScriggoV.Drv.C08.handle
