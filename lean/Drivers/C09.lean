import ScriggoV.Drv.Main
import ScriggoV.Drv.C09
def main : IO Unit := ScriggoV.Drv.runDriver "C09" ScriggoV.Drv.C09.handle
