import ScriggoV.Drv.Main
import ScriggoV.Drv.C11
def main : IO Unit := ScriggoV.Drv.runDriver "C11" ScriggoV.Drv.C11.handle
