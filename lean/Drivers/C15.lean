import ScriggoV.Drv.Main
import ScriggoV.Drv.C15
def main : IO Unit := ScriggoV.Drv.runDriver "C15" ScriggoV.Drv.C15.handle
