import ScriggoV.Drv.Main
import ScriggoV.Drv.C25
def main : IO Unit := ScriggoV.Drv.runDriver "C25" ScriggoV.Drv.C25.handle
