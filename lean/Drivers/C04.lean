import ScriggoV.Drv.Main
import ScriggoV.Drv.C04
def main : IO Unit := ScriggoV.Drv.runDriver "C04" ScriggoV.Drv.C04.handle
