import ScriggoV.Drv.Main
import ScriggoV.Drv.C20
def main : IO Unit := ScriggoV.Drv.runDriver "C20" ScriggoV.Drv.C20.handle
