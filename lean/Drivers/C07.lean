import ScriggoV.Drv.Main
import ScriggoV.Drv.C07
def main : IO Unit := ScriggoV.Drv.runDriver "C07" ScriggoV.Drv.C07.handle
