import ScriggoV.Drv.Main
import ScriggoV.Drv.C26
def main : IO Unit := ScriggoV.Drv.runDriver "C26" ScriggoV.Drv.C26.handle
