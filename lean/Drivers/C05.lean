import ScriggoV.Drv.Main
import ScriggoV.Drv.C05
def main : IO Unit := ScriggoV.Drv.runDriver "C05" ScriggoV.Drv.C05.handle
