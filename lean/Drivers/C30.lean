import ScriggoV.Drv.Main
import ScriggoV.Drv.C30
def main : IO Unit := ScriggoV.Drv.runDriver "C30" ScriggoV.Drv.C30.handle
