import ScriggoV.Drv.Main
import ScriggoV.Drv.C10
def main : IO Unit := ScriggoV.Drv.runDriver "C10" ScriggoV.Drv.C10.handle
