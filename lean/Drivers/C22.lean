import ScriggoV.Drv.Main
import ScriggoV.Drv.C22
def main : IO Unit := ScriggoV.Drv.runDriver "C22" ScriggoV.Drv.C22.handle
