import ScriggoV.Drv.Main
import ScriggoV.Drv.C29
def main : IO Unit := ScriggoV.Drv.runDriver "C29" ScriggoV.Drv.C29.handle
