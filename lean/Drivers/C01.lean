import ScriggoV.Drv.Main
import ScriggoV.Drv.C01
def main : IO Unit := ScriggoV.Drv.runDriver "C01" ScriggoV.Drv.C01.handle
