import ScriggoV.Drv.Main
import ScriggoV.Drv.C12
def main : IO Unit := ScriggoV.Drv.runDriver "C12" ScriggoV.Drv.C12.handle
