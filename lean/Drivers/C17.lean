import ScriggoV.Drv.Main
import ScriggoV.Drv.C17
def main : IO Unit := ScriggoV.Drv.runDriver "C17" ScriggoV.Drv.C17.handle
