import ScriggoV.Drv.Main
import ScriggoV.Drv.C27
def main : IO Unit := ScriggoV.Drv.runDriver "C27" ScriggoV.Drv.C27.handle
