import ScriggoV.Drv.Main
import ScriggoV.Drv.C03
def main : IO Unit := ScriggoV.Drv.runDriver "C03" ScriggoV.Drv.C03.handle
