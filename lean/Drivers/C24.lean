import ScriggoV.Drv.Main
import ScriggoV.Drv.C24
def main : IO Unit := ScriggoV.Drv.runDriver "C24" ScriggoV.Drv.C24.handle
