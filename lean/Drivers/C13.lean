import ScriggoV.Drv.Main
import ScriggoV.Drv.C13
def main : IO Unit := ScriggoV.Drv.runDriver "C13" ScriggoV.Drv.C13.handle
