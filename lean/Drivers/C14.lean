import ScriggoV.Drv.Main
import ScriggoV.Drv.C14
def main : IO Unit := ScriggoV.Drv.runDriver "C14" ScriggoV.Drv.C14.handle
