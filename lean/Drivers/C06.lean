import ScriggoV.Drv.Main
import ScriggoV.Drv.C06
def main : IO Unit := ScriggoV.Drv.runDriver "C06" ScriggoV.Drv.C06.handle
