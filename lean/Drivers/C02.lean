import ScriggoV.Drv.Main
import ScriggoV.Drv.C02
def main : IO Unit := ScriggoV.Drv.runDriver "C02" ScriggoV.Drv.C02.handle
