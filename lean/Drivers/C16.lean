import ScriggoV.Drv.Main
import ScriggoV.Drv.C16
def main : IO Unit := ScriggoV.Drv.runDriver "C16" ScriggoV.Drv.C16.handle
