import ScriggoV.Drv.Main
import ScriggoV.Drv.C18
def main : IO Unit := ScriggoV.Drv.runDriver "C18" ScriggoV.Drv.C18.handle
