import ScriggoV.Drv.Main
import ScriggoV.Drv.C21
def main : IO Unit := ScriggoV.Drv.runDriver "C21" ScriggoV.Drv.C21.handle
