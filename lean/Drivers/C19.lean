import ScriggoV.Drv.Main
import ScriggoV.Drv.C19
def main : IO Unit := ScriggoV.Drv.runDriver "C19" ScriggoV.Drv.C19.handle
