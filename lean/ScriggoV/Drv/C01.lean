import ScriggoV.Drv.Util
import ScriggoV.Model.VMInt
import ScriggoV.Model.Eval
/-! line-protocol handler for C01 (stage one). Requests (after the leading `C01`):

* `bin <op> <kind> <x> <y>`        — `x op y`, both of `kind`
* `sh <op> <kind> <ckind> <x> <n>` — `x << n` / `x >> n`, count of kind `ckind`
* `un <op> <kind> <x>`
* `conv <src> <dst> <x>`
* `convstr <src> <x>`             — `string(x)`, answers `ok <vm hex> <spec hex>`
* `cmp <op> <kind> <x> <y>`
* `eval <n> <v1> … <vn> <expr in prefix notation>` — the reference evaluator

The first five answer `ok <vm> <spec>`: what the generated VM terms compute on the canonical
registers of the operands (`ok:<value>`, `okNC:<value>` if the result register is not canonical,
`err:<fault>`) and what `Spec/GoInt` says (`ok:<value>` / `err:<fault>`). Operands outside the
range of their kind are unparsable (`bad-op`). `eval` answers `ok <type> <value>` / `err <fault>`;
ill-typed trees are unparsable. -/
namespace ScriggoV.Drv.C01
open ScriggoV ScriggoV.GoInt ScriggoV.VM

/-- what the destination register held before (the result must not depend on it) -/
def junk : BitVec 64 := 0xA5A5A5A5DEADBEEF#64

def showVM (k : Kind) : Except Fault (BitVec 64) → String
  | .ok r => (if Canon k r then "ok:" else "okNC:") ++ toString (val k r)
  | .error f => "err:" ++ f.name

def showSpec : Except Fault Int → String
  | .ok z => "ok:" ++ toString z
  | .error f => "err:" ++ f.name

def operand (k : Kind) (s : String) : Option Int := do
  let z ← s.toInt?
  if InRange k z then some z else none

def ints : List String → Option (List Int)
  | [] => some []
  | s :: rest => do
    let z ← s.toInt?
    let zs ← ints rest
    pure (z :: zs)

def handle : List String → Option String
  | ["bin", op, k, x, y] => do
    let op ← Eval.binOfName op
    let k ← Kind.ofName k
    let x ← operand k x
    let y ← operand k y
    pure ("ok " ++ showVM k (vmOp op k (reg x) (reg y) junk) ++ " " ++ showSpec (binop op k x y))
  | ["sh", op, k, kc, x, n] => do
    let op ← Eval.shOfName op
    let k ← Kind.ofName k
    let kc ← Kind.ofName kc
    let x ← operand k x
    let n ← operand kc n
    pure ("ok " ++ showVM k (vmShift op k (reg x) (reg n) junk) ++ " " ++ showSpec (shift op k x n))
  | ["un", op, k, x] => do
    let op ← Eval.unOfName op
    let k ← Kind.ofName k
    let x ← operand k x
    pure ("ok " ++ showVM k (vmUn op k (reg x) junk) ++ " " ++ showSpec (.ok (unop op k x)))
  | ["conv", src, dst, x] => do
    let src ← Kind.ofName src
    let dst ← Kind.ofName dst
    let x ← operand src x
    pure ("ok " ++ showVM dst (vmConv src dst (reg x)) ++ " " ++ showSpec (.ok (conv dst x)))
  | ["convstr", src, x] => do
    let src ← Kind.ofName src
    let x ← operand src x
    pure ("ok " ++ toHex (vmConvStr src (reg x)) ++ " " ++ toHex (intToString x))
  | ["cmp", op, k, x, y] => do
    let op ← Eval.cmpOfName op
    let k ← Kind.ofName k
    let x ← operand k x
    let y ← operand k y
    pure ("ok " ++ toString (vmCmp op k (reg x) (reg y)) ++ " " ++ toString (cmp op x y))
  | "eval" :: n :: rest => do
    let n ← n.toNat?
    if rest.length < n then none
    let env ← ints (rest.take n)
    let toks := rest.drop n
    let (e, left) ← Eval.parse (toks.length + 1) toks
    if !left.isEmpty then none
    let _ ← Eval.typeOf e
    match Eval.eval env e with
    | .ok v => pure ("ok " ++ v.render)
    | .error .other => none
    | .error f => pure ("err " ++ f.name)
  | _ => none

end ScriggoV.Drv.C01
