import ScriggoV.Drv.Util
import ScriggoV.Model.VMInt
import ScriggoV.Model.Eval
import ScriggoV.Model.Compile
import ScriggoV.Model.CompileCond
import ScriggoV.Model.FieldIndex
import ScriggoV.Model.CommaOk
/-! line-protocol handler for C01 (stage one). Requests (after the leading `C01`):

* `bin <op> <kind> <x> <y>`        — `x op y`, both of `kind`
* `sh <op> <kind> <ckind> <x> <n>` — `x << n` / `x >> n`, count of kind `ckind`
* `un <op> <kind> <x>`
* `conv <src> <dst> <x>`
* `convstr <src> <x>`             — `string(x)`, answers `ok <vm hex> <spec hex>`
* `cmp <op> <kind> <x> <y>`
* `eval <n> <v1> … <vn> <expr in prefix notation>` — the reference evaluator
* `compile <n> <expr>`            — the emitter model on `func f(v0 T0, …, v(n-1) T(n-1)) { r := <expr>; … }`:
  variable `i` in register `i+1`, `r` in register `n+1`; answers `ok <instr>; <instr>; …` in the
  notation of the disassembler (`Program.Disassemble`), the final `Move … i(n+1)` included
* `crun <n> <v1> … <vn> <expr>`   — the VM model run on that code from canonical registers; answers
  like `eval` (the value read from the result register at the static type)
* `ccompile <ni> <nb> <cond>`     — the model of `emitCondition` on `func f(v0 T0, …, b0 bool, …, s0 string, …) { if <cond> {…} }`
  with `ni` integer and `nb` bool variables (integer registers `1…ni`, `ni+1…ni+nb`; string
  variable `j` in string register `j+1`): the code up to and including the final `If`
* `ccrun <ni> <v…> <nb> <b…> <ns> <len…> <cond>` — the model VM on that code: `ok true|false` / `err <fault>`,
  then the reference semantics `evalCond` the same way

* `srun <np> <val>… <ns> <stmt>…`   — the selector evaluator of `Model/Struct.lean` on a function body whose
  locals `0 … np-1` hold the given values; answers `ok <printed ints | -> ; <table trace> ; <requested>`:
  the second part is what `compileEvents` (the emitter's requests threaded through `makeFieldIndex`)
  makes the disassembler print for the body's `Field`/`SetField` instructions (`F0,1 S2 …`, `-` when
  none, `err <fault>`), the third the paths the source asks for. `<val>` = `i <z>` | `n <k> <val>…`;
  `<path>` = `<len> <i>…`; `<expr>` = `lit <z>` | `var <x>` | `sel <path> <expr>` | `mk <k> <expr>…` |
  `add <expr> <expr>` | `eq <expr> <expr>`; `<stmt>` = `decl <expr>` | `asg <x> <steps> <path>… <expr>` |
  `opa <x> <steps> <path>… <expr>` | `pr <expr>` | `dump <x>`

* `cok <form> <kind> <n> <exec>…`  — a comma-ok / may-fail site (`assert` | `mapidx` | `recv`) with a value
  result of reflect kind `<kind>`, executed `n` times; `<exec>` = `s<p>` (succeeds with the value of payload
  `p`, 0 = the zero value) | `f` (fails); answers `ok <p>:<ok> … ; <p>:<ok> …`: what Go says
  (`CommaOk.spec`), then what the VM model of `Model/CommaOk.lean` yields — the regenerated destination
  code of OpAssert / OpMapIndex / OpReceive run on a register file that starts zeroed (a fresh frame) and
  is kept from one execution to the next (`undefined` when the code reads the value on the failing path)

`<cond>` is `clit true|false`, `ccmp <op> <expr> <expr>`, `lenl <op> <s> <expr>`, `lenr <op> <expr> <s>`,
`cnot <bval>`, `cval <bval>` with `<bval>` = `bcmp <op> <expr> <expr>` | `bvar <i>`.

The first five answer `ok <vm> <spec>`: what the generated VM terms compute on the canonical
registers of the operands (`ok:<value>`, `okNC:<value>` if the result register is not canonical,
`err:<fault>`) and what `Spec/GoInt` says (`ok:<value>` / `err:<fault>`). Operands outside the
range of their kind are unparsable (`bad-op`). `eval` answers `ok <type> <value>` / `err <fault>`;
ill-typed trees are unparsable; `compile`/`crun` also reject trees with a foldable constant
subtree other than a literal (the emitter never sees one). -/
namespace ScriggoV.Drv.C01
open ScriggoV ScriggoV.GoInt ScriggoV.VM

/-- what the destination register held before (the result must not depend on it) -/
def junk : BitVec 64 := 0xA5A5A5A5DEADBEEF#64

def showVM (k : Kind) : Except Fault (BitVec 64) → String
  | .ok r => (if Canon k r then "ok:" else "okNC:") ++ toString (val k r)
  | .error f => "err:" ++ f.name

def showSpec : Except Fault Int → String
  | .ok z => "ok:" ++ toString z
  | .error f => "err:" ++ f.name

def operand (k : Kind) (s : String) : Option Int := do
  let z ← s.toInt?
  if InRange k z then some z else none

def ints : List String → Option (List Int)
  | [] => some []
  | s :: rest => do
    let z ← s.toInt?
    let zs ← ints rest
    pure (z :: zs)

/-! ### the emitter model in the notation of the disassembler -/
open ScriggoV.Gen.VMInt ScriggoV.Compile in
def vopName : VOp → String
  | .add | .addInt => "Add" | .sub | .subInt => "Sub" | .subInv | .subInvInt => "SubInv"
  | .mul | .mulInt => "Mul" | .div | .divInt => "Div" | .rem | .remInt => "Rem"
  | .shl | .shlInt => "Shl" | .shr | .shrInt => "Shr" | .neg => "Neg"
  | .and => "And" | .or => "Or" | .xor => "Xor" | .andNot => "AndNot"

open ScriggoV.Gen.VMInt in
/-- `conditionName` of the disassembler (it prints the unsigned conditions like the signed ones) -/
def condName : Cond → String
  | .zero => "Zero" | .notZero => "NotZero" | .equal => "Equal" | .notEqual => "NotEqual"
  | .less | .lessU => "Less" | .lessEqual | .lessEqualU => "LessEqual"
  | .greater | .greaterU => "Greater" | .greaterEqual | .greaterEqualU => "GreaterEqual"

def regName (r : Nat) : String := "i" ++ toString r

open ScriggoV.Compile in
/-- `disassembleOperand`: an immediate is printed signed, or as `uint8` under an unsigned kind -/
def srcName (unsignedKind : Bool) : Src → String
  | .reg r => regName r
  | .imm b => if unsignedKind then toString b.toNat else toString b.toInt

open ScriggoV.Compile in
def instrText (tbl : List (BitVec 64)) : Instr → String
  | .move s d => "Move " ++ srcName false s ++ " " ++ regName d
  | .load i d => "Load " ++ (match tbl[i]? with | some v => toString v.toInt | none => "?") ++ " " ++ regName d
  | .op .neg (.kind k) b c => "Neg " ++ k.name ++ " " ++ srcName false b ++ " " ++ regName c
  | .op o (.kind k) b c => vopName o ++ " " ++ k.name ++ " " ++ srcName (!k.signed) b ++ " " ++ regName c
  | .op o (.reg x) b c => vopName o ++ " " ++ regName x ++ " " ++ srcName false b ++ " " ++ regName c
  | .convertInt s k d => "Convert " ++ regName s ++ " " ++ k.name ++ " " ++ regName d
  | .convertUint s k d => "ConvertU " ++ regName s ++ " " ++ k.name ++ " " ++ regName d
  | .ifInt a c y => "If " ++ regName a ++ " " ++ condName c ++ " " ++ srcName false y

/-- parse `<expr>`; only well-typed trees without foldable operator nodes -/
def treeOf (toks : List String) : Option (Eval.Expr × Eval.Ty) := do
  let (e, left) ← Eval.parse (toks.length + 1) toks
  if !left.isEmpty then none
  let τ ← Eval.typeOf e
  if !Compile.foldless e then none
  pure (e, τ)

/-- `r := <expr>` in a function whose `n` parameters are the variables -/
def compiled (n : Nat) (e : Eval.Expr) : List Compile.Instr × List (BitVec 64) :=
  let o := Compile.compileK (· + 1) e ⟨n + 1, []⟩
  (o.code ++ [.move o.src (n + 1)], o.st.consts)

/-! ### conditions -/
open ScriggoV.Gen.VMInt in
def lenCondName : LenCond → String
  | .lenEqual => "LenEqual" | .lenNotEqual => "LenNotEqual" | .lenLess => "LenLess"
  | .lenLessEqual => "LenLessEqual" | .lenGreater => "LenGreater" | .lenGreaterEqual => "LenGreaterEqual"

open ScriggoV.Compile ScriggoV.Gen.VMInt in
def testText : Test → String
  | .int a .zero _ => "If Zero " ++ regName a
  | .int a .notZero _ => "If NotZero " ++ regName a
  | .int a c y => "If " ++ regName a ++ " " ++ condName c ++ " " ++ srcName false y
  | .len s c y => "If s" ++ toString s ++ " " ++ lenCondName c ++ " " ++ srcName false y

def exprOf (toks : List String) : Option (Eval.Expr × List String) := Eval.parse (toks.length + 1) toks

open ScriggoV.Compile in
def bvalOf : List String → Option (BVal × List String)
  | "bcmp" :: op :: rest => do
    let op ← Eval.cmpOfName op
    let (a, rest) ← exprOf rest
    let (b, rest) ← exprOf rest
    pure (.cmp op a b, rest)
  | "bvar" :: i :: rest => do
    let i ← i.toNat?
    pure (.var i, rest)
  | _ => none

open ScriggoV.Compile in
def condOfTokens : List String → Option CondE
  | ["clit", "true"] => some (.lit true)
  | ["clit", "false"] => some (.lit false)
  | "ccmp" :: op :: rest => do
    let op ← Eval.cmpOfName op
    let (a, rest) ← exprOf rest
    let (b, rest) ← exprOf rest
    if !rest.isEmpty then none
    pure (.cmp op a b)
  | "lenl" :: op :: s :: rest => do
    let op ← Eval.cmpOfName op
    let s ← s.toNat?
    let (e, rest) ← exprOf rest
    if !rest.isEmpty then none
    pure (.lenL op s e)
  | "lenr" :: op :: rest => do
    let op ← Eval.cmpOfName op
    let (e, rest) ← exprOf rest
    match rest with
    | [s] => do
      let s ← s.toNat?
      pure (.lenR op e s)
    | _ => none
  | "cnot" :: rest => do
    let (v, rest) ← bvalOf rest
    if !rest.isEmpty then none
    pure (.not v)
  | "cval" :: rest => do
    let (v, rest) ← bvalOf rest
    if !rest.isEmpty then none
    pure (.val v)
  | _ => none

open ScriggoV.Compile in
/-- decidable version of `CondTyped` -/
def condTyped : CondE → Bool
  | .lit _ => true
  | .cmp op a b => Eval.typeOf (.cmp op a b) == some .bool
  | .lenL _ _ e => Eval.typeOf e == some (.int .int)
  | .lenR _ e _ => Eval.typeOf e == some (.int .int)
  | .not (.cmp op a b) => Eval.typeOf (.cmp op a b) == some .bool
  | .not (.var _) => true
  | .val (.cmp op a b) => Eval.typeOf (.cmp op a b) == some .bool
  | .val (.var _) => true

def bools : List String → Option (List Bool)
  | [] => some []
  | "true" :: rest => (bools rest).map (true :: ·)
  | "false" :: rest => (bools rest).map (false :: ·)
  | _ => none

def nats : List String → Option (List Nat)
  | [] => some []
  | s :: rest => do
    let n ← s.toNat?
    let ns ← nats rest
    pure (n :: ns)

def showBool : Except Fault Bool → Option String
  | .ok b => some ("ok " ++ (if b then "true" else "false"))
  | .error .other => none
  | .error f => some ("err " ++ f.name)

/-! ### struct values and selectors (stream 7) -/
namespace S
open ScriggoV.Struct ScriggoV.FieldIndex

def pNats : Nat → List String → Option (List Nat × List String)
  | 0, toks => some ([], toks)
  | k + 1, t :: rest => do
    let n ← t.toNat?
    let (ns, rest) ← pNats k rest
    pure (n :: ns, rest)
  | _ + 1, [] => none

def pPath : List String → Option (Path × List String)
  | n :: rest => do
    let n ← n.toNat?
    pNats n rest
  | [] => none

def pPaths : Nat → List String → Option (List Path × List String)
  | 0, toks => some ([], toks)
  | k + 1, toks => do
    let (p, rest) ← pPath toks
    let (ps, rest) ← pPaths k rest
    pure (p :: ps, rest)

mutual
def pVal : Nat → List String → Option (SVal × List String)
  | 0, _ => none
  | _ + 1, "i" :: z :: rest => do
    let z ← z.toInt?
    pure (.int z, rest)
  | f + 1, "n" :: k :: rest => do
    let k ← k.toNat?
    let (vs, rest) ← pVals f k rest
    pure (.node vs, rest)
  | _ + 1, _ => none
def pVals : Nat → Nat → List String → Option (List SVal × List String)
  | 0, _, _ => none
  | _ + 1, 0, toks => some ([], toks)
  | f + 1, k + 1, toks => do
    let (v, rest) ← pVal f toks
    let (vs, rest) ← pVals f k rest
    pure (v :: vs, rest)
end

mutual
def pExpr : Nat → List String → Option (Struct.Expr × List String)
  | 0, _ => none
  | _ + 1, "lit" :: z :: rest => do
    let z ← z.toInt?
    pure (.lit z, rest)
  | _ + 1, "var" :: x :: rest => do
    let x ← x.toNat?
    pure (.var x, rest)
  | f + 1, "sel" :: rest => do
    let (p, rest) ← pPath rest
    let (e, rest) ← pExpr f rest
    pure (.sel e p, rest)
  | f + 1, "mk" :: k :: rest => do
    let k ← k.toNat?
    let (es, rest) ← pExprs f k rest
    pure (.mk es, rest)
  | f + 1, "add" :: rest => do
    let (a, rest) ← pExpr f rest
    let (b, rest) ← pExpr f rest
    pure (.add a b, rest)
  | f + 1, "eq" :: rest => do
    let (a, rest) ← pExpr f rest
    let (b, rest) ← pExpr f rest
    pure (.eq a b, rest)
  | _ + 1, _ => none
def pExprs : Nat → Nat → List String → Option (List Struct.Expr × List String)
  | 0, _, _ => none
  | _ + 1, 0, toks => some ([], toks)
  | f + 1, k + 1, toks => do
    let (e, rest) ← pExpr f toks
    let (es, rest) ← pExprs f k rest
    pure (e :: es, rest)
end

def pStmt (toks : List String) : Option (Stmt × List String) :=
  let fuel := toks.length + 1
  match toks with
  | "decl" :: rest => do
    let (e, rest) ← pExpr fuel rest
    pure (.decl e, rest)
  | "pr" :: rest => do
    let (e, rest) ← pExpr fuel rest
    pure (.print e, rest)
  | "dump" :: x :: rest => do
    let x ← x.toNat?
    pure (.dump x, rest)
  | "asg" :: x :: k :: rest => do
    let x ← x.toNat?
    let k ← k.toNat?
    let (ps, rest) ← pPaths k rest
    let (e, rest) ← pExpr fuel rest
    pure (.assign x ps e, rest)
  | "opa" :: x :: k :: rest => do
    let x ← x.toNat?
    let k ← k.toNat?
    let (ps, rest) ← pPaths k rest
    let (e, rest) ← pExpr fuel rest
    pure (.opAssign x ps e, rest)
  | _ => none

def pStmts : Nat → List String → Option (List Stmt × List String)
  | 0, toks => some ([], toks)
  | k + 1, toks => do
    let (s, rest) ← pStmt toks
    let (ss, rest) ← pStmts k rest
    pure (s :: ss, rest)

def pathText (p : Path) : String := ",".intercalate (p.map toString)

def itemText : Bool × Path → String
  | (false, p) => "F" ++ pathText p
  | (true, p) => "S" ++ pathText p

def itemsText (l : List (Bool × Path)) : String :=
  if l.isEmpty then "-" else " ".intercalate (l.map itemText)

def outText : List SVal → Option String
  | [] => some "-"
  | vs => do
    let zs ← vs.mapM fun v => match v with
      | .int z => some (toString z)
      | .node _ => none
    pure (" ".intercalate zs)

def handle (np : Nat) (toks : List String) : Option String := do
  let (vals, rest) ← pVals (toks.length + 1) np toks
  let ns ← (← rest.head?).toNat?
  let (ss, rest) ← pStmts ns (rest.drop 1)
  if !rest.isEmpty then none
  let st ← Struct.run ss ⟨vals, []⟩
  let out ← outText st.out
  let evs := Struct.events ss
  let trace := match compileEvents evs [] with
    | .ok (code, tbl) =>
      match code.mapM (printed tbl) with
      | some items => itemsText items
      | none => "err position"
    | .error .limit => "err limit"
    | .error .index => "err index"
  pure ("ok " ++ out ++ " ; " ++ trace ++ " ; " ++ itemsText (requested evs))

end S

namespace K
open ScriggoV.CommaOk

def pExec (s : String) : Option Exec :=
  if s == "f" then some ⟨false, 0⟩
  else if s.startsWith "s" then (s.drop 1).toNat?.map fun p => ⟨true, p⟩
  else none

def showRun (l : List (Nat × Bool)) : String :=
  if l.isEmpty then "-" else " ".intercalate (l.map fun x => toString x.1 ++ ":" ++ (if x.2 then "true" else "false"))

def handle (form kind n : String) (toks : List String) : Option String := do
  let f ← match form with
    | "assert" => some Form.assert
    | "mapidx" => some Form.mapIndex
    | "recv" => some Form.receive
    | _ => none
  let k ← kindOfName kind
  let n ← n.toNat?
  if toks.length != n then none
  let es ← toks.mapM pExec
  let vm := match vmRun f k 1 es (fun _ _ => 0) with
    | some l => showRun l
    | none => "undefined"
  pure ("ok " ++ showRun (spec es) ++ " ; " ++ vm)

end K

def handle : List String → Option String
  | "srun" :: np :: rest => do
    let np ← np.toNat?
    S.handle np rest
  | "cok" :: form :: kind :: n :: toks => K.handle form kind n toks
  | ["bin", op, k, x, y] => do
    let op ← Eval.binOfName op
    let k ← Kind.ofName k
    let x ← operand k x
    let y ← operand k y
    pure ("ok " ++ showVM k (vmOp op k (reg x) (reg y) junk) ++ " " ++ showSpec (binop op k x y))
  | ["sh", op, k, kc, x, n] => do
    let op ← Eval.shOfName op
    let k ← Kind.ofName k
    let kc ← Kind.ofName kc
    let x ← operand k x
    let n ← operand kc n
    pure ("ok " ++ showVM k (vmShift op k (reg x) (reg n) junk) ++ " " ++ showSpec (shift op k x n))
  | ["un", op, k, x] => do
    let op ← Eval.unOfName op
    let k ← Kind.ofName k
    let x ← operand k x
    pure ("ok " ++ showVM k (vmUn op k (reg x) junk) ++ " " ++ showSpec (.ok (unop op k x)))
  | ["conv", src, dst, x] => do
    let src ← Kind.ofName src
    let dst ← Kind.ofName dst
    let x ← operand src x
    pure ("ok " ++ showVM dst (vmConv src dst (reg x)) ++ " " ++ showSpec (.ok (conv dst x)))
  | ["convstr", src, x] => do
    let src ← Kind.ofName src
    let x ← operand src x
    pure ("ok " ++ toHex (vmConvStr src (reg x)) ++ " " ++ toHex (intToString x))
  | ["cmp", op, k, x, y] => do
    let op ← Eval.cmpOfName op
    let k ← Kind.ofName k
    let x ← operand k x
    let y ← operand k y
    pure ("ok " ++ toString (vmCmp op k (reg x) (reg y)) ++ " " ++ toString (cmp op x y))
  | "eval" :: n :: rest => do
    let n ← n.toNat?
    if rest.length < n then none
    let env ← ints (rest.take n)
    let toks := rest.drop n
    let (e, left) ← Eval.parse (toks.length + 1) toks
    if !left.isEmpty then none
    let _ ← Eval.typeOf e
    match Eval.eval env e with
    | .ok v => pure ("ok " ++ v.render)
    | .error .other => none
    | .error f => pure ("err " ++ f.name)
  | "compile" :: n :: toks => do
    let n ← n.toNat?
    let (e, _) ← treeOf toks
    let (code, tbl) := compiled n e
    pure ("ok " ++ "; ".intercalate (code.map (instrText tbl)))
  | "crun" :: n :: rest => do
    let n ← n.toNat?
    if rest.length < n then none
    let env ← ints (rest.take n)
    let (e, τ) ← treeOf (rest.drop n)
    let (code, tbl) := compiled n e
    let rf : Compile.RegFile := fun r => match env[r - 1]? with
      | some z => if r = 0 then junk else reg z
      | none => junk
    match Compile.run tbl code rf with
    | .ok (rf', _) =>
      match τ with
      | .int k => pure ("ok " ++ (Eval.Val.int k (val k (rf' (n + 1)))).render)
      | .bool => pure ("ok " ++ (Eval.Val.bool (rf' (n + 1) != 0)).render)
    | .error .other => none
    | .error f => pure ("err " ++ f.name)
  | "ccompile" :: ni :: nb :: toks => do
    let ni ← ni.toNat?
    let nb ← nb.toNat?
    let c ← condOfTokens toks
    if !(condTyped c && Compile.inModel c) then none
    let o := Compile.compileCond (· + 1) (· + (ni + 1)) (· + 1) c ⟨ni + nb, []⟩
    pure ("ok " ++ "; ".intercalate (o.code.map (instrText o.st.consts) ++ [testText o.test]))
  | "ccrun" :: ni :: rest => do
    let ni ← ni.toNat?
    if rest.length < ni + 1 then none
    let env ← ints (rest.take ni)
    let rest := rest.drop ni
    let nb ← (← rest.head?).toNat?
    let rest := rest.drop 1
    if rest.length < nb + 1 then none
    let benv ← bools (rest.take nb)
    let rest := rest.drop nb
    let ns ← (← rest.head?).toNat?
    let rest := rest.drop 1
    if rest.length < ns then none
    let senv ← nats (rest.take ns)
    let c ← condOfTokens (rest.drop ns)
    if !(condTyped c && Compile.inModel c) then none
    let o := Compile.compileCond (· + 1) (· + (ni + 1)) (· + 1) c ⟨ni + nb, []⟩
    let rf : Compile.RegFile := fun r =>
      if r = 0 then junk
      else if r ≤ ni then (match env[r - 1]? with | some z => reg z | none => junk)
      else match benv[r - ni - 1]? with
        | some b => if b then 1 else 0
        | none => junk
    let slen : Nat → Nat := fun r => (senv[r - 1]?).getD 0
    let vm ← showBool ((Compile.runCond o.st.consts slen o rf).map (·.2))
    let spec ← showBool (Compile.evalCond env benv senv c)
    pure (vm ++ " " ++ spec)
  | _ => none

end ScriggoV.Drv.C01
