import ScriggoV.Drv.Util
import ScriggoV.Model.ExprPP
import ScriggoV.Model.OpTables
/-! Line protocol of C27.

* `print <expr>`  → `ok <tokens>`      (`print`)
* `norm <expr>`   → `ok <expr>`        (`norm`)
* `strip <expr>`  → `ok <expr>`        (`strip`)
* `parse <tokens>`→ `ok <expr>` / `err syntax`   (`parse`)
* `assigns` → `ok <Name>…` the AssignmentType constants; `assign <Name>` → `ok <hex>` what
  `(*Assignment).String()` writes; `assignparse <0|1> <hex>` → `ok <Name>` / `err none` (`parseAssignOp`,
  flag = template syntax); `unaryop <hex>` / `binaryop <hex>` → `ok <Op>` / `err none`;
  `lexword <0|1> <hex>` → `ok <hex of tokenString>` / `err none`; `table emits|keywords|template` →
  `ok <hex>…` the texts of a lexer table; `classes expr|stmt|notsource|notnodes|strings|nodes` → `ok <Type>…`

`<expr>` is prefix notation with fixed arity: `I n` identifier `x<n>`, `L <Kind> n` literal,
`U <Op> e`, `B <Op> l r` (`<Op>` = the Go constant without `Operator`), `C <0|1> <k> f a1 … ak`
call (variadic flag, number of arguments), `X e i` index, `Z <0|1> e <opt> <opt> <opt>` slicing
(`O0` / `O1 e`), `S e n` selector `.x<n>`, `T e t` type assertion, `D l r` default, `TS t`, `TA <opt> t`,
`TM k v`, `TC <Direction> t`, `TI` types, `P e` one more pair of parentheses. `<tokens>`: `i<n>`, `n<n>`, `( ) [ ] . , ...` and the operator
spellings. -/
namespace ScriggoV.Drv.C27
open ScriggoV ScriggoV.ExprPP ScriggoV.Gen.Precedence

def unOfName (s : String) : Option UnOp := UnOp.all.find? (fun u => u.toOp.name == s)
def binOfName (s : String) : Option BinOp := BinOp.all.find? (fun b => b.toOp.name == s)

/-- decimal without sign or leading zeros -/
def natOf (s : String) : Option Nat :=
  match s.toNat? with
  | some n => if toString n == s then some n else none
  | none => none

def litOfName (s : String) : Option LiteralType := LiteralType.all.find? (fun k => k.name == s)
def dirOfName (s : String) : Option ChanDirection := ChanDirection.all.find? (fun k => k.name == s)

mutual
def decode : Nat → List String → Option (Expr × List String)
  | 0, _ => none
  | fuel + 1, ws =>
    match ws with
    | "I" :: n :: rest => (natOf n).map fun n => (.ident n, rest)
    | "L" :: k :: n :: rest => do
      let k ← litOfName k
      let n ← natOf n
      pure (.lit k n, rest)
    | "U" :: o :: rest => do
      let u ← unOfName o
      let (e, rest) ← decode fuel rest
      pure (.unary u e, rest)
    | "B" :: o :: rest => do
      let b ← binOfName o
      let (l, rest) ← decode fuel rest
      let (r, rest) ← decode fuel rest
      pure (.binary b l r, rest)
    | "C" :: v :: k :: rest => do
      let v ← (if v == "1" then some true else if v == "0" then some false else none)
      let k ← natOf k
      let (f, rest) ← decode fuel rest
      let (args, rest) ← decodeN fuel k rest
      pure (.call f args v, rest)
    | "X" :: rest => do
      let (e, rest) ← decode fuel rest
      let (i, rest) ← decode fuel rest
      pure (.index e i, rest)
    | "Z" :: v :: rest => do
      let v ← (if v == "1" then some true else if v == "0" then some false else none)
      let (e, rest) ← decode fuel rest
      let (lo, rest) ← decodeOpt fuel rest
      let (hi, rest) ← decodeOpt fuel rest
      let (mx, rest) ← decodeOpt fuel rest
      pure (.slicing e lo hi mx v, rest)
    | "S" :: rest => do
      let (e, rest) ← decode fuel rest
      match rest with
      | n :: rest => (natOf n).map fun n => (.selector e n, rest)
      | [] => none
    | "T" :: rest => do
      let (e, rest) ← decode fuel rest
      let (t, rest) ← decode fuel rest
      pure (.typeAssert e t, rest)
    | "D" :: rest => do
      let (l, rest) ← decode fuel rest
      let (r, rest) ← decode fuel rest
      pure (.dflt l r, rest)
    | "TS" :: rest => do
      let (t, rest) ← decode fuel rest
      pure (.sliceT t, rest)
    | "TA" :: rest => do
      let (len, rest) ← decodeOpt fuel rest
      let (t, rest) ← decode fuel rest
      pure (.arrayT len t, rest)
    | "TM" :: rest => do
      let (k, rest) ← decode fuel rest
      let (v, rest) ← decode fuel rest
      pure (.mapT k v, rest)
    | "TC" :: d :: rest => do
      let d ← dirOfName d
      let (t, rest) ← decode fuel rest
      pure (.chanT d t, rest)
    | "TI" :: rest => some (.iface, rest)
    | "P" :: rest => do
      let (e, rest) ← decode fuel rest
      pure (.paren e, rest)
    | _ => none
def decodeN : Nat → Nat → List String → Option (List Expr × List String)
  | 0, _, _ => none
  | _ + 1, 0, ws => some ([], ws)
  | fuel + 1, k + 1, ws => do
    let (a, rest) ← decode fuel ws
    let (as, rest) ← decodeN fuel k rest
    pure (a :: as, rest)
def decodeOpt : Nat → List String → Option (Option Expr × List String)
  | 0, _ => none
  | fuel + 1, ws =>
    match ws with
    | "O0" :: rest => some (none, rest)
    | "O1" :: rest => do
      let (e, rest) ← decode fuel rest
      pure (some e, rest)
    | _ => none
end

def decodeAll (ws : List String) : Option Expr :=
  match decode (2 * ws.length + 2) ws with
  | some (e, []) => some e
  | _ => none

mutual
def encode : Expr → List String
  | .ident n => ["I", toString n]
  | .lit k n => ["L", k.name, toString n]
  | .unary u e => "U" :: u.toOp.name :: encode e
  | .binary b l r => "B" :: b.toOp.name :: (encode l ++ encode r)
  | .call f args v => "C" :: (if v then "1" else "0") :: toString args.length :: (encode f ++ encodeArgs args)
  | .index e i => "X" :: (encode e ++ encode i)
  | .slicing e lo hi mx v => "Z" :: (if v then "1" else "0") :: (encode e ++ encodeOpt lo ++ encodeOpt hi ++ encodeOpt mx)
  | .selector e n => "S" :: (encode e ++ [toString n])
  | .typeAssert e t => "T" :: (encode e ++ encode t)
  | .dflt l r => "D" :: (encode l ++ encode r)
  | .sliceT t => "TS" :: encode t
  | .arrayT len t => "TA" :: (encodeOpt len ++ encode t)
  | .mapT k v => "TM" :: (encode k ++ encode v)
  | .chanT d t => "TC" :: d.name :: encode t
  | .iface => ["TI"]
  | .paren e => "P" :: encode e
def encodeArgs : List Expr → List String
  | [] => []
  | a :: as => encode a ++ encodeArgs as
def encodeOpt : Option Expr → List String
  | none => ["O0"]
  | some e => "O1" :: encode e
end

def litLetter : LiteralType → String
  | .StringLiteral => "s" | .RuneLiteral => "r" | .IntLiteral => "n" | .FloatLiteral => "f" | .ImaginaryLiteral => "m"

def tokWord : Token → String
  | .ident n => "i" ++ toString n
  | .lit k n => litLetter k ++ toString n
  | .op o => o.text
  | .lparen => "(" | .rparen => ")" | .lbrack => "[" | .rbrack => "]"
  | .period => "." | .comma => "," | .ellipsis => "..." | .colon => ":"
  | .lbrace => "{" | .rbrace => "}"
  | .kwMap => "map" | .kwChan => "chan" | .kwInterface => "interface" | .kwDefault => "default"

def wordTok (w : String) : Option Token :=
  match w with
  | "(" => some .lparen | ")" => some .rparen | "[" => some .lbrack | "]" => some .rbrack
  | "." => some .period | "," => some .comma | "..." => some .ellipsis | ":" => some .colon
  | "{" => some .lbrace | "}" => some .rbrace
  | "map" => some .kwMap | "chan" => some .kwChan | "interface" => some .kwInterface
  | "default" => some .kwDefault
  | _ =>
    match OpTok.all.find? (fun o => o.text == w) with
    | some o => some (.op o)
    | none =>
      let rest := (w.drop 1).toString
      if w.startsWith "i" then (natOf rest).map Token.ident
      else match LiteralType.all.find? (fun k => w.startsWith (litLetter k)) with
        | some k => (natOf rest).map (Token.lit k)
        | none => none

def okWords (ws : List String) : String := "ok " ++ " ".intercalate ws

section optables
open ScriggoV.Gen.OpTokens ScriggoV.OpTables
/-- operator and keyword text is ASCII -/
def textOfHex (h : String) : Option String :=
  if h == "-" then some "" else (fromHex h).map fun b => String.ofList (b.map fun c => Char.ofNat c.toNat)
def hexOfText (s : String) : String :=
  if s.isEmpty then "-" else toHex (s.toList.map fun c => c.toNat.toUInt8)
def flagOf (s : String) : Option Bool := if s == "1" then some true else if s == "0" then some false else none

def handleTables : List String → Option String
  | ["assigns"] => some (okWords (Assign.all.map Assign.name))
  | ["assign", n] => (Assign.all.find? (fun a => a.name == n)).map fun a => "ok " ++ hexOfText a.printed
  | ["assignparse", t, h] => do
    let t ← flagOf t
    let s ← textOfHex h
    match parseAssignOp t s with
    | some a => pure ("ok " ++ a.name)
    | none => pure "err none"
  | ["unaryop", h] => do
    let s ← textOfHex h
    match parseUnaryOp s with
    | some o => pure ("ok " ++ o.name)
    | none => pure "err none"
  | ["binaryop", h] => do
    let s ← textOfHex h
    match parseBinaryOp s with
    | some o => pure ("ok " ++ o.name)
    | none => pure "err none"
  | ["lexword", t, h] => do
    let t ← flagOf t
    let s ← textOfHex h
    match lexWord t s with
    | some k => pure ("ok " ++ hexOfText k.str)
    | none => pure "err none"
  | ["table", "emits"] => some (okWords (lexEmits.map fun e => hexOfText e.1))
  | ["table", "keywords"] => some (okWords (keywords.map fun e => hexOfText e.1))
  | ["table", "template"] => some (okWords (templateKeywords.map fun e => hexOfText e.1))
  | ["classes", "expr"] => some (okWords roundTripExpr)
  | ["classes", "stmt"] => some (okWords roundTripStmt)
  | ["classes", "notsource"] => some (okWords notSource)
  | ["classes", "notnodes"] => some (okWords notNodes)
  | ["classes", "strings"] => some (okWords stringMethods)
  | ["classes", "nodes"] => some (okWords nodeTypes)
  | _ => none
end optables

def handle : List String → Option String
  | "print" :: ws => do
    let e ← decodeAll ws
    pure (okWords ((print e).map tokWord))
  | "norm" :: ws => do
    let e ← decodeAll ws
    pure (okWords (encode (norm e)))
  | "strip" :: ws => do
    let e ← decodeAll ws
    pure (okWords (encode (strip e)))
  | "parse" :: ws => do
    let ts ← ws.mapM wordTok
    match parse ts with
    | some e => pure (okWords (encode e))
    | none => pure "err syntax"
  | ws => handleTables ws

end ScriggoV.Drv.C27
