import ScriggoV.Model.GoStmt
import ScriggoV.Model.CaseBuf
/-! line protocol of C14:
  `seq <mode> <fuel> <chans> <ops>`   the channel operations of one goroutine in sequence (Model/ChanSeq.lean)
     mode  = go (Go's reading) | vm (the VM's reading with a Done channel that is never ready,
             under the buffer policy read off run.go, Model/CaseBuf.lean)
     chans = tokens separated by `:` — nch (cap closed nil nvals val^nvals)^nch
     ops   = tokens separated by `:` — k op^k;
             op := S ch v | R ch | K ch | F ch k op^k | X n dflt case^n | C ch | L ch | Z ch;
             case := r ch form | s ch v
     answer = `ok <trace separated by , or -> done` | `err <blocked|panic|stopped|wrongJump|nofuel> <trace so far is not given>`

  `run <level> <N> <M> <fp0> <caps> <heap> <fuel> <seed> <prog>`
     level = src | vm | vmshare     (source-level system, VM-level system, VM with shared window)
     caps  = channel capacities separated by `,` (`-` = no channels); heap = number of shared cells
     prog  = tokens separated by `:` —  prog := nfuncs func*;  func := k stmt^k;
             stmt := A x e | L x cell | T cell e | S ch e | R x ch | C ch | P e | G e | O f | Y
                   | N n k stmt^k | F x ch k stmt^k;   e := l int | v i | + e e | * e e
     runs function 0 under a pseudo-random schedule (seed) for at most fuel steps
     answer = `ok <printed values separated by , or -> <done|stuck>` -/
namespace ScriggoV.Drv.C14
open ScriggoV.GoStmt

abbrev Toks := List String

def pExpr : Nat → Toks → Option (Expr × Toks)
  | 0, _ => none
  | fuel + 1, t :: ts =>
    match t with
    | "l" => match ts with
      | n :: r => n.toInt?.map (fun i => (Expr.lit i, r))
      | [] => none
    | "v" => match ts with
      | n :: r => n.toNat?.map (fun i => (Expr.var i, r))
      | [] => none
    | "+" => do
      let (a, r1) ← pExpr fuel ts
      let (b, r2) ← pExpr fuel r1
      pure (.add a b, r2)
    | "*" => do
      let (a, r1) ← pExpr fuel ts
      let (b, r2) ← pExpr fuel r1
      pure (.mul a b, r2)
    | _ => none
  | _, [] => none

def pNat : Toks → Option (Nat × Toks)
  | t :: ts => t.toNat?.map (fun n => (n, ts))
  | [] => none

mutual
def pStmt : Nat → Toks → Option (Stmt × Toks)
  | 0, _ => none
  | fuel + 1, t :: ts =>
    match t with
    | "A" => do let (x, r) ← pNat ts; let (e, r) ← pExpr 64 r; pure (.assign x e, r)
    | "L" => do let (x, r) ← pNat ts; let (c, r) ← pNat r; pure (.load x c, r)
    | "T" => do let (c, r) ← pNat ts; let (e, r) ← pExpr 64 r; pure (.store c e, r)
    | "S" => do let (c, r) ← pNat ts; let (e, r) ← pExpr 64 r; pure (.send c e, r)
    | "R" => do let (x, r) ← pNat ts; let (c, r) ← pNat r; pure (.recv x c, r)
    | "C" => do let (c, r) ← pNat ts; pure (.close c, r)
    | "P" => do let (e, r) ← pExpr 64 ts; pure (.print e, r)
    | "G" => do let (e, r) ← pExpr 64 ts; pure (.arg e, r)
    | "O" => do let (f, r) ← pNat ts; pure (.go f, r)
    | "Y" => pure (.yield, ts)
    | "N" => do
      let (n, r) ← pNat ts
      let (k, r) ← pNat r
      let (body, r) ← pStmts fuel k r
      pure (.repeat n body, r)
    | "F" => do
      let (x, r) ← pNat ts
      let (c, r) ← pNat r
      let (k, r) ← pNat r
      let (body, r) ← pStmts fuel k r
      pure (.rangeCh x c body, r)
    | _ => none
  | _, [] => none
def pStmts : Nat → Nat → Toks → Option (List Stmt × Toks)
  | 0, _, _ => none
  | _ + 1, 0, ts => some ([], ts)
  | fuel + 1, k + 1, ts => do
    let (s, r) ← pStmt fuel ts
    let (ss, r) ← pStmts fuel k r
    pure (s :: ss, r)
end

def pFuncs : Nat → Toks → Option (List (List Stmt) × Toks)
  | 0, ts => some ([], ts)
  | n + 1, ts => do
    let (k, r) ← pNat ts
    let (body, r) ← pStmts 4096 k r
    let (fs, r) ← pFuncs n r
    pure (body :: fs, r)

def parseProg (s : String) : Option (List (List Stmt)) := do
  let (n, r) ← pNat (s.splitOn ":")
  let (fs, r) ← pFuncs n r
  if r.isEmpty then pure fs else none

def showTrace (l : List Int) : String :=
  if l.isEmpty then "-" else ",".intercalate (l.map toString)

/-! ### channel operations in sequence -/
section Seq
open ScriggoV.ChanSeq

def pInt : Toks → Option (Int × Toks)
  | t :: ts => t.toInt?.map (fun n => (n, ts))
  | [] => none

def pVals : Nat → Toks → Option (List Int × Toks)
  | 0, ts => some ([], ts)
  | n + 1, ts => do
    let (v, r) ← pInt ts
    let (vs, r) ← pVals n r
    pure (v :: vs, r)

def pChans : Nat → Toks → Option (List Ch × Toks)
  | 0, ts => some ([], ts)
  | n + 1, ts => do
    let (cap, r) ← pNat ts
    let (cl, r) ← pNat r
    let (nl, r) ← pNat r
    let (k, r) ← pNat r
    let (vs, r) ← pVals k r
    let (cs, r) ← pChans n r
    pure (⟨cap, vs, cl != 0, nl != 0⟩ :: cs, r)

def pCases : Nat → Toks → Option (List SCase × Toks)
  | 0, ts => some ([], ts)
  | n + 1, t :: ts => do
    let (c, r) ← match t with
      | "r" => do let (ch, r) ← pNat ts; let (f, r) ← pNat r; pure (SCase.recv ch f, r)
      | "s" => do let (ch, r) ← pNat ts; let (v, r) ← pInt r; pure (SCase.send ch v, r)
      | _ => none
    let (cs, r) ← pCases n r
    pure (c :: cs, r)
  | _ + 1, [] => none

mutual
def pOp : Nat → Toks → Option (Op × Toks)
  | 0, _ => none
  | fuel + 1, t :: ts =>
    match t with
    | "S" => do let (c, r) ← pNat ts; let (v, r) ← pInt r; pure (.send c v, r)
    | "R" => do let (c, r) ← pNat ts; pure (.recv c, r)
    | "K" => do let (c, r) ← pNat ts; pure (.recvOk c, r)
    | "C" => do let (c, r) ← pNat ts; pure (.close c, r)
    | "L" => do let (c, r) ← pNat ts; pure (.lenCap c, r)
    | "Z" => do let (c, r) ← pNat ts; pure (.setNil c, r)
    | "F" => do
      let (c, r) ← pNat ts
      let (k, r) ← pNat r
      let (body, r) ← pOps fuel k r
      pure (.range c body, r)
    | "X" => do
      let (n, r) ← pNat ts
      let (d, r) ← pNat r
      let (cs, r) ← pCases n r
      pure (.sel cs (d != 0), r)
    | _ => none
  | _, [] => none
def pOps : Nat → Nat → Toks → Option (List Op × Toks)
  | 0, _, _ => none
  | _ + 1, 0, ts => some ([], ts)
  | fuel + 1, k + 1, ts => do
    let (o, r) ← pOp fuel ts
    let (os, r) ← pOps fuel k r
    pure (o :: os, r)
end

def showErr : Err → String
  | .blocked => "blocked" | .panic => "panic" | .stopped => "stopped"
  | .wrongJump => "wrongJump" | .nofuel => "nofuel"

def handleSeq (mode fuel chans ops : String) : Option String := do
  let fuel ← fuel.toNat?
  let (nch, r) ← pNat (chans.splitOn ":")
  let (chs, r) ← pChans nch r
  if !r.isEmpty then none
  let (k, r) ← pNat (ops.splitOn ":")
  let (code, r) ← pOps 4096 k r
  if !r.isEmpty then none
  let res ← match mode with
    | "go" => some (run false Policy.good fuel ⟨code, chs, [], []⟩)
    | "vm" => some (run true ScriggoV.CaseBuf.policyOfCode fuel ⟨code, chs, [], []⟩)
    | _ => none
  match res with
  | .ok c => pure s!"ok {showTrace c.trace} done"
  | .error e => pure s!"err {showErr e}"

end Seq

def handle : List String → Option String
  | ["seq", mode, fuel, chans, ops] => handleSeq mode fuel chans ops
  | ["run", level, n, m, fp0, caps, heap, fuel, seed, prog] => do
    let N ← n.toNat?
    let M ← m.toNat?
    let fp0 ← fp0.toNat?
    let heap ← heap.toNat?
    let fuel ← fuel.toNat?
    let seed ← seed.toNat?
    let caps ← if caps == "-" then some [] else (caps.splitOn ",").mapM String.toNat?
    let funcs ← parseProg prog
    let P : Prog := ⟨N, M, funcs⟩
    let sh : Shared := ⟨List.replicate heap 0, caps.map (fun c => ⟨c, [], false, false⟩), []⟩
    match level with
    | "src" =>
      let s := srunRandom P fuel seed (sinit P sh)
      pure s!"ok {showTrace s.sh.trace} {if allDone s then "done" else "stuck"}"
    | "vm" =>
      let s := vrunRandom P false fuel seed (vinit P fp0 sh)
      pure s!"ok {showTrace s.sh.trace} {if allDone (abs P s) then "done" else "stuck"}"
    | "vmshare" =>
      let s := vrunRandom P true fuel seed (vinit P fp0 sh)
      pure s!"ok {showTrace s.sh.trace} {if allDone (abs P s) then "done" else "stuck"}"
    | _ => none
  | _ => none

end ScriggoV.Drv.C14
