import ScriggoV.Model.Order
import ScriggoV.Model.DeclOrder
import ScriggoV.Gen.MapRanges
import ScriggoV.Spec.MapRangeClasses
/-! Line protocol of C30.

    count                      -> ok <generated sites> <classified sites>
    site <i>                   -> ok <file> <fn> <class> <hash> <generated hash>
    fold <class> <k> <v> …     -> ok <canonical final state>     (model of the class on the entries, in this order)
    sortdecls <mode> (<kind> <name> <deps>)…
                               -> ok <resolvable 0|1> <source position> …
        the declarations of a package in source order (kind const|var|type|func, name `_` when
        blank, deps the global names used, comma-separated, `-` for none); the answer is the order
        of Model/DeclOrder.sortDeclarations (positions in the request) and whether every
        declaration comes after what it uses. mode: byid (the dependency map looked up by
        identifier), byname / byname-rev (by name, the map enumerated in source order / reversed)

`fold` runs the abstract step of a class with fixed concrete parameters on the given entries;
the harness sends a list and a shuffle of it (spec validation of `Model/Order.lean`). -/
namespace ScriggoV.Drv.C30
open ScriggoV.Order ScriggoV.Spec.MapRangeClasses

def pairs : List String → Option (List (Nat × Nat))
  | [] => some []
  | k :: v :: rest => do
    let k ← k.toNat?
    let v ← v.toNat?
    let r ← pairs rest
    pure ((k, v) :: r)
  | _ => none

def showFn (keys : List Nat) (s : Nat → Nat) : String :=
  " ".intercalate (keys.map (fun k => toString k ++ "=" ++ toString (s k)))

def showOpt : Option (Nat × Nat) → String
  | none => "none"
  | some (k, v) => toString k ++ ":" ++ toString v

def insertSorted (x : Nat) : List Nat → List Nat
  | [] => [x]
  | y :: ys => if x ≤ y then x :: y :: ys else y :: insertSorted x ys

def fold (cls : String) (l : List (Nat × Nat)) : Option String :=
  let keys := (List.range 16)
  match cls with
  | "distinctKeyUpdate" =>
    some (showFn keys (l.foldl (stepDistinctKey (fun k v old => (old * 31 + k * 7 + v) % 1000)) (fun _ => 1)))
  | "existence" => some (toString (l.foldl (stepExists (fun e => e.2 % 3 == 0)) false))
  | "uniqueMatch" =>
    some (toString (l.foldl (stepLastMatch (fun e => e.1 == 3) (fun e => e.2)) none) ++ " " ++
          toString (l.foldl (stepFirstMatch (fun e => e.1 == 3) (fun e => e.2)) none))
  | "minMaxSelect" =>
    some (showOpt (l.foldl (stepArgMin (fun e => e.1 % 2 == 0) (fun e => e.2)) none) ++ " " ++
          toString (l.foldl (stepMax (fun e => e.2)) 0))
  | "collectThenSort" =>
    some (" ".intercalate (((l.map Prod.fst).foldl stepCollect []).foldr insertSorted [] |>.map toString))
  | "commutativeAccumulate" =>
    some (" ".intercalate (keys.map (fun k =>
      toString ((l.map (fun e => (e.1 % 4, e.2 % 2 == 0))).foldl stepAndAcc (fun _ => none) k))))
  | "disjointUnion" =>
    -- entry (k, v) stands for the one-element map {k ↦ v}: distinct keys = disjoint maps
    some (" ".intercalate (keys.map (fun k =>
      toString ((l.map (fun e => fun k' => if k' = e.1 then some e.2 else none)).foldl stepUnion (fun _ => none) k))))
  | "orderSensitiveEmission" =>
    some (" ".intercalate (l.foldl (stepEmit (fun e => "SetVar " ++ toString e.1 ++ " " ++ toString e.2)) []))
  | _ => none

def kindOf : String → Option DeclOrder.Kind
  | "const" => some .const | "var" => some .var | "type" => some .type | "func" => some .func
  | _ => none

def declsOf : Nat → List String → Option DeclOrder.Entries
  | _, [] => some []
  | i, k :: n :: d :: rest => do
    let k ← kindOf k
    let r ← declsOf (i + 1) rest
    let ds := if d == "-" then [] else d.splitOn ","
    pure ((⟨i, k, n⟩, ds) :: r)
  | _, _ => none

def sortdecls (mode : String) (es : DeclOrder.Entries) : Option String := do
  let lookup ← match mode with
    | "byid" => some (DeclOrder.byId es)
    | "byname" => some (DeclOrder.byName es)
    | "byname-rev" => some (DeclOrder.byName es.reverse)
    | _ => none
  let order := DeclOrder.sortDeclarations lookup (es.map (·.1))
  let res := DeclOrder.resolvable (DeclOrder.byId es) order
  pure ((if res then "1" else "0") ++ " " ++ " ".intercalate (order.map (fun d => toString d.id)))

def handle : List String → Option String
  | "sortdecls" :: mode :: rest => do
    let es ← declsOf 0 rest
    let r ← sortdecls mode es
    pure ("ok " ++ r)
  | ["count"] =>
    some ("ok " ++ toString Gen.MapRanges.sites.length ++ " " ++ toString Classified.sites.length)
  | ["site", i] => do
    let i ← i.toNat?
    let c ← Classified.sites[i]?
    let g := (Gen.MapRanges.sites[i]?).map (·.hash) |>.getD "-"
    pure ("ok " ++ c.file ++ " " ++ c.fn ++ " " ++ c.cls.name ++ " " ++ c.hash ++ " " ++ g)
  | "fold" :: cls :: rest => do
    let l ← pairs rest
    let r ← fold cls l
    pure ("ok " ++ r)
  | _ => none

end ScriggoV.Drv.C30
