import ScriggoV.Model.TypeCheck
import ScriggoV.Model.Terminating
import ScriggoV.Model.Assignable
import ScriggoV.Model.TypeIdent
/-! Line protocol of C03: `prog <n> <stmt>…` in prefix notation (see go/props/c03/ast.go).
Answer: `ok <id>:<type>[:<value>] …` (names in order of declaration), `rej <rule>`,
`outside <why>`. Anything unparsable → `none` (`bad-op`). -/
namespace ScriggoV.Drv.C03
open ScriggoV.TypeCheck

def parseBType (s : String) : Option BType :=
  match s with
  | "float64" => some .float64
  | "string" => some .string
  | "bool" => some .bool
  | _ => (IKind.all.find? (fun k => k.name == s)).map .int

def parseUn : String → Option UnOp
  | "add" => some .plus | "sub" => some .minus | "xor" => some .xor | "not" => some .not
  | _ => none

def parseBin : String → Option BinOp
  | "add" => some .add | "sub" => some .sub | "mul" => some .mul | "quo" => some .quo
  | "rem" => some .rem | "and" => some .and | "or" => some .or | "xor" => some .xor
  | "andnot" => some .andnot | "shl" => some .shl | "shr" => some .shr
  | "eq" => some .eq | "ne" => some .ne | "lt" => some .lt | "le" => some .le
  | "gt" => some .gt | "ge" => some .ge | "land" => some .land | "lor" => some .lor
  | _ => none

def hexDigit (c : Char) : Option Nat :=
  if '0' ≤ c ∧ c ≤ '9' then some (c.toNat - '0'.toNat)
  else if 'a' ≤ c ∧ c ≤ 'f' then some (c.toNat - 'a'.toNat + 10)
  else none

def hexBytes : List Char → Option (List UInt8)
  | [] => some []
  | a :: b :: rest => do
    let x ← hexDigit a
    let y ← hexDigit b
    let r ← hexBytes rest
    pure ((x * 16 + y).toUInt8 :: r)
  | _ => none

def parseStr (h : String) : Option String :=
  if h == "-" then some "" else do
    let bs ← hexBytes h.toList
    String.fromUTF8? (ByteArray.mk bs.toArray)

def hexOfString (s : String) : String :=
  if s.isEmpty then "-" else
    let hd (n : Nat) : Char := if n < 10 then Char.ofNat (n + 48) else Char.ofNat (n + 87)
    String.ofList (s.toUTF8.toList.flatMap (fun b => [hd (b.toNat / 16), hd (b.toNat % 16)]))

/-- parse one expression; fuel = number of tokens -/
def parseExpr : Nat → List String → Option (Expr × List String)
  | 0, _ => none
  | fuel + 1, toks =>
    match toks with
    | "i" :: n :: rest => do let v ← n.toNat?; pure (.intLit v, rest)
    | "f" :: n :: d :: rest => do
      let nv ← n.toInt?
      let dv ← d.toNat?
      if dv = 0 then none else pure (.floatLit (mkRat nv dv), rest)
    | "r" :: n :: rest => do let v ← n.toNat?; pure (.runeLit v, rest)
    | "s" :: h :: rest => do let s ← parseStr h; pure (.strLit s, rest)
    | "true" :: rest => some (.boolLit true, rest)
    | "false" :: rest => some (.boolLit false, rest)
    | "nil" :: rest => some (.nilLit, rest)
    | "v" :: n :: rest => do let v ← n.toNat?; pure (.ident v, rest)
    | "u" :: o :: rest => do
      let op ← parseUn o
      let (e, rest) ← parseExpr fuel rest
      pure (.unary op e, rest)
    | "b" :: o :: rest => do
      let op ← parseBin o
      let (a, rest) ← parseExpr fuel rest
      let (b, rest) ← parseExpr fuel rest
      pure (.binary op a b, rest)
    | "c" :: t :: rest => do
      let ty ← parseBType t
      let (e, rest) ← parseExpr fuel rest
      pure (.conv ty e, rest)
    | _ => none

def parseStmt (toks : List String) : Option (Stmt × List String) :=
  let fuel := toks.length + 1
  match toks with
  | "var0" :: x :: t :: rest => do
    let id ← x.toNat?; let ty ← parseBType t
    pure (.varDecl id (some ty) none, rest)
  | "var" :: x :: t :: rest => do
    let id ← x.toNat?; let ty ← parseBType t
    let (e, rest) ← parseExpr fuel rest
    pure (.varDecl id (some ty) (some e), rest)
  | "vari" :: x :: rest => do
    let id ← x.toNat?
    let (e, rest) ← parseExpr fuel rest
    pure (.varDecl id none (some e), rest)
  | "short" :: x :: rest => do
    let id ← x.toNat?
    let (e, rest) ← parseExpr fuel rest
    pure (.shortDecl id e, rest)
  | "short2" :: x :: y :: rest => do
    let id ← x.toNat?; let id2 ← y.toNat?
    let (e1, rest) ← parseExpr fuel rest
    let (e2, rest) ← parseExpr fuel rest
    pure (.shortDecl2 id id2 e1 e2, rest)
  | "const" :: x :: t :: rest => do
    let id ← x.toNat?; let ty ← parseBType t
    let (e, rest) ← parseExpr fuel rest
    pure (.constDecl id (some ty) e, rest)
  | "consti" :: x :: rest => do
    let id ← x.toNat?
    let (e, rest) ← parseExpr fuel rest
    pure (.constDecl id none e, rest)
  | "asg" :: x :: rest => do
    let id ← x.toNat?
    let (e, rest) ← parseExpr fuel rest
    pure (.assign id e, rest)
  | "blank" :: rest => do
    let (e, rest) ← parseExpr fuel rest
    pure (.assignBlank e, rest)
  | "opasg" :: o :: x :: rest => do
    let op ← parseBin o; let id ← x.toNat?
    let (e, rest) ← parseExpr fuel rest
    pure (.opAssign op id e, rest)
  | "inc" :: x :: rest => do let id ← x.toNat?; pure (.incDec true id, rest)
  | "dec" :: x :: rest => do let id ← x.toNat?; pure (.incDec false id, rest)
  | _ => none

def parseStmts : Nat → List String → Option (List Stmt)
  | 0, [] => some []
  | 0, _ => none
  | n + 1, toks => do
    let (s, rest) ← parseStmt toks
    let ss ← parseStmts n rest
    pure (s :: ss)

def showVal : CVal → String
  | .int n => toString n
  | .rat q => if q.den = 1 then toString q.num else toString q.num ++ "/" ++ toString q.den
  | .bool b => if b then "true" else "false"
  | .str s => "s" ++ hexOfString s

def showTy : Ty → String
  | .typed t => t.name
  | .untyped u => u.name
  | .nil => "nil"

def showEntry (x : Nat) : Entry → String
  | .var t => toString x ++ ":" ++ t.name
  | .const ty v => toString x ++ ":" ++ showTy ty ++ ":" ++ showVal v

def answer (r : Except Rej Env) : String :=
  match r with
  | .ok Γ => String.intercalate " " ("ok" :: (Γ.reverse.map (fun (x, e) => showEntry x e)))
  | .error r => if r.isOutside then "outside " ++ r.name else "rej " ++ r.name

/-! `term <n> <stmt>…`: the skeleton of a function body; answer `ok terminating` / `ok falls-off`.
Statements: `simple ret panic goto fall`, `brk -|<l>`, `cont -|<l>`, `block <n> …`, `ifonly <n> …`,
`ifelse <n> … <stmt>`, `for <cond 0|1> <range 0|1> <n> …`, `sw <expr|type|select> <dflt 0|1> <k> (<n> …)×k`,
`lab <l> <stmt>`. -/
open ScriggoV.Terminating in
mutual
def parseT : Nat → List String → Option (TStmt × List String)
  | 0, _ => none
  | fuel + 1, toks =>
    match toks with
    | "simple" :: rest => some (.simple, rest)
    | "ret" :: rest => some (.ret, rest)
    | "panic" :: rest => some (.panicCall, rest)
    | "goto" :: rest => some (.gotoS, rest)
    | "fall" :: rest => some (.fall, rest)
    | "brk" :: "-" :: rest => some (.brk none, rest)
    | "brk" :: l :: rest => do let n ← l.toNat?; pure (.brk (some n), rest)
    | "cont" :: "-" :: rest => some (.cont none, rest)
    | "cont" :: l :: rest => do let n ← l.toNat?; pure (.cont (some n), rest)
    | "block" :: n :: rest => do
      let k ← n.toNat?
      let (ss, rest) ← parseTL fuel k rest
      pure (.block ss, rest)
    | "ifonly" :: n :: rest => do
      let k ← n.toNat?
      let (ss, rest) ← parseTL fuel k rest
      pure (.ifOnly ss, rest)
    | "ifelse" :: n :: rest => do
      let k ← n.toNat?
      let (ss, rest) ← parseTL fuel k rest
      let (e, rest) ← parseT fuel rest
      pure (.ifElse ss e, rest)
    | "for" :: c :: r :: n :: rest => do
      let k ← n.toNat?
      let (ss, rest) ← parseTL fuel k rest
      pure (.forS (c == "1") (r == "1") ss, rest)
    | "sw" :: kind :: d :: n :: rest => do
      let kd ← match kind with
        | "expr" => some SwKind.expr | "type" => some SwKind.type | "select" => some SwKind.select | _ => none
      let k ← n.toNat?
      let (cs, rest) ← parseTC fuel k rest
      pure (.sw kd (d == "1") cs, rest)
    | "lab" :: l :: rest => do
      let n ← l.toNat?
      let (s, rest) ← parseT fuel rest
      pure (.labeled n s, rest)
    | _ => none
def parseTL : Nat → Nat → List String → Option (TList × List String)
  | 0, _, _ => none
  | _ + 1, 0, toks => some (.nil, toks)
  | fuel + 1, k + 1, toks => do
    let (s, rest) ← parseT fuel toks
    let (ss, rest) ← parseTL fuel k rest
    pure (.cons s ss, rest)
def parseTC : Nat → Nat → List String → Option (TClauses × List String)
  | 0, _, _ => none
  | _ + 1, 0, toks => some (.nil, toks)
  | fuel + 1, k + 1, toks =>
    match toks with
    | n :: rest => do
      let m ← n.toNat?
      let (c, rest) ← parseTL fuel m rest
      let (cs, rest) ← parseTC fuel k rest
      pure (.cons c cs, rest)
    | [] => none
end

/-! `asg <value> <type>`: assignability in the universe of Model/Assignable.lean. Types in prefix
notation: `b` `i` `s` (bool int string), `l <n>` (opaque literal), `if <k> <method>…`,
`p <T>`, `sl <T>`, `nm <id> <T> <kv> <method>… <kp> <method>…`. Values: `ub` (untyped boolean),
`nil`, `t <T>`. Answer `ok true` / `ok false`. -/
def takeN : Nat → List String → Option (List String × List String)
  | 0, toks => some ([], toks)
  | k + 1, t :: rest => do
    let (xs, rest) ← takeN k rest
    pure (t :: xs, rest)
  | _ + 1, [] => none

def parseATy : Nat → List String → Option (ScriggoV.Assignable.ATy × List String)
  | 0, _ => none
  | fuel + 1, toks =>
    match toks with
    | "b" :: rest => some (.bool, rest)
    | "i" :: rest => some (.int, rest)
    | "s" :: rest => some (.string, rest)
    | "l" :: n :: rest => do let k ← n.toNat?; pure (.lit k, rest)
    | "if" :: n :: rest => do
      let k ← n.toNat?
      let (ms, rest) ← takeN k rest
      pure (.iface ms, rest)
    | "p" :: rest => do let (e, rest) ← parseATy fuel rest; pure (.ptr e, rest)
    | "sl" :: rest => do let (e, rest) ← parseATy fuel rest; pure (.slice e, rest)
    | "nm" :: n :: rest => do
      let id ← n.toNat?
      let (u, rest) ← parseATy fuel rest
      match rest with
      | kv :: rest => do
        let k ← kv.toNat?
        let (vms, rest) ← takeN k rest
        match rest with
        | kp :: rest => do
          let k ← kp.toNat?
          let (pms, rest) ← takeN k rest
          pure (.named id u vms pms, rest)
        | [] => none
      | [] => none
    | _ => none

def parseAVal (toks : List String) : Option (ScriggoV.Assignable.AVal × List String) :=
  match toks with
  | "ub" :: rest => some (.untypedBool, rest)
  | "nil" :: rest => some (.nil, rest)
  | "t" :: rest => do let (t, rest) ← parseATy (rest.length + 1) rest; pure (.typed t, rest)
  | _ => none

/-! `tid <V> <T>`: type identity, assignability of a V value to T, convertibility, in the
universe of Model/TypeIdent.lean. Types in prefix notation: `b <basic>`, `n <id> <U>`, `p <T>`,
`s <T>`, `a <len> <T>`, `m <K> <E>`, `c <0|1|2> <T>` (chan, <-chan, chan<-),
`f <np> <T>… <nr> <T>… <0|1>` (variadic), `st <k> (<name> <tag hex|-> <emb 0|1> <T>)×k`,
`i <k> (<name> <T>)×k`. Answer `ok <identical> <assignable> <convertible>` (0/1). -/
section TypeIdent
open ScriggoV.TypeIdent

def parseBKind : String → Option BKind
  | "bool" => some .bool | "int" => some .int | "int8" => some .int8 | "int16" => some .int16
  | "int32" => some .int32 | "int64" => some .int64 | "uint" => some .uint | "uint8" => some .uint8
  | "uint16" => some .uint16 | "uint32" => some .uint32 | "uint64" => some .uint64
  | "uintptr" => some .uintptr | "float32" => some .float32 | "float64" => some .float64
  | "complex64" => some .complex64 | "complex128" => some .complex128 | "string" => some .string
  | _ => none

mutual
def parseTy : Nat → List String → Option (ScriggoV.TypeIdent.Ty × List String)
  | 0, _ => none
  | fuel + 1, toks =>
    match toks with
    | "b" :: k :: rest => do let b ← parseBKind k; pure (.basic b, rest)
    | "n" :: n :: rest => do
      let id ← n.toNat?
      let (u, rest) ← parseTy fuel rest
      pure (.named id u, rest)
    | "p" :: rest => do let (e, rest) ← parseTy fuel rest; pure (.ptr e, rest)
    | "s" :: rest => do let (e, rest) ← parseTy fuel rest; pure (.slice e, rest)
    | "a" :: n :: rest => do
      let k ← n.toNat?
      let (e, rest) ← parseTy fuel rest
      pure (.array k e, rest)
    | "m" :: rest => do
      let (k, rest) ← parseTy fuel rest
      let (e, rest) ← parseTy fuel rest
      pure (.map k e, rest)
    | "c" :: d :: rest => do
      let dir ← match d with
        | "0" => some Dir.both | "1" => some Dir.recv | "2" => some Dir.send | _ => none
      let (e, rest) ← parseTy fuel rest
      pure (.chan dir e, rest)
    | "f" :: n :: rest => do
      let np ← n.toNat?
      let (ps, rest) ← parseTyList fuel np rest
      match rest with
      | m :: rest => do
        let nr ← m.toNat?
        let (rs, rest) ← parseTyList fuel nr rest
        match rest with
        | "0" :: rest => pure (.func ps rs false, rest)
        | "1" :: rest => pure (.func ps rs true, rest)
        | _ => none
      | [] => none
    | "st" :: n :: rest => do
      let k ← n.toNat?
      let (fs, rest) ← parseFields fuel k rest
      pure (.struct fs, rest)
    | "i" :: n :: rest => do
      let k ← n.toNat?
      let (ms, rest) ← parseMethods fuel k rest
      pure (.iface ms, rest)
    | _ => none
def parseTyList : Nat → Nat → List String → Option (TyList × List String)
  | 0, _, _ => none
  | _ + 1, 0, toks => some (.nil, toks)
  | fuel + 1, k + 1, toks => do
    let (t, rest) ← parseTy fuel toks
    let (ts, rest) ← parseTyList fuel k rest
    pure (.cons t ts, rest)
def parseFields : Nat → Nat → List String → Option (Fields × List String)
  | 0, _, _ => none
  | _ + 1, 0, toks => some (.nil, toks)
  | fuel + 1, k + 1, toks =>
    match toks with
    | name :: tag :: emb :: rest => do
      let tg ← parseStr tag
      let e ← match emb with | "0" => some false | "1" => some true | _ => none
      let (t, rest) ← parseTy fuel rest
      let (fs, rest) ← parseFields fuel k rest
      pure (.cons name tg e t fs, rest)
    | _ => none
def parseMethods : Nat → Nat → List String → Option (Methods × List String)
  | 0, _, _ => none
  | _ + 1, 0, toks => some (.nil, toks)
  | fuel + 1, k + 1, toks =>
    match toks with
    | name :: rest => do
      let (t, rest) ← parseTy fuel rest
      let (ms, rest) ← parseMethods fuel k rest
      pure (.cons name t ms, rest)
    | [] => none
end

def tid (toks : List String) : Option String := do
  let (v, rest) ← parseTy (2 * toks.length + 4) toks
  let (t, rest) ← parseTy (2 * toks.length + 4) rest
  if !rest.isEmpty then none
  else
    let bit (b : Bool) := if b then "1" else "0"
    pure ("ok " ++ bit (identical false v t) ++ " " ++ bit (assignable v t) ++ " " ++ bit (convertible v t))

end TypeIdent

def handle : List String → Option String
  | "tid" :: toks => tid toks
  | "asg" :: toks => do
    let (v, rest) ← parseAVal toks
    let (t, rest) ← parseATy (rest.length + 1) rest
    if !rest.isEmpty then none
    else pure (if v.assignableTo t then "ok true" else "ok false")
  | "prog" :: n :: toks => do
    let k ← n.toNat?
    let ss ← parseStmts k toks
    pure (answer (checkProgram ss))
  | "term" :: n :: toks => do
    let k ← n.toNat?
    let (ss, rest) ← parseTL (2 * toks.length + 4) k toks
    if !rest.isEmpty then none
    else pure (if ScriggoV.Terminating.terminatingL ss then "ok terminating" else "ok falls-off")
  | "expr" :: toks => do
    -- one closed expression: type and constant value
    let (e, rest) ← parseExpr (toks.length + 1) toks
    if !rest.isEmpty then none
    else match checkExpr [] e with
      | .ok o => pure ("ok " ++ showTy o.ty ++ (match o.val with | some v => ":" ++ showVal v | none => ""))
      | .error r => pure (if r.isOutside then "outside " ++ r.name else "rej " ++ r.name)
  | _ => none

end ScriggoV.Drv.C03
