import ScriggoV.Drv.Util
import ScriggoV.Model.HTMLEscape
namespace ScriggoV.Drv.C24
open ScriggoV

def handle : List String → Option String
  | ["htmlescape", h] => do
    let s ← fromHex h
    pure (exceptBytes (HTMLEscape.htmlEscape s))
  | ["spec", h] => do
    let s ← fromHex h
    pure (okBytes (HTMLEscape.spec s))
  | _ => none

end ScriggoV.Drv.C24
