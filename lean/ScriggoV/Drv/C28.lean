import ScriggoV.Model.Tree
import ScriggoV.Gen.AstSchema
import ScriggoV.Spec.AstAssumptions
import ScriggoV.Model.CloneAttrs
/-! Line protocol of C28.

    kinds | fields | annotations                      -> ok <name>…
    schema|xref|ptr|list|cloned|handCopied|cloneUnguarded|walkUnguarded|neverNil|neverParenthesised <Kind>   -> ok <field>…
    walked <Kind>                                     -> ok <step>…      step = F | F>G
    isexpr|cloneHandled|walkHandled|walkIncomplete <Kind>  -> ok true|false
    ids <tree> | walk <tree>                          -> ok <id>…
    clone <off> <tree>                                -> ok <tree>
    parenOut <Kind> <p>                               -> ok <count|none>…   one per exit of the arm
    clonePos <Kind>                                   -> ok cloned|ctor|other

tree (prefix, fixed arity):  <Kind> <id> <n> (<field> <tree>)^n        -/
namespace ScriggoV.Drv.C28
open ScriggoV.Tree ScriggoV.Gen.AstSchema ScriggoV.Spec.AstAssumptions ScriggoV.CloneAttrs

abbrev Tr := T Kind Field
abbrev Fo := F Kind Field

mutual
/-- parse one tree from the token list; fuel bounds the recursion (one unit per token) -/
def parseT : Nat → List String → Option (Tr × List String)
  | 0, _ => none
  | fuel+1, k :: i :: n :: rest => do
    let k ← Kind.ofName k
    let i ← i.toNat?
    let n ← n.toNat?
    let (cs, rest) ← parseF fuel n rest
    pure (.node k i cs, rest)
  | _, _ => none
def parseF : Nat → Nat → List String → Option (Fo × List String)
  | _, 0, rest => some (.nil, rest)
  | 0, _, _ => none
  | fuel+1, n+1, f :: rest => do
    let f ← Field.ofName f
    let (t, rest) ← parseT fuel rest
    let (cs, rest) ← parseF fuel n rest
    pure (.cons f t cs, rest)
  | _, _, _ => none
end

def parseTree (ws : List String) : Option Tr :=
  match parseT (ws.length + 1) ws with
  | some (t, []) => some t
  | _ => none

mutual
def lenF : Fo → Nat
  | .nil => 0
  | .cons _ _ rest => 1 + lenF rest
def showT : Tr → List String
  | .node k i cs => k.name :: toString i :: toString (lenF cs) :: showF cs
def showF : Fo → List String
  | .nil => []
  | .cons f t rest => f.name :: (showT t ++ showF rest)
end

def okWords (ws : List String) : String := " ".intercalate ("ok" :: ws)
def fieldsOf (l : List Field) : String := okWords (l.map Field.name)
def stepName : Step Field → String
  | .field f => f.name
  | .through f g => f.name ++ ">" ++ g.name

def handle : List String → Option String
  | ["kinds"] => some (okWords (Kind.all.map Kind.name))
  | ["fields"] => some (okWords (Field.all.map Field.name))
  | ["annotations"] => some (okWords (annotations.map (fun p => p.1.name ++ "." ++ p.2)))
  | ["parenOut", k, p] => do
    let k ← Kind.ofName k
    let p ← p.toNat?
    pure (okWords ((cloneExits k).map (fun e => match parenOut cloneEpilogueParen p e with
      | some n => toString n
      | none => "none")))
  | ["clonePos", k] => do
    let k ← Kind.ofName k
    pure (okWords [match clonePos k with | .cloned => "cloned" | .ctor => "ctor" | .other => "other"])
  | [op, k] => do
    let k ← Kind.ofName k
    match op with
    | "schema" => pure (fieldsOf (schema k))
    | "xref" => pure (fieldsOf (xref k))
    | "ptr" => pure (fieldsOf (ptrFields k))
    | "list" => pure (fieldsOf (listFields k))
    | "cloned" => pure (fieldsOf (cloned k))
    | "cloneUnguarded" => pure (fieldsOf (cloneUnguarded k))
    | "walkUnguarded" => pure (fieldsOf (walkUnguarded k))
    | "neverNil" => pure (fieldsOf (neverNil k))
    | "neverParenthesised" => pure (fieldsOf (neverParenthesised k))
    | "handCopied" => pure (fieldsOf (handCopied k))
    | "walked" => pure (okWords ((walked k).map stepName))
    | "isexpr" => pure (okWords [toString (isExpr k)])
    | "cloneHandled" => pure (okWords [toString (cloneHandled k)])
    | "walkHandled" => pure (okWords [toString (walkHandled k)])
    | "walkIncomplete" => pure (okWords [toString (walkIncomplete.contains k)])
    | _ => none
  | "ids" :: ws => do
    let t ← parseTree ws
    pure (okWords ((ids t).map toString))
  | "walk" :: ws => do
    let t ← parseTree ws
    pure (okWords ((walk walked t).map toString))
  | "clone" :: off :: ws => do
    let off ← off.toNat?
    let t ← parseTree ws
    pure (okWords (showT (clone cloned off t)))
  | _ => none

end ScriggoV.Drv.C28
