import ScriggoV.Basic.Bytes
/-! helpers for the line-protocol handlers -/
namespace ScriggoV.Drv

def okBytes (b : Bytes) : String := "ok " ++ toHex b
def exceptBytes (r : Except Fault Bytes) : String :=
  match r with
  | .ok b => okBytes b
  | .error f => "err " ++ f.name

end ScriggoV.Drv
