import ScriggoV.Model.Runs
import ScriggoV.Gen.SharedWrites
/-! line protocol of C10:
  `toy <prog> <inputs> <sched>` runs the toy machine of Model/Runs.lean under the given schedule;
     prog   = instructions separated by `,`: `c:r:v` const, `v:r` addv, `a:r:q` add, `n:f:r` native, `s:r` show,
              `g:f:r` go native (the callee reads its argument at a later `j`), `j` join one started native
     inputs = one integer per run, separated by `,`
     sched  = run indices separated by `,` (`-` = empty)
     answer = `ok <shown of run 0>|<recorded by run 0's native goroutines>;…` (`,`-separated lists, `-` when empty)
  `facts` answers the sizes of the regenerated frame-fact tables. -/
namespace ScriggoV.Drv.C10
open ScriggoV.Runs

def parseInstr (s : String) : Option Instr :=
  match s.splitOn ":" with
  | ["c", r, v] => do pure (.const (← r.toNat?) (← v.toInt?))
  | ["v", r] => do pure (.addv (← r.toNat?))
  | ["a", r, q] => do pure (.add (← r.toNat?) (← q.toNat?))
  | ["n", f, r] => do pure (.native (← f.toNat?) (← r.toNat?))
  | ["s", r] => do pure (.show (← r.toNat?))
  | ["g", f, r] => do pure (.goNative (← f.toNat?) (← r.toNat?))
  | ["j"] => some .join
  | _ => none

def parseList {α : Type} (f : String → Option α) (s : String) : Option (List α) :=
  if s == "-" then some [] else (s.splitOn ",").mapM f

def showInts (l : List Int) : String :=
  if l.isEmpty then "-" else ",".intercalate (l.map toString)

def handle : List String → Option String
  | ["toy", prog, inputs, sched] => do
    let body ← parseList parseInstr prog
    let ins ← parseList String.toInt? inputs
    let sc ← parseList String.toNat? sched
    let s := runSched sc (toySys body 4 ins)
    let shown (i : Nat) : List Int := (obsOf i s).filterMap (fun o => match o with | .shown v => some v | _ => none)
    let recd (i : Nat) : List Int := (obsOf i s).filterMap (fun o => match o with | .recorded _ v => some v | _ => none)
    pure ("ok " ++ ";".intercalate ((List.range ins.length).map (fun i => showInts (shown i) ++ "|" ++ showInts (recd i))))
  | ["facts"] =>
    let g := ScriggoV.Gen.SharedWrites.writeSites.length
    pure s!"ok writes={g} pkgvarwrites={ScriggoV.Gen.SharedWrites.pkgVarWrites.length} refvars={ScriggoV.Gen.SharedWrites.pkgRefVars.length} allocs={ScriggoV.Gen.SharedWrites.callableAllocs.length} stores={ScriggoV.Gen.SharedWrites.generalStores.length} poolfill={ScriggoV.Gen.SharedWrites.argsPoolFilledOnEveryPath} globalvaluestores={ScriggoV.Gen.SharedWrites.globalValueStores.length} globalvalueuses={ScriggoV.Gen.SharedWrites.globalValueUses.length} buildtimeallocs={ScriggoV.Gen.SharedWrites.buildTimeAllocs.length} nativevarimport={ScriggoV.Gen.SharedWrites.nativeVarImport.length} storedvalues={ScriggoV.Gen.SharedWrites.storedValues.length} perrunstores={(ScriggoV.Gen.SharedWrites.storedValues.filter (·.perRun)).length}"
  | _ => none

end ScriggoV.Drv.C10
