import ScriggoV.Drv.Util
import ScriggoV.Model.Faults
import ScriggoV.Model.URLState
import ScriggoV.Model.RegStack
import ScriggoV.Model.CallableValue
/-! line-protocol handler of C05 (b = 0|1, hex = lower-case hex, `-` empty):

  classify <hasFn b> <OpName> <neg b> <nativeCallee b> <class> <msg hex> → ok panicError|fatal|stop|passthrough
  canraise <hasFn b> <OpName> <neg b> <nativeCallee b> <class> <msg hex> → ok 0|1
  rununwrap nil|panic0|panic1|fatal|stop|other                           → ok returnsNil|returnsSame|returnsInnerError|hostPanic
  ops                                                                    → ok <OpName>:<code> …
  url <call>…     call = t:<hex>:<inURL>:<isSet> | s:<hex>:<inURL>:<quoted> | e:<inURL>
        → ok <states> <outs>    states = one per call, 4 bits inURL query addAmpersand removeQuestionMark, `,`-joined
                                outs   = one per call, tokens r<hex> a p<quoted><hex> q<hex> o<hex> joined by `+` (`-` none), `,`-joined
        → err index <k> <states> <outs>   the k-th call (from 0) faults; states/outs of the calls before it
  swap <k> <len> <a> <b> <bs> → ok <len'> <a'> <b'> <regs `,`-joined> | err <fault>
        swapStack of stack k on a stack of length <len> holding its own indexes (0 in new slots)
  stack <k> <n0> <event>…  → ok <len> <fp> <n> <halted b> <ncalls> | err <fault> <index of the event>
        event = c<f|i|m>:<off>:<m> | t:<m> | d:<off>:<bs>:<m>:<native b>:<args> | r | p | v<down b>
              | a:<r> | n:<shift>:<k> | g:<off>
  funcvalues → ok value:<raw|adapted> native:<raw|adapted> sites:<name>=<b>,… reads:<n> welltyped:<b>
        what callable.Value does with Go functions, the store sites, the reads of
        NativeFunction.function (all regenerated) and whether the full statement holds of them
  valuetype <s|n|r|v> <ins> → ok <storable b> <hasEnv b> <visible ins>
        s a Scriggo function, n a native function, r a native function with a receiver (method
        expression), v a bound Go value (method value); ins = parameters, e the environment, o
        another type, `-` none -/
namespace ScriggoV.Drv.C05
open ScriggoV ScriggoV.Gen.ConvertPanic

def bit? : String → Option Bool
  | "0" => some false
  | "1" => some true
  | _ => none

def opOf (s : String) : Option Op := Op.all.find? (fun o => o.name == s)

def payloadOf (cls : String) (msg : Bytes) : Option Payload :=
  match cls with
  | "stopError" => some .stopError
  | "outError" => some .outError
  | "scriggoRuntimeError" => some (.scriggoRuntimeError msg)
  | "fatalError" => some .fatalError
  | "goRuntimeError" => some (.goRuntimeError msg)
  | "str" => some (.str msg)
  | "err" => some .err
  | "other" => some .other
  | _ => none

def outcomeName : Outcome → String
  | .panicError => "panicError" | .fatal => "fatal" | .stop => "stop" | .passthrough => "passthrough"

def runErrOf : String → Option RunErr
  | "nil" => some .nil
  | "panic0" => some (.panicError false)
  | "panic1" => some (.panicError true)
  | "fatal" => some .fatalError
  | "stop" => some .stopError
  | "other" => some .other
  | _ => none

def runResultName : RunResult → String
  | .returnsNil => "returnsNil" | .returnsSame => "returnsSame"
  | .returnsInnerError => "returnsInnerError" | .hostPanic => "hostPanic"

/-! ### URL machine -/
open URLState in
def callOf (s : String) : Option Call :=
  match s.splitOn ":" with
  | ["t", h, a, b] => do
    let txt ← fromHex h
    pure (.text txt (← bit? a) (← bit? b))
  | ["s", h, a, b] => do
    let v ← fromHex h
    pure (.show v (← bit? a) (← bit? b))
  | ["e", a] => do pure (.showErr (← bit? a))
  | _ => none

def b01 (b : Bool) : String := if b then "1" else "0"

open URLState in
def stateStr (r : State) : String :=
  b01 r.inURL ++ b01 r.query ++ b01 r.addAmpersand ++ b01 r.removeQuestionMark

open URLState in
def outTok : Out → String
  | .raw b => "r" ++ toHex b
  | .amp => "a"
  | .path s q => "p" ++ b01 q ++ toHex s
  | .query s => "q" ++ toHex s
  | .other s => "o" ++ toHex s

open URLState in
def outsStr (os : List Out) : String :=
  if os.isEmpty then "-" else "+".intercalate (os.map outTok)

open URLState in
/-- runs the calls one by one, collecting the state after and the output of each -/
def urlLoop (r : State) (k : Nat) (sts outs : List String) : List Call → String
  | [] => s!"ok {",".intercalate sts.reverse} {",".intercalate outs.reverse}"
  | c :: cs =>
    match step r c with
    | .ok (r', o) => urlLoop r' (k + 1) (stateStr r' :: sts) (outsStr o :: outs) cs
    | .error f =>
      let s := if sts.isEmpty then "-" else ",".intercalate sts.reverse
      let o := if outs.isEmpty then "-" else ",".intercalate outs.reverse
      s!"err {f.name} {k} {s} {o}"

def mapM? {α β} (f : α → Option β) : List α → Option (List β)
  | [] => some []
  | x :: xs => do
    let y ← f x
    let ys ← mapM? f xs
    pure (y :: ys)

/-! ### register stacks -/
open RegStack in
def eventOf (s : String) : Option Event :=
  match s.splitOn ":" with
  | ["cf", off, m] => do pure (.call .func (← off.toNat?) (← m.toNat?))
  | ["ci", off, m] => do pure (.call .indirect (← off.toNat?) (← m.toNat?))
  | ["cm", off, m] => do pure (.call .macro (← off.toNat?) (← m.toNat?))
  | ["t", m] => do pure (.tailCall (← m.toNat?))
  | ["d", off, bs, m, nat, args] => do
    pure (.defer (← off.toNat?) (← bs.toNat?) (← m.toNat?) (← bit? nat) (← args.toNat?))
  | ["r"] => some .ret
  | ["p"] => some .panic
  | ["v0"] => some (.recover false)
  | ["v1"] => some (.recover true)
  | ["a", r] => do pure (.access (← r.toNat?))
  | ["n", sh, k] => do pure (.callNative (← sh.toNat?) (← k.toNat?))
  | ["g", off] => do pure (.go (← off.toNat?))
  | _ => none

open RegStack in
def stackLoop (c : Config) (st : St) (k : Nat) : List Event → String
  | [] => s!"ok {st.len} {st.fp} {st.n} {b01 st.halted} {st.calls.length}"
  | ev :: evs =>
    match step c st ev with
    | .ok st' => stackLoop c st' (k + 1) evs
    | .error f => s!"err {f.name} {k}"

open RegStack in
/-- swapStack on a stack that holds its own indexes: the growth step, then the two copies -/
def swapLine (k len a b bs : Nat) : String :=
  let c := codeConfig k
  match swapStack c len a b bs with
  | .error f => "err " ++ f.name
  | .ok len' =>
    let regs := List.range len ++ List.replicate (len' - len) 0
    match swapRegs regs a b bs with
    | .error f => "err " ++ f.name
    | .ok (a', b', regs') => s!"ok {len'} {a'} {b'} {",".intercalate (regs'.map toString)}"

/-! ### function values -/
open CallableValue in
def insOf (s : String) : Option (List CallableValue.Ty) :=
  if s == "-" then some [] else
  (mapM? (fun (p : Nat × Char) => if p.2 == 'e' then some Ty.env else if p.2 == 'o' then some (Ty.other p.1) else none)
    (s.toList.zipIdx.map fun (c, i) => (i, c)))

open CallableValue in
def insStr (l : List CallableValue.Ty) : String :=
  if l.isEmpty then "-" else String.ofList (l.map fun | .env => 'e' | .other _ => 'o')

open CallableValue in
def callableOf (shape : String) (ins : List CallableValue.Ty) : Option Callable :=
  match shape with
  | "s" => some (.scriggo ins)
  | "n" => some (.native ins false)
  | "r" => some (.native ins true)
  | "v" => some (.value ins)
  | _ => none

def convName : Gen.CallableValue.Conv → String
  | .raw => "raw" | .adapted => "adapted"

open Gen.CallableValue in
def funcValuesLine : String :=
  let sites := ",".intercalate (storeSites.map fun (n, b) => s!"{n}={b01 b}")
  let wt : Bool := valueConv == .adapted && nativeConv == .adapted && CallableValue.sitesConvert storeSites && rawFunctionReads == 0
  s!"ok value:{convName valueConv} native:{convName nativeConv} sites:{sites} reads:{rawFunctionReads} welltyped:{b01 wt}"

def handle : List String → Option String
  | ["funcvalues"] => some funcValuesLine
  | ["valuetype", shape, ins] => do
    let c ← callableOf shape (← insOf ins)
    pure s!"ok {b01 (CallableValue.codeStorable c)} {b01 (CallableValue.hasEnv c)} {insStr (CallableValue.visible c)}"
  | ["classify", hf, op, neg, nat, cls, h] => do
    let msg ← fromHex h
    let p ← payloadOf cls msg
    pure ("ok " ++ outcomeName (classify (← bit? hf) (← opOf op) (← bit? neg) (← bit? nat) p))
  | ["canraise", hf, op, neg, nat, cls, h] => do
    let msg ← fromHex h
    let p ← payloadOf cls msg
    pure ("ok " ++ b01 (Faults.canRaise (← bit? hf) (← opOf op) (← bit? neg) (← bit? nat) p))
  | ["rununwrap", e] => do pure ("ok " ++ runResultName (runUnwrap (← runErrOf e)))
  | ["ops"] => some ("ok " ++ " ".intercalate (Op.all.map fun o => s!"{o.name}:{o.code}"))
  | "url" :: calls => do
    let cs ← mapM? callOf calls
    pure (urlLoop {} 0 [] [] cs)
  | ["swap", k, len, a, b, bs] => do
    pure (swapLine (← k.toNat?) (← len.toNat?) (← a.toNat?) (← b.toNat?) (← bs.toNat?))
  | "stack" :: k :: n0 :: evs => do
    let c := RegStack.codeConfig (← k.toNat?)
    let es ← mapM? eventOf evs
    pure (stackLoop c (RegStack.init c (← n0.toNat?)) 0 es)
  | _ => none

end ScriggoV.Drv.C05
