import ScriggoV.Drv.Util
import ScriggoV.Model.ShowValue
import ScriggoV.Spec.JSON
import ScriggoV.Spec.ShowAbs
import ScriggoV.Spec.DateTime
/-! Line protocol of property C08.

```
C08 show   js|json <val>      → ok <hex> | err panic          model of showInJS / showInJSON
C08 abs    js|json <val>      → ok <data>                     absScriggo
C08 absstd js|json <val>      → ok <data>                     absStd (encoding/json's data)
C08 parse  js|json <hex>      → ok <data> | err invalid       Spec/JSON.lean
C08 tag    <hex>              → ok <namehex> <0|1> | err …    parseTagValue
C08 stresc <hex>              → ok <hex>                      jsStringEscape
C08 isnum  <hex>              → ok 0|1                        RFC 8259 number
```
C08 parsedate ecma|rfc3339 <hex> → ok y mo d h mi s ms offsetMin | err invalid   Spec/DateTime.lean
`<val>` in prefix notation: `nil` | `verb <hex|~> <hex|~> <val>` |
`time <year> <month> <day> <hour> <min> <sec> <nsec> <utc 0|1> <offsetSeconds>` | `nbytes 0|1 <hex>` |
`err <hex> <val>` | `bool 0|1` | `int <Kind> <dec>` | `uint <Kind> <dec>` |
`float <Kind> f|nan|pinf|ninf 0|1 <hex>` | `str <hex>` | `bytes 0|1 <hex>` |
`slice 0|1 <n> <val>*n` | `array <n> <val>*n` | `map 0|1 <n> (<key> <val>)*n` with `<key>` =
`ks|ke|kstr <hex>` | `kb 0|1` | `ki|ku <Kind> <dec>` | `kf|kc <Kind> <hex>` | `ko <Kind>` |
`struct <n> (<namehex> <taghex> <exported 0|1> <embedded 0|1> <val>)*n` | `ptr 0|1 0|1 <val>` | `iface <val>` |
`other <Kind> <hex>`. `<data>`: see `Data.canon`. -/
namespace ScriggoV.Drv.C08
open ScriggoV ScriggoV.ShowValue ScriggoV.JSON ScriggoV.Gen.ShowJS

def kindOfName (s : String) : Option RKind := RKind.all.find? (fun k => k.name == s)
def bit : String → Option Bool
  | "0" => some false
  | "1" => some true
  | _ => none
def optHex (s : String) : Option (Option Bytes) :=
  if s == "~" then some none else (fromHex s).map some
def fclass : String → Option FClass
  | "f" => some .finite | "nan" => some .nan | "pinf" => some .posInf | "ninf" => some .negInf
  | _ => none

def pKey : List String → Option (GoKey × List String)
  | "ks" :: h :: r => do pure (.stringer (← fromHex h), r)
  | "ke" :: h :: r => do pure (.envStringer (← fromHex h), r)
  | "kb" :: b :: r => do pure (.bool (← bit b), r)
  | "ki" :: k :: i :: r => do pure (.int (← kindOfName k) (← i.toInt?), r)
  | "ku" :: k :: n :: r => do pure (.uint (← kindOfName k) (← n.toNat?), r)
  | "kf" :: k :: h :: r => do pure (.float (← kindOfName k) (← fromHex h), r)
  | "kstr" :: h :: r => do pure (.str (← fromHex h), r)
  | "kc" :: k :: h :: r => do pure (.complex (← kindOfName k) (← fromHex h), r)
  | "ko" :: k :: r => do pure (.other (← kindOfName k), r)
  | _ => none

mutual
def pVal : Nat → List String → Option (GoVal × List String)
  | 0, _ => none
  | _+1, "nil" :: r => some (.nil, r)
  | f+1, "verb" :: a :: b :: r => do
    let js ← optHex a
    let json ← optHex b
    let (inner, r') ← pVal f r
    pure (.verb js json inner, r')
  | _+1, "time" :: y :: mo :: d :: h :: mi :: sc :: ns :: u :: off :: r => do
    pure (.time { year := ← y.toInt?, month := ← mo.toNat?, day := ← d.toNat?, hour := ← h.toNat?,
                  min := ← mi.toNat?, sec := ← sc.toNat?, nsec := ← ns.toNat?, utc := ← bit u,
                  offset := ← off.toInt? }, r)
  | _+1, "nbytes" :: n :: s :: r => do pure (.nbytes (← bit n) (← fromHex s), r)
  | f+1, "err" :: a :: r => do
    let msg ← fromHex a
    let (inner, r') ← pVal f r
    pure (.err msg inner, r')
  | _+1, "bool" :: b :: r => do pure (.bool (← bit b), r)
  | _+1, "int" :: k :: i :: r => do pure (.int (← kindOfName k) (← i.toInt?), r)
  | _+1, "uint" :: k :: n :: r => do pure (.uint (← kindOfName k) (← n.toNat?), r)
  | _+1, "float" :: k :: c :: z :: d :: r => do
    pure (.float (← kindOfName k) (← fclass c) (← bit z) (← fromHex d), r)
  | _+1, "str" :: s :: r => do pure (.str (← fromHex s), r)
  | _+1, "bytes" :: n :: s :: r => do pure (.bytes (← bit n) (← fromHex s), r)
  | f+1, "slice" :: n :: cnt :: r => do
    let (es, r') ← pVals f (← cnt.toNat?) r
    pure (.slice (← bit n) es, r')
  | f+1, "array" :: cnt :: r => do
    let (es, r') ← pVals f (← cnt.toNat?) r
    pure (.array es, r')
  | f+1, "map" :: n :: cnt :: r => do
    let (ks, vs, r') ← pPairs f (← cnt.toNat?) r
    pure (.map (← bit n) ks vs, r')
  | f+1, "struct" :: cnt :: r => do
    let (fs, vs, r') ← pFields f (← cnt.toNat?) r
    pure (.struct fs vs, r')
  | f+1, "ptr" :: u :: n :: r => do
    let (e, r') ← pVal f r
    pure (.ptr (← bit u) (← bit n) e, r')
  | f+1, "iface" :: r => do
    let (e, r') ← pVal f r
    pure (.iface e, r')
  | _+1, "other" :: k :: t :: r => do pure (.other (← kindOfName k) (← fromHex t), r)
  | _+1, _ => none
def pVals : Nat → Nat → List String → Option (List GoVal × List String)
  | 0, _, _ => none
  | _+1, 0, r => some ([], r)
  | f+1, n+1, r => do
    let (v, r') ← pVal f r
    let (vs, r'') ← pVals f n r'
    pure (v :: vs, r'')
def pPairs : Nat → Nat → List String → Option (List GoKey × List GoVal × List String)
  | 0, _, _ => none
  | _+1, 0, r => some ([], [], r)
  | f+1, n+1, r0 => do
    let (key, r) ← pKey r0
    let (v, r') ← pVal f r
    let (ks, vs, r'') ← pPairs f n r'
    pure (key :: ks, v :: vs, r'')
def pFields : Nat → Nat → List String → Option (List Field × List GoVal × List String)
  | 0, _, _ => none
  | _+1, 0, r => some ([], [], r)
  | f+1, n+1, nm :: tg :: ex :: em :: r => do
    let fld : Field := { name := ← fromHex nm, tag := ← fromHex tg, exported := ← bit ex, embedded := ← bit em }
    let (v, r') ← pVal f r
    let (fs, vs, r'') ← pFields f n r'
    pure (fld :: fs, v :: vs, r'')
  | _+1, _+1, _ => none
end

def parseWhole (toks : List String) : Option GoVal :=
  match pVal (toks.length + 1) toks with
  | some (v, []) => some v
  | _ => none

def mode : String → Option Mode
  | "js" => some .js | "json" => some .json | _ => none

def handle : List String → Option String
  | "show" :: m :: toks => do
    let m ← mode m
    let v ← parseWhole toks
    match showV m v with
    | .ok b => pure (okBytes b)
    | .error _ => pure "err panic"
  | "abs" :: m :: toks => do
    let m ← mode m
    let v ← parseWhole toks
    pure ("ok " ++ (absScriggo m v).canon)
  | "absstd" :: m :: toks => do
    let m ← mode m
    let v ← parseWhole toks
    pure ("ok " ++ (absStd m v).canon)
  | ["parse", m, h] => do
    let m ← mode m
    let s ← fromHex h
    match parseTop m.isJS s with
    | some d => pure ("ok " ++ d.canon)
    | none => pure "err invalid"
  | ["parsedate", which, h] => do
    let s ← fromHex h
    let r ← (match which with
      | "ecma" => some (DateTime.parseECMA s)
      | "rfc3339" => some (DateTime.parseRFC3339 s)
      | _ => none)
    match r with
    | some f => pure s!"ok {f.year} {f.month} {f.day} {f.hour} {f.min} {f.sec} {f.ms} {f.offsetMin}"
    | none => pure "err invalid"
  | ["tag", h] => do
    let s ← fromHex h
    match parseTagValue s with
    | .ok (n, o) => pure ("ok " ++ toHex n ++ " " ++ (if o then "1" else "0"))
    | .error f => pure ("err " ++ f.name)
  | ["stresc", h] => do
    let s ← fromHex h
    pure (okBytes (jsStrEsc s))
  | ["isnum", h] => do
    let s ← fromHex h
    pure (if isNumber s then "ok 1" else "ok 0")
  | _ => none

end ScriggoV.Drv.C08
