import ScriggoV.Model.Files
/-! line protocol of C23 (prefix notation, byte strings in hex, `-` = empty):
```
C23 run <k> (<name> <data>)^k <m> op^m   -> ok out_1 … out_m
   op  := o <name> | d <h> <n> | s <h> | r <h> <k> | c <h>
   out := h<id>:<0|1> | ENOENT | [entry,…] | EOF | notdir | badh | info | <hex>|nil | -|EOF | EINVAL | nil
   entry, info := <Name()>/<Size()>/<Mode()>/<IsDir()>        (Mode: d = fs.ModeDir, - = 0)
C23 validpath <name> -> ok 0|1      C23 utf8 <bytes> -> ok 0|1       C23 base <name> -> ok <hex>
C23 sort <k> <name>^k -> ok <name>,…
``` -/
namespace ScriggoV.Drv.C23
open ScriggoV ScriggoV.Files

abbrev Toks := List String

def parseFiles : Nat → Toks → Option (FS × Toks)
  | 0, ts => some ([], ts)
  | k + 1, n :: d :: ts => do
    let n ← fromHex n
    let d ← fromHex d
    let (r, ts) ← parseFiles k ts
    pure ((n, d) :: r, ts)
  | _, _ => none

def parseOps : Nat → Toks → Option (List Op × Toks)
  | 0, ts => some ([], ts)
  | k + 1, "o" :: n :: ts => do
    let n ← fromHex n
    let (r, ts) ← parseOps k ts
    pure (.open n :: r, ts)
  | k + 1, "d" :: h :: n :: ts => do
    let h ← h.toNat?
    let n ← n.toInt?
    let (r, ts) ← parseOps k ts
    pure (.readDir h n :: r, ts)
  | k + 1, "s" :: h :: ts => do
    let h ← h.toNat?
    let (r, ts) ← parseOps k ts
    pure (.stat h :: r, ts)
  | k + 1, "r" :: h :: n :: ts => do
    let h ← h.toNat?
    let n ← n.toNat?
    let (r, ts) ← parseOps k ts
    pure (.read h n :: r, ts)
  | k + 1, "c" :: h :: ts => do
    let h ← h.toNat?
    let (r, ts) ← parseOps k ts
    pure (.close h :: r, ts)
  | _, _ => none

def b01 (b : Bool) : String := if b then "1" else "0"
def modeStr (b : Bool) : String := if b then "d" else "-"

def showInfo (i : Info) : String :=
  toHex i.name ++ "/" ++ toString i.size ++ "/" ++ modeStr i.mode ++ "/" ++ b01 i.isDir

def showOut : Out → String
  | .opened h d => "h" ++ toString h ++ ":" ++ b01 d
  | .notExist => "ENOENT"
  | .entries l => "[" ++ ",".intercalate (l.map fun f => showInfo f.info) ++ "]"
  | .eof => "EOF"
  | .notDir => "notdir"
  | .badHandle => "badh"
  | .info i => showInfo i
  | .read .invalid => "EINVAL"
  | .read .eof => "-|EOF"
  | .read (.data b) => toHex b ++ "|nil"
  | .closed => "nil"

def parseNames : Nat → Toks → Option (List Bytes × Toks)
  | 0, ts => some ([], ts)
  | k + 1, n :: ts => do
    let n ← fromHex n
    let (r, ts) ← parseNames k ts
    pure (n :: r, ts)
  | _, _ => none

def handle : List String → Option String
  | "run" :: k :: ts => do
    let (fs, ts) ← parseFiles (← k.toNat?) ts
    match ts with
    | m :: ts =>
      let (ops, ts) ← parseOps (← m.toNat?) ts
      if !ts.isEmpty then none
      let r := run { fs := fs, handles := [] } ops
      pure ("ok" ++ String.join (r.2.map fun o => " " ++ showOut o))
    | _ => none
  | ["validpath", n] => do pure ("ok " ++ b01 (validPath (← fromHex n)))
  | ["utf8", n] => do pure ("ok " ++ b01 (utf8OK (← fromHex n)))
  | ["base", n] => do pure ("ok " ++ toHex (base (← fromHex n)))
  | "sort" :: k :: ts => do
    let (ns, ts) ← parseNames (← k.toNat?) ts
    if !ts.isEmpty then none
    pure ("ok " ++ ",".intercalate ((sortStrings ns).map toHex))
  | _ => none

end ScriggoV.Drv.C23
