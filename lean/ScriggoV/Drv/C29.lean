import ScriggoV.Drv.Util
import ScriggoV.Model.LinkDest
import ScriggoV.Model.LinkDestFence
import ScriggoV.Model.LinkDestInline
namespace ScriggoV.Drv.C29
open ScriggoV ScriggoV.LinkDest

/-- replacement list in prefix notation: `<n> (<start> <stop> <hex>)*` -/
def parseRepls : Nat → List String → Option (List Repl)
  | 0, [] => some []
  | 0, _ :: _ => none
  | _ + 1, [] => none
  | n + 1, a :: rest =>
    match rest with
    | b :: h :: rest' => do
      let start ← a.toNat?
      let stop ← b.toNat?
      let text ← fromHex h
      let tl ← parseRepls n rest'
      pure ({ start := start, stop := stop, text := text } :: tl)
    | _ => none

def optNat : Option Nat → String
  | some n => "ok " ++ toString n
  | none => "ok none"

def bit (b : Bool) : String := if b then "1" else "0"

/-- `apply <hex src> <n> (<start> <stop> <hex>)*`, `escape <hex>`, `unescape <hex>`,
`tables` (isMarkdownEscapable | isPunct<<1 | isSpace<<2 for the 256 bytes),
`destination <hex line> <pos>`, `title <hex line> <pos>`, `labelend <hex line> <pos>`,
`fencestart <hex line>` (`ok none` / `ok <char> <len>`), `fenceclose <hex line> <char> <len>`,
`indented <hex line>` (`ok 0` / `ok 1`), `fencescan <hex source>` (one bit per line of the source
split at LF: skipped as part of a fenced block), `inline <hex line>` (scanInlineLinks with a fresh
HTML state: `ok unsupported` where the real code enters its HTML state, else `ok` and the
`start stop` pairs handed to appendReplacement) -/
def handle : List String → Option String
  | "apply" :: h :: n :: rest => do
    let src ← fromHex h
    let k ← n.toNat?
    let rs ← parseRepls k rest
    pure (exceptBytes (applyReplacements src rs))
  | ["escape", h] => do
    let s ← fromHex h
    pure (okBytes (urlEscape s))
  | ["unescape", h] => do
    let s ← fromHex h
    pure (okBytes (mdUnescape s))
  | ["tables"] =>
    some ("ok " ++ String.intercalate "," ((List.range 256).map fun n =>
      let c := n.toUInt8
      toString ((if Gen.LinkDestTables.isMarkdownEscapable c then 1 else 0) +
                (if isPunct c then 2 else 0) + (if isSpace c then 4 else 0))))
  | ["destination", h, p] => do
    let line ← fromHex h
    let pos ← p.toNat?
    pure (match parseDestination line pos with
          | some (a, b, c) => s!"ok {a} {b} {c}"
          | none => "ok none")
  | ["title", h, p] => do
    let line ← fromHex h
    let pos ← p.toNat?
    pure (match parseTitle line pos with
          | .ok r => optNat r
          | .error f => "err " ++ f.name)
  | ["labelend", h, p] => do
    let line ← fromHex h
    let pos ← p.toNat?
    pure (optNat (findLabelEnd line pos))
  | ["fencestart", h] => do
    let line ← fromHex h
    pure (match isFenceStart line with
          | some (c, n) => s!"ok {c.toNat} {n}"
          | none => "ok none")
  | ["fenceclose", h, c, n] => do
    let line ← fromHex h
    let ch ← c.toNat?
    let len ← n.toNat?
    if ch ≥ 256 then none else
    pure ("ok " ++ bit (isFenceClose line ch.toUInt8 len))
  | ["indented", h] => do
    let line ← fromHex h
    pure ("ok " ++ bit (isIndentedCode line))
  | ["fencescan", h] => do
    let src ← fromHex h
    pure ("ok " ++ String.join ((fenceScan none (splitLines [] src)).map bit))
  | ["inline", h] => do
    let line ← fromHex h
    pure (match scanInlineLinks line with
          | none => "ok unsupported"
          | some out => String.intercalate " " ("ok" :: out.map fun (a, b) => s!"{a} {b}"))
  | _ => none

end ScriggoV.Drv.C29
