import ScriggoV.Model.VarStore
/-! Line protocol of C17 (model: `Model/VarStore.lean`, configuration `Cfg.code`).

`run <nE> <event>… <nI> <init>… <nA> <action>…`
  event  := `d <f> <pkg>` | `u <f> <v>` | `x <pkg> <name>` | `b <target> <src> <name>`
            | `c <p> <f> <m> <upvar>…`   upvar := `P <v>` | `L <name>`
  init   := `<v> v <int>` | `<v> p <int>` | `<v> nil` | `<v> nilp` | `<v> wt`
  action := `s <f> <v>` | `w <f> <v> <int>`
answers `ok used=<v,…|-> out=<int,…|-> ptr=<v:int,…|->` (globals in emission order; values shown;
final pointee of every pointer passed), `err emit` (not an admissible emission),
`err init <fault>`, `err run <fault>`. -/
namespace ScriggoV.Drv.C17
open ScriggoV.VarStore

abbrev P (α : Type) := List String → Option (α × List String)

def pNat : P Nat
  | t :: ts => t.toNat?.map (·, ts)
  | [] => none

def pInt : P Int
  | t :: ts => t.toInt?.map (·, ts)
  | [] => none

def pTok : P String
  | t :: ts => some (t, ts)
  | [] => none

/-- `n` items -/
def pMany {α : Type} (p : P α) : Nat → P (List α)
  | 0, ts => some ([], ts)
  | n + 1, ts => do
    let (a, ts) ← p ts
    let (as, ts) ← pMany p n ts
    pure (a :: as, ts)

def pCounted {α : Type} (p : P α) : P (List α) := fun ts => do
  let (n, ts) ← pNat ts
  if n > 10000 then none else pMany p n ts

def pUpvar : P Upvar
  | "P" :: v :: ts => some (.predef v, ts)
  | "L" :: n :: ts => some (.loc n, ts)
  | _ => none

def pEvent : P Event
  | "d" :: ts => do let (f, ts) ← pNat ts; let (k, ts) ← pNat ts; pure (.declFunc f k, ts)
  | "b" :: ts => do
    let (t, ts) ← pNat ts
    let (k, ts) ← pNat ts
    let (x, ts) ← pTok ts
    pure (.bindImport t k x, ts)
  | "u" :: ts => do let (f, ts) ← pNat ts; let (v, ts) ← pTok ts; pure (.use f v, ts)
  | "x" :: ts => do let (k, ts) ← pNat ts; let (v, ts) ← pTok ts; pure (.pkgVar k v, ts)
  | "c" :: ts => do
    let (p, ts) ← pNat ts
    let (f, ts) ← pNat ts
    let (ups, ts) ← pCounted pUpvar ts
    pure (.closure p f ups, ts)
  | _ => none

def pInit : P (String × InitVal)
  | v :: "v" :: ts => do let (n, ts) ← pInt ts; pure ((v, .value n), ts)
  | v :: "p" :: ts => do let (n, ts) ← pInt ts; pure ((v, .pointer n), ts)
  | v :: "nil" :: ts => some ((v, .nilValue), ts)
  | v :: "nilp" :: ts => some ((v, .nilPointer), ts)
  | v :: "wt" :: ts => some ((v, .wrongType), ts)
  | _ => none

def pAction : P Action
  | "s" :: ts => do let (f, ts) ← pNat ts; let (v, ts) ← pTok ts; pure (.show f v, ts)
  | "w" :: ts => do
    let (f, ts) ← pNat ts
    let (v, ts) ← pTok ts
    let (n, ts) ← pInt ts
    pure (.set f v n, ts)
  | _ => none

def commaOr (xs : List String) : String := if xs.isEmpty then "-" else ",".intercalate xs

def pointers (init : List (String × InitVal)) (m : Mem) : List String :=
  init.filterMap fun (v, iv) =>
    match iv with
    | .pointer _ => some (v ++ ":" ++ toString (m.caller v))
    | _ => none

def runModel (es : List Event) (init : List (String × InitVal)) (as : List Action) : String :=
  match emit Cfg.code es with
  | none => "err emit"
  | some s =>
    match initGlobalVariables Cfg.code init s.globals with
    | .error e => "err init " ++ e.name
    | .ok slots =>
      match exec s slots as (Mem.init slots init) with
      | .error e => "err run " ++ e.name
      | .ok (out, m) =>
        "ok used=" ++ commaOr (usedVars Cfg.code s) ++ " out=" ++ commaOr (out.map toString)
          ++ " ptr=" ++ commaOr (pointers init m)

def handle : List String → Option String
  | "run" :: ts => do
    let (es, ts) ← pCounted pEvent ts
    let (init, ts) ← pCounted pInit ts
    let (as, ts) ← pCounted pAction ts
    if ts.isEmpty then pure (runModel es init as) else none
  | _ => none

end ScriggoV.Drv.C17
