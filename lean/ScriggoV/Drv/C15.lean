import ScriggoV.Drv.Util
import ScriggoV.Model.Cut
import ScriggoV.Spec.CutSpec
/-! C15 line protocol:
  `render <format> <hex>`  → `ok <hex>` | `err lex|unsupported|fuel|slice|…`   (Model/Cut.lean)
  `spec <format> <hex>`    → `ok <0|1> <hex>` | `err …`   (Spec/CutSpec.lean on the same tokens;
                              the flag says whether the source is in the class of the theorem)
  `engine <format> <hex>`  → `ok <hex>` | `err …`   (Spec/CutSpec.lean `engineRender`: the rule with
                              the engine's two extra line breaks; equals `render` for every source)
  `toks <format> <hex>`    → `ok <canonical token list>` | `err …`
  `endraw <marker-hex> <hex>` → `ok <index>` | `ok -1` | `err unsupported`   (endRawIndex) -/
namespace ScriggoV.Drv.C15
open ScriggoV ScriggoV.Cut

def errName : RErr → String
  | .tok e => e.name
  | .fault f => f.name

def showRaw : Raw → String
  | .text bs => "T" ++ toString bs.length
  | .nt t => (if t.comment then "C" else if t.head == 3 then "B" else if t.out.isEmpty then "S" else "P")
      ++ (if t.cuttable then "c" else "n") ++ toString t.nl ++ ":" ++ toString t.span

def handle : List String → Option String
  | ["render", f, h] => do
    let fmt ← Format.ofName? f
    let s ← fromHex h
    match render fmt s with
    | .ok b => pure (okBytes b)
    | .error e => pure ("err " ++ errName e)
  | ["spec", f, h] => do
    let fmt ← Format.ofName? f
    let s ← fromHex h
    match tokenize fmt (s.drop (shebangLen s)) with
    | .ok raws =>
      pure ("ok " ++ (if CutSpec.inClass raws then "1 " else "0 ") ++ toHex (CutSpec.specRender raws))
    | .error e => pure ("err " ++ e.name)
  | ["engine", f, h] => do
    let fmt ← Format.ofName? f
    let s ← fromHex h
    match tokenize fmt (CutSpec.dropShebang s) with
    | .ok raws => pure (okBytes (CutSpec.engineRender raws))
    | .error e => pure ("err " ++ e.name)
  | ["toks", f, h] => do
    let fmt ← Format.ofName? f
    let s ← fromHex h
    match tokenize fmt (s.drop (shebangLen s)) with
    | .ok raws => pure ("ok " ++ toString (shebangLen s) ++ " " ++ String.intercalate "," (raws.map showRaw))
    | .error e => pure ("err " ++ e.name)
  | ["endraw", m, h] => do
    let marker ← fromHex m
    let s ← fromHex h
    match endRawIndex marker s 0 with
    | .ok (some k) => pure ("ok " ++ toString k)
    | .ok none => pure "ok -1"
    | .error e => pure ("err " ++ e.name)
  | _ => none

end ScriggoV.Drv.C15
