import ScriggoV.Drv.Util
import ScriggoV.Model.Paths
import ScriggoV.Gen.PathSites
/-! Line protocol of C18.

```
C18 vtp <hex>                         -> ok true|false / err <fault>
C18 rooted <hexparent> <hexname>      -> ok <hex> / err notexist / err <fault>
C18 clean <hex> | dir <hex>           -> ok <hex>
C18 join <hex> <hex>                  -> ok <hex>
C18 isabs|validpath|validutf8 <hex>   -> ok true|false
C18 resolve <hexparent> <hexname>     -> ok none / ok some <hex of the joined elements>
C18 build <hexroot> <nfiles> { <hexname> <nrefs> { e|i|r|d <delim> <hexpath> } }
   delim = where the reference is written: t `{% %}`, b a statement of a `{%% %%}` block (also a
   grouped import), s the expression of `{{ }}` (render only), f the body of a function literal
   (render only); the model asks the generated table Gen.PathSites.guard what the parser does
   with the path at that site
C18 site <e|i|r> <delim> <hexpath>    -> ok true|false   the guard of the site applied to the path
   -> <class> opens <n> <hex>…     class = ok clean | ok missing-import | err invalid | err notexist
                                    | err cycle <hexpath> <n> { e|i|r <hexrooted> } | err syntax <kind> [<hex>]
                                    | err fault <name> | err fuel
```
-/
namespace ScriggoV.Drv.C18
open ScriggoV ScriggoV.Paths ScriggoV.GoPath

def boolStr (b : Bool) : String := if b then "ok true" else "ok false"

def kindStr : Kind → String
  | .ext => "e" | .imp => "i" | .ren => "r"

def parseSite (k d : String) : Option Site :=
  match k, d with
  | "e", "t" => some .extStmt | "e", "b" => some .extStmts
  | "i", "t" => some .impStmt | "i", "b" => some .impStmts
  | "r", "s" => some .renShow | "r", "t" => some .renStmt | "r", "b" => some .renStmts | "r", "f" => some .renEOF
  | "d", "s" => some .renShow | "d", "t" => some .renStmt | "d", "b" => some .renStmts | "d", "f" => some .renEOF
  | _, _ => none

def parseRef (k d h : String) : Option Ref := do
  let p ← fromHex h
  let site ← parseSite k d
  pure ⟨site.kind, k == "d", p, site⟩

/-- `n` references from the token list -/
def parseRefs : Nat → List String → Option (List Ref × List String)
  | 0, ts => some ([], ts)
  | n+1, k :: d :: h :: ts => do
    let r ← parseRef k d h
    let (rs, rest) ← parseRefs n ts
    pure (r :: rs, rest)
  | _, _ => none

def parseFiles : Nat → List String → Option (FileMap × List String)
  | 0, ts => some ([], ts)
  | n+1, h :: c :: ts => do
    let name ← fromHex h
    let cnt ← c.toNat?
    let (refs, rest) ← parseRefs cnt ts
    let (fs, rest') ← parseFiles n rest
    pure ((name, refs) :: fs, rest')
  | _, _ => none

def synStr : Syn → String
  | .invalidRefPath k => "invalid-ref-path " ++ kindStr k
  | .extendsNotExist p => "extends-not-exist " ++ toHex p
  | .renderNotExist p => "render-not-exist " ++ toHex p
  | .cannotExtend => "cannot-extend"
  | .importOfExtended => "import-of-extended"
  | .renderOfExtended => "render-of-extended"
  | .renderOfImported => "render-of-imported"
  | .importOfRendered => "import-of-rendered"

def chainStr (c : List (Kind × Bytes)) : String :=
  toString c.length ++ String.join (c.map fun (k, p) => " " ++ kindStr k ++ " " ++ toHex p)

def resStr : Res → String
  | (st, r) =>
    let cls := match r with
      | .ok () => if st.missingImport then "ok missing-import" else "ok clean"
      | .error .invalid => "err invalid"
      | .error .notExist => "err notexist"
      | .error (.cycle p c) => "err cycle " ++ toHex p ++ " " ++ chainStr c
      | .error (.syntax s) => "err syntax " ++ synStr s
      | .error (.fault f) => "err fault " ++ f.name
      | .error .outOfFuel => "err fuel"
    let tr := st.opens.reverse
    cls ++ " opens " ++ toString tr.length ++ String.join (tr.map fun p => " " ++ toHex p)

def handle : List String → Option String
  | ["vtp", h] => do
    let p ← fromHex h
    pure (match validTemplatePath p with
      | .ok b => boolStr b
      | .error f => "err " ++ f.name)
  | ["rooted", a, b] => do
    let parent ← fromHex a
    let name ← fromHex b
    pure (match rooted parent name with
      | .ok r => okBytes r
      | .error .notExist => "err notexist"
      | .error (.fault f) => "err " ++ f.name)
  | ["clean", h] => do
    let p ← fromHex h
    pure (okBytes (clean p))
  | ["dir", h] => do
    let p ← fromHex h
    pure (okBytes (dir p))
  | ["join", a, b] => do
    let x ← fromHex a
    let y ← fromHex b
    pure (okBytes (join2 x y))
  | ["isabs", h] => do
    let p ← fromHex h
    pure (boolStr (isAbs p))
  | ["validpath", h] => do
    let p ← fromHex h
    pure (boolStr (validPath p))
  | ["validutf8", h] => do
    let p ← fromHex h
    pure (boolStr (validUTF8 p))
  | ["resolve", a, b] => do
    let parent ← fromHex a
    let name ← fromHex b
    pure (match resolve parent name with
      | none => "ok none"
      | some segs => "ok some " ++ toHex (joinSlash segs))
  | "build" :: r :: n :: rest => do
    let root ← fromHex r
    let cnt ← n.toNat?
    let (fm, tail) ← parseFiles cnt rest
    if tail ≠ [] then none
    else pure (resStr (parseTemplate Gen.PathSites.guard fm root))
  | ["site", k, d, h] => do
    let p ← fromHex h
    let site ← parseSite k d
    pure (match guardCheck (Gen.PathSites.guard site) p with
      | .ok b => boolStr b
      | .error f => "err " ++ f.name)
  | _ => none

end ScriggoV.Drv.C18
