import ScriggoV.Drv.Util
import ScriggoV.Model.Escape
import ScriggoV.Spec.Slots
import ScriggoV.Spec.HtmlTok
import ScriggoV.Model.LexCtx
import ScriggoV.Drv.Lexer
import ScriggoV.Model.MacroFast
/-! C06 line protocol.
`C06 scan <which> <hex>` → `ok 0|1`: is the byte string slot-confined per Spec/Slots.lean;
                           which ∈ data dq sq unq name raw jsdq jssq json cssdq csssq
`C06 esc <which> <hex>`  → `ok <outhex> <flags>`: the model escaper's output (Model/Escape.lean) and, as a
                           string of 0/1, the slot scanners' verdicts on it (what the Layer-1 theorems claim
                           is all-1, except `unq` on the empty value);
                           which ∈ html attr11 attr10 attr01 attr00 (escapeEntities, quoted) js css path0 path1 query
`C06 tok <hex>`          → `ok <ctx> <url>`: the abstraction of the reference tokenizer's state (Spec/HtmlTok.lean)
                           after the bytes; ctx ∈ html tag quotedAttr unquotedAttr js jsString css cssString, or
                           `ok none -` (no claim / outside class D: `ok bad -`)
`C06 lexctx <hex> <n>`   → `ok <pos> <ctx> <url>`: Model/LexCtx.lean's `ctxAt` on the text at offset n (ctx as the
                           number of ast.Context)
`C06 fastpath <from> <ctx>` → `ok <macroGuard> <renderGuard> <choice> <conv> <agrees>`: Model/MacroFast.lean over the
                           regenerated tables, for the codes of an ast.Format and an ast.Context: do the two fast
                           paths accept the pair, the renderer OpCallMacro chooses (0 same, 2 buffered + converted,
                           3 fresh on the same output), what the generic path does to a result of that format there
                           (identity converter other none), and whether the two agree -/
namespace ScriggoV.Drv.C06
open ScriggoV ScriggoV.Escape ScriggoV.Slots

def okBool (b : Bool) : String := if b then "ok 1" else "ok 0"

def scan? (which : String) (s : Bytes) : Option Bool :=
  match which with
  | "data" => some (dataConfined s)
  | "dq" => some (attrDqConfined s)
  | "sq" => some (attrSqConfined s)
  | "unq" => some (attrUnqConfined s && unqClean s)
  | "name" => some (nameConfined s)
  | "raw" => some (rawTextConfined s)
  | "jsdq" => some (jsStrConfined 0x22 s)
  | "jssq" => some (jsStrConfined 0x27 s)
  | "json" => some (jsonStrConfined s)
  | "cssdq" => some (cssStrConfined 0x22 s)
  | "csssq" => some (cssStrConfined 0x27 s)
  | _ => none

/-- inside the literal with no open escape (`str`, or after a trailing raw `E2` / `E2 80`) -/
def jsIn (q : UInt8) (o : Bytes) : Bool :=
  match jsScan q o with
  | .left => false
  | .esc => false
  | _ => true

def flags (bs : List Bool) : String := String.ofList (bs.map fun b => if b then '1' else '0')

def esc? (which : String) (s : Bytes) : Option (Bytes × List Bool) :=
  match which with
  | "html" => let o := htmlEscapeOut s; some (o, [dataConfined o, refsClosed fiveRefs o])
  | "attr11" => let o := attributeEscapeOut true true s
    some (o, [attrDqConfined o, attrSqConfined o, dataConfined o, refsClosed fiveRefs o])
  | "attr01" => let o := attributeEscapeOut false true s
    some (o, [attrDqConfined o, attrSqConfined o, dataConfined o])
  | "attr10" => let o := attributeEscapeOut true false s
    some (o, [attrUnqConfined o, unqClean o, refsNamedOrDec o])
  | "attr00" => let o := attributeEscapeOut false false s
    some (o, [attrUnqConfined o, unqClean o])
  | "js" => let o := jsStringEscapeOut s
    some (o, [jsIn 0x22 o, jsIn 0x27 o, jsonStrConfined o, rawTextConfined o])
  | "css" => let o := cssStringEscapeOut s
    some (o, [cssStrConfined 0x22 o, cssStrConfined 0x27 o, rawTextConfined o])
  | "path0" => let o := pathEscapeOut false s; some (o, [attrUnqConfined o, dataConfined o])
  | "path1" => let o := pathEscapeOut true s; some (o, [attrDqConfined o, attrSqConfined o, dataConfined o])
  | "query" => let o := queryEscapeOut s; some (o, [attrDqConfined o, attrSqConfined o])
  | _ => none

def ctxName : HtmlTok.Ctx → String
  | .html => "html" | .tag => "tag" | .quotedAttr => "quotedAttr" | .unquotedAttr => "unquotedAttr"
  | .js => "js" | .jsString => "jsString" | .css => "css" | .cssString => "cssString"

def bit (b : Bool) : String := if b then "1" else "0"

def tok (p : Bytes) : String :=
  let r := HtmlTok.run p
  match HtmlTok.abs Lexer.containsURL r with
  | some (c, u) => "ok " ++ ctxName c ++ " " ++ bit u
  | none => if r == .bad then "ok bad -" else "ok none -"

def lexctx (text : Bytes) (n : Nat) : String :=
  let s := LexCtx.ctxAt (Drv.Lexer.mkUnicode []) text n
  "ok " ++ toString s.pos ++ " " ++ toString s.ctx ++ " " ++ bit s.url

def fastpath (f c : Nat) : String :=
  "ok " ++ bit (Gen.ShowFastPath.macroGuard f c) ++ " " ++ bit (Gen.ShowFastPath.renderGuard f c) ++ " " ++
    toString (Gen.ShowFastPath.callMacroChoice (c : Int) f) ++ " " ++ MacroFast.convName (MacroFast.genericConv f c) ++ " " ++
    bit (MacroFast.vmAgreesWithGeneric f c)

def handle : List String → Option String
  | ["fastpath", f, c] => do
    let f ← f.toNat?
    let c ← c.toNat?
    pure (fastpath f c)
  | ["tok", h] => do
    let p ← fromHex h
    pure (tok p)
  | ["lexctx", h, n] => do
    let t ← fromHex h
    let n ← n.toNat?
    pure (lexctx t n)
  | ["scan", which, h] => do
    let s ← fromHex h
    let b ← scan? which s
    pure (okBool b)
  | ["esc", which, h] => do
    let s ← fromHex h
    let (o, fl) ← esc? which s
    pure ("ok " ++ toHex o ++ " " ++ flags fl)
  | _ => none

end ScriggoV.Drv.C06
