/-! Generic line-protocol loop: one request per line `<prop> <op> <arg>…`, one response per
line (`ok …`, `err …` or `bad-op`); `#flush` ends a batch. Core Lean only. -/
namespace ScriggoV.Drv

partial def loop (prop : String) (handle : List String → Option String)
    (hin hout : IO.FS.Stream) : IO Unit := do
  let line ← hin.getLine
  if line.isEmpty then return ()
  let l := line.trimAscii.toString
  if l == "#flush" then hout.flush   -- end of a batch: the client is waiting for the answers
  else
    let ws := (l.splitOn " ").filter (· ≠ "")
    let r : Option String := match ws with
      | p :: rest => if p == prop then handle rest else none
      | [] => none
    hout.putStrLn (r.getD "bad-op")   -- never default: anything unparsable is `bad-op`
  loop prop handle hin hout

def runDriver (prop : String) (handle : List String → Option String) : IO Unit := do
  let hin ← IO.getStdin
  let hout ← IO.getStdout
  loop prop handle hin hout
  hout.flush

end ScriggoV.Drv
