import ScriggoV.Model.Frames
import ScriggoV.Spec.GoDefer
/-! line protocol of C12:
  `frames <fuel> P <n> <len> <instr>… … [# <rendering styles>]` → `ok out=<events> res=<outcome>`  (Model/Frames.lean)
  `go     <fuel> P …`                      → the same for Spec/GoDefer.lean
  `walk <new|old> <chain oldest first, e.g. 3r,5 or ->` → `ok <chain>` | `err <bad>` | `ok loop`
instructions: `c f` call, `t f` tail call, `d f` defer, `dr` defer recover(), `r` return, `p v` panic,
`rc` recover, `rp` re-panic, `s k` Stop, `f v` Fatal, `o x` print. -/
namespace ScriggoV.Drv.C12
open ScriggoV ScriggoV.DeferLang

def parseInstr : List String → Option (Instr × List String)
  | "c" :: n :: ws => n.toNat?.map (fun k => (.call k, ws))
  | "t" :: n :: ws => n.toNat?.map (fun k => (.tailcall k, ws))
  | "d" :: n :: ws => n.toNat?.map (fun k => (.defer k, ws))
  | "p" :: n :: ws => n.toNat?.map (fun k => (.panic k, ws))
  | "s" :: n :: ws => n.toNat?.map (fun k => (.stop k, ws))
  | "f" :: n :: ws => n.toNat?.map (fun k => (.fatal k, ws))
  | "o" :: n :: ws => n.toNat?.map (fun k => (.print k, ws))
  | "dr" :: ws => some (.deferRec, ws)
  | "r" :: ws => some (.ret, ws)
  | "rc" :: ws => some (.recover, ws)
  | "rp" :: ws => some (.repanic, ws)
  | _ => none

def parseBody : Nat → List String → Option (Body × List String)
  | 0, ws => some ([], ws)
  | n + 1, ws => do
    let (i, ws) ← parseInstr ws
    let (b, ws) ← parseBody n ws
    pure (i :: b, ws)

def parseFuncs : Nat → List String → Option (Prog × List String)
  | 0, ws => some ([], ws)
  | n + 1, ws =>
    match ws with
    | k :: ws => do
      let k ← k.toNat?
      let (b, ws) ← parseBody k ws
      let (p, ws) ← parseFuncs n ws
      pure (b :: p, ws)
    | [] => none

def parseProg : List String → Option Prog
  | "P" :: n :: ws => do
    let n ← n.toNat?
    -- what follows `#` says how the harness wrote the program as Go source; not part of the program
    let (p, rest) ← parseFuncs n (ws.takeWhile (· ≠ "#"))
    if rest.isEmpty then some p else none
  | _ => none

def showLink (l : Link) : String := toString l.val ++ (if l.recovered then "r" else "")

def showChain (c : List Link) : String :=
  if c.isEmpty then "-" else ",".intercalate (c.map showLink)

def showEvent : Event → String
  | .out x => "o" ++ toString x
  | .recov (some v) => "r" ++ toString v
  | .recov none => "rn"

def showBad : Bad → String
  | .noFunction => "nofunction" | .nilPanic => "nilpanic" | .noFrame => "noframe"

def showOutcome : Outcome → String
  | .done => "done"
  | .panicked c => "panic:" ++ showChain c.reverse
  | .stopped k => "stop:" ++ toString k
  | .fatal v => "fatal:" ++ toString v
  | .outOfFuel => "fuel"
  | .fault b => "fault:" ++ showBad b

def showResult (r : Result) : String :=
  "ok out=" ++ (if r.events.isEmpty then "-" else ",".intercalate (r.events.map showEvent))
    ++ " res=" ++ showOutcome r.outcome

def parseLink (s : String) : Option Link :=
  if s.endsWith "r" then (s.dropEnd 1).toString.toNat?.map (fun v => ⟨v, true⟩)
  else s.toNat?.map (fun v => ⟨v, false⟩)

def parseChain (s : String) : Option (List Link) :=
  if s == "-" then some [] else (s.splitOn ",").mapM parseLink

def handle : List String → Option String
  | "frames" :: fuel :: ws => do
    let fuel ← fuel.toNat?
    let p ← parseProg ws
    pure (showResult (Frames.run p fuel))
  | "go" :: fuel :: ws => do
    let fuel ← fuel.toNat?
    let p ← parseProg ws
    pure (showResult (GoDefer.run p fuel))
  | ["walk", which, chain] => do
    let c ← parseChain chain      -- oldest first on the wire
    let nxt ← if which == "new" then some Frames.Pub.next else if which == "old" then some Frames.Pub.nextOld else none
    match Frames.Pub.walk nxt (c.length + 3) (Frames.Pub.ofRun c.reverse) with
    | .ok (some ls) => pure ("ok " ++ showChain ls.reverse)
    | .ok none => pure "ok loop"
    | .error b => pure ("err " ++ showBad b)
  | _ => none

end ScriggoV.Drv.C12
