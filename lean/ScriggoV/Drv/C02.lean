import ScriggoV.Model.ConstEvalQ
/-! line-protocol handler of C02 (see `Model/ConstEval.lean` for the prefix notation) -/
namespace ScriggoV.Drv.C02
open ScriggoV.ConstEval ScriggoV.Spec.GoConst ScriggoV.Gen.ConstInt

def parseOp (s : String) : Option Op :=
  match parseArith s with
  | some a => some (toOp a)
  | none => (parseCmp s).map cmpToOp

def parseUOp (s : String) : Option UOp := (parseUn s).map toUOp

/-- an int64 operand, decimal; out of range is unparsable -/
def parseI64 (s : String) : Option (BitVec 64) := do
  let n ← s.toInt?
  if fitsInt64 n then some (BitVec.ofInt 64 n) else none

/-- `small n` / `big n` -/
def parseSC (repr n : String) : Option SC := do
  let v ← n.toInt?
  match repr with
  | "small" => if fitsInt64 v then some (.small (BitVec.ofInt 64 v)) else none
  | "big" => some (.big v)
  | _ => none

def showUnit : R Unit → String
  | .ok _ => "ok"
  | .error r => "err " ++ r.name

def handle : List String → Option String
  | "exact" :: toks => do pure (showVal (evalExact goRule (← parseWhole toks)))
  | "scriggo" :: toks => do pure (showSVal (evalScriggo (← parseWhole toks)))
  | ["fastbin", op, a, b] => do pure (showFast (fastBinary (← parseOp op) (← parseI64 a) (← parseI64 b)))
  | ["fastun", op, kind, a] => do pure (showFast (fastUnary (← parseUOp op) (← kind.toNat?) (← parseI64 a)))
  | ["bigun", op, kind, n] => do
    pure (showSC (sUnary (← parseUn op) (kindCode (← parseKind kind)) (.big (← n.toInt?))))
  | ["fastshr", a, sc] => do
    let n ← sc.toNat?
    if n < 2 ^ 64 then pure (showFast (fastShr (← parseI64 a) (BitVec.ofNat 64 n))) else none
  | ["rep", kind, repr, n] => do pure (showSC (sRep (kindCode (← parseKind kind)) (← parseSC repr n)))
  | ["shiftguard", dir, repr, n] => do
    let left ← match dir with | "l" => some true | "r" => some false | _ => none
    pure (showUnit (sShiftGuard left (← parseSC repr n)))
  | _ => none

end ScriggoV.Drv.C02
