import ScriggoV.Drv.Util
import ScriggoV.Model.Escape
import ScriggoV.Spec.Decode
import ScriggoV.Model.URLRender
/-! C07 line protocol.
`C07 esc <which> <hex>`  → `ok <n> <chunk>,<chunk>,…` (`none` when nothing is written; a chunk is
                           lower-case hex, `-` = empty) or `err <fault>`;
                           which ∈ html htmlnoent attr00 attr01 attr10 attr11 (escapeEntities,quoted)
                           css js path0 path1 (quoted) query
`C07 dec <which> <hex>`  → `ok <hex>` / `err invalid`; which ∈ html css js json pct0 pct1
`C07 alpha <hex>`        → `ok 0|1` (unreserved ∪ %XX)
`C07 pred <which> <n>`   → `ok 0|1`; which ∈ prefix ishex
`C07 url (t <hex> <inURL> <isSet> | s <hex> <inURL> <quoted>)*` → the renderer's URL state machine
                           on the calls Text / Show(string value): `ok <output hex> <state>.<state>…`
                           (state after each call: 4 bits inURL query addAmpersand removeQuestionMark;
                           `-` for no calls) or `err <fault>` -/
namespace ScriggoV.Drv.C07
open ScriggoV ScriggoV.Escape ScriggoV.Decode

def chunksStr (cs : List Bytes) : String :=
  let n := (cs.map List.length).sum
  "ok " ++ toString n ++ " " ++ (if cs.isEmpty then "none" else ",".intercalate (cs.map toHex))

def bit? : Char → Option Bool
  | '0' => some false
  | '1' => some true
  | _ => none

def escape? (which : String) (s : Bytes) : Option String :=
  match which.toList with
  | ['h','t','m','l'] => some (chunksStr (htmlEscapeChunks s))
  | ['h','t','m','l','n','o','e','n','t'] => some (chunksStr (htmlNoEntitiesEscapeChunks s))
  | ['a','t','t','r', e, q] => do
    let e ← bit? e
    let q ← bit? q
    pure (chunksStr (attributeEscapeChunks e q s))
  | ['c','s','s'] => some (chunksStr (cssStringEscapeChunks s))
  | ['j','s'] =>
    match jsStringEscapeChunksE s with
    | .ok cs => some (chunksStr cs)
    | .error f => some ("err " ++ f.name)
  | ['p','a','t','h', q] => do
    let q ← bit? q
    pure (chunksStr (pathEscapeChunks q s))
  | ['q','u','e','r','y'] => some (chunksStr (queryEscapeChunks s))
  | _ => none

def optBytes (o : Option Bytes) : String :=
  match o with
  | some b => okBytes b
  | none => "err invalid"

def decode? (which : String) (s : Bytes) : Option String :=
  match which with
  | "html" => some (optBytes (htmlDecodeO stdNamed s))
  | "css" => some (optBytes (cssDecodeO s))
  | "js" => some (optBytes (jsDecode false s))
  | "json" => some (optBytes (jsDecode true s))
  | "pct0" => some (optBytes (pctDecode false s))
  | "pct1" => some (optBytes (pctDecode true s))
  | _ => none

def parseCalls : List String → Option (List URLState.Call)
  | [] => some []
  | k :: h :: a :: b :: rest => do
    let s ← fromHex h
    let a ← (a.toList.head?).bind bit?
    let b ← (b.toList.head?).bind bit?
    let cs ← parseCalls rest
    if k == "t" then pure (.text s a b :: cs)
    else if k == "s" then pure (.show (URLRender.shownString s) a b :: cs)
    else none
  | _ => none

def stateStr (r : URLState.State) : String :=
  String.ofList ([r.inURL, r.query, r.addAmpersand, r.removeQuestionMark].map fun b => if b then '1' else '0')

/-- run the calls one by one, collecting the rendered output and the state after each call -/
def runURL : URLState.State → List URLState.Call → Bytes → List String → Except Fault (Bytes × List String)
  | _, [], out, sts => .ok (out, sts.reverse)
  | r, c :: cs, out, sts =>
    match URLState.step r c with
    | .error f => .error f
    | .ok (r', o) => runURL r' cs (out ++ URLRender.render o) (stateStr r' :: sts)

def okBool (b : Bool) : String := if b then "ok 1" else "ok 0"

def handle : List String → Option String
  | ["esc", which, h] => do
    let s ← fromHex h
    escape? which s
  | ["dec", which, h] => do
    let s ← fromHex h
    decode? which s
  | ["alpha", h] => do
    let s ← fromHex h
    pure (okBool (pctAlphabet s))
  | "url" :: rest => do
    let cs ← parseCalls rest
    match runURL {} cs [] [] with
    | .ok (out, sts) => pure ("ok " ++ toHex out ++ " " ++ (if sts.isEmpty then "-" else ".".intercalate sts))
    | .error f => pure ("err " ++ f.name)
  | ["pred", which, n] => do
    let n ← n.toNat?
    if n ≥ 256 then none
    else match which with
      | "prefix" => some (okBool (Gen.EscapeTables.prefixWithSpace n.toUInt8))
      | "ishex" => some (okBool (Gen.EscapeTables.isHexDigit n.toUInt8))
      | _ => none
  | _ => none

end ScriggoV.Drv.C07
