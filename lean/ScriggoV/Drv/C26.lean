import ScriggoV.Drv.Util
import ScriggoV.Model.MarkdownEscape
import ScriggoV.Spec.CommonMarkLex
namespace ScriggoV.Drv.C26
open ScriggoV

def flag : String → Option Bool
  | "0" => some false
  | "1" => some true
  | _ => none

def bit (b : Bool) : String := if b then "1" else "0"

/-- `md <allowHTML> <hex>`: markdownEscape; `cb <spaces> <hex>`: markdownCodeBlockEscape;
`inertdoc <hex>`: the four lexical clauses of the specification on arbitrary text;
`inert <hex s>`: all clauses of `inert s (markdownEscape s false)`;
`stays <spaces> <hex s>`: `staysInCodeBlock` of the code-block escaper's output. -/
def handle : List String → Option String
  | ["md", a, h] => do
    let allow ← flag a
    let s ← fromHex h
    pure (match MarkdownEscape.markdownEscape s allow with
          | .ok b => okBytes b
          | .error .notClosedComment => "err comment"
          | .error .notClosedCDATA => "err cdata")
  | ["cb", a, h] => do
    let spaces ← flag a
    let s ← fromHex h
    pure (okBytes (MarkdownEscape.cbEscape spaces s))
  | ["inertdoc", h] => do
    let o ← fromHex h
    pure ("ok " ++ bit (CommonMarkLex.activeEscaped o) ++ bit (CommonMarkLex.noBlockStart o) ++
          bit (CommonMarkLex.noDoubleSpace o) ++ bit (CommonMarkLex.noIndentedCode o))
  | ["inert", h] => do
    let s ← fromHex h
    let o := MarkdownEscape.markdownEscapeText s
    pure ("ok " ++ bit (CommonMarkLex.activeEscaped o) ++ bit (CommonMarkLex.noBlockStart o) ++
          bit (CommonMarkLex.noDoubleSpace o) ++ bit (CommonMarkLex.noIndentedCode o) ++
          bit (CommonMarkLex.wsRel s (CommonMarkLex.unescape o)))
  | ["stays", a, h] => do
    let spaces ← flag a
    let s ← fromHex h
    pure ("ok " ++ bit (CommonMarkLex.staysInCodeBlock (MarkdownEscape.indentOf spaces)
                          (MarkdownEscape.cbEscape spaces s)))
  | _ => none

end ScriggoV.Drv.C26
