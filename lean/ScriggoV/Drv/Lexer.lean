import ScriggoV.Drv.Util
import ScriggoV.Model.Lexer
import ScriggoV.Spec.Position
/-! Line-protocol handler shared by the C04 and C21 drivers.

`scan <t|p> <format> <noParseShow 0|1> <hex source> <classes>` where `<classes>` is `-` or a
comma separated list `rune:flags:lower` (decimal) for every non-ASCII rune that decoding the
source at any byte offset can yield — flags: 1 letter, 2 digit, 4 graphic, 8 non-character,
16 space; ASCII runes are classified by the driver itself (exactly).
Answer: `ok <n> <tok>;…;<tok> E <err>` with `<tok> = typ,start,end,line,col,ctx,tag,att,lin,len`
and `<err> = kind,start,line,col` or `-`; or `err <fault>`.

`pos <hex source> <offset>` → `ok <line> <col>` (Spec.Position.lineCol). -/
namespace ScriggoV.Drv.Lexer
open ScriggoV ScriggoV.Lexer

structure Cls where
  rune : Nat
  flags : Nat
  lower : Nat

def parseCls (s : String) : Option (List Cls) :=
  if s == "-" then some [] else
  (s.splitOn ",").mapM fun e =>
    match e.splitOn ":" with
    | [a, b, c] => do
      let r ← a.toNat?
      let f ← b.toNat?
      let l ← c.toNat?
      pure { rune := r, flags := f, lower := l }
    | _ => none

def lookup (tbl : List Cls) (r : Nat) : Option Cls := tbl.find? (·.rune == r)

def asciiLetter (r : Nat) : Bool := (0x41 ≤ r && r ≤ 0x5a) || (0x61 ≤ r && r ≤ 0x7a)

/-- the classification used by the driver: exact on ASCII, table-driven elsewhere -/
def mkUnicode (tbl : List Cls) : Unicode where
  isLetter r := if r < 0x80 then asciiLetter r else (lookup tbl r).any (·.flags % 2 == 1)
  isDigit r := if r < 0x80 then (0x30 ≤ r && r ≤ 0x39) else (lookup tbl r).any (·.flags / 2 % 2 == 1)
  isGraphic r := if r < 0x80 then (0x20 ≤ r && r ≤ 0x7e) else (lookup tbl r).any (·.flags / 4 % 2 == 1)
  isNonchar r := if r < 0x80 then false else (lookup tbl r).any (·.flags / 8 % 2 == 1)
  isSpace r := if r < 0x80 then (r == 0x20 || (0x09 ≤ r && r ≤ 0x0d)) else (lookup tbl r).any (·.flags / 16 % 2 == 1)
  toLower r := if r < 0x80 then (if 0x41 ≤ r && r ≤ 0x5a then r + 32 else r) else ((lookup tbl r).map (·.lower)).getD r

def showTok (t : Tok) : String :=
  s!"{t.typ},{t.start},{t.stop},{t.line},{t.col},{t.ctx},{toHex t.tag},{toHex t.att},{t.lin},{t.txtLen}"

def showErr : Option LexErr → String
  | none => "-"
  | some e => s!"{e.kind.name},{e.start},{e.line},{e.col}"

def showResult (r : Except Fault (List Tok × Option LexErr)) : String :=
  match r with
  | .error f => "err " ++ f.name
  | .ok (toks, e) =>
    s!"ok {toks.length} " ++ (if toks.isEmpty then "-" else ";".intercalate (toks.map showTok)) ++ " E " ++ showErr e

def handle : List String → Option String
  | ["scan", mode, fmt, nps, h, cls] => do
    let src ← fromHex h
    let tbl ← parseCls cls
    let f ← fmt.toNat?
    let U := mkUnicode tbl
    if mode == "t" then
      if f > 5 then none else pure (showResult (scanTemplate U f (nps == "1") src))
    else if mode == "p" then pure (showResult (scanProgram U src))
    else none
  | ["pos", h, off] => do
    let src ← fromHex h
    let o ← off.toNat?
    let (l, c) := Spec.Position.lineCol src o
    pure s!"ok {l} {c}"
  | _ => none

end ScriggoV.Drv.Lexer
