import ScriggoV.Model.ShowFacts
import ScriggoV.Model.ShowNode
/-! C09 driver. Requests (descriptors in prefix notation, fixed arity):

    kindord <kind>                         → ok <reflect.Kind value>
    show <actx> <inURL 0|1> <desc>         → ok <static> <dynamic> <wf 0|1> <dynAcceptedTop 0|1>
    table                                  → ok -   |  ok <ctx>:<fact>:<state>;…   (failing states)
    shownode <actx> <inURL> <n> (<m> opnd×m)×n → ok <verdict> <dyn,dyn,…>   (the regenerated Show case on a
                                             node with n expressions of m operands each; dyn: what showing
                                             the evaluated operand of each expression does, `-` if none)

    opnd := absent | nil | typed desc

    info := <kind> <ident> <iface,iface,…|->
    desc := basic info | seen info | nil info | val info desc | elem info desc
          | map info desc desc | struct info <n> (<exported 0|1> desc)×n          -/
namespace ScriggoV.Drv.C09
open ScriggoV.Show

def findBy {α : Type} (all : List α) (name : α → String) (s : String) : Option α :=
  all.find? (fun a => name a == s)

def parseFlags (s : String) : Option (Iface → Bool) :=
  if s == "-" then some (fun _ => false) else do
    let fs ← (s.splitOn ",").mapM (findBy Iface.all Iface.name)
    pure (fun i => fs.contains i)

def parseInfo : List String → Option (TInfo × List String)
  | k :: i :: f :: rest => do
    let k ← findBy Kind.all Kind.name k
    let i ← findBy Ident.all Ident.name i
    let f ← parseFlags f
    pure (⟨k, i, f⟩, rest)
  | _ => none

def parseBool : String → Option Bool
  | "0" => some false
  | "1" => some true
  | _ => none

mutual
def parseDesc : Nat → List String → Option (TDesc × List String)
  | 0, _ => none
  | fuel + 1, tag :: rest => do
    let (i, rest) ← parseInfo rest
    match tag with
    | "basic" => pure (.basic i, rest)
    | "seen" => pure (.seen i, rest)
    | "nil" => pure (.ifaceNil i, rest)
    | "val" => do
      let (d, rest) ← parseDesc fuel rest
      pure (.ifaceVal i d, rest)
    | "elem" => do
      let (d, rest) ← parseDesc fuel rest
      pure (.elem i d, rest)
    | "map" => do
      let (k, rest) ← parseDesc fuel rest
      let (v, rest) ← parseDesc fuel rest
      pure (.map i k v, rest)
    | "struct" =>
      match rest with
      | n :: rest => do
        let n ← n.toNat?
        let (fs, rest) ← parseFields fuel n rest
        pure (.struct i fs, rest)
      | [] => none
    | _ => none
  | _ + 1, [] => none
def parseFields : Nat → Nat → List String → Option (TFields × List String)
  | 0, _, _ => none
  | _ + 1, 0, rest => some (.nil, rest)
  | fuel + 1, n + 1, e :: rest => do
    let e ← parseBool e
    let (t, rest) ← parseDesc fuel rest
    let (fs, rest) ← parseFields fuel n rest
    pure (.cons e t fs, rest)
  | _ + 1, _ + 1, [] => none
end

def b01 (b : Bool) : String := if b then "1" else "0"

def showSubj (s : SubjSt) : String :=
  "kinds=" ++ ",".intercalate (s.kinds.map Kind.name) ++ "/idents=" ++ ",".intercalate (s.idents.map Ident.name) ++
  "/impl=" ++ ",".intercalate (s.yes.map Iface.name) ++ "/not=" ++ ",".intercalate (s.no.map Iface.name)

def ctxName (c : Ctx) : String := (if c.inURL then "url-" else "") ++ c.ast.name

def failing : List String :=
  Ctx.all.flatMap fun c => (failingStates c).map fun (f, st) =>
    ctxName c ++ ":" ++ f ++ ":self[" ++ showSubj st.self ++ "]" ++
      (if f == "key" || f == "key-nil" then "key[" ++ showSubj st.key ++ "]" else "")

def parseOpnds : Nat → Nat → List String → Option (List Operand × List String)
  | _, 0, rest => some ([], rest)
  | fuel, m + 1, "absent" :: rest => do
    let (os, rest) ← parseOpnds fuel m rest
    pure (.absent :: os, rest)
  | fuel, m + 1, "nil" :: rest => do
    let (os, rest) ← parseOpnds fuel m rest
    pure (.untypedNil :: os, rest)
  | fuel, m + 1, "typed" :: rest => do
    let (t, rest) ← parseDesc fuel rest
    let (os, rest) ← parseOpnds fuel m rest
    pure (.typed t :: os, rest)
  | _, _ + 1, _ => none

def parseExprs (fuel : Nat) : Nat → List String → Option (List (List Operand) × List String)
  | 0, rest => some ([], rest)
  | n + 1, m :: rest => do
    let m ← m.toNat?
    let (ops, rest) ← parseOpnds fuel m rest
    let (es, rest) ← parseExprs fuel n rest
    pure (ops :: es, rest)
  | _ + 1, [] => none

def handle : List String → Option String
  | ["kindord", k] => do
    let k ← findBy Kind.all Kind.name k
    pure ("ok " ++ toString k.ord)
  | "show" :: a :: u :: rest => do
    let a ← findBy ACtx.all ACtx.name a
    let u ← parseBool u
    let (t, rest) ← parseDesc (rest.length + 1) rest
    if !rest.isEmpty then none
    let c : Ctx := ⟨a, u⟩
    pure ("ok " ++ (staticTop c t).name ++ " " ++ (dynTop c t).name ++ " " ++ b01 t.wf ++ " " ++ b01 (dynAcceptedTop c t))
  | "shownode" :: a :: u :: n :: rest => do
    let a ← findBy ACtx.all ACtx.name a
    let u ← parseBool u
    let n ← n.toNat?
    let (exprs, rest) ← parseExprs (rest.length + 1) n rest
    if !rest.isEmpty then none
    let c : Ctx := ⟨a, u⟩
    let dyn := exprs.map fun ops => match evaluated ops with
      | some t => (dynTop c t).name
      | none => "-"
    pure ("ok " ++ (checkShowNode c exprs).name ++ " " ++ (if dyn.isEmpty then "-" else ",".intercalate dyn))
  | ["table"] =>
    let f := failing
    pure ("ok " ++ (if f.isEmpty then "-" else ";".intercalate f))
  | _ => none

end ScriggoV.Drv.C09
