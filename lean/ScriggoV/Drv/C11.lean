import ScriggoV.Model.CancelCode
/-! line protocol of C11:
  `facts`                     the regenerated cancellation facts
  `predict <prog> <events>`   runs the machine of Model/Cancel.lean with the facts of the code;
      prog   = `,`-separated: c compute, j<t> jump, r recv, s send, l0/l1 select without/with
               default, g range over channel, n<k> native, o<t> go, h halt,
               b<t> native function calling the Scriggo function at t once, B<t> again and again
      events = `,`-separated: s<i> step of VM i (operation not ready), S<i> step (ready),
               c cancel, w watcher
      answer = `ok <none|ctxErr|own> <live VMs>`
  `flow`                      the opcodes that are not forward-only with their classes, and those
      among them whose dispatch does not read the flag
  `dispatch <placement> <prog> <choices>`   runs the instruction loop of Model/CancelDispatch.lean
      with the flag set;
      placement = `code` (as extracted) | `head` | `,`-separated classes (next skip jump call ret
               iterate leave) on whose dispatch the flag is read
      prog   = function bodies separated by `;`, instructions by `,`: p plain, i cond (If),
               j<t>[:<t>…] jump, c<f> call, t<f> tail call, r return, R range, k<t> continue/break
      choices = digits, one per turn of the loop (cycled up to 240 turns)
      answer = `ok <stopped|ended|running> <instructions dispatched without a look at the flag>` -/
namespace ScriggoV.Drv.C11
open ScriggoV.Cancel

def parseInstr (s : String) : Option Instr :=
  match s.toList with
  | ['c'] => some .compute
  | 'j' :: t => (String.ofList t).toNat?.map .jump
  | ['r'] => some .recv
  | ['s'] => some .send
  | ['l', '0'] => some (.select false)
  | ['l', '1'] => some (.select true)
  | ['g'] => some .rangeChan
  | 'n' :: t => (String.ofList t).toNat?.map .native
  | 'o' :: t => (String.ofList t).toNat?.map .go
  | 'b' :: t => (String.ofList t).toNat?.map (fun n => .callback n false)
  | 'B' :: t => (String.ofList t).toNat?.map (fun n => .callback n true)
  | ['h'] => some .halt
  | _ => none

def parseEv (s : String) : Option Ev :=
  match s.toList with
  | ['c'] => some .cancel
  | ['w'] => some .watch
  | 's' :: t => (String.ofList t).toNat?.map (fun i => .step i false)
  | 'S' :: t => (String.ofList t).toNat?.map (fun i => .step i true)
  | _ => none

def parseList {α : Type} (f : String → Option α) (s : String) : Option (List α) :=
  if s == "-" then some [] else (s.splitOn ",").mapM f

open Dispatch in
def parseDInstr (s : String) : Option DInstr :=
  match s.toList with
  | ['p'] => some .plain
  | ['i'] => some .cond
  | 'j' :: t => (((String.ofList t).splitOn ":").mapM String.toNat?).map .jump
  | 'c' :: t => (String.ofList t).toNat?.map .call
  | 't' :: t => (String.ofList t).toNat?.map .tail
  | ['r'] => some .ret
  | ['R'] => some .range
  | 'k' :: t => (String.ofList t).toNat?.map .leave
  | _ => none

open Dispatch in
def parseFlow : String → Option Flow
  | "next" => some .next
  | "skip" => some .skip
  | "jump" => some .jump
  | "call" => some .call
  | "ret" => some .ret
  | "iterate" => some .iterate
  | "leave" => some .leave
  | _ => none

open Dispatch in
def showFlow : Flow → String
  | .next => "next" | .skip => "skip" | .jump => "jump" | .call => "call" | .ret => "ret"
  | .iterate => "iterate" | .leave => "leave"

open Dispatch in
def parsePlacement (s : String) : Option (Flow → Bool) :=
  if s == "code" then some placementOfCode
  else if s == "head" then some headPlacement
  else (parseList parseFlow s).map onlyAt

def cycleTo (n : Nat) (l : List Nat) : List Nat :=
  if l.isEmpty then List.replicate n 0 else (List.range n).map (fun i => (l[i % l.length]?).getD 0)

def showResult : Option Outcome → String
  | none => "none"
  | some .ctxErr => "ctxErr"
  | some .own => "own"

def handle : List String → Option String
  | ["facts"] =>
    let F := factsOfCode
    let ops := ",".intercalate (ScriggoV.Gen.Blocking.blockingOps.map (·.op))
    pure s!"ok loophead={F.loopHead} recv={F.recvDone} send={F.sendDone} select={F.selectDone} range={F.rangeDone} stopsets={F.stopSetsFlag} epilogue={F.epilogue} reread={ScriggoV.Gen.Blocking.rereadsDoneAfterFinish} ops={ops}"
  | ["predict", prog, evs] => do
    let p ← parseList parseInstr prog
    let es ← parseList parseEv evs
    let s := (init p).run factsOfCode es
    pure s!"ok {showResult s.result} {(s.vms.filter live).length}"
  | ["flow"] =>
    let back := ScriggoV.Gen.Blocking.opFlow.filter (fun o => !(flowOf o).forward)
    let shown := ",".intercalate (back.map (fun o => s!"{o.op}:{showFlow (flowOf o)}"))
    let un := ",".intercalate unobservedBackEdges
    pure s!"ok sites={",".intercalate (ScriggoV.Gen.Blocking.doneCheckSites.map (fun s => s.replace " " "_"))} back={shown} unobserved={if un == "" then "-" else un}"
  | ["dispatch", pl, prog, chs] => do
    let P ← parsePlacement pl
    let p ← (prog.splitOn ";").mapM (parseList parseDInstr)
    let cs ← chs.toList.mapM (fun c => if c.isDigit then some (c.toNat - 48) else none)
    let choices := cycleTo 240 cs
    let s0 : Dispatch.DState := ⟨0, 0, []⟩
    let n := Dispatch.unobserved P p s0 choices
    let r := match Dispatch.runFlag P p s0 choices with
      | .running _ => "running"
      | .stopped => "stopped"
      | .ended => "ended"
    pure s!"ok {r} {n}"
  | _ => none

end ScriggoV.Drv.C11
