import ScriggoV.Model.CancelCode
/-! line protocol of C11:
  `facts`                     the regenerated cancellation facts
  `predict <prog> <events>`   runs the machine of Model/Cancel.lean with the facts of the code;
      prog   = `,`-separated: c compute, j<t> jump, r recv, s send, l0/l1 select without/with
               default, g range over channel, n<k> native, o<t> go, h halt,
               b<t> native function calling the Scriggo function at t once, B<t> again and again
      events = `,`-separated: s<i> step of VM i (operation not ready), S<i> step (ready),
               c cancel, w watcher
      answer = `ok <none|ctxErr|own> <live VMs>` -/
namespace ScriggoV.Drv.C11
open ScriggoV.Cancel

def parseInstr (s : String) : Option Instr :=
  match s.toList with
  | ['c'] => some .compute
  | 'j' :: t => (String.ofList t).toNat?.map .jump
  | ['r'] => some .recv
  | ['s'] => some .send
  | ['l', '0'] => some (.select false)
  | ['l', '1'] => some (.select true)
  | ['g'] => some .rangeChan
  | 'n' :: t => (String.ofList t).toNat?.map .native
  | 'o' :: t => (String.ofList t).toNat?.map .go
  | 'b' :: t => (String.ofList t).toNat?.map (fun n => .callback n false)
  | 'B' :: t => (String.ofList t).toNat?.map (fun n => .callback n true)
  | ['h'] => some .halt
  | _ => none

def parseEv (s : String) : Option Ev :=
  match s.toList with
  | ['c'] => some .cancel
  | ['w'] => some .watch
  | 's' :: t => (String.ofList t).toNat?.map (fun i => .step i false)
  | 'S' :: t => (String.ofList t).toNat?.map (fun i => .step i true)
  | _ => none

def parseList {α : Type} (f : String → Option α) (s : String) : Option (List α) :=
  if s == "-" then some [] else (s.splitOn ",").mapM f

def showResult : Option Outcome → String
  | none => "none"
  | some .ctxErr => "ctxErr"
  | some .own => "own"

def handle : List String → Option String
  | ["facts"] =>
    let F := factsOfCode
    let ops := ",".intercalate (ScriggoV.Gen.Blocking.blockingOps.map (·.op))
    pure s!"ok loophead={F.loopHead} recv={F.recvDone} send={F.sendDone} select={F.selectDone} range={F.rangeDone} stopsets={F.stopSetsFlag} epilogue={F.epilogue} reread={ScriggoV.Gen.Blocking.rereadsDoneAfterFinish} ops={ops}"
  | ["predict", prog, evs] => do
    let p ← parseList parseInstr prog
    let es ← parseList parseEv evs
    let s := (init p).run factsOfCode es
    pure s!"ok {showResult s.result} {(s.vms.filter live).length}"
  | _ => none

end ScriggoV.Drv.C11
