import ScriggoV.Model.Scopes
import ScriggoV.Model.EnvPool
import ScriggoV.Model.ImporterPolicy
/-! Line protocol of C19 (model: `Model/Scopes.lean`).

`check <template 0|1> <allowGo 0|1> <importer> <failing> <globals> <ops>`
  importer := `N` (nil) | `I <n> <pkg>…`        pkg := `<path> <name> <m> <decl>…`   decl := `<name> <kind>`
  failing  := `<k> <path>…`
  globals  := `<g> <global>…`                    global := `<name> <kind> <m> <decl>…`
  ops      := `<n> <op>…`   op := `en` | `ex` | `de <name> <kind>` | `im <path> <form>` | `go`
                                  | `id <name>` | `se <pkg> <name>`
  form     := `D` | `N <name>` | `P` | `B` | `F <k> <name>…`
  kind     := builtin | type | const | var | func | nil | iota | pkg
answers `ok natives=<prov:name,…|->` (`G:` global, `I<path>:` importer; in order of first
resolution) or `err <error>`.

`checkt <template 0|1> <allowGo 0|1> <k> <pkg>… <tree> <globals> <ops>` (model: `Model/ImporterPolicy.lean`
under the stop rule regenerated from CombinedImporter.Import, `ImporterPolicy.codeRule`)
  pkg    := `<name> <m> <decl>…`                      (the package values, numbered from 0)
  tree   := `N` (nil importer) | node
  node   := `P <n> (<path> <pkg index | -1 = nil stored>)…`        native.Packages
          | `U <id> <n> (<path> <answer>)…`                          an importer of the embedder's own
          | `C <n> <node>…`                                          native.CombinedImporter
  answer := `n` | `p <pkg index>` | `e <errno>` | `b <pkg index> <errno>`
answers as `check` does, followed by ` imports=<path>:<answer>,…|-` for the paths the ops import
(the importer's answer: `n`, `p<index>`, `e<errno>`, `b<index>.<errno>`).

`runs <k> <sig>… <n> <call>… <runs> <m> <run index>…` (model: `Model/EnvPool.lean` under the rules
regenerated from callNative, `EnvPool.codeRules`)
  sig  := a word over `e` (native.Env) `r` (ordinary) `v` (variadic)
  call := `<native index> <m|g|c> <s|a>`   (calling VM: main / goroutine / callback; synchronous / go)
  then the number of runs (run `i` has env `i`) and a schedule
answers `ok <run>|<run>|…`, a run being `<native index>.<env the callee was handed | x>,…` in the
order of the observations (`-` when there is none). -/
namespace ScriggoV.Drv.C19
open ScriggoV.Scopes

abbrev P (α : Type) := List String → Option (α × List String)

def pNat : P Nat
  | t :: ts => t.toNat?.map (·, ts)
  | [] => none
def pTok : P String
  | t :: ts => some (t, ts)
  | [] => none
def pBool : P Bool
  | "0" :: ts => some (false, ts)
  | "1" :: ts => some (true, ts)
  | _ => none

def pMany {α : Type} (p : P α) : Nat → P (List α)
  | 0, ts => some ([], ts)
  | n + 1, ts => do
    let (a, ts) ← p ts
    let (as, ts) ← pMany p n ts
    pure (a :: as, ts)

def pCounted {α : Type} (p : P α) : P (List α) := fun ts => do
  let (n, ts) ← pNat ts
  if n > 10000 then none else pMany p n ts

def pKind : P Kind
  | "builtin" :: ts => some (.builtin, ts)
  | "type" :: ts => some (.type, ts)
  | "const" :: ts => some (.const, ts)
  | "var" :: ts => some (.var, ts)
  | "func" :: ts => some (.func, ts)
  | "nil" :: ts => some (.nilValue, ts)
  | "iota" :: ts => some (.iota, ts)
  | "pkg" :: ts => some (.pkg, ts)
  | _ => none

def pDecl : P Decl := fun ts => do
  let (n, ts) ← pTok ts
  let (k, ts) ← pKind ts
  pure (⟨n, k⟩, ts)

def pPkg : P (String × NativePkg) := fun ts => do
  let (path, ts) ← pTok ts
  let (name, ts) ← pTok ts
  let (ds, ts) ← pCounted pDecl ts
  pure ((path, ⟨name, ds⟩), ts)

def pImporter : P (Option (List (String × NativePkg)))
  | "N" :: ts => some (none, ts)
  | "I" :: ts => do let (ps, ts) ← pCounted pPkg ts; pure (some ps, ts)
  | _ => none

def pGlobal : P GlobalDecl := fun ts => do
  let (n, ts) ← pTok ts
  let (k, ts) ← pKind ts
  let (ds, ts) ← pCounted pDecl ts
  pure (⟨n, k, ds⟩, ts)

def pForm : P ImportForm
  | "D" :: ts => some (.default, ts)
  | "N" :: n :: ts => some (.named n, ts)
  | "P" :: ts => some (.dot, ts)
  | "B" :: ts => some (.blank, ts)
  | "F" :: ts => do let (ns, ts) ← pCounted pTok ts; pure (.forNames ns, ts)
  | _ => none

def pOp : P Op
  | "en" :: ts => some (.enter, ts)
  | "ex" :: ts => some (.exit, ts)
  | "de" :: ts => do let (n, ts) ← pTok ts; let (k, ts) ← pKind ts; pure (.declare n k, ts)
  | "im" :: ts => do let (p, ts) ← pTok ts; let (f, ts) ← pForm ts; pure (.importNative p f, ts)
  | "go" :: ts => some (.goStmt, ts)
  | "id" :: n :: ts => some (.useIdent n, ts)
  | "se" :: p :: n :: ts => some (.useSelector p n, ts)
  | _ => none

def showNative (nf : NativeFn) : String :=
  match nf.prov with
  | .global => "G:" ++ nf.name
  | .importer p => "I" ++ p ++ ":" ++ nf.name
  | .univ => "U:" ++ nf.name
  | .code => "C:" ++ nf.name

def dedup : List String → List String → List String
  | [], acc => acc.reverse
  | x :: xs, acc => if acc.contains x then dedup xs acc else dedup xs (x :: acc)

open ScriggoV.EnvPool in
def pSig : P (List ScriggoV.Gen.NativeEnv.SlotClass) := fun ts => do
  let (w, ts) ← pTok ts
  let cs ← w.toList.mapM fun c =>
    if c == 'e' then some ScriggoV.Gen.NativeEnv.SlotClass.env
    else if c == 'r' then some .reg
    else if c == 'v' then some .variadic
    else none
  pure (cs, ts)

open ScriggoV.EnvPool in
def pCall : P Call := fun ts => do
  let (f, ts) ← pNat ts
  let (vm, ts) ← (match ts with
    | "m" :: ts => some (VMKind.main, ts)
    | "g" :: ts => some (.goroutine, ts)
    | "c" :: ts => some (.callback, ts)
    | _ => none)
  let (async, ts) ← (match ts with
    | "s" :: ts => some (false, ts)
    | "a" :: ts => some (true, ts)
    | _ => none)
  pure (⟨f, vm, async, []⟩, ts)

open ScriggoV.EnvPool in
def showSeen (o : Seen) : String :=
  toString o.f ++ "." ++ (match envsOf o.got with | e :: _ => toString e | [] => "x")

open ScriggoV.EnvPool in
def runsAnswer (natives : List (List ScriggoV.Gen.NativeEnv.SlotClass)) (body : List Call) (n : Nat)
    (sched : List Nat) : String :=
  let s := ScriggoV.Runs.runSched sched (freshSys codeRules natives body n)
  let per := (List.range n).map fun i =>
    let os := ScriggoV.Runs.obsOf i s
    if os.isEmpty then "-" else ",".intercalate (os.map showSeen)
  "ok " ++ "|".intercalate per

open ScriggoV.ImporterPolicy ScriggoV.Packages in
def pInt : P Int
  | t :: ts => t.toInt?.map (·, ts)
  | [] => none

open ScriggoV.ImporterPolicy ScriggoV.Packages in
def pAnswer (pkgs : List NativePkg) : P Answer
  | "n" :: ts => some ((none, none), ts)
  | "p" :: ts => do let (i, ts) ← pNat ts; let k ← pkgs[i]?; pure ((some k, none), ts)
  | "e" :: ts => do let (e, ts) ← pNat ts; pure ((none, some e), ts)
  | "b" :: ts => do
    let (i, ts) ← pNat ts; let k ← pkgs[i]?; let (e, ts) ← pNat ts; pure ((some k, some e), ts)
  | _ => none

def assocAnswer (tbl : List (String × ScriggoV.ImporterPolicy.Answer)) (path : String) :
    ScriggoV.ImporterPolicy.Answer :=
  match tbl.lookup path with
  | some a => a
  | none => (none, none)

open ScriggoV.ImporterPolicy ScriggoV.Packages in
def pNode (pkgs : List NativePkg) : Nat → P Tree
  | 0, _ => none
  | _ + 1, "P" :: ts => do
    let (m, ts) ← pCounted (fun ts => do
      let (path, ts) ← pTok ts
      let (i, ts) ← pInt ts
      if i < 0 then pure ((path, (none : Option NativePkg)), ts)
      else do let k ← pkgs[i.toNat]?; pure ((path, some k), ts)) ts
    pure (.packages m, ts)
  | _ + 1, "U" :: ts => do
    let (id, ts) ← pNat ts
    let (tbl, ts) ← pCounted (fun ts => do
      let (path, ts) ← pTok ts
      let (a, ts) ← pAnswer pkgs ts
      pure ((path, a), ts)) ts
    pure (.custom id (assocAnswer tbl), ts)
  | fuel + 1, "C" :: ts => do
    let (is, ts) ← pCounted (pNode pkgs fuel) ts
    pure (.combined is, ts)
  | _, _ => none

open ScriggoV.ImporterPolicy in
def showAnswer (pkgs : List NativePkg) (a : Answer) : String :=
  let idx (k : NativePkg) : String := toString (pkgs.findIdx (· == k))
  match a with
  | (none, none) => "n"
  | (some k, none) => "p" ++ idx k
  | (none, some e) => "e" ++ toString e
  | (some k, some e) => "b" ++ idx k ++ "." ++ toString e

def dedupS : List String → List String → List String
  | [], acc => acc.reverse
  | x :: xs, acc => if acc.contains x then dedupS xs acc else dedupS xs (x :: acc)

def handle : List String → Option String
  | "checkt" :: ts => do
    let (template, ts) ← pBool ts
    let (allowGo, ts) ← pBool ts
    let (pkgs, ts) ← pCounted (fun ts => do
      let (name, ts) ← pTok ts
      let (ds, ts) ← pCounted pDecl ts
      pure ((⟨name, ds⟩ : NativePkg), ts)) ts
    let (tree, ts) ← (match ts with
      | "N" :: ts => some ((none : Option ScriggoV.ImporterPolicy.Tree), ts)
      | ts => do let (t, ts) ← pNode pkgs 8 ts; pure (some t, ts))
    let (globals, ts) ← pCounted pGlobal ts
    let (ops, ts) ← pCounted pOp ts
    if !ts.isEmpty then none
    else
      let paths := dedupS (ScriggoV.ImporterPolicy.importPaths ops) []
      let imports := match tree with
        | none => "-"
        | some t =>
          if paths.isEmpty then "-"
          else ",".intercalate (paths.map fun p =>
            p ++ ":" ++ showAnswer pkgs (ScriggoV.ImporterPolicy.eval ScriggoV.ImporterPolicy.codeRule t p))
      match ScriggoV.ImporterPolicy.checkTree ScriggoV.ImporterPolicy.codeRule tree globals allowGo template ops with
      | .error e => pure ("err " ++ e.name ++ " imports=" ++ imports)
      | .ok st =>
        let ns := dedup (st.natives.reverse.map showNative) []
        pure ("ok natives=" ++ (if ns.isEmpty then "-" else ",".intercalate ns) ++ " imports=" ++ imports)
  | "runs" :: ts => do
    let (natives, ts) ← pCounted pSig ts
    let (body, ts) ← pCounted pCall ts
    let (n, ts) ← pNat ts
    let (sched, ts) ← pCounted pNat ts
    if !ts.isEmpty || n > 64 then none else pure (runsAnswer natives body n sched)
  | "check" :: ts => do
    let (template, ts) ← pBool ts
    let (allowGo, ts) ← pBool ts
    let (imp, ts) ← pImporter ts
    let (failing, ts) ← pCounted pTok ts
    let (globals, ts) ← pCounted pGlobal ts
    let (ops, ts) ← pCounted pOp ts
    if !ts.isEmpty then none
    else
      match check ⟨imp, failing, globals, allowGo⟩ template ops with
      | .error e => pure ("err " ++ e.name)
      | .ok st =>
        let ns := dedup (st.natives.reverse.map showNative) []
        pure ("ok natives=" ++ (if ns.isEmpty then "-" else ",".intercalate ns))
  | _ => none

end ScriggoV.Drv.C19
