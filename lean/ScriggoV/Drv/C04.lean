import ScriggoV.Drv.Lexer
namespace ScriggoV.Drv.C04
def handle : List String → Option String := ScriggoV.Drv.Lexer.handle
end ScriggoV.Drv.C04
