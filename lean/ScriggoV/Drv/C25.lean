import ScriggoV.Drv.Util
import ScriggoV.Model.Builtins
import ScriggoV.Spec.Percent
namespace ScriggoV.Drv.C25
open ScriggoV ScriggoV.Builtins

def okBool (b : Bool) : String := if b then "ok true" else "ok false"
def okInt (i : Int) : String := "ok " ++ toString i

def exceptBool (r : Except Fault Bool) : String :=
  match r with
  | .ok b => okBool b
  | .error f => "err " ++ f.name

/-- decimal Go `int`; anything outside the 64-bit range is unparsable -/
def int64? (s : String) : Option Int := do
  let i ← s.toInt?
  if minInt64 ≤ i ∧ i ≤ maxInt64 then some i else none

def widths (rs : List Bytes) : String :=
  if rs.isEmpty then "-" else ",".intercalate (rs.map fun r => toString r.length)

def handle : List String → Option String
  | ["queryescape", h] => do
    let s ← fromHex h
    pure (exceptBytes (queryEscape s))
  | ["pctdecode", h] => do
    let s ← fromHex h
    pure (match Percent.pctDecode s with
      | some b => okBytes b
      | none => "err malformed")
  | ["alphabet", h] => do
    let s ← fromHex h
    pure (okBool (Percent.onlyUnreservedAndEscapes s))
  | ["onlyws", h] => do
    let s ← fromHex h
    pure (exceptBool (onlyJSONWhitespace s))
  | ["trim", h] => do
    let s ← fromHex h
    pure (exceptBytes (trimJSONSpace s))
  | ["abbr", h, n] => do
    let s ← fromHex h
    let n ← int64? n
    pure (exceptBytes (abbreviate s n))
  | ["runes", h] => do
    let s ← fromHex h
    pure ("ok " ++ widths (Runes.runes s))
  | ["trimright", h] => do
    let s ← fromHex h
    pure (okBytes (trimRight s))
  | ["lastindexany", h] => do
    let s ← fromHex h
    pure (okInt (lastIndexAny s))
  | ["abs", x] => do
    let x ← int64? x
    pure (okInt (goAbs x))
  | ["max", x, y] => do
    let x ← int64? x
    let y ← int64? y
    pure (okInt (goMax x y))
  | ["min", x, y] => do
    let x ← int64? x
    let y ← int64? y
    pure (okInt (goMin x y))
  | ["tablelen"] => some ("ok " ++ toString Gen.BuiltinTables.lookupJSONSpace.length)
  | _ => none

end ScriggoV.Drv.C25
