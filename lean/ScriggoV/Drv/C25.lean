import ScriggoV.Drv.Util
import ScriggoV.Model.Builtins
import ScriggoV.Spec.Percent
import ScriggoV.Model.BuiltinsText
import ScriggoV.Gen.ReflectGuards
namespace ScriggoV.Drv.C25
open ScriggoV ScriggoV.Builtins

def okBool (b : Bool) : String := if b then "ok true" else "ok false"
def okInt (i : Int) : String := "ok " ++ toString i

def exceptBool (r : Except Fault Bool) : String :=
  match r with
  | .ok b => okBool b
  | .error f => "err " ++ f.name

/-- decimal Go `int`; anything outside the 64-bit range is unparsable -/
def int64? (s : String) : Option Int := do
  let i ← s.toInt?
  if minInt64 ≤ i ∧ i ≤ maxInt64 then some i else none

def widths (rs : List Bytes) : String :=
  if rs.isEmpty then "-" else ",".intercalate (rs.map fun r => toString r.length)

/-- one entry `cp.flags.upper.lower` of the table of package unicode's answers for the runes of
the case (flags: 1 lower, 2 upper, 4 digit, 8 letter, 16 space), supplied by the harness -/
def parseEntry (e : String) : Option (Nat × Nat × Nat × Nat) :=
  match e.splitOn "." with
  | [a, b, c, d] => do
    let a ← a.toNat?
    let b ← b.toNat?
    let c ← c.toNat?
    let d ← d.toNat?
    pure (a, b, c, d)
  | _ => none

def parseTable (t : String) : Option (List (Nat × Nat × Nat × Nat)) :=
  if t == "-" then some [] else (t.splitOn ",").mapM parseEntry

def lookupRune (tbl : List (Nat × Nat × Nat × Nat)) (r : Nat) : Nat × Nat × Nat :=
  match tbl.find? (fun e => e.1 == r) with
  | some e => e.2
  | none => (0, r, r)

def unicodeOf (tbl : List (Nat × Nat × Nat × Nat)) : UnicodeFns where
  isLower r := (lookupRune tbl r).1 % 2 == 1
  isUpper r := (lookupRune tbl r).1 / 2 % 2 == 1
  isDigit r := (lookupRune tbl r).1 / 4 % 2 == 1
  isLetter r := (lookupRune tbl r).1 / 8 % 2 == 1
  isSpace r := (lookupRune tbl r).1 / 16 % 2 == 1
  toUpper r := (lookupRune tbl r).2.1
  toLower r := (lookupRune tbl r).2.2

/-- `Spec/Reflect.lean` on one operation, for the validation against the real package reflect.
The operand is the argument itself (`valueOf`, `typeOf`, `swapper`, `sortSlice`), its
`reflect.ValueOf` (`v…`), its `reflect.TypeOf` (`t…`, `new`), and for `elemset` the sequence
`reflect.ValueOf(a).Elem().Set(reflect.New(reflect.TypeOf(a).Elem()).Elem())`. -/
def reflectOp (name : String) (a : Reflect.Arg) : Option Bool :=
  let rs : Reflect.Regs := [(0, .iface a)]
  let run (ops : List (Nat × Reflect.Op)) : Bool :=
    (ops.foldl (fun (st : Option Reflect.Regs) (e : Nat × Reflect.Op) => st.bind fun rs =>
      (e.2.eval rs).map fun o => (e.1, o) :: rs) (some rs)).isSome
  let onV (o : Reflect.Op) := some (run [(1, .valueOf 0), (2, o)])
  let onT (o : Reflect.Op) := some (run [(1, .typeOf 0), (2, o)])
  match name with
  | "valueOf" => some (run [(1, .valueOf 0)])
  | "typeOf" => some (run [(1, .typeOf 0)])
  | "swapper" => some (run [(1, .swapper 0)])
  | "sortSlice" => some (run [(1, .sortSlice 0)])
  | "vType" => onV (.vType 1)
  | "vKind" => onV (.vKind 1)
  | "vString" => onV (.vString 1)
  | "vElem" => onV (.vElem 1)
  | "vInterface" => onV (.vInterface 1)
  | "vIsZero" => onV (.vIsZero 1)
  | "vIsNil" => onV (.vIsNil 1)
  | "vLen" => onV (.vLen 1)
  | "vIndex" => onV (.vIndex 1)
  | "tKind" => onT (.tKind 1)
  | "tString" => onT (.tString 1)
  | "tElem" => onT (.tElem 1)
  | "new" => onT (.new 1)
  | "elemset" => some (run [(1, .valueOf 0), (2, .vElem 1), (3, .typeOf 0), (4, .tElem 3), (5, .new 4), (6, .vElem 5), (7, .vSet 2 6)])
  | _ => none

def handle : List String → Option String
  | ["guards", fn, arg] => do
    let a ← Reflect.Arg.ofName arg
    let prog ← Gen.ReflectGuards.progs.lookup fn
    pure ("ok " ++ "|".intercalate (Reflect.outcomeNames prog a))
  | ["reflectop", name, arg] => do
    let a ← Reflect.Arg.ofName arg
    let ok ← reflectOp name a
    pure (if ok then "ok" else "panic")
  | ["guardfuncs"] => some ("ok " ++ ",".intercalate (Gen.ReflectGuards.progs.map (·.1)))
  | ["anyfuncs"] => some ("ok " ++ ",".intercalate Gen.ReflectGuards.anyParamFuncs)
  | ["errfuncs"] => some ("ok " ++ ",".intercalate Gen.ReflectGuards.errorResultFuncs)
  | ["capitalize", h, t] => do
    let s ← fromHex h
    let tbl ← parseTable t
    pure (exceptBytes (capitalize (unicodeOf tbl) s))
  | ["capitalizeall", h, t] => do
    let s ← fromHex h
    let tbl ← parseTable t
    pure (okBytes (capitalizeAll (unicodeOf tbl) s))
  | ["tokebab", h, t] => do
    let s ← fromHex h
    let tbl ← parseTable t
    pure (exceptBytes (toKebab (unicodeOf tbl) s))
  | ["reverse", h] => do
    let s ← fromHex h
    pure (exceptBytes (goReverse s))
  | ["formatfloat", h] => do
    let s ← fromHex h
    pure (match formatFloatVerb s with
      | .ok none => "ok documented-panic"
      | .ok (some b) => okBytes [b]
      | .error f => "err " ++ f.name)
  | ["decoderune", h] => do
    let s ← fromHex h
    let d := Utf8.decodeRune s
    pure ("ok " ++ toString d.1 ++ " " ++ toString d.2)
  | ["encoderune", n] => do
    let n ← n.toNat?
    pure (okBytes (Utf8.encodeRune n))
  | ["queryescape", h] => do
    let s ← fromHex h
    pure (exceptBytes (queryEscape s))
  | ["pctdecode", h] => do
    let s ← fromHex h
    pure (match Percent.pctDecode s with
      | some b => okBytes b
      | none => "err malformed")
  | ["alphabet", h] => do
    let s ← fromHex h
    pure (okBool (Percent.onlyUnreservedAndEscapes s))
  | ["onlyws", h] => do
    let s ← fromHex h
    pure (exceptBool (onlyJSONWhitespace s))
  | ["trim", h] => do
    let s ← fromHex h
    pure (exceptBytes (trimJSONSpace s))
  | ["abbr", h, n] => do
    let s ← fromHex h
    let n ← int64? n
    pure (exceptBytes (abbreviate s n))
  | ["runes", h] => do
    let s ← fromHex h
    pure ("ok " ++ widths (Runes.runes s))
  | ["trimright", h] => do
    let s ← fromHex h
    pure (okBytes (trimRight s))
  | ["lastindexany", h] => do
    let s ← fromHex h
    pure (okInt (lastIndexAny s))
  | ["abs", x] => do
    let x ← int64? x
    pure (okInt (goAbs x))
  | ["max", x, y] => do
    let x ← int64? x
    let y ← int64? y
    pure (okInt (goMax x y))
  | ["min", x, y] => do
    let x ← int64? x
    let y ← int64? y
    pure (okInt (goMin x y))
  | ["tablelen"] => some ("ok " ++ toString Gen.BuiltinTables.lookupJSONSpace.length)
  | _ => none

end ScriggoV.Drv.C25
