import ScriggoV.Drv.Util
import ScriggoV.Model.ComposeEngine
/-! Line protocol of C16 (prefix notation, fixed arity; formats/contexts by their Go constant value):

  file  := F <fmt> <nitems> item*
  item  := A atom | M <name> <fmt|-> <nparams> <fmt>* <natoms> atom* | X <path> | I <path>
  atom  := T <hex> | S <ctx> <hex> | P <ctx> <index> | R <ctx> <path> <0|1>
         | C <ctx> <name> <0|1> <nargs> <hex>*
  table := <n> (<fmt> <ctx> <hex content> <hex shown>)*      -- showIn<ctx> as measured on the real engine

  run <main> <fuel> <nfiles> file* table  → ok <fmt> <hex> | err fuel|nofile|undefined|badextends
                                            | err need <fmt> <ctx> <hex>   (the table lacks that entry)
  gen <main> <fuel> <nfiles> file* table  → the same with both fast paths switched off
  site <fmt> <ctx> <hex>                  → ok <macroGuard> <renderGuard> <choice> <compatible> <hex fast>
  status                                  → ok <renderGuarded>
Macro names are numbers: even = exported (`M⟨n/2⟩` in the sources the harness writes), odd = unexported
(`m⟨n/2⟩`); see `exported` in Model/Compose.lean.
The Markdown converter of the harness is `<md>` ++ src ++ `</md>`. -/
namespace ScriggoV.Drv.C16
open ScriggoV ScriggoV.Compose ScriggoV.Gen

abbrev P := StateT (List String) Option

def tok : P String := fun ts =>
  match ts with
  | [] => none
  | t :: rest => some (t, rest)

def nat : P Nat := do
  let t ← tok
  match t.toNat? with
  | some n => pure n
  | none => failure

def hex : P Bytes := do
  let t ← tok
  match fromHex t with
  | some b => pure b
  | none => failure

def fmt : P Format := do
  let n ← nat
  match Format.ofCode n with
  | some f => pure f
  | none => failure

def ctx : P Ctx := do
  let n ← nat
  match Ctx.ofWire n with
  | some c => pure c
  | none => failure

def flag : P Bool := do
  let t ← tok
  if t == "0" then pure false else if t == "1" then pure true else failure

def optFmt : P (Option Format) := fun ts =>
  match ts with
  | "-" :: rest => some (none, rest)
  | _ => (do let f ← fmt; pure (some f)) ts

def rep {α : Type} (p : P α) : Nat → P (List α)
  | 0 => pure []
  | n+1 => do
    let a ← p
    let as ← rep p n
    pure (a :: as)

def atom : P Atom := do
  let t ← tok
  if t == "T" then do let b ← hex; pure (.text b)
  else if t == "S" then do let c ← ctx; let b ← hex; pure (.showConst c b)
  else if t == "R" then do let c ← ctx; let p ← nat; let v ← flag; pure (.render c p v)
  else if t == "P" then do let c ← ctx; let i ← nat; pure (.showParam c i)
  else if t == "C" then do
    let c ← ctx; let m ← nat; let v ← flag; let n ← nat; let args ← rep hex n
    pure (.call c m v args)
  else failure

def item : P Item := do
  let t ← tok
  if t == "A" then do let a ← atom; pure (.atom a)
  else if t == "M" then do
    let m ← nat; let f ← optFmt; let np ← nat; let ps ← rep fmt np; let n ← nat; let body ← rep atom n
    pure (.macroDecl m f ps body)
  else if t == "X" then do let p ← nat; pure (.extends_ p)
  else if t == "I" then do let p ← nat; pure (.import_ p)
  else failure

def file : P File := do
  let t ← tok
  if t != "F" then failure
  let f ← fmt; let n ← nat; let items ← rep item n
  pure ⟨f, items⟩

structure Entry where
  f : Format
  c : Ctx
  content : Bytes
  shown : Bytes

def entry : P Entry := do
  let f ← fmt; let c ← ctx; let a ← hex; let b ← hex
  pure ⟨f, c, a, b⟩

def tableEsc (tab : List Entry) (f : Format) (c : Ctx) (b : Bytes) : Except Err Bytes :=
  match tab.find? (fun e => e.f == f && e.c == c && e.content == b) with
  | some e => .ok e.shown
  | none => .error (.needEsc f c b)

def mdConv (b : Bytes) : Bytes := strBytes "<md>" ++ b ++ strBytes "</md>"

def errName : Err → String
  | .fuel => "fuel"
  | .noFile _ => "nofile"
  | .undefined _ => "undefined"
  | .badExtends => "badextends"
  | .badArgs => "badargs"
  | .needEsc f c b => s!"need {f.code} {c.wire} {toHex b}"

def runOp (generic : Bool) : P String := do
  let main ← nat; let fuel ← nat; let nf ← nat
  let files ← rep file nf
  let nt ← nat
  let tab ← rep entry nt
  let E := genEngine mdConv (tableEsc tab)
  let E := if generic then E.allGeneric else E
  match runFile E files fuel true main with
  | .ok (f, out) => pure s!"ok {f.code} {toHex out}"
  | .error e => pure ("err " ++ errName e)

def b01 (b : Bool) : String := if b then "1" else "0"

def siteOp : P String := do
  let f ← fmt; let c ← ctx; let b ← hex
  pure s!"ok {b01 (genMacroGuard f c)} {b01 (genRenderGuard f c)} {(choice f c).code} {b01 (compatible f c)} {toHex (fast mdConv f c b)}"

def finish (p : P String) (ts : List String) : Option String :=
  match p ts with
  | some (s, []) => some s     -- every token must be consumed
  | _ => none

def handle : List String → Option String
  | "run" :: rest => finish (runOp false) rest
  | "gen" :: rest => finish (runOp true) rest
  | "site" :: rest => finish siteOp rest
  | ["status"] => some ("ok " ++ b01 ShowFastPath.renderGuarded)
  | _ => none

end ScriggoV.Drv.C16
