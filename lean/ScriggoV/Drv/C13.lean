import ScriggoV.Drv.Util
import ScriggoV.Model.WriterM
import ScriggoV.Model.TemplateChunks
namespace ScriggoV.Drv.C13
open ScriggoV ScriggoV.WriterM ScriggoV.TemplateChunks

def retName : Ret → String
  | .ok => "ok" | .writeErr => "writeErr" | .otherErr => "otherErr"

def parseChunks : List String → Option (List Bytes)
  | [] => some []
  | h :: t => do
    let c ← fromHex h
    let r ← parseChunks t
    pure (c :: r)

def parseItem (w : String) : Option Item := do
  let tag ← w.toList.head?
  let b ← fromHex (String.ofList w.toList.tail)
  match tag with
  | 't' => some (.text b)
  | 'h' => some (.showHtml b)
  | 'q' => some (.showAttrQ b)
  | 'u' => some (.showAttrU b)
  | 'j' => some (.showJsStr b)
  | 'c' => some (.showCssStr b)
  | _ => none

def parseItems : List String → Option (List Item)
  | [] => some []
  | w :: ws => do
    let i ← parseItem w
    let r ← parseItems ws
    pure (i :: r)

/-- `failat <k> <chunk>…` : run the checked program over these chunks against the writer that
fails at call k; answer `ok <bytes accepted, concatenated> <calls> <ret>` -/
def handle : List String → Option String
  | "failat" :: k :: cs => do
    let k ← k.toNat?
    let cs ← parseChunks cs
    let t := run k (ofChunks cs) 0
    pure s!"ok {toHex t.accepted.flatten} {t.calls} {retName t.ret}"
  | "tchunks" :: items => do
    -- the Write sequence the model predicts for a straight-line template body
    let items ← parseItems items
    pure ("ok" ++ String.join ((allChunks items).map fun c => " " ++ toHex c))
  | _ => none

end ScriggoV.Drv.C13
