import ScriggoV.Drv.Util
import ScriggoV.Model.WriterM
namespace ScriggoV.Drv.C13
open ScriggoV ScriggoV.WriterM

def retName : Ret → String
  | .ok => "ok" | .writeErr => "writeErr" | .otherErr => "otherErr"

def parseChunks : List String → Option (List Bytes)
  | [] => some []
  | h :: t => do
    let c ← fromHex h
    let r ← parseChunks t
    pure (c :: r)

/-- `failat <k> <chunk>…` : run the checked program over these chunks against the writer that
fails at call k; answer `ok <bytes accepted, concatenated> <calls> <ret>` -/
def handle : List String → Option String
  | "failat" :: k :: cs => do
    let k ← k.toNat?
    let cs ← parseChunks cs
    let t := run k (ofChunks cs) 0
    pure s!"ok {toHex t.accepted.flatten} {t.calls} {retName t.ret}"
  | _ => none

end ScriggoV.Drv.C13
