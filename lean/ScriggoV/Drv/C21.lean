import ScriggoV.Drv.Lexer
namespace ScriggoV.Drv.C21
def handle : List String → Option String := ScriggoV.Drv.Lexer.handle
end ScriggoV.Drv.C21
