import ScriggoV.Drv.Util
import ScriggoV.Model.Limits
/-! line-protocol handler of C20:
  fn <name> <int>…         → ok <int>…      a regenerated encoder/decoder (Gen.Encoding.runTable)
  const <name>             → ok <n>         a limit constant
  rows                     → ok <n>         number of rows of the limits table
  row <k>                  → ok <table> <guard|-> <width|-> <reserved> <codec> <hex message>
  outcome <table> <count>  → ok built | ok limit <hex message>     `count` entries needed in one function
  reuse <table> <count>    → ok built | ok limit <hex message>     `count` distinct entries, then one of them again
  readback <codec> <t> <i> → ok <n> | ok fault                     what the VM reads for entry number i
  enums                    → ok <name>:<count>:<bits> … -/
namespace ScriggoV.Drv.C20
open ScriggoV ScriggoV.Gen.Encoding ScriggoV.Limits

def ints : List String → Option (List Int)
  | [] => some []
  | s :: rest => do
    let x ← s.toInt?
    let xs ← ints rest
    pure (x :: xs)

def showInts (xs : List Int) : String := " ".intercalate (xs.map toString)

def codecName : Codec → String
  | .u8 => "u8" | .u16 => "u16" | .i16 => "i16" | .valueIndex => "valueIndex" | .u24 => "u24"
  | .reg => "reg" | .notOperand => "notOperand"

def codecOf (s : String) : Option Codec :=
  [Codec.u8, .u16, .i16, .valueIndex, .u24, .reg, .notOperand].find? (fun c => codecName c == s)

def optNat : Option Nat → String
  | some n => toString n
  | none => "-"

def showRow (r : Row) : String :=
  s!"{r.table} {optNat r.guard} {optNat r.width} {r.reserved} {codecName r.codec} {toHex (strBytes r.message)}"

/-- Build outcome the model predicts when one function needs `count` entries of `table`: the table
is filled one entry at a time (lenAfter) or, for tables checked as a whole (no operand carries an
index: select cases), compared once (checkCount). With several append sites every site must let
the entries in. -/
def outcome (table : String) (count : Nat) : Option String :=
  match limits.filter (fun r => r.table == table) with
  | [] => none
  | rows =>
    let bad := rows.find? (fun r =>
      if r.codec == .notOperand then checkCount r.guard count == .limitExceeded
      else (lenAfter r.guard count).isNone)
    match bad with
    | some r => some s!"ok limit {toHex (strBytes r.message)}"
    | none => some "ok built"

/-- Build outcome when the function has `count` distinct entries of `table` and then uses one of
them again -/
def reuse (table : String) (count : Nat) : Option String :=
  match limits.filter (fun r => r.table == table) with
  | [] => none
  | rows =>
    match outcome table count with
    | some "ok built" =>
      let bad := rows.find? (fun r => intern r.guardBeforeLookup r.guard count (some 0) == .limitExceeded)
      match bad with
      | some r => some s!"ok limit {toHex (strBytes r.message)}"
      | none => some "ok built"
    | other => other

def handle : List String → Option String
  | "fn" :: name :: args => do
    let f ← (runTable.find? (fun p => p.1 == name)).map (·.2)
    let xs ← ints args
    let r ← f xs
    pure ("ok " ++ showInts r)
  | ["const", name] => do
    let c ← limitConstants.find? (fun p => p.1 == name)
    pure s!"ok {c.2}"
  | ["rows"] => some s!"ok {limits.length}"
  | ["row", k] => do
    let k ← k.toNat?
    let r ← limits[k]?
    pure ("ok " ++ showRow r)
  | ["outcome", table, count] => do
    let n ← count.toNat?
    outcome table n
  | ["reuse", table, count] => do
    let n ← count.toNat?
    reuse table n
  | ["readback", c, t, i] => do
    let c ← codecOf c
    let t ← t.toNat?
    let i ← i.toNat?
    match readBack c t i with
    | some n => pure s!"ok {n}"
    | none => pure "ok fault"
  | ["enums"] =>
    some ("ok " ++ " ".intercalate (enums.map (fun e => s!"{e.1}:{e.2.1}:{e.2.2}")))
  | _ => none

end ScriggoV.Drv.C20
