import ScriggoV.Model.Packages
/-! line protocol of C22 (prefix notation, fixed arity):
```
pkg  := p <k> (<name> <decl>)^k | c <k> pkg^k          decl := n | <nat>
cb   := <ki> out^ki <kn> (<name> out)^kn               out  := c | s | e<nat>
imp  := pk <k> (<path> <pv>)^k | cu <id> <k> (<path> <pv> <ev>)^k | co <k> imp^k     pv, ev := n | <nat>
C22 lookupfunc pkg cb   -> ok <nil|stop|e<nat>> <name:decl,...|->
C22 lookup pkg <name>   -> ok <decl>
C22 decls pkg           -> ok <name:decl,...|->        (the specification's enumeration)
C22 import imp <path>   -> ok <pv> <ev> <id,...|->
```
The callback answers call number `i` on name `n` with `out_i` if `i < ki` and `out_i ≠ c`, else with
the outcome listed for `n`, else continues. -/
namespace ScriggoV.Drv.C22
open ScriggoV.Packages

abbrev Toks := List String

def optNat (s : String) : Option (Option Nat) :=
  if s == "n" then some none else s.toNat?.map some

def parseDecls : Nat → Toks → Option (List (Nat × Decl) × Toks)
  | 0, ts => some ([], ts)
  | k + 1, n :: d :: ts => do
    let n ← n.toNat?
    let d ← optNat d
    let (r, ts) ← parseDecls k ts
    pure ((n, d) :: r, ts)
  | _, _ => none

mutual
def parsePkg : Nat → Toks → Option (Pkg Nat × Toks)
  | 0, _ => none
  | fuel + 1, "p" :: k :: ts => do
    let (ds, ts) ← parseDecls (← k.toNat?) ts
    let _ := fuel
    pure (.pkg ds, ts)
  | fuel + 1, "c" :: k :: ts => do
    let (ps, ts) ← parsePkgs fuel (← k.toNat?) ts
    pure (.combined ps, ts)
  | _, _ => none
def parsePkgs : Nat → Nat → Toks → Option (List (Pkg Nat) × Toks)
  | _, 0, ts => some ([], ts)
  | 0, _, _ => none
  | fuel + 1, k + 1, ts => do
    let (p, ts) ← parsePkg fuel ts
    let (ps, ts) ← parsePkgs fuel k ts
    pure (p :: ps, ts)
end

def parseOut (s : String) : Option Error :=
  if s == "c" then some none
  else if s == "s" then some (some .stop)
  else if s.startsWith "e" then (s.drop 1).toNat?.map fun n => some (.other n)
  else none

def parseOuts : Nat → Toks → Option (List Error × Toks)
  | 0, ts => some ([], ts)
  | k + 1, o :: ts => do
    let o ← parseOut o
    let (r, ts) ← parseOuts k ts
    pure (o :: r, ts)
  | _, _ => none

def parseNamed : Nat → Toks → Option (List (Nat × Error) × Toks)
  | 0, ts => some ([], ts)
  | k + 1, n :: o :: ts => do
    let n ← n.toNat?
    let o ← parseOut o
    let (r, ts) ← parseNamed k ts
    pure ((n, o) :: r, ts)
  | _, _ => none

/-- the harness's callback: logs, answers by call index, then by name -/
def callback (byIdx : List Error) (byName : List (Nat × Error)) : Callback Nat (List (Nat × Decl)) :=
  fun log n d =>
    let o : Error := match byIdx[log.length]? with
      | some (some e) => some e
      | _ => (byName.lookup n).join
    (log ++ [(n, d)], o)

def showDecl : Decl → String
  | none => "n"
  | some v => toString v

def showPairs (l : List (Nat × Decl)) : String :=
  if l.isEmpty then "-" else ",".intercalate (l.map fun (n, d) => toString n ++ ":" ++ showDecl d)

def showErr : Error → String
  | none => "nil"
  | some .stop => "stop"
  | some (.other n) => "e" ++ toString n

abbrev NImp := Imp Nat Nat Nat

def parseTable2 : Nat → Toks → Option (List (Nat × Option Nat) × Toks)
  | 0, ts => some ([], ts)
  | k + 1, p :: v :: ts => do
    let p ← p.toNat?
    let v ← optNat v
    let (r, ts) ← parseTable2 k ts
    pure ((p, v) :: r, ts)
  | _, _ => none

def parseTable3 : Nat → Toks → Option (List (Nat × (Option Nat × Option Nat)) × Toks)
  | 0, ts => some ([], ts)
  | k + 1, p :: v :: e :: ts => do
    let p ← p.toNat?
    let v ← optNat v
    let e ← optNat e
    let (r, ts) ← parseTable3 k ts
    pure ((p, (v, e)) :: r, ts)
  | _, _ => none

mutual
def parseImp : Nat → Toks → Option (NImp × Toks)
  | 0, _ => none
  | _ + 1, "pk" :: k :: ts => do
    let (m, ts) ← parseTable2 (← k.toNat?) ts
    pure (.packages m, ts)
  | _ + 1, "cu" :: id :: k :: ts => do
    let (m, ts) ← parseTable3 (← k.toNat?) ts
    pure (.custom (← id.toNat?) (fun path => (m.lookup path).getD (none, none)), ts)
  | fuel + 1, "co" :: k :: ts => do
    let (is, ts) ← parseImps fuel (← k.toNat?) ts
    pure (.combined is, ts)
  | _, _ => none
def parseImps : Nat → Nat → Toks → Option (List NImp × Toks)
  | _, 0, ts => some ([], ts)
  | 0, _, _ => none
  | fuel + 1, k + 1, ts => do
    let (i, ts) ← parseImp fuel ts
    let (is, ts) ← parseImps fuel k ts
    pure (i :: is, ts)
end

def showOpt : Option Nat → String
  | none => "n"
  | some v => toString v

def showIds (l : List Nat) : String :=
  if l.isEmpty then "-" else ",".intercalate (l.map toString)

def handle : List String → Option String
  | "lookupfunc" :: ts => do
    let (p, ts) ← parsePkg (ts.length + 1) ts
    match ts with
    | ki :: ts =>
      let (byIdx, ts) ← parseOuts (← ki.toNat?) ts
      match ts with
      | kn :: ts =>
        let (byName, ts) ← parseNamed (← kn.toNat?) ts
        if !ts.isEmpty then none
        let r := p.lookupFunc (callback byIdx byName) []
        pure ("ok " ++ showErr r.2 ++ " " ++ showPairs r.1)
      | _ => none
    | _ => none
  | "lookup" :: ts => do
    let (p, ts) ← parsePkg (ts.length + 1) ts
    match ts with
    | [n] => pure ("ok " ++ showDecl (p.lookup (← n.toNat?)))
    | _ => none
  | "decls" :: ts => do
    let (p, ts) ← parsePkg (ts.length + 1) ts
    if !ts.isEmpty then none
    pure ("ok " ++ showPairs p.decls)
  | "import" :: ts => do
    let (i, ts) ← parseImp (ts.length + 1) ts
    match ts with
    | [path] =>
      let r := i.imp (← path.toNat?) []
      pure ("ok " ++ showOpt r.2.1 ++ " " ++ showOpt r.2.2 ++ " " ++ showIds r.1)
    | _ => none
  | _ => none

end ScriggoV.Drv.C22
