import ScriggoV.Lemmas.LexCtxRefineCases
/-! # The full lexer model refines the context projection — part 3: one iteration

`ctxSwitch`, `tail` and `step` of the full model against `ctxSwitchP`, `tailP`, `cstep`:
`step_refines`. Core Lean only. -/
namespace ScriggoV.LexCtx
open ScriggoV ScriggoV.Lexer ScriggoV.Gen.LexTables

/-! ## the HTML family of contexts -/

instance (c : Nat) : Decidable (htmlFamily c) := by unfold htmlFamily; infer_instance

theorem htmlFamily.not_md {c : Nat} (h : htmlFamily c) : ¬ c = ContextMarkdown := by
  intro hc; subst hc; revert h; decide
theorem htmlFamily.not_tab {c : Nat} (h : htmlFamily c) : ¬ c = ContextTabCodeBlock := by
  intro hc; subst hc; revert h; decide
theorem htmlFamily.not_spaces {c : Nat} (h : htmlFamily c) : ¬ c = ContextSpacesCodeBlock := by
  intro hc; subst hc; revert h; decide

/-- both context fields are in the HTML family -/
def Fam (s : CSt) : Prop := htmlFamily s.ctx ∧ htmlFamily s.tagCtx

theorem typeAttrP_fam (U : Unicode) (text : Bytes) (s : CSt) (h : htmlFamily s.tagCtx) :
    htmlFamily (typeAttrP U text s) := by
  unfold typeAttrP
  repeat' split
  all_goals try dsimp only
  all_goals repeat' split
  all_goals first | exact h | decide

/-- close a `Fam` goal about an explicit state -/
macro "fam_close" h:ident : tactic =>
  `(tactic| (refine ⟨?_, ?_⟩ <;> (try dsimp only) <;> first | exact ($h).1 | exact ($h).2 | decide | (split <;> decide)))

theorem caseLTP_fam (U : Unicode) (text : Bytes) (s : CSt) (h : Fam s) : Fam (caseLTP U text s).1 := by
  unfold caseLTP
  split
  · exact h
  · simp only []
    repeat' split
    all_goals fam_close h

theorem caseTagP_fam (U : Unicode) (text : Bytes) (s : CSt) (c : UInt8) (h : Fam s) : Fam (caseTagP U text s c).1 := by
  unfold caseTagP
  split
  · split
    · exact ⟨h.2, by decide⟩
    · exact ⟨h.2, by decide⟩
  · split
    · simp only []
      split
      · split
        · split
          · split <;> fam_close h
          · split <;> fam_close h
        · exact h
      · exact h
    · exact h

theorem caseAttrP_fam (U : Unicode) (text : Bytes) (s : CSt) (c : UInt8) (h : Fam s) : Fam (caseAttrP U text s c).1 := by
  unfold caseAttrP
  have ht := typeAttrP_fam U text { s with quote := 0 } h.2
  split
  · simp only []
    split <;> split <;> first | exact ⟨by decide, h.2⟩ | exact ⟨by decide, ht⟩
  · exact h

theorem caseCSSP_fam (text : Bytes) (s : CSt) (c : UInt8) (h : Fam s) : Fam (caseCSSP text s c).1 := by
  unfold caseCSSP
  repeat' split
  all_goals fam_close h

theorem caseJSP_fam (text : Bytes) (s : CSt) (c : UInt8) (h : Fam s) : Fam (caseJSP text s c).1 := by
  unfold caseJSP
  repeat' split
  all_goals fam_close h

theorem caseJSStringP_fam (text : Bytes) (s : CSt) (c : UInt8) (back : Nat) (q : UInt8) (h : Fam s)
    (hb : htmlFamily back) : Fam (caseJSStringP text s c back q).1 := by
  unfold caseJSStringP
  repeat' split
  all_goals first | exact h | exact ⟨hb, h.2⟩ | exact ⟨by decide, h.2⟩

theorem caseJSONP_fam (text : Bytes) (s : CSt) (c : UInt8) (h : Fam s) : Fam (caseJSONP text s c).1 := by
  unfold caseJSONP
  repeat' split
  all_goals fam_close h

theorem ctxSwitchP_fam (U : Unicode) (text : Bytes) (s : CSt) (c : UInt8) (h : Fam s) :
    Fam (ctxSwitchP U text s c).1 := by
  unfold ctxSwitchP
  repeat' split
  · exact caseLTP_fam U text s h
  · exact h
  · exact caseTagP_fam U text s c h
  · exact caseAttrP_fam U text s c h
  · exact caseCSSP_fam text s c h
  · exact caseJSP_fam text s c h
  · exact caseJSStringP_fam text s c _ _ h (by decide)
  · exact caseJSONP_fam text s c h
  · exact caseJSStringP_fam text s c _ _ h (by decide)
  · exact h

end ScriggoV.LexCtx
