import ScriggoV.Lemmas.LexCtxRefineCases
/-! # The full lexer model refines the context projection — part 3: one iteration

`ctxSwitch`, `tail` and `step` of the full model against `ctxSwitchP`, `tailP`, `cstep`:
`step_refines`. Core Lean only. -/
namespace ScriggoV.LexCtx
open ScriggoV ScriggoV.Lexer ScriggoV.Gen.LexTables

/-! ## the HTML family of contexts -/

instance (c : Nat) : Decidable (htmlFamily c) := by unfold htmlFamily; infer_instance

theorem htmlFamily.not_md {c : Nat} (h : htmlFamily c) : ¬ c = ContextMarkdown := by
  intro hc; subst hc; revert h; decide
theorem htmlFamily.not_tab {c : Nat} (h : htmlFamily c) : ¬ c = ContextTabCodeBlock := by
  intro hc; subst hc; revert h; decide
theorem htmlFamily.not_spaces {c : Nat} (h : htmlFamily c) : ¬ c = ContextSpacesCodeBlock := by
  intro hc; subst hc; revert h; decide

/-- both context fields are in the HTML family -/
def Fam (s : CSt) : Prop := htmlFamily s.ctx ∧ htmlFamily s.tagCtx

theorem typeAttrP_fam (U : Unicode) (text : Bytes) (s : CSt) (h : htmlFamily s.tagCtx) :
    htmlFamily (typeAttrP U text s) := by
  unfold typeAttrP
  repeat' split
  all_goals try dsimp only
  all_goals repeat' split
  all_goals first | exact h | decide

/-- a constant context of the HTML family -/
macro "hfam" : tactic => `(tactic| first | decide | (dsimp only; decide))

/-- close a `Fam` goal about an explicit state -/
macro "fam_close" h:ident : tactic =>
  `(tactic| (refine ⟨?_, ?_⟩ <;> (try dsimp only) <;> first | exact ($h).1 | exact ($h).2 | decide | (split <;> decide)))

theorem caseLTP_fam (U : Unicode) (text : Bytes) (s : CSt) (h : Fam s) : Fam (caseLTP U text s).1 := by
  unfold caseLTP
  split
  · exact h
  · simp only []
    repeat' split
    all_goals fam_close h

theorem caseTagP_fam (U : Unicode) (text : Bytes) (s : CSt) (c : UInt8) (h : Fam s) : Fam (caseTagP U text s c).1 := by
  unfold caseTagP
  split
  · split
    · exact ⟨h.2, by hfam⟩
    · exact ⟨h.2, by hfam⟩
  · split
    · simp only []
      split
      · split
        · split
          · split <;> fam_close h
          · split <;> fam_close h
        · exact h
      · exact h
    · exact h

theorem caseAttrP_fam (U : Unicode) (text : Bytes) (s : CSt) (c : UInt8) (h : Fam s) : Fam (caseAttrP U text s c).1 := by
  unfold caseAttrP
  have ht := typeAttrP_fam U text { s with quote := 0 } h.2
  split
  · simp only []
    split <;> split <;> first | exact ⟨by hfam, h.2⟩ | exact ⟨by hfam, ht⟩
  · exact h

theorem caseCSSP_fam (text : Bytes) (s : CSt) (c : UInt8) (h : Fam s) : Fam (caseCSSP text s c).1 := by
  unfold caseCSSP
  repeat' split
  all_goals fam_close h

theorem caseJSP_fam (text : Bytes) (s : CSt) (c : UInt8) (h : Fam s) : Fam (caseJSP text s c).1 := by
  unfold caseJSP
  repeat' split
  all_goals fam_close h

theorem caseJSStringP_fam (text : Bytes) (s : CSt) (c : UInt8) (back : Nat) (q : UInt8) (h : Fam s)
    (hb : htmlFamily back) : Fam (caseJSStringP text s c back q).1 := by
  unfold caseJSStringP
  repeat' split
  all_goals first | exact h | exact ⟨hb, h.2⟩ | exact ⟨by hfam, h.2⟩

theorem caseJSONP_fam (text : Bytes) (s : CSt) (c : UInt8) (h : Fam s) : Fam (caseJSONP text s c).1 := by
  unfold caseJSONP
  repeat' split
  all_goals fam_close h

theorem ctxSwitchP_fam (U : Unicode) (text : Bytes) (s : CSt) (c : UInt8) (h : Fam s) :
    Fam (ctxSwitchP U text s c).1 := by
  unfold ctxSwitchP
  repeat' split
  · exact caseLTP_fam U text s h
  · exact h
  · exact caseTagP_fam U text s c h
  · exact caseAttrP_fam U text s c h
  · exact caseCSSP_fam text s c h
  · exact caseJSP_fam text s c h
  · exact caseJSStringP_fam text s c _ _ h (by hfam)
  · exact caseJSONP_fam text s c h
  · exact caseJSStringP_fam text s c _ _ h (by hfam)
  · exact h

/-! ## `switch l.ctx` -/

theorem ctxSwitch_ref {E : Env} {st : St} {lp : Loop} {c : UInt8} (hI : LoopInv E st lp)
    (hlt : lp.p < srcLen E st) (hc : peek E st lp.p = some c) (hf : htmlFamily st.ctx) :
    ∃ o, ctxSwitch E FHtml st lp c = .ok o ∧ CaseRef st lp (ctxSwitchP E.U E.text (proj st lp) c) o := by
  unfold ctxSwitch ctxSwitchP
  have hctx : (proj st lp).ctx = st.ctx := rfl
  have hq : (proj st lp).quote = lp.quote := rfl
  simp only [if_neg hf.not_md, hctx, hq]
  isplit
  · rename_i hh
    isplit
    · exact caseLT_ref hI hlt hh
    · exact ⟨_, rfl, rfl, id, rfl⟩
  · isplit
    · exact caseTag_ref hI hlt hc
    · isplit
      · exact caseAttr_ref hI
      · isplit
        · exact caseCSS_ref hlt
        · isplit
          · exact caseJS_ref hlt
          · isplit
            · exact caseJSString_ref _ _ hlt
            · isplit
              · exact caseJSON_ref hlt
              · isplit
                · exact caseJSString_ref _ _ hlt
                · exact ⟨_, rfl, rfl, id, rfl⟩

/-! ## the tail of an iteration -/

theorem tail_ref {E : Env} (st : St) (lp : Loop) (c : UInt8) (hf : htmlFamily st.ctx) :
    proj (tail E st lp c).1 (tail E st lp c).2 = tailP E.text (proj st lp) c ∧
    (tail E st lp c).1.toks = st.toks ∧ (tail E st lp c).2.emittedURL = lp.emittedURL ∧
    (tail E st lp c).1.lbase = st.lbase := by
  unfold tail tailP
  have hpk : E.text[(proj st lp).pos + 1]? = peek E (newline st) (lp.p + 1) := peek_abs1 E st lp
  have h1 : ¬ ((newline st).ctx = ContextTabCodeBlock ∨ (newline st).ctx = ContextSpacesCodeBlock) := by
    intro h
    rcases h with h | h
    · exact hf.not_tab h
    · exact hf.not_spaces h
  have h2 : ¬ (newline st).ctx = ContextMarkdown := hf.not_md
  simp only [hpk, peekIs, beq_iff_eq]
  split
  · dsimp only
    refine ⟨?_, ?_, ?_, ?_⟩
    rotate_left
    · first | rfl | trivial
    · first | rfl | trivial
    · first | rfl | trivial
    split
    · proj_eq
    · proj_eq
  · split
    · exact ⟨by proj_eq, rfl, rfl, rfl⟩
    · exact ⟨by proj_eq, rfl, rfl, rfl⟩

/-! ## no delimiter at the current position -/

theorem delimAt_false {text : Bytes} {i : Nat} {c : UInt8} (h : delimAt text i = false) (hc : text[i]? = some c) :
    ¬ (c = 0x7b ∧ text[i + 1]? = some 0x7b) ∧ ¬ (c = 0x7b ∧ text[i + 1]? = some 0x25) ∧
    ¬ (c = 0x7b ∧ text[i + 1]? = some 0x23) ∧ ¬ (c = 0x23 ∧ text[i + 1]? = some 0x7d) := by
  unfold delimAt at h
  rw [hc] at h
  refine ⟨?_, ?_, ?_, ?_⟩ <;> rintro ⟨rfl, hd⟩ <;> rw [hd] at h <;> simp at h

/-! ## one iteration -/

/-- One iteration of the main loop of the full model, at a position where no delimiter starts and
in a context of the HTML family, is `cstep` on the projection. -/
theorem step_refines {E : Env} {st : St} {lp : Loop} (hI : LoopInv E st lp) (hlt : lp.p < srcLen E st)
    (hf : htmlFamily st.ctx) (hft : htmlFamily st.tagCtx) (hd : delimAt E.text (st.base + lp.p) = false)
    (hlb : st.lbase = ContextHTML) (hB : Bal st) :
    ∃ st' lp', step E st lp = .ok (.cont st' lp') ∧ proj st' lp' = cstep E.U E.text (proj st lp) ∧
      LoopInv E st' lp' ∧ Ext E st st' ∧ mu E st' lp' < mu E st lp ∧ htmlFamily st'.ctx ∧ htmlFamily st'.tagCtx ∧
      (TokInv st.toks lp.emittedURL → TokInv st'.toks lp'.emittedURL) ∧ st'.lbase = ContextHTML ∧ Bal st' := by
  -- `l.base` is the file's context: the locals of the iteration are those of an HTML file
  have hF : fixedOf st = FHtml := by simp [fixedOf, FHtml, hlb]
  -- the value
  have hval : ∃ st' lp', step E st lp = .ok (.cont st' lp') ∧ proj st' lp' = cstep E.U E.text (proj st lp) ∧
      (TokInv st.toks lp.emittedURL → TokInv st'.toks lp'.emittedURL) ∧ st'.lbase = st.lbase := by
    obtain ⟨c, hc, hpk⟩ := srcAt_ok_of_lt hlt
    have hcabs : E.text[(proj st lp).pos]? = some c := hpk
    have hm := hf.not_md
    have hdel := delimAt_false hd hpk
    unfold step cstep
    simp only [hc, bind_ok, hm, false_and, if_false, hcabs]
    -- the byte after the current one
    have hdd : (if lp.p + 1 < srcLen E st then peek E st (lp.p + 1) else none) = E.text[st.base + lp.p + 1]? := by
      split
      · unfold peek; rw [Nat.add_assoc]
      · rename_i hge
        symm
        apply List.getElem?_eq_none
        have := hI.base_le
        unfold srcLen at hge; omega
    rw [hdd]
    have n1 : ¬ (c = 0x7b ∧ E.text[st.base + lp.p + 1]? = some 0x7b ∧ (!E.noParseShow) = true) :=
      fun h => hdel.1 ⟨h.1, h.2.1⟩
    simp only [if_neg n1, if_neg hdel.2.1, if_neg hdel.2.2.1, if_neg hdel.2.2.2, hF]
    obtain ⟨o, ho, href⟩ := ctxSwitch_ref hI hlt hpk hf
    simp only [ho, bind_ok]
    cases o with
    | next st' lp' =>
      obtain ⟨hr, htok, hlb'⟩ := href
      simp only [pure_eq_ok]
      refine ⟨st', lp', rfl, ?_, htok, hlb'⟩
      rw [hr]
    | fall st' lp' =>
      obtain ⟨hr, htok, hlb'⟩ := href
      have hfam : Fam (proj st' lp') := by
        have := ctxSwitchP_fam E.U E.text (proj st lp) c ⟨hf, hft⟩
        rw [hr] at this; exact this
      obtain ⟨t1, t2, t3, t4⟩ := tail_ref (E := E) st' lp' c hfam.1
      simp only [pure_eq_ok]
      refine ⟨_, _, rfl, ?_, ?_, t4.trans hlb'⟩
      · rw [hr]; exact t1
      · rw [t2, t3]; exact htok
  obtain ⟨st', lp', hs, hp, htok, hlb'⟩ := hval
  obtain ⟨o, ho, hg⟩ := step_ok (codeSpec E) hI hB hlt
  rw [hs] at ho
  cases ho
  obtain ⟨hI', hext, hmu⟩ := hg
  have hfam : Fam (proj st' lp') := by
    rw [hp]
    unfold cstep
    have hcabs : E.text[(proj st lp).pos]? ≠ none := by
      obtain ⟨c, _, hpk⟩ := srcAt_ok_of_lt hlt
      intro h
      rw [show E.text[(proj st lp).pos]? = some c from hpk] at h
      cases h
    split
    · rename_i h; exact (hcabs h).elim
    · rename_i c _
      have := ctxSwitchP_fam E.U E.text (proj st lp) c ⟨hf, hft⟩
      split
      · rename_i s' h2; rw [h2] at this; exact this
      · rename_i s' h2; rw [h2] at this
        unfold tailP
        split <;> exact this
  exact ⟨st', lp', hs, hp, hI', hext, hmu, hfam.1, hfam.2, htok, hlb'.trans hlb, hext.bal hB⟩

end ScriggoV.LexCtx
