import ScriggoV.Lemmas.CutSim
/-! C15 helper lemmas, part 3: facts about the line structure of the specification itself
(partition of the source into lines, where a LF can be, walking over a prefix), and the initial
state of the simulation. -/
namespace ScriggoV.CutSpec
open ScriggoV ScriggoV.Cut

/-- the lines are a partition of the items, in order -/
theorem splitLines_flatten (is cur : List Item) : (splitLines is cur).flatten = cur ++ is := by
  induction is generalizing cur with
  | nil => simp
  | cons i is ih =>
    cases i with
    | tok t => rw [splitLines_tok, ih]; simp
    | byte b =>
      by_cases hb : b == LF
      · have : b = LF := eq_of_beq hb
        subst this
        rw [splitLines_byte_LF, List.flatten_cons, ih]; simp
      · have hb' : (b == LF) = false := by simpa using hb
        rw [splitLines_byte_ne _ _ _ hb', ih]; simp

theorem lines_flatten (is : List Item) : (lines is).flatten = is := by
  simpa [lines] using splitLines_flatten is []

/-- no LF byte inside: `cur` is a line under construction -/
def noLFItems : List Item → Bool
  | [] => true
  | .byte b :: is => (b != LF) && noLFItems is
  | .tok _ :: is => noLFItems is

theorem noLFItems_append (a b : List Item) : noLFItems (a ++ b) = (noLFItems a && noLFItems b) := by
  induction a with
  | nil => simp [noLFItems]
  | cons i is ih => cases i <;> simp [noLFItems, ih, Bool.and_assoc]

/-- in every line a LF of the text can only be the last item: "the line's LF" -/
theorem splitLines_LF_last (is : List Item) : ∀ cur : List Item, noLFItems cur = true →
    ∀ l ∈ splitLines is cur, ∃ body, noLFItems body = true ∧ (l = body ∨ l = body ++ [.byte LF]) := by
  induction is with
  | nil => intro cur hc l hl; simp at hl; rw [hl]; exact ⟨cur, hc, Or.inl rfl⟩
  | cons i is ih =>
    intro cur hc
    cases i with
    | tok t =>
      rw [splitLines_tok]
      exact ih _ (by simp [noLFItems_append, hc, noLFItems])
    | byte b =>
      by_cases hb : b == LF
      · have : b = LF := eq_of_beq hb
        subst this
        rw [splitLines_byte_LF]
        intro l hl
        rcases List.mem_cons.mp hl with h | h
        · exact ⟨cur, hc, Or.inr h⟩
        · exact ih [] rfl l h
      · have hb' : (b == LF) = false := by simpa using hb
        have hne : b ≠ LF := fun e => by simp [e] at hb'
        rw [splitLines_byte_ne _ _ _ hb']
        exact ih _ (by simp [noLFItems_append, hc, noLFItems, hne])

theorem splitLinesE_flatten (is cur : List Item) :
    ((splitLinesE is cur).map (·.2)).flatten = cur ++ is := by
  induction is generalizing cur with
  | nil => simp
  | cons i is ih =>
    cases i with
    | tok t =>
      by_cases hb : breaksBefore t is.isEmpty = true
      · rw [splitLinesE_tok_break _ _ _ hb, List.map_cons, List.flatten_cons, ih]; simp
      · have hb' : breaksBefore t is.isEmpty = false := by simpa using hb
        rw [splitLinesE_tok_plain _ _ _ hb', ih]; simp
    | byte b =>
      by_cases hb : b == LF
      · have : b = LF := eq_of_beq hb
        subst this
        rw [splitLinesE_byte_LF, List.map_cons, List.flatten_cons, ih]; simp
      · have hb' : (b == LF) = false := by simpa using hb
        rw [splitLinesE_byte_ne _ _ _ hb', ih]; simp

theorem splitLinesE_LF_last (is : List Item) : ∀ cur : List Item, noLFItems cur = true →
    ∀ l ∈ splitLinesE is cur, ∃ body, noLFItems body = true ∧ (l.2 = body ∨ l.2 = body ++ [.byte LF]) := by
  induction is with
  | nil => intro cur hc l hl; simp at hl; rw [hl]; exact ⟨cur, hc, Or.inl rfl⟩
  | cons i is ih =>
    intro cur hc
    cases i with
    | tok t =>
      by_cases hb : breaksBefore t is.isEmpty = true
      · rw [splitLinesE_tok_break _ _ _ hb]
        intro l hl
        rcases List.mem_cons.mp hl with h | h
        · rw [h]; exact ⟨cur, hc, Or.inl rfl⟩
        · exact ih [.tok t] rfl l h
      · have hb' : breaksBefore t is.isEmpty = false := by simpa using hb
        rw [splitLinesE_tok_plain _ _ _ hb']
        exact ih _ (by simp [noLFItems_append, hc, noLFItems])
    | byte b =>
      by_cases hb : b == LF
      · have : b = LF := eq_of_beq hb
        subst this
        rw [splitLinesE_byte_LF]
        intro l hl
        rcases List.mem_cons.mp hl with h | h
        · rw [h]; exact ⟨cur, hc, Or.inr rfl⟩
        · exact ih [] rfl l h
      · have hb' : (b == LF) = false := by simpa using hb
        have hne : b ≠ LF := fun e => by simp [e] at hb'
        rw [splitLinesE_byte_ne _ _ _ hb']
        exact ih _ (by simp [noLFItems_append, hc, noLFItems, hne])

/-- walking over a prefix: the lines it completes and the line it leaves under construction -/
def splitPre : List Item → List Item → List (List Item) × List Item
  | [], cur => ([], cur)
  | .byte b :: is, cur =>
    if b == LF then ((cur ++ [.byte b]) :: (splitPre is []).1, (splitPre is []).2)
    else splitPre is (cur ++ [.byte b])
  | .tok t :: is, cur => splitPre is (cur ++ [.tok t])

theorem splitLines_append (a b cur : List Item) :
    splitLines (a ++ b) cur = (splitPre a cur).1 ++ splitLines b (splitPre a cur).2 := by
  induction a generalizing cur with
  | nil => simp [splitPre]
  | cons i is ih =>
    cases i with
    | tok t => simp only [List.cons_append, splitLines_tok, splitPre]; exact ih _
    | byte b =>
      by_cases hb : b == LF
      · have : b = LF := eq_of_beq hb
        subst this
        simp only [List.cons_append, splitLines_byte_LF, splitPre, beq_self_eq_true, if_true,
          List.cons_append, ih []]
      · have hb' : (b == LF) = false := by simpa using hb
        simp only [List.cons_append, splitLines_byte_ne _ _ _ hb', splitPre, hb']
        exact ih _

theorem items_append (a b : List Raw) : items (a ++ b) = items a ++ items b := by
  induction a with
  | nil => rfl
  | cons r rs ih => cases r <;> simp [items, ih]

/-- a kept line is the source line: its text bytes, its shows' values -/
theorem renderLine_cases (l : List Item) :
    renderLine l = keepLine l
    ∨ (renderLine l = cutLine l
        ∧ (∃ t, lineToks l = [t] ∧ t.cuttable = true)
        ∧ lineBlank l = true ∧ endsWithTok l = false) := by
  unfold renderLine
  by_cases h : removable l = true
  · right
    rw [if_pos h]
    unfold removable at h
    simp only [Bool.and_eq_true, Bool.not_eq_true'] at h
    refine ⟨rfl, ?_, h.1.2, h.2⟩
    generalize lineToks l = ts at h
    match ts, h with
    | [t], h => exact ⟨t, rfl, by simpa [oneCuttable] using h.1.1⟩
    | [], h => simp [oneCuttable] at h
    | _ :: _ :: _, h => simp [oneCuttable] at h
  · left; rw [if_neg h]

theorem renderLineE_cases (l : Bool × List Item) :
    renderLineE l = keepLine l.2
    ∨ (renderLineE l = cutLine l.2
        ∧ (∃ t, lineToks l.2 = [t] ∧ t.cuttable = true) ∧ lineBlank l.2 = true) := by
  obtain ⟨b, l⟩ := l
  cases b with
  | false =>
    rcases renderLine_cases l with h | ⟨h1, h2, h3, _⟩
    · exact Or.inl h
    · exact Or.inr ⟨h1, h2, h3⟩
  | true =>
    simp only [renderLineE]
    by_cases h : removableC l = true
    · right
      rw [if_pos h]
      unfold removableC at h
      simp only [Bool.and_eq_true] at h
      refine ⟨rfl, ?_, h.1.2⟩
      generalize lineToks l = ts at h
      match ts, h with
      | [t], h => exact ⟨t, rfl, by simpa [oneCuttable] using h.1.1⟩
      | [], h => simp [oneCuttable] at h
      | _ :: _ :: _, h => simp [oneCuttable] at h
    · left; rw [if_neg h]

/-- every text byte of a blank line is a space, a tab, a CR or a LF -/
theorem lineBlank_mem {l : List Item} (h : lineBlank l = true) (b : UInt8) (hb : Item.byte b ∈ l) :
    isBlank b = true ∨ b = LF := by
  induction l with
  | nil => cases hb
  | cons i is ih =>
    cases i with
    | tok t =>
      simp only [lineBlank] at h
      rcases List.mem_cons.mp hb with e | e
      · cases e
      · exact ih h e
    | byte c =>
      simp only [lineBlank, Bool.and_eq_true, Bool.or_eq_true] at h
      rcases List.mem_cons.mp hb with e | e
      · cases e
        rcases h.1 with h1 | h1
        · exact Or.inl h1
        · exact Or.inr (eq_of_beq h1)
      · exact ih h.2 e

theorem dropShebang_eq (src : Bytes) : dropShebang src = src.drop (shebangLen src) := by
  unfold dropShebang shebangLen
  split
  · rename_i rest
    have key : ∀ (s : Bytes), (s.dropWhile (· != LF)).drop 1
        = s.drop (match indexByte s 10 with | some t => t + 1 | none => s.length) := by
      intro s
      induction s with
      | nil => simp [indexByte]
      | cons c cs ih =>
        by_cases hc : c == LF
        · have : c = LF := eq_of_beq hc
          subst this
          simp [indexByte, LF]
        · have hc' : (c == (10 : UInt8)) = false := by simpa [LF] using hc
          have hc2 : (c != LF) = true := by simpa using hc
          simp only [List.dropWhile_cons, hc2, if_true, indexByte, hc']
          rw [ih]
          cases indexByte cs 10 <;> simp
    exact key _
  · rename_i h
    split
    · rename_i tail
      exact absurd rfl (h tail)
    · rfl

end ScriggoV.CutSpec

namespace ScriggoV.Cut
open ScriggoV.CutSpec

theorem inv_init : Inv PSt.init [] 0 [] :=
  ⟨rfl, Or.inl ⟨rfl, rfl, rfl⟩, Nat.le_refl _, rfl, rfl, rfl, (by intro n hn; cases hn),
   (by intro t ht; cases ht)⟩

/-- the token loop and the emitter together give the rule as the engine applies it, for every
well-formed token list -/
theorem renderRaws_eq_engine (raws : List Raw) (firstLine skipped : Nat) (hwf : WF raws = true)
    (hfl : 0 < firstLine) :
    renderRaws firstLine skipped raws = .ok (engineRender raws) := by
  unfold WF at hwf
  rw [Bool.and_eq_true] at hwf
  have := sim (skipped + spanSum raws) raws PSt.init firstLine skipped [] 0 [] hwf.1
    (by simpa [lastIsText, PSt.init] using hwf.2) rfl inv_init
    (fun _ => Or.inr ⟨rfl, hfl, rfl, rfl, rfl⟩) (by intro n hn; cases hn)
  unfold renderRaws
  rw [this]
  simp [engineRender, curOf, restItems, PSt.init]

theorem splitLinesE_bytes (bs : Bytes) (more : List Item)
    (h : ∀ cur, splitLinesE more cur = (splitLines more cur).map (fun l => (false, l))) :
    ∀ cur, splitLinesE (bytesI bs ++ more) cur
      = (splitLines (bytesI bs ++ more) cur).map (fun l => (false, l)) := by
  induction bs with
  | nil => simpa using h
  | cons c cs ih =>
    intro cur
    by_cases hc : c == LF
    · have : c = LF := eq_of_beq hc
      subst this
      rw [bytesI_cons, List.cons_append, splitLinesE_byte_LF, splitLines_byte_LF, ih]
      simp
    · have hc' : (c == LF) = false := by simpa using hc
      rw [bytesI_cons, List.cons_append, splitLinesE_byte_ne _ _ _ hc', splitLines_byte_ne _ _ _ hc', ih]

/-- without comments that span lines or end the file the engine's lines are the rule's lines -/
theorem splitLinesE_of_inClass (raws : List Raw) (hwf : raws.all Raw.wf = true)
    (hcl : inClass raws = true) :
    ∀ cur, splitLinesE (items raws) cur = (splitLines (items raws) cur).map (fun l => (false, l)) := by
  induction raws with
  | nil => intro cur; rfl
  | cons r rs ih =>
    simp only [List.all_cons, Bool.and_eq_true] at hwf
    cases r with
    | text bs =>
      have := splitLinesE_bytes bs (items rs) (ih hwf.2 (inClass_tail_text bs rs hcl))
      simpa [items, bytesI] using this
    | nt x =>
      obtain ⟨hcl', hcn, hcf⟩ := inClass_nt x rs hcl
      intro cur
      have hb : breaksBefore x (items rs).isEmpty = false := by
        rw [items_isEmpty rs hwf.2]
        unfold breaksBefore
        by_cases hc : x.comment = true
        · have hne : rs ≠ [] := fun e => by rw [hcf e] at hc; cases hc
          have : rs.isEmpty = false := by cases rs <;> simp at hne ⊢
          simp [hc, hcn hc, this]
        · simp [hc]
      simp only [items]
      rw [splitLinesE_tok_plain _ _ _ hb, splitLines_tok, ih hwf.2 hcl']

theorem engineRender_eq_spec (raws : List Raw) (hwf : WF raws = true) (hcl : inClass raws = true) :
    engineRender raws = specRender raws := by
  unfold WF at hwf
  rw [Bool.and_eq_true] at hwf
  unfold engineRender specRender lines
  rw [splitLinesE_of_inClass raws hwf.1 hcl []]
  simp [List.flatMap_map, renderLineE]

/-- the token loop and the emitter together give what the line rule gives -/
theorem renderRaws_eq_spec (raws : List Raw) (firstLine skipped : Nat) (hwf : WF raws = true)
    (hcl : inClass raws = true) (hfl : 0 < firstLine) :
    renderRaws firstLine skipped raws = .ok (specRender raws) := by
  rw [renderRaws_eq_engine raws _ _ hwf hfl, engineRender_eq_spec raws hwf hcl]

end ScriggoV.Cut
