import ScriggoV.Lemmas.SlotsHtml
import ScriggoV.Lemmas.EscapeCss
/-! C06, CSS part: the output of `cssStringEscape` stays inside a CSS string (either quote) and
contains none of the bytes that matter to the HTML tokenizer around a `style` attribute or
element.

The subtle case is a hexadecimal escape written *without* the separating space: the CSS
tokenizer is then still inside the escape (`.hex n`), and the next byte must end it without
being swallowed. `cssSlotFact` (all 256 bytes) says that a byte for which `prefixWithSpace` is
false is neither a hex digit nor white space for the scanner of `Spec/Slots`. -/
namespace ScriggoV.Slots
open ScriggoV ScriggoV.Slots ScriggoV.Escape ScriggoV.Gen.EscapeTables

theorem cssStringEscapeOut_eq (s : Bytes) : cssStringEscapeOut s = simple cssBody s := by
  simp [cssStringEscapeOut, cssStringEscapeChunks, escLoop_flatten]

/-! ### no markup-significant byte -/

def pCss (c : UInt8) : Bool :=
  c != 0x3C && c != 0x3E && c != 0x26 && c != 0x2F && c != 0x22 && c != 0x27 && c != 10 &&
  c != 13 && c != 12

def cssMarkupFact (c : UInt8) : Bool :=
  match cssEscOf c with
  | [] => pCss c
  | e :: es => (e :: es).all pCss

theorem cssMarkupFact_all : ∀ c, cssMarkupFact c = true := allBytes_spec (by decide +kernel)

theorem piece_css_all (c : UInt8) (rest : Bytes) : (piece cssBody c rest).all pCss = true := by
  have hf := cssMarkupFact_all c
  unfold cssMarkupFact at hf
  cases he : cssEscOf c with
  | nil =>
    rw [he] at hf
    rw [piece_css_nil c rest he]
    simpa using hf
  | cons e es =>
    rw [he] at hf
    replace hf : (e :: es).all pCss = true := hf
    rw [piece_css_cons c rest e es he, List.all_append, hf, Bool.true_and]
    split
    · decide
    · rfl

theorem css_out_all (s : Bytes) : (cssStringEscapeOut s).all pCss = true := by
  rw [cssStringEscapeOut_eq]
  exact simple_all cssBody pCss piece_css_all s

/-- the output contains no `<` `>` `&` `/`, no quote and no CSS newline -/
theorem cssString_no_markup (s : Bytes) : ∀ c ∈ cssStringEscapeOut s,
    c ≠ 0x3C ∧ c ≠ 0x3E ∧ c ≠ 0x26 ∧ c ≠ 0x2F ∧ c ≠ 0x22 ∧ c ≠ 0x27 ∧ c ≠ 10 ∧ c ≠ 13 ∧ c ≠ 12 := by
  intro c hc
  have h := List.all_eq_true.mp (css_out_all s) c hc
  simpa [pCss, and_assoc] using h

theorem cssString_raw (s : Bytes) : rawTextConfined (cssStringEscapeOut s) = true := by
  apply rawText_of_all
  refine all_mono pCss _ ?_ _ (css_out_all s)
  intro c hc
  simp only [pCss, Bool.and_eq_true] at hc
  exact hc.1.1.1.1.1.1.1.1

/-! ### the string scanner -/

def isHexSt : CssSt → Bool
  | .hex _ => true
  | _ => false

theorem isHexSt_iff (st : CssSt) (h : isHexSt st = true) : ∃ n, st = .hex n := by
  cases st with
  | hex n => exact ⟨n, rfl⟩
  | _ => simp [isHexSt] at h

/-- per byte: (1) a byte that gets no separating space in front of it ends a hex escape without
being swallowed by it; (2) a byte written unchanged leaves the scanner in the string; an entry is
`\\` for the backslash, and otherwise a backslash followed by hex digits only (the scanner is
inside the hex escape after it) -/
def cssSlotFact (c : UInt8) : Bool :=
  (prefixWithSpace c || (!isHex c && !cssWs c)) &&
  (match cssEscOf c with
   | [] => cssPlain 0x22 c == .str && cssPlain 0x27 c == .str
   | e :: es => e == 0x5C &&
      (if c == 0x5C then es == [0x5C]
       else isHexSt (List.foldl (cssStep 0x22) .str (e :: es)) &&
            isHexSt (List.foldl (cssStep 0x27) .str (e :: es))))

theorem cssSlotFact_all : ∀ c, cssSlotFact c = true := allBytes_spec (by decide +kernel)

theorem css_head (c : UInt8) (h : prefixWithSpace c = false) : isHex c = false ∧ cssWs c = false := by
  have hf := cssSlotFact_all c
  simp only [cssSlotFact, h, Bool.false_or, Bool.and_eq_true, Bool.not_eq_true'] at hf
  exact hf.1

theorem css_raw (q : UInt8) (hq : q = 0x22 ∨ q = 0x27) (c : UInt8) (he : cssEscOf c = []) :
    cssPlain q c = .str := by
  have hf := cssSlotFact_all c
  unfold cssSlotFact at hf
  rw [he] at hf
  simp only [Bool.and_eq_true, beq_iff_eq] at hf
  rcases hq with rfl | rfl
  · exact hf.2.1
  · exact hf.2.2

theorem css_entry (q : UInt8) (hq : q = 0x22 ∨ q = 0x27) (c e : UInt8) (es : Bytes)
    (he : cssEscOf c = e :: es) :
    e = 0x5C ∧ ((c = 0x5C ∧ es = [0x5C]) ∨
      (c ≠ 0x5C ∧ ∃ n, List.foldl (cssStep q) .str (e :: es) = .hex n)) := by
  have hf := cssSlotFact_all c
  unfold cssSlotFact at hf
  rw [he] at hf
  simp only [Bool.and_eq_true, beq_iff_eq] at hf
  obtain ⟨_, he', hrest⟩ := hf
  refine ⟨he', ?_⟩
  by_cases hc : c = 0x5C
  · left
    simp only [hc, if_true, beq_iff_eq] at hrest
    exact ⟨hc, hrest⟩
  · right
    rw [if_neg hc, Bool.and_eq_true] at hrest
    refine ⟨hc, ?_⟩
    rcases hq with rfl | rfl
    · exact isHexSt_iff _ hrest.1
    · exact isHexSt_iff _ hrest.2

/-- a byte that is neither a hex digit nor white space ends a hex escape and is read again as
in the string state -/
theorem cssStep_hex_end (q : UInt8) (n : Nat) (x : UInt8) (h1 : isHex x = false)
    (h2 : cssWs x = false) : cssStep q (.hex n) x = cssStep q .str x := by
  simp [cssStep, h1, h2]

theorem cssStep_hex_space (q : UInt8) (n : Nat) : cssStep q (.hex n) 0x20 = .str := by
  have h1 : isHex 0x20 = false := by decide
  have h2 : cssWs 0x20 = true := by decide
  simp [cssStep, h1, h2]

/-- what the invariant says about the input still to be escaped: inside a hex escape only when
the next input byte gets no separating space in front of it -/
def cssInv : CssSt → Bytes → Bool
  | .str, _ => true
  | .hex _, d :: _ => !prefixWithSpace d
  | _, _ => false

theorem css_needs_false (c : UInt8) (rest : Bytes) (n : Nat) (hc : c ≠ 0x5C)
    (h : cssNeedsSpace c rest = false) : cssInv (.hex n) rest = true := by
  have hc' : (c != 0x5C) = true := by simpa using hc
  cases rest with
  | nil => simp [cssNeedsSpace, hc'] at h
  | cons d r =>
    simp only [cssNeedsSpace, hc', Bool.true_and] at h
    simp [cssInv, h]

/-- the head of a piece: the byte itself or a backslash -/
theorem piece_css_head (c : UInt8) (rest : Bytes) :
    ∃ x tl, piece cssBody c rest = x :: tl ∧ (x = c ∨ x = 0x5C) := by
  cases he : cssEscOf c with
  | nil => exact ⟨c, [], piece_css_nil c rest he, Or.inl rfl⟩
  | cons e es =>
    have h5 := (css_entry 0x22 (Or.inl rfl) c e es he).1
    exact ⟨e, es ++ (if cssNeedsSpace c rest then [0x20] else []), by
      rw [piece_css_cons c rest e es he]; rfl, Or.inr h5⟩

theorem css_scan (q : UInt8) (hq : q = 0x22 ∨ q = 0x27) (s : Bytes) :
    ∀ st, cssInv st s = true → List.foldl (cssStep q) st (simple cssBody s) = .str := by
  induction s with
  | nil =>
    intro st h
    cases st <;> simp [cssInv] at h
    rfl
  | cons c rest ih =>
    intro st h
    simp only [simple, List.foldl_append]
    -- step 1: a pending hex escape is ended by the first byte of the piece
    have h1 : List.foldl (cssStep q) st (piece cssBody c rest)
        = List.foldl (cssStep q) .str (piece cssBody c rest) := by
      cases st with
      | str => rfl
      | hex n =>
        have hp : prefixWithSpace c = false := by simpa [cssInv] using h
        obtain ⟨x, tl, hpc, hx⟩ := piece_css_head c rest
        rw [hpc]
        simp only [List.foldl_cons]
        rcases hx with rfl | rfl
        · obtain ⟨a, b⟩ := css_head x hp
          rw [cssStep_hex_end q n x a b]
        · rw [cssStep_hex_end q n 0x5C (by decide) (by decide)]
      | esc => simp [cssInv] at h
      | left => simp [cssInv] at h
    rw [h1]
    -- step 2: the piece, scanned from the string state
    cases he : cssEscOf c with
    | nil =>
      rw [piece_css_nil c rest he]
      have := css_raw q hq c he
      simp only [List.foldl_cons, List.foldl_nil, cssStep, this]
      exact ih .str rfl
    | cons e es =>
      rw [piece_css_cons c rest e es he]
      obtain ⟨he', hcase⟩ := css_entry q hq c e es he
      rcases hcase with ⟨hc, hes⟩ | ⟨hc, n, hn⟩
      · subst hc hes he'
        have hq' : (0x5C : UInt8) ≠ q := by rcases hq with rfl | rfl <;> decide
        have hq'' : ((0x5C : UInt8) == q) = false := by simpa using hq'
        have hx : isHex 0x5C = false := by decide
        simp [cssNeedsSpace, cssStep, cssPlain, hq'', hx]
        exact ih .str rfl
      · by_cases hs : cssNeedsSpace c rest = true
        · simp only [hs, if_true, List.foldl_append, hn, List.foldl_cons, List.foldl_nil,
            cssStep_hex_space]
          exact ih .str rfl
        · have hs' : cssNeedsSpace c rest = false := by simpa using hs
          simp only [hs', Bool.false_eq_true, if_false, List.append_nil, hn]
          exact ih (.hex n) (css_needs_false c rest n hc hs')

/-- **`content: "{{ v }}"` / `'{{ v }}'`**: scanned as the content of a CSS string opened by
either quote, the output of `cssStringEscape` neither closes the string nor leaves an escape
open at its end -/
theorem cssString_confined (q : UInt8) (hq : q = 0x22 ∨ q = 0x27) (s : Bytes) :
    cssStrConfined q (cssStringEscapeOut s) = true := by
  unfold cssStrConfined cssScan
  rw [cssStringEscapeOut_eq, css_scan q hq s .str rfl]
  rfl

end ScriggoV.Slots
