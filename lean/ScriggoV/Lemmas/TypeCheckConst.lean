import ScriggoV.Lemmas.TypeCheck
/-! Lemmas for C03: the result of an operator is a constant exactly when its operands are. -/
namespace ScriggoV.TypeCheck

theorem checkOverflow_isSome {ty : Ty} {c : CVal} {z : Operand} (h : checkOverflow ty c = .ok z) :
    z.val.isSome = true := by
  cases ty with
  | typed t => obtain ⟨v, _, rfl⟩ := (checkOverflow_typed t c z).1 h; rfl
  | untyped u => obtain ⟨_, rfl⟩ := (checkOverflow_untyped_iff u c z).1 h; rfl
  | nil =>
    simp only [checkOverflow] at h
    split at h
    · cases h
    · injection h with h; subst h; rfl

theorem checkUnary_const {op : UnOp} {x z : Operand} (h : checkUnary op x = .ok z) :
    z.val.isSome = x.val.isSome := by
  unfold checkUnary at h
  simp only [ite_error_left] at h
  obtain ⟨_, _, h⟩ := h
  cases hx : x.val with
  | none => simp only [hx] at h; injection h with h; subst h; rfl
  | some c =>
    simp only [hx] at h
    cases hu : unaryConst op x.ty c with
    | none => simp only [hu] at h; cases h
    | some v => simp only [hu] at h; exact checkOverflow_isSome h

theorem convertTo_const {x x' : Operand} {t : Ty} {s : Bool} (h : convertTo x t s = .ok x') :
    x'.val.isSome = x.val.isSome := by
  obtain ⟨ty, val⟩ := x
  cases ty with
  | typed a => cases t <;> (simp only [convertTo] at h; injection h with h; subst h; rfl)
  | nil => cases t <;> (simp only [convertTo] at h; injection h with h; subst h; rfl)
  | untyped u =>
    cases t with
    | nil => simp only [convertTo] at h; injection h with h; subst h; rfl
    | untyped u' =>
      simp only [convertTo] at h
      split at h
      · injection h with h; subst h; rfl
      · split at h
        · cases val with
          | none => simp only at h; injection h with h; subst h; rfl
          | some c =>
            cases c <;> cases hm : u.max u' <;> simp only [hm] at h <;> (injection h with h; subst h; rfl)
        · cases h
    | typed a =>
      simp only [convertTo] at h
      cases val with
      | none =>
        simp only at h
        split at h
        · injection h with h; subst h; rfl
        · cases h
      | some c =>
        simp only at h
        obtain ⟨v, _, hv⟩ := (bind_ok_iff _ _ _).1 h
        simp at hv; subst hv; rfl

theorem matchTypes_const {x y x' y' : Operand} (h : matchTypes x y = .ok (x', y')) :
    x'.val.isSome = x.val.isSome ∧ y'.val.isSome = y.val.isSome := by
  unfold matchTypes at h
  split at h
  · cases h
  · split at h
    · injection h with h; injection h with h1 h2; subst h1; subst h2; exact ⟨rfl, rfl⟩
    · split at h
      · injection h with h; injection h with h1 h2; subst h1; subst h2; exact ⟨rfl, rfl⟩
      · split at h
        · injection h with h; injection h with h1 h2; subst h1; subst h2; exact ⟨rfl, rfl⟩
        · obtain ⟨a, ha, h⟩ := (bind_ok_iff _ _ _).1 h
          obtain ⟨b, hb, h⟩ := (bind_ok_iff _ _ _).1 h
          simp at h
          obtain ⟨rfl, rfl⟩ := h
          exact ⟨convertTo_const ha, convertTo_const hb⟩

theorem checkComparison_const {op : BinOp} {x y z : Operand} (h : checkComparison op x y = .ok z) :
    z.val.isSome = (x.val.isSome && y.val.isSome) := by
  unfold checkComparison at h
  split at h
  · cases h
  · split at h
    · cases h
    · cases hx : x.val <;> cases hy : y.val <;> simp only [hx, hy] at h
      · injection h with h; subst h; rfl
      · injection h with h; subst h; rfl
      · injection h with h; subst h; rfl
      · split at h
        · injection h with h; subst h; rfl
        · cases h

theorem checkArith_const {op : BinOp} {x y z : Operand} (h : checkArith op x y = .ok z) :
    z.val.isSome = (x.val.isSome && y.val.isSome) := by
  unfold checkArith at h
  split at h
  · cases h
  · split at h
    · cases h
    · split at h
      · cases h
      · cases hx : x.val <;> cases hy : y.val <;> simp only [hx, hy] at h
        · injection h with h; subst h; rfl
        · injection h with h; subst h; rfl
        · injection h with h; subst h; rfl
        · split at h
          · exact checkOverflow_isSome h
          · cases h

theorem shiftCountOf_const {y : Operand} {cnt : Option Int} (h : shiftCountOf y = .ok cnt) :
    cnt.isSome = y.val.isSome := by
  unfold shiftCountOf at h
  cases hy : y.val with
  | none =>
    simp only [hy] at h
    split at h
    · injection h with h; subst h; rfl
    · cases h
  | some c =>
    simp only [hy] at h
    split at h
    · split at h
      · cases h
      · split at h
        · split at h
          · injection h with h; subst h; rfl
          · cases h
        · split at h
          · injection h with h; subst h; rfl
          · cases h
    · split at h
      · cases h
      · split at h <;> cases h

theorem shiftResult_const {left : Bool} {x z : Operand} {xi cnt : Option Int}
    (h : shiftResult left x xi cnt = .ok z) : z.val.isSome = (x.val.isSome && cnt.isSome) := by
  unfold shiftResult at h
  cases hx : x.val <;> cases cnt <;> simp only [hx] at h
  · injection h with h; subst h; simp
  · injection h with h; subst h; simp
  · split at h
    · injection h with h; subst h; simp
    · cases h
  · split at h
    · cases h
    · split at h
      · simp [checkOverflow_isSome h]
      · cases h

theorem checkShift_const {op : BinOp} {x y z : Operand} (h : checkShift op x y = .ok z) :
    z.val.isSome = (x.val.isSome && y.val.isSome) := by
  simp only [checkShift] at h
  split at h
  · cases h
  · split at h
    · cases h
    · obtain ⟨cnt, hc, hr⟩ := (bind_ok_iff _ _ _).1 h
      rw [shiftResult_const hr, shiftCountOf_const hc]

theorem checkBinary_const {op : BinOp} {x y z : Operand} (h : checkBinary op x y = .ok z) :
    z.val.isSome = (x.val.isSome && y.val.isSome) := by
  unfold checkBinary at h
  cases hcls : op.cls <;> simp only [hcls] at h
  · obtain ⟨⟨x', y'⟩, hm, hc⟩ := (bind_ok_iff _ _ _).1 h
    have ⟨h1, h2⟩ := matchTypes_const hm
    rw [checkArith_const hc, h1, h2]
  · exact checkShift_const h
  · obtain ⟨⟨x', y'⟩, hm, hc⟩ := (bind_ok_iff _ _ _).1 h
    have ⟨h1, h2⟩ := matchTypes_const hm
    rw [checkComparison_const hc, h1, h2]
  · obtain ⟨⟨x', y'⟩, hm, hc⟩ := (bind_ok_iff _ _ _).1 h
    have ⟨h1, h2⟩ := matchTypes_const hm
    rw [checkArith_const hc, h1, h2]

theorem checkConv_const {t : BType} {x z : Operand} (h : checkConv t x = .ok z) :
    z.val.isSome = x.val.isSome := by
  obtain ⟨ty, val⟩ := x
  cases val with
  | some c =>
    cases ty <;> simp only [checkConv] at h
    · obtain ⟨v, _, hv⟩ := (bind_ok_iff _ _ _).1 h
      simp at hv; subst hv; rfl
    · obtain ⟨v, _, hv⟩ := (bind_ok_iff _ _ _).1 h
      simp at hv; subst hv; rfl
    · cases h
  | none =>
    cases ty <;> simp only [checkConv] at h
    · split at h
      · injection h with h; subst h; rfl
      · cases h
    · split at h
      · injection h with h; subst h; rfl
      · cases h
    · cases h

end ScriggoV.TypeCheck
