import ScriggoV.Model.VMInt
import ScriggoV.Model.Eval
/-! Helper lemmas for C01 (stage one): the register representation (`canon`, `Canon`, `val`), the
width-generic reference forms of the opcode bodies and their refinement of `Spec/GoInt`.
Everything goes through `BitVec.toInt_*` / `toNat_*`; generic in the width `b ≤ 64`. -/
set_option linter.unusedSimpArgs false
namespace ScriggoV
open GoInt VM Gen.VMInt

/-! ## arithmetic modulo powers of two -/

theorem two_pow_dvd {b : Nat} (hb : b ≤ 64) : (2:Nat)^b ∣ 2^64 := Nat.pow_dvd_pow 2 hb

theorem two_pow_pos' (b : Nat) : (0:Int) < ((2^b : Nat) : Int) :=
  Int.natCast_pos.mpr (Nat.two_pow_pos b)

/-- `wrap k` only depends on the residue modulo `2^bits` -/
theorem wrap_congr {k : Kind} {x y : Int} (h : x % (modulus k : Nat) = y % (modulus k : Nat)) :
    wrap k x = wrap k y := by
  unfold wrap
  split
  · rw [Int.bmod_def, Int.bmod_def, h]
  · exact h

theorem emod_of_emod64 {b : Nat} (hb : b ≤ 64) {x y : Int}
    (h : x % ((2^64 : Nat) : Int) = y % ((2^64 : Nat) : Int)) :
    x % ((2^b : Nat) : Int) = y % ((2^b : Nat) : Int) := by
  have hd : ((2^b : Nat) : Int) ∣ ((2^64 : Nat) : Int) := Int.natCast_dvd_natCast.mpr (two_pow_dvd hb)
  rw [← Int.emod_emod_of_dvd x hd, ← Int.emod_emod_of_dvd y hd, h]

theorem wrap_congr64 {k : Kind} {x y : Int}
    (h : x % ((2^64 : Nat) : Int) = y % ((2^64 : Nat) : Int)) : wrap k x = wrap k y :=
  wrap_congr (emod_of_emod64 k.bits_le h)

theorem toInt_emod64 (a : BitVec 64) :
    a.toInt % ((2^64 : Nat) : Int) = (a.toNat : Int) % ((2^64 : Nat) : Int) := by
  rw [BitVec.toInt_eq_toNat_bmod, Int.bmod_emod]

theorem val_emod64 (k : Kind) (a : BitVec 64) :
    val k a % ((2^64 : Nat) : Int) = a.toInt % ((2^64 : Nat) : Int) := by
  unfold val
  split
  · rfl
  · exact (toInt_emod64 a).symm

/-- `wrap` is the identity on the values of the kind -/
theorem wrap_of_inRange {k : Kind} {z : Int} (h : InRange k z) : wrap k z = z := by
  unfold InRange minOf maxOf at h
  unfold wrap modulus
  have hb := k.bits_pos
  have hp : 2 ^ k.bits = 2 * 2 ^ (k.bits - 1) := by
    rw [← Nat.pow_succ']; congr 1; omega
  split
  · rename_i hs
    simp only [hs, if_true] at h
    apply Int.bmod_eq_of_le
    · rw [hp]; omega
    · rw [hp]; omega
  · rename_i hs
    simp only [hs] at h
    apply Int.emod_eq_of_lt h.1
    omega

theorem inRange_wrap (k : Kind) (z : Int) : InRange k (wrap k z) := by
  unfold InRange minOf maxOf wrap modulus
  have hb := k.bits_pos
  have hp : 2 ^ k.bits = 2 * 2 ^ (k.bits - 1) := by
    rw [← Nat.pow_succ']; congr 1; omega
  have hpos := Nat.two_pow_pos k.bits
  split
  · have h1 := @Int.le_bmod z (2 ^ k.bits) hpos
    have h2 := @Int.bmod_lt z (2 ^ k.bits) hpos
    generalize z.bmod (2 ^ k.bits) = r at h1 h2 ⊢
    rw [hp] at h1 h2
    constructor <;> omega
  · have h1 := Int.emod_nonneg z (b := ((2 ^ k.bits : Nat) : Int)) (by omega)
    have h2 := Int.emod_lt_of_pos z (b := ((2 ^ k.bits : Nat) : Int)) (by omega)
    constructor <;> omega

/-! ## sign and zero extension of the low `b` bits -/

/-- sign extension of the low `b` bits -/
def sx (b : Nat) (v : BitVec 64) : BitVec 64 := (v.setWidth b).signExtend 64
/-- zero extension of the low `b` bits -/
def zx (b : Nat) (v : BitVec 64) : BitVec 64 := (v.setWidth b).setWidth 64

theorem toInt_sx {b : Nat} (hb : b ≤ 64) (v : BitVec 64) :
    (sx b v).toInt = Int.bmod v.toNat (2^b) := by
  unfold sx
  rw [BitVec.toInt_signExtend_of_le hb, BitVec.toInt_setWidth]

theorem toNat_zx {b : Nat} (hb : b ≤ 64) (v : BitVec 64) : (zx b v).toNat = v.toNat % 2^b := by
  unfold zx
  rw [BitVec.toNat_setWidth_of_le hb, BitVec.toNat_setWidth]

/-- a `b`-bit vector sign-extended to 64 bits and cut back is itself -/
theorem setWidth_signExtend {b : Nat} (hb : b ≤ 64) (u : BitVec b) :
    (u.signExtend 64).setWidth b = u := by
  apply BitVec.eq_of_toInt_eq
  rw [BitVec.toInt_setWidth]
  have : ((u.signExtend 64).toNat : Int).bmod (2^b) = ((u.signExtend 64).toInt).bmod (2^b) := by
    rw [BitVec.toInt_eq_toNat_bmod (u.signExtend 64), Int.bmod_bmod_of_dvd (two_pow_dvd hb)]
  rw [this, BitVec.toInt_signExtend_of_le hb, BitVec.toInt_bmod_cancel]

theorem setWidth_setWidth64 {b : Nat} (hb : b ≤ 64) (u : BitVec b) :
    (u.setWidth 64).setWidth b = u := by
  apply BitVec.eq_of_toNat_eq
  rw [BitVec.toNat_setWidth, BitVec.toNat_setWidth_of_le hb]
  exact Nat.mod_eq_of_lt u.isLt

theorem sx_signExtend {b : Nat} (hb : b ≤ 64) (u : BitVec b) :
    sx b (u.signExtend 64) = u.signExtend 64 := by
  unfold sx; rw [setWidth_signExtend hb]

theorem zx_setWidth {b : Nat} (hb : b ≤ 64) (u : BitVec b) :
    zx b (u.setWidth 64) = u.setWidth 64 := by
  unfold zx; rw [setWidth_setWidth64 hb]

theorem sx_idem {b : Nat} (hb : b ≤ 64) (v : BitVec 64) : sx b (sx b v) = sx b v :=
  sx_signExtend hb _
theorem zx_idem {b : Nat} (hb : b ≤ 64) (v : BitVec 64) : zx b (zx b v) = zx b v :=
  zx_setWidth hb _

theorem canon_eq (k : Kind) (v : BitVec 64) :
    canon k v = if k.signed then sx k.bits v else zx k.bits v := rfl

theorem canon_idem (k : Kind) (v : BitVec 64) : Canon k (canon k v) := by
  unfold Canon
  rw [canon_eq, canon_eq]
  split
  · exact sx_idem k.bits_le v
  · exact zx_idem k.bits_le v

theorem canon_signed {k : Kind} (hs : k.signed = true) (v : BitVec 64) : canon k v = sx k.bits v := by
  rw [canon_eq, if_pos hs]
theorem canon_unsigned {k : Kind} (hs : k.signed = false) (v : BitVec 64) : canon k v = zx k.bits v := by
  rw [canon_eq, hs]; rfl

/-- the value of a canonicalised register is the wrapped value of the raw 64-bit result -/
theorem val_canon (k : Kind) (v : BitVec 64) : val k (canon k v) = wrap k v.toInt := by
  unfold val wrap modulus
  rw [canon_eq]
  split
  · rw [toInt_sx k.bits_le, BitVec.toInt_eq_toNat_bmod v, Int.bmod_bmod_of_dvd (two_pow_dvd k.bits_le)]
  · rw [toNat_zx k.bits_le, Int.natCast_emod]
    exact (emod_of_emod64 k.bits_le (toInt_emod64 v)).symm

theorem val_of_canon {k : Kind} {a : BitVec 64} (ha : Canon k a) : val k a = wrap k a.toInt := by
  have := val_canon k a
  rwa [ha] at this

theorem inRange_val {k : Kind} {a : BitVec 64} (ha : Canon k a) : InRange k (val k a) := by
  rw [val_of_canon ha]; exact inRange_wrap k _

/-! ## what "the VM agrees with Go" means for one operation -/

/-- same outcome: both succeed with a canonical register holding the specified value, or both
raise the same run-time fault -/
def Refines (k : Kind) (vm : Except Fault (BitVec 64)) (spec : Except Fault Int) : Prop :=
  match vm, spec with
  | .ok r, .ok z => Canon k r ∧ val k r = z
  | .error f, .error g => f = g
  | _, _ => False

theorem refines_ok {k : Kind} {r : BitVec 64} {z : Int} (h1 : Canon k r) (h2 : val k r = z) :
    Refines k (.ok r) (.ok z) := ⟨h1, h2⟩

/-- a raw 64-bit result congruent to the exact result modulo `2^64`, canonicalised, is the wrapped
exact result -/
theorem refines_canon {k : Kind} {r : BitVec 64} {z : Int}
    (h : r.toInt % ((2^64 : Nat) : Int) = z % ((2^64 : Nat) : Int)) :
    Refines k (.ok (canon k r)) (.ok (wrap k z)) :=
  refines_ok (canon_idem k r) (by rw [val_canon]; exact wrap_congr64 h)

/-! ## width-generic reference forms of the opcode bodies, and their refinement of the spec -/

def refDiv (s : Bool) (b : Nat) (x y : BitVec 64) : Except Fault (BitVec 64) :=
  if s then
    (if y.setWidth b = 0#b then .error .divZero
     else .ok ((BitVec.sdiv (x.setWidth b) (y.setWidth b)).signExtend 64))
  else
    (if y.setWidth b = 0#b then .error .divZero
     else .ok ((BitVec.udiv (x.setWidth b) (y.setWidth b)).setWidth 64))

def refRem (s : Bool) (b : Nat) (x y : BitVec 64) : Except Fault (BitVec 64) :=
  if s then
    (if y.setWidth b = 0#b then .error .divZero
     else .ok ((BitVec.srem (x.setWidth b) (y.setWidth b)).signExtend 64))
  else
    (if y.setWidth b = 0#b then .error .divZero
     else .ok ((BitVec.umod (x.setWidth b) (y.setWidth b)).setWidth 64))

abbrev M64 : Int := ((2^64 : Nat) : Int)

theorem add_congr {m a a' c c' : Int} (h1 : a % m = a' % m) (h2 : c % m = c' % m) :
    (a + c) % m = (a' + c') % m := by rw [Int.add_emod, h1, h2, ← Int.add_emod]
theorem sub_congr {m a a' c c' : Int} (h1 : a % m = a' % m) (h2 : c % m = c' % m) :
    (a - c) % m = (a' - c') % m := by rw [Int.sub_emod, h1, h2, ← Int.sub_emod]
theorem mul_congr {m a a' c c' : Int} (h1 : a % m = a' % m) (h2 : c % m = c' % m) :
    (a * c) % m = (a' * c') % m := by rw [Int.mul_emod, h1, h2, ← Int.mul_emod]

theorem add_refines (k : Kind) (x y : BitVec 64) :
    Refines k (.ok (canon k (x + y))) (binop .add k (val k x) (val k y)) :=
  refines_canon (by
    rw [BitVec.toInt_add, Int.bmod_emod]
    exact add_congr (val_emod64 k x).symm (val_emod64 k y).symm)

theorem sub_refines (k : Kind) (x y : BitVec 64) :
    Refines k (.ok (canon k (x - y))) (binop .sub k (val k x) (val k y)) :=
  refines_canon (by
    rw [BitVec.toInt_sub, Int.bmod_emod]
    exact sub_congr (val_emod64 k x).symm (val_emod64 k y).symm)

theorem mul_refines (k : Kind) (x y : BitVec 64) :
    Refines k (.ok (canon k (x * y))) (binop .mul k (val k x) (val k y)) :=
  refines_canon (by
    rw [BitVec.toInt_mul, Int.bmod_emod]
    exact mul_congr (val_emod64 k x).symm (val_emod64 k y).symm)

/-- signed canonical register: the low `b` bits, read as signed, are the value -/
theorem toInt_low_of_canon {k : Kind} (hs : k.signed = true) {a : BitVec 64} (ha : Canon k a) :
    (a.setWidth k.bits).toInt = val k a := by
  unfold Canon at ha
  rw [canon_signed hs] at ha
  have : (sx k.bits a).toInt = (a.setWidth k.bits).toInt := by
    unfold sx; rw [BitVec.toInt_signExtend_of_le k.bits_le]
  unfold val
  rw [if_pos hs, ← this, ha]

/-- unsigned canonical register: the low `b` bits, read as unsigned, are the value -/
theorem toNat_low_of_canon {k : Kind} (hs : k.signed = false) {a : BitVec 64} (ha : Canon k a) :
    ((a.setWidth k.bits).toNat : Int) = val k a := by
  unfold Canon at ha
  rw [canon_unsigned hs] at ha
  have : (zx k.bits a).toNat = (a.setWidth k.bits).toNat := by
    unfold zx; rw [BitVec.toNat_setWidth_of_le k.bits_le]
  unfold val
  rw [hs, ← this, ha]; rfl

theorem canon_signExtend {k : Kind} (hs : k.signed = true) (u : BitVec k.bits) :
    Canon k (u.signExtend 64) := by
  unfold Canon; rw [canon_signed hs]; exact sx_signExtend k.bits_le u

theorem canon_zeroExtend {k : Kind} (hs : k.signed = false) (u : BitVec k.bits) :
    Canon k (u.setWidth 64) := by
  unfold Canon; rw [canon_unsigned hs]; exact zx_setWidth k.bits_le u

theorem val_signExtend {k : Kind} (hs : k.signed = true) (u : BitVec k.bits) :
    val k (u.signExtend 64) = u.toInt := by
  unfold val; rw [if_pos hs, BitVec.toInt_signExtend_of_le k.bits_le]

theorem val_zeroExtend {k : Kind} (hs : k.signed = false) (u : BitVec k.bits) :
    val k (u.setWidth 64) = (u.toNat : Int) := by
  unfold val; rw [hs, BitVec.toNat_setWidth_of_le k.bits_le]; rfl

theorem eq_zero_iff_toInt {b : Nat} (u : BitVec b) : u = 0#b ↔ u.toInt = 0 := by
  rw [← BitVec.toInt_zero (w := b), BitVec.toInt_inj]

theorem eq_zero_iff_toNat {b : Nat} (u : BitVec b) : u = 0#b ↔ u.toNat = 0 := by
  constructor
  · intro h; rw [h]; rfl
  · intro h; apply BitVec.eq_of_toNat_eq; rw [h]; rfl

theorem wrap_toInt {k : Kind} (hs : k.signed = true) (u : BitVec k.bits) : wrap k u.toInt = u.toInt := by
  unfold wrap modulus; rw [if_pos hs, BitVec.toInt_bmod_cancel]

theorem wrap_toNat {k : Kind} (hs : k.signed = false) (u : BitVec k.bits) : wrap k (u.toNat : Int) = u.toNat := by
  unfold wrap modulus; rw [hs]
  simp only [Bool.false_eq_true, if_false]
  exact Int.emod_eq_of_lt (by omega) (by exact_mod_cast u.isLt)

theorem div_refines (k : Kind) (x y : BitVec 64) (hx : Canon k x) (hy : Canon k y) :
    Refines k (refDiv k.signed k.bits x y) (binop .div k (val k x) (val k y)) := by
  unfold refDiv binop
  cases hs : k.signed
  · -- unsigned
    simp only [Bool.false_eq_true, if_false]
    have hxv := toNat_low_of_canon hs hx
    have hyv := toNat_low_of_canon hs hy
    by_cases h0 : y.setWidth k.bits = 0#k.bits
    · have : val k y = 0 := by rw [← hyv, (eq_zero_iff_toNat _).mp h0]; rfl
      rw [if_pos h0, if_pos this]; rfl
    · have : val k y ≠ 0 := by
        intro h; apply h0; rw [eq_zero_iff_toNat]; rw [← hyv] at h; exact_mod_cast h
      rw [if_neg h0, if_neg this]
      refine refines_ok (canon_zeroExtend hs _) ?_
      rw [val_zeroExtend hs, ← hxv, ← hyv, Int.tdiv_eq_ediv_of_nonneg (by omega), ← Int.natCast_ediv,
        BitVec.udiv_eq, ← BitVec.toNat_udiv, wrap_toNat hs]
  · -- signed
    simp only [if_true]
    have hxv := toInt_low_of_canon hs hx
    have hyv := toInt_low_of_canon hs hy
    by_cases h0 : y.setWidth k.bits = 0#k.bits
    · have : val k y = 0 := by rw [← hyv]; exact (eq_zero_iff_toInt _).mp h0
      rw [if_pos h0, if_pos this]; rfl
    · have : val k y ≠ 0 := by
        intro h; apply h0; rw [eq_zero_iff_toInt, hyv]; exact h
      rw [if_neg h0, if_neg this]
      refine refines_ok (canon_signExtend hs _) ?_
      rw [val_signExtend hs, BitVec.toInt_sdiv, hxv, hyv]
      unfold wrap modulus; rw [if_pos hs]

theorem rem_refines (k : Kind) (x y : BitVec 64) (hx : Canon k x) (hy : Canon k y) :
    Refines k (refRem k.signed k.bits x y) (binop .rem k (val k x) (val k y)) := by
  unfold refRem binop
  cases hs : k.signed
  · simp only [Bool.false_eq_true, if_false]
    have hxv := toNat_low_of_canon hs hx
    have hyv := toNat_low_of_canon hs hy
    by_cases h0 : y.setWidth k.bits = 0#k.bits
    · have : val k y = 0 := by rw [← hyv, (eq_zero_iff_toNat _).mp h0]; rfl
      rw [if_pos h0, if_pos this]; rfl
    · have : val k y ≠ 0 := by
        intro h; apply h0; rw [eq_zero_iff_toNat]; rw [← hyv] at h; exact_mod_cast h
      rw [if_neg h0, if_neg this]
      refine refines_ok (canon_zeroExtend hs _) ?_
      rw [val_zeroExtend hs, ← hxv, ← hyv, Int.tmod_eq_emod_of_nonneg (by omega), ← Int.natCast_emod,
        BitVec.umod_eq, ← BitVec.toNat_umod, wrap_toNat hs]
  · simp only [if_true]
    have hxv := toInt_low_of_canon hs hx
    have hyv := toInt_low_of_canon hs hy
    by_cases h0 : y.setWidth k.bits = 0#k.bits
    · have : val k y = 0 := by rw [← hyv]; exact (eq_zero_iff_toInt _).mp h0
      rw [if_pos h0, if_pos this]; rfl
    · have : val k y ≠ 0 := by
        intro h; apply h0; rw [eq_zero_iff_toInt, hyv]; exact h
      rw [if_neg h0, if_neg this]
      refine refines_ok (canon_signExtend hs _) ?_
      rw [val_signExtend hs, ← hxv, ← hyv, ← BitVec.toInt_srem, wrap_toInt hs]

/-- the two's-complement pattern of the value of a register is its low `b` bits -/
theorem pattern_val (k : Kind) (x : BitVec 64) : pattern k (val k x) = (x.setWidth k.bits).toNat := by
  unfold pattern modulus
  rw [emod_of_emod64 k.bits_le (val_emod64 k x), emod_of_emod64 k.bits_le (toInt_emod64 x),
    BitVec.toNat_setWidth, ← Int.natCast_emod, Int.toNat_natCast]

theorem eq_sx_of_canon {k : Kind} (hs : k.signed = true) {a : BitVec 64} (ha : Canon k a) :
    a = (a.setWidth k.bits).signExtend 64 := by
  unfold Canon at ha; rw [canon_signed hs] at ha; exact ha.symm

theorem eq_zx_of_canon {k : Kind} (hs : k.signed = false) {a : BitVec 64} (ha : Canon k a) :
    a = (a.setWidth k.bits).setWidth 64 := by
  unfold Canon at ha; rw [canon_unsigned hs] at ha; exact ha.symm

theorem wrap_nat_signed {k : Kind} (hs : k.signed = true) (n : Nat) :
    wrap k (n : Int) = Int.bmod n (2 ^ k.bits) := by
  unfold wrap modulus; rw [if_pos hs]

/-- a bitwise operator that commutes with truncation and both extensions preserves canonicity and
acts on the patterns -/
theorem bitwise_refines (k : Kind) (x y : BitVec 64) (hx : Canon k x) (hy : Canon k y)
    (f : {w : Nat} → BitVec w → BitVec w → BitVec w) (g : Nat → Nat → Nat)
    (hsx : ∀ u v : BitVec k.bits, f (u.signExtend 64) (v.signExtend 64) = (f u v).signExtend 64)
    (hzx : ∀ u v : BitVec k.bits, f (u.setWidth 64) (v.setWidth 64) = (f u v).setWidth 64)
    (hnat : ∀ u v : BitVec k.bits, (f u v).toNat = g u.toNat v.toNat)
    (hint : ∀ u v : BitVec k.bits, (f u v).toInt = Int.bmod (g u.toNat v.toNat) (2 ^ k.bits)) :
    Refines k (.ok (f x y)) (.ok (wrap k (g (pattern k (val k x)) (pattern k (val k y)) : Nat))) := by
  rw [pattern_val, pattern_val]
  cases hs : k.signed
  · rw [eq_zx_of_canon hs hx, eq_zx_of_canon hs hy, hzx]
    refine refines_ok (canon_zeroExtend hs _) ?_
    rw [val_zeroExtend hs, setWidth_setWidth64 k.bits_le, setWidth_setWidth64 k.bits_le, ← hnat, wrap_toNat hs]
  · rw [eq_sx_of_canon hs hx, eq_sx_of_canon hs hy, hsx]
    refine refines_ok (canon_signExtend hs _) ?_
    rw [val_signExtend hs, setWidth_signExtend k.bits_le, setWidth_signExtend k.bits_le, wrap_nat_signed hs, hint]

theorem and_refines (k : Kind) (x y : BitVec 64) (hx : Canon k x) (hy : Canon k y) :
    Refines k (.ok (x &&& y)) (binop .and k (val k x) (val k y)) :=
  bitwise_refines k x y hx hy (fun u v => u &&& v) (fun a b => a &&& b)
    (fun _ _ => BitVec.signExtend_and.symm) (fun _ _ => BitVec.setWidth_and.symm)
    (fun _ _ => rfl) (fun u v => BitVec.toInt_and u v)

theorem or_refines (k : Kind) (x y : BitVec 64) (hx : Canon k x) (hy : Canon k y) :
    Refines k (.ok (x ||| y)) (binop .or k (val k x) (val k y)) :=
  bitwise_refines k x y hx hy (fun u v => u ||| v) (fun a b => a ||| b)
    (fun _ _ => BitVec.signExtend_or.symm) (fun _ _ => BitVec.setWidth_or.symm)
    (fun _ _ => rfl) (fun u v => BitVec.toInt_or u v)

theorem xor_refines (k : Kind) (x y : BitVec 64) (hx : Canon k x) (hy : Canon k y) :
    Refines k (.ok (x ^^^ y)) (binop .xor k (val k x) (val k y)) :=
  bitwise_refines k x y hx hy (fun u v => u ^^^ v) (fun a b => a ^^^ b)
    (fun _ _ => BitVec.signExtend_xor.symm) (fun _ _ => BitVec.setWidth_xor.symm)
    (fun _ _ => rfl) (fun u v => BitVec.toInt_xor u v)

theorem zx_andNot {b : Nat} (u v : BitVec b) :
    u.setWidth 64 &&& ~~~(v.setWidth 64) = (u &&& ~~~v).setWidth 64 := by
  ext i hi
  simp only [BitVec.getElem_and, BitVec.getElem_not, BitVec.getElem_setWidth, BitVec.getLsbD_and,
    BitVec.getLsbD_not]
  by_cases h : i < b
  · simp [h]
  · have h1 : u.getLsbD i = false := BitVec.getLsbD_of_ge u i (by omega)
    simp [h, h1]

theorem andNot_refines (k : Kind) (x y : BitVec 64) (hx : Canon k x) (hy : Canon k y) :
    Refines k (.ok (x &&& ~~~y)) (binop .andNot k (val k x) (val k y)) :=
  bitwise_refines k x y hx hy (fun u v => u &&& ~~~v) (fun a b => a &&& (2 ^ k.bits - 1 - b))
    (fun u v => by rw [← BitVec.signExtend_not k.bits_pos, BitVec.signExtend_and])
    (fun u v => zx_andNot u v)
    (fun u v => by rw [BitVec.toNat_and, BitVec.toNat_not])
    (fun u v => by rw [BitVec.toInt_and, BitVec.toNat_not])

/-! ## shifts -/

theorem goShl_eq {w v : Nat} (x : BitVec w) (n : BitVec v) : goShl x n = x <<< n.toNat := by
  unfold goShl; split
  · rename_i h; rw [BitVec.shiftLeft_eq_zero h]
  · rfl

theorem goShrU_eq {w v : Nat} (x : BitVec w) (n : BitVec v) : goShrU x n = x >>> n.toNat := by
  unfold goShrU; split
  · rename_i h; rw [BitVec.ushiftRight_eq_zero h]
  · rfl

theorem goShrS_eq {w v : Nat} (x : BitVec w) (n : BitVec v) : goShrS x n = x.sshiftRight n.toNat := by
  unfold goShrS; split
  · rename_i h
    cases hm : x.msb
    · rw [BitVec.sshiftRight_eq_of_msb_false hm, BitVec.ushiftRight_eq_zero h]; rfl
    · rw [BitVec.sshiftRight_eq_of_msb_true hm, BitVec.ushiftRight_eq_zero h, BitVec.not_zero]; rfl
  · rfl

/-- the count register read as a natural number is the count, when the count is not negative -/
theorem count_toNat (kc : Kind) (n : BitVec 64) (h : 0 ≤ val kc n) : (n.toNat : Int) = val kc n := by
  unfold val at h ⊢
  split
  · rename_i hs
    rw [if_pos hs] at h
    rw [BitVec.toInt_eq_toNat_cond] at h ⊢
    split
    · rfl
    · rename_i h2; rw [if_neg h2] at h; omega
  · rfl

theorem canon_of_inRange {k : Kind} {r : BitVec 64} (h : InRange k (val k r)) : Canon k r := by
  have hv := val_canon k r
  unfold Canon
  cases hs : k.signed
  · unfold val at h hv
    rw [hs] at h hv
    simp only [Bool.false_eq_true, if_false] at h hv
    rw [wrap_congr64 (toInt_emod64 r), wrap_of_inRange h] at hv
    exact BitVec.eq_of_toNat_eq (by exact_mod_cast hv)
  · unfold val at h hv
    rw [hs] at h hv
    simp only [if_true] at h hv
    rw [wrap_of_inRange h] at hv
    exact BitVec.eq_of_toInt_eq hv

theorem wrap_zero (k : Kind) : wrap k 0 = 0 := by
  unfold wrap; split <;> simp

/-- the closed form of `<<` in the specification is the textbook formula `x * 2^n`, wrapped -/
theorem shl_eq_pow (k : Kind) (x n : Int) (hn : 0 ≤ n) :
    shift .shl k x n = .ok (wrap k (x * (2 ^ n.toNat : Nat))) := by
  unfold shift
  rw [if_neg (by omega)]
  simp only
  split
  · rename_i hge
    congr 1
    rw [← wrap_zero k]
    apply wrap_congr
    have hd : ((modulus k : Nat) : Int) ∣ x * ((2 ^ n.toNat : Nat) : Int) := by
      apply Int.dvd_mul_of_dvd_right
      exact Int.natCast_dvd_natCast.mpr (Nat.pow_dvd_pow 2 (by omega))
    rw [Int.emod_eq_zero_of_dvd hd]; simp
  · rfl

theorem two_pow_half (k : Kind) : 2 ^ k.bits = 2 * 2 ^ (k.bits - 1) := by
  have := k.bits_pos
  rw [← Nat.pow_succ']; congr 1; omega

/-- the closed form of `>>` in the specification is the textbook formula: `x / 2^n` rounded
toward negative infinity -/
theorem shr_eq_div (k : Kind) (x n : Int) (hn : 0 ≤ n) (hx : InRange k x) :
    shift .shr k x n = .ok (x / ((2 ^ n.toNat : Nat) : Int)) := by
  unfold shift
  rw [if_neg (by omega)]
  simp only
  split
  · rename_i hge
    congr 1
    have hle : 2 ^ k.bits ≤ 2 ^ n.toNat := Nat.pow_le_pow_right (by omega) (by omega)
    have hp := two_pow_half k
    unfold InRange minOf maxOf at hx
    have hpos := Nat.two_pow_pos n.toNat
    have hpos' := Nat.two_pow_pos (k.bits - 1)
    have hr : -((2 ^ n.toNat : Nat) : Int) ≤ x ∧ x < ((2 ^ n.toNat : Nat) : Int) := by
      cases hs : k.signed <;> simp only [hs, if_true, Bool.false_eq_true, if_false] at hx <;> constructor <;> omega
    split
    · rename_i hneg
      symm
      have := (Int.ediv_emod_unique (a := x) (b := ((2 ^ n.toNat : Nat) : Int)) (q := -1)
        (r := x + ((2 ^ n.toNat : Nat) : Int)) (by omega)).mpr ⟨by omega, by omega, by omega⟩
      exact this.1
    · rename_i hnn
      symm
      exact Int.ediv_eq_zero_of_lt (by omega) hr.2
  · rfl

theorem toNat_of_count (kc : Kind) (n : BitVec 64) (h : 0 ≤ val kc n) : (val kc n).toNat = n.toNat := by
  rw [← count_toNat kc n h, Int.toNat_natCast]

theorem shl_refines (k kc : Kind) (x n : BitVec 64) (hn : 0 ≤ val kc n) :
    Refines k (.ok (canon k (goShl x n))) (shift .shl k (val k x) (val kc n)) := by
  rw [shl_eq_pow k _ _ hn, toNat_of_count kc n hn, goShl_eq]
  apply refines_canon
  rw [toInt_emod64, BitVec.toNat_shiftLeft, Nat.shiftLeft_eq, Int.natCast_emod, Int.emod_emod,
    Int.natCast_mul]
  exact mul_congr ((toInt_emod64 x).symm.trans (val_emod64 k x).symm) rfl

theorem shr_refines (k kc : Kind) (x n : BitVec 64) (hx : Canon k x) (hn : 0 ≤ val kc n) :
    Refines k (.ok (if k.signed then goShrS x n else goShrU x n)) (shift .shr k (val k x) (val kc n)) := by
  have hr := inRange_val hx
  rw [shr_eq_div k _ _ hn hr, toNat_of_count kc n hn]
  cases hs : k.signed
  · simp only [Bool.false_eq_true, if_false]
    rw [goShrU_eq]
    have hv : val k (x >>> n.toNat) = val k x / ((2 ^ n.toNat : Nat) : Int) := by
      unfold val; rw [hs]
      simp only [Bool.false_eq_true, if_false]
      rw [BitVec.toNat_ushiftRight, Nat.shiftRight_eq_div_pow, Int.natCast_ediv]
    refine refines_ok (canon_of_inRange ?_) hv
    rw [hv]
    unfold InRange minOf maxOf val at hr ⊢
    rw [hs] at hr ⊢
    simp only [Bool.false_eq_true, if_false] at hr ⊢
    have h2 : (0:Int) < ((2 ^ n.toNat : Nat) : Int) := two_pow_pos' _
    constructor
    · exact Int.ediv_nonneg hr.1 (by omega)
    · exact Int.le_trans (Int.ediv_le_self _ hr.1) hr.2
  · simp only [if_true]
    rw [goShrS_eq]
    have hv : val k (x.sshiftRight n.toNat) = val k x / ((2 ^ n.toNat : Nat) : Int) := by
      unfold val; rw [hs]
      simp only [if_true]
      rw [BitVec.toInt_sshiftRight, Int.shiftRight_eq_div_pow]
    refine refines_ok (canon_of_inRange ?_) hv
    rw [hv, ← Int.shiftRight_eq_div_pow]
    unfold InRange at hr ⊢
    by_cases h0 : 0 ≤ val k x
    · constructor
      · have := Int.le_shiftRight_of_nonneg (s := n.toNat) h0
        have hp := two_pow_pos' (k.bits - 1)
        unfold minOf; rw [hs]; simp only [if_true]; omega
      · exact Int.le_trans (Int.shiftRight_le_of_nonneg h0) hr.2
    · constructor
      · exact Int.le_trans hr.1 (Int.le_shiftRight_of_nonpos (by omega))
      · have := Int.shiftRight_le_of_nonpos (s := n.toNat) (n := val k x) (by omega)
        unfold maxOf; rw [hs]; simp only [if_true]
        have hp := two_pow_pos' (k.bits - 1)
        omega

/-! ## unary operators, conversions, comparisons -/

theorem toInt_emod {b : Nat} (u : BitVec b) :
    u.toInt % ((2 ^ b : Nat) : Int) = (u.toNat : Int) % ((2 ^ b : Nat) : Int) := by
  rw [BitVec.toInt_eq_toNat_bmod, Int.bmod_emod]

/-- a `b`-bit result congruent to the exact result modulo `2^b`, extended according to the
signedness of the kind, is the wrapped exact result -/
theorem refines_extend (k : Kind) (u : BitVec k.bits) (z : Int)
    (h : u.toInt % ((2 ^ k.bits : Nat) : Int) = z % ((2 ^ k.bits : Nat) : Int)) :
    Refines k (.ok (if k.signed then u.signExtend 64 else u.setWidth 64)) (.ok (wrap k z)) := by
  cases hs : k.signed
  · simp only [Bool.false_eq_true, if_false]
    refine refines_ok (canon_zeroExtend hs u) ?_
    rw [val_zeroExtend hs, ← wrap_toNat hs]
    exact wrap_congr ((toInt_emod u).symm.trans h)
  · simp only [if_true]
    refine refines_ok (canon_signExtend hs u) ?_
    rw [val_signExtend hs, ← wrap_toInt hs]
    exact wrap_congr h

/-- the low `b` bits of a register are congruent to its value -/
theorem low_emod (k : Kind) (y : BitVec 64) :
    (y.setWidth k.bits).toInt % ((2 ^ k.bits : Nat) : Int) = val k y % ((2 ^ k.bits : Nat) : Int) := by
  rw [BitVec.toInt_setWidth, Int.bmod_emod]
  exact (emod_of_emod64 k.bits_le ((val_emod64 k y).trans (toInt_emod64 y))).symm

def refNeg (k : Kind) (y : BitVec 64) : BitVec 64 :=
  if k.signed then (-(y.setWidth k.bits)).signExtend 64 else (-(y.setWidth k.bits)).setWidth 64

theorem neg_refines (k : Kind) (y : BitVec 64) :
    Refines k (.ok (refNeg k y)) (.ok (unop .neg k (val k y))) := by
  have := refines_extend k (-(y.setWidth k.bits)) (-(val k y)) (by
    rw [BitVec.toInt_neg, Int.bmod_emod, ← Int.zero_sub, ← Int.zero_sub (val k y)]
    exact sub_congr rfl (low_emod k y))
  unfold refNeg unop
  split <;> simp_all

theorem notMask_unsigned {k : Kind} :
    BitVec.ofNat 64 (2 ^ k.bits - 1) = (BitVec.allOnes k.bits).setWidth 64 := by
  apply BitVec.eq_of_toNat_eq
  rw [BitVec.toNat_ofNat, BitVec.toNat_setWidth_of_le k.bits_le, BitVec.toNat_allOnes]
  have : 2 ^ k.bits ≤ 2 ^ 64 := Nat.pow_le_pow_right (by omega) k.bits_le
  have := Nat.two_pow_pos k.bits
  omega

theorem not_refines (k : Kind) (y : BitVec 64) (hy : Canon k y) :
    Refines k (.ok (notMask k ^^^ y)) (.ok (unop .not k (val k y))) := by
  unfold unop notMask modulus
  simp only
  rw [pattern_val]
  cases hs : k.signed
  · simp only [Bool.false_eq_true, if_false]
    rw [notMask_unsigned]
    conv => lhs; rw [eq_zx_of_canon hs hy]
    rw [← BitVec.setWidth_xor, BitVec.allOnes_xor]
    refine refines_ok (canon_zeroExtend hs _) ?_
    rw [val_zeroExtend hs, ← BitVec.toNat_not, wrap_toNat hs]
  · simp only [if_true]
    rw [BitVec.allOnes_xor]
    conv => lhs; rw [eq_sx_of_canon hs hy]
    rw [← BitVec.signExtend_not k.bits_pos]
    refine refines_ok (canon_signExtend hs _) ?_
    rw [val_signExtend hs, wrap_nat_signed hs, BitVec.toInt_not]
    congr 1
    have := (y.setWidth k.bits).isLt
    rw [Int.ofNat_sub (by omega), Int.ofNat_sub (by omega), Int.natCast_pow]
    rfl

theorem beq_toInt (x y : BitVec 64) : (x.toInt == y.toInt) = (x == y) := by
  rw [Bool.eq_iff_iff]; simp [BitVec.toInt_inj]
theorem beq_toNat (x y : BitVec 64) : ((x.toNat : Int) == (y.toNat : Int)) = (x == y) := by
  rw [Bool.eq_iff_iff]; simp only [beq_iff_eq, Int.natCast_inj, BitVec.toNat_inj]
theorem bne_toInt (x y : BitVec 64) : (x.toInt != y.toInt) = (x != y) := by
  unfold bne; rw [beq_toInt]
theorem bne_toNat (x y : BitVec 64) : ((x.toNat : Int) != (y.toNat : Int)) = (x != y) := by
  unfold bne; rw [beq_toNat]

theorem cmp_refines (op : CmpOp) (k : Kind) (x y : BitVec 64) :
    vmCmp op k x y = cmp op (val k x) (val k y) := by
  unfold vmCmp condOf cmp val
  cases hs : k.signed <;> cases op <;>
    simp [vmIfInt, cmpCond, srcCmpOf, BitVec.slt_eq_decide, BitVec.sle_eq_decide, BitVec.ult_eq_decide,
      BitVec.ule_eq_decide, beq_toInt, beq_toNat, bne_toInt, bne_toNat]


/-! ## the generated terms are the reference forms (checked by normalisation, per opcode and kind) -/

def refOp : BinOp → Kind → BitVec 64 → BitVec 64 → Except Fault (BitVec 64)
  | .add, k, x, y => .ok (canon k (x + y))
  | .sub, k, x, y => .ok (canon k (x - y))
  | .mul, k, x, y => .ok (canon k (x * y))
  | .div, k, x, y => refDiv k.signed k.bits x y
  | .rem, k, x, y => refRem k.signed k.bits x y
  | .and, _, x, y => .ok (x &&& y)
  | .or, _, x, y => .ok (x ||| y)
  | .xor, _, x, y => .ok (x ^^^ y)
  | .andNot, _, x, y => .ok (x &&& ~~~y)

theorem canon_of_bits64 {k : Kind} (h : k.bits = 64) (r : BitVec 64) : canon k r = r := by
  unfold canon
  rw [h]
  simp

theorem canon_int (r) : canon .int r = r := canon_of_bits64 rfl r
theorem canon_int64 (r) : canon .int64 r = r := canon_of_bits64 rfl r
theorem canon_uint (r) : canon .uint r = r := canon_of_bits64 rfl r
theorem canon_uint64 (r) : canon .uint64 r = r := canon_of_bits64 rfl r
theorem canon_uintptr (r) : canon .uintptr r = r := canon_of_bits64 rfl r

theorem vmOp_eq_ref (op : BinOp) (k : Kind) (x y junk : BitVec 64) :
    vmOp op k x y junk = refOp op k x y := by
  cases op <;> cases k <;>
    first
    | rfl
    | (simp only [refOp, refDiv, refRem, canon_int, canon_int64, canon_uint, canon_uint64, canon_uintptr,
        Kind.bits, Kind.signed, BitVec.setWidth_eq, BitVec.signExtend_eq, ↓reduceIte]; rfl)
    | (simp only [refOp, canon_int64, canon_uint64, BitVec.add_comm x y]; rfl)

def refShift : ShiftOp → Kind → BitVec 64 → BitVec 64 → Except Fault (BitVec 64)
  | .shl, k, x, n => .ok (canon k (goShl x n))
  | .shr, k, x, n => .ok (if k.signed then goShrS x n else goShrU x n)

theorem vmShift_eq_ref (op : ShiftOp) (k : Kind) (x n junk : BitVec 64) :
    vmShift op k x n junk = refShift op k x n := by
  cases op <;> cases k <;>
    first
    | rfl
    | (simp only [refShift, canon_int, canon_int64, canon_uint, canon_uint64, canon_uintptr]; rfl)

theorem vmNeg_eq_ref (k : Kind) (y junk : BitVec 64) : vmNeg k y junk = .ok (refNeg k y) := by
  cases k <;>
    first
    | rfl
    | (simp only [refNeg, Kind.bits, Kind.signed, BitVec.setWidth_eq, BitVec.signExtend_eq, ↓reduceIte,
        Bool.false_eq_true]; rfl)

theorem vmNot_eq_ref (k : Kind) (y : BitVec 64) : vmNot k y = .ok (notMask k ^^^ y) := by
  cases k <;> rfl

theorem vmConvertInt_eq (dst : Kind) (x : BitVec 64) : vmConvertInt dst x = .ok (canon dst x) := by
  cases dst <;>
    first
    | rfl
    | (simp only [canon_int, canon_int64, canon_uint, canon_uint64, canon_uintptr]; rfl)

theorem vmConvertUint_eq (dst : Kind) (x : BitVec 64) : vmConvertUint dst x = .ok (canon dst x) := by
  cases dst <;>
    first
    | rfl
    | (simp only [canon_int, canon_int64, canon_uint, canon_uint64, canon_uintptr]; rfl)

theorem conv_refines (src dst : Kind) (x : BitVec 64) (hx : Canon src x) :
    Refines dst (vmConv src dst x) (.ok (conv dst (val src x))) := by
  unfold vmConv conv
  split
  · rename_i h
    subst h
    exact refines_ok hx (wrap_of_inRange (inRange_val hx)).symm
  · have h : x.toInt % ((2^64 : Nat) : Int) = val src x % ((2^64 : Nat) : Int) := (val_emod64 src x).symm
    split
    · rw [vmConvertInt_eq]; exact refines_canon h
    · rw [vmConvertUint_eq]; exact refines_canon h

/-! ## the specification: results are values of the kind -/

theorem spec_unop_inRange (op : UnOp) (k : Kind) (x : Int) (hx : InRange k x) : InRange k (unop op k x) := by
  cases op <;> simp only [unop]
  · exact inRange_wrap k _
  · exact inRange_wrap k _
  · exact hx

theorem spec_shift_inRange (op : ShiftOp) (k : Kind) (x n z : Int) (hx : InRange k x)
    (h : shift op k x n = .ok z) : InRange k z := by
  by_cases hn : 0 ≤ n
  · cases op
    · rw [shl_eq_pow k x n hn] at h; cases h; exact inRange_wrap k _
    · have h' := h
      unfold shift at h
      rw [if_neg (by omega)] at h
      simp only at h
      split at h
      · cases h
        unfold InRange minOf maxOf at hx ⊢
        have := two_pow_pos' (k.bits - 1)
        have := two_pow_pos' k.bits
        cases hs : k.signed <;> simp only [hs, if_true, Bool.false_eq_true, if_false] at hx ⊢ <;>
          split <;> constructor <;> omega
      · cases h
        rw [← Int.shiftRight_eq_div_pow]
        unfold InRange at hx ⊢
        by_cases h0 : 0 ≤ x
        · constructor
          · have := Int.le_shiftRight_of_nonneg (s := n.toNat) h0
            have : minOf k ≤ 0 := by
              unfold minOf; split
              · have := two_pow_pos' (k.bits - 1); omega
              · omega
            omega
          · exact Int.le_trans (Int.shiftRight_le_of_nonneg h0) hx.2
        · constructor
          · exact Int.le_trans hx.1 (Int.le_shiftRight_of_nonpos (by omega))
          · have := Int.shiftRight_le_of_nonpos (s := n.toNat) (n := x) (by omega)
            have : 0 ≤ maxOf k := by
              unfold maxOf; split
              · have := two_pow_pos' (k.bits - 1); omega
              · have := two_pow_pos' k.bits; omega
            omega
  · unfold shift at h; rw [if_pos (by omega)] at h; cases h

/-! ## integer → string conversion -/

theorem goStringOfRune_small (x : BitVec 64) (h0 : 0 ≤ x.toInt) (h1 : x.toInt ≤ 0x10FFFF) :
    goStringOfRune (x.setWidth 32) = Utf8.encodeRune x.toInt.toNat := by
  have hn : x.toInt = (x.toNat : Int) := by
    rw [BitVec.toInt_eq_toNat_cond] at h0 ⊢
    split
    · rfl
    · rename_i h; rw [if_neg h] at h0; omega
  have hlt : x.toNat ≤ 0x10FFFF := by omega
  have h32 : (x.setWidth 32).toInt = (x.toNat : Int) := by
    rw [BitVec.toInt_eq_toNat_of_lt]
    · rw [BitVec.toNat_setWidth]; congr 1; omega
    · rw [BitVec.toNat_setWidth]; omega
  unfold goStringOfRune
  rw [h32, if_neg (by omega), hn]

theorem convStr_refines (src : Kind) (x : BitVec 64) :
    vmConvStr src x = intToString (val src x) := by
  unfold vmConvStr intToString val
  cases hs : src.signed
  · simp only [Bool.false_eq_true, if_false, vmConvertUintStr]
    by_cases h : x.toNat ≤ 0x10FFFF
    · have hu : BitVec.ule x 1114111#64 = true := by
        rw [BitVec.ule_eq_decide]; simpa using h
      have hi : x.toInt = (x.toNat : Int) := by
        rw [BitVec.toInt_eq_toNat_of_lt (by omega)]
      rw [if_pos hu, if_pos (by omega), goStringOfRune_small x (by omega) (by omega), hi]
    · have hu : BitVec.ule x 1114111#64 = false := by
        rw [BitVec.ule_eq_decide]; simpa using h
      have hneg : ¬(0 ≤ (x.toNat : Int) ∧ (x.toNat : Int) ≤ 0x10FFFF) := by omega
      rw [if_neg hneg, hu]
      rfl
  · simp only [if_true, vmConvertIntStr]
    by_cases h : 0 ≤ x.toInt ∧ x.toInt ≤ 0x10FFFF
    · have hc : (BitVec.sle 0#64 x && BitVec.sle x 1114111#64) = true := by
        rw [BitVec.sle_eq_decide, BitVec.sle_eq_decide]
        simp [BitVec.toInt_ofNat]
        have : ((1114111 : Int).bmod 18446744073709551616) = 1114111 := by decide
        omega
      rw [if_pos hc, if_pos h, goStringOfRune_small x h.1 h.2]
    · have hc : (BitVec.sle 0#64 x && BitVec.sle x 1114111#64) = false := by
        rw [BitVec.sle_eq_decide, BitVec.sle_eq_decide]
        have : ((1114111 : Int).bmod 18446744073709551616) = 1114111 := by decide
        simp [BitVec.toInt_ofNat]
        omega
      rw [hc, if_neg h]
      rfl

/-! ## well-formedness notions for the reference evaluator -/
namespace C01
open ScriggoV.Eval

/-- every variable occurrence is bound to a value of its declared kind -/
def EnvOK (ρ : Env) : Expr → Prop
  | .lit _ _ => True
  | .var k i => ∃ z, ρ[i]? = some z ∧ InRange k z
  | .un _ e => EnvOK ρ e
  | .bin _ a b => EnvOK ρ a ∧ EnvOK ρ b
  | .sh _ a b => EnvOK ρ a ∧ EnvOK ρ b
  | .cmp _ a b => EnvOK ρ a ∧ EnvOK ρ b
  | .conv _ e => EnvOK ρ e

/-- a value of the static type, in the range of its kind -/
def ValOK (τ : Ty) : Val → Prop
  | .int k z => τ = .int k ∧ InRange k z
  | .bool _ => τ = .bool

/-- outcome of a well-typed tree: a value of the static type, or one of Go's two run-time panics -/
def ResultOK (τ : Ty) : Except Fault Val → Prop
  | .ok v => ValOK τ v
  | .error f => f = .divZero ∨ f = .negShift

theorem resultOK_bind {τ : Ty} {r : Except Fault Val} {f : Val → Except Fault Val} {σ : Ty}
    (hr : ResultOK σ r) (hf : ∀ v, ValOK σ v → ResultOK τ (f v)) : ResultOK τ (r >>= f) := by
  cases r with
  | error e => exact hr
  | ok v => exact hf v hr

end C01

end ScriggoV
