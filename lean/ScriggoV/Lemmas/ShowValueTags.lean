import ScriggoV.Spec.ShowAbs
/-! C08 helper lemmas, part 3: the struct-tag code. `parseTagValue` (the model of the Go loop
with its checked slicing) never faults and computes the name and "omitempty ∈ options" of the
specification (`specTag`, written with `strings.Split`); `isEmptyValue` (through the regenerated
kind switch) is encoding/json's notion of empty; hence the struct loop keeps exactly the fields
`fieldName` keeps, under the same names. -/
namespace ScriggoV.ShowValue
open ScriggoV ScriggoV.JSON ScriggoV.Gen.ShowJS

/-! ### kinds -/
def isIntKind : RKind → Bool
  | .int | .int8 | .int16 | .int32 | .int64 => true
  | _ => false
def isUintKind : RKind → Bool
  | .uint | .uint8 | .uint16 | .uint32 | .uint64 | .uintptr => true
  | _ => false
def isFloatKind : RKind → Bool
  | .float32 | .float64 => true
  | _ => false
/-- the kinds neither function has a case for -/
def isOtherKind : RKind → Bool
  | .complex64 | .complex128 | .chan | .func => true
  | _ => false

/-- the kind a description carries is one its constructor can have (through the wrappers) -/
def KindOK : GoVal → Bool
  | .int k _ => isIntKind k
  | .uint k _ => isUintKind k
  | .float k _ _ _ => isFloatKind k
  | .other k _ => isOtherKind k
  | .verb _ _ inner => KindOK inner
  | .err _ inner => KindOK inner
  | _ => true

/-! ### isEmptyValue -/
theorem isEmptyValue_eq : ∀ (v : GoVal), KindOK v = true → isEmptyValue v = isEmptySpec v
  | .verb js json inner, h => by
    have : isEmptyValue (.verb js json inner) = isEmptyValue inner := by
      unfold isEmptyValue; rw [kindOf, strip]
    rw [this, isEmptySpec]; exact isEmptyValue_eq inner h
  | .err msg inner, h => by
    have : isEmptyValue (.err msg inner) = isEmptyValue inner := by
      unfold isEmptyValue; rw [kindOf, strip]
    rw [this, isEmptySpec]; exact isEmptyValue_eq inner h
  | .int k i, h => by
    cases k <;> simp_all [KindOK, isIntKind, isEmptyValue, isEmptySpec, kindOf, strip, emptyBranch]
  | .uint k n, h => by
    cases k <;> simp_all [KindOK, isUintKind, isEmptyValue, isEmptySpec, kindOf, strip, emptyBranch]
  | .float k c z d, h => by
    cases k <;> simp_all [KindOK, isFloatKind, isEmptyValue, isEmptySpec, kindOf, strip, emptyBranch]
  | .other k n, h => by
    cases k <;> simp_all [KindOK, isOtherKind, isEmptyValue, isEmptySpec, kindOf, strip, emptyBranch]
  | .ptr u n e, _ => by cases u <;> simp [isEmptyValue, isEmptySpec, kindOf, strip, emptyBranch]
  | .iface w, _ => by cases w <;> simp [isEmptyValue, isEmptySpec, kindOf, strip, emptyBranch]
  | .nil, _ => by simp [isEmptyValue, isEmptySpec, kindOf, strip, emptyBranch]
  | .time _, _ => by simp [isEmptyValue, isEmptySpec, kindOf, strip, emptyBranch]
  | .nbytes n b, _ => by simp [isEmptyValue, isEmptySpec, kindOf, strip, emptyBranch]
  | .bool b, _ => by simp [isEmptyValue, isEmptySpec, kindOf, strip, emptyBranch]
  | .str s, _ => by simp [isEmptyValue, isEmptySpec, kindOf, strip, emptyBranch]
  | .bytes n b, _ => by simp [isEmptyValue, isEmptySpec, kindOf, strip, emptyBranch]
  | .slice n es, _ => by simp [isEmptyValue, isEmptySpec, kindOf, strip, emptyBranch]
  | .array es, _ => by simp [isEmptyValue, isEmptySpec, kindOf, strip, emptyBranch]
  | .map n ks vs, _ => by simp [isEmptyValue, isEmptySpec, kindOf, strip, emptyBranch]
  | .struct fs vs, _ => by simp [isEmptyValue, isEmptySpec, kindOf, strip, emptyBranch]

/-! ### parseTagValue -/

theorem splitComma_ne_nil (s : Bytes) : splitComma s ≠ [] := by
  induction s with
  | nil => simp [splitComma]
  | cons c r ih =>
    rw [splitComma]
    split
    · simp
    · split <;> simp

theorem splitComma_no_comma (s : Bytes) (h : indexComma s = none) : splitComma s = [s] := by
  induction s with
  | nil => rfl
  | cons c r ih =>
    rw [indexComma] at h
    split at h
    · exact absurd h (by simp)
    · rename_i hc
      have hr : indexComma r = none := by
        cases hi : indexComma r with
        | none => rfl
        | some i => rw [hi] at h; exact absurd h (by simp)
      rw [splitComma, if_neg hc, ih hr]

/-- cutting at the first comma, with the checked slices of the model -/
theorem split_at_comma (s : Bytes) (i : Nat) (h : indexComma s = some i) :
    ∃ name rest, sliceOf s 0 i = .ok name ∧ sliceOf s (i + 1) s.length = .ok rest ∧
      splitComma s = name :: splitComma rest ∧ rest.length < s.length := by
  induction s generalizing i with
  | nil => rw [indexComma] at h; exact absurd h (by simp)
  | cons c r ih =>
    rw [indexComma] at h
    split at h
    · rename_i hc
      have : i = 0 := by simpa using h.symm
      subst this
      refine ⟨[], r, ?_, ?_, ?_, by simp⟩
      · simp [sliceOf]
      · simp [sliceOf]
      · rw [splitComma, if_pos hc]
    · rename_i hc
      cases hi : indexComma r with
      | none => rw [hi] at h; exact absurd h (by simp)
      | some j =>
        rw [hi] at h
        have : i = j + 1 := by simpa using h.symm
        subst this
        obtain ⟨name, rest, h1, h2, h3, h4⟩ := ih j hi
        refine ⟨c :: name, rest, ?_, ?_, ?_, by simp; omega⟩
        · unfold sliceOf at h1 ⊢
          simp only [Nat.zero_le, true_and, List.drop_zero, List.length_cons] at h1 ⊢
          split at h1
          · rename_i hj
            rw [if_pos (by omega)]
            simp only [Except.ok.injEq] at h1
            simp [List.take_succ_cons, h1]
          · exact absurd h1 (by simp)
        · unfold sliceOf at h2 ⊢
          simp only [List.length_cons] at h2 ⊢
          split at h2
          · rw [if_pos (by omega)]
            simp only [Except.ok.injEq, List.take_length] at h2
            simp only [List.take_succ_cons, List.drop_succ_cons, Except.ok.injEq]
            rw [← h2]
            simp
          · exact absurd h2 (by simp)
        · rw [splitComma, if_neg hc, h3]

theorem contains_single (a b : Bytes) : [a].contains b = (a == b) := by
  rw [List.contains_cons, List.contains_nil, Bool.or_false]
  exact Bool.beq_comm

/-- the options loop computes membership of `omitempty` among the comma-separated options -/
theorem tagOptionsLoop_eq (fuel : Nat) (tag : Bytes) (h : tag.length < fuel) :
    tagOptionsLoop fuel tag = .ok ((splitComma tag).contains omitemptyLit) := by
  induction fuel generalizing tag with
  | zero => omega
  | succ fuel ih =>
    rw [tagOptionsLoop]
    cases tag with
    | nil => simp [splitComma, omitemptyLit]
    | cons c r =>
      simp only [List.isEmpty_cons, Bool.false_eq_true, if_false]
      cases hi : indexComma (c :: r) with
      | none =>
        simp only []
        rw [splitComma_no_comma _ hi, contains_single]
      | some i =>
        simp only []
        obtain ⟨name, rest, h1, h2, h3, h4⟩ := split_at_comma _ i hi
        rw [h1, h3]
        simp only [bind, Except.bind]
        by_cases hn : name == omitemptyLit
        · simp only [hn, if_true]
          have : (omitemptyLit == name) = true := by rw [Bool.beq_comm]; exact hn
          rw [List.contains_cons, this, Bool.true_or]
        · simp only [hn, Bool.false_eq_true, if_false]
          rw [h2]
          simp only []
          rw [ih rest (by omega)]
          have : (omitemptyLit == name) = false := by
            rw [Bool.beq_comm]; simpa using hn
          rw [List.contains_cons (a := name), this, Bool.false_or]

/-- **parseTagValue never faults and agrees with the specification**: name = text before the
first comma, omitempty = `"omitempty"` is one of the comma-separated options after it. -/
theorem parseTagValue_eq (tag : Bytes) :
    parseTagValue tag = .ok ((specTag tag).1, (specTag tag).2.contains omitemptyLit) := by
  unfold parseTagValue specTag
  cases hi : indexComma tag with
  | none => simp only []; rw [splitComma_no_comma tag hi]; simp
  | some i =>
    simp only []
    obtain ⟨name, rest, h1, h2, h3, h4⟩ := split_at_comma tag i hi
    rw [h1, h2, h3]
    simp only [bind, Except.bind]
    rw [tagOptionsLoop_eq _ rest (by omega)]

theorem parseTagValue_no_fault (tag : Bytes) : ∀ f, parseTagValue tag ≠ .error f := by
  intro f; rw [parseTagValue_eq]; intro h; cases h

/-- the struct loop keeps a field exactly when the specification does, under the same name -/
theorem fieldDecision_eq (f : Field) (v : GoVal) (he : f.exported = true) (hk : KindOK v = true) :
    fieldDecision f v = .ok (fieldName false f v) := by
  unfold fieldDecision fieldName
  simp only [he, Bool.not_true, Bool.false_eq_true, if_false]
  by_cases h1 : f.tag.isEmpty
  · simp [h1]
  · simp only [h1, Bool.false_eq_true, if_false]
    by_cases h2 : (f.tag == [0x2D]) = true
    · simp [h2]
    · simp only [h2, Bool.false_eq_true, if_false]
      rw [parseTagValue_eq, isEmptyValue_eq v hk]
      simp only [bind, Except.bind]
      split <;> rfl

end ScriggoV.ShowValue
