import ScriggoV.Model.Builtins
import ScriggoV.Lemmas.Runes
/-! Lemmas for C25, `Abbreviate` and `Abs`: the stdlib helpers' characterisations, the `range`
loop's invariant, and the analysis of the tail (`LastIndexAny`, `TrimRight`, dropping a final
`.`/`,`, appending `...`). -/
namespace ScriggoV.Builtins
open ScriggoV.Gen.BuiltinTables ScriggoV.Runes

/-! ### wrap-around -/

theorem wrap64_id (x : Int) (h : InRange x) : wrap64 x = x := by
  unfold InRange minInt64 maxInt64 at h
  unfold wrap64 Int.bmod
  simp only []
  split <;> omega

/-! ### the cutset is ASCII (fact about the regenerated constant) -/

def spaceAsciiOK (c : UInt8) : Bool := !isSpace c || decide (c.toNat < 0x80)

theorem space_ascii_fact : allBytes spaceAsciiOK = true := by decide +kernel

theorem isSpace_ascii (c : UInt8) (h : isSpace c = true) : IsAscii c := by
  have := allBytes_spec space_ascii_fact c
  show c.toNat < 0x80
  simpa [spaceAsciiOK, h] using this

theorem asciiHead_of_all_space (T : Bytes) (h : T.all isSpace = true) : AsciiHead T := by
  cases T with
  | nil => left; rfl
  | cons x T' =>
    right
    simp only [List.all_cons, Bool.and_eq_true] at h
    exact ⟨x, T', rfl, isSpace_ascii x h.1⟩

/-! ### strings.TrimRight -/

theorem trimRight_decomp (s : Bytes) :
    ∃ T, s = trimRight s ++ T ∧ T.all isSpace = true := by
  refine ⟨(s.reverse.takeWhile isSpace).reverse, ?_, ?_⟩
  · unfold trimRight
    rw [← List.reverse_append, List.takeWhile_append_dropWhile, List.reverse_reverse]
  · rw [List.all_reverse]; exact List.all_takeWhile

theorem runeCount_trimRight_le (s : Bytes) : runeCount (trimRight s) ≤ runeCount s := by
  obtain ⟨T, hs, hT⟩ := trimRight_decomp s
  have := runeCount_append (trimRight s) T (asciiHead_of_all_space T hT)
  rw [← hs] at this
  omega

theorem trimRight_length_le (s : Bytes) : (trimRight s).length ≤ s.length := by
  obtain ⟨T, hs, _⟩ := trimRight_decomp s
  have := congrArg List.length hs
  simp only [List.length_append] at this
  omega

/-! ### strings.LastIndexAny -/

theorem lastIdxFrom_spec (cs : Bytes) : ∀ (i : Nat) (acc : Int),
    lastIdxFrom cs i acc = acc ∨
    ∃ A x B, cs = A ++ x :: B ∧ isSpace x = true ∧ lastIdxFrom cs i acc = ((i + A.length : Nat) : Int) := by
  induction cs with
  | nil => intro i acc; left; rfl
  | cons c cs ih =>
    intro i acc
    simp only [lastIdxFrom]
    rcases ih (i + 1) (if isSpace c = true then (i : Int) else acc) with h | ⟨A, x, B, hcs, hx, hr⟩
    · rw [h]
      cases hc : isSpace c
      · left; simp
      · right
        refine ⟨[], c, cs, rfl, hc, ?_⟩
        simp
    · right
      refine ⟨c :: A, x, B, by rw [hcs]; rfl, hx, ?_⟩
      rw [hr]
      simp only [List.length_cons]
      congr 1
      omega

theorem lastIndexAny_spec (s : Bytes) :
    lastIndexAny s = -1 ∨
    ∃ A x B, s = A ++ x :: B ∧ isSpace x = true ∧ lastIndexAny s = (A.length : Int) := by
  unfold lastIndexAny
  rcases lastIdxFrom_spec s 0 (-1) with h | ⟨A, x, B, hs, hx, hr⟩
  · left; exact h
  · right; exact ⟨A, x, B, hs, hx, by rw [hr]; simp⟩

/-! ### the `range` loop -/

theorem abbrLoop_spec (nm2 : Int) (rs : List Bytes) : ∀ (i : Nat) (p : Int) (n2 : Nat),
    abbrLoop nm2 rs i p n2 =
      (p + rs.length,
       if p ≤ nm2 ∧ nm2 < p + rs.length then i + ((rs.take (nm2 - p).toNat).flatten).length else n2) := by
  induction rs with
  | nil =>
    intro i p n2
    simp only [abbrLoop, List.length_nil, Int.natCast_zero, Int.add_zero]
    rw [if_neg (by omega)]
  | cons r rs ih =>
    intro i p n2
    simp only [abbrLoop, List.length_cons]
    rw [ih]
    congr 1
    · push_cast; omega
    · by_cases hp : p = nm2
      · subst hp
        have c1 : ¬ (p + 1 ≤ p ∧ p < p + 1 + (rs.length : Int)) := by omega
        have c2 : p ≤ p ∧ p < p + ((rs.length + 1 : Nat) : Int) := by omega
        rw [if_neg c1, if_pos c2]
        simp
      · simp only [hp, if_false]
        by_cases hin : p + 1 ≤ nm2 ∧ nm2 < p + 1 + (rs.length : Int)
        · have c2 : p ≤ nm2 ∧ nm2 < p + ((rs.length + 1 : Nat) : Int) := by omega
          rw [if_pos hin, if_pos c2]
          have e : (nm2 - p).toNat = (nm2 - (p + 1)).toNat + 1 := by omega
          rw [e, List.take_succ_cons, List.flatten_cons, List.length_append]
          omega
        · have c2 : ¬ (p ≤ nm2 ∧ nm2 < p + ((rs.length + 1 : Nat) : Int)) := by omega
          rw [if_neg hin, if_neg c2]

/-! ### dropping a final `.`/`,` and appending `...` -/

theorem dots_asciiHead : AsciiHead dots := by
  right; exact ⟨46, [46, 46], rfl, by unfold IsAscii; decide⟩

theorem runeCount_dots : runeCount dots = 3 := by decide

theorem abbrDot_spec (t : Bytes) :
    ∃ t', abbrDot t = .ok (t' ++ dots) ∧ runeCount t' ≤ runeCount t := by
  rcases List.eq_nil_or_concat t with rfl | ⟨init, c, rfl⟩
  · exact ⟨[], rfl, Nat.le_refl _⟩
  · rw [List.concat_eq_append]
    unfold abbrDot
    have hl : ((init ++ [c]).length : Int) - 1 = (init.length : Int) := by simp
    simp only [hl]
    rw [if_pos (by omega), getAtI_nat]
    have hg : getAt (init ++ [c]) init.length = .ok c := by unfold getAt; simp
    rw [hg]
    dsimp only
    by_cases hc : (c == 46 || c == 44) = true
    · rw [if_pos hc]
      have hs : sliceOfI (init ++ [c]) 0 (init.length : Int) = .ok init := by
        unfold sliceOfI
        rw [if_pos (by simp; omega)]
        simp
      rw [hs]
      refine ⟨init, rfl, ?_⟩
      have hasc : IsAscii c := by
        rcases Bool.or_eq_true _ _ |>.mp hc with h | h
        · have : c = 46 := by simpa using h
          subst this; unfold IsAscii; decide
        · have : c = 44 := by simpa using h
          subst this; unfold IsAscii; decide
      rw [runeCount_append init [c] (Or.inr ⟨c, [], rfl, hasc⟩)]
      omega
    · rw [if_neg hc]
      exact ⟨init ++ [c], rfl, Nat.le_refl _⟩
where
  getAtI_nat (s : Bytes) (i : Nat) : getAtI s (i : Int) = getAt s i := by
    unfold getAtI
    have : ¬ ((i : Int) < 0) := by omega
    simp [this]

/-! ### prefixes of the rune list -/

theorem flatten_take_length_le {α : Type} (L : List (List α)) (k : Nat) :
    ((L.take k).flatten).length ≤ L.flatten.length := by
  have h : L.flatten = (L.take k).flatten ++ (L.drop k).flatten := by
    rw [← List.flatten_append, List.take_append_drop]
  rw [h, List.length_append]; omega

theorem take_flatten_take {α : Type} (L : List (List α)) (k : Nat) :
    L.flatten.take ((L.take k).flatten).length = (L.take k).flatten := by
  have h : L.flatten = (L.take k).flatten ++ (L.drop k).flatten := by
    rw [← List.flatten_append, List.take_append_drop]
  conv => lhs; arg 2; rw [h]
  simp

/-- the tail of `Abbreviate` when `n2 = |pre|`: no fault; the result is `t ++ "..."` where `t` is
empty or has at most as many runes as the part of `pre` before one of its space bytes -/
theorem abbrTail_core (pre rest : Bytes) :
    ∃ t, abbrTail (pre ++ rest) pre.length = .ok (t ++ dots) ∧
      (t = [] ∨ ∃ A x B, pre = A ++ x :: B ∧ isSpace x = true ∧ runeCount t ≤ runeCount A) := by
  unfold abbrTail
  have hpre : sliceOf (pre ++ rest) 0 pre.length = .ok pre := by
    unfold sliceOf
    rw [if_pos ⟨Nat.zero_le _, by simp⟩, List.drop_zero, List.take_left']
    rfl
  rw [hpre]
  dsimp only
  have hnil : ∃ t, abbrDot [] = .ok (t ++ dots) ∧
      (t = [] ∨ ∃ A x B, pre = A ++ x :: B ∧ isSpace x = true ∧ runeCount t ≤ runeCount A) := by
    obtain ⟨t', ht, hc⟩ := abbrDot_spec []
    have h0 : runeCount ([] : Bytes) = 0 := rfl
    have : t' = [] := by
      cases t' with
      | nil => rfl
      | cons a as =>
        have hp : 1 ≤ runeCount (a :: as) := by
          unfold runeCount
          rw [runes_cons _ (by simp)]
          simp
        omega
    exact ⟨t', ht, Or.inl this⟩
  rcases lastIndexAny_spec pre with h | ⟨A, x, B, hAB, hx, hp⟩
  · rw [h, if_neg (by omega)]
    exact hnil
  · rw [hp]
    by_cases hpos : ((A.length : Nat) : Int) > 0
    · rw [if_pos hpos]
      have hsl : sliceOfI (pre ++ rest) 0 (A.length : Int) = .ok A := by
        unfold sliceOfI
        have hle : A.length ≤ (pre ++ rest).length := by
          rw [hAB]; simp only [List.length_append, List.length_cons]; omega
        rw [if_pos ⟨by omega, by omega, by omega⟩]
        simp only [Int.toNat_natCast, Int.toNat_zero, List.drop_zero]
        rw [hAB, List.append_assoc, List.take_left']
        rfl
      rw [hsl]
      dsimp only
      obtain ⟨t', ht, hc⟩ := abbrDot_spec (trimRight A)
      have h1 := runeCount_trimRight_le A
      exact ⟨t', ht, Or.inr ⟨A, x, B, hAB, hx, by omega⟩⟩
    · rw [if_neg hpos]
      exact hnil

/-- a space byte inside the first `k` runes of `s` has fewer than `k` runes before it -/
theorem runeCount_before_space (s : Bytes) (k : Nat) (A : Bytes) (x : UInt8) (B : Bytes)
    (hAB : ((runes s).take k).flatten = A ++ x :: B) (hx : isSpace x = true) : runeCount A < k := by
  apply Nat.lt_of_not_le
  intro hge
  have h : s = ((runes s).take k).flatten ++ ((runes s).drop k).flatten := by
    rw [← List.flatten_append, List.take_append_drop, runes_flatten]
  rw [hAB] at h
  have hs : s = A ++ x :: (B ++ ((runes s).drop k).flatten) := h.trans (by simp)
  have hrs : runes s = runes A ++ runes (x :: (B ++ ((runes s).drop k).flatten)) := by
    have := runes_append A (x :: (B ++ ((runes s).drop k).flatten))
      (Or.inr ⟨x, _, rfl, isSpace_ascii x hx⟩)
    rw [← hs] at this
    exact this
  have htk : (runes s).take k = (runes A).take k := by
    rw [hrs]
    exact List.take_append_of_le_length hge
  have hle := flatten_take_length_le (runes A) k
  rw [← htk, hAB, runes_flatten] at hle
  simp only [List.length_append, List.length_cons] at hle
  omega

theorem abbrTail_at (s : Bytes) (k : Nat) :
    ∃ t, abbrTail s (((runes s).take k).flatten).length = .ok (t ++ dots) ∧
      (t = [] ∨ ∃ A x B, ((runes s).take k).flatten = A ++ x :: B ∧ isSpace x = true ∧
        runeCount t ≤ runeCount A) := by
  have h : s = ((runes s).take k).flatten ++ ((runes s).drop k).flatten := by
    rw [← List.flatten_append, List.take_append_drop, runes_flatten]
  have := abbrTail_core ((runes s).take k).flatten ((runes s).drop k).flatten
  rw [← h] at this
  exact this

/-- the three outcomes of `Abbreviate`, by the number of runes of the right-trimmed string -/
theorem abbreviate_cases (s0 : Bytes) (n : Int) (hn : InRange n) :
    (((runeCount (trimRight s0) : Nat) : Int) ≤ n → abbreviate s0 n = .ok (trimRight s0)) ∧
    (n < ((runeCount (trimRight s0) : Nat) : Int) → n < 3 → abbreviate s0 n = .ok []) ∧
    (n < ((runeCount (trimRight s0) : Nat) : Int) → 3 ≤ n →
      ∃ t, abbreviate s0 n = .ok (t ++ dots) ∧ ((runeCount t : Nat) : Int) + 3 ≤ n) := by
  have hlen := runeCount_le_length (trimRight s0)
  have hcount : (runes (trimRight s0)).length = runeCount (trimRight s0) := rfl
  unfold abbreviate
  simp only [abbrLoop_spec, Int.zero_add, Nat.zero_add, hcount]
  refine ⟨?_, ?_, ?_⟩
  · intro h
    by_cases h1 : ((trimRight s0).length : Int) ≤ n
    · rw [if_pos h1]
    · rw [if_neg h1, if_pos h]
  · intro h h3
    rw [if_neg (by omega), if_neg (by omega), if_pos h3]
  · intro h h3
    rw [if_neg (by omega), if_neg (by omega), if_neg (by omega)]
    have hw : wrap64 (n - 2) = n - 2 := by
      apply wrap64_id
      unfold InRange minInt64 maxInt64 at *
      omega
    rw [hw, if_pos ⟨by omega, by omega⟩, Int.sub_zero]
    obtain ⟨t, ht, hcase⟩ := abbrTail_at (trimRight s0) (n - 2).toNat
    refine ⟨t, ht, ?_⟩
    rcases hcase with rfl | ⟨A, x, B, hAB, hx, hle⟩
    · have : runeCount ([] : Bytes) = 0 := rfl
      omega
    · have := runeCount_before_space (trimRight s0) (n - 2).toNat A x B hAB hx
      omega

end ScriggoV.Builtins
