import ScriggoV.Model.BuiltinsText
import ScriggoV.Lemmas.BuiltinsUtf8
/-! Lemmas for C25, second part: widths of `Utf8.decodeRune`, the loop invariants of `Capitalize`,
`ToKebab` and `Reverse`. -/
namespace ScriggoV.Builtins
open ScriggoV.Gen.BuiltinFuncs ScriggoV.Utf8 ScriggoV.GoExpr

theorem decodeRune_width (c : UInt8) (cs : Bytes) :
    1 ≤ (decodeRune (c :: cs)).2 ∧ (decodeRune (c :: cs)).2 ≤ (c :: cs).length := by
  simp only [decodeRune]
  repeat' split
  all_goals simp only [List.length_cons, List.length_nil]
  all_goals omega

/-! ### slices of `pre ++ rest` -/

theorem sliceOfI_suffix (pre rest : Bytes) (k : Nat) (hk : k ≤ rest.length) :
    sliceOfI (pre ++ rest) ((pre.length : Int) + (k : Int)) ((pre ++ rest).length : Int) = .ok (rest.drop k) := by
  unfold sliceOfI
  rw [if_pos ⟨by omega, by simp only [List.length_append]; omega, by omega⟩]
  have e1 : ((pre ++ rest).length : Int).toNat = (pre ++ rest).length := by omega
  have e2 : ((pre.length : Int) + (k : Int)).toNat = pre.length + k := by omega
  rw [e1, e2, List.take_length, ← List.drop_drop, List.drop_left']
  rfl

theorem sliceOfI_prefix (pre rest : Bytes) :
    sliceOfI (pre ++ rest) 0 (pre.length : Int) = .ok pre := by
  unfold sliceOfI
  rw [if_pos ⟨by omega, by omega, by simp only [List.length_append]; omega⟩]
  simp only [Int.toNat_natCast, Int.toNat_zero, List.drop_zero]
  rw [List.take_left']
  rfl

/-! ### Capitalize -/

/-- `sep` is a run of whole separator runes when `sep ++ rest` is decoded from its start -/
inductive AllSep (U : UnicodeFns) : Bytes → Bytes → Prop
  | nil (rest : Bytes) : AllSep U [] rest
  | cons (chunk sep rest : Bytes) (h1 : chunk ≠ [])
      (h2 : (decodeRune (chunk ++ sep ++ rest)).2 = chunk.length)
      (h3 : isSeparator U (decodeRune (chunk ++ sep ++ rest)).1 = true)
      (h4 : AllSep U sep rest) : AllSep U (chunk ++ sep) rest

/-- what `Capitalize` may return for `pre ++ rest` when the runes of `pre` have been skipped:
the string itself, or the string with the first non-separator rune `mid` of `rest` (not upper
case) replaced by the encoding of its upper case, everything else byte for byte -/
def CapResult (U : UnicodeFns) (pre rest out : Bytes) : Prop :=
  out = pre ++ rest ∨
  ∃ sep mid post, rest = sep ++ mid ++ post ∧ mid ≠ [] ∧ AllSep U sep (mid ++ post) ∧
    (decodeRune (mid ++ post)).2 = mid.length ∧
    isSeparator U (decodeRune (mid ++ post)).1 = false ∧ U.isUpper (decodeRune (mid ++ post)).1 = false ∧
    out = pre ++ sep ++ encodeRune (U.toUpper (decodeRune (mid ++ post)).1) ++ post

theorem capRebuild_spec (U : UnicodeFns) (pre : Bytes) (c : UInt8) (cs : Bytes) (r : Nat) :
    capRebuild U (pre ++ c :: cs) (pre.length : Int) r
      = .ok (pre ++ encodeRune (U.toUpper r) ++ (c :: cs).drop (decodeRune (c :: cs)).2) := by
  obtain ⟨_, hle⟩ := decodeRune_width c cs
  unfold capRebuild
  simp only [capTailLo, capTailHi, capPreLo, capPreHi, capPostLo, capPostHi]
  have h1 := sliceOfI_suffix pre (c :: cs) 0 (by omega)
  simp only [Int.natCast_zero, Int.add_zero, List.drop_zero] at h1
  rw [h1]
  dsimp only
  rw [sliceOfI_prefix, sliceOfI_suffix pre (c :: cs) _ hle]

theorem capLoop_spec (U : UnicodeFns) : ∀ (fuel : Nat) (rest pre : Bytes), rest.length ≤ fuel →
    ∃ out, capLoop U (pre ++ rest) fuel rest pre.length = .ok out ∧ CapResult U pre rest out := by
  intro fuel
  induction fuel with
  | zero =>
    intro rest pre h
    have : rest = [] := List.eq_nil_of_length_eq_zero (by omega)
    subst this
    exact ⟨pre ++ [], by simp [capLoop], Or.inl rfl⟩
  | succ fuel ih =>
    intro rest pre h
    cases rest with
    | nil => exact ⟨pre ++ [], by simp [capLoop], Or.inl rfl⟩
    | cons c cs =>
      obtain ⟨hpos, hle⟩ := decodeRune_width c cs
      simp only [capLoop]
      by_cases hsep : isSeparator U (decodeRune (c :: cs)).1 = true
      · rw [if_pos hsep]
        -- skip the rune
        have hsplit : c :: cs = (c :: cs).take (decodeRune (c :: cs)).2 ++ (c :: cs).drop (decodeRune (c :: cs)).2 :=
          (List.take_append_drop _ _).symm
        have hlen : ((c :: cs).drop (decodeRune (c :: cs)).2).length ≤ fuel := by
          simp only [List.length_drop, List.length_cons] at h ⊢; omega
        have htl : ((c :: cs).take (decodeRune (c :: cs)).2).length = (decodeRune (c :: cs)).2 := by
          rw [List.length_take]; omega
        obtain ⟨out, ho, hres⟩ := ih ((c :: cs).drop (decodeRune (c :: cs)).2)
          (pre ++ (c :: cs).take (decodeRune (c :: cs)).2) hlen
        rw [List.append_assoc, ← hsplit, List.length_append, htl] at ho
        refine ⟨out, ho, ?_⟩
        rcases hres with h0 | ⟨sep, mid, post, hr, hm, hall, hw, hs, hu, hout⟩
        · left; rw [h0, List.append_assoc, ← hsplit]
        · right
          refine ⟨(c :: cs).take (decodeRune (c :: cs)).2 ++ sep, mid, post, ?_, hm, ?_, hw, hs, hu, ?_⟩
          · conv => lhs; rw [hsplit, hr]
            simp only [List.append_assoc]
          · have hne : (c :: cs).take (decodeRune (c :: cs)).2 ≠ [] := by
              intro he; rw [he] at htl; simp at htl; omega
            have hwhole : (c :: cs).take (decodeRune (c :: cs)).2 ++ sep ++ (mid ++ post) = c :: cs := by
              conv => rhs; rw [hsplit, hr]
              simp only [List.append_assoc]
            apply AllSep.cons _ _ _ hne
            · rw [hwhole, htl]
            · rw [hwhole]; exact hsep
            · exact hall
          · rw [hout]; simp only [List.append_assoc]
      · rw [if_neg hsep]
        have hsep' : isSeparator U (decodeRune (c :: cs)).1 = false := by simpa using hsep
        by_cases hup : U.isUpper (decodeRune (c :: cs)).1 = true
        · rw [if_pos hup]
          exact ⟨_, rfl, Or.inl rfl⟩
        · rw [if_neg hup, capRebuild_spec]
          refine ⟨_, rfl, Or.inr ⟨[], (c :: cs).take (decodeRune (c :: cs)).2,
            (c :: cs).drop (decodeRune (c :: cs)).2, ?_, ?_, AllSep.nil _, ?_, ?_, ?_, ?_⟩⟩
          · simp
          · intro he
            have := congrArg List.length he
            rw [List.length_take] at this
            simp only [List.length_cons, List.length_nil] at this hle
            omega
          · rw [List.take_append_drop, List.length_take]; omega
          · rw [List.take_append_drop]; exact hsep'
          · rw [List.take_append_drop]; simpa using hup
          · rw [List.take_append_drop]; simp

/-! ### ToKebab -/

/-- no two adjacent dashes -/
def noDoubleDash : List Nat → Bool
  | x :: y :: t => !(x == 45 && y == 45) && noDoubleDash (y :: t)
  | _ => true

theorem noDoubleDash_snoc (out : List Nat) (x : Nat) :
    noDoubleDash (out ++ [x]) = (noDoubleDash out && !(out.getLast? == some 45 && x == 45)) := by
  induction out with
  | nil => simp [noDoubleDash]
  | cons a t ih =>
    cases t with
    | nil => simp [noDoubleDash]
    | cons b t' =>
      simp only [List.cons_append, noDoubleDash] at ih ⊢
      rw [ih]
      simp [List.getLast?_cons_cons, Bool.and_assoc]

theorem getAtIR_lt (runes : List Nat) (i : Nat) (h : i < runes.length) :
    getAtIR runes (i : Int) = .ok runes[i] := by
  unfold getAtIR
  rw [if_neg (by omega), Int.toNat_natCast, List.getElem?_eq_getElem h]

/-- where the produced runes come from -/
def KebabFrom (U : UnicodeFns) (runes : List Nat) (x : Nat) : Prop :=
  x = 45 ∨ (x ∈ runes ∧ kebabCase1 U x = true) ∨ ∃ r ∈ runes, kebabCase2 U r = true ∧ x = U.toLower r

/-- loop invariant on the output written so far -/
def KebabInv (U : UnicodeFns) (runes : List Nat) (noDash : Bool) (out : List Nat) : Prop :=
  out.head? ≠ some 45 ∧ noDoubleDash out = true ∧
  (noDash = true → out ≠ [] ∧ out.getLast? ≠ some 45) ∧ (∀ x ∈ out, KebabFrom U runes x)

/-- what is assumed of package unicode: neither a lower-case letter / digit nor the lower case
of an upper-case letter is the dash (checked over all runes by the harness) -/
def KebabUnicodeOK (U : UnicodeFns) : Prop :=
  (∀ r, kebabCase1 U r = true → r ≠ 45) ∧ (∀ r, kebabCase2 U r = true → U.toLower r ≠ 45)

theorem kebabUpperDash_ok (U : UnicodeFns) (runes : List Nat) (noDash : Bool) (i : Nat)
    (hi : i < runes.length) (hnd : noDash = true → 1 ≤ i) :
    ∃ d, kebabUpperDash U runes noDash (i : Int) (runes.length : Int) = .ok d ∧ (d = true → noDash = true) := by
  unfold kebabUpperDash
  cases noDash with
  | false => exact ⟨false, by simp [gAnd, gBool], by simp⟩
  | true =>
    have h1 : 1 ≤ i := hnd rfl
    have e1 : gIdxR runes (gSub (gInt (i : Int)) (gInt 1)) = .ok runes[i - 1] := by
      have : ((i : Int) - 1) = ((i - 1 : Nat) : Int) := by omega
      simp only [gIdxR, gSub, gBin, gInt, this]
      exact getAtIR_lt runes (i - 1) (by omega)
    simp only [gAnd, gBool, e1, gU, gOr]
    cases hl : U.isLower runes[i - 1] with
    | true => exact ⟨true, rfl, by simp⟩
    | false =>
      by_cases hn : i + 1 < runes.length
      · have e2 : gIdxR runes (gAdd (gInt (i : Int)) (gInt 1)) = .ok runes[i + 1] := by
          have : ((i : Int) + 1) = ((i + 1 : Nat) : Int) := by omega
          simp only [gIdxR, gAdd, gBin, gInt, this]
          exact getAtIR_lt runes (i + 1) hn
        have e3 : gLtI (gAdd (gInt (i : Int)) (gInt 1)) (gInt (runes.length : Int)) = .ok true := by
          simp only [gLtI, gAdd, gBin, gInt]; congr 1; simp; omega
        simp only [e2, e3]
        exact ⟨_, rfl, by simp⟩
      · have e3 : gLtI (gAdd (gInt (i : Int)) (gInt 1)) (gInt (runes.length : Int)) = .ok false := by
          simp only [gLtI, gAdd, gBin, gInt]; congr 1; simp; omega
        simp only [e3]
        exact ⟨false, rfl, by simp⟩

theorem kebabDefaultDash_ok (U : UnicodeFns) (runes : List Nat) (noDash : Bool) (i n : Int) :
    ∃ d, kebabDefaultDash U runes noDash i n = .ok d ∧ (d = true → noDash = true) := by
  unfold kebabDefaultDash
  cases noDash with
  | false => exact ⟨false, by simp [gAnd, gBool], by simp⟩
  | true => exact ⟨decide (i + 1 < n), by simp [gAnd, gBool, gLtI, gAdd, gBin, gInt], by simp⟩

theorem kebabInv_push (U : UnicodeFns) (runes : List Nat) (nd : Bool) (out : List Nat) (x : Nat)
    (h : KebabInv U runes nd out) (hx : x ≠ 45) (hf : KebabFrom U runes x) :
    KebabInv U runes true (out ++ [x]) := by
  obtain ⟨hh, hd, _, hfrom⟩ := h
  refine ⟨?_, ?_, fun _ => ⟨by simp, by simp [hx]⟩, ?_⟩
  · cases out with
    | nil => simp [hx]
    | cons a t => simpa using hh
  · rw [noDoubleDash_snoc, hd]; simp [hx]
  · intro y hy
    rcases List.mem_append.mp hy with h | h
    · exact hfrom y h
    · simp at h; subst h; exact hf

theorem kebabInv_dash (U : UnicodeFns) (runes : List Nat) (out : List Nat)
    (h : KebabInv U runes true out) : KebabInv U runes false (out ++ [45]) := by
  obtain ⟨hh, hd, hl, hfrom⟩ := h
  obtain ⟨hne, hlast⟩ := hl rfl
  refine ⟨?_, ?_, (fun h => by cases h), ?_⟩
  · cases out with
    | nil => exact absurd rfl hne
    | cons a t => simpa using hh
  · rw [noDoubleDash_snoc, hd]
    cases hg : out.getLast? with
    | none => simp
    | some v =>
      have : v ≠ 45 := by intro e; rw [hg, e] at hlast; exact hlast rfl
      simp [this]
  · intro y hy
    rcases List.mem_append.mp hy with h | h
    · exact hfrom y h
    · simp at h; subst h; exact Or.inl rfl

theorem kebabLoop_spec (U : UnicodeFns) (hU : KebabUnicodeOK U) (runes : List Nat) :
    ∀ (m k : Nat) (noDash : Bool) (out : List Nat), k + m = runes.length → (noDash = true → 1 ≤ k) →
    KebabInv U runes noDash out →
    ∃ res nd, kebabLoop U runes (runes.length : Int) (List.range' k m) noDash out = .ok res ∧
      KebabInv U runes nd res := by
  intro m
  induction m with
  | zero => intro k noDash out _ _ hinv; exact ⟨out, noDash, rfl, hinv⟩
  | succ m ih =>
    intro k noDash out hk hnd hinv
    have hlt : k < runes.length := by omega
    have hmem : runes[k] ∈ runes := List.getElem_mem hlt
    simp only [List.range'_succ, kebabLoop, getAtIR_lt runes k hlt]
    by_cases h1 : kebabCase1 U runes[k] = true
    · rw [if_pos h1]
      exact ih (k + 1) true _ (by omega) (fun _ => by omega)
        (kebabInv_push U runes noDash out _ hinv (hU.1 _ h1) (Or.inr (Or.inl ⟨hmem, h1⟩)))
    · rw [if_neg h1]
      by_cases h2 : kebabCase2 U runes[k] = true
      · rw [if_pos h2]
        obtain ⟨d, hd, hdn⟩ := kebabUpperDash_ok U runes noDash k hlt hnd
        rw [hd]
        dsimp only
        have hfrom : KebabFrom U runes (U.toLower runes[k]) := Or.inr (Or.inr ⟨_, hmem, h2, rfl⟩)
        cases d with
        | false =>
          exact ih (k + 1) true _ (by omega) (fun _ => by omega)
            (kebabInv_push U runes noDash out _ hinv (hU.2 _ h2) hfrom)
        | true =>
          have hnd' : noDash = true := hdn rfl
          subst hnd'
          exact ih (k + 1) true _ (by omega) (fun _ => by omega)
            (kebabInv_push U runes false _ _ (kebabInv_dash U runes out hinv) (hU.2 _ h2) hfrom)
      · rw [if_neg h2]
        obtain ⟨d, hd, hdn⟩ := kebabDefaultDash_ok U runes noDash (k : Int) (runes.length : Int)
        rw [hd]
        cases d with
        | false => exact ih (k + 1) noDash out (by omega) (fun _ => by omega) hinv
        | true =>
          have hnd' : noDash = true := hdn rfl
          subst hnd'
          exact ih (k + 1) false _ (by omega) (fun h => by cases h) (kebabInv_dash U runes out hinv)

/-- the loop never faults, whatever package unicode answers -/
theorem kebabLoop_no_fault (U : UnicodeFns) (runes : List Nat) :
    ∀ (m k : Nat) (noDash : Bool) (out : List Nat), k + m = runes.length → (noDash = true → 1 ≤ k) →
    ∃ res, kebabLoop U runes (runes.length : Int) (List.range' k m) noDash out = .ok res := by
  intro m
  induction m with
  | zero => intro k noDash out _ _; exact ⟨out, rfl⟩
  | succ m ih =>
    intro k noDash out hk hnd
    have hlt : k < runes.length := by omega
    simp only [List.range'_succ, kebabLoop, getAtIR_lt runes k hlt]
    by_cases h1 : kebabCase1 U runes[k] = true
    · rw [if_pos h1]; exact ih (k + 1) true _ (by omega) (fun _ => by omega)
    · rw [if_neg h1]
      by_cases h2 : kebabCase2 U runes[k] = true
      · rw [if_pos h2]
        obtain ⟨d, hd, _⟩ := kebabUpperDash_ok U runes noDash k hlt hnd
        rw [hd]
        exact ih (k + 1) true _ (by omega) (fun _ => by omega)
      · rw [if_neg h2]
        obtain ⟨d, hd, hdn⟩ := kebabDefaultDash_ok U runes noDash (k : Int) (runes.length : Int)
        rw [hd]
        cases d with
        | false => exact ih (k + 1) noDash out (by omega) (fun _ => by omega)
        | true => exact ih (k + 1) false _ (by omega) (fun h => by cases h)

theorem toKebabRunes_spec (U : UnicodeFns) (hU : KebabUnicodeOK U) (runes : List Nat) :
    ∃ res, toKebabRunes U runes = .ok res ∧ res.head? ≠ some 45 ∧ res.getLast? ≠ some 45 ∧
      noDoubleDash res = true ∧ ∀ x ∈ res, KebabFrom U runes x := by
  have hinit : KebabInv U runes false [] := ⟨by simp, rfl, (fun h => by cases h), by simp⟩
  obtain ⟨out, nd, ho, hh, hd, _, hfrom⟩ :=
    kebabLoop_spec U hU runes runes.length 0 false [] (by omega) (fun h => by cases h) hinit
  unfold toKebabRunes
  rw [List.range_eq_range', ho]
  dsimp only
  refine ⟨_, rfl, ?_⟩
  unfold trimSuffixDash
  rcases List.eq_nil_or_concat out with rfl | ⟨init, x, rfl⟩
  · simp [noDoubleDash]
  · rw [List.concat_eq_append] at *
    by_cases hx : x = 45
    · subst hx
      rw [noDoubleDash_snoc] at hd
      simp only [Bool.and_eq_true, Bool.not_eq_true', beq_self_eq_true, Bool.and_true] at hd
      have hl : init.getLast? ≠ some 45 := by
        intro e; rw [e] at hd; simp at hd
      simp only [List.getLast?_append, List.getLast?_singleton, Option.some_or, if_true,
        List.dropLast_concat]
      refine ⟨?_, hl, hd.1, fun y hy => hfrom y (List.mem_append_left _ hy)⟩
      cases init with
      | nil => simp
      | cons a t => simpa using hh
    · have hne : (init ++ [x]).getLast? ≠ some 45 := by simp [hx]
      rw [if_neg hne]
      exact ⟨hh, hne, hd, hfrom⟩

/-! ### Reverse -/

theorem swapAt_spec {α : Type} (A M B : List α) (x y : α) :
    swapAt (A ++ x :: (M ++ y :: B)) (A.length : Int) ((A.length + M.length + 1 : Nat) : Int)
      = .ok (A ++ y :: (M ++ x :: B)) := by
  unfold swapAt
  rw [if_neg (by omega)]
  simp only [Int.toNat_natCast]
  have h1 : (A ++ x :: (M ++ y :: B))[A.length]? = some x := by simp
  have h2 : (A ++ x :: (M ++ y :: B))[A.length + M.length + 1]? = some y := by
    rw [List.getElem?_append_right (by omega)]
    have : A.length + M.length + 1 - A.length = M.length + 1 := by omega
    rw [this, List.getElem?_cons_succ, List.getElem?_append_right (by omega)]
    simp
  rw [h1, h2]
  dsimp only
  congr 1
  rw [List.set_append_right _ _ (by omega)]
  simp only [Nat.sub_self, List.set_cons_zero]
  rw [List.set_append_right _ _ (by omega)]
  have : A.length + M.length + 1 - A.length = M.length + 1 := by omega
  rw [this, List.set_cons_succ, List.set_append_right _ _ (by omega)]
  simp

theorem revLoop_spec {α : Type} : ∀ (n : Nat) (M A B : List α) (fuel : Nat), M.length ≤ n → M.length / 2 + 1 ≤ fuel →
    revLoop ((A ++ M ++ B).length : Int) fuel (A ++ M ++ B) (A.length : Int) ((A.length + M.length : Nat) - 1 : Int)
      = .ok (A ++ M.reverse ++ B) := by
  intro n
  induction n using Nat.strongRecOn with
  | _ n ih =>
    intro M A B fuel hn hf
    obtain ⟨f, rfl⟩ : ∃ f, fuel = f + 1 := ⟨fuel - 1, by omega⟩
    simp only [revLoop, revCond, gLtI, gBin, gInt]
    match M, hn, hf with
    | [], _, _ =>
      have : decide ((A.length : Int) < ((A.length + ([] : List α).length : Nat) : Int) - 1) = false := by
        simp; omega
      rw [this]; simp
    | [x], _, _ =>
      have : decide ((A.length : Int) < ((A.length + [x].length : Nat) : Int) - 1) = false := by
        simp
      rw [this]; simp
    | x :: y :: t, hn, hf =>
      obtain ⟨M', z, hM⟩ : ∃ M' z, y :: t = M' ++ [z] := by
        rcases List.eq_nil_or_concat (y :: t) with h | ⟨L, b, h⟩
        · cases h
        · exact ⟨L, b, by rw [h, List.concat_eq_append]⟩
      have hlen : (y :: t).length = M'.length + 1 := by rw [hM]; simp
      have : decide ((A.length : Int) < ((A.length + (x :: y :: t).length : Nat) : Int) - 1) = true := by
        simp; omega
      rw [this]
      dsimp only
      have e1 : A ++ x :: y :: t ++ B = A ++ x :: (M' ++ z :: B) := by
        rw [hM]; simp
      have e2 : (((A.length + (x :: y :: t).length : Nat) : Int) - 1) = ((A.length + M'.length + 1 : Nat) : Int) := by
        simp only [List.length_cons] at hlen ⊢; omega
      rw [e1, e2, swapAt_spec]
      dsimp only
      simp only [revNextI, revNextJ]
      have e3 : A ++ z :: (M' ++ x :: B) = (A ++ [z]) ++ M' ++ (x :: B) := by simp
      have e4 : ((A.length : Int) + 1) = (((A ++ [z]).length : Nat) : Int) := by simp
      have e5 : (((A.length + M'.length + 1 : Nat) : Int) - 1) = ((((A ++ [z]).length + M'.length : Nat) : Int) - 1) := by
        simp; omega
      have e6 : ((A ++ x :: (M' ++ z :: B)).length : Int) = (((A ++ [z]) ++ M' ++ (x :: B)).length : Int) := by
        simp
      rw [e6, e3, e4, e5]
      have hlt : M'.length < n := by simp only [List.length_cons] at hn hlen; omega
      rw [ih M'.length hlt M' (A ++ [z]) (x :: B) f (Nat.le_refl _) (by simp only [List.length_cons] at hf hlen; omega)]
      rw [hM]
      simp

theorem goReverse_ok {α : Type} (xs : List α) : goReverse xs = .ok xs.reverse := by
  unfold goReverse
  by_cases h : (xs.length : Int) ≤ 1
  · rw [if_pos h]
    match xs, h with
    | [], _ => rfl
    | [x], _ => rfl
    | x :: y :: t, h => simp at h; omega
  · rw [if_neg h]
    have := revLoop_spec xs.length xs [] [] xs.length (Nat.le_refl _) (by omega)
    simp only [List.nil_append, List.append_nil, List.length_nil, Nat.zero_add] at this
    simp only [revInitI, revInitJ]
    have e0 : ((0 : Nat) : Int) = 0 := rfl
    rw [e0] at this
    exact this

/-! ### CapitalizeAll -/

/-- `CapitalizeAll` on the runes: each rune with the (original) rune before it -/
def capAllRunes (U : UnicodeFns) : Nat → List Nat → List Nat
  | _, [] => []
  | prev, r :: rs => capAllStep U prev r :: capAllRunes U r rs

theorem capAllLoop_eq (U : UnicodeFns) : ∀ (fuel : Nat) (s : Bytes) (prev : Nat),
    capAllLoop U fuel s prev = (capAllRunes U prev (runeValsAux fuel s)).flatMap encodeRune := by
  intro fuel
  induction fuel with
  | zero => intro s prev; cases s <;> simp [capAllLoop, runeValsAux, capAllRunes]
  | succ fuel ih =>
    intro s prev
    cases s with
    | nil => simp [capAllLoop, runeValsAux, capAllRunes]
    | cons c cs => simp only [capAllLoop, runeValsAux, capAllRunes, List.flatMap_cons, ih]

theorem capAllRunes_zipWith (U : UnicodeFns) : ∀ (rs : List Nat) (prev : Nat),
    capAllRunes U prev rs = List.zipWith (capAllStep U) (prev :: rs) rs := by
  intro rs
  induction rs with
  | nil => intro prev; rfl
  | cons r rs ih => intro prev; simp only [capAllRunes, List.zipWith_cons_cons, ih]

/-- what is assumed of `unicode.ToUpper` for idempotence (checked over all runes by the harness) -/
def UpperStable (U : UnicodeFns) : Prop :=
  (∀ r, U.toUpper (U.toUpper r) = U.toUpper r) ∧ (∀ r, isSeparator U (U.toUpper r) = isSeparator U r)

theorem capAllRunes_idem (U : UnicodeFns) (hU : UpperStable U) : ∀ (rs : List Nat) (p p' : Nat),
    isSeparator U p' = isSeparator U p →
    capAllRunes U p' (capAllRunes U p rs) = capAllRunes U p rs := by
  intro rs
  induction rs with
  | nil => intro p p' _; rfl
  | cons r rs ih =>
    intro p p' hp
    simp only [capAllRunes]
    congr 1
    · unfold capAllStep
      rw [hp]
      cases isSeparator U p <;> simp [hU.1]
    · apply ih
      unfold capAllStep
      cases isSeparator U p <;> simp [hU.2]

/-! ### `[]rune(s)`: unfolding independent of the fuel, and decoding of encoded runes -/

theorem runeValsAux_fuel : ∀ (f g : Nat) (s : Bytes), s.length ≤ f → s.length ≤ g →
    runeValsAux f s = runeValsAux g s := by
  intro f
  induction f with
  | zero =>
    intro g s hf _
    have : s = [] := List.eq_nil_of_length_eq_zero (by omega)
    subst this
    cases g <;> rfl
  | succ f ih =>
    intro g s hf hg
    cases s with
    | nil => cases g <;> rfl
    | cons c cs =>
      cases g with
      | zero => simp at hg
      | succ g =>
        simp only [runeValsAux]
        obtain ⟨hp, _⟩ := decodeRune_width c cs
        simp only [List.length_cons] at hf hg
        rw [ih g _ (by simp only [List.length_drop, List.length_cons]; omega)
          (by simp only [List.length_drop, List.length_cons]; omega)]

theorem runeVals_cons (c : UInt8) (cs : Bytes) :
    runeVals (c :: cs) = (decodeRune (c :: cs)).1 :: runeVals ((c :: cs).drop (decodeRune (c :: cs)).2) := by
  unfold runeVals
  simp only [List.length_cons, runeValsAux]
  obtain ⟨hp, _⟩ := decodeRune_width c cs
  congr 1
  apply runeValsAux_fuel
  · simp only [List.length_drop, List.length_cons]; omega
  · exact Nat.le_refl _

theorem encodeRune_ne_nil (r : Nat) : encodeRune r ≠ [] := by
  unfold encodeRune
  repeat' split
  all_goals simp

theorem runeVals_encode (r : Nat) (hv : ValidRune r) (t : Bytes) :
    runeVals (encodeRune r ++ t) = r :: runeVals t := by
  have hne := encodeRune_ne_nil r
  cases he : encodeRune r ++ t with
  | nil => simp at he; exact absurd he.1 hne
  | cons c cs =>
    rw [runeVals_cons, ← he, decode_encode r hv t]
    simp

theorem runeVals_flatMap_encode (R : List Nat) (hR : ∀ r ∈ R, ValidRune r) :
    runeVals (R.flatMap encodeRune) = R := by
  induction R with
  | nil => rfl
  | cons r R ih =>
    rw [List.flatMap_cons, runeVals_encode r (hR r (List.mem_cons_self)),
      ih (fun x hx => hR x (List.mem_cons_of_mem _ hx))]

theorem runeVals_valid (s : Bytes) : ∀ r ∈ runeVals s, ValidRune r := by
  generalize hn : s.length = n
  induction n using Nat.strongRecOn generalizing s with
  | _ n ih =>
    cases s with
    | nil => intro r hr; simp [runeVals, runeValsAux] at hr
    | cons c cs =>
      intro r hr
      rw [runeVals_cons, List.mem_cons] at hr
      obtain ⟨hp, _⟩ := decodeRune_width c cs
      rcases hr with rfl | hr
      · exact decodeRune_valid _
      · exact ih _ (by rw [← hn]; simp only [List.length_drop, List.length_cons]; omega) _ rfl r hr

theorem capitalizeAll_eq (U : UnicodeFns) (s : Bytes) :
    capitalizeAll U s = (capAllRunes U 32 (runeVals s)).flatMap encodeRune := by
  unfold capitalizeAll runeVals
  exact capAllLoop_eq U s.length s 32

theorem capAllRunes_valid (U : UnicodeFns) (hV : ∀ r, ValidRune r → ValidRune (U.toUpper r)) :
    ∀ (rs : List Nat) (p : Nat), (∀ r ∈ rs, ValidRune r) → ∀ x ∈ capAllRunes U p rs, ValidRune x := by
  intro rs
  induction rs with
  | nil => intro p _ x hx; simp [capAllRunes] at hx
  | cons r rs ih =>
    intro p hrs x hx
    simp only [capAllRunes, List.mem_cons] at hx
    rcases hx with rfl | hx
    · unfold capAllStep
      split
      · exact hV r (hrs r (List.mem_cons_self))
      · exact hrs r (List.mem_cons_self)
    · exact ih r (fun y hy => hrs y (List.mem_cons_of_mem _ hy)) x hx

/-! ### Capitalize is idempotent -/

/-- decoding a whole, well-formed rune does not depend on what follows it -/
theorem decodeRune_local (chunk X Y : Bytes) (hne : chunk ≠ [])
    (hw : (decodeRune (chunk ++ X)).2 = chunk.length) (hv : (decodeRune (chunk ++ X)).1 ≠ runeError) :
    decodeRune (chunk ++ Y) = ((decodeRune (chunk ++ X)).1, chunk.length) := by
  have he := encode_decode (chunk ++ X) hv
  rw [hw, List.take_left'] at he
  · have := decode_encode (decodeRune (chunk ++ X)).1 (decodeRune_valid _) Y
    rw [he] at this
    exact this
  · rfl

/-- what is assumed of package unicode for `Capitalize`'s idempotence -/
def CapUnicodeOK (U : UnicodeFns) : Prop :=
  UpperStable U ∧ (∀ r, ValidRune r → ValidRune (U.toUpper r)) ∧ isSeparator U runeError = false

theorem capLoop_skip (U : UnicodeFns) (hsepErr : isSeparator U runeError = false) (S : Bytes)
    (sep rest : Bytes) (h : AllSep U sep rest) :
    ∀ (rest' : Bytes) (fuel i : Nat), (sep ++ rest').length ≤ fuel →
    ∃ fuel', rest'.length ≤ fuel' ∧
      capLoop U S fuel (sep ++ rest') i = capLoop U S fuel' rest' (i + sep.length) := by
  induction h with
  | nil rest => intro rest' fuel i hf; exact ⟨fuel, by simpa using hf, by simp⟩
  | cons chunk sep rest h1 h2 h3 h4 ih =>
    intro rest' fuel i hf
    have hv : (decodeRune (chunk ++ (sep ++ rest))).1 ≠ runeError := by
      intro he
      rw [List.append_assoc] at h3
      rw [he, hsepErr] at h3
      cases h3
    have hloc := decodeRune_local chunk (sep ++ rest) (sep ++ rest') h1
      (by rw [← List.append_assoc]; exact h2) hv
    have hcl : 1 ≤ chunk.length := List.length_pos_iff.mpr h1
    obtain ⟨f, rfl⟩ : ∃ f, fuel = f + 1 := ⟨fuel - 1, by
      simp only [List.length_append] at hf; omega⟩
    cases hc : chunk ++ sep ++ rest' with
    | nil => simp at hc; exact absurd hc.1 h1
    | cons c cs =>
      simp only [capLoop]
      rw [← hc, List.append_assoc, hloc]
      dsimp only
      rw [List.append_assoc] at h3
      rw [if_pos h3, List.drop_left']
      · obtain ⟨fuel', hf', he⟩ := ih rest' f (i + chunk.length) (by
          simp only [List.length_append] at hf ⊢; omega)
        refine ⟨fuel', hf', ?_⟩
        rw [he, List.length_append]
        congr 1
        omega
      · rfl

theorem capitalize_idem_aux (U : UnicodeFns) (hU : CapUnicodeOK U) (s out : Bytes)
    (h : CapResult U [] s out) (hs : capitalize U s = .ok out) : capitalize U out = .ok out := by
  obtain ⟨⟨hup1, hup2⟩, hval, hsepErr⟩ := hU
  rcases h with h0 | ⟨sep, mid, post, hr, hm, hall, hw, hsp, hupper, hout⟩
  · simp only [List.nil_append] at h0
    rw [h0]; rw [h0] at hs; exact hs
  · simp only [List.nil_append] at hout
    have hrv : ValidRune (decodeRune (mid ++ post)).1 := decodeRune_valid _
    have huv := hval _ hrv
    have hne := encodeRune_ne_nil (U.toUpper (decodeRune (mid ++ post)).1)
    unfold capitalize
    have hout' : out = sep ++ (encodeRune (U.toUpper (decodeRune (mid ++ post)).1) ++ post) := by
      rw [hout, List.append_assoc]
    obtain ⟨fuel', hf', he⟩ := capLoop_skip U hsepErr out sep (mid ++ post) hall
      (encodeRune (U.toUpper (decodeRune (mid ++ post)).1) ++ post) out.length 0 (by rw [← hout']; exact Nat.le_refl _)
    rw [← hout'] at he
    rw [he]
    cases hc : encodeRune (U.toUpper (decodeRune (mid ++ post)).1) ++ post with
    | nil => simp at hc; exact absurd hc.1 hne
    | cons c cs =>
      obtain ⟨f, rfl⟩ : ∃ f, fuel' = f + 1 := ⟨fuel' - 1, by rw [hc] at hf'; simp at hf'; omega⟩
      simp only [capLoop]
      rw [← hc, decode_encode _ huv post]
      dsimp only
      rw [hup2, hsp]
      simp only [Bool.false_eq_true, if_false]
      by_cases hu : U.isUpper (U.toUpper (decodeRune (mid ++ post)).1) = true
      · rw [if_pos hu]
      · rw [if_neg hu]
        have hrb := capRebuild_spec U sep c cs (U.toUpper (decodeRune (mid ++ post)).1)
        rw [← hc, decode_encode _ huv post, hup1] at hrb
        simp only [List.drop_left'] at hrb
        rw [Nat.zero_add, hout']
        rw [hrb]
        simp

end ScriggoV.Builtins
