import ScriggoV.Lemmas.Compile
import ScriggoV.Model.CompileCond
/-! Helper lemmas for `compileCond_correct` (`Props/C01.lean`): the table facts about the
regenerated `inverted`, `lenCond`, `vmIfLen`, and the case analysis over `emitCondition`'s paths,
on top of the operand specification `OperSpec` of `Lemmas/Compile.lean`. -/
set_option linter.unusedSimpArgs false
set_option linter.unusedVariables false
namespace ScriggoV.Compile
open ScriggoV ScriggoV.GoInt ScriggoV.Eval ScriggoV.Gen.VMInt ScriggoV.VM

local notation "Reg" => Nat

/-! ## tables -/

/-- `invertedOperatorType` is the operator for the swapped operands -/
theorem invOp_correct (op : CmpOp) (a b : Int) : cmp (invOp op) b a = cmp op a b := by
  have hbeq : (b == a) = (a == b) := by
    by_cases h : a = b
    · subst h; rfl
    · have h' : b ≠ a := fun e => h e.symm
      rw [beq_eq_false_iff_ne.mpr h, beq_eq_false_iff_ne.mpr h']
  cases op
  · exact hbeq
  · show (!(b == a)) = (!(a == b)); rw [hbeq]
  · rfl
  · rfl
  · rfl
  · rfl

/-- the `ConditionLen…` bodies of `OpIfString` compute the comparison `emitCondition` chose them for -/
theorem lenCond_spec (sc : SrcCmp) (l z : Int) : vmIfLen (lenCond sc) l z = cmp (cmpOfSrc sc) l z := by
  cases sc <;> rfl

theorem cmpOfSrc_srcCmpOf (op : CmpOp) : cmpOfSrc (srcCmpOf op) = op := by cases op <;> rfl

theorem val_eq_zero_iff (k : Kind) (w : BitVec 64) : val k w = 0 ↔ w = 0#64 := by
  unfold val
  cases k.signed
  · simp only [Bool.false_eq_true, if_false]
    constructor
    · intro h; exact BitVec.eq_of_toNat_eq (by simpa using h)
    · intro h; subst h; rfl
  · simp only [if_true]
    constructor
    · intro h; exact BitVec.eq_of_toInt_eq (by simpa using h)
    · intro h; subst h; rfl

/-! ## hypotheses -/

def BTyped : BVal → Prop
  | .cmp op a b => typeOf (.cmp op a b) = some .bool
  | .var _ => True

/-- static typing of a condition: comparison operands of one integer kind; the operand compared
with `len(s)` of type `int` -/
def CondTyped : CondE → Prop
  | .lit _ => True
  | .cmp op a b => typeOf (.cmp op a b) = some .bool
  | .lenL _ _ e => typeOf e = some (.int .int)
  | .lenR _ e _ => typeOf e = some (.int .int)
  | .not v => BTyped v
  | .val v => BTyped v

def BVarsIn (vr vb : Nat → Reg) (ρ : Env) (β : List Bool) (rf : RegFile) (nv : Nat) : BVal → Prop
  | .cmp op a b => VarsIn vr ρ rf nv (.cmp op a b)
  | .var i => vb i ≤ nv ∧ ∃ b, β[i]? = some b ∧ rf (vb i) = (if b then 1#64 else 0#64)

/-- integer variables as in `VarsIn`; a bool variable sits as 1 / 0 in an integer register `≤ nv`;
the string register of a string variable holds a string of the length `σ` says -/
def CondVarsIn (vr vb vs : Nat → Reg) (ρ : Env) (β : List Bool) (σ : List Nat) (slen : Nat → Nat)
    (rf : RegFile) (nv : Nat) : CondE → Prop
  | .lit _ => True
  | .cmp op a b => VarsIn vr ρ rf nv (.cmp op a b)
  | .lenL _ s e => VarsIn vr ρ rf nv e ∧ σ[s]? = some (slen (vs s))
  | .lenR _ e s => VarsIn vr ρ rf nv e ∧ σ[s]? = some (slen (vs s))
  | .not v => BVarsIn vr vb ρ β rf nv v
  | .val v => BVarsIn vr vb ρ β rf nv v

def BNonNeg (ρ : Env) : BVal → Prop
  | .cmp op a b => NonNegShifts ρ (.cmp op a b)
  | .var _ => True

def CondNonNeg (ρ : Env) : CondE → Prop
  | .lit _ => True
  | .cmp op a b => NonNegShifts ρ (.cmp op a b)
  | .lenL _ _ e => NonNegShifts ρ e
  | .lenR _ e _ => NonNegShifts ρ e
  | .not v => BNonNeg ρ v
  | .val v => BNonNeg ρ v

/-- outcome of running a compiled condition against the reference outcome `res`: the final `If`
reports exactly the truth value, no register `≤ n` changes — or the same fault -/
def CondPost (tbl : List (BitVec 64)) (slen : Nat → Nat) (o : CondOut) (rf : RegFile)
    (res : Except Fault Bool) (n : Nat) : Prop :=
  match res with
  | .ok b => ∃ rf', runCond tbl slen o rf = .ok (rf', b) ∧ ∀ r, r ≤ n → rf' r = rf r
  | .error f => runCond tbl slen o rf = .error f

theorem condPost_of_post {α : Type} {tbl : List (BitVec 64)} {slen : Nat → Nat} {o : CondOut} {rf : RegFile}
    {res : Except Fault α} {Q : α → RegFile → Prop} {g : α → Except Fault Bool} {n : Nat}
    (h : Post tbl o.code rf res Q)
    (hq : ∀ v rf', res = .ok v → Q v rf' →
      g v = .ok (testVal slen rf' o.test) ∧ ∀ r, r ≤ n → rf' r = rf r) :
    CondPost tbl slen o rf (res >>= g) n := by
  cases res with
  | error e =>
    show runCond tbl slen o rf = .error e
    unfold runCond
    rw [show runS tbl o.code (rf, false) = .error e from h]
  | ok v =>
    obtain ⟨rf', hr, hq'⟩ := h
    obtain ⟨hg, hf⟩ := hq v rf' rfl hq'
    show CondPost tbl slen o rf (g v) n
    rw [hg]
    refine ⟨rf', ?_, hf⟩
    unfold runCond
    rw [hr]

/-! ## operands -/

/-- both operands of a binary condition (`emitExpr` of the first, `emitExprK` of the second) -/
theorem operands2_post (H : OpcodeFacts) (vr : Nat → Reg) (ρ : Env) (a b : Expr) (ka kb : Kind)
    (hka : typeOf a = some (.int ka)) (hkb : typeOf b = some (.int kb))
    (st : St) (rf : RegFile) (nv : Nat)
    (hva : VarsIn vr ρ rf nv a) (hvb : VarsIn vr ρ rf nv b) (hna : NonNegShifts ρ a) (hnb : NonNegShifts ρ b)
    (hnv : nv ≤ st.numRegs) :
    let oa := operand vr a false (emitInto vr a) st
    let ob := operand vr b true (emitInto vr b) oa.st
    st.numRegs ≤ ob.st.numRegs ∧ st.consts <+: ob.st.consts ∧
    ∀ tbl, ob.st.consts <+: tbl →
      Post tbl (oa.code ++ ob.code) rf
        (eval ρ a >>= fun va => eval ρ b >>= fun vb => (pure (va, vb) : Except Fault (Val × Val)))
        (fun p rf2 => Holds (.int ka) p.1 (rf2 oa.src.toReg) ∧ Holds (.int kb) p.2 (srcVal rf2 ob.src) ∧
          ∀ r, r ≤ st.numRegs → rf2 r = rf r) := by
  obtain ⟨⟨a1, a2, a3, a4⟩, a5⟩ := operand_correct H vr ρ a _ false st rf nv hka hva hna hnv
  intro oa
  have hoa : operand vr a false (emitInto vr a) st = oa := rfl
  rw [hoa] at a1 a2 a3 a4 a5
  clear_value oa
  have hb := fun rf' hv' => operand_correct H vr ρ b (.int kb) true oa.st rf' nv hkb hv' hnb (by omega)
  obtain ⟨⟨b1, b2, b3, _⟩, _⟩ := hb rf hvb
  intro ob
  have hob : operand vr b true (emitInto vr b) oa.st = ob := rfl
  rw [hob] at b1 b2 b3 hb
  clear_value ob
  refine ⟨by omega, List.IsPrefix.trans a2 b2, ?_⟩
  intro tbl hp
  refine Post_seq (a4 tbl (List.IsPrefix.trans b2 hp)) ?_
  intro va rf1 _ ⟨hha, hfra⟩
  have hvb1 : VarsIn vr ρ rf1 nv b := VarsIn_frame b (fun r hr => hfra r (by omega)) hvb
  obtain ⟨⟨_, _, _, b4⟩, _⟩ := hb rf1 hvb1
  rw [← List.append_nil ob.code]
  refine Post_seq (b4 tbl hp) ?_
  intro vb rf2 _ ⟨hhb, hfrb⟩
  obtain ⟨rx, hsx⟩ := a5 rfl
  refine Post_nil ⟨?_, hhb, fun (r : Nat) hr => by rw [hfrb r (by omega), hfra r hr]⟩
  rw [hsx] at hha ⊢
  show Holds _ va (rf2 rx)
  rw [hfrb rx (a3 rx hsx).2]
  exact hha

theorem holds_bool {v : Val} {w : BitVec 64} (h : Holds .bool v w) :
    ∃ b, v = .bool b ∧ w = (if b then 1#64 else 0#64) := by
  cases v with
  | int k z => obtain ⟨h1, _⟩ := h; cases h1
  | bool b => exact ⟨b, rfl, h.2⟩

/-- a boolean operand as a value: 1 / 0 in a register, nothing live changed -/
theorem bval_post (H : OpcodeFacts) (vr vb : Nat → Reg) (ρ : Env) (β : List Bool) (v : BVal)
    (st : St) (rf : RegFile) (nv : Nat)
    (ht : BTyped v) (hv : BVarsIn vr vb ρ β rf nv v) (hn : BNonNeg ρ v) (hnv : nv ≤ st.numRegs) :
    st.numRegs ≤ (bvalOperand vr vb v st).st.numRegs ∧ st.consts <+: (bvalOperand vr vb v st).st.consts ∧
    ∀ tbl, (bvalOperand vr vb v st).st.consts <+: tbl →
      Post tbl (bvalOperand vr vb v st).code rf (evalB ρ β v)
        (fun b rf' => rf' (bvalOperand vr vb v st).src.toReg = (if b then 1#64 else 0#64) ∧
          ∀ r, r ≤ st.numRegs → rf' r = rf r) := by
  cases v with
  | var i =>
    obtain ⟨hle, b, hb, hrf⟩ := hv
    refine ⟨Nat.le_refl _, List.prefix_refl _, ?_⟩
    intro tbl _
    have : evalB ρ β (.var i) = .ok b := by simp only [evalB, hb]
    rw [this]
    exact Post_nil ⟨hrf, fun _ _ => rfl⟩
  | cmp op a b =>
    obtain ⟨⟨o1, o2, o3, o4⟩, o5⟩ := operand_correct H vr ρ (.cmp op a b) .bool false st rf nv ht hv hn hnv
    simp only [bvalOperand]
    generalize operand vr (.cmp op a b) false (emitInto vr (.cmp op a b)) st = o at *
    refine ⟨o1, o2, ?_⟩
    intro tbl hp
    have h := o4 tbl hp
    obtain ⟨r, hr⟩ := o5 rfl
    have he : evalB ρ β (.cmp op a b) = (eval ρ (.cmp op a b) >>= fun v =>
        match v with
        | .bool b => .ok b
        | _ => .error .other) := by
      simp only [evalB]
      generalize eval ρ (.cmp op a b) = r
      cases r with
      | error f => rfl
      | ok v => cases v <;> rfl
    rw [he, ← List.append_nil o.code]
    refine Post_seq h ?_
    intro v rf' _ ⟨hh, hf⟩
    obtain ⟨b', rfl, hw⟩ := holds_bool hh
    rw [hr] at hw ⊢
    exact Post_nil ⟨hw, hf⟩

theorem zeroCompared_some {op : CmpOp} {a b x : Expr} (h : zeroCompared op a b = some x) :
    (op = .eq ∨ op = .ne) ∧ ((∃ k, b = .lit k 0 ∧ x = a) ∨ (∃ k, a = .lit k 0 ∧ x = b)) := by
  unfold zeroCompared at h
  split at h
  · rename_i hop
    refine ⟨hop, ?_⟩
    split at h
    · split at h
      · rename_i hz
        cases h
        left
        cases b with
        | lit k z =>
          simp only [isZeroLit, beq_iff_eq] at hz
          subst hz; exact ⟨k, rfl, rfl⟩
        | _ => cases hz
      · cases h
    · split at h
      · split at h
        · rename_i hz
          cases h
          right
          cases a with
          | lit k z =>
            simp only [isZeroLit, beq_iff_eq] at hz
            subst hz; exact ⟨k, rfl, rfl⟩
          | _ => cases hz
        · cases h
      · cases h
  · cases h

/-! ## the paths of `emitCondition` -/

theorem evalB_cmp (ρ : Env) (β : List Bool) (op : CmpOp) (a b : Expr) :
    evalB ρ β (.cmp op a b) =
      ((eval ρ a >>= fun va => eval ρ b >>= fun vb => (pure (va, vb) : Except Fault (Val × Val))) >>=
        fun p => boolOfVal (cmpVal op p.1 p.2)) := by
  simp only [evalB, eval_cmp]
  cases eval ρ a with
  | error f => rfl
  | ok va =>
    cases eval ρ b with
    | error f => rfl
    | ok vb => rfl

theorem zero_test (k : Kind) (w : BitVec 64) (z : Int) (h : val k w = z) :
    (w == 0#64) = (z == 0) ∧ (w == 0#64) = ((0 : Int) == z) := by
  have hi := val_eq_zero_iff k w
  rw [h] at hi
  constructor
  · rw [Bool.eq_iff_iff]; simp only [beq_iff_eq]; exact hi.symm
  · rw [Bool.eq_iff_iff]; simp only [beq_iff_eq]; exact ⟨fun h' => (hi.mpr h').symm, fun h' => hi.mp h'.symm⟩

/-- test of the zero fast path against the specification's comparison -/
theorem zero_cond (op : CmpOp) (hop : op = .eq ∨ op = .ne) (k : Kind) (w junk : BitVec 64) (z : Int)
    (h : val k w = z) :
    vmIfInt (if op = .ne then .notZero else .zero) w junk = cmp op z 0 ∧
    vmIfInt (if op = .ne then .notZero else .zero) w junk = cmp op 0 z := by
  obtain ⟨h1, h2⟩ := zero_test k w z h
  rcases hop with rfl | rfl
  · exact ⟨h1, h2⟩
  · constructor
    · show (!(w == 0#64)) = (!(z == 0)); rw [h1]
    · show (!(w == 0#64)) = (!((0 : Int) == z)); rw [h2]

theorem runCond_eq {tbl : List (BitVec 64)} {slen : Nat → Nat} {o : CondOut} {rf rf' : RegFile}
    (h : runS tbl o.code (rf, false) = .ok (rf', false)) :
    runCond tbl slen o rf = .ok (rf', testVal slen rf' o.test) := by
  unfold runCond; rw [h]

theorem compileCond_post (H : OpcodeFacts) (vr vb vs : Nat → Reg) (ρ : Env) (β : List Bool) (σ : List Nat)
    (slen : Nat → Nat) (c : CondE) (st : St) (rf : RegFile) (nv : Nat)
    (ht : CondTyped c) (hv : CondVarsIn vr vb vs ρ β σ slen rf nv c) (hn : CondNonNeg ρ c)
    (hnv : nv ≤ st.numRegs) :
    st.numRegs ≤ (compileCond vr vb vs c st).st.numRegs ∧
    st.consts <+: (compileCond vr vb vs c st).st.consts ∧
    ∀ tbl, (compileCond vr vb vs c st).st.consts <+: tbl →
      CondPost tbl slen (compileCond vr vb vs c st) rf (evalCond ρ β σ c) st.numRegs := by
  cases c with
  | lit b =>
    refine ⟨Nat.le_succ _, List.prefix_refl _, ?_⟩
    intro tbl _
    refine ⟨setReg rf (st.numRegs + 1) (srcVal rf (.imm (if b then 1 else 0))), ?_, ?_⟩
    · have ht : testVal slen (setReg rf (st.numRegs + 1) (srcVal rf (.imm (if b then 1 else 0))))
          (.int (st.numRegs + 1) .notZero (.reg 0)) = b := by
        show (setReg rf (st.numRegs + 1) _ (st.numRegs + 1) != 0#64) = b
        rw [setReg_same]
        show (BitVec.signExtend 64 (if b then (1 : BitVec 8) else 0) != 0#64) = b
        cases b <;> decide
      rw [runCond_eq (rf' := setReg rf (st.numRegs + 1) (srcVal rf (.imm (if b then 1 else 0))))
        (by show runS tbl [.move _ _] (rf, false) = _; rw [runS_cons, exec_move]; rfl)]
      show Except.ok (_, testVal slen _ (.int (st.numRegs + 1) .notZero (.reg 0))) = _
      rw [ht]
    · intro (r : Nat) hr
      exact setReg_other rf _ (by omega)
  | cmp op a b =>
    obtain ⟨k, hka, hkb, _⟩ := typeOf_cmp ht
    have hkind := kindOf_of_typeOf a k hka
    cases hz : zeroCompared op a b with
    | none =>
      simp only [compileCond, hz]
      obtain ⟨o1, o2, o3⟩ := operands2_post H vr ρ a b k k hka hkb st rf nv hv.1 hv.2 hn.1 hn.2 hnv
      refine ⟨o1, o2, ?_⟩
      intro tbl hp
      show CondPost tbl slen _ rf (evalB ρ β (.cmp op a b)) _
      rw [evalB_cmp]
      refine condPost_of_post (o3 tbl hp) ?_
      intro p rf2 _ ⟨h1, h2, h3⟩
      obtain ⟨va, vb'⟩ := p
      obtain ⟨x, rfl, hcx, hvx⟩ := holds_int h1
      obtain ⟨y, rfl, hcy, hvy⟩ := holds_int h2
      refine ⟨?_, h3⟩
      have hc : cmpVal op (.int k x) (.int k y) = .ok (.bool (cmp op x y)) := by simp [cmpVal]
      show boolOfVal (cmpVal op (.int k x) (.int k y)) = _
      rw [hc, hkind]
      show Except.ok (cmp op x y) = Except.ok (vmCmp op k _ _)
      rw [H.cmp, hvx, hvy]
    | some x =>
      simp only [compileCond, hz]
      obtain ⟨hop, hcase⟩ := zeroCompared_some hz
      rcases hcase with ⟨k', hb, hx⟩ | ⟨k', ha, hx⟩
      · -- `a op 0`
        subst hb hx
        obtain ⟨_, hk'⟩ := typeOf_lit hkb
        cases hk'
        obtain ⟨⟨o1, o2, o3, o4⟩, o5⟩ := operand_correct H vr ρ x _ false st rf nv hka hv.1 hn.1 hnv
        generalize operand vr x false (emitInto vr x) st = o at *
        refine ⟨o1, o2, ?_⟩
        intro tbl hp
        have he : evalCond ρ β σ (.cmp op x (.lit k 0)) =
            (eval ρ x >>= fun va => boolOfVal (cmpVal op va (.int k 0))) := by
          show evalB ρ β (.cmp op x (.lit k 0)) = _
          rw [evalB_cmp]
          cases eval ρ x <;> rfl
        rw [he]
        refine condPost_of_post (o4 tbl hp) ?_
        intro v rf' _ ⟨hh, hf⟩
        obtain ⟨r, hr⟩ := o5 rfl
        rw [hr] at hh ⊢
        obtain ⟨z, rfl, hc, hvz⟩ := holds_int hh
        refine ⟨?_, hf⟩
        have hcv : cmpVal op (.int k z) (.int k 0) = .ok (.bool (cmp op z 0)) := by simp [cmpVal]
        rw [hcv]
        show Except.ok (cmp op z 0) = Except.ok (vmIfInt _ (rf' r) (rf' 0))
        rw [(zero_cond op hop k (rf' r) (rf' 0) z hvz).1]
      · -- `0 op b`
        subst ha hx
        obtain ⟨_, hk'⟩ := typeOf_lit hka
        cases hk'
        obtain ⟨⟨o1, o2, o3, o4⟩, o5⟩ := operand_correct H vr ρ x _ false st rf nv hkb hv.2 hn.2 hnv
        generalize operand vr x false (emitInto vr x) st = o at *
        refine ⟨o1, o2, ?_⟩
        intro tbl hp
        have he : evalCond ρ β σ (.cmp op (.lit k 0) x) =
            (eval ρ x >>= fun vb => boolOfVal (cmpVal op (.int k 0) vb)) := by
          show evalB ρ β (.cmp op (.lit k 0) x) = _
          rw [evalB_cmp]
          show ((eval ρ x >>= fun vb => (pure (Val.int k 0, vb) : Except Fault (Val × Val))) >>= _) = _
          cases eval ρ x <;> rfl
        rw [he]
        refine condPost_of_post (o4 tbl hp) ?_
        intro v rf' _ ⟨hh, hf⟩
        obtain ⟨r, hr⟩ := o5 rfl
        rw [hr] at hh ⊢
        obtain ⟨z, rfl, hc, hvz⟩ := holds_int hh
        refine ⟨?_, hf⟩
        have hcv : cmpVal op (.int k 0) (.int k z) = .ok (.bool (cmp op 0 z)) := by simp [cmpVal]
        rw [hcv]
        show Except.ok (cmp op 0 z) = Except.ok (vmIfInt _ (rf' r) (rf' 0))
        rw [(zero_cond op hop k (rf' r) (rf' 0) z hvz).2]
  | lenL op s e =>
    simp only [compileCond]
    obtain ⟨⟨o1, o2, o3, o4⟩, _⟩ := operand_correct H vr ρ e _ true st rf nv ht hv.1 hn hnv
    generalize operand vr e true (emitInto vr e) st = o at *
    refine ⟨o1, o2, ?_⟩
    intro tbl hp
    have he : evalCond ρ β σ (.lenL op s e) = (eval ρ e >>= fun v =>
        match v with
        | .int _ z => .ok (cmp op (slen (vs s) : Int) z)
        | _ => .error .other) := by
      simp only [evalCond, hv.2]
      cases eval ρ e with
      | error f => rfl
      | ok v => cases v <;> rfl
    rw [he]
    refine condPost_of_post (o4 tbl hp) ?_
    intro v rf' _ ⟨hh, hf⟩
    obtain ⟨z, rfl, hc, hvz⟩ := holds_int hh
    refine ⟨?_, hf⟩
    show Except.ok (cmp op (slen (vs s) : Int) z) = Except.ok (vmIfLen _ _ (srcVal rf' o.src).toInt)
    rw [lenCond_spec, cmpOfSrc_srcCmpOf, show (srcVal rf' o.src).toInt = z from hvz]
  | lenR op e s =>
    simp only [compileCond]
    obtain ⟨⟨o1, o2, o3, o4⟩, _⟩ := operand_correct H vr ρ e _ true st rf nv ht hv.1 hn hnv
    generalize operand vr e true (emitInto vr e) st = o at *
    refine ⟨o1, o2, ?_⟩
    intro tbl hp
    have he : evalCond ρ β σ (.lenR op e s) = (eval ρ e >>= fun v =>
        match v with
        | .int _ z => .ok (cmp op z (slen (vs s) : Int))
        | _ => .error .other) := by
      simp only [evalCond, hv.2]
      cases eval ρ e with
      | error f => rfl
      | ok v => cases v <;> rfl
    rw [he]
    refine condPost_of_post (o4 tbl hp) ?_
    intro v rf' _ ⟨hh, hf⟩
    obtain ⟨z, rfl, hc, hvz⟩ := holds_int hh
    refine ⟨?_, hf⟩
    show Except.ok (cmp op z (slen (vs s) : Int)) = Except.ok (vmIfLen _ _ (srcVal rf' o.src).toInt)
    rw [lenCond_spec, show (srcVal rf' o.src).toInt = z from hvz]
    show _ = Except.ok (cmp (invOp op) _ _)
    rw [invOp_correct]
  | not v =>
    simp only [compileCond]
    obtain ⟨o1, o2, o3⟩ := bval_post H vr vb ρ β v st rf nv ht hv hn hnv
    refine ⟨o1, o2, ?_⟩
    intro tbl hp
    have he : evalCond ρ β σ (.not v) = (evalB ρ β v >>= fun b => .ok (!b)) := by
      simp only [evalCond]
      cases evalB ρ β v <;> rfl
    rw [he]
    refine condPost_of_post (o3 tbl hp) ?_
    intro b rf' _ ⟨hw, hf⟩
    refine ⟨?_, hf⟩
    show Except.ok (!b) = Except.ok (rf' _ == 0#64)
    rw [hw]
    cases b <;> rfl
  | val v =>
    simp only [compileCond]
    obtain ⟨o1, o2, o3⟩ := bval_post H vr vb ρ β v st rf nv ht hv hn hnv
    refine ⟨o1, o2, ?_⟩
    intro tbl hp
    have he : evalCond ρ β σ (.val v) = (evalB ρ β v >>= fun b => .ok b) := by
      simp only [evalCond]
      cases evalB ρ β v <;> rfl
    rw [he]
    refine condPost_of_post (o3 tbl hp) ?_
    intro b rf' _ ⟨hw, hf⟩
    refine ⟨?_, hf⟩
    show Except.ok b = Except.ok (rf' _ != 0#64)
    rw [hw]
    cases b <;> rfl

/-! ## conditions without shifts need no hypothesis on shift counts -/

def noShift : Expr → Bool
  | .lit _ _ => true
  | .var _ _ => true
  | .un _ e => noShift e
  | .bin _ a b => noShift a && noShift b
  | .sh _ _ _ => false
  | .cmp _ a b => noShift a && noShift b
  | .conv _ e => noShift e

theorem nonNeg_of_noShift (ρ : Env) (e : Expr) (h : noShift e = true) : NonNegShifts ρ e := by
  induction e with
  | lit k z => trivial
  | var k i => trivial
  | un op e ih => exact ih h
  | bin op a b iha ihb =>
    simp only [noShift, Bool.and_eq_true] at h; exact ⟨iha h.1, ihb h.2⟩
  | sh op a b iha ihb => cases h
  | cmp op a b iha ihb =>
    simp only [noShift, Bool.and_eq_true] at h; exact ⟨iha h.1, ihb h.2⟩
  | conv k e ih => exact ih h

def condNoShift : CondE → Bool
  | .lit _ => true
  | .cmp _ a b => noShift a && noShift b
  | .lenL _ _ e => noShift e
  | .lenR _ e _ => noShift e
  | .not (.cmp _ a b) => noShift a && noShift b
  | .not (.var _) => true
  | .val (.cmp _ a b) => noShift a && noShift b
  | .val (.var _) => true

theorem condNonNeg_of_noShift (ρ : Env) (c : CondE) (h : condNoShift c = true) : CondNonNeg ρ c := by
  cases c with
  | lit b => trivial
  | cmp op a b => exact nonNeg_of_noShift ρ (.cmp op a b) h
  | lenL op s e => exact nonNeg_of_noShift ρ e h
  | lenR op e s => exact nonNeg_of_noShift ρ e h
  | not v =>
    cases v with
    | cmp op a b => exact nonNeg_of_noShift ρ (.cmp op a b) h
    | var i => trivial
  | val v =>
    cases v with
    | cmp op a b => exact nonNeg_of_noShift ρ (.cmp op a b) h
    | var i => trivial

end ScriggoV.Compile
