import ScriggoV.Lemmas.Compile
import ScriggoV.Model.CompileCond
/-! Helper lemmas for `compileCond_correct` (`Props/C01.lean`): the table facts about the
regenerated `inverted`, `lenCond`, `vmIfLen`, and the case analysis over `emitCondition`'s paths,
on top of the operand specification `OperSpec` of `Lemmas/Compile.lean`. -/
set_option linter.unusedSimpArgs false
set_option linter.unusedVariables false
namespace ScriggoV.Compile
open ScriggoV ScriggoV.GoInt ScriggoV.Eval ScriggoV.Gen.VMInt ScriggoV.VM

local notation "Reg" => Nat

/-! ## tables -/

/-- `invertedOperatorType` is the operator for the swapped operands -/
theorem invOp_correct (op : CmpOp) (a b : Int) : cmp (invOp op) b a = cmp op a b := by
  have hbeq : (b == a) = (a == b) := by
    by_cases h : a = b
    · subst h; rfl
    · have h' : b ≠ a := fun e => h e.symm
      simp [h, h']
  cases op
  · exact hbeq
  · show (!(b == a)) = (!(a == b)); rw [hbeq]
  · rfl
  · rfl
  · rfl
  · rfl

/-- the `ConditionLen…` bodies of `OpIfString` compute the comparison `emitCondition` chose them for -/
theorem lenCond_spec (sc : SrcCmp) (l z : Int) : vmIfLen (lenCond sc) l z = cmp (cmpOfSrc sc) l z := by
  cases sc <;> rfl

theorem cmpOfSrc_srcCmpOf (op : CmpOp) : cmpOfSrc (srcCmpOf op) = op := by cases op <;> rfl

theorem val_eq_zero_iff (k : Kind) (w : BitVec 64) : val k w = 0 ↔ w = 0#64 := by
  unfold val
  cases k.signed
  · simp only [Bool.false_eq_true, if_false]
    constructor
    · intro h; exact BitVec.eq_of_toNat_eq (by simpa using h)
    · intro h; subst h; rfl
  · simp only [if_true]
    constructor
    · intro h; exact BitVec.eq_of_toInt_eq (by simpa using h)
    · intro h; subst h; rfl

/-! ## hypotheses -/

def BTyped : BVal → Prop
  | .cmp op a b => typeOf (.cmp op a b) = some .bool
  | .var _ => True

/-- static typing of a condition: comparison operands of one integer kind; the operand compared
with `len(s)` of type `int` -/
def CondTyped : CondE → Prop
  | .lit _ => True
  | .cmp op a b => typeOf (.cmp op a b) = some .bool
  | .lenL _ _ e => typeOf e = some (.int .int)
  | .lenR _ e _ => typeOf e = some (.int .int)
  | .not v => BTyped v
  | .val v => BTyped v

def BVarsIn (vr vb : Nat → Reg) (ρ : Env) (β : List Bool) (rf : RegFile) (nv : Nat) : BVal → Prop
  | .cmp op a b => VarsIn vr ρ rf nv (.cmp op a b)
  | .var i => vb i ≤ nv ∧ ∃ b, β[i]? = some b ∧ rf (vb i) = (if b then 1#64 else 0#64)

/-- integer variables as in `VarsIn`; a bool variable sits as 1 / 0 in an integer register `≤ nv`;
the string register of a string variable holds a string of the length `σ` says -/
def CondVarsIn (vr vb vs : Nat → Reg) (ρ : Env) (β : List Bool) (σ : List Nat) (slen : Nat → Nat)
    (rf : RegFile) (nv : Nat) : CondE → Prop
  | .lit _ => True
  | .cmp op a b => VarsIn vr ρ rf nv (.cmp op a b)
  | .lenL _ s e => VarsIn vr ρ rf nv e ∧ σ[s]? = some (slen (vs s))
  | .lenR _ e s => VarsIn vr ρ rf nv e ∧ σ[s]? = some (slen (vs s))
  | .not v => BVarsIn vr vb ρ β rf nv v
  | .val v => BVarsIn vr vb ρ β rf nv v

def BNonNeg (ρ : Env) : BVal → Prop
  | .cmp op a b => NonNegShifts ρ (.cmp op a b)
  | .var _ => True

def CondNonNeg (ρ : Env) : CondE → Prop
  | .lit _ => True
  | .cmp op a b => NonNegShifts ρ (.cmp op a b)
  | .lenL _ _ e => NonNegShifts ρ e
  | .lenR _ e _ => NonNegShifts ρ e
  | .not v => BNonNeg ρ v
  | .val v => BNonNeg ρ v

/-- outcome of running a compiled condition against the reference outcome `res`: the final `If`
reports exactly the truth value, no register `≤ n` changes — or the same fault -/
def CondPost (tbl : List (BitVec 64)) (slen : Nat → Nat) (o : CondOut) (rf : RegFile)
    (res : Except Fault Bool) (n : Nat) : Prop :=
  match res with
  | .ok b => ∃ rf', runCond tbl slen o rf = .ok (rf', b) ∧ ∀ r, r ≤ n → rf' r = rf r
  | .error f => runCond tbl slen o rf = .error f

theorem condPost_of_post {α : Type} {tbl : List (BitVec 64)} {slen : Nat → Nat} {o : CondOut} {rf : RegFile}
    {res : Except Fault α} {Q : α → RegFile → Prop} {g : α → Except Fault Bool} {n : Nat}
    (h : Post tbl o.code rf res Q)
    (hq : ∀ v rf', res = .ok v → Q v rf' →
      g v = .ok (testVal slen rf' o.test) ∧ ∀ r, r ≤ n → rf' r = rf r) :
    CondPost tbl slen o rf (res >>= g) n := by
  cases res with
  | error e =>
    show runCond tbl slen o rf = .error e
    unfold runCond
    rw [show runS tbl o.code (rf, false) = .error e from h]
  | ok v =>
    obtain ⟨rf', hr, hq'⟩ := h
    obtain ⟨hg, hf⟩ := hq v rf' rfl hq'
    show CondPost tbl slen o rf (g v) n
    rw [hg]
    refine ⟨rf', ?_, hf⟩
    unfold runCond
    rw [hr]

/-! ## operands -/

/-- both operands of a binary condition (`emitExpr` of the first, `emitExprK` of the second) -/
theorem operands2_post (H : OpcodeFacts) (vr : Nat → Reg) (ρ : Env) (a b : Expr) (ka kb : Kind)
    (hka : typeOf a = some (.int ka)) (hkb : typeOf b = some (.int kb))
    (st : St) (rf : RegFile) (nv : Nat)
    (hva : VarsIn vr ρ rf nv a) (hvb : VarsIn vr ρ rf nv b) (hna : NonNegShifts ρ a) (hnb : NonNegShifts ρ b)
    (hnv : nv ≤ st.numRegs) :
    let oa := operand vr a false (emitInto vr a) st
    let ob := operand vr b true (emitInto vr b) oa.st
    st.numRegs ≤ ob.st.numRegs ∧ st.consts <+: ob.st.consts ∧
    ∀ tbl, ob.st.consts <+: tbl →
      Post tbl (oa.code ++ ob.code) rf
        (eval ρ a >>= fun va => eval ρ b >>= fun vb => (pure (va, vb) : Except Fault (Val × Val)))
        (fun p rf2 => Holds (.int ka) p.1 (rf2 oa.src.toReg) ∧ Holds (.int kb) p.2 (srcVal rf2 ob.src) ∧
          ∀ r, r ≤ st.numRegs → rf2 r = rf r) := by
  obtain ⟨⟨a1, a2, a3, a4⟩, a5⟩ := operand_correct H vr ρ a _ false st rf nv hka hva hna hnv
  intro oa
  have hoa : operand vr a false (emitInto vr a) st = oa := rfl
  rw [hoa] at a1 a2 a3 a4 a5
  clear_value oa
  have hb := fun rf' hv' => operand_correct H vr ρ b (.int kb) true oa.st rf' nv hkb hv' hnb (by omega)
  obtain ⟨⟨b1, b2, b3, _⟩, _⟩ := hb rf hvb
  intro ob
  have hob : operand vr b true (emitInto vr b) oa.st = ob := rfl
  rw [hob] at b1 b2 b3 hb
  clear_value ob
  refine ⟨by omega, List.IsPrefix.trans a2 b2, ?_⟩
  intro tbl hp
  refine Post_seq (a4 tbl (List.IsPrefix.trans b2 hp)) ?_
  intro va rf1 _ ⟨hha, hfra⟩
  have hvb1 : VarsIn vr ρ rf1 nv b := VarsIn_frame b (fun r hr => hfra r (by omega)) hvb
  obtain ⟨⟨_, _, _, b4⟩, _⟩ := hb rf1 hvb1
  rw [← List.append_nil ob.code]
  refine Post_seq (b4 tbl hp) ?_
  intro vb rf2 _ ⟨hhb, hfrb⟩
  obtain ⟨rx, hsx⟩ := a5 rfl
  refine Post_nil ⟨?_, hhb, fun (r : Nat) hr => by rw [hfrb r (by omega), hfra r hr]⟩
  rw [hsx] at hha ⊢
  show Holds _ va (rf2 rx)
  rw [hfrb rx (a3 rx hsx).2]
  exact hha

theorem holds_bool {v : Val} {w : BitVec 64} (h : Holds .bool v w) :
    ∃ b, v = .bool b ∧ w = (if b then 1#64 else 0#64) := by
  cases v with
  | int k z => obtain ⟨h1, _⟩ := h; cases h1
  | bool b => exact ⟨b, rfl, h.2⟩

/-- a boolean operand as a value: 1 / 0 in a register, nothing live changed -/
theorem bval_post (H : OpcodeFacts) (vr vb : Nat → Reg) (ρ : Env) (β : List Bool) (v : BVal)
    (st : St) (rf : RegFile) (nv : Nat)
    (ht : BTyped v) (hv : BVarsIn vr vb ρ β rf nv v) (hn : BNonNeg ρ v) (hnv : nv ≤ st.numRegs) :
    st.numRegs ≤ (bvalOperand vr vb v st).st.numRegs ∧ st.consts <+: (bvalOperand vr vb v st).st.consts ∧
    ∀ tbl, (bvalOperand vr vb v st).st.consts <+: tbl →
      Post tbl (bvalOperand vr vb v st).code rf (evalB ρ β v)
        (fun b rf' => rf' (bvalOperand vr vb v st).src.toReg = (if b then 1#64 else 0#64) ∧
          ∀ r, r ≤ st.numRegs → rf' r = rf r) := by
  cases v with
  | var i =>
    obtain ⟨hle, b, hb, hrf⟩ := hv
    refine ⟨Nat.le_refl _, List.prefix_refl _, ?_⟩
    intro tbl _
    have : evalB ρ β (.var i) = .ok b := by simp only [evalB, hb]
    rw [this]
    exact Post_nil ⟨hrf, fun _ _ => rfl⟩
  | cmp op a b =>
    obtain ⟨⟨o1, o2, o3, o4⟩, o5⟩ := operand_correct H vr ρ (.cmp op a b) .bool false st rf nv ht hv hn hnv
    simp only [bvalOperand]
    generalize operand vr (.cmp op a b) false (emitInto vr (.cmp op a b)) st = o at *
    refine ⟨o1, o2, ?_⟩
    intro tbl hp
    have h := o4 tbl hp
    obtain ⟨r, hr⟩ := o5 rfl
    have he : evalB ρ β (.cmp op a b) = (eval ρ (.cmp op a b) >>= fun v =>
        match v with
        | .bool b => .ok b
        | _ => .error .other) := by
      simp only [evalB]
      generalize eval ρ (.cmp op a b) = r
      cases r with
      | error f => rfl
      | ok v => cases v <;> rfl
    rw [he, ← List.append_nil o.code]
    refine Post_seq h ?_
    intro v rf' _ ⟨hh, hf⟩
    obtain ⟨b', rfl, hw⟩ := holds_bool hh
    rw [hr] at hw ⊢
    exact Post_nil ⟨hw, hf⟩

theorem zeroCompared_some {op : CmpOp} {a b x : Expr} (h : zeroCompared op a b = some x) :
    (op = .eq ∨ op = .ne) ∧ ((∃ k, b = .lit k 0 ∧ x = a) ∨ (∃ k, a = .lit k 0 ∧ x = b)) := by
  unfold zeroCompared at h
  split at h
  · rename_i hop
    refine ⟨hop, ?_⟩
    split at h
    · split at h
      · rename_i hz
        cases h
        left
        cases b with
        | lit k z =>
          simp only [isZeroLit, beq_iff_eq] at hz
          subst hz; exact ⟨k, rfl, rfl⟩
        | _ => cases hz
      · cases h
    · split at h
      · split at h
        · rename_i hz
          cases h
          right
          cases a with
          | lit k z =>
            simp only [isZeroLit, beq_iff_eq] at hz
            subst hz; exact ⟨k, rfl, rfl⟩
          | _ => cases hz
        · cases h
      · cases h
  · cases h

end ScriggoV.Compile
