import ScriggoV.Lemmas.Lexer.Scan
import ScriggoV.Lemmas.Lexer.Number
import ScriggoV.Model.LexCtx
/-! # The full lexer model refines the context projection (C06 layer 2) — part 1

Definitions (`proj`, `htmlFamily`, `FHtml`, `CF`) and the value-level versions of the inner-loop
lemmas: `scanTagLoop`, `scanTag`, `attrNameLoop`, `attrEqLoop`, `attrQuoteLoop`, `scanAttribute` of
the full model return exactly what the pure loops of `Model/LexCtx.lean` compute, for every
sufficient fuel on both sides. Core Lean only. -/
namespace ScriggoV.LexCtx
open ScriggoV ScriggoV.Lexer ScriggoV.Gen.LexTables

/-- the projection of the full lexer state onto the context machine's state -/
def proj (st : Lexer.St) (lp : Lexer.Loop) : CSt :=
  { pos := st.base + lp.p, ctx := st.ctx, tagCtx := st.tagCtx, tagName := st.tagName, tagAttr := st.tagAttr,
    tagIndex := st.tagIndex, quote := lp.quote, url := lp.emittedURL, jsComment := lp.jsComment }

/-- the contexts an HTML file can be in -/
def htmlFamily (c : Nat) : Prop :=
  c = ContextHTML ∨ c = ContextTag ∨ c = ContextQuotedAttr ∨ c = ContextUnquotedAttr ∨
  c = ContextCSS ∨ c = ContextCSSString ∨ c = ContextJS ∨ c = ContextJSString ∨ c = ContextJSON ∨
  c = ContextJSONString

/-- the loop-invariant locals of `scan` for an HTML file -/
def FHtml : Lexer.Fixed := { fileCtx := ContextHTML, isHTML := true }

/-- the two states agree on the fields the context machine reads -/
structure CF (st st' : St) : Prop where
  ctx : st'.ctx = st.ctx
  tagCtx : st'.tagCtx = st.tagCtx
  tagName : st'.tagName = st.tagName
  tagAttr : st'.tagAttr = st.tagAttr
  tagIndex : st'.tagIndex = st.tagIndex
  /-- `l.base`: read by `fixedOf` (the end-tag tests, `l.ctx = l.base`), never written by the main loop -/
  lbase : st'.lbase = st.lbase

theorem CF.refl (st : St) : CF st st := ⟨rfl, rfl, rfl, rfl, rfl, rfl⟩
theorem CF.trans {a b c : St} (h1 : CF a b) (h2 : CF b c) : CF a c :=
  ⟨h2.ctx.trans h1.ctx, h2.tagCtx.trans h1.tagCtx, h2.tagName.trans h1.tagName, h2.tagAttr.trans h1.tagAttr,
   h2.tagIndex.trans h1.tagIndex, h2.lbase.trans h1.lbase⟩
theorem CF.of_same {a b : St} (h : SameButPos a b) : CF a b := by
  unfold SameButPos at h
  constructor <;> rw [h]

/-! ## bytes at absolute positions -/

theorem getElem?_of_srcAt {E : Env} {st : St} {i : Nat} {c : UInt8} (h : srcAt E st i = .ok c) :
    E.text[st.base + i]? = some c := getAt_eq_ok_iff.mp h

theorem getElem?_none_of_ge {E : Env} {st : St} {p : Nat} (h : ¬ p < srcLen E st) (hb : st.base ≤ E.text.length) :
    E.text[st.base + p]? = none := by
  apply List.getElem?_eq_none
  unfold srcLen at h; omega

/-! ## scanTag -/

theorem scanTagLoop_val {E : Env} : ∀ (fuel : Nat) (st : St) (p : Nat), p ≤ srcLen E st → srcLen E st - p < fuel →
    st.base ≤ E.text.length → ∀ fuel', E.text.length - (st.base + p) < fuel' →
    ∃ st' q, scanTagLoop E fuel st p = .ok (st', q) ∧ SameButPos st st' ∧ p ≤ q ∧ q ≤ srcLen E st ∧
      scanTagLoopP E.text fuel' (st.base + p) = st.base + q := by
  intro fuel
  induction fuel with
  | zero => intro _ _ _ h; omega
  | succ fuel ih =>
    intro st p hp hf hb fuel' hf'
    cases fuel' with
    | zero => omega
    | succ fuel' =>
    unfold scanTagLoop scanTagLoopP
    split
    · rename_i hlt
      obtain ⟨c, hc, _⟩ := srcAt_ok_of_lt hlt
      have hc' := getElem?_of_srcAt hc
      simp only [hc, bind_ok, hc']
      split
      · exact ⟨st, p, rfl, SameButPos.refl st, Nat.le_refl _, hp, rfl⟩
      · have hs := SameButPos.addCol st 1
        have hbs : (addCol st 1).base = st.base := rfl
        split
        · obtain ⟨st', q, h1, h2, h3, h4, h5⟩ := ih (addCol st 1) (p + 1) (by rw [hs.srcLen]; omega)
            (by rw [hs.srcLen]; omega) hb fuel' (by rw [hbs]; unfold srcLen at hlt; omega)
          rw [hbs] at h5
          exact ⟨st', q, h1, hs.trans h2, by omega, by rw [hs.srcLen] at h4; exact h4, by
            rw [Nat.add_assoc]; exact h5⟩
        · have hd := decodeRune_drop (t := E.text) (i := st.base + p) (by unfold srcLen at hlt; omega)
          cases hrs : decodeRune (E.text.drop (st.base + p)) with
          | mk r s =>
            rw [hrs] at hd
            simp only [addCol] at hrs ⊢
            rw [hrs]
            simp only []
            obtain ⟨st', q, h1, h2, h3, h4, h5⟩ := ih (addCol st 1) (p + s)
              (by rw [hs.srcLen]; unfold srcLen; omega) (by rw [hs.srcLen]; omega) hb fuel'
              (by rw [hbs]; unfold srcLen at hlt; omega)
            rw [hbs] at h5
            exact ⟨st', q, h1, hs.trans h2, by omega, by rw [hs.srcLen] at h4; exact h4, by
              rw [Nat.add_assoc]; exact h5⟩
    · rename_i hge
      rw [getElem?_none_of_ge hge hb]
      exact ⟨st, p, rfl, SameButPos.refl st, Nat.le_refl _, hp, rfl⟩

theorem slice_abs (t : Bytes) (b p q : Nat) : ((t.drop b).take q).drop p = (t.take (b + q)).drop (b + p) := by
  rw [List.take_drop, List.drop_drop]

theorem scanTag_val {E : Env} {st : St} {p : Nat} (hp : p ≤ srcLen E st) (hb : st.base ≤ E.text.length) :
    ∃ st' name q, scanTag E st p = .ok (st', name, q) ∧ SameButPos st st' ∧ p ≤ q ∧ q ≤ srcLen E st ∧
      scanTagP E.U E.text (st.base + p) = (name, st.base + q) := by
  unfold scanTag scanTagP
  split
  · rename_i he
    rw [getElem?_none_of_ge (by omega) hb]
    exact ⟨st, [], p, rfl, SameButPos.refl st, Nat.le_refl _, hp, rfl⟩
  · rename_i hne
    obtain ⟨c, hc, _⟩ := srcAt_ok_of_lt (E := E) (st := st) (i := p) (by omega)
    have hc' := getElem?_of_srcAt hc
    simp only [hc, bind_ok, hc']
    split
    · exact ⟨st, [], p, rfl, SameButPos.refl st, Nat.le_refl _, hp, rfl⟩
    · have hs := SameButPos.addCol st 1
      have hbs : (addCol st 1).base = st.base := rfl
      obtain ⟨st', q, h1, h2, h3, h4, h5⟩ := scanTagLoop_val (E := E) (srcLen E st + 1) (addCol st 1) (p + 1)
        (by rw [hs.srcLen]; omega) (by rw [hs.srcLen]; omega) hb (E.text.length - (st.base + p) + 1)
        (by rw [hbs]; omega)
      simp only [h1, bind_ok]
      have hs' := hs.trans h2
      rw [hs.srcLen] at h4
      have hlen : (E.text.drop st'.base).length = srcLen E st := by
        rw [hs'.base]; simp [srcLen]
      rw [sliceOf_ok (by omega) (by rw [hlen]; exact h4)]
      simp only [bind_ok, pure_eq_ok]
      rw [hbs, ← Nat.add_assoc] at h5
      refine ⟨st', _, q, rfl, hs', by omega, h4, ?_⟩
      rw [h5, hs'.base, slice_abs]

/-! ## scanAttribute -/

/-- the result of the name loop of the full model, as the pure loop reports it -/
def nameRes : AttrName → St × (Bool × Nat)
  | .stop st p => (st, true, p)
  | .done st p => (st, false, p)

def eqRes : AttrEq → St × (Bool × Nat)
  | .stop st p => (st, true, p)
  | .done st p => (st, false, p)

theorem attrNameLoop_val {E : Env} : ∀ (fuel : Nat) (st : St) (p : Nat), p ≤ srcLen E st → srcLen E st - p < fuel →
    st.base ≤ E.text.length → ∀ fuel', E.text.length - (st.base + p) < fuel' →
    ∃ r st' b q, attrNameLoop E fuel st p = .ok r ∧ nameRes r = (st', b, q) ∧ SameButPos st st' ∧ p ≤ q ∧
      q ≤ srcLen E st ∧ attrNameLoopP E.U E.text fuel' (st.base + p) = (b, st.base + q) := by
  intro fuel
  induction fuel with
  | zero => intro _ _ _ h; omega
  | succ fuel ih =>
    intro st p hp hf hb fuel' hf'
    cases fuel' with
    | zero => omega
    | succ fuel' =>
    unfold attrNameLoop attrNameLoopP
    split
    · rename_i hlt
      obtain ⟨c, hc, _⟩ := srcAt_ok_of_lt hlt
      have hc' := getElem?_of_srcAt hc
      simp only [hc, bind_ok, hc']
      split
      · exact ⟨_, st, false, p, rfl, rfl, SameButPos.refl st, Nat.le_refl _, hp, rfl⟩
      · split
        · exact ⟨_, st, true, p, rfl, rfl, SameButPos.refl st, Nat.le_refl _, hp, rfl⟩
        · have hd := decodeRune_drop (t := E.text) (i := st.base + p) (by unfold srcLen at hlt; omega)
          -- the position after the (possibly multi-byte) character, relative and absolute
          have hns : ∀ (ns : Option Nat), (∀ p', ns = some p' → p ≤ p' ∧ p' + 1 ≤ srcLen E st) →
              ∃ r st' b q, (match ns with
                | none => pure (AttrName.stop st p)
                | some p =>
                  let d := peek E st (p + 1)
                  if c = 0x7b ∧ (d = some 0x7b ∨ d = some 0x25 ∨ d = some 0x23) then pure (AttrName.stop st p)
                  else attrNameLoop E fuel (addCol st 1) (p + 1) : Except Fault AttrName) = .ok r ∧
                nameRes r = (st', b, q) ∧ SameButPos st st' ∧ p ≤ q ∧ q ≤ srcLen E st ∧
                (match ns.map (st.base + ·) with
                | none => (true, st.base + p)
                | some p =>
                  let d := E.text[p + 1]?
                  if c = 0x7b ∧ (d = some 0x7b ∨ d = some 0x25 ∨ d = some 0x23) then (true, p)
                  else attrNameLoopP E.U E.text fuel' (p + 1)) = (b, st.base + q) := by
            intro ns hns
            cases ns with
            | none => exact ⟨_, st, true, p, rfl, rfl, SameButPos.refl st, Nat.le_refl _, hp, rfl⟩
            | some p' =>
              obtain ⟨h1, h2⟩ := hns p' rfl
              have hpk : E.text[st.base + p' + 1]? = peek E st (p' + 1) := by unfold peek; rw [Nat.add_assoc]
              simp only [Option.map_some, hpk]
              by_cases hcond : c = 0x7b ∧ (peek E st (p' + 1) = some 0x7b ∨
                  peek E st (p' + 1) = some 0x25 ∨ peek E st (p' + 1) = some 0x23)
              · rw [if_pos hcond, if_pos hcond]
                exact ⟨_, st, true, p', rfl, rfl, SameButPos.refl st, h1, by omega, rfl⟩
              · rw [if_neg hcond, if_neg hcond]
                have hs := SameButPos.addCol st 1
                have hbs : (addCol st 1).base = st.base := rfl
                obtain ⟨r, st', b, q, hr, hres, s1, s2, s3, s4⟩ := ih (addCol st 1) (p' + 1) (by rw [hs.srcLen]; omega)
                  (by rw [hs.srcLen]; omega) hb fuel' (by rw [hbs]; unfold srcLen at hlt; omega)
                rw [hbs, ← Nat.add_assoc] at s4
                exact ⟨r, st', b, q, hr, hres, hs.trans s1, by omega, by rw [hs.srcLen] at s3; exact s3, s4⟩
          -- connect the pure `ns`
          have hmap : (if c ≥ 0x80 then
                match decodeRune (E.text.drop (st.base + p)) with
                | (r, size) =>
                  if r = runeError ∧ size = 1 then none
                  else if (0x7f ≤ r ∧ r ≤ 0x9f) ∨ E.U.isNonchar r = true then none
                  else some (st.base + p + size - 1)
              else some (st.base + p) : Option Nat) =
              (if c ≥ 0x80 then
                match decodeRune (E.text.drop (st.base + p)) with
                | (r, size) =>
                  if r = runeError ∧ size = 1 then none
                  else if (0x7f ≤ r ∧ r ≤ 0x9f) ∨ E.U.isNonchar r = true then none
                  else some (p + size - 1)
              else some p : Option Nat).map (st.base + ·) := by
            split
            · cases hrs : decodeRune (E.text.drop (st.base + p)) with
              | mk r s =>
                rw [hrs] at hd
                simp only []
                split
                · rfl
                · split
                  · rfl
                  · simp only [Option.map_some]; congr 1; omega
            · rfl
          rw [hmap]
          apply hns
          intro p' hp'
          split at hp'
          · cases hrs : decodeRune (E.text.drop (st.base + p)) with
            | mk r s =>
              rw [hrs] at hd hp'
              simp only [] at hp'
              split at hp'
              · cases hp'
              · split at hp'
                · cases hp'
                · cases hp'
                  unfold srcLen
                  omega
          · cases hp'; omega
    · rename_i hge
      rw [getElem?_none_of_ge hge hb]
      exact ⟨_, st, false, p, rfl, rfl, SameButPos.refl st, Nat.le_refl _, hp, rfl⟩

theorem attrEqLoop_val {E : Env} : ∀ (fuel : Nat) (st : St) (p : Nat), p ≤ srcLen E st → srcLen E st - p < fuel →
    st.base ≤ E.text.length → ∀ fuel', E.text.length - (st.base + p) < fuel' →
    ∃ r st' b q, attrEqLoop E fuel st p = .ok r ∧ eqRes r = (st', b, q) ∧ SameButPos st st' ∧ p ≤ q ∧
      q ≤ srcLen E st ∧ attrEqLoopP E.text fuel' (st.base + p) = (b, st.base + q) := by
  intro fuel
  induction fuel with
  | zero => intro _ _ _ h; omega
  | succ fuel ih =>
    intro st p hp hf hb fuel' hf'
    cases fuel' with
    | zero => omega
    | succ fuel' =>
    unfold attrEqLoop attrEqLoopP
    split
    · rename_i hlt
      obtain ⟨c, hc, _⟩ := srcAt_ok_of_lt hlt
      have hc' := getElem?_of_srcAt hc
      simp only [hc, bind_ok, hc']
      split
      · exact ⟨_, _, false, p + 1, rfl, rfl, SameButPos.addCol st 1, by omega, by omega, by rw [Nat.add_assoc]⟩
      · split
        · have hs : SameButPos st (if c = 0x0a then newline st else addCol st 1) := by
            split
            · exact SameButPos.newline st
            · exact SameButPos.addCol st 1
          obtain ⟨r, st', b, q, hr, hres, s1, s2, s3, s4⟩ := ih _ (p + 1) (by rw [hs.srcLen]; omega)
            (by rw [hs.srcLen]; omega) (by rw [hs.base]; exact hb) fuel'
            (by rw [hs.base]; unfold srcLen at hlt; omega)
          rw [hs.base, ← Nat.add_assoc] at s4
          exact ⟨r, st', b, q, hr, hres, hs.trans s1, by omega, by rw [hs.srcLen] at s3; exact s3, s4⟩
        · exact ⟨_, st, true, p, rfl, rfl, SameButPos.refl st, Nat.le_refl _, hp, rfl⟩
    · rename_i hge
      rw [getElem?_none_of_ge hge hb]
      exact ⟨_, st, false, p, rfl, rfl, SameButPos.refl st, Nat.le_refl _, hp, rfl⟩

theorem attrQuoteLoop_val {E : Env} : ∀ (fuel : Nat) (st : St) (p : Nat), p ≤ srcLen E st → srcLen E st - p < fuel →
    st.base ≤ E.text.length → ∀ fuel', E.text.length - (st.base + p) < fuel' →
    ∃ r st' b q, attrQuoteLoop E fuel st p = .ok r ∧ eqRes r = (st', b, q) ∧ SameButPos st st' ∧ p ≤ q ∧
      q ≤ srcLen E st ∧ attrQuoteLoopP E.text fuel' (st.base + p) = (b, st.base + q) := by
  intro fuel
  induction fuel with
  | zero => intro _ _ _ h; omega
  | succ fuel ih =>
    intro st p hp hf hb fuel' hf'
    cases fuel' with
    | zero => omega
    | succ fuel' =>
    unfold attrQuoteLoop attrQuoteLoopP
    split
    · rename_i hlt
      obtain ⟨c, hc, _⟩ := srcAt_ok_of_lt hlt
      have hc' := getElem?_of_srcAt hc
      simp only [hc, bind_ok, hc']
      split
      · exact ⟨_, st, true, p, rfl, rfl, SameButPos.refl st, Nat.le_refl _, hp, rfl⟩
      · split
        · have hs : SameButPos st (if c = 0x0a then newline st else addCol st 1) := by
            split
            · exact SameButPos.newline st
            · exact SameButPos.addCol st 1
          obtain ⟨r, st', b, q, hr, hres, s1, s2, s3, s4⟩ := ih _ (p + 1) (by rw [hs.srcLen]; omega)
            (by rw [hs.srcLen]; omega) (by rw [hs.base]; exact hb) fuel'
            (by rw [hs.base]; unfold srcLen at hlt; omega)
          rw [hs.base, ← Nat.add_assoc] at s4
          exact ⟨r, st', b, q, hr, hres, hs.trans s1, by omega, by rw [hs.srcLen] at s3; exact s3, s4⟩
        · exact ⟨_, st, false, p, rfl, rfl, SameButPos.refl st, Nat.le_refl _, hp, rfl⟩
    · rename_i hge
      rw [getElem?_none_of_ge hge hb]
      exact ⟨_, st, false, p, rfl, rfl, SameButPos.refl st, Nat.le_refl _, hp, rfl⟩

theorem abs_eq_len {E : Env} {st : St} {q : Nat} (hb : st.base ≤ E.text.length) :
    (st.base + q = E.text.length) ↔ (q = srcLen E st) := by
  unfold srcLen; omega

theorem scanAttribute_val {E : Env} {st : St} {p : Nat} (hp : p ≤ srcLen E st) (hb : st.base ≤ E.text.length) :
    ∃ st' name q, scanAttribute E st p = .ok (st', name, q) ∧ SameButPos st st' ∧ p ≤ q ∧ q ≤ srcLen E st ∧
      scanAttributeP E.U E.text (st.base + p) = (name, st.base + q) := by
  unfold scanAttribute scanAttributeP
  simp only []
  obtain ⟨r, st1, b1, q1, hr, hres, s1, s2, s3, s4⟩ := attrNameLoop_val (E := E) (srcLen E st + 1) st p hp (by omega) hb
    (E.text.length - (st.base + p) + 1) (by omega)
  simp only [hr, bind_ok, s4]
  cases r with
  | stop st1' q1' =>
    cases hres
    exact ⟨st1, [], q1, rfl, s1, s2, s3, rfl⟩
  | done st1' q1' =>
    cases hres
    simp only []
    have hb1 : st1.base = st.base := s1.base
    have hsl1 : srcLen E st1 = srcLen E st := s1.srcLen
    by_cases hq : q1 = p ∨ q1 = srcLen E st1
    · rw [if_pos hq]
      rw [hsl1] at hq
      have hq' : st.base + q1 = st.base + p ∨ st.base + q1 = E.text.length := by
        rcases hq with h | h
        · exact Or.inl (by rw [h])
        · exact Or.inr ((abs_eq_len hb).mpr h)
      rw [if_pos hq']
      exact ⟨st1, [], q1, rfl, s1, s2, s3, rfl⟩
    · rw [if_neg hq]
      rw [hsl1] at hq
      have hq' : ¬ (st.base + q1 = st.base + p ∨ st.base + q1 = E.text.length) := by
        intro h
        rcases h with h | h
        · exact hq (Or.inl (by omega))
        · exact hq (Or.inr ((abs_eq_len hb).mp h))
      rw [if_neg hq']
      have hlen : (E.text.drop st1.base).length = srcLen E st := by rw [hb1]; simp [srcLen]
      rw [sliceOf_ok s2 (by rw [hlen]; exact s3)]
      simp only [bind_ok]
      obtain ⟨r2, st2, b2, q2, hr2, hres2, t1, t2, t3, t4⟩ := attrEqLoop_val (E := E) (srcLen E st + 1) st1 q1
        (by rw [hsl1]; exact s3) (by rw [hsl1]; omega) (by rw [hb1]; exact hb)
        (E.text.length - (st.base + q1) + 1) (by rw [hb1]; omega)
      rw [hb1] at t4
      simp only [hr2, bind_ok, t4]
      rw [hsl1] at t3
      cases r2 with
      | stop st2' q2' =>
        cases hres2
        exact ⟨st2, [], q2, rfl, s1.trans t1, by omega, t3, rfl⟩
      | done st2' q2' =>
        cases hres2
        simp only []
        have s12 := s1.trans t1
        obtain ⟨r3, st3, b3, q3, hr3, hres3, u1, u2, u3, u4⟩ := attrQuoteLoop_val (E := E) (srcLen E st + 1) st2 q2
          (by rw [s12.srcLen]; exact t3) (by rw [s12.srcLen]; omega) (by rw [s12.base]; exact hb)
          (E.text.length - (st.base + q2) + 1) (by rw [s12.base]; omega)
        rw [s12.base] at u4
        simp only [hr3, bind_ok, u4]
        rw [s12.srcLen] at u3
        cases r3 with
        | stop st3' q3' =>
          cases hres3
          exact ⟨st3, [], q3, rfl, s12.trans u1, by omega, u3, rfl⟩
        | done st3' q3' =>
          cases hres3
          simp only []
          have hsl3 : srcLen E st3 = srcLen E st := (s12.trans u1).srcLen
          by_cases hq3 : q3 = srcLen E st3
          · rw [if_pos hq3]
            rw [hsl3] at hq3
            rw [if_pos ((abs_eq_len hb).mpr hq3)]
            exact ⟨st3, [], q3, rfl, s12.trans u1, by omega, u3, rfl⟩
          · rw [if_neg hq3]
            rw [hsl3] at hq3
            rw [if_neg (fun h => hq3 ((abs_eq_len hb).mp h))]
            refine ⟨st3, _, q3, rfl, s12.trans u1, by omega, u3, ?_⟩
            rw [hb1, slice_abs]

end ScriggoV.LexCtx
