import ScriggoV.Model.EnvPool
import ScriggoV.Lemmas.Runs
/-! C19 — the invariant of run histories over pooled argument slices: under sound rules every
callee finds what its own run passes, whatever the pools held and whatever the schedule. -/
namespace ScriggoV.EnvPool
open ScriggoV.Gen.NativeEnv
open ScriggoV.Runs

theorem fillSlice_always (R : Rules) (h : ∀ c, R.fillOf c = .always) (e : Nat) (input : Int) :
    ∀ (sig : List SlotClass) (old : List Slot) (as : List Int),
      fillSlice R e input sig old as = ideal e input sig as := by
  intro sig
  induction sig with
  | nil => intro old as; rfl
  | cons c cs ih =>
    intro old as
    simp only [fillSlice, ideal, h c, writeSlot, ih]

theorem envsOf_ideal (e : Nat) (input : Int) :
    ∀ (sig : List SlotClass) (as : List Int), ∀ e' ∈ envsOf (ideal e input sig as), e' = e := by
  intro sig
  induction sig with
  | nil => intro as e' h; simp [ideal, envsOf] at h
  | cons c cs ih =>
    intro as e' h
    cases c with
    | env =>
      simp only [ideal, newSlot, envsOf, List.mem_cons] at h
      rcases h with h | h
      · exact h
      · exact ih _ _ h
    | reg => simp only [ideal, newSlot, envsOf] at h; exact ih _ _ h
    | variadic => simp only [ideal, newSlot, envsOf] at h; exact ih _ _ h

theorem Rules.Sound.fillOf {R : Rules} (hR : R.Sound) (c : SlotClass) : R.fillOf c = .always := by
  obtain ⟨h1, h2, h3, _⟩ := hR
  cases c <;> simp [Rules.fillOf, h1, h2, h3]

theorem envArg_sound {R : Rules} (hR : R.Sound) (l : EnvPool.Run) (k : VMKind) : envArg R l k = l.env := by
  obtain ⟨_, _, _, h4, h5, h6, _⟩ := hR
  cases k <;> simp [envArg, vmEnv, h4, h5, h6]

/-- what a sound call hands its callee -/
theorem seen_good {R : Rules} (hR : R.Sound) (l : EnvPool.Run) (c : Call) (sig : List SlotClass)
    (old : List Slot) :
    Seen.Good l.env ⟨c.f, if R.fillBeforeCall then fillSlice R (envArg R l c.vm) l.input sig old c.args else old,
      ideal l.env l.input sig c.args⟩ := by
  have h7 : R.fillBeforeCall = true := hR.2.2.2.2.2.2
  refine ⟨?_, envsOf_ideal _ _ _ _⟩
  simp only [h7, if_true]
  rw [fillSlice_always R hR.fillOf, envArg_sound hR]

theorem deliver_good (sh : Artefact) (l : EnvPool.Run) (hin : ∀ p ∈ l.inflight, p.Good l.env) :
    (deliver sh l).2.1.env = l.env ∧
    (∀ p ∈ (deliver sh l).2.1.inflight, p.Good l.env) ∧
    (∀ o ∈ (deliver sh l).2.2, o.Good l.env) := by
  obtain ⟨env, input, pc, inflight⟩ := l
  cases inflight with
  | nil => exact ⟨rfl, hin, fun o ho => by cases ho⟩
  | cons p rest =>
    refine ⟨rfl, fun q hq => hin q (List.mem_cons_of_mem _ hq), fun o ho => ?_⟩
    simp only [deliver, List.mem_cons, List.not_mem_nil, or_false] at ho
    rw [ho]; exact hin p List.mem_cons_self

theorem callStep_good {R : Rules} (hR : R.Sound) (sh : Artefact) (l : EnvPool.Run) (c : Call)
    (hin : ∀ p ∈ l.inflight, p.Good l.env) :
    (callStep R sh l c).2.1.env = l.env ∧
    (∀ p ∈ (callStep R sh l c).2.1.inflight, p.Good l.env) ∧
    (∀ o ∈ (callStep R sh l c).2.2, o.Good l.env) := by
  have hs := seen_good hR l c (sh.natives.getD c.f []) (poolGet sh.pools c.f).1
  unfold callStep
  cases hc : c.async with
  | true =>
    refine ⟨rfl, fun p hp => ?_, fun o ho => by cases ho⟩
    simp only [if_true, List.mem_append, List.mem_cons, List.not_mem_nil, or_false] at hp
    rcases hp with hp | hp
    · exact hin p hp
    · rw [hp]; exact hs
  | false =>
    refine ⟨rfl, hin, fun o ho => ?_⟩
    simp only [Bool.false_eq_true, if_false, List.mem_cons, List.not_mem_nil, or_false] at ho
    rw [ho]; exact hs

/-- one step of a run keeps the run's env, and everything it hands to a callee — now or later —
is what this run passes -/
theorem step_good {R : Rules} (hR : R.Sound) (sh : Artefact) (l : EnvPool.Run)
    (hin : ∀ p ∈ l.inflight, p.Good l.env) :
    (step R sh l).2.1.env = l.env ∧
    (∀ p ∈ (step R sh l).2.1.inflight, p.Good l.env) ∧
    (∀ o ∈ (step R sh l).2.2, o.Good l.env) := by
  unfold step
  cases sh.body[l.pc]? with
  | none => exact deliver_good sh l hin
  | some c => exact callStep_good hR sh l c hin

/-- the invariant of a history that started in `s₀` -/
def Inv (R : Rules) (s₀ s : Sys (machine R)) : Prop :=
  (∀ (i : Nat) (l : EnvPool.Run), s.ls[i]? = some l →
    ∃ l₀ : EnvPool.Run, s₀.ls[i]? = some l₀ ∧ l.env = l₀.env ∧ ∀ p ∈ l.inflight, Seen.Good l.env p) ∧
  (∀ p ∈ s.trace, ∃ l₀ : EnvPool.Run, s₀.ls[p.1]? = some l₀ ∧ Seen.Good l₀.env p.2)

theorem inv_stepRun {R : Rules} (hR : R.Sound) (s₀ s : Sys (machine R)) (i : Nat)
    (h : Inv R s₀ s) : Inv R s₀ (stepRun i s) := by
  cases hl : s.ls[i]? with
  | none => rw [stepRun_none s hl]; exact h
  | some l =>
    obtain ⟨l₀, hl₀, henv, hin⟩ := h.1 i l hl
    obtain ⟨g1, g2, g3⟩ := step_good hR s.sh l hin
    have hi : i < s.ls.length := by
      rcases Nat.lt_or_ge i s.ls.length with h' | h'
      · exact h'
      · rw [List.getElem?_eq_none h'] at hl; cases hl
    have hst : stepRun i s = ⟨(step R s.sh l).1, s.ls.set i (step R s.sh l).2.1,
        s.trace ++ (step R s.sh l).2.2.map (fun o => (i, o))⟩ := by
      unfold stepRun; rw [hl]
    rw [hst]
    refine ⟨?_, ?_⟩
    · intro j lj hj
      by_cases hij : i = j
      · subst hij
        simp only [List.getElem?_set_self hi, Option.some.injEq] at hj
        subst hj
        exact ⟨l₀, hl₀, g1.trans henv, fun p hp => by rw [g1]; exact g2 p hp⟩
      · simp only [List.getElem?_set_ne hij] at hj
        exact h.1 j lj hj
    · intro p hp
      simp only [List.mem_append, List.mem_map] at hp
      rcases hp with hp | ⟨o, ho, rfl⟩
      · exact h.2 p hp
      · exact ⟨l₀, hl₀, by rw [← henv]; exact g3 o ho⟩

theorem inv_runSched {R : Rules} (hR : R.Sound) (s₀ : Sys (machine R)) (sched : List Nat) :
    ∀ s, Inv R s₀ s → Inv R s₀ (runSched sched s) := by
  induction sched with
  | nil => intro s h; exact h
  | cons i rest ih => intro s h; exact ih _ (inv_stepRun hR s₀ s i h)

end ScriggoV.EnvPool
