import ScriggoV.Model.LinkDest
import ScriggoV.Spec.CommonMarkDest
/-! Helper lemmas for C29: the scanners `parseDestination`, `parseTitle`, `findLabelEnd` — index
bounds and agreement with the CommonMark destination / label grammar. -/
namespace ScriggoV.LinkDest
open ScriggoV.CommonMarkDest

theorem isPunct_eq (c : UInt8) : isPunct c = CommonMarkLex.isAsciiPunct c := rfl

theorem countSpaces_le (l : Bytes) : countSpaces l ≤ l.length := by
  induction l with
  | nil => simp [countSpaces]
  | cons c rest ih => unfold countSpaces; split <;> simp <;> omega

/-! ### bare destinations -/

theorem plainScan_shift (l : Bytes) : ∀ sl op i k,
    plainScan sl op l (i + k) = plainScan sl op l i + k := by
  induction l with
  | nil => intro sl op i k; simp [plainScan]
  | cons c rest ih =>
    intro sl op i k
    have e : i + k + 1 = i + 1 + k := by omega
    unfold plainScan
    simp only [e, ih]
    repeat' split
    all_goals rfl

theorem plainScan_le (l : Bytes) : ∀ sl op, plainScan sl op l 0 ≤ l.length := by
  induction l with
  | nil => intro sl op; simp [plainScan]
  | cons c rest ih =>
    intro sl op
    unfold plainScan
    have s : ∀ sl op, plainScan sl op rest (0 + 1) = plainScan sl op rest 0 + 1 :=
      fun sl op => plainScan_shift rest sl op 0 1
    simp only [s, List.length_cons]
    repeat' split
    all_goals first | omega | (have := ih false op; omega) | skip
    all_goals first
      | (have := ih true op; omega)
      | (have := ih false (op + 1); omega)
      | (have := ih false (op - 1); omega)

/-- the number of `(` open where the bare-destination loop stops -/
def plainEndDepth : Bool → Nat → Bytes → Nat
  | _, opened, [] => opened
  | sl, opened, c :: rest =>
    if sl && isPunct c then plainEndDepth false opened rest
    else if c == 92 then plainEndDepth true opened rest
    else if c == 40 then plainEndDepth false (opened + 1) rest
    else if c == 41 then (if opened == 0 then 0 else plainEndDepth false (opened - 1) rest)
    else if isSpace c then opened
    else plainEndDepth false opened rest

/-- no ASCII control character and no DEL (space, tab and line endings stop the loop anyway) -/
def noCtl : Bytes → Bool
  | [] => true
  | c :: rest => !(CommonMarkDest.isCtlOrSpace c && !isSpace c) && noCtl rest

theorem bare_sound (l : Bytes) : ∀ sl op,
    noCtl (l.take (plainScan sl op l 0)) = true → plainEndDepth sl op l = 0 →
      bareBody sl op (l.take (plainScan sl op l 0)) = true := by
  induction l with
  | nil => intro sl op _ h; simp [plainEndDepth] at h; simp [plainScan, bareBody, h]
  | cons c rest ih =>
    intro sl op hc hd
    have s : ∀ sl op, plainScan sl op rest (0 + 1) = plainScan sl op rest 0 + 1 :=
      fun sl op => plainScan_shift rest sl op 0 1
    unfold plainScan at hc ⊢
    unfold plainEndDepth at hd
    simp only [s] at hc ⊢
    by_cases h1 : (sl && isPunct c) = true
    · simp only [h1, if_true, List.take_succ_cons] at hc hd ⊢
      simp only [noCtl, Bool.and_eq_true] at hc
      unfold bareBody
      rw [← isPunct_eq, h1]; simp only [if_true]
      exact ih _ _ hc.2 hd
    · have h1' : (sl && isPunct c) = false := Bool.eq_false_iff.2 h1
      simp only [h1, Bool.false_eq_true, if_false] at hc hd ⊢
      by_cases h2 : (c == 92) = true
      · have hc92 : c = 92 := by simpa using h2
        subst hc92
        simp only [beq_self_eq_true, if_true, List.take_succ_cons] at hc hd ⊢
        simp only [noCtl, Bool.and_eq_true] at hc
        unfold bareBody
        rw [← isPunct_eq, h1']
        have : CommonMarkDest.isCtlOrSpace 92 = false := by decide
        simp only [Bool.false_eq_true, if_false, this]
        have e1 : ((92 : UInt8) == 40) = false := by decide
        have e2 : ((92 : UInt8) == 41) = false := by decide
        simp only [e1, e2, Bool.false_eq_true, if_false, beq_self_eq_true]
        exact ih _ _ hc.2 hd
      · simp only [h2, Bool.false_eq_true, if_false] at hc hd ⊢
        by_cases h3 : (c == 40) = true
        · have hc40 : c = 40 := by simpa using h3
          subst hc40
          simp only [beq_self_eq_true, if_true, List.take_succ_cons] at hc hd ⊢
          simp only [noCtl, Bool.and_eq_true] at hc
          unfold bareBody
          rw [← isPunct_eq, h1']
          have : CommonMarkDest.isCtlOrSpace 40 = false := by decide
          simp only [Bool.false_eq_true, if_false, this, beq_self_eq_true, if_true]
          exact ih _ _ hc.2 hd
        · simp only [h3, Bool.false_eq_true, if_false] at hc hd ⊢
          by_cases h4 : (c == 41) = true
          · have hc41 : c = 41 := by simpa using h4
            subst hc41
            simp only [beq_self_eq_true, if_true] at hc hd ⊢
            by_cases h0 : (op == 0) = true
            · have : op = 0 := by simpa using h0
              subst this
              simp [bareBody]
            · simp only [h0, Bool.false_eq_true, if_false, List.take_succ_cons] at hc hd ⊢
              simp only [noCtl, Bool.and_eq_true] at hc
              unfold bareBody
              rw [← isPunct_eq, h1']
              have : CommonMarkDest.isCtlOrSpace 41 = false := by decide
              have e1 : ((41 : UInt8) == 40) = false := by decide
              have hne : (op != 0) = true := by simpa using h0
              simp only [Bool.false_eq_true, if_false, this, e1, beq_self_eq_true, if_true, hne,
                Bool.true_and]
              exact ih _ _ hc.2 hd
          · simp only [h4, Bool.false_eq_true, if_false] at hc hd ⊢
            by_cases h5 : isSpace c = true
            · simp only [h5, if_true] at hd ⊢
              subst hd
              simp [bareBody]
            · simp only [h5, Bool.false_eq_true, if_false, List.take_succ_cons] at hc hd ⊢
              simp only [noCtl, Bool.and_eq_true, Bool.not_eq_true', Bool.and_eq_false_imp,
                Bool.not_eq_false'] at hc
              have h5' : isSpace c = false := by simpa using h5
              have hctl : CommonMarkDest.isCtlOrSpace c = false := by
                cases hcc : CommonMarkDest.isCtlOrSpace c with
                | false => rfl
                | true => have := hc.1 hcc; rw [h5'] at this; cases this
              unfold bareBody
              rw [← isPunct_eq, h1']
              simp only [Bool.false_eq_true, if_false, hctl, h3, h4, h2]
              exact ih _ _ hc.2 hd

/-! ### `<…>` destinations -/

theorem angleScan_shift (l : Bytes) : ∀ sl i k,
    angleScan sl l (i + k) = (angleScan sl l i).map (· + k) := by
  induction l with
  | nil => intro sl i k; simp [angleScan]
  | cons c rest ih =>
    intro sl i k
    have e : i + k + 1 = i + 1 + k := by omega
    unfold angleScan
    simp only [e, ih]
    repeat' split
    all_goals simp

/-- no line ending and no `<` in the span (the class of the soundness statement) -/
def noLtEol : Bytes → Bool
  | [] => true
  | c :: rest => !(c == 10 || c == 13 || c == 60) && noLtEol rest

theorem angle_sound (l : Bytes) : ∀ sl k, angleScan sl l 0 = some k →
    k < l.length ∧ l[k]? = some 62 ∧
      (noLtEol (l.take k) = true → angleBody sl (l.take k) = true) := by
  induction l with
  | nil => intro sl k h; simp [angleScan] at h
  | cons c rest ih =>
    intro sl k h
    have s : ∀ sl, angleScan sl rest (0 + 1) = (angleScan sl rest 0).map (· + 1) :=
      fun sl => angleScan_shift rest sl 0 1
    unfold angleScan at h
    simp only [s] at h
    by_cases h1 : (sl && isPunct c) = true
    · simp only [h1, if_true, Option.map_eq_some_iff] at h
      obtain ⟨k', hk', rfl⟩ := h
      obtain ⟨a, b, d⟩ := ih _ _ hk'
      refine ⟨by simp; omega, by simpa using b, ?_⟩
      intro hn
      simp only [List.take_succ_cons, noLtEol, Bool.and_eq_true] at hn ⊢
      unfold angleBody
      rw [← isPunct_eq, h1]; simp only [if_true]
      exact d hn.2
    · have h1' : (sl && isPunct c) = false := Bool.eq_false_iff.2 h1
      simp only [h1, Bool.false_eq_true, if_false] at h
      by_cases h2 : (c == 92) = true
      · have hc : c = 92 := by simpa using h2
        subst hc
        simp only [beq_self_eq_true, if_true, Option.map_eq_some_iff] at h
        obtain ⟨k', hk', rfl⟩ := h
        obtain ⟨a, b, d⟩ := ih _ _ hk'
        refine ⟨by simp; omega, by simpa using b, ?_⟩
        intro hn
        simp only [List.take_succ_cons, noLtEol, Bool.and_eq_true] at hn ⊢
        unfold angleBody
        rw [← isPunct_eq, h1']
        have e : ((92 : UInt8) == 10 || (92 : UInt8) == 13 || (92 : UInt8) == 60 || (92 : UInt8) == 62) = false := by decide
        simp only [Bool.false_eq_true, if_false, e, beq_self_eq_true]
        exact d hn.2
      · simp only [h2, Bool.false_eq_true, if_false] at h
        by_cases h3 : (c == 62) = true
        · have hc : c = 62 := by simpa using h3
          subst hc
          simp only [beq_self_eq_true, if_true, Option.some.injEq] at h
          subst h
          simp [angleBody]
        · simp only [h3, Bool.false_eq_true, if_false, Option.map_eq_some_iff] at h
          obtain ⟨k', hk', rfl⟩ := h
          obtain ⟨a, b, d⟩ := ih _ _ hk'
          refine ⟨by simp; omega, by simpa using b, ?_⟩
          intro hn
          simp only [List.take_succ_cons, noLtEol, Bool.and_eq_true, Bool.not_eq_true',
            Bool.or_eq_false_iff] at hn ⊢
          unfold angleBody
          rw [← isPunct_eq, h1']
          have h3' : (c == 62) = false := Bool.eq_false_iff.2 h3
          have h2' : (c == 92) = false := Bool.eq_false_iff.2 h2
          simp only [Bool.false_eq_true, if_false, hn.1.1.1, hn.1.1.2, hn.1.2, h3', h2', Bool.or_self]
          exact d hn.2

/-! ### titles -/

theorem titleScan_bounds (closer : UInt8) (l : Bytes) : ∀ sl i k,
    titleScan closer sl l i = some k → (sl = true → 1 ≤ i) →
      (if sl then i ≤ k + 1 else i ≤ k) ∧ k < i + l.length := by
  induction l with
  | nil =>
    intro sl i k h hs
    unfold titleScan at h
    split at h
    · rename_i hc
      simp only [Bool.and_eq_true] at hc
      have := hs hc.1
      cases h
      simp [hc.1]; omega
    · cases h
  | cons c rest ih =>
    intro sl i k h hs
    unfold titleScan at h
    simp only [List.length_cons]
    split at h
    · obtain ⟨a, b⟩ := ih false (i + 1) k h (by simp)
      simp only [Bool.false_eq_true, if_false] at a
      constructor
      · split <;> omega
      · omega
    · split at h
      · rename_i hc
        simp only [Bool.and_eq_true] at hc
        have := hs hc.1
        cases h
        simp [hc.1]; omega
      · split at h
        · obtain ⟨a, b⟩ := ih true (i + 1) k h (by simp)
          simp only [if_true] at a
          constructor
          · split <;> omega
          · omega
        · split at h
          · cases h
            constructor
            · split <;> omega
            · omega
          · obtain ⟨a, b⟩ := ih false (i + 1) k h (by simp)
            simp only [Bool.false_eq_true, if_false] at a
            constructor
            · split <;> omega
            · omega

/-! ### labels -/

theorem labelScan_shift (l : Bytes) : ∀ sl i k,
    labelScan sl l (i + k) = (labelScan sl l i).map (· + k) := by
  induction l with
  | nil => intro sl i k; simp [labelScan]
  | cons c rest ih =>
    intro sl i k
    have e : i + k + 1 = i + 1 + k := by omega
    unfold labelScan
    simp only [e, ih]
    repeat' split
    all_goals simp

theorem label_sound (l : Bytes) : ∀ sl k, labelScan sl l 0 = some k →
    k < l.length ∧ l[k]? = some 93 ∧ noBareBracket sl (l.take k) = true := by
  induction l with
  | nil => intro sl k h; simp [labelScan] at h
  | cons c rest ih =>
    intro sl k h
    have s : ∀ sl, labelScan sl rest (0 + 1) = (labelScan sl rest 0).map (· + 1) :=
      fun sl => labelScan_shift rest sl 0 1
    unfold labelScan at h
    simp only [s] at h
    by_cases h1 : (sl && isPunct c) = true
    · simp only [h1, if_true, Option.map_eq_some_iff] at h
      obtain ⟨k', hk', rfl⟩ := h
      obtain ⟨a, b, d⟩ := ih _ _ hk'
      refine ⟨by simp; omega, by simpa using b, ?_⟩
      simp only [List.take_succ_cons]
      unfold noBareBracket
      rw [← isPunct_eq, h1]; simp only [if_true]
      exact d
    · have h1' : (sl && isPunct c) = false := Bool.eq_false_iff.2 h1
      simp only [h1, Bool.false_eq_true, if_false] at h
      by_cases h2 : (c == 91) = true
      · simp [h2] at h
      · simp only [h2, Bool.false_eq_true, if_false] at h
        by_cases h3 : (c == 93) = true
        · have hc : c = 93 := by simpa using h3
          subst hc
          simp only [beq_self_eq_true, if_true, Option.some.injEq] at h
          subst h
          simp [noBareBracket]
        · simp only [h3, Bool.false_eq_true, if_false, Option.map_eq_some_iff] at h
          obtain ⟨k', hk', rfl⟩ := h
          obtain ⟨a, b, d⟩ := ih _ _ hk'
          refine ⟨by simp; omega, by simpa using b, ?_⟩
          simp only [List.take_succ_cons]
          unfold noBareBracket
          rw [← isPunct_eq, h1']
          have h2' : (c == 91) = false := Bool.eq_false_iff.2 h2
          have h3' : (c == 93) = false := Bool.eq_false_iff.2 h3
          simp only [Bool.false_eq_true, if_false, h2', h3', Bool.or_self]
          exact d

/-! ### from suffixes to indices of the line -/

theorem drop_cons_facts {line : Bytes} {p : Nat} {c : UInt8} {rest : Bytes}
    (h : line.drop p = c :: rest) :
    p < line.length ∧ line[p]? = some c ∧ rest = line.drop (p + 1) ∧
      rest.length + p + 1 = line.length := by
  have hlen : (line.drop p).length = rest.length + 1 := by rw [h]; simp
  rw [List.length_drop] at hlen
  have h0 : (line.drop p)[0]? = some c := by rw [h]; simp
  rw [List.getElem?_drop] at h0
  have hr : (line.drop p).drop 1 = rest := by rw [h]; simp
  rw [List.drop_drop] at hr
  refine ⟨by omega, by simpa using h0, ?_, by omega⟩
  rw [← hr]

theorem parseDestination_spec (line : Bytes) (pos a b e : Nat)
    (h : parseDestination line pos = some (a, b, e)) :
    pos ≤ a ∧ a ≤ b ∧ b ≤ e ∧ e ≤ line.length ∧
    ((e = b + 1 ∧ 1 ≤ a ∧ line[a - 1]? = some 60 ∧ line[b]? = some 62 ∧
        (noLtEol ((line.drop a).take (b - a)) = true →
          angleBody false ((line.drop a).take (b - a)) = true)) ∨
     (e = b ∧ a < b ∧
        (noCtl ((line.drop a).take (b - a)) = true → plainEndDepth false 0 (line.drop a) = 0 →
          bareDest ((line.drop a).take (b - a)) = true))) := by
  unfold parseDestination at h
  simp only at h
  generalize hp : pos + countSpaces (line.drop pos) = p at h
  have hpos : pos ≤ p := by omega
  split at h
  · cases h
  · rename_i c rest hdrop
    obtain ⟨hlt, hget, hrest, hlen⟩ := drop_cons_facts hdrop
    split at h
    · rename_i hc60
      have hc : c = 60 := by simpa using hc60
      subst hc
      split at h
      · rename_i k hk
        simp only [Option.some.injEq, Prod.mk.injEq] at h
        obtain ⟨rfl, rfl, rfl⟩ := h
        obtain ⟨hk1, hk2, hk3⟩ := angle_sound rest false k hk
        refine ⟨by omega, by omega, by omega, by omega, Or.inl ⟨rfl, by omega, ?_, ?_, ?_⟩⟩
        · simpa using hget
        · rw [hrest, List.getElem?_drop] at hk2
          simpa [Nat.add_assoc] using hk2
        · have e1 : p + 1 + k - (p + 1) = k := by omega
          rw [e1, ← hrest]
          exact hk3
      · cases h
    · rename_i hc60
      split at h
      · cases h
      · rename_i hn
        simp only [Option.some.injEq, Prod.mk.injEq] at h
        obtain ⟨rfl, rfl, rfl⟩ := h
        have hle := plainScan_le (c :: rest) false 0
        simp only [List.length_cons] at hle
        have hn0 : plainScan false 0 (c :: rest) 0 ≠ 0 := by simpa using hn
        refine ⟨hpos, by omega, by omega, by omega, Or.inr ⟨rfl, by omega, ?_⟩⟩
        intro h1 h2
        have e1 : p + plainScan false 0 (c :: rest) 0 - p = plainScan false 0 (c :: rest) 0 := by omega
        rw [e1, hdrop] at h1 ⊢
        rw [hdrop] at h2
        have hb := bare_sound (c :: rest) false 0 h1 h2
        unfold bareDest
        cases hn' : plainScan false 0 (c :: rest) 0 with
        | zero => exact absurd hn' hn0
        | succ m =>
          rw [hn'] at hb
          simp only [List.take_succ_cons] at hb ⊢
          have : (c != 60) = true := by simpa using hc60
          simp [this, hb]

theorem parseTitle_spec (line : Bytes) (pos : Nat) :
    (line.length ≤ pos → parseTitle line pos = .error .index) ∧
    (pos < line.length → ∃ r, parseTitle line pos = .ok r ∧
        ∀ e, r = some e → pos + 2 ≤ e ∧ e ≤ line.length) := by
  unfold parseTitle
  constructor
  · intro h
    rw [List.drop_eq_nil_of_le h]
  · intro h
    cases hd : line.drop pos with
    | nil =>
      have := congrArg List.length hd
      simp at this; omega
    | cons opener rest =>
      obtain ⟨_, _, _, hlen⟩ := drop_cons_facts hd
      refine ⟨_, rfl, ?_⟩
      intro e he
      simp only [Option.map_eq_some_iff] at he
      obtain ⟨k, hk, rfl⟩ := he
      obtain ⟨a, b⟩ := titleScan_bounds _ rest false 0 k hk (by simp)
      omega

theorem findLabelEnd_spec (line : Bytes) (pos e : Nat) (h : findLabelEnd line pos = some e) :
    pos ≤ e ∧ e < line.length ∧ line[e]? = some 93 ∧
      noBareBracket false ((line.drop pos).take (e - pos)) = true := by
  unfold findLabelEnd at h
  simp only [Option.map_eq_some_iff] at h
  obtain ⟨k, hk, rfl⟩ := h
  obtain ⟨a, b, d⟩ := label_sound (line.drop pos) false k hk
  rw [List.length_drop] at a
  rw [List.getElem?_drop] at b
  refine ⟨by omega, by omega, b, ?_⟩
  have : pos + k - pos = k := by omega
  rw [this]; exact d

end ScriggoV.LinkDest
