import ScriggoV.Lemmas.ConstIntRep
/-! `intConst.binaryOp` of the model (generated table `bigBinary` + the trusted meaning `bigSem` of the
math/big methods) against the exact operators. -/
namespace ScriggoV.ConstEval
open ScriggoV.Spec.GoConst ScriggoV.Gen.ConstInt

theorem sBig_unfold (op : Op) (x y : Int) : sBigArith op x y =
    if ((bigBinary op).refusesZeroDivisor && y == 0) = true then .error .divZero
    else match bigSem (bigBinary op).method x y with
      | none => .error .fault
      | some r => if ((bigBinary op).checksOverflow && bigOverflows r) = true then .error .untypedOverflow else .ok (.big r) := rfl

/-- `intConst.binaryOp` computes the operator exactly (given the meaning of math/big) -/
theorem sBigArith_spec (op : Arith) (x y : Int) :
    match arith op x y with
    | none => sBigArith (toOp op) x y = .error .divZero
    | some r =>
      if ((bigBinary (toOp op)).checksOverflow && bigOverflows r) = true then
        sBigArith (toOp op) x y = .error .untypedOverflow
      else ∃ c, sBigArith (toOp op) x y = .ok c ∧ c.val = r := by
  rw [sBig_unfold]
  generalize bigOverflows = f
  cases op <;>
    simp only [arith, toOp, bigBinary, bigSem, Bool.false_and, Bool.false_eq_true, if_false, Bool.true_and] <;>
    first
      | (split <;> simp_all [SC.val])
      | (by_cases hy : y = 0 <;> simp [hy, SC.val])

set_option exponentiation.threshold 600 in
/-- a value that fits an int64 is far below the 512-bit limit -/
theorem not_bigOverflows_of_fits (r : Int) (h : fitsInt64 r = true) : bigOverflows r = false := by
  rw [fitsInt64_iff] at h
  unfold bigOverflows
  have e : overflowBits = 512 := by decide
  rw [e]
  have : (2:Nat) ^ 64 ≤ 2 ^ 512 := Nat.pow_le_pow_right (by decide) (by decide)
  have h64 : (2:Nat) ^ 64 = 18446744073709551616 := by decide
  rw [decide_eq_false_iff_not]
  omega

end ScriggoV.ConstEval
