import ScriggoV.Model.LinkDestInline
import ScriggoV.Lemmas.LinkDestFence
import ScriggoV.Spec.CommonMarkCodeSpan
/-! Lemmas for the inline scanner of C29: what the loop does, with its tests in the regenerated
order, on a backtick in normal state, on any byte inside a code span, and on the closing
backtick string. -/
namespace ScriggoV.LinkDest
open ScriggoV.Gen.LinkDestInline ScriggoV.CommonMarkCodeSpan

def ticks (n : Nat) : Bytes := List.replicate n 96

theorem tickPrefix_eq_countRun (l : Bytes) : tickPrefix l = countRun 96 l := by
  induction l with
  | nil => rfl
  | cons c rest ih => simp [tickPrefix, countRun, ih]

theorem scanInline_succ_cons (skip depth cs pos : Nat) (c : UInt8) (rest : Bytes) :
    scanInline (skip + 1) depth cs pos (c :: rest) = scanInline skip depth cs (pos + 1) rest := by
  rw [scanInline]

/-- a step without a destination -/
theorem scanInline_step_none (depth cs pos adv depth' cs' : Nat) (c : UInt8) (rest : Bytes)
    (h : firstStep loopOrder depth cs c rest = .go adv depth' cs' none) :
    scanInline 0 depth cs pos (c :: rest) = scanInline (adv - 1) depth' cs' (pos + 1) rest := by
  rw [scanInline, h]
  simp only
  cases scanInline (adv - 1) depth' cs' (pos + 1) rest <;> rfl

theorem countRun_cons_self (c : UInt8) (l : Bytes) : countRun c (c :: l) = countRun c l + 1 := by
  simp [countRun]

/-- bytes a test has consumed are passed over without being looked at -/
theorem scanInline_skip (pre : Bytes) : ∀ (depth cs pos : Nat) (l : Bytes),
    scanInline pre.length depth cs pos (pre ++ l) = scanInline 0 depth cs (pos + pre.length) l := by
  induction pre with
  | nil => intro depth cs pos l; simp
  | cons c rest ih =>
    intro depth cs pos l
    rw [List.length_cons, List.cons_append, scanInline_succ_cons, ih,
      show pos + 1 + rest.length = pos + (rest.length + 1) by omega]

/-- a run that ends inside `s` (its last byte is no backtick) is not lengthened by what follows -/
theorem countRun_append_last (s x : Bytes) (hne : s ≠ []) (hl : s.getLast? ≠ some 96) :
    countRun 96 (s ++ x) = countRun 96 s := by
  induction s with
  | nil => exact absurd rfl hne
  | cons c r ih =>
    cases r with
    | nil =>
      have hc : c ≠ 96 := fun e => hl (by simp [e])
      simp [countRun, hc]
    | cons d t =>
      have hl' : (d :: t).getLast? ≠ some 96 := by
        simpa [List.getLast?_cons_cons] using hl
      have := ih (by simp) hl'
      by_cases hc : c = 96
      · subst hc
        simp only [List.cons_append] at this ⊢
        rw [countRun_cons_self, countRun_cons_self, this]
      · simp [countRun, hc]

/-- the step taken on a byte inside a code span, when the backticks that begin here are not
exactly `cs`: the byte is passed over, whatever it is -/
theorem firstStep_in_codespan (depth cs : Nat) (c : UInt8) (rest : Bytes) (hcs : 0 < cs)
    (h : countRun 96 (c :: rest) ≠ cs) :
    firstStep loopOrder depth cs c rest = .go 1 depth cs none := by
  have hcs' : cs > 0 := hcs
  by_cases hc : c = 96
  · subst hc
    simp [loopOrder, firstStep, handler, hcs', h]
  · simp [loopOrder, firstStep, handler, hcs', hc]

/-- inside a code span every byte of a content without a backtick string of `n` or more
backticks is literal: the scan reaches the end of the content in the same state -/
theorem scanInline_content (n : Nat) (hn : 0 < n) (tail : Bytes) : ∀ (body : Bytes) (depth pos : Nat),
    stringsBelow n body = true → body.getLast? ≠ some 96 →
    scanInline 0 depth n pos (body ++ tail) = scanInline 0 depth n (pos + body.length) tail := by
  intro body
  induction body with
  | nil => intro depth pos _ _; simp
  | cons c r ih =>
    intro depth pos hb hl
    simp only [stringsBelow, Bool.and_eq_true, decide_eq_true_eq] at hb
    have hrun : countRun 96 (c :: (r ++ tail)) ≠ n := by
      have := countRun_append_last (c :: r) tail (by simp) hl
      rw [List.cons_append] at this
      rw [this, ← tickPrefix_eq_countRun]
      omega
    have hl' : r.getLast? ≠ some 96 := by
      cases r with
      | nil => simp
      | cons d t => simpa [List.getLast?_cons_cons] using hl
    rw [List.cons_append,
      scanInline_step_none _ _ _ _ _ _ _ _ (firstStep_in_codespan depth n c (r ++ tail) hn hrun),
      Nat.sub_self, ih depth (pos + 1) hb.2 hl', List.length_cons,
      show pos + 1 + r.length = pos + (r.length + 1) by omega]

/-- a backtick outside a code span opens one, as long as its run -/
theorem firstStep_open (depth : Nat) (rest : Bytes) :
    firstStep loopOrder depth 0 96 rest =
      .go (countRun 96 (96 :: rest)) depth (countRun 96 (96 :: rest)) none := by
  simp [loopOrder, firstStep, handler]

theorem afterRun_ok (l : Bytes) : notTickNext (l.drop (countRun 96 l)) = true := by
  have h := (countRun_split 96 l).2
  cases hd : l.drop (countRun 96 l) with
  | nil => rfl
  | cons d t =>
    rw [hd] at h
    have : d ≠ 96 := fun e => h (by simp [e])
    simp [notTickNext, this]

/-- inside a code span of `n`, a backtick string of exactly `n` closes it -/
theorem firstStep_close (depth n : Nat) (rest : Bytes) (hn : 0 < n)
    (h : countRun 96 (96 :: rest) = n) :
    firstStep loopOrder depth n 96 rest = .go n depth 0 none := by
  have hn' : n > 0 := hn
  have ha := afterRun_ok (96 :: rest)
  rw [h] at ha
  simp [loopOrder, firstStep, handler, hn', h, ha]

/-- the whole code span: opening string, content, closing string -/
theorem scanInline_codespan (n : Nat) (body rest : Bytes) (depth pos : Nat) (hn : 0 < n)
    (hb : body ≠ []) (hh : body.head? ≠ some 96) (hl : body.getLast? ≠ some 96)
    (hs : stringsBelow n body = true) (hr : rest.head? ≠ some 96) :
    scanInline 0 depth 0 pos (ticks n ++ (body ++ (ticks n ++ rest))) =
      scanInline 0 depth 0 (pos + (n + body.length + n)) rest := by
  obtain ⟨m, rfl⟩ : ∃ m, n = m + 1 := ⟨n - 1, by omega⟩
  have hX : (body ++ (ticks (m + 1) ++ rest)).head? ≠ some 96 := by
    cases body with
    | nil => exact absurd rfl hb
    | cons c r => simpa using hh
  have hopen : countRun 96 (96 :: (ticks m ++ (body ++ (ticks (m + 1) ++ rest)))) = m + 1 := by
    have := countRun_replicate 96 (m + 1) (body ++ (ticks (m + 1) ++ rest)) hX
    simpa [ticks, List.replicate_succ] using this
  have hclose : countRun 96 (96 :: (ticks m ++ rest)) = m + 1 := by
    have := countRun_replicate 96 (m + 1) rest hr
    simpa [ticks, List.replicate_succ] using this
  have e1 : ∀ X, ticks (m + 1) ++ X = 96 :: (ticks m ++ X) := by
    intro X; simp [ticks, List.replicate_succ]
  have hlen : (ticks m).length = m := by simp [ticks]
  rw [e1, scanInline_step_none _ _ _ _ _ _ _ _ (firstStep_open depth _), hopen, Nat.add_sub_cancel]
  have s1 := scanInline_skip (ticks m) depth (m + 1) (pos + 1) (body ++ (ticks (m + 1) ++ rest))
  rw [hlen] at s1
  rw [s1, scanInline_content (m + 1) (by omega) _ body depth _ hs hl, e1,
    scanInline_step_none _ _ _ _ _ _ _ _ (firstStep_close depth (m + 1) _ (by omega) hclose),
    Nat.add_sub_cancel]
  have s2 := scanInline_skip (ticks m) depth 0 (pos + 1 + m + body.length + 1) rest
  rw [hlen] at s2
  rw [s2]
  congr 1
  omega

end ScriggoV.LinkDest
