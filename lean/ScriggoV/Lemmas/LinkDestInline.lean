import ScriggoV.Model.LinkDestInline
import ScriggoV.Lemmas.LinkDestFence
import ScriggoV.Spec.CommonMarkCodeSpan
/-! Lemmas for the inline scanner of C29: what the loop does, with its tests in the regenerated
order, on a backtick in normal state, on any byte and on any backtick string inside a code span, and on
the closing backtick string (the rule of fix 8b404d9: a backtick string is passed over as a
whole, one of another length is content). -/
namespace ScriggoV.LinkDest
open ScriggoV.Gen.LinkDestInline ScriggoV.CommonMarkCodeSpan

def ticks (n : Nat) : Bytes := List.replicate n 96

theorem tickPrefix_eq_countRun (l : Bytes) : tickPrefix l = countRun 96 l := by
  induction l with
  | nil => rfl
  | cons c rest ih => simp [tickPrefix, countRun, ih]

theorem scanInline_succ_cons (skip depth cs pos : Nat) (c : UInt8) (rest : Bytes) :
    scanInline (skip + 1) depth cs pos (c :: rest) = scanInline skip depth cs (pos + 1) rest := by
  rw [scanInline]

/-- a step without a destination -/
theorem scanInline_step_none (depth cs pos adv depth' cs' : Nat) (c : UInt8) (rest : Bytes)
    (h : firstStep loopOrder depth cs c rest = .go adv depth' cs' none) :
    scanInline 0 depth cs pos (c :: rest) = scanInline (adv - 1) depth' cs' (pos + 1) rest := by
  rw [scanInline, h]
  simp only
  cases scanInline (adv - 1) depth' cs' (pos + 1) rest <;> rfl

theorem countRun_cons_self (c : UInt8) (l : Bytes) : countRun c (c :: l) = countRun c l + 1 := by
  simp [countRun]

/-- bytes a test has consumed are passed over without being looked at -/
theorem scanInline_skip (pre : Bytes) : ∀ (depth cs pos : Nat) (l : Bytes),
    scanInline pre.length depth cs pos (pre ++ l) = scanInline 0 depth cs (pos + pre.length) l := by
  induction pre with
  | nil => intro depth cs pos l; simp
  | cons c rest ih =>
    intro depth cs pos l
    rw [List.length_cons, List.cons_append, scanInline_succ_cons, ih,
      show pos + 1 + rest.length = pos + (rest.length + 1) by omega]

/-- a run that ends inside `s` (its last byte is no backtick) is not lengthened by what follows -/
theorem countRun_append_last (s x : Bytes) (hne : s ≠ []) (hl : s.getLast? ≠ some 96) :
    countRun 96 (s ++ x) = countRun 96 s := by
  induction s with
  | nil => exact absurd rfl hne
  | cons c r ih =>
    cases r with
    | nil =>
      have hc : c ≠ 96 := fun e => hl (by simp [e])
      simp [countRun, hc]
    | cons d t =>
      have hl' : (d :: t).getLast? ≠ some 96 := by
        simpa [List.getLast?_cons_cons] using hl
      have := ih (by simp) hl'
      by_cases hc : c = 96
      · subst hc
        simp only [List.cons_append] at this ⊢
        rw [countRun_cons_self, countRun_cons_self, this]
      · simp [countRun, hc]

/-- the step taken on a byte inside a code span that is no backtick: it is passed over -/
theorem firstStep_in_codespan_byte (depth cs : Nat) (c : UInt8) (rest : Bytes) (hcs : 0 < cs)
    (hc : c ≠ 96) :
    firstStep loopOrder depth cs c rest = .go 1 depth cs none := by
  have hcs' : cs > 0 := hcs
  simp [loopOrder, firstStep, handler, hcs', hc]

/-- the step taken on a backtick inside a code span, when the backtick string that begins here
is not exactly `cs` long: the whole string is passed over (fix 8b404d9) -/
theorem firstStep_in_codespan_run (depth cs : Nat) (rest : Bytes) (hcs : 0 < cs)
    (h : countRun 96 (96 :: rest) ≠ cs) :
    firstStep loopOrder depth cs 96 rest = .go (countRun 96 (96 :: rest)) depth cs none := by
  have hcs' : cs > 0 := hcs
  simp [loopOrder, firstStep, handler, hcs', h]

theorem ticks_succ (m : Nat) (X : Bytes) : ticks (m + 1) ++ X = 96 :: (ticks m ++ X) := by
  simp [ticks, List.replicate_succ]

/-- inside a code span of `n`, a whole backtick string of another length is content -/
theorem scanInline_other_string (n j : Nat) (hn : 0 < n) (hj : 0 < j) (hjn : j ≠ n) (X : Bytes)
    (hX : X.head? ≠ some 96) (depth pos : Nat) :
    scanInline 0 depth n pos (ticks j ++ X) = scanInline 0 depth n (pos + j) X := by
  obtain ⟨m, rfl⟩ : ∃ m, j = m + 1 := ⟨j - 1, by omega⟩
  have hrun : countRun 96 (96 :: (ticks m ++ X)) = m + 1 := by
    have := countRun_replicate 96 (m + 1) X hX
    simpa [ticks, List.replicate_succ] using this
  have hlen : (ticks m).length = m := by simp [ticks]
  rw [ticks_succ,
    scanInline_step_none _ _ _ _ _ _ _ _ (firstStep_in_codespan_run depth n _ hn (by rw [hrun]; exact hjn)),
    hrun, Nat.add_sub_cancel]
  have s1 := scanInline_skip (ticks m) depth n (pos + 1) X
  rw [hlen] at s1
  rw [s1]
  congr 1
  omega

theorem noStringOf_of_stringsBelow (n : Nat) : ∀ (l : Bytes) (pt : Bool),
    stringsBelow n l = true → noStringOf n pt l = true := by
  intro l
  induction l with
  | nil => intro _ _; rfl
  | cons c r ih =>
    intro pt h
    simp only [stringsBelow, Bool.and_eq_true, decide_eq_true_eq] at h
    simp only [noStringOf, Bool.and_eq_true, Bool.or_eq_true, bne_iff_ne, ne_eq]
    exact ⟨Or.inr (by omega), ih _ h.2⟩

/-- after a backtick string, what follows contains no string of `n` either -/
theorem noStringOf_after_ticks (n : Nat) : ∀ (j : Nat) (pt : Bool) (l : Bytes),
    noStringOf n pt (ticks j ++ l) = true → 0 < j → noStringOf n true l = true
  | 0, _, _, _, h => absurd h (by omega)
  | j + 1, pt, l, hns, _ => by
    rw [ticks_succ] at hns
    simp only [noStringOf, Bool.and_eq_true] at hns
    cases j with
    | zero => simpa [ticks] using hns.2
    | succ k => exact noStringOf_after_ticks n (k + 1) _ l hns.2 (by omega)

theorem noStringOf_prev_irrelevant (n : Nat) (l : Bytes) (h : l.head? ≠ some 96) :
    noStringOf n false l = noStringOf n true l := by
  cases l with
  | nil => rfl
  | cons c r =>
    have : c ≠ 96 := fun e => h (by simp [e])
    simp [noStringOf, this]

/-- inside a code span of `n` every byte of a content without a backtick string of exactly `n`
backticks is literal — longer and shorter strings included: the scan reaches the end of the
content in the same state -/
theorem scanInline_content_full (n : Nat) (hn : 0 < n) (tail : Bytes) :
    ∀ (k : Nat) (body : Bytes) (depth pos : Nat), body.length ≤ k →
    noStringOf n false body = true → body.getLast? ≠ some 96 →
    scanInline 0 depth n pos (body ++ tail) = scanInline 0 depth n (pos + body.length) tail := by
  intro k
  induction k with
  | zero =>
    intro body depth pos hk _ _
    have : body = [] := List.eq_nil_of_length_eq_zero (by omega)
    subst this; simp
  | succ k ih =>
    intro body depth pos hk hns hl
    cases body with
    | nil => simp
    | cons c r =>
      by_cases hc : c = 96
      · subst hc
        have hjn : countRun 96 (96 :: r) ≠ n := by
          have h1 := hns
          simp only [noStringOf, Bool.and_eq_true] at h1
          rw [← tickPrefix_eq_countRun]
          simpa using h1.1
        have hjpos : 0 < countRun 96 (96 :: r) := by rw [countRun_cons_self]; omega
        have hsplit := countRun_split 96 (96 :: r)
        generalize countRun 96 (96 :: r) = j at hsplit hjn hjpos
        generalize (96 :: r).drop j = r' at hsplit
        obtain ⟨hbody, hhead⟩ := hsplit
        have hr' : r' ≠ [] := by
          intro e
          subst e
          apply hl
          rw [hbody, List.append_nil]
          obtain ⟨m, rfl⟩ : ∃ m, j = m + 1 := ⟨j - 1, by omega⟩
          simp [List.replicate_succ', List.getLast?_append]
        have hlen : (96 :: r).length = j + r'.length := by
          rw [hbody]; simp
        have hl' : r'.getLast? ≠ some 96 := by
          intro e
          apply hl
          rw [hbody, List.getLast?_append, e]; rfl
        have hns' : noStringOf n false r' = true := by
          rw [noStringOf_prev_irrelevant n r' hhead]
          exact noStringOf_after_ticks n j false r' (by rw [ticks, ← hbody]; exact hns) hjpos
        have hX : (r' ++ tail).head? ≠ some 96 := by
          cases r' with
          | nil => exact absurd rfl hr'
          | cons d t => simpa using hhead
        rw [hlen, hbody, List.append_assoc]
        rw [show List.replicate j (96 : UInt8) = ticks j from rfl,
          scanInline_other_string n j hn hjpos hjn _ hX,
          ih r' depth (pos + j) (by simp only [List.length_cons] at hk hlen; omega) hns' hl']
        congr 1
        omega
      · have hl' : r.getLast? ≠ some 96 := by
          cases r with
          | nil => simp
          | cons d t => simpa [List.getLast?_cons_cons] using hl
        have hns' : noStringOf n false r = true := by
          have h1 := hns
          simp only [noStringOf, Bool.and_eq_true] at h1
          have : (c == 96) = false := by simp [hc]
          rw [this] at h1
          exact h1.2
        rw [List.cons_append,
          scanInline_step_none _ _ _ _ _ _ _ _ (firstStep_in_codespan_byte depth n c (r ++ tail) hn hc),
          Nat.sub_self, ih r depth (pos + 1) (by simp only [List.length_cons] at hk; omega) hns' hl',
          List.length_cons, show pos + 1 + r.length = pos + (r.length + 1) by omega]

/-- the same for a content all of whose backtick strings are shorter than `n` -/
theorem scanInline_content (n : Nat) (hn : 0 < n) (tail : Bytes) (body : Bytes) (depth pos : Nat)
    (hs : stringsBelow n body = true) (hl : body.getLast? ≠ some 96) :
    scanInline 0 depth n pos (body ++ tail) = scanInline 0 depth n (pos + body.length) tail :=
  scanInline_content_full n hn tail body.length body depth pos (Nat.le_refl _)
    (noStringOf_of_stringsBelow n body false hs) hl

/-- a backtick outside a code span opens one, as long as its run -/
theorem firstStep_open (depth : Nat) (rest : Bytes) :
    firstStep loopOrder depth 0 96 rest =
      .go (countRun 96 (96 :: rest)) depth (countRun 96 (96 :: rest)) none := by
  simp [loopOrder, firstStep, handler]

/-- inside a code span of `n`, a backtick string of exactly `n` closes it -/
theorem firstStep_close (depth n : Nat) (rest : Bytes) (hn : 0 < n)
    (h : countRun 96 (96 :: rest) = n) :
    firstStep loopOrder depth n 96 rest = .go n depth 0 none := by
  have hn' : n > 0 := hn
  simp [loopOrder, firstStep, handler, hn', h]

/-- the whole code span: opening string, content, closing string -/
theorem scanInline_codespan (n : Nat) (body rest : Bytes) (depth pos : Nat) (hn : 0 < n)
    (hb : body ≠ []) (hh : body.head? ≠ some 96) (hl : body.getLast? ≠ some 96)
    (hs : noStringOf n false body = true) (hr : rest.head? ≠ some 96) :
    scanInline 0 depth 0 pos (ticks n ++ (body ++ (ticks n ++ rest))) =
      scanInline 0 depth 0 (pos + (n + body.length + n)) rest := by
  obtain ⟨m, rfl⟩ : ∃ m, n = m + 1 := ⟨n - 1, by omega⟩
  have hX : (body ++ (ticks (m + 1) ++ rest)).head? ≠ some 96 := by
    cases body with
    | nil => exact absurd rfl hb
    | cons c r => simpa using hh
  have hopen : countRun 96 (96 :: (ticks m ++ (body ++ (ticks (m + 1) ++ rest)))) = m + 1 := by
    have := countRun_replicate 96 (m + 1) (body ++ (ticks (m + 1) ++ rest)) hX
    simpa [ticks, List.replicate_succ] using this
  have hclose : countRun 96 (96 :: (ticks m ++ rest)) = m + 1 := by
    have := countRun_replicate 96 (m + 1) rest hr
    simpa [ticks, List.replicate_succ] using this
  have e1 : ∀ X, ticks (m + 1) ++ X = 96 :: (ticks m ++ X) := by
    intro X; simp [ticks, List.replicate_succ]
  have hlen : (ticks m).length = m := by simp [ticks]
  rw [e1, scanInline_step_none _ _ _ _ _ _ _ _ (firstStep_open depth _), hopen, Nat.add_sub_cancel]
  have s1 := scanInline_skip (ticks m) depth (m + 1) (pos + 1) (body ++ (ticks (m + 1) ++ rest))
  rw [hlen] at s1
  rw [s1, scanInline_content_full (m + 1) (by omega) _ body.length body depth _ (Nat.le_refl _) hs hl, e1,
    scanInline_step_none _ _ _ _ _ _ _ _ (firstStep_close depth (m + 1) _ (by omega) hclose),
    Nat.add_sub_cancel]
  have s2 := scanInline_skip (ticks m) depth 0 (pos + 1 + m + body.length + 1) rest
  rw [hlen] at s2
  rw [s2]
  congr 1
  omega

end ScriggoV.LinkDest
