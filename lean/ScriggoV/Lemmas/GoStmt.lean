import ScriggoV.Model.GoStmt
/-! helper lemmas for C14: register windows, write-back, well-formed VM systems -/
namespace ScriggoV.GoStmt

theorem window_getElem? (st : List Val) (off len k : Nat) :
    (window st off len)[k]? = if k < len then st[off + k]? else none := by
  simp [window, List.getElem?_take, List.getElem?_drop]

theorem overwrite_getElem? (st : List Val) (off : Nat) (xs : List Val) (k : Nat)
    (h : off + xs.length ≤ st.length) :
    (overwrite st off xs)[k]? =
      if k < off then st[k]? else if k < off + xs.length then xs[k - off]? else st[k]? := by
  unfold overwrite
  have h1 : (st.take off).length = off := by simp; omega
  rw [List.append_assoc, List.getElem?_append, h1]
  split
  · rw [List.getElem?_take]; simp [*]
  · rename_i hk
    rw [List.getElem?_append]
    split
    · rename_i hk2; rw [if_pos (by omega)]
    · rename_i hk2
      rw [if_neg (by omega), List.getElem?_drop]
      congr 1; omega

theorem overwrite_length (st : List Val) (off : Nat) (xs : List Val) (h : off + xs.length ≤ st.length) :
    (overwrite st off xs).length = st.length := by
  simp [overwrite]; omega

theorem window_length (st : List Val) (off len : Nat) (h : off + len ≤ st.length) :
    (window st off len).length = len := by
  simp [window]; omega

theorem window_overwrite_same (st : List Val) (off : Nat) (xs : List Val)
    (h : off + xs.length ≤ st.length) : window (overwrite st off xs) off xs.length = xs := by
  apply List.ext_getElem?
  intro k
  rw [window_getElem?, overwrite_getElem? _ _ _ _ h]
  split
  · rw [if_neg (by omega), if_pos (by omega)]; congr 1; omega
  · rename_i hk; rw [List.getElem?_eq_none (by omega)]

theorem window_overwrite_disjoint (st : List Val) (off : Nat) (xs : List Val) (off' len : Nat)
    (h : off + xs.length ≤ st.length) (hd : off' + len ≤ off ∨ off + xs.length ≤ off') :
    window (overwrite st off xs) off' len = window st off' len := by
  apply List.ext_getElem?
  intro k
  rw [window_getElem?, window_getElem?, ]
  split
  · rw [overwrite_getElem? _ _ _ _ h]
    rcases hd with hd | hd
    · rw [if_pos (by omega)]
    · rw [if_neg (by omega), if_neg (by omega)]
  · rfl

/-! ### what one statement does to a view -/

theorem tstep_locals_length (M : Nat) (v : View) (sh : Shared) :
    (tstep M v sh).view.locals.length = v.locals.length := by
  unfold tstep
  repeat' split
  all_goals simp [wr]

theorem tstep_pend_length (M : Nat) (v : View) (sh : Shared) (h : v.pend.length ≤ M) :
    (tstep M v sh).view.pend.length ≤ M := by
  unfold tstep
  repeat' split
  all_goals simp [wr]
  all_goals omega

theorem tstep_spawn (M : Nat) (v : View) (sh : Shared) (f : Nat) (args : List Val)
    (h : (tstep M v sh).spawn = some (f, args)) :
    args = v.pend ∧ (tstep M v sh).view.pend = [] := by
  unfold tstep at h ⊢
  repeat' split at h
  all_goals first
    | (simp at h; done)
    | skip
  all_goals
    rename_i hcode
    simp only [Option.some.injEq, Prod.mk.injEq] at h
    simp [h.2]

/-! ### well-formed VM systems -/

structure WFT (P : Prog) (stacks : List (List Val)) (t : VThread) : Prop where
  inb : t.stk < stacks.length
  len : t.fp + P.N + P.M ≤ (stacks.getD t.stk []).length
  np : t.npend ≤ P.M

structure WF (P : Prog) (s : VSys) : Prop where
  thr : ∀ (i : Nat) (t : VThread), s.threads[i]? = some t → WFT P s.stacks t
  inj : ∀ (i j : Nat) (ti tj : VThread), s.threads[i]? = some ti → s.threads[j]? = some tj → ti.stk = tj.stk → i = j

theorem getD_set_self (stacks : List (List Val)) (k : Nat) (x : List Val) (h : k < stacks.length) :
    (stacks.set k x).getD k [] = x := by
  simp [List.getD_eq_getElem?_getD, h]

theorem getD_set_other (stacks : List (List Val)) (k j : Nat) (x : List Val) (h : k ≠ j) :
    (stacks.set k x).getD j [] = stacks.getD j [] := by
  simp [List.getD_eq_getElem?_getD, h]

theorem getD_append_left (stacks : List (List Val)) (x : List Val) (j : Nat) (h : j < stacks.length) :
    (stacks ++ [x]).getD j [] = stacks.getD j [] := by
  simp [List.getD_eq_getElem?_getD, List.getElem?_append_left h]

theorem viewOf_locals_length (P : Prog) (stacks : List (List Val)) (t : VThread) (h : WFT P stacks t) :
    (viewOf P stacks t).locals.length = P.N := by
  have := h.len
  simp only [viewOf]
  rw [window_length]; omega

theorem viewOf_pend_length (P : Prog) (stacks : List (List Val)) (t : VThread) (h : WFT P stacks t) :
    (viewOf P stacks t).pend.length = t.npend := by
  have := h.len; have := h.np
  simp only [viewOf]
  rw [window_length]; omega

/-- the stack a view is written back into -/
def backStack (P : Prog) (st : List Val) (fp : Nat) (v : View) : List Val :=
  overwrite (overwrite st fp v.locals) (fp + P.N) v.pend

theorem backStack_length (P : Prog) (st : List Val) (fp : Nat) (v : View)
    (hl : v.locals.length = P.N) (hp : v.pend.length ≤ P.M) (hs : fp + P.N + P.M ≤ st.length) :
    (backStack P st fp v).length = st.length := by
  unfold backStack
  rw [overwrite_length, overwrite_length] <;> (try rw [overwrite_length]) <;> omega

theorem backStack_locals (P : Prog) (st : List Val) (fp : Nat) (v : View)
    (hl : v.locals.length = P.N) (hp : v.pend.length ≤ P.M) (hs : fp + P.N + P.M ≤ st.length) :
    window (backStack P st fp v) fp P.N = v.locals := by
  unfold backStack
  rw [window_overwrite_disjoint _ _ _ _ _ (by rw [overwrite_length] <;> omega) (Or.inl (by omega))]
  have := window_overwrite_same st fp v.locals (by omega)
  rw [hl] at this
  exact this

theorem backStack_pend (P : Prog) (st : List Val) (fp : Nat) (v : View)
    (hl : v.locals.length = P.N) (hp : v.pend.length ≤ P.M) (hs : fp + P.N + P.M ≤ st.length) :
    window (backStack P st fp v) (fp + P.N) v.pend.length = v.pend := by
  unfold backStack
  exact window_overwrite_same _ _ _ (by rw [overwrite_length] <;> omega)

/-- writing a view back and reading it again gives the view -/
theorem viewOf_writeBack_self (P : Prog) (stacks : List (List Val)) (t : VThread) (v : View)
    (h : WFT P stacks t) (hl : v.locals.length = P.N) (hp : v.pend.length ≤ P.M) :
    viewOf P (writeBack P stacks t v) (t.after v) = v := by
  have hlen := h.len
  simp only [viewOf, writeBack, VThread.after]
  rw [getD_set_self _ _ _ h.inb]
  have e1 := backStack_locals P (stacks.getD t.stk []) t.fp v hl hp hlen
  have e2 := backStack_pend P (stacks.getD t.stk []) t.fp v hl hp hlen
  unfold backStack at e1 e2
  rw [e1, e2]

/-- … and does not touch the registers of a thread on another stack -/
theorem viewOf_writeBack_other (P : Prog) (stacks : List (List Val)) (t u : VThread) (v : View)
    (h : t.stk ≠ u.stk) : viewOf P (writeBack P stacks t v) u = viewOf P stacks u := by
  simp only [viewOf, writeBack]
  rw [getD_set_other _ _ _ _ h]

theorem viewOf_append (P : Prog) (stacks : List (List Val)) (x : List Val) (u : VThread)
    (h : u.stk < stacks.length) : viewOf P (stacks ++ [x]) u = viewOf P stacks u := by
  simp only [viewOf]
  rw [getD_append_left _ _ _ h]

theorem writeBack_length (P : Prog) (stacks : List (List Val)) (t : VThread) (v : View) :
    (writeBack P stacks t v).length = stacks.length := by
  simp [writeBack]

theorem overwrite_nil (st : List Val) (off : Nat) : overwrite st off [] = st := by
  simp [overwrite]

/-- the view of a freshly created goroutine: its locals are its arguments -/
theorem viewOf_child (P : Prog) (stacks : List (List Val)) (args : List Val) (code : List Stmt) :
    viewOf P (stacks ++ [(args ++ List.replicate P.N 0).take P.N ++ List.replicate P.M 0])
      ⟨stacks.length, 0, 0, code⟩ = ⟨childLocals P args, [], code⟩ := by
  have hl : ((args ++ List.replicate P.N 0).take P.N).length = P.N := by simp
  simp only [viewOf, childLocals]
  have : (stacks ++ [(args ++ List.replicate P.N 0).take P.N ++ List.replicate P.M 0]).getD stacks.length []
      = (args ++ List.replicate P.N 0).take P.N ++ List.replicate P.M 0 := by
    simp [List.getD_eq_getElem?_getD]
  rw [this]
  congr 1
  · simp only [window, List.drop_zero]
    rw [List.take_append_of_le_length (by omega)]
    rw [List.take_of_length_le (by omega)]

/-! ### one VM step against one source step -/

theorem map_set_views (P : Prog) (threads : List VThread) (stacks stacks' : List (List Val))
    (i : Nat) (t' : VThread) (v' : View)
    (hother : ∀ (j : Nat) (u : VThread), j ≠ i → threads[j]? = some u →
      viewOf P stacks' u = viewOf P stacks u)
    (hself : viewOf P stacks' t' = v') :
    (threads.set i t').map (viewOf P stacks') = (threads.map (viewOf P stacks)).set i v' := by
  apply List.ext_getElem?
  intro j
  rw [List.getElem?_map, List.getElem?_set, List.getElem?_set]
  by_cases hj : i = j
  · subst hj
    simp only [if_true, List.length_map]
    split
    · simp [hself]
    · rfl
  · simp only [if_neg hj, List.getElem?_map]
    cases hu : threads[j]? with
    | none => rfl
    | some u => simp [hother j u (fun h => hj h.symm) hu]

theorem abs_getElem? (P : Prog) (s : VSys) (i : Nat) :
    (abs P s).threads[i]? = (s.threads[i]?).map (viewOf P s.stacks) := by
  simp [abs]

theorem vstep_none (P : Prog) (share : Bool) (i : Nat) (s : VSys) (h : s.threads[i]? = none) :
    vstep P share i s = s := by
  unfold vstep; rw [h]

theorem sstep_none (P : Prog) (i : Nat) (s : SSys) (h : s.threads[i]? = none) : sstep P i s = s := by
  unfold sstep; rw [h]

/-- the two shapes of a VM step of thread `i` (currently `t`) -/
theorem vstep_some_none (P : Prog) (i : Nat) (s : VSys) (t : VThread) (ht : s.threads[i]? = some t)
    (hs : (tstep P.M (viewOf P s.stacks t) s.sh).spawn = none) :
    vstep P false i s =
      ⟨s.threads.set i (t.after (tstep P.M (viewOf P s.stacks t) s.sh).view),
       writeBack P s.stacks t (tstep P.M (viewOf P s.stacks t) s.sh).view,
       (tstep P.M (viewOf P s.stacks t) s.sh).sh⟩ := by
  unfold vstep; rw [ht]; simp only [hs]

theorem vstep_some_some (P : Prog) (i : Nat) (s : VSys) (t : VThread) (ht : s.threads[i]? = some t)
    (f : Nat) (args : List Val)
    (hs : (tstep P.M (viewOf P s.stacks t) s.sh).spawn = some (f, args)) :
    vstep P false i s =
      ⟨s.threads.set i (t.after (tstep P.M (viewOf P s.stacks t) s.sh).view) ++
         [⟨(writeBack P s.stacks t (tstep P.M (viewOf P s.stacks t) s.sh).view).length, 0, 0, P.funcs.getD f []⟩],
       writeBack P s.stacks t (tstep P.M (viewOf P s.stacks t) s.sh).view ++
         [(window ((writeBack P s.stacks t (tstep P.M (viewOf P s.stacks t) s.sh).view).getD t.stk [])
             (t.fp + P.N) t.npend ++ List.replicate P.N 0).take P.N ++ List.replicate P.M 0],
       (tstep P.M (viewOf P s.stacks t) s.sh).sh⟩ := by
  unfold vstep; rw [ht]; simp only [hs, Bool.false_eq_true, if_false]

theorem sstep_some (P : Prog) (i : Nat) (s : SSys) (v : View) (hv : s.threads[i]? = some v) :
    sstep P i s =
      ⟨s.threads.set i (tstep P.M v s.sh).view ++
        (match (tstep P.M v s.sh).spawn with
         | none => []
         | some (f, args) => [⟨childLocals P args, [], P.funcs.getD f []⟩]),
       (tstep P.M v s.sh).sh⟩ := by
  unfold sstep; rw [hv]; rfl

/-- **lock-step simulation**: one step of VM thread `i` is one step of source thread `i` -/
theorem vstep_abs (P : Prog) (i : Nat) (s : VSys) (hw : WF P s) :
    abs P (vstep P false i s) = sstep P i (abs P s) := by
  cases ht : s.threads[i]? with
  | none =>
    rw [vstep_none P false i s ht, sstep_none]
    rw [abs_getElem?, ht]; rfl
  | some t =>
    have hwt := hw.thr i t ht
    have hl : (tstep P.M (viewOf P s.stacks t) s.sh).view.locals.length = P.N := by
      rw [tstep_locals_length, viewOf_locals_length _ _ _ hwt]
    have hp : (tstep P.M (viewOf P s.stacks t) s.sh).view.pend.length ≤ P.M :=
      tstep_pend_length _ _ _ (by rw [viewOf_pend_length _ _ _ hwt]; exact hwt.np)
    have hother : ∀ (j : Nat) (u : VThread), j ≠ i → s.threads[j]? = some u → t.stk ≠ u.stk := by
      intro j u hj hu hst
      exact hj (hw.inj j i u t hu ht hst.symm)
    have habs : (abs P s).threads[i]? = some (viewOf P s.stacks t) := by rw [abs_getElem?, ht]; rfl
    rw [sstep_some P i (abs P s) _ habs]
    cases hs : (tstep P.M (viewOf P s.stacks t) s.sh).spawn with
    | none =>
      rw [vstep_some_none P i s t ht hs]
      have hs' : (tstep P.M (viewOf P s.stacks t) (abs P s).sh).spawn = none := hs
      simp only [hs', List.append_nil]
      show SSys.mk _ _ = SSys.mk _ _
      congr 1
      apply map_set_views
      · intro j u hj hu
        exact viewOf_writeBack_other P s.stacks t u _ (hother j u hj hu)
      · exact viewOf_writeBack_self P s.stacks t _ hwt hl hp
    | some fa =>
      obtain ⟨f, args⟩ := fa
      obtain ⟨hargs, hpend⟩ := tstep_spawn _ _ _ _ _ hs
      rw [vstep_some_some P i s t ht f args hs]
      have hs' : (tstep P.M (viewOf P s.stacks t) (abs P s).sh).spawn = some (f, args) := hs
      simp only [hs']
      show SSys.mk _ _ = SSys.mk _ _
      congr 1
      simp only [List.map_append, List.map_cons, List.map_nil]
      congr 1
      · apply map_set_views
        · intro j u hj hu
          have hub := (hw.thr j u hu).inb
          rw [viewOf_append _ _ _ _ (by rw [writeBack_length]; exact hub)]
          exact viewOf_writeBack_other P s.stacks t u _ (hother j u hj hu)
        · rw [viewOf_append _ _ _ _ (by rw [writeBack_length]; exact hwt.inb)]
          exact viewOf_writeBack_self P s.stacks t _ hwt hl hp
      · -- the child: its stack is a copy of the parent's argument window
        have hwin : window ((writeBack P s.stacks t (tstep P.M (viewOf P s.stacks t) s.sh).view).getD t.stk [])
            (t.fp + P.N) t.npend = args := by
          rw [hargs]
          simp only [writeBack]
          rw [getD_set_self _ _ _ hwt.inb, hpend, overwrite_nil]
          have hlen := hwt.len
          have hnp := hwt.np
          rw [window_overwrite_disjoint _ _ _ _ _ (by omega) (Or.inr (by omega))]
          rfl
        rw [hwin, viewOf_child]

theorem set_thread_cases (threads : List VThread) (i : Nat) (t' : VThread) (a : Nat) (ta : VThread)
    (ha : (threads.set i t')[a]? = some ta) :
    (a = i ∧ ta = t') ∨ (a ≠ i ∧ threads[a]? = some ta) := by
  rw [List.getElem?_set] at ha
  by_cases hia : i = a
  · left
    rw [if_pos hia] at ha
    split at ha
    · exact ⟨hia.symm, by cases ha; rfl⟩
    · cases ha
  · right
    rw [if_neg hia] at ha
    exact ⟨fun h => hia h.symm, ha⟩

/-- well-formedness is preserved -/
theorem vstep_WF (P : Prog) (i : Nat) (s : VSys) (hw : WF P s) : WF P (vstep P false i s) := by
  cases ht : s.threads[i]? with
  | none => rw [vstep_none P false i s ht]; exact hw
  | some t =>
    have hwt := hw.thr i t ht
    have hl : (tstep P.M (viewOf P s.stacks t) s.sh).view.locals.length = P.N := by
      rw [tstep_locals_length, viewOf_locals_length _ _ _ hwt]
    have hp : (tstep P.M (viewOf P s.stacks t) s.sh).view.pend.length ≤ P.M :=
      tstep_pend_length _ _ _ (by rw [viewOf_pend_length _ _ _ hwt]; exact hwt.np)
    -- a thread stays well-formed over the written-back stacks (its stack keeps its length)
    have hback : ∀ (u : VThread), WFT P s.stacks u →
        WFT P (writeBack P s.stacks t (tstep P.M (viewOf P s.stacks t) s.sh).view) u := by
      intro u hu
      refine ⟨by rw [writeBack_length]; exact hu.inb, ?_, hu.np⟩
      by_cases hst : t.stk = u.stk
      · simp only [writeBack]
        rw [← hst, getD_set_self _ _ _ hwt.inb]
        have := backStack_length P (s.stacks.getD t.stk []) t.fp _ hl hp hwt.len
        unfold backStack at this
        rw [this]
        have h2 := hu.len
        rw [← hst] at h2
        exact h2
      · simp only [writeBack]
        rw [getD_set_other _ _ _ _ hst]
        exact hu.len
    have hafter : WFT P (writeBack P s.stacks t (tstep P.M (viewOf P s.stacks t) s.sh).view)
        (t.after (tstep P.M (viewOf P s.stacks t) s.sh).view) := by
      have hb := hback t hwt
      exact ⟨hb.inb, hb.len, hp⟩
    have hgrow : ∀ (st : List (List Val)) (x : List Val) (u : VThread), WFT P st u → WFT P (st ++ [x]) u := by
      intro st x u hu
      refine ⟨by simp; have := hu.inb; omega, ?_, hu.np⟩
      rw [getD_append_left _ _ _ hu.inb]; exact hu.len
    -- the threads after the step, below the old length: same stack as before
    have hold : ∀ (a : Nat) (ta : VThread),
        (s.threads.set i (t.after (tstep P.M (viewOf P s.stacks t) s.sh).view))[a]? = some ta →
        WFT P (writeBack P s.stacks t (tstep P.M (viewOf P s.stacks t) s.sh).view) ta ∧
        ∃ ta', s.threads[a]? = some ta' ∧ ta'.stk = ta.stk := by
      intro a ta ha
      rcases set_thread_cases _ _ _ _ _ ha with ⟨h1, h2⟩ | ⟨h1, h2⟩
      · subst h1; subst h2
        exact ⟨hafter, t, ht, rfl⟩
      · exact ⟨hback ta (hw.thr a ta h2), ta, h2, rfl⟩
    cases hs : (tstep P.M (viewOf P s.stacks t) s.sh).spawn with
    | none =>
      rw [vstep_some_none P i s t ht hs]
      constructor
      · intro j u hu
        exact (hold j u hu).1
      · intro j k tj tk hj hk hst
        obtain ⟨_, tj', hj', ej⟩ := hold j tj hj
        obtain ⟨_, tk', hk', ek⟩ := hold k tk hk
        exact hw.inj j k tj' tk' hj' hk' (by rw [ej, ek, hst])
    | some fa =>
      obtain ⟨f, args⟩ := fa
      rw [vstep_some_some P i s t ht f args hs]
      have hlen1 : (s.threads.set i (t.after (tstep P.M (viewOf P s.stacks t) s.sh).view)).length
          = s.threads.length := by simp
      -- an index at or beyond the old length is the new thread
      have hnew : ∀ (a : Nat) (ta : VThread), ¬ a < s.threads.length →
          [(⟨(writeBack P s.stacks t (tstep P.M (viewOf P s.stacks t) s.sh).view).length, 0, 0,
              P.funcs.getD f []⟩ : VThread)][a - s.threads.length]? = some ta →
          a = s.threads.length ∧
            ta = ⟨(writeBack P s.stacks t (tstep P.M (viewOf P s.stacks t) s.sh).view).length, 0, 0,
              P.funcs.getD f []⟩ := by
        intro a ta hal ha
        have : a - s.threads.length = 0 ∨ a - s.threads.length ≠ 0 := by omega
        rcases this with h0 | h0
        · rw [h0] at ha
          simp only [List.getElem?_cons_zero, Option.some.injEq] at ha
          exact ⟨by omega, ha.symm⟩
        · rw [List.getElem?_eq_none (by simp; omega)] at ha; cases ha
      constructor
      · intro j u hu
        simp only at hu
        rw [List.getElem?_append, hlen1] at hu
        split at hu
        · exact hgrow _ _ _ (hold j u hu).1
        · rename_i hjl
          obtain ⟨_, e⟩ := hnew j u hjl hu
          subst e
          refine ⟨by simp, ?_, by simp⟩
          simp only [Nat.zero_add]
          rw [List.getD_eq_getElem?_getD]
          simp
      · intro j k tj tk hj hk hst
        simp only at hj hk
        rw [List.getElem?_append, hlen1] at hj hk
        split at hj <;> split at hk
        · obtain ⟨_, tj', hj', ej⟩ := hold j tj hj
          obtain ⟨_, tk', hk', ek⟩ := hold k tk hk
          exact hw.inj j k tj' tk' hj' hk' (by rw [ej, ek, hst])
        · rename_i hjl hkl
          obtain ⟨hb, _⟩ := hold j tj hj
          obtain ⟨_, e⟩ := hnew k tk hkl hk
          have := hb.inb
          rw [e] at hst
          simp only at hst
          omega
        · rename_i hjl hkl
          obtain ⟨_, e⟩ := hnew j tj hjl hj
          obtain ⟨hb, _⟩ := hold k tk hk
          have := hb.inb
          rw [e] at hst
          simp only at hst
          omega
        · rename_i hjl hkl
          obtain ⟨e1, _⟩ := hnew j tj hjl hj
          obtain ⟨e2, _⟩ := hnew k tk hkl hk
          omega

end ScriggoV.GoStmt
