import ScriggoV.Basic.Utf8
/-! What `for i, c := range s` can produce at a non-ASCII lead byte: the four shapes of
`Utf8.decodeRune`, and when the rune is U+2028 / U+2029. -/
namespace ScriggoV.Utf8
open ScriggoV

theorem isCont_iff (b : UInt8) : isCont b = true ↔ 0x80 ≤ b.toNat ∧ b.toNat ≤ 0xBF := by
  simp [isCont]

/-- the `first`/`acceptRanges` facts used below -/
theorem leadInfo_some (p0 sz lo hi : Nat) (h : leadInfo p0 = some (sz, lo, hi)) :
    0x80 ≤ lo ∧ hi ≤ 0xBF ∧
    ((sz = 2 ∧ 0xC2 ≤ p0 ∧ p0 ≤ 0xDF) ∨ (sz = 3 ∧ 0xE0 ≤ p0 ∧ p0 ≤ 0xEF ∧ (p0 = 0xE0 → 0xA0 ≤ lo)) ∨
     (sz = 4 ∧ 0xF0 ≤ p0 ∧ p0 ≤ 0xF4 ∧ (p0 = 0xF0 → 0x90 ≤ lo))) := by
  unfold leadInfo at h
  repeat' split at h
  all_goals cases h
  all_goals (simp; try omega)

/-- the shapes of a decoding step at a byte ≥ 0x80 -/
theorem decodeRune_cases (c : UInt8) (rest : Bytes) (hc : 128 ≤ c.toNat) :
    decodeRune (c :: rest) = (runeError, 1) ∨
    (∃ b1 t, rest = b1 :: t ∧ isCont b1 = true ∧ 0xC2 ≤ c.toNat ∧ c.toNat ≤ 0xDF ∧
        decodeRune (c :: rest) = ((c.toNat % 32) * 64 + b1.toNat % 64, 2)) ∨
    (∃ b1 b2 t, rest = b1 :: b2 :: t ∧ isCont b1 = true ∧ isCont b2 = true ∧
        0xE0 ≤ c.toNat ∧ c.toNat ≤ 0xEF ∧ (c.toNat = 0xE0 → 0xA0 ≤ b1.toNat) ∧
        decodeRune (c :: rest) =
          ((c.toNat % 16) * 4096 + (b1.toNat % 64) * 64 + b2.toNat % 64, 3)) ∨
    (∃ b1 b2 b3 t, rest = b1 :: b2 :: b3 :: t ∧ isCont b1 = true ∧ isCont b2 = true ∧
        isCont b3 = true ∧ 0xF0 ≤ c.toNat ∧ c.toNat ≤ 0xF4 ∧ (c.toNat = 0xF0 → 0x90 ≤ b1.toNat) ∧
        decodeRune (c :: rest) =
          ((c.toNat % 8) * 262144 + (b1.toNat % 64) * 4096 + (b2.toNat % 64) * 64 + b3.toNat % 64, 4)) := by
  have hnot : ¬ c.toNat < 0x80 := by omega
  cases hl : leadInfo c.toNat with
  | none => left; simp [decodeRune, hnot, hl]
  | some info =>
    obtain ⟨sz, lo, hi⟩ := info
    obtain ⟨hlo, hhi, hsz⟩ := leadInfo_some _ _ _ _ hl
    cases rest with
    | nil => left; simp [decodeRune, hnot, hl]
    | cons b1 r1 =>
      by_cases hb1 : b1.toNat < lo ∨ hi < b1.toNat
      · left; simp [decodeRune, hnot, hl, hb1]
      · have hc1 : isCont b1 = true := by rw [isCont_iff]; omega
        rcases hsz with ⟨h2, hge, hle⟩ | ⟨h3, hge, hle, he0⟩ | ⟨h4, hge, hle, hf0⟩
        · right; left
          subst h2
          exact ⟨b1, r1, rfl, hc1, hge, hle, by simp [decodeRune, hnot, hl, hb1]⟩
        · subst h3
          cases r1 with
          | nil => left; simp [decodeRune, hnot, hl, hb1]
          | cons b2 r2 =>
            cases hc2 : isCont b2 with
            | false => left; simp [decodeRune, hnot, hl, hb1, hc2]
            | true =>
              right; right; left
              exact ⟨b1, b2, r2, rfl, hc1, hc2, hge, hle, (fun h => by have := he0 h; omega), by simp [decodeRune, hnot, hl, hb1, hc2]⟩
        · subst h4
          cases r1 with
          | nil => left; simp [decodeRune, hnot, hl, hb1]
          | cons b2 r2 =>
            cases hc2 : isCont b2 with
            | false => left; simp [decodeRune, hnot, hl, hb1, hc2]
            | true =>
              cases r2 with
              | nil => left; simp [decodeRune, hnot, hl, hb1, hc2]
              | cons b3 r3 =>
                cases hc3 : isCont b3 with
                | false => left; simp [decodeRune, hnot, hl, hb1, hc2, hc3]
                | true =>
                  right; right; right
                  refine ⟨b1, b2, b3, r3, rfl, hc1, hc2, hc3, hge, hle, ?_, by
                    simp [decodeRune, hnot, hl, hb1, hc2, hc3]⟩
                  intro h; have := hf0 h; omega

theorem decodeRune_ascii (c : UInt8) (rest : Bytes) (hc : c.toNat < 128) :
    decodeRune (c :: rest) = (c.toNat, 1) := by
  simp [decodeRune, hc]

/-- the first `k` bytes exist and are continuation bytes -/
def contPrefix : Nat → Bytes → Prop
  | 0, _ => True
  | _+1, [] => False
  | k+1, b :: t => isCont b = true ∧ contPrefix k t

end ScriggoV.Utf8
