import ScriggoV.Model.GoFlag
/-! the flag machine under the good policy does what Go says (`run_good_eq_spec`) -/
namespace ScriggoV.GoFlag

/-- what the flag, the pending go and the specification's "after go" have to do with each other -/
def Inv (f : Bool) (p : Pending) (ag : Bool) (code : List Instr) : Prop :=
  match p with
  | .none => f = false ∧ ag = false
  | .nativeGo => f = true ∧ ag = true ∧ ∃ c rest, code = .call c :: rest ∧ c.isNative = true
  | .scriggoGo => f = false ∧ ag = true ∧ ∃ c rest, code = .call c :: rest ∧ c.isNative = false

theorem resets_good (c : Callee) (h : c.isNative = true) : resets Policy.good c = true := by
  cases c <;> simp_all [resets, Policy.good, Callee.isNative]

theorem run_other (pol : Policy) (i : Nat) (f : Bool) (p : Pending) (rest : List Instr) :
    run pol i f p (.other :: rest) = run pol (i + 1) f .none rest := by
  cases p <;> rfl

theorem run_go_call (pol : Policy) (i : Nat) (f : Bool) (p : Pending) (c : Callee) (rest : List Instr) :
    run pol i f p (.go :: .call c :: rest) =
      if c.isNative then run pol (i + 1) (if pol.goSetsIfNative then true else f) .nativeGo (.call c :: rest)
      else run pol (i + 1) (if pol.goSetsIfNative then f else true) .scriggoGo (.call c :: rest) := by
  cases p <;> rfl

theorem run_call_skipped (pol : Policy) (i : Nat) (f : Bool) (c : Callee) (rest : List Instr) :
    run pol i f .scriggoGo (.call c :: rest) = ⟨i, c, true, f⟩ :: run pol (i + 1) f .none rest := rfl

theorem run_call (pol : Policy) (i : Nat) (f : Bool) (p : Pending) (hp : p ≠ .scriggoGo) (c : Callee)
    (rest : List Instr) :
    run pol i f p (.call c :: rest) =
      if c.isNative then ⟨i, c, f, f⟩ :: run pol (i + 1) (if resets pol c then false else f) .none rest
      else ⟨i, c, false, f⟩ :: run pol (i + 1) (if pol.scriggoCallsLeave then f else !f) .none rest := by
  cases p with
  | scriggoGo => exact absurd rfl hp
  | none => rfl
  | nativeGo => rfl

theorem run_good_inv (code : List Instr) :
    ∀ (i : Nat) (f : Bool) (p : Pending) (ag : Bool), Inv f p ag code → wf code = true →
      run Policy.good i f p code = spec i ag code := by
  have hg : Policy.good.goSetsIfNative = true := rfl
  have hl : Policy.good.scriggoCallsLeave = true := rfl
  induction code with
  | nil => intro i f p ag _ _; cases p <;> rfl
  | cons ins rest ih =>
    intro i f p ag hinv hwf
    cases ins with
    | other =>
      have hp : p = .none := by
        cases p with
        | none => rfl
        | nativeGo => obtain ⟨_, _, c, r, h, _⟩ := hinv; cases h
        | scriggoGo => obtain ⟨_, _, c, r, h, _⟩ := hinv; cases h
      subst hp
      obtain ⟨hf, _⟩ := hinv
      subst hf
      rw [run_other]
      simp only [spec]
      exact ih (i + 1) false .none false ⟨rfl, rfl⟩ (by simpa [wf] using hwf)
    | go =>
      have hp : p = .none := by
        cases p with
        | none => rfl
        | nativeGo => obtain ⟨_, _, c, r, h, _⟩ := hinv; cases h
        | scriggoGo => obtain ⟨_, _, c, r, h, _⟩ := hinv; cases h
      subst hp
      obtain ⟨hf, _⟩ := hinv
      subst hf
      cases rest with
      | nil => simp [wf] at hwf
      | cons nxt rest' =>
        cases nxt with
        | other => simp [wf] at hwf
        | go => simp [wf] at hwf
        | call c =>
          have hwf' : wf (.call c :: rest') = true := by simpa [wf] using hwf
          rw [run_go_call, hg]
          have hs : spec i ag (.go :: .call c :: rest') = spec (i + 1) true (.call c :: rest') := rfl
          rw [hs]
          cases hc : c.isNative with
          | true =>
            simp only [if_true]
            exact ih (i + 1) true .nativeGo true ⟨rfl, rfl, c, rest', rfl, hc⟩ hwf'
          | false =>
            simp only [Bool.false_eq_true, if_false, if_true]
            exact ih (i + 1) false .scriggoGo true ⟨rfl, rfl, c, rest', rfl, hc⟩ hwf'
    | call c =>
      have hwf' : wf rest = true := by simpa [wf] using hwf
      have hs : ∀ a, spec i a (.call c :: rest) = ⟨i, c, a, a && c.isNative⟩ :: spec (i + 1) false rest :=
        fun _ => rfl
      rw [hs]
      cases p with
      | scriggoGo =>
        obtain ⟨hf, hag, c', r, h, hc⟩ := hinv
        cases h
        subst hf; subst hag
        rw [run_call_skipped, ih (i + 1) false .none false ⟨rfl, rfl⟩ hwf', hc]
        rfl
      | nativeGo =>
        obtain ⟨hf, hag, c', r, h, hc⟩ := hinv
        cases h
        subst hf; subst hag
        rw [run_call _ _ _ _ (by simp), hc, resets_good c hc]
        simp only [if_true]
        rw [ih (i + 1) false .none false ⟨rfl, rfl⟩ hwf']
        rfl
      | none =>
        obtain ⟨hf, hag⟩ := hinv
        subst hf; subst hag
        rw [run_call _ _ _ _ (by simp)]
        cases hc : c.isNative with
        | true =>
          rw [resets_good c hc]
          simp only [if_true]
          rw [ih (i + 1) false .none false ⟨rfl, rfl⟩ hwf']
          rfl
        | false =>
          rw [hl]
          simp only [Bool.false_eq_true, if_false, if_true]
          rw [ih (i + 1) false .none false ⟨rfl, rfl⟩ hwf']
          rfl

end ScriggoV.GoFlag
