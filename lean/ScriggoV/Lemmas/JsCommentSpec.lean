import ScriggoV.Lemmas.LexCtxSim
/-! # C06 layer 2: the comment recognisers

**Specification side** (`Spec/HtmlTok.jsStep`, `cssStep`): a block comment is `/*` followed by the
SHORTEST text up to `*/`; a line comment runs up to LF / CR. Stated for every byte string:
`blockComment_inside`, `blockComment_closes`, `lineComment_inside`, `lineComment_closes`.

**Model side**: the simulation relation `R` of `LexCtxSimBasic` carries the lexer's `jsComment` flag
(0 none, 1 line, 2 block); `jsComment_agree` reads it off at a hole: for every prefix of class `D`
the lexer model is in its line-comment / block-comment state exactly when the reference is.
Core Lean only. -/
set_option linter.unusedSimpArgs false
namespace ScriggoV.HtmlTok

/-- `*/` does not occur in `l` -/
def noClose : Bytes → Bool
  | [] => true
  | [_] => true
  | a :: b :: t => !(a == 0x2A && b == 0x2F) && noClose (b :: t)

theorem noClose_tail {a : UInt8} {l : Bytes} (h : noClose (a :: l) = true) : noClose l = true := by
  cases l with
  | nil => rfl
  | cons b t => simp [noClose] at h; exact h.2

theorem noClose_append_left : ∀ (l m : Bytes), noClose (l ++ m) = true → noClose l = true
  | [], _, _ => rfl
  | [_], _, _ => rfl
  | a :: b :: t, m, h => by
    have h' : noClose (a :: b :: (t ++ m)) = true := by simpa using h
    simp only [noClose, Bool.and_eq_true] at h' ⊢
    exact ⟨h'.1, noClose_append_left (b :: t) m (by simpa using h'.2)⟩

/-- the bytes already read that can still take part in a `*/` -/
def pending : JsS → Bytes
  | .blockCStar => [0x2A]
  | _ => []

def inBlock (s : JsS) : Bool := s == .blockC || s == .blockCStar

theorem blockStep {s : JsS} (hs : inBlock s = true) (c : UInt8) {l : Bytes}
    (h : noClose (pending s ++ c :: l) = true) :
    inBlock (jsStep s c) = true ∧ noClose (pending (jsStep s c) ++ l) = true := by
  have hs' : s = .blockC ∨ s = .blockCStar := by
    cases s <;> simp [inBlock] at hs ⊢
  rcases hs' with rfl | rfl
  · by_cases hc : c = 0x2A
    · subst hc; exact ⟨by decide, by simpa [pending, jsStep] using h⟩
    · have : (c == 0x2A) = false := by simpa using hc
      refine ⟨by simp [jsStep, this, inBlock], ?_⟩
      simp only [jsStep, this, pending, List.nil_append] at h ⊢
      exact noClose_tail h
  · have h' : noClose (0x2A :: c :: l) = true := by simpa [pending] using h
    have hne : (c == 0x2F) = false := by
      cases hc : (c == 0x2F)
      · rfl
      · have : c = 0x2F := by simpa using hc
        subst this; simp [noClose] at h'
    by_cases hc : c = 0x2A
    · subst hc
      exact ⟨by decide, by simpa [pending, jsStep] using noClose_tail h'⟩
    · have h2 : (c == 0x2A) = false := by simpa using hc
      refine ⟨by simp [jsStep, hne, h2, inBlock], ?_⟩
      simp only [jsStep, hne, h2, pending]
      exact noClose_tail (noClose_tail h')

/-- inside: as long as no `*/` has been completed the automaton stays in the block comment -/
theorem block_fold : ∀ (l : Bytes) (s : JsS), inBlock s = true → noClose (pending s ++ l) = true →
    inBlock (l.foldl jsStep s) = true ∧ noClose (pending (l.foldl jsStep s)) = true
  | [], s, hs, _ => ⟨hs, by cases s <;> simp [pending, noClose]⟩
  | c :: l, s, hs, h => by
    obtain ⟨h1, h2⟩ := blockStep hs c h
    simpa using block_fold l _ h1 h2

/-- **a block comment does not end before its first `*/`**: after `/*` and any text `q` in which no
`*/` occurs, the reference is inside the comment -/
theorem blockComment_inside (q : Bytes) (h : noClose q = true) : inBlock (q.foldl jsStep .blockC) = true :=
  (block_fold q .blockC (by decide) (by simpa [pending] using h)).1

/-- **and it ends exactly there**: if `*/` does not occur in `body ++ "*"` (so the `*/` that follows
`body` is the first one), the reference is back in code after `body ++ "*/"` -/
theorem blockComment_closes (body : Bytes) (h : noClose (body ++ [0x2A]) = true) :
    (body ++ [0x2A, 0x2F]).foldl jsStep .blockC = .code true := by
  have h1 := block_fold (body ++ [0x2A]) .blockC (by decide) (by simpa [pending] using h)
  have : (body ++ [0x2A, 0x2F]) = (body ++ [0x2A]) ++ [0x2F] := by simp
  rw [this, List.foldl_append]
  have hstar : (body ++ [0x2A]).foldl jsStep .blockC = .blockCStar := by
    rw [List.foldl_append]
    have hb := block_fold body .blockC (by decide) (by simpa [pending] using noClose_append_left _ _ h)
    generalize body.foldl jsStep .blockC = s at hb
    cases s <;> simp [inBlock] at hb <;> simp [jsStep]
  rw [hstar]; rfl

/-- `/` then `*` opens a block comment, `/` then `/` a line comment, from code -/
theorem comment_openers (ro : Bool) :
    [0x2F, 0x2A].foldl jsStep (.code ro) = .blockC ∧ [0x2F, 0x2F].foldl jsStep (.code ro) = .lineC := by
  cases ro <;> decide

/-- in particular `/*/` is an OPEN comment -/
example (ro : Bool) : inBlock ([0x2F, 0x2A, 0x2F].foldl jsStep (.code ro)) = true := by cases ro <;> decide

/-- a line comment runs up to LF / CR (0xE2, the lead byte of U+2028 / U+2029, is outside class D) -/
theorem lineComment_inside : ∀ (l : Bytes), (∀ c ∈ l, c ≠ 10 ∧ c ≠ 13 ∧ c ≠ 0xE2) → l.foldl jsStep .lineC = .lineC
  | [], _ => rfl
  | c :: l, h => by
    obtain ⟨h1, h2, h3⟩ := h c (by simp)
    have : jsStep .lineC c = .lineC := by
      simp [jsStep, h1, h2, h3]
    simp only [List.foldl_cons, this]
    exact lineComment_inside l (fun d hd => h d (by simp [hd]))

theorem lineComment_closes : jsStep .lineC 10 = .code true ∧ jsStep .lineC 13 = .code true := by decide

end ScriggoV.HtmlTok

namespace ScriggoV.LexCtx
open ScriggoV ScriggoV.Lexer ScriggoV.Gen.LexTables ScriggoV.HtmlTok

/-- the lexer's `jsComment` flag that goes with a reference state (`m ≤ 1`: inside the script
content, not inside a partially matched end tag `</script`, where the lexer has left the element) -/
def jsCommentOf : RSt → Nat
  | .raw (.js .lineC) m => if m ≤ 1 then 1 else 0
  | .raw (.js .blockC) m => if m ≤ 1 then 2 else 0
  | .raw (.js .blockCStar) m => if m ≤ 1 then 2 else 0
  | _ => 0

theorem R_jsComment {text : Bytes} {s : CSt} {r : RSt} (h : R text s r) : s.jsComment = jsCommentOf r := by
  rcases h with ⟨_, hcl, hr⟩ | ⟨_, hst, hr⟩ | ⟨hst, hr⟩ | ⟨k, m, rfl, _, _, _, _, hr⟩ |
    ⟨k, m, rfl, _, _, _, _, hj, _⟩
  · obtain ⟨_, _, _, hj⟩ := hcl
    cases r <;> simp [HtmlRef] at hr <;> try (simp [jsCommentOf, hj])
    next k m =>
      subst hr
      cases k with
      | css j => simp [jsCommentOf, hj]
      | js j => cases j <;> simp [jsCommentOf, hj, RawK.name]
  · obtain ⟨_, _, _, hj⟩ := hst
    cases r <;> simp [TagRef] at hr <;> simp [jsCommentOf, hj]
  · obtain ⟨_, hj, _, _⟩ := hst
    cases r <;> simp [AttrRef] at hr <;> simp [jsCommentOf, hj]
  · rename_i hm _ _ _
    cases k <;> simp [JsRef] at hr <;> simp [jsCommentOf, hr, hm]
  · simp [jsCommentOf, hj]

/-- **The lexer model's comment recogniser is the reference's**: run over a delimiter-free prefix
`p` of class `D`, the context machine of the lexer is in its line-comment state (`jsComment = 1`)
exactly when the reference tokenizer is in a JavaScript line comment, in its block-comment state
(`= 2`) exactly when the reference is in a block comment (`/*` … the first `*/`,
`blockComment_inside` / `blockComment_closes`), and in neither otherwise. -/
theorem jsComment_agree (U : Lexer.Unicode) (p t : Bytes) (ht : startsDelim t)
    (hfree : delimFree (p ++ t) p.length)
    (c : HtmlTok.Ctx) (u : Bool) (habs : HtmlTok.abs Lexer.containsURL (HtmlTok.run p) = some (c, u)) :
    (ctxAt U (p ++ t) p.length).jsComment = jsCommentOf (HtmlTok.run p) := by
  have H := Hole.of_hyps ht hfree habs
  have hmu : mu p.length init ≤ 2 * (p ++ t).length + 4 := by
    simp [mu, init, ContextHTML, ContextUnquotedAttr]; omega
  obtain ⟨_, h2⟩ := crun_sim H (fun s hlt hR => step_all (U := U) H hlt hR) (2 * (p ++ t).length + 4) init
    (Nat.zero_le _) (Nat.zero_le _) (R_init _) hmu
  have hn : rs (p ++ t) p.length = run p := by
    rw [rs_append_left _ _ (Nat.le_refl _)]; simp
  rw [hn] at h2
  exact R_jsComment h2

end ScriggoV.LexCtx
