import ScriggoV.Lemmas.LexCtxRefine
import ScriggoV.Lemmas.LexShowPreserve
/-! # C06 layer 2, every hole — the full model: the iteration of the main loop at a `{{`

`show_step`: at a position where `{{` starts (and `noParseShow` is off) the iteration of the main
loop of the full lexer model is `delim … 0`. It returns without fault. It pushes the pending Text
token (if any) and then the `{{` token, stamped with the CURRENT context `st.ctx` and the offset of
the `{{`; everything `lexShow` pushes comes on top. If the loop goes on (`.cont st' lp'`), the
projection of the new state onto the context machine is the old projection with only `pos` moved
(to `st'.base`, `lp'.p = 0`): `lexShow` leaves `ctx`, `tagCtx`, `tagName`, `tagAttr`, `tagIndex`
alone (`lexShow_sameCtx`), `resetTok` leaves `quote`, `emittedURL`, `jsComment` alone.
Core Lean only. -/
namespace ScriggoV.LexCtx
open ScriggoV ScriggoV.Lexer ScriggoV.Gen.LexTables

/-- the tokens below the `{{` token: what was there, plus the flushed Text token if `lp.p > 0` -/
def Flushed (st : St) (lp : Loop) (older : List Tok) : Prop :=
  (lp.p = 0 ∧ older = st.toks) ∨ (0 < lp.p ∧ ∃ t, older = t :: st.toks ∧ t.typ = tokenText)

theorem flushText_toks {E : Env} {st st1 : St} {lp : Loop} (hI : LoopInv E st lp)
    (h : flushText E st lp = .ok st1) : Flushed st lp st1.toks := by
  unfold flushText at h
  split at h
  · rename_i hp
    obtain ⟨st', t, h1, _, _, _, _, _, h7, h8, _⟩ :=
      emitAt_val (E := E) (st := st) (line := lp.lin) (col := lp.tcol) (typ := tokenText) (n := lp.p) hI.p_le hI.base_le
    rw [h1] at h; cases h
    exact Or.inr ⟨hp, t, h7, h8⟩
  · rename_i hp
    cases h
    exact Or.inl ⟨by omega, rfl⟩

/-- `delim` for `{{`, with everything the later files need: the value is `.ok`, the loop invariant
goes on, the token list grows by `newer ++ [{{ token] ++ (flushed Text token)`, and a `.cont` result
differs from the entry state, as far as the context machine can see, only in the position. -/
theorem delim_show_full {E : Env} {st : St} {lp : Loop} (hI : LoopInv E st lp) (hB : Bal st)
    (h2 : lp.p + 2 ≤ srcLen E st) :
    ∃ (o : Out) (tok : Tok) (older newer : List Tok), delim E st lp 0 = .ok o ∧ OutGood E st lp o ∧
      Flushed st lp older ∧
      (outSt o).toks = newer ++ tok :: older ∧ tok.typ = tokenLeftBraces ∧ tok.ctx = st.ctx ∧
      tok.start = ((st.base + lp.p : Nat) : Int) ∧
      (∀ st' lp', o = .cont st' lp' →
        proj st' lp' = { proj st lp with pos := st'.base + lp'.p } ∧ lp'.p = 0 ∧ st'.lbase = st.lbase ∧
        ∃ st1, flushText E st lp = .ok st1 ∧ lexShow E st1 = .ok (st', none)) := by
  obtain ⟨o, ho, hg⟩ := delim_ok (codeSpec E) (which := 0) hI hB h2 (by omega)
  obtain ⟨st1, h1, e1, b1, cf1, _, _, _⟩ := flushText_val hI
  have hfl := flushText_toks hI h1
  have hs1 : srcLen E st1 = srcLen E st - lp.p := by unfold srcLen; rw [b1]; omega
  obtain ⟨st2, tok, h2', e2, b2, cf2, _, _, tk2, ty2, cx2, stt2⟩ := emit_val (E := E) (st := st1)
    (typ := tokenLeftBraces) (n := 2) (by omega) e1.le_len
  obtain ⟨st3, e, h3, e3, _, hpost⟩ := (codeSpec E).lexCode_ok tokenRightBraces (addCol st2 2) e2.le_len
    ((e1.trans e2).bal hB)
  obtain ⟨_, ⟨new3, hnew3, _⟩, _⟩ := e3
  have hctx : tok.ctx = st.ctx := by
    rw [cx2, cf1.ctx]
    simp [tokenLeftBraces, tokenText]
  have hstart : tok.start = ((st.base + lp.p : Nat) : Int) := by
    rw [stt2 (by omega), b1]
  have ho' := ho
  unfold delim at ho
  simp only [h1, bind_ok, if_true, lexShow, lexBlock, emitAdv, h2', pure_eq_ok, h3] at ho
  cases e with
  | some err =>
    simp only [] at ho
    cases ho
    refine ⟨_, tok, st1.toks, new3, ho', hg, hfl, by rw [← tk2]; exact hnew3, ty2, hctx, hstart, ?_⟩
    intro st' lp' h; cases h
  | none =>
    have hn2 : 2 ≤ srcLen E st3 := (hpost rfl).1 (Or.inl rfl)
    obtain ⟨st4, t4, h4, e4, _⟩ := emit_val (E := E) (st := st3) (typ := tokenRightBraces) (n := 2) hn2
      (by unfold srcLen at hn2; omega)
    obtain ⟨_, ⟨new4, hnew4, _⟩, _⟩ := e4
    have hshow : lexShow E st1 = .ok (addCol st4 2, none) := by
      simp only [lexShow, lexBlock, emitAdv, h2', bind_ok, pure_eq_ok, h3, h4]
    simp only [h4, bind_ok, Nat.zero_ne_one, if_false] at ho
    cases ho
    refine ⟨_, tok, st1.toks, new4 ++ new3, ho', hg, hfl, ?_, ty2, hctx, hstart, ?_⟩
    · show st4.toks = _
      rw [hnew4, hnew3, List.append_assoc, ← tk2]
      rfl
    · intro st' lp' h
      cases h
      have hsc := lexShow_sameCtx E st1 _ none hshow
      obtain ⟨s1, _, s3, s4, s5, s6, s7⟩ := hsc
      refine ⟨?_, rfl, s7.trans cf1.lbase, st1, h1, hshow⟩
      unfold proj
      simp only [resetTok]
      rw [s1, s3, s4, s5, s6, cf1.ctx, cf1.tagCtx, cf1.tagName, cf1.tagAttr, cf1.tagIndex]

/-- the iteration of the main loop at a `{{` -/
theorem step_at_show {E : Env} {st : St} {lp : Loop} (hf : htmlFamily st.ctx) (hE : E.noParseShow = false)
    (h0 : E.text[st.base + lp.p]? = some 0x7b) (h1 : E.text[st.base + lp.p + 1]? = some 0x7b) :
    step E st lp = delim E st lp 0 := by
  have hlen : st.base + lp.p + 1 < E.text.length := lt_of_getElem?_eq_some h1
  unfold step
  have hsrc : srcAt E st lp.p = .ok 0x7b := srcAt_eq_peek h0
  have hm := hf.not_md
  have hdd : (if lp.p + 1 < srcLen E st then peek E st (lp.p + 1) else none) = some 0x7b := by
    rw [if_pos (by unfold srcLen; omega)]; unfold peek; rw [← Nat.add_assoc]; exact h1
  simp only [hsrc, bind_ok, hm, false_and, if_false, hdd, hE, Bool.not_false, and_self, if_true]

/-- The show step of the full model (Step 3). -/
theorem show_step {E : Env} {st : St} {lp : Loop} (hI : LoopInv E st lp) (hf : htmlFamily st.ctx)
    (hft : htmlFamily st.tagCtx) (hE : E.noParseShow = false)
    (h0 : E.text[st.base + lp.p]? = some 0x7b) (h1 : E.text[st.base + lp.p + 1]? = some 0x7b) (hB : Bal st) :
    ∃ (o : Out) (tok : Tok) (older newer : List Tok), step E st lp = .ok o ∧ OutGood E st lp o ∧
      Flushed st lp older ∧
      (outSt o).toks = newer ++ tok :: older ∧ tok.typ = tokenLeftBraces ∧ tok.ctx = st.ctx ∧
      tok.start = ((st.base + lp.p : Nat) : Int) ∧
      (∀ st' lp', o = .cont st' lp' →
        proj st' lp' = { proj st lp with pos := st'.base + lp'.p } ∧ lp'.p = 0 ∧
        htmlFamily st'.ctx ∧ htmlFamily st'.tagCtx ∧ st'.lbase = st.lbase ∧
        ∃ st1, flushText E st lp = .ok st1 ∧ lexShow E st1 = .ok (st', none)) := by
  have hlen : st.base + lp.p + 1 < E.text.length := lt_of_getElem?_eq_some h1
  have h2 : lp.p + 2 ≤ srcLen E st := by unfold srcLen; omega
  obtain ⟨o, tok, older, newer, hd, hg, hfl, htoks, hty, hcx, hstt, hcont⟩ := delim_show_full hI hB h2
  refine ⟨o, tok, older, newer, by rw [step_at_show hf hE h0 h1]; exact hd, hg, hfl, htoks, hty, hcx, hstt, ?_⟩
  intro st' lp' ho
  obtain ⟨hp, hp0, hlb, hsh⟩ := hcont st' lp' ho
  have hc : st'.ctx = st.ctx := congrArg CSt.ctx hp
  have htc : st'.tagCtx = st.tagCtx := congrArg CSt.tagCtx hp
  exact ⟨hp, hp0, by rw [hc]; exact hf, by rw [htc]; exact hft, hlb, hsh⟩

end ScriggoV.LexCtx
