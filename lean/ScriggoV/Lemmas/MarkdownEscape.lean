import ScriggoV.Lemmas.MarkdownEscapeTables
/-! Helper lemmas for C26, part 2: the per-clause inductions over `escText` / `cbGo`. -/
namespace ScriggoV.MarkdownEscape
open ScriggoV.Gen.MdTables ScriggoV.CommonMarkLex

/-! ### clause 1: backslash-escape lexing of the output -/

/-- the tokens CommonMark lexes from the piece written for one byte -/
def pieceToks (f : Bool) (c : UInt8) (rest : Bytes) : List Tok :=
  if escapedText c then [.esc c]
  else if CommonMarkLex.isSpTab c then (if keepSpace f rest then [.lit c] else [.lit 194, .lit 160])
  else [.lit c]

def toks : Bool → Bytes → List Tok
  | _, [] => []
  | f, c :: rest => pieceToks f c rest ++ toks false rest

theorem lex_escText (s : Bytes) : ∀ f, lexFrom false (escText f s) = toks f s := by
  induction s with
  | nil => intro f; simp [escText, lexFrom, toks]
  | cons c rest ih =>
    intro f
    rw [escText_cons]
    rcases piece_cases f c rest with ⟨he, hp⟩ | ⟨he, hs, hk, hp⟩ | ⟨he, hs, hk, hp⟩ | ⟨he, hs, hp⟩
    · simp [hp, lexFrom, esc_punct he, ih, toks, pieceToks, he]
    · simp [hp, lexFrom, sptab_92 hs, ih, toks, pieceToks, he, hs, hk]
    · simp [hp, lexFrom, ih, toks, pieceToks, he, hs, hk]
    · simp [hp, lexFrom, slash_esc he, ih, toks, pieceToks, he, hs]

theorem activeEscaped_escText (f : Bool) (s : Bytes) : activeEscaped (escText f s) = true := by
  unfold activeEscaped lex
  rw [lex_escText]
  induction s generalizing f with
  | nil => simp [toks]
  | cons c rest ih =>
    simp only [toks, List.all_append, Bool.and_eq_true]
    refine ⟨?_, ih false⟩
    unfold pieceToks
    by_cases he : escapedText c = true
    · simp [he]
    · have he' : escapedText c = false := by simpa using he
      by_cases hs : CommonMarkLex.isSpTab c = true
      · by_cases hk : keepSpace f rest = true
        · simp [he', hs, hk, sptab_active hs]
        · simp [he', hs, hk]; decide
      · simp [he', hs, active_esc he']

theorem wsRel_escText (f : Bool) (s : Bytes) : wsRel s (unescape (escText f s)) = true := by
  unfold unescape lex
  rw [lex_escText]
  induction s generalizing f with
  | nil => simp [toks, wsRel]
  | cons c rest ih =>
    simp only [toks, List.map_append]
    unfold pieceToks
    by_cases he : escapedText c = true
    · simp [he, wsRel, Tok.val, ih]
    · have he' : escapedText c = false := by simpa using he
      by_cases hs : CommonMarkLex.isSpTab c = true
      · by_cases hk : keepSpace f rest = true
        · simp [he', hs, hk, wsRel, Tok.val, ih]
        · simp [he', hs, hk, wsRel, Tok.val, ih]
      · simp [he', hs, wsRel, Tok.val, ih]

/-! ### clause 2: no line of the output begins a block construct -/

/-- after a run of digits never comes `.` or `)` -/
def noMarkerEnd (l : Bytes) : Bool :=
  match dropDigits l with
  | d :: _ => !(d == 46 || d == 41)
  | [] => true

theorem noMarkerEnd_escText (s : Bytes) : ∀ f, noMarkerEnd (escText f s) = true := by
  induction s with
  | nil => intro f; simp [escText, noMarkerEnd, dropDigits]
  | cons c rest ih =>
    intro f
    rw [escText_cons]
    rcases piece_cases f c rest with ⟨he, hp⟩ | ⟨he, hs, hk, hp⟩ | ⟨he, hs, hk, hp⟩ | ⟨he, hs, hp⟩
    · have : isDigit 92 = false := by decide
      simp [hp, noMarkerEnd, dropDigits, this]
    · simp [hp, noMarkerEnd, dropDigits, sptab_digit hs]
      have := sptab_dotParen hs; simpa using this
    · have : isDigit 194 = false := by decide
      simp [hp, noMarkerEnd, dropDigits, this]
    · by_cases hd : isDigit c = true
      · have := ih false
        unfold noMarkerEnd at this ⊢
        simp only [hp, List.cons_append, List.nil_append, dropDigits, hd, if_true]
        exact this
      · have hd' : isDigit c = false := by simpa using hd
        simp [hp, noMarkerEnd, dropDigits, hd']
        have := dotParen_esc he; simpa using this

theorem startsBlock_escText (s : Bytes) : ∀ f, startsBlock (escText f s) = false := by
  induction s with
  | nil => intro f; simp [escText, startsBlock, dropSpTab]
  | cons c rest ih =>
    intro f
    rw [escText_cons]
    rcases piece_cases f c rest with ⟨he, hp⟩ | ⟨he, hs, hk, hp⟩ | ⟨he, hs, hk, hp⟩ | ⟨he, hs, hp⟩
    · have h1 : CommonMarkLex.isSpTab 92 = false := by decide
      have h2 : blockStartByte 92 = false := by decide
      have h3 : isDigit 92 = false := by decide
      simp [hp, startsBlock, dropSpTab, h1, h2, h3]
    · have := ih false
      simp only [startsBlock] at this
      simp [hp, startsBlock, dropSpTab, hs, this]
    · have h1 : CommonMarkLex.isSpTab 194 = false := by decide
      have h2 : blockStartByte 194 = false := by decide
      have h3 : isDigit 194 = false := by decide
      simp [hp, startsBlock, dropSpTab, h1, h2, h3]
    · have hm := noMarkerEnd_escText rest false
      simp only [noMarkerEnd] at hm
      simp only [hp, List.cons_append, List.nil_append, startsBlock, dropSpTab, hs,
        Bool.false_eq_true, if_false, blockStart_esc he, Bool.false_or]
      by_cases hd : isDigit c = true
      · simp only [hd, Bool.true_and]
        split
        · rename_i d t hdt
          rw [hdt] at hm
          simpa using hm
        · rfl
      · have hd' : isDigit c = false := by simpa using hd
        simp [hd']

theorem noBlockStartFrom_escText (s : Bytes) :
    ∀ ls f, noBlockStartFrom ls (escText f s) = true := by
  induction s with
  | nil => intro ls f; simp [escText, noBlockStartFrom]
  | cons c rest ih =>
    intro ls f
    have hsb := startsBlock_escText (c :: rest) f
    rw [escText_cons] at hsb ⊢
    rcases piece_cases f c rest with ⟨he, hp⟩ | ⟨he, hs, hk, hp⟩ | ⟨he, hs, hk, hp⟩ | ⟨he, hs, hp⟩
    · rw [hp] at hsb ⊢
      have h1 : isEol 92 = false := by decide
      simp only [List.cons_append, List.nil_append] at hsb ⊢
      simp [noBlockStartFrom, hsb, h1, punct_eol (esc_punct he), ih]
    · rw [hp] at hsb ⊢
      simp only [List.cons_append, List.nil_append] at hsb ⊢
      simp [noBlockStartFrom, hsb, ih]
    · rw [hp] at hsb ⊢
      have h1 : isEol 194 = false := by decide
      have h2 : isEol 160 = false := by decide
      simp only [List.cons_append, List.nil_append] at hsb ⊢
      simp [noBlockStartFrom, hsb, h1, h2, ih]
    · rw [hp] at hsb ⊢
      simp only [List.cons_append, List.nil_append] at hsb ⊢
      simp [noBlockStartFrom, hsb, ih]

/-! ### clause 3: no two consecutive spaces -/

/-- the head of `l` is not a space or tab -/
def headNotSpTab (l : Bytes) : Bool :=
  match l with
  | [] => true
  | d :: _ => !CommonMarkLex.isSpTab d

theorem keepSpace_head {f : Bool} {rest : Bytes} (h : keepSpace f rest = true) :
    headNotSpTab rest = true ∧ f = false ∧ rest ≠ [] := by
  unfold keepSpace at h
  cases rest with
  | nil => simp at h
  | cons d t =>
    simp [isSpTab_eq] at h
    simp [headNotSpTab, h]

/-- the output starts with a space or tab only where the input does -/
theorem headNotSpTab_escText (s : Bytes) (f : Bool) (h : headNotSpTab s = true) :
    headNotSpTab (escText f s) = true := by
  cases s with
  | nil => simp [escText, headNotSpTab]
  | cons c rest =>
    simp only [headNotSpTab, Bool.not_eq_true'] at h
    rw [escText_cons]
    rcases piece_cases f c rest with ⟨he, hp⟩ | ⟨he, hs, hk, hp⟩ | ⟨he, hs, hk, hp⟩ | ⟨he, hs, hp⟩
    · simp [hp, headNotSpTab]; decide
    · rw [hs] at h; cases h
    · rw [hs] at h; cases h
    · simp [hp, headNotSpTab, hs]

theorem noDoubleSpaceFrom_escText (s : Bytes) :
    ∀ p f, (p = true → headNotSpTab s = true) → noDoubleSpaceFrom p (escText f s) = true := by
  induction s with
  | nil => intro p f _; simp [escText, noDoubleSpaceFrom]
  | cons c rest ih =>
    intro p f hpre
    rw [escText_cons]
    rcases piece_cases f c rest with ⟨he, hp⟩ | ⟨he, hs, hk, hp⟩ | ⟨he, hs, hk, hp⟩ | ⟨he, hs, hp⟩
    · have h92 : ((92 : UInt8) == 32) = false := by decide
      simp [hp, noDoubleSpaceFrom, h92, punct_32 (esc_punct he)]
      exact ih _ _ (by simp)
    · have hp0 : p = false := by
        cases p with
        | false => rfl
        | true =>
          have := hpre rfl
          simp [headNotSpTab, hs] at this
      subst hp0
      simp [hp, noDoubleSpaceFrom]
      exact ih _ _ (fun _ => (keepSpace_head hk).1)
    · have h1 : ((194 : UInt8) == 32) = false := by decide
      have h2 : ((160 : UInt8) == 32) = false := by decide
      simp [hp, noDoubleSpaceFrom, h1, h2]
      exact ih _ _ (by simp)
    · have h32 : (c == 32) = false := by
        simp [CommonMarkLex.isSpTab] at hs; simp [hs.1]
      simp [hp, noDoubleSpaceFrom, h32]
      exact ih _ _ (by simp)

/-! ### clause 4: no indented code block opens -/

def headNotTab (l : Bytes) : Bool :=
  match l with
  | [] => true
  | d :: _ => !(d == 9)

/-- the input class of the partial theorem: no TAB directly after a line ending (LF or CR) -/
def noTabAfterEol : Bytes → Bool
  | [] => true
  | c :: rest => (!isEol c || headNotTab rest) && noTabAfterEol rest

theorem indentCols_headNotSpTab (l : Bytes) (k : Nat) (h : headNotSpTab l = true) :
    indentCols k l = k := by
  cases l with
  | nil => simp [indentCols]
  | cons d t =>
    simp [headNotSpTab, CommonMarkLex.isSpTab] at h
    simp [indentCols, h.1, h.2]

theorem indent_small (s : Bytes) (f : Bool) (h : f = true ∨ headNotTab s = true) :
    indentCols 0 (escText f s) ≤ 1 := by
  cases s with
  | nil => simp [escText, indentCols]
  | cons c rest =>
    rw [escText_cons]
    rcases piece_cases f c rest with ⟨he, hp⟩ | ⟨he, hs, hk, hp⟩ | ⟨he, hs, hk, hp⟩ | ⟨he, hs, hp⟩
    · have h1 : ((92 : UInt8) == 32) = false := by decide
      have h2 : ((92 : UInt8) == 9) = false := by decide
      simp [hp, indentCols, h1, h2]
    · obtain ⟨hh, hf, _⟩ := keepSpace_head hk
      subst hf
      have h9 : (c == 9) = false := by
        rcases h with h | h
        · cases h
        · simpa [headNotTab] using h
      have h32 : (c == 32) = true := by
        simp [CommonMarkLex.isSpTab, h9] at hs; simp [hs]
      have := indentCols_headNotSpTab _ 1 (headNotSpTab_escText rest false hh)
      simp [hp, indentCols, h32, this]
    · have h1 : ((194 : UInt8) == 32) = false := by decide
      have h2 : ((194 : UInt8) == 9) = false := by decide
      simp [hp, indentCols, h1, h2]
    · simp [CommonMarkLex.isSpTab] at hs
      simp [hp, indentCols, hs.1, hs.2]

theorem bad_false (ls pb : Bool) (out : Bytes) (h : ls = true → indentCols 0 out ≤ 1) :
    (ls && pb && !lineBlank out && decide (4 ≤ indentCols 0 out)) = false := by
  cases ls with
  | false => simp
  | true =>
    have := h rfl
    have : decide (4 ≤ indentCols 0 out) = false := by simp; omega
    simp [this]

theorem noTabAfterEol_cons {c : UInt8} {rest : Bytes} (h : noTabAfterEol (c :: rest) = true) :
    noTabAfterEol rest = true ∧ (isEol c = true → headNotTab rest = true) := by
  simp [noTabAfterEol] at h
  refine ⟨h.2, fun he => ?_⟩
  rcases h.1 with h1 | h1
  · rw [he] at h1; cases h1
  · exact h1

theorem noIndentedCodeFrom_escText (s : Bytes) :
    ∀ pb cb ls cr f, noTabAfterEol s = true → (ls = true → f = true ∨ headNotTab s = true) →
      noIndentedCodeFrom pb cb ls cr (escText f s) = true := by
  induction s with
  | nil => intro pb cb ls cr f _ _; simp [escText, noIndentedCodeFrom]
  | cons c rest ih =>
    intro pb cb ls cr f hnt hls
    obtain ⟨hnt', hnl⟩ := noTabAfterEol_cons hnt
    have hbad := bad_false ls pb (escText f (c :: rest)) (fun h => indent_small _ _ (hls h))
    rw [escText_cons] at hbad ⊢
    rcases piece_cases f c rest with ⟨he, hp⟩ | ⟨he, hs, hk, hp⟩ | ⟨he, hs, hk, hp⟩ | ⟨he, hs, hp⟩
    · rw [hp] at hbad ⊢
      simp only [List.cons_append, List.nil_append] at hbad ⊢
      have h1 : ((92 : UInt8) == 10) = false := by decide
      have h2 : isEol 92 = false := by decide
      have hpu := esc_punct he
      unfold noIndentedCodeFrom
      simp only [h1, Bool.and_false, Bool.false_eq_true, if_false, hbad, Bool.not_false, Bool.true_and, h2]
      unfold noIndentedCodeFrom
      simp only [Bool.false_and, Bool.false_eq_true, if_false, Bool.not_false, Bool.true_and,
        punct_eol hpu]
      exact ih _ _ _ _ _ hnt' (by simp)
    · rw [hp] at hbad ⊢
      simp only [List.cons_append, List.nil_append] at hbad ⊢
      unfold noIndentedCodeFrom
      simp only [sptab_10 hs, Bool.and_false, Bool.false_eq_true, if_false, hbad, Bool.not_false,
        Bool.true_and, sptab_eol hs]
      exact ih _ _ _ _ _ hnt' (by simp)
    · rw [hp] at hbad ⊢
      simp only [List.cons_append, List.nil_append] at hbad ⊢
      have h1 : ((194 : UInt8) == 10) = false := by decide
      have h2 : isEol 194 = false := by decide
      have h3 : ((160 : UInt8) == 10) = false := by decide
      have h4 : isEol 160 = false := by decide
      unfold noIndentedCodeFrom
      simp only [h1, Bool.and_false, Bool.false_eq_true, if_false, hbad, Bool.not_false, Bool.true_and, h2]
      unfold noIndentedCodeFrom
      simp only [Bool.false_and, Bool.false_eq_true, if_false, Bool.not_false, Bool.true_and, h4]
      exact ih _ _ _ _ _ hnt' (by simp)
    · rw [hp] at hbad ⊢
      simp only [List.cons_append, List.nil_append] at hbad ⊢
      unfold noIndentedCodeFrom
      by_cases hcr : (cr && c == 10) = true
      · simp only [hcr, if_true]
        have he10 : isEol c = true := by
          simp at hcr; simp [isEol, hcr.2]
        exact ih _ _ _ _ _ hnt' (fun _ => Or.inr (hnl he10))
      · simp only [hcr, Bool.false_eq_true, if_false, hbad, Bool.not_false, Bool.true_and]
        by_cases hel : isEol c = true
        · simp only [hel, if_true]
          exact ih _ _ _ _ _ hnt' (fun _ => Or.inr (hnl hel))
        · simp only [hel, Bool.false_eq_true, if_false]
          exact ih _ _ _ _ _ hnt' (by simp)

/-! ### allowHTML mode on input without `<` and `&` -/

/-- no `<` and no `&` -/
def noLtAmp : Bytes → Bool
  | [] => true
  | c :: rest => c != 60 && c != 38 && noLtAmp rest

/-- no `<` -/
def noLt : Bytes → Bool
  | [] => true
  | c :: rest => c != 60 && noLt rest

/-- what `markdownEscape(s, true)` is meant to write for `s` without `<`: as in text mode, but an
`&` passes through (character references of the HTML value stay character references) -/
def escAmpThrough : Bool → Bytes → Bytes
  | _, [] => []
  | first, c :: rest =>
    (if c == 38 then [c] else pieceText first c rest) ++ escAmpThrough false rest

theorem escHTML_noLtAmp (s : Bytes) :
    ∀ fuel first esc, s.length < fuel → noLtAmp s = true →
      escHTML fuel first esc s = .ok (escText first s) := by
  induction s with
  | nil => intro fuel first esc _ _; cases fuel <;> simp [escHTML, escText]
  | cons c rest ih =>
    intro fuel first esc hf hn
    simp only [noLtAmp, Bool.and_eq_true, bne_iff_ne, ne_eq] at hn
    obtain ⟨⟨h60, h38⟩, hrest⟩ := hn
    have h60' : (c == 60) = false := by simpa using h60
    have h38' : (c == 38) = false := by simpa using h38
    cases fuel with
    | zero => simp at hf
    | succ fuel =>
      have hf' : rest.length < fuel := by simp at hf; omega
      rw [escText_cons]
      unfold escHTML pieceText escapedText
      simp only [h60', h38', Bool.false_eq_true, if_false, Bool.false_or, Bool.or_false]
      by_cases hs : slashCase c = true
      · simp only [hs, if_true, ih fuel false slash hf' hrest]
        simp [slash]
      · simp only [hs, Bool.false_eq_true, if_false]
        by_cases hsp : MarkdownEscape.isSpTab c = true
        · simp only [hsp, if_true]
          by_cases hk : keepSpace first rest = true
          · simp only [hk, if_true, ih fuel false esc hf' hrest]; simp
          · simp only [hk, Bool.false_eq_true, if_false, ih fuel false nbsp hf' hrest]
        · simp only [hsp, Bool.false_eq_true, if_false, ih fuel false esc hf' hrest]; simp

/-! ### code block: every line ending is followed by the indentation -/

/-- the input class of the partial theorem: every CR is directly followed by LF, or directly
follows an LF (the escaper takes that pair as one line ending). `p` = "the previous byte was an
LF that has not taken a CR yet". -/
def noLoneCRFrom : Bool → Bytes → Bool
  | _, [] => true
  | p, c :: rest =>
    if p && c == 13 then noLoneCRFrom false rest
    else if c == 13 then
      (match rest with
       | d :: _ => d == 10
       | [] => false) && noLoneCRFrom false rest
    else noLoneCRFrom (c == 10) rest

def noLoneCR (s : Bytes) : Bool := noLoneCRFrom false s

/-- after the indentation the scan is in the middle of a line -/
theorem staysIn_indent (spaces : Bool) (cr : Bool) (Y : Bytes) :
    staysInFrom (indentOf spaces) true cr (indentOf spaces ++ Y)
      = staysInFrom (indentOf spaces) false false Y := by
  cases spaces <;> cases cr <;>
    simp [indentOf, tab, fourSpaces, staysInFrom, CommonMarkLex.isPrefixB, isEol]

theorem staysIn_indent_end (spaces : Bool) (cr : Bool) :
    staysInFrom (indentOf spaces) true cr (indentOf spaces) = true := by
  have := staysIn_indent spaces cr []
  simp only [List.append_nil] at this
  rw [this]; simp [staysInFrom]

theorem staysIn_cbGo (spaces : Bool) (s : Bytes) :
    (noLoneCRFrom false s = true →
        staysInFrom (indentOf spaces) false false (cbGo spaces false s) = true) ∧
    (noLoneCRFrom true s = true →
        staysInFrom (indentOf spaces) true false (cbGo spaces true s) = true) ∧
    (noLoneCRFrom false s = true → s.head? = some 10 →
        staysInFrom (indentOf spaces) true true (cbGo spaces false s) = true) := by
  induction s with
  | nil =>
    refine ⟨fun _ => by simp [cbGo, staysInFrom], fun _ => ?_, fun _ h => by simp at h⟩
    simp only [cbGo, if_true]
    exact staysIn_indent_end spaces false
  | cons c rest ih =>
    obtain ⟨ihA, ihB, ihC⟩ := ih
    -- the case p = false, used twice
    have hA : noLoneCRFrom false (c :: rest) = true →
        staysInFrom (indentOf spaces) false false (cbGo spaces false (c :: rest)) = true := by
      intro h
      simp only [cbGo, Bool.false_and, Bool.false_eq_true, if_false, List.nil_append]
      unfold staysInFrom
      simp only [Bool.false_and, Bool.false_eq_true, if_false, Bool.not_false, Bool.true_or,
        Bool.true_and]
      unfold noLoneCRFrom at h
      simp only [Bool.false_and, Bool.false_eq_true, if_false] at h
      by_cases h13 : (c == 13) = true
      · simp only [h13, if_true, Bool.and_eq_true] at h
        have hc : c = 13 := by simpa using h13
        subst hc
        have hhead : rest.head? = some 10 := by
          cases rest with
          | nil => simp at h
          | cons d t => simp at h; simp [h.1]
        have := ihC h.2 hhead
        simpa [isEol] using this
      · simp only [h13, Bool.false_eq_true, if_false] at h
        by_cases h10 : (c == 10) = true
        · have hc : c = 10 := by simpa using h10
          subst hc
          have := ihB (by simpa using h)
          simpa [isEol] using this
        · have h10' : (c == 10) = false := by simpa using h10
          have h13' : (c == 13) = false := by simpa using h13
          rw [h10'] at h
          have := ihA h
          simp [isEol, h10', h13', this]
    refine ⟨hA, ?_, ?_⟩
    · intro h
      by_cases h13 : (c == 13) = true
      · have hc : c = 13 := by simpa using h13
        subst hc
        unfold noLoneCRFrom at h
        simp only [Bool.true_and, beq_self_eq_true, if_true] at h
        simp only [cbGo, Bool.true_and, beq_self_eq_true, if_true]
        unfold staysInFrom
        simp only [Bool.false_and, Bool.false_eq_true, if_false]
        have := staysIn_indent spaces true (cbGo spaces false rest)
        simp [isEol, this, ihA h]
      · have h13' : (c == 13) = false := by simpa using h13
        have hf : noLoneCRFrom false (c :: rest) = true := by
          unfold noLoneCRFrom at h ⊢
          simpa [h13'] using h
        have hA' := hA hf
        simp only [cbGo, Bool.false_and, Bool.false_eq_true, if_false, List.nil_append] at hA'
        simp only [cbGo, h13', Bool.and_false, Bool.false_eq_true, if_false, if_true]
        rw [staysIn_indent]
        exact hA'
    · intro h hhead
      have hc : c = 10 := by simpa using hhead
      subst hc
      unfold noLoneCRFrom at h
      simp at h
      simp only [cbGo, Bool.false_and, Bool.false_eq_true, if_false, List.nil_append]
      unfold staysInFrom
      simp only [Bool.true_and, beq_self_eq_true, if_true]
      exact ihB h

end ScriggoV.MarkdownEscape
