import ScriggoV.Model.ShowNode
/-! C09 — soundness of the condition `loopOK` on the statements of the Show case: when it holds,
the two loops compute `specShow` (the first operand that is not fine decides) for every list of
expressions with every list of operands. -/
namespace ScriggoV.Show

theorem Flow.stays_elim {σ : ErrSt} {f : Flow} (h : f.stays σ = true) : f = .next σ ∨ f = .cont σ := by
  cases f with
  | next σ' => left; simp [Flow.stays] at h; rw [h]
  | cont σ' => right; simp [Flow.stays] at h; rw [h]
  | abort v => simp [Flow.stays] at h

theorem firstFailure_append (a b : List Opnd) :
    firstFailure (a ++ b) = if firstFailure a = .accepted then firstFailure b else firstFailure a := by
  induction a with
  | nil => simp [firstFailure]
  | cons o os ih =>
    simp only [List.cons_append, firstFailure]
    by_cases ho : o.verdict = .accepted
    · simp [ho, ih]
    · simp [ho]

/-- the result of a loop that goes through when nothing fails and stops at the first failure -/
def loopResult (σ : ErrSt) (v : Verdict) : Flow := if v = .accepted then .next σ else .abort v

theorem pairLoop_spec (body : List Stmt) (σ : ErrSt) (h : bodyOK body σ = true) :
    ∀ ops, pairLoop body ops σ = loopResult σ (firstFailure ops) := by
  simp only [bodyOK, Bool.and_eq_true, beq_iff_eq] at h
  obtain ⟨⟨⟨⟨ha, hk⟩, hn⟩, hf⟩, hp⟩ := h
  intro ops
  induction ops with
  | nil => simp [pairLoop, firstFailure, loopResult]
  | cons o os ih =>
    cases o with
    | absent =>
      rcases Flow.stays_elim ha with e | e <;> simp [pairLoop, e, ih, firstFailure, Opnd.verdict]
    | untypedNil => simp [pairLoop, hn, firstFailure, Opnd.verdict, loopResult]
    | typed r =>
      cases r with
      | ok => rcases Flow.stays_elim hk with e | e <;> simp [pairLoop, e, ih, firstFailure, Opnd.verdict]
      | fail => simp [pairLoop, hf, firstFailure, Opnd.verdict, loopResult]
      | panic => simp [pairLoop, hp, firstFailure, Opnd.verdict, loopResult]

theorem exprStep_spec (L : ShowLoop) (σ0 σ1 : ErrSt) (hpre : execList none L.exprPre σ0 = .next σ1)
    (hb : bodyOK L.body σ1 = true) (hpost : execList none L.exprPost σ1 = .next σ0) (ops : List Opnd) :
    exprStep L ops σ0 = loopResult σ0 (firstFailure ops) := by
  unfold exprStep
  rw [hpre]
  simp only [pairLoop_spec L.body σ1 hb ops, loopResult]
  by_cases hv : firstFailure ops = .accepted
  · simp [hv, hpost]
  · simp [hv]

theorem exprLoop_spec (L : ShowLoop) (σ0 σ1 : ErrSt) (hpre : execList none L.exprPre σ0 = .next σ1)
    (hb : bodyOK L.body σ1 = true) (hpost : execList none L.exprPost σ1 = .next σ0) :
    ∀ exprs, exprLoop L exprs σ0 = loopResult σ0 (firstFailure exprs.flatten) := by
  intro exprs
  induction exprs with
  | nil => simp [exprLoop, firstFailure, loopResult]
  | cons ops rest ih =>
    simp only [exprLoop, exprStep_spec L σ0 σ1 hpre hb hpost ops, List.flatten_cons, firstFailure_append]
    by_cases hv : firstFailure ops = .accepted
    · simp [hv, loopResult, ih]
    · simp [hv, loopResult]

/-- **the loops return on the first failing operand**: under `loopOK`, the Show case gives the
verdict of the first operand — over all expressions, over all members of their pairs — that is
not fine, and accepts when there is none. -/
theorem runShow_eq_spec (L : ShowLoop) (h : loopOK L = true) (exprs : List (List Opnd)) :
    runShow L exprs = specShow exprs := by
  unfold loopOK at h
  split at h
  next σ0 h0 =>
    simp only [Bool.and_eq_true] at h
    obtain ⟨h1, h2⟩ := h
    split at h1
    next σ1 hpre =>
      simp only [Bool.and_eq_true, beq_iff_eq] at h1
      obtain ⟨hb, hpost⟩ := h1
      split at h2
      next σ2 hp =>
        unfold runShow specShow
        rw [h0]
        simp only [exprLoop_spec L σ0 σ1 hpre hb hpost exprs, loopResult]
        by_cases hv : firstFailure exprs.flatten = .accepted
        · simp [hv, hp]
        · simp [hv]
      next => cases h2
    next => cases h1
  next => cases h

theorem firstFailure_accepted_iff (ops : List Opnd) :
    firstFailure ops = .accepted ↔ ∀ o ∈ ops, o = .absent ∨ o = .typed .ok := by
  induction ops with
  | nil => simp [firstFailure]
  | cons o os ih =>
    simp only [firstFailure, List.mem_cons, forall_eq_or_imp]
    by_cases ho : o.verdict = .accepted
    · simp only [ho, if_true, ih]
      refine ⟨fun h => ⟨?_, h⟩, fun h => h.2⟩
      cases o with
      | absent => simp
      | untypedNil => simp [Opnd.verdict] at ho
      | typed r => cases r <;> simp_all [Opnd.verdict]
    · simp only [ho, if_false]
      refine ⟨fun h => h.elim, fun h => ?_⟩
      rcases h.1 with e | e <;> simp [e, Opnd.verdict] at ho

end ScriggoV.Show
