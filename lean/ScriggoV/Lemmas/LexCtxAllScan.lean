import ScriggoV.Lemmas.LexCtxAll
import ScriggoV.Lemmas.LexCtxAllIdent
import ScriggoV.Lemmas.LexCtxAllToks
/-! # C06 layer 2, every hole — a closed statement about `scanTemplate`

For an HTML template all of whose delimiters are single-identifier shows `{{ident}}` standing at
stable points of a document that is in the class `D` when read raw (show statements included):
`scanTemplate` returns without fault and without error, EVERY token of type `{{` in its output
starts at a `{{` of the template and carries the context that abstracts the state of the reference
HTML tokenizer after the text before it, and every `{{` of the template has its token
(`all_shows_ctx`). Core Lean only. -/
namespace ScriggoV.LexCtx
open ScriggoV ScriggoV.Lexer ScriggoV.Gen.LexTables ScriggoV.HtmlTok

/-- the class of templates of `all_shows_ctx` -/
structure IdentTemplate (text : Bytes) : Prop where
  /-- no shebang line -/
  noSheb : ¬ ∃ rest, text = 0x23 :: 0x21 :: rest
  /-- the text, read raw, is in the class `D` of the reference tokenizer -/
  inD : HtmlTok.run text ≠ .bad
  /-- wherever a delimiter (`{{`, `{%`, `{#`, `#}`) starts, it is a show `{{identifier}}` and the
  reference run over the text before it is in a stable state -/
  shows : ∀ i, delimAt text i = true → stable (rs text i) ∧ ∃ e, IdentShow text i e

theorem IdentTemplate.good {text : Bytes} (h : IdentTemplate text) (i : Nat) : rs text i ≠ .bad := by
  intro hb
  apply h.inD
  by_cases hi : i ≤ text.length
  · have := rs_bad_mono hi hb
    simpa [rs] using this
  · have : text.take i = text := List.take_of_length_le (by omega)
    simpa [rs, this] using hb

/-- what `all_shows_ctx` says about one token -/
def ShowTokOK (text : Bytes) (t : Tok) : Prop :=
  t.typ = tokenLeftBraces → ∃ n c u, t.start = ((n : Nat) : Int) ∧ text[n]? = some 0x7b ∧ text[n + 1]? = some 0x7b ∧
    abs containsURL (rs text n) = some (c, u) ∧ t.ctx = ctxNat c

def ToksOK (text : Bytes) (l : List Tok) : Prop := ∀ t ∈ l, ShowTokOK text t

theorem ToksOK.push {text : Bytes} {l : List Tok} {t : Tok} (h : ToksOK text l) (ht : t.typ ≠ tokenLeftBraces) :
    ToksOK text (t :: l) := by
  intro x hx
  rcases List.mem_cons.mp hx with rfl | hx
  · intro h'; exact (ht h').elim
  · exact h x hx

theorem ToksOK.pushClosed (text : Bytes) : PushClosed (ToksOK text) := by
  intro t l ht h
  apply h.push
  rcases ht with h | h | h <;> rw [h] <;> decide

/-! ## no delimiter is skipped -/

/-- every delimiter that starts before `pos` has its `{{` token -/
def Cover (text : Bytes) (pos : Nat) (toks : List Tok) : Prop :=
  ∀ d, d < pos → delimAt text d = true → ∃ t ∈ toks, t.typ = tokenLeftBraces ∧ t.start = ((d : Nat) : Int)

theorem Cover.more {text : Bytes} {pos : Nat} {toks new : List Tok} (h : Cover text pos toks) :
    Cover text pos (new ++ toks) := by
  intro d h1 h2
  obtain ⟨t, ht, h3⟩ := h d h1 h2
  exact ⟨t, List.mem_append_right _ ht, h3⟩

theorem delimAt_first_ne {text : Bytes} {i : Nat} {c : UInt8} (hc : text[i]? = some c) (h1 : c ≠ 0x7b)
    (h2 : c ≠ 0x23) : delimAt text i = false := by
  unfold delimAt
  rw [hc]
  split
  · rename_i h _; exact (h1 (Option.some.inj h)).elim
  · rename_i h _; exact (h2 (Option.some.inj h)).elim
  · rfl

theorem delimAt_lt {text : Bytes} {i : Nat} (h : delimAt text i = true) : i + 1 < text.length := by
  unfold delimAt at h
  split at h
  · rename_i h1; exact lt_of_getElem?_eq_some h1
  · rename_i h1; exact lt_of_getElem?_eq_some h1
  · cases h

theorem identByte_ne (c : UInt8) (h : identByte c = true) : c ≠ 0x7b ∧ c ≠ 0x23 ∧ c ≠ 0x25 := by
  have := allBytes_spec (p := fun c => !identByte c || (!(c == 0x7b) && !(c == 0x23) && !(c == 0x25)))
    (by decide +kernel) c
  simpa [h, and_assoc] using this

/-- no delimiter starts inside `{{identifier}}` -/
theorem IdentShow.inner_free {text : Bytes} {a e : Nat} (h : IdentShow text a e) {d : Nat} (h1 : a < d)
    (h2 : d < e) : delimAt text d = false := by
  obtain ⟨hle, ha0, ha1, ⟨c, hc0, hcs⟩, hby, he2, he1⟩ := h
  by_cases hd1 : d = a + 1
  · subst hd1
    obtain ⟨n1, n2, n3⟩ := identByte_ne c (identStart_byte c hcs)
    unfold delimAt
    rw [ha1, show a + 1 + 1 = a + 2 by omega, hc0]
    simp [n1, n2, n3]
  by_cases hd2 : d = e - 2
  · subst hd2; exact delimAt_first_ne he2 (by decide) (by decide)
  by_cases hd3 : d = e - 1
  · subst hd3; exact delimAt_first_ne he1 (by decide) (by decide)
  obtain ⟨c', hc', hib⟩ := hby d (by omega) (by omega)
  obtain ⟨n1, n2, _⟩ := identByte_ne c' hib
  exact delimAt_first_ne hc' n1 n2

/-- `delim` for `{{` when the show lexes without error -/
theorem delim_of_show {E : Env} {st st1 st2 : St} {lp : Loop} (h1 : flushText E st lp = .ok st1)
    (h2 : lexShow E st1 = .ok (st2, none)) :
    delim E st lp 0 = .ok (.cont st2 (resetTok st2 { lp with p := 0 })) := by
  unfold delim
  simp only [h1, bind_ok, if_true, h2]
  simp

/-- The main loop over a template of the class: it runs to the end of the text without error, all
its states are on `Track`, and every `{{` token it pushes is as the reference prescribes. -/
theorem mainLoop_track {E : Env} (hU : AsciiU E.U) (hE : E.noParseShow = false) (hT : IdentTemplate E.text) :
    ∀ (fuel : Nat) (st : St) (lp : Loop), Track E st lp → ToksOK E.text st.toks →
      Cover E.text (st.base + lp.p) st.toks → Lexer.mu E st lp < fuel →
    ∃ stF lpF, mainLoop E fuel st lp = .ok (stF, lpF, none) ∧ ToksOK E.text stF.toks ∧
      Cover E.text (stF.base + lpF.p) stF.toks ∧ Track E stF lpF ∧ lpF.p = srcLen E stF := by
  intro fuel
  induction fuel with
  | zero => intro st lp _ _ _ h; omega
  | succ fuel ih =>
    intro st lp hTr hQ hCov hmu
    obtain ⟨hI, hf, hft, hlb, hB, hRall⟩ := track_all hE hTr
    unfold mainLoop
    by_cases hlt : lp.p < srcLen E st
    · rw [if_pos hlt]
      cases hd : delimAt E.text (st.base + lp.p) with
      | false =>
        obtain ⟨st1, lp1, hs, hp1, hI1, hext1, hmu1, _, _, _⟩ := step_refines hI hlt hf hft hd hlb hB
        simp only [hs, bind_ok]
        have hCov1 : Cover E.text (st1.base + lp1.p) st1.toks := by
          obtain ⟨_, ⟨new, hnew, _⟩, _⟩ := hext1
          rw [hnew]
          intro d hd1 hd2
          by_cases hlt1 : d < st.base + lp.p
          · exact Cover.more hCov d hlt1 hd2
          · exfalso
            have hne : d ≠ st.base + lp.p := by
              intro h; rw [h, hd] at hd2; cases hd2
            obtain ⟨hstd, ed, hNd⟩ := hT.shows d hd2
            have H : Hole E.text d d := Hole.of_show hNd.2.1 hNd.2.2.1 hstd (fun i _ => hT.good i)
            have hR0 := hRall d (by omega) H
            obtain ⟨hle, _, _⟩ := step_all (U := E.U) H (show (proj st lp).pos < d by show st.base + lp.p < d; omega) hR0
            rw [← hp1] at hle
            have : st1.base + lp1.p ≤ d := hle
            omega
        exact ih st1 lp1 (Track.plain hTr hlt hd hs)
          (step_plain_toks (ToksOK.pushClosed _) hI hlt hf hd hs hQ) hCov1 (by omega)
      | true =>
        obtain ⟨hst, e, hN⟩ := hT.shows _ hd
        have h0 : E.text[st.base + lp.p]? = some 0x7b := hN.2.1
        have h1 : E.text[st.base + lp.p + 1]? = some 0x7b := hN.2.2.1
        obtain ⟨_, c, u, habs, _⟩ := id hst
        obtain ⟨st1, hfl, e1, b1, cf1, _, _, _⟩ := flushText_val hI
        have hN1 : IdentShow E.text st1.base e := by rw [b1]; exact hN
        obtain ⟨st2, lb, idt, rb, hshow, hb2, htk2, lbty, lbcx, lbst, idty, rbty⟩ :=
          lexShow_ident hU e1.le_len hN1
        have hdelim := delim_of_show hfl hshow
        have hs : step E st lp = .ok (.cont st2 (resetTok st2 { lp with p := 0 })) := by
          rw [step_at_show hf hE h0 h1]; exact hdelim
        obtain ⟨o, _, _, _, hso, hg, _⟩ := show_step hI hf hft hE h0 h1 hB
        rw [hs] at hso
        injection hso with hso
        subst hso
        have hmu2 : Lexer.mu E st2 (resetTok st2 { lp with p := 0 }) < Lexer.mu E st lp := hg.2.2
        have hNe : NeutralShow E.text (st.base + lp.p) (st2.base + (resetTok st2 { lp with p := 0 }).p) := by
          show NeutralShow E.text (st.base + lp.p) (st2.base + 0)
          rw [hb2]; exact hN.neutral
        have hTr2 := Track.neutral hTr h0 h1 hst hs hNe
        obtain ⟨hctx, _⟩ := track_show_ctx hE hTr (fun i _ => hT.good i) h0 ⟨_, h1, Or.inl rfl⟩ habs
        have hQ1 : ToksOK E.text st1.toks := by
          rcases flushText_toks hI hfl with ⟨_, h⟩ | ⟨_, t, h, ht⟩
          · rw [h]; exact hQ
          · rw [h]; exact hQ.push (by rw [ht]; decide)
        have hlb : ShowTokOK E.text lb := by
          intro _
          exact ⟨st.base + lp.p, c, u, by rw [lbst, b1], h0, h1, habs, by rw [lbcx, cf1.ctx, hctx]⟩
        have hQ2 : ToksOK E.text st2.toks := by
          rw [htk2]
          apply ToksOK.push _ (by rw [rbty]; decide)
          apply ToksOK.push _ idty
          intro x hx
          rcases List.mem_cons.mp hx with rfl | hx
          · exact hlb
          · exact hQ1 x hx
        have hCov2 : Cover E.text (st2.base + (resetTok st2 { lp with p := 0 }).p) st2.toks := by
          show Cover E.text (st2.base + 0) st2.toks
          rw [hb2, htk2]
          intro d hd1 hd2
          by_cases hlt1 : d < st.base + lp.p
          · obtain ⟨t, ht, h3⟩ := hCov d hlt1 hd2
            refine ⟨t, ?_, h3⟩
            have : t ∈ st1.toks := by
              rcases flushText_toks hI hfl with ⟨_, h⟩ | ⟨_, t', h, _⟩
              · rw [h]; exact ht
              · rw [h]; exact List.mem_cons_of_mem _ ht
            simp [this]
          · by_cases heq : d = st.base + lp.p
            · subst heq
              exact ⟨lb, by simp, lbty, by rw [lbst, b1]⟩
            · exfalso
              have := hN.inner_free (d := d) (by omega) (by omega)
              rw [this] at hd2; cases hd2
        simp only [hs, bind_ok]
        exact ih _ _ hTr2 hQ2 hCov2 (by omega)
    · rw [if_neg hlt]
      exact ⟨st, lp, rfl, hQ, hCov, hTr, by have := hI.p_le; omega⟩

/-- **Every show of a template of identifier shows.** Let `text` be an HTML template without shebang
line that is in the class `D` of the reference tokenizer when read raw, and in which every
delimiter is a show `{{identifier}}` standing at a stable point of the reference run (`IdentTemplate`).
Then `scanTemplate` returns its tokens without fault and without error, and every token of type
`{{` among them starts at an offset `n` where `{{` stands in the text and carries the context
`ctxNat c`, where `(c, u)` is the abstraction of the state of the reference HTML tokenizer after
`text[0..n)` — all earlier show statements read as plain bytes. Conversely no show is skipped: for
every offset `a` at which a delimiter starts there is a `{{` token that starts at `a`.
Extra condition, exact: `AsciiU U` — the `unicode` predicates, which the model takes as parameters,
classify ASCII letters as letters, ASCII digits as digits, and `}` as neither. -/
theorem all_shows_ctx (U : Lexer.Unicode) (hU : AsciiU U) (text : Bytes) (hT : IdentTemplate text) :
    ∃ toks, Lexer.scanTemplate U FormatHTML false text = .ok (toks, none) ∧
      (∀ t ∈ toks, t.typ = tokenLeftBraces →
        ∃ n c u, t.start = ((n : Nat) : Int) ∧ text[n]? = some 0x7b ∧ text[n + 1]? = some 0x7b ∧
          abs containsURL (rs text n) = some (c, u) ∧ t.ctx = ctxNat c) ∧
      (∀ a, delimAt text a = true → ∃ t ∈ toks, t.typ = tokenLeftBraces ∧ t.start = ((a : Nat) : Int)) := by
  unfold scanTemplate
  generalize hE : ({ text := text, tmpl := true, noParseShow := false, U := U } : Env) = E
  have hEt : E.text = text := by rw [← hE]
  have hEU : E.U = U := by rw [← hE]
  have hEtm : E.tmpl = true := by rw [← hE]
  have hEn : E.noParseShow = false := by rw [← hE]
  have hne : ¬ FormatHTML = ContextMarkdown := by decide
  unfold scanWith
  simp only [hEtm, Bool.not_true, Bool.false_eq_true, if_false, if_neg hne, if_true]
  rw [shebang_none rfl (by rw [hEt]; exact hT.noSheb)]
  simp only [bind_ok]
  unfold scanTemplateBody scanTemplateFrom
  have hne' : ¬ (initSt FormatHTML ContextHTML).ctx = ContextMarkdown := by decide
  simp only [if_neg hne']
  have hmu0 : Lexer.mu E st0 lp0 < mainFuel E := by
    unfold Lexer.mu mainFuel
    have := attrCtx_le st0.ctx
    omega
  obtain ⟨stF, lpF, hml, hQF, hCovF, hTrF, hpF⟩ := mainLoop_track (E := E) (by rw [hEU]; exact hU) hEn
    (by rw [hEt]; exact hT) (mainFuel E) st0 lp0 Track.init (by intro t ht; cases ht)
    (by intro d hd; exact absurd hd (Nat.not_lt_zero _)) hmu0
  obtain ⟨hIF, hfF, _, _⟩ := track_all hEn hTrF
  have hml' : mainLoop E (mainFuel E)
      { initSt FormatHTML ContextHTML with lbase := (initSt FormatHTML ContextHTML).ctx }
      { p := 0, lin := (initSt FormatHTML ContextHTML).line, tcol := (initSt FormatHTML ContextHTML).col, quote := 0,
        emittedURL := false, jsComment := 0, spacesOnly := true } = .ok (stF, lpF, none) := hml
  simp only [hml', bind_ok]
  have hleF := hIF.base_le
  -- the final Text token
  have h2 : ∃ st2, (if srcLen E stF > 0 then emitAt E stF lpF.lin lpF.tcol tokenText lpF.p else pure stF) = .ok st2 ∧
      ToksOK E.text st2.toks ∧ st2.base ≤ E.text.length ∧ st2.ctx = stF.ctx ∧ (∀ t ∈ stF.toks, t ∈ st2.toks) := by
    split
    · obtain ⟨st2, t, h, ex, _, cf, _, _, htk, hty, _⟩ := emitAt_val (E := E) (st := stF) (line := lpF.lin) (col := lpF.tcol)
        (typ := tokenText) (n := lpF.p) (by omega) hleF
      exact ⟨st2, h, by rw [htk]; exact hQF.push (by rw [hty]; decide), ex.le_len, cf.ctx,
        fun x hx => by rw [htk]; exact List.mem_cons_of_mem _ hx⟩
    · exact ⟨stF, rfl, hQF, hleF, rfl, fun _ hx => hx⟩
  obtain ⟨st2, h2, hQ2, hle2, hc2, hsub2⟩ := h2
  simp only [h2, bind_ok]
  have hnm : ¬ (st2.ctx = ContextMarkdown ∧ lpF.emittedURL = true) := by
    rw [hc2]; exact fun h => hfF.not_md h.1
  simp only [if_neg hnm, pure_eq_ok, bind_ok]
  obtain ⟨st4, t4, h4, _, _, _, _, _, htk4, hty4, _⟩ := emit_val (E := E) (st := st2) (typ := tokenEOF) (n := 0)
    (Nat.zero_le _) hle2
  simp only [h4, bind_ok]
  refine ⟨_, rfl, ?_, ?_⟩
  · intro t ht
    have hQ4 : ToksOK E.text st4.toks := by rw [htk4]; exact hQ2.push (by rw [hty4]; decide)
    have := hQ4 t (List.mem_reverse.mp ht)
    rw [hEt] at this
    exact this
  · intro a ha
    rw [← hEt] at ha
    have hlen := delimAt_lt ha
    have hpos : a < stF.base + lpF.p := by rw [hpF]; unfold srcLen; omega
    obtain ⟨t, ht, h3⟩ := hCovF a hpos ha
    refine ⟨t, List.mem_reverse.mpr ?_, h3⟩
    rw [htk4]
    exact List.mem_cons_of_mem _ (hsub2 t ht)

end ScriggoV.LexCtx
