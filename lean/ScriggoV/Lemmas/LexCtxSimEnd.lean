import ScriggoV.Lemmas.LexCtxSimTag
/-! # C06 layer 2: the end tags `</script` and `</style` — `isEndScript` / `isEndStyle` against the
reference's matching counter

Core Lean only. -/
set_option linter.unusedSimpArgs false
namespace ScriggoV.LexCtx
open ScriggoV ScriggoV.Lexer ScriggoV.Gen.LexTables ScriggoV.HtmlTok

/-! ## the reference side: matching the element's name -/

theorem drop_cons_of_drop {α : Type} {l : List α} {i : Nat} {a : α} {t : List α} (h : l.drop i = a :: t) :
    l[i]? = some a ∧ l.drop (i + 1) = t := by
  constructor
  · have := List.getElem?_drop (xs := l) (i := i) (j := 0)
    rw [h] at this; simpa using this.symm
  · have := List.drop_drop (i := 1) (j := i) (l := l)
    rw [h] at this; simpa using this.symm

/-- the bytes `mid` continue the match of the element's name from counter `m` -/
theorem raw_fold_match (k : RawK) : ∀ (mid sfx : Bytes) (m : Nat), 2 ≤ m →
    mid.map lower ++ sfx = k.name.drop (m - 2) →
    mid.foldl rstep (.raw k m) = .raw k (m + mid.length) := by
  intro mid
  induction mid with
  | nil => intro sfx m _ _; rfl
  | cons x mid ih =>
    intro sfx m hm h
    simp only [List.map_cons, List.cons_append] at h
    obtain ⟨h1, h2⟩ := drop_cons_of_drop h.symm
    have hlt : m - 2 < k.name.length := (List.getElem?_eq_some_iff.mp h1).1
    have hm0 : ¬ m = 0 := by omega
    have hm1 : ¬ m = 1 := by omega
    have h1' : k.name[m - 2] = lower x := by
      rw [List.getElem?_eq_getElem hlt] at h1; exact Option.some.inj h1
    have hstep : rstep (.raw k m) x = .raw k (m + 1) := by
      simp [rstep, HtmlTok.rawStep, hm0, hm1, hlt, h1']
    simp only [List.foldl_cons, hstep, List.length_cons]
    rw [ih sfx (m + 1) (by omega) (by rw [← h2]; congr 1; omega)]
    congr 1; omega

/-- a partial match: the reference is bad or still matching -/
theorem raw_fold_partial (k : RawK) : ∀ (l : Bytes) (m : Nat), 2 ≤ m → m + l.length ≤ k.name.length + 2 →
    l.foldl rstep (.raw k m) = .bad ∨
    (l.foldl rstep (.raw k m) = .raw k (m + l.length) ∧
      l.map lower = (k.name.drop (m - 2)).take l.length) := by
  intro l
  induction l with
  | nil => intro m _ _; right; simp
  | cons x l ih =>
    intro m hm hlen
    simp only [List.length_cons] at hlen
    have hlt : m - 2 < k.name.length := by omega
    have hm0 : ¬ m = 0 := by omega
    have hm1 : ¬ m = 1 := by omega
    simp only [List.foldl_cons]
    by_cases hx : k.name[m - 2]? = some (lower x)
    · have hx' : k.name[m - 2] = lower x := by
        rw [List.getElem?_eq_getElem hlt] at hx; exact Option.some.inj hx
      have hstep : rstep (.raw k m) x = .raw k (m + 1) := by
        simp [rstep, HtmlTok.rawStep, hm0, hm1, hlt, hx']
      rw [hstep]
      rcases ih (m + 1) (by omega) (by omega) with h | ⟨h1, h2⟩
      · exact Or.inl h
      · right
        refine ⟨by rw [h1]; simp only [List.length_cons]; congr 1; omega, ?_⟩
        rw [List.drop_eq_getElem_cons hlt]
        simp only [List.map_cons, List.length_cons, List.take_succ_cons]
        rw [hx', h2]
        congr 3; omega
    · have hx' : ¬ k.name[m - 2] = lower x := by
        rw [List.getElem?_eq_getElem hlt] at hx; simpa using hx
      have hstep : rstep (.raw k m) x = .bad := by
        simp [rstep, HtmlTok.rawStep, hm0, hm1, hlt, hx']
      rw [hstep, foldl_bad]; exact Or.inl rfl

theorem abs_raw_none (k : RawK) {m : Nat} (hm : 2 ≤ m) : abs containsURL (.raw k m) = none := by
  have : ¬ m ≤ 1 := by omega
  cases k <;> simp [abs, this]

/-- after `</` in script / style content the reference demands exactly the element's end tag: if
the text does not continue with the name and `>`, the prefix is outside `D` or ends inside the tag
(where `abs` makes no claim) -/
theorem endtag_forced {text : Bytes} {lo n : Nat} (H : Hole text lo n) (k : RawK) {pos : Nat}
    (hpos : pos + 2 ≤ n) (hr : rs text (pos + 2) = .raw k 2) :
    ∃ mid rest, text.drop (pos + 2) = mid ++ 0x3e :: rest ∧ mid.map lower = k.name := by
  have hlen := H.lt_length
  by_cases hn : n ≤ pos + 2 + k.name.length
  · exfalso
    have e : n = pos + 2 + (n - (pos + 2)) := by omega
    have hrn : rs text n = ((text.drop (pos + 2)).take (n - (pos + 2))).foldl rstep (.raw k 2) := by
      rw [← hr, ← rs_add, ← e]
    have hl : ((text.drop (pos + 2)).take (n - (pos + 2))).length = n - (pos + 2) := by
      simp [List.length_take]; omega
    rcases raw_fold_partial k ((text.drop (pos + 2)).take (n - (pos + 2))) 2 (Nat.le_refl _)
      (by rw [hl]; omega) with h | ⟨h, _⟩
    · exact H.good n (Nat.le_refl _) (hrn.trans h)
    · apply H.habs; rw [hrn, h]; exact abs_raw_none k (by omega)
  · have hl : ((text.drop (pos + 2)).take k.name.length).length = k.name.length := by
      simp [List.length_take]; omega
    have hrq := rs_add text (pos + 2) k.name.length
    rw [hr] at hrq
    rcases raw_fold_partial k ((text.drop (pos + 2)).take k.name.length) 2 (Nat.le_refl _)
      (by rw [hl]; omega) with h | ⟨h, hmap⟩
    · exact absurd (hrq.trans h) (H.good _ (by omega))
    · rw [h, hl] at hrq
      rw [hl] at hmap
      simp only [Nat.sub_self, List.drop_zero, List.take_length] at hmap
      have hq : pos + 2 + k.name.length < n := by omega
      obtain ⟨c, hc⟩ := H.get (Nat.le_of_lt hq)
      have hg := H.step hq hc
      rw [hrq] at hg
      have hc3 : c = 0x3e := by
        by_cases h3 : c = 0x3e
        · exact h3
        · exfalso; apply hg
          have h0 : ¬ (2 + k.name.length = 0) := by omega
          have h1 : ¬ (2 + k.name.length = 1) := by omega
          simp [rstep, HtmlTok.rawStep, h0, h1, h3]
      subst hc3
      refine ⟨(text.drop (pos + 2)).take k.name.length, text.drop (pos + 2 + k.name.length + 1), ?_, hmap⟩
      have hd : text.drop (pos + 2 + k.name.length) = 0x3e :: text.drop (pos + 2 + k.name.length + 1) := by
        rw [List.drop_eq_getElem_cons (by omega)]
        congr 1
        have := List.getElem?_eq_getElem (l := text) (i := pos + 2 + k.name.length) (by omega)
        rw [this] at hc; exact Option.some.inj hc
      rw [← hd, ← List.drop_drop (i := k.name.length) (j := pos + 2)]
      exact (List.take_append_drop _ _).symm

/-! ## the lexer side: `isEndScript`, `isEndStyle` -/

theorem okBool_allM_cons (b : Bool) (rest : List (Except Fault Bool)) :
    okBool (allM (.ok b :: rest)) = (b && okBool (allM rest)) := by
  cases b <;> simp [allM, okBool]

theorem okBool_allM_nil : okBool (allM []) = true := rfl

theorem eqCI_lower_73 (c : UInt8) : eqCI 0x73 c = (lower c == 0x73) := by
  have := allBytes_spec (p := fun c => eqCI 0x73 c == (lower c == 0x73)) (by decide +kernel) c
  simpa using this
theorem eqCI_lower_63 (c : UInt8) : eqCI 0x63 c = (lower c == 0x63) := by
  have := allBytes_spec (p := fun c => eqCI 0x63 c == (lower c == 0x63)) (by decide +kernel) c
  simpa using this
theorem eqCI_lower_72 (c : UInt8) : eqCI 0x72 c = (lower c == 0x72) := by
  have := allBytes_spec (p := fun c => eqCI 0x72 c == (lower c == 0x72)) (by decide +kernel) c
  simpa using this
theorem eqCI_lower_69 (c : UInt8) : eqCI 0x69 c = (lower c == 0x69) := by
  have := allBytes_spec (p := fun c => eqCI 0x69 c == (lower c == 0x69)) (by decide +kernel) c
  simpa using this
theorem eqCI_lower_70 (c : UInt8) : eqCI 0x70 c = (lower c == 0x70) := by
  have := allBytes_spec (p := fun c => eqCI 0x70 c == (lower c == 0x70)) (by decide +kernel) c
  simpa using this
theorem eqCI_lower_74 (c : UInt8) : eqCI 0x74 c = (lower c == 0x74) := by
  have := allBytes_spec (p := fun c => eqCI 0x74 c == (lower c == 0x74)) (by decide +kernel) c
  simpa using this
theorem eqCI_lower_79 (c : UInt8) : eqCI 0x79 c = (lower c == 0x79) := by
  have := allBytes_spec (p := fun c => eqCI 0x79 c == (lower c == 0x79)) (by decide +kernel) c
  simpa using this
theorem eqCI_lower_6c (c : UInt8) : eqCI 0x6c c = (lower c == 0x6c) := by
  have := allBytes_spec (p := fun c => eqCI 0x6c c == (lower c == 0x6c)) (by decide +kernel) c
  simpa using this
theorem eqCI_lower_65 (c : UInt8) : eqCI 0x65 c = (lower c == 0x65) := by
  have := allBytes_spec (p := fun c => eqCI 0x65 c == (lower c == 0x65)) (by decide +kernel) c
  simpa using this

/-- the shape of a text at which an end tag of the element `name` starts (for the lexer) -/
def EndTagAt (name : Bytes) (l : Bytes) : Prop :=
  ∃ mid c rest, l = 0x3c :: 0x2f :: (mid ++ c :: rest) ∧ mid.map lower = name ∧
    (c = 0x3e ∨ isSpace c = true)

theorem isEndScript_iff (l : Bytes) : okBool (isEndScript l) = true ↔ EndTagAt sScript l := by
  constructor
  · intro h
    rcases l with _ | ⟨c0, _ | ⟨c1, _ | ⟨c2, _ | ⟨c3, _ | ⟨c4, _ | ⟨c5, _ | ⟨c6, _ | ⟨c7, _ | ⟨c8, rest⟩⟩⟩⟩⟩⟩⟩⟩⟩ <;>
      try (simp [isEndScript, allM, okBool] at h; done)
    simp [isEndScript, at_, getAt, Except.map, okBool_allM_cons, okBool_allM_nil, eqCI_lower_73, eqCI_lower_63,
      eqCI_lower_72, eqCI_lower_69, eqCI_lower_70, eqCI_lower_74] at h
    obtain ⟨h0, h1, h8, h2, h3, h4, h5, h6, h7⟩ := h
    subst h0 h1
    exact ⟨[c2, c3, c4, c5, c6, c7], c8, rest, rfl, by simp [sScript, h2, h3, h4, h5, h6, h7], h8⟩
  · rintro ⟨mid, c, rest, rfl, hmid, hc⟩
    rcases mid with _ | ⟨c2, _ | ⟨c3, _ | ⟨c4, _ | ⟨c5, _ | ⟨c6, _ | ⟨c7, _ | ⟨c8, mid⟩⟩⟩⟩⟩⟩⟩ <;>
      simp [sScript] at hmid
    obtain ⟨h2, h3, h4, h5, h6, h7⟩ := hmid
    simp [isEndScript, at_, getAt, Except.map, okBool_allM_cons, okBool_allM_nil, eqCI_lower_73, eqCI_lower_63,
      eqCI_lower_72, eqCI_lower_69, eqCI_lower_70, eqCI_lower_74, h2, h3, h4, h5, h6, h7]
    simpa using hc

theorem isEndStyle_iff (l : Bytes) : okBool (isEndStyle l) = true ↔ EndTagAt sStyle l := by
  constructor
  · intro h
    rcases l with _ | ⟨c0, _ | ⟨c1, _ | ⟨c2, _ | ⟨c3, _ | ⟨c4, _ | ⟨c5, _ | ⟨c6, _ | ⟨c7, rest⟩⟩⟩⟩⟩⟩⟩⟩ <;>
      try (simp [isEndStyle, allM, okBool] at h; done)
    simp [isEndStyle, at_, getAt, Except.map, okBool_allM_cons, okBool_allM_nil, eqCI_lower_73, eqCI_lower_74,
      eqCI_lower_79, eqCI_lower_6c, eqCI_lower_65] at h
    obtain ⟨h0, h1, h8, h2, h3, h4, h5, h6⟩ := h
    subst h0 h1
    exact ⟨[c2, c3, c4, c5, c6], c7, rest, rfl, by simp [sStyle, h2, h3, h4, h5, h6], h8⟩
  · rintro ⟨mid, c, rest, rfl, hmid, hc⟩
    rcases mid with _ | ⟨c2, _ | ⟨c3, _ | ⟨c4, _ | ⟨c5, _ | ⟨c6, _ | ⟨c7, mid⟩⟩⟩⟩⟩⟩ <;>
      simp [sStyle] at hmid
    obtain ⟨h2, h3, h4, h5, h6⟩ := hmid
    simp [isEndStyle, at_, getAt, Except.map, okBool_allM_cons, okBool_allM_nil, eqCI_lower_73, eqCI_lower_74,
      eqCI_lower_79, eqCI_lower_6c, eqCI_lower_65, h2, h3, h4, h5, h6]
    simpa using hc

/-! ## the two cases at a `<` in script / style content -/

theorem brace_not_in_name (k : RawK) : (0x7b : UInt8) ∉ k.name := by
  cases k <;> simp [RawK.name]

theorem drop_two {text : Bytes} {pos : Nat} {a b : UInt8} (h0 : text[pos]? = some a)
    (h1 : text[pos + 1]? = some b) : text.drop pos = a :: b :: text.drop (pos + 2) := by
  have l0 := (List.getElem?_eq_some_iff.mp h0).1
  have l1 := (List.getElem?_eq_some_iff.mp h1).1
  rw [List.drop_eq_getElem_cons l0, List.drop_eq_getElem_cons l1]
  rw [List.getElem?_eq_getElem l0] at h0
  rw [List.getElem?_eq_getElem l1] at h1
  rw [Option.some.inj h0, Option.some.inj h1]

/-- the lexer's test succeeds: the whole end tag lies before the hole and the reference has
matched the name when the lexer lands on the byte after it -/
theorem endtag_jump {text : Bytes} {lo n : Nat} (H : Hole text lo n) (k : RawK) {pos : Nat} (hlt : pos < n)
    (hE : EndTagAt k.name (text.drop pos)) (hr1 : rs text (pos + 1) = .raw k 1) :
    pos + k.name.length + 2 < n ∧ rs text (pos + k.name.length + 2) = .raw k (k.name.length + 2) := by
  obtain ⟨mid, c, rest, e, hmid, hc⟩ := hE
  have hL : mid.length = k.name.length := by rw [← hmid]; simp
  have hget : ∀ j, text[pos + j]? = (0x3c :: 0x2f :: (mid ++ c :: rest))[j]? := by
    intro j; rw [← e, List.getElem?_drop]
  have hc1 : text[pos + 1]? = some 0x2f := by rw [hget]; rfl
  have hover : ¬ (n ≤ pos + 2 + mid.length) := by
    intro hn
    have h0 := H.at0
    have e1 : n = pos + (n - pos) := by omega
    rw [e1, hget] at h0
    obtain ⟨j, hj⟩ : ∃ j, n - pos = j + 1 := ⟨n - pos - 1, by omega⟩
    rw [hj] at h0
    cases j with
    | zero => simp at h0
    | succ j =>
      simp only [List.getElem?_cons_succ] at h0
      by_cases hjl : j < mid.length
      · rw [List.getElem?_append_left hjl] at h0
        have hmem : (0x7b : UInt8) ∈ mid := List.mem_of_getElem? h0
        have : lower 0x7b ∈ mid.map lower := List.mem_map_of_mem hmem
        rw [hmid] at this
        exact brace_not_in_name k this
      · have hje : j = mid.length := by omega
        rw [List.getElem?_append_right (by omega), hje] at h0
        simp at h0
        subst h0
        rcases hc with hc | hc
        · exact absurd hc (by decide)
        · exact absurd hc (by decide)
  have hr2 : rs text (pos + 2) = .raw k 2 := by
    show rs text (pos + 1 + 1) = _
    rw [rs_succ hc1, hr1]; simp [rstep, HtmlTok.rawStep]
  have hd2 : text.drop (pos + 2) = mid ++ c :: rest := by
    rw [← List.drop_drop, e]; rfl
  have htake : (text.drop (pos + 2)).take mid.length = mid := by
    rw [hd2]; simp
  have hfin := rs_add text (pos + 2) mid.length
  rw [htake, hr2, raw_fold_match k mid [] 2 (Nat.le_refl _) (by simp [hmid])] at hfin
  refine ⟨by omega, ?_⟩
  rw [← hL]
  rw [show pos + mid.length + 2 = pos + 2 + mid.length by omega, hfin]
  congr 1; omega

/-- the lexer's test fails but `</` follows: impossible under the hypotheses of the theorem -/
theorem endtag_nojump {text : Bytes} {lo n : Nat} (H : Hole text lo n) (k : RawK) {pos : Nat}
    (hlt : pos + 1 < n) (hc0 : text[pos]? = some 0x3c) (hc1 : text[pos + 1]? = some 0x2f)
    (hr1 : rs text (pos + 1) = .raw k 1) (hE : ¬ EndTagAt k.name (text.drop pos)) : False := by
  have hr2 : rs text (pos + 2) = .raw k 2 := by
    show rs text (pos + 1 + 1) = _
    rw [rs_succ hc1, hr1]; simp [rstep, HtmlTok.rawStep]
  obtain ⟨mid, rest, e, hmid⟩ := endtag_forced H k (by omega) hr2
  apply hE
  refine ⟨mid, 0x3e, rest, ?_, hmid, Or.inl rfl⟩
  rw [drop_two hc0 hc1, e]

end ScriggoV.LexCtx
