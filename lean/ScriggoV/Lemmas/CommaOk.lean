import ScriggoV.Model.CommaOk
/-! Lemmas for `Model/CommaOk.lean`: what a checked list of register writes does to a register file,
and the lift from the per-execution statement to a site executed several times. -/
namespace ScriggoV.CommaOk
open ScriggoV.Gen.CommaOk

theorem setReg_same (rf : RegFile) (b : Bank) (r x : Nat) : setReg rf b r x b r = x := by
  simp [setReg]

theorem setReg_other (rf : RegFile) (b b' : Bank) (r r' x : Nat) (h : ¬(b' = b ∧ r' = r)) :
    setReg rf b r x b' r' = rf b' r' := by
  simp [setReg, h]

/-- writes that all go to bank `b` leave every other register alone -/
theorem applyWrites_frame (v c : Nat) (b : Bank) :
    ∀ (ws : List (Bank × Sym)) (rf : RegFile), ws.all (fun w => w.1 == b) = true →
      ∀ b' r, ¬(b' = b ∧ r = c) → applyWrites v c ws rf b' r = rf b' r
  | [], _, _, _, _, _ => rfl
  | (b0, s) :: rest, rf, h, b', r, hne => by
    have h' : (b0 == b) = true ∧ rest.all (fun w => w.1 == b) = true := by
      simpa [List.all_cons] using h
    have hb : b0 = b := by simpa using h'.1
    subst hb
    rw [applyWrites, applyWrites_frame v c b0 rest _ h'.2 b' r hne, setReg_other _ _ _ _ _ _ hne]

/-- … and register `c` of bank `b` ends up with the value of the LAST write -/
theorem applyWrites_last (v c : Nat) (b : Bank) (s : Sym) :
    ∀ (ws : List (Bank × Sym)) (rf : RegFile), ws.all (fun w => w.1 == b) = true →
      ws.getLast?.map (·.2) = some s → applyWrites v c ws rf b c = s.eval v
  | [], _, _, h => by simp at h
  | [(b0, s0)], rf, h, hl => by
    have hb : b0 = b := by simpa [List.all_cons] using h
    have hs : s0 = s := by simpa using hl
    subst hb; subst hs
    simp [applyWrites, setReg_same]
  | (b0, s0) :: w :: rest, rf, h, hl => by
    have h' : (b0 == b) = true ∧ (w :: rest).all (fun w => w.1 == b) = true := by
      simpa [List.all_cons] using h
    have hl' : (w :: rest).getLast?.map (·.2) = some s := by
      simpa [List.getLast?_cons_cons] using hl
    rw [applyWrites]
    exact applyWrites_last v c b s (w :: rest) _ h'.2 hl'

/-- the checked property of a list of writes, as a statement about the register file -/
theorem run_of_goodWrites {body : List Stmt} {k : RKind} {ok : Bool} {ws : List (Bank × Sym)} {b : Bank} {s : Sym}
    (hw : writes body k ok = some ws) (hg : goodWrites ws b s = true) (v c : Nat) (rf : RegFile) :
    ∃ rf', run body k ok v c rf = some rf' ∧ Writes rf rf' b c (s.eval v) := by
  have hg' : ws.all (fun w => w.1 == b) = true ∧ (ws.getLast?.map (·.2) == some s) = true := by
    simpa [goodWrites] using hg
  have hl : ws.getLast?.map (·.2) = some s := by simpa using hg'.2
  refine ⟨applyWrites v c ws rf, by simp [run, hw], applyWrites_last v c b s ws rf hg'.1 hl, ?_⟩
  intro b' r hne
  exact applyWrites_frame v c b ws rf hg'.1 b' r hne

theorem mem_allKinds (k : RKind) : k ∈ allKinds := by
  cases k <;> decide

/-- a checker over every kind, lifted: `check k = true` for all `k` -/
theorem forall_kinds {p : RKind → Bool} (h : allKinds.all p = true) (k : RKind) : p k = true :=
  List.all_eq_true.mp h k (mem_allKinds k)

/-- the per-kind check of a form: for outcome `ok` the writes exist, all go to the bank the emitter
reads, and the last one writes `s` -/
def checkForm (f : Form) (ok : Bool) (s : Sym) (k : RKind) : Bool :=
  match writes (body f k) k ok with
  | some ws => goodWrites ws (emitterBank k) s
  | none => false

theorem run_of_checkForm {f : Form} {ok : Bool} {s : Sym} {k : RKind} (h : checkForm f ok s k = true)
    (v c : Nat) (rf : RegFile) :
    ∃ rf', run (body f k) k ok v c rf = some rf' ∧ Writes rf rf' (emitterBank k) c (s.eval v) := by
  unfold checkForm at h
  cases hw : writes (body f k) k ok with
  | none => simp [hw] at h
  | some ws =>
    simp [hw] at h
    exact run_of_goodWrites hw h v c rf

/-- from "every execution writes the right value" to the whole run of a site -/
theorem vmRun_eq_spec_of (f : Form) (k : RKind) (c : Nat)
    (hfail : ∀ (v : Nat) (rf : RegFile), ∃ rf', run (body f k) k false v c rf = some rf' ∧ Writes rf rf' (emitterBank k) c 0)
    (hok : ∀ (v : Nat) (rf : RegFile), ∃ rf', run (body f k) k true v c rf = some rf' ∧ Writes rf rf' (emitterBank k) c v) :
    ∀ (es : List Exec) (rf : RegFile), vmRun f k c es rf = some (spec es)
  | [], _ => rfl
  | e :: es, rf => by
    cases e with
    | mk ok v =>
      cases ok with
      | false =>
        obtain ⟨rf', hr, hw, _⟩ := hfail v rf
        simp [vmRun, hr, vmRun_eq_spec_of f k c hfail hok es rf', spec, hw]
      | true =>
        obtain ⟨rf', hr, hw, _⟩ := hok v rf
        simp [vmRun, hr, vmRun_eq_spec_of f k c hfail hok es rf', spec, hw]

end ScriggoV.CommaOk
