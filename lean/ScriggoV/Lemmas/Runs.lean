import ScriggoV.Model.Runs
/-! helper lemmas for C10: what one step of a schedule does to another run's view -/
namespace ScriggoV.Runs

variable {M : Machine}

theorem runSched_nil (s : Sys M) : runSched [] s = s := rfl

theorem runSched_cons (j : Nat) (sched : List Nat) (s : Sys M) :
    runSched (j :: sched) s = runSched sched (stepRun j s) := rfl

theorem runSched_append (a b : List Nat) (s : Sys M) :
    runSched (a ++ b) s = runSched b (runSched a s) := by
  simp [runSched, List.foldl_append]

/-- a step of run `j ≠ i` leaves run `i`'s local state alone -/
theorem stepRun_local_other {i j : Nat} (h : j ≠ i) (s : Sys M) :
    (stepRun j s).ls[i]? = s.ls[i]? := by
  unfold stepRun
  split
  · rfl
  · simp [h]

/-- … and emits nothing on behalf of run `i` -/
theorem stepRun_obs_other {i j : Nat} (h : j ≠ i) (s : Sys M) :
    obsOf i (stepRun j s) = obsOf i s := by
  unfold stepRun
  split
  · rfl
  · simp [obsOf, List.filter_append, List.filter_map, Function.comp_def, h]

/-- the step of run `i` itself, spelled out -/
theorem stepRun_self {i : Nat} (s : Sys M) (l : M.Local) (hl : s.ls[i]? = some l) :
    (stepRun i s).sh = (M.step s.sh l).1 ∧
    (stepRun i s).ls[i]? = some (M.step s.sh l).2.1 ∧
    obsOf i (stepRun i s) = obsOf i s ++ (M.step s.sh l).2.2 := by
  have hi : i < s.ls.length := by
    rcases Nat.lt_or_ge i s.ls.length with h | h
    · exact h
    · rw [List.getElem?_eq_none h] at hl; cases hl
  unfold stepRun
  rw [hl]
  refine ⟨rfl, ?_, ?_⟩
  · simp [hi]
  · simp [obsOf, List.filter_append, List.filter_map, Function.comp_def]

theorem stepRun_none {i : Nat} (s : Sys M) (hl : s.ls[i]? = none) : stepRun i s = s := by
  unfold stepRun; rw [hl]

/-- the shared part after a step of any run keeps its core -/
theorem stepRun_core {C : Type} (F : Frame M C) (j : Nat) (s : Sys M) :
    F.core (stepRun j s).sh = F.core s.sh := by
  unfold stepRun
  split
  · rfl
  · exact F.pres _ _

end ScriggoV.Runs
