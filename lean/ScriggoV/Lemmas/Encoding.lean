import ScriggoV.Model.Limits
/-! Helper lemmas for C20: bit-level identities of the regenerated encoders/decoders, for all
inputs, then the range corollaries by `omega`. No `bv_decide`. -/
namespace ScriggoV.Limits
open ScriggoV.Gen.Encoding

/-- equality of two bit vectors of width `n` (a literal) by running through the bit indices -/
syntax "bits_eq " num : tactic
macro_rules
  | `(tactic| bits_eq $n) => `(tactic|
      (apply BitVec.eq_of_getLsbD_eq
       intro i hi
       iterate $n (rcases i with _ | i; · simp [BitVec.getLsbD_sshiftRight, BitVec.getLsbD_signExtend,
         BitVec.getElem_signExtend, BitVec.getElem_sshiftRight, BitVec.msb_eq_getLsbD_last, BitVec.getLsbD_eq_getElem])
       omega))

/-! ### identities that hold for every input -/

theorem int16_bits (v : BitVec 16) : decodeInt16 (encodeInt16 v).1 (encodeInt16 v).2 = v := by
  simp only [decodeInt16, encodeInt16]
  bits_eq 16

theorem uint16_bits (v : BitVec 16) : decodeUint16 (encodeUint16 v).1 (encodeUint16 v).2 = v := by
  simp only [decodeUint16, encodeUint16]
  bits_eq 16

/-- only the low 24 bits of the address survive -/
theorem uint24_bits (v : BitVec 32) :
    decodeUint24 (encodeUint24 v).1 (encodeUint24 v).2.1 (encodeUint24 v).2.2
      = BitVec.setWidth 32 (BitVec.setWidth 24 v) := by
  simp only [decodeUint24, encodeUint24]
  bits_eq 32

theorem valueIndex_bits_type (t : BitVec 8) (i : BitVec 64) :
    (decodeValueIndex (encodeValueIndex t i).1 (encodeValueIndex t i).2).1
      = BitVec.setWidth 8 (BitVec.setWidth 16 i >>> 14) ||| BitVec.setWidth 8 (BitVec.setWidth 2 t) := by
  simp only [decodeValueIndex, encodeValueIndex, encodeInt16, decodeUint16]
  bits_eq 8

theorem valueIndex_bits_index (t : BitVec 8) (i : BitVec 64) :
    (decodeValueIndex (encodeValueIndex t i).1 (encodeValueIndex t i).2).2
      = BitVec.setWidth 64 (BitVec.setWidth 14 i) := by
  simp only [decodeValueIndex, encodeValueIndex, encodeInt16, decodeUint16]
  bits_eq 64

/-- emitSetVar writes the same two bytes as emitGetVar -/
theorem setVar_bits (v : BitVec 64) : encodeSetVar v = encodeInt16 (BitVec.setWidth 16 v) := by
  simp only [encodeSetVar, encodeInt16]
  apply Prod.ext
  · bits_eq 8
  · bits_eq 8

theorem index8_bits (r : BitVec 64) : decodeIndex8 (encodeIndex8 r) = BitVec.setWidth 64 (BitVec.setWidth 8 r) := by
  simp only [decodeIndex8, encodeIndex8]

/-! ### the VM's decoders are the compiler's -/

theorem vm_decodeInt16 : VM.decodeInt16 = decodeInt16 := rfl
theorem vm_decodeUint16 : VM.decodeUint16 = decodeUint16 := rfl
theorem vm_decodeUint24 : VM.decodeUint24 = decodeUint24 := rfl
theorem vm_decodeValueIndex : VM.decodeValueIndex = decodeValueIndex := rfl
theorem vm_decodeRenderContext : VM.decodeRenderContext = decodeRenderContext := rfl

/-! ### range corollaries -/

theorem setWidth_setWidth_of_lt {w : Nat} (k : Nat) (x : BitVec w) (h : x.toNat < 2 ^ k) :
    BitVec.setWidth w (BitVec.setWidth k x) = x := by
  apply BitVec.eq_of_toNat_eq
  simp only [BitVec.toNat_setWidth]
  rw [Nat.mod_eq_of_lt h, Nat.mod_eq_of_lt x.isLt]

theorem nonneg_ofNat (n : Nat) : nonneg (Int.ofNat n) = some n := by
  simp [nonneg]

theorem toInt_of_lt {w : Nat} (x : BitVec w) (h : 2 * x.toNat < 2 ^ w) : x.toInt = Int.ofNat x.toNat := by
  rw [BitVec.toInt_eq_toNat_cond]
  simp [h]

end ScriggoV.Limits
