import ScriggoV.Model.GlobalInit
/-! Lemmas about `initVars` (Model/GlobalInit.lean), used by Props/C10.lean. -/
namespace ScriggoV.GlobalInit

theorem initVars_mono (gs : List Global) (next : Nat) : next ≤ (initVars gs next).2 := by
  induction gs generalizing next with
  | nil => simp [initVars]
  | cons g gs ih =>
    cases hv : g.value with
    | some c => simp only [initVars, hv]; exact ih next
    | none => simp only [initVars, hv]; exact Nat.le_trans (Nat.le_succ next) (ih (next + 1))

/-- a variable whose Global has no build-time value lives in a cell allocated by this very
initialisation -/
theorem invalid_value_cell_is_new (gs : List Global) (next i c : Nat)
    (hg : gs[i]? = some ⟨none⟩) (hc : (initVars gs next).1[i]? = some c) :
    next ≤ c ∧ c < (initVars gs next).2 := by
  induction gs generalizing next i with
  | nil => simp at hg
  | cons g gs ih =>
    cases i with
    | zero =>
      simp only [List.getElem?_cons_zero, Option.some.injEq] at hg
      subst hg
      simp only [initVars, List.getElem?_cons_zero, Option.some.injEq] at hc ⊢
      subst hc
      exact ⟨Nat.le_refl _, initVars_mono gs (next + 1)⟩
    | succ i =>
      simp only [List.getElem?_cons_succ] at hg
      cases hv : g.value with
      | some d =>
        simp only [initVars, hv, List.getElem?_cons_succ] at hc ⊢
        exact ih next i hg hc
      | none =>
        simp only [initVars, hv, List.getElem?_cons_succ] at hc ⊢
        have := ih (next + 1) i hg hc
        exact ⟨Nat.le_trans (Nat.le_succ next) this.1, this.2⟩

/-- a variable whose Global has a build-time value lives in that cell, whatever the allocator -/
theorem valid_value_cell_is_the_recorded_one (gs : List Global) (next i c : Nat)
    (hg : gs[i]? = some ⟨some c⟩) : (initVars gs next).1[i]? = some c := by
  induction gs generalizing next i with
  | nil => simp at hg
  | cons g gs ih =>
    cases i with
    | zero =>
      simp only [List.getElem?_cons_zero, Option.some.injEq] at hg
      subst hg
      simp [initVars]
    | succ i =>
      simp only [List.getElem?_cons_succ] at hg
      cases hv : g.value with
      | some d => simp only [initVars, hv, List.getElem?_cons_succ]; exact ih next i hg
      | none => simp only [initVars, hv, List.getElem?_cons_succ]; exact ih (next + 1) i hg

end ScriggoV.GlobalInit
