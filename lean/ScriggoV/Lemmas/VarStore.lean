import ScriggoV.Spec.VarStore
/-! C17 — the invariant of the variable store and its preservation by every emission event. -/
namespace ScriggoV.VarStore
open ScriggoV.Gen.VarBinding

/-- the configurations for which the property holds: both recording paths record the variable
under the package `initGlobalVariables` binds and under its own name, a variable is recorded in
the globals once, an upvar's position is recorded for the function literal, and a pointer
initializer is shared -/
structure Cfg.Sound (c : Cfg) : Prop where
  use : ∀ v, c.useGlobal v = ⟨c.bindPkg, v⟩
  upvar : ∀ v, c.upvarGlobal v = ⟨c.bindPkg, v⟩
  share : c.share = true
  owner : c.owner = .newFunction
  ptr : c.pointerInit = .shares
  tmpl : c.tmplPkg ≠ c.bindPkg
  used : c.usedPkg = none ∨ c.usedPkg = some c.bindPkg
  /-- what the checker resolved to a global is looked up as a global first -/
  order : c.lookupOrder.head? = some .predefined

/-- The store invariant; `ex` is a function literal whose `VarRefs` are being computed (its own
entries are described by the loop invariant of `setRefs` instead). -/
structure Inv (c : Cfg) (ex : Option Fn) (s : Store) : Prop where
  g1 : ∀ v i, s.gidx v = some i → s.globals[i]? = some ⟨c.bindPkg, v⟩
  g2 : ∀ i g, s.globals[i]? = some g → g.pkg = c.bindPkg → s.gidx g.name = some i
  r : ∀ f v k, some f ≠ ex → s.ref f v = some k →
        (s.kind f).isSome ∧ ∃ g, s.gidx v = some g ∧ resolve s f k = some g

theorem resolve_kind {s s' : Store} {f : Fn} (h : s'.kind f = s.kind f) (k : Nat) :
    resolve s' f k = resolve s f k := by
  simp [resolve, h]

theorem resolve_closure {s : Store} {f p : Fn} {refs : List Ref} {vars : List (Option Nat)}
    (h : s.kind f = some (.closure p refs vars)) {k g : Nat} (hv : vars[k]? = some (some g)) :
    resolve s f k = some g := by
  simp [resolve, h, hv]

theorem admits_mono {s s' : Store} {f : Fn} {v : String} (hk : s'.kind f = s.kind f)
    (hr : ∀ k, s.ref f v = some k → s'.ref f v = some k) (h : admits s f v = true) :
    admits s' f v = true := by
  unfold admits at *
  rw [hk]
  cases hkf : s.kind f with
  | none => simp [hkf] at h
  | some kd =>
    cases kd with
    | top => rfl
    | closure p refs vars =>
      simp only [hkf] at h ⊢
      cases hrf : s.ref f v with
      | none => simp [hrf] at h
      | some k => simp [hr k hrf]

theorem admitsAll_mono {s s' : Store} {p : Fn} (hk : s'.kind p = s.kind p)
    (hr : ∀ v k, s.ref p v = some k → s'.ref p v = some k) :
    ∀ ups, admitsAll s p ups = true → admitsAll s' p ups = true
  | [], _ => rfl
  | .predef v :: us, h => by
    simp only [admitsAll, Bool.and_eq_true] at h ⊢
    exact ⟨admits_mono hk (hr v) h.1, admitsAll_mono hk hr us h.2⟩
  | .loc _ :: us, h => by
    simp only [admitsAll] at h ⊢
    exact admitsAll_mono hk hr us h

/-- `predefVarIndex` in an admissible function: the invariant is kept, the returned index is the
recorded one, nothing recorded before is lost. -/
theorem predefVarIndex_spec {c : Cfg} (hc : c.Sound) {ex : Option Fn} {s : Store} (hs : Inv c ex s)
    {f : Fn} {v : String} (hf : some f ≠ ex) (ha : admits s f v = true) :
    let r := predefVarIndex c s f v ⟨c.bindPkg, v⟩
    Inv c ex r.2 ∧ r.2.ref f v = some r.1 ∧ r.2.kind = s.kind
      ∧ (∀ u j, s.gidx u = some j → r.2.gidx u = some j)
      ∧ (∀ f' u k, s.ref f' u = some k → r.2.ref f' u = some k)
      ∧ (∀ f' u, f' ≠ f → r.2.ref f' u = s.ref f' u) := by
  intro r
  cases hrf : s.ref f v with
  | some i =>
    have hr : r = (i, s) := by simp [r, predefVarIndex, hrf]
    rw [hr]
    exact ⟨hs, hrf, rfl, fun _ _ h => h, fun _ _ _ h => h, fun _ _ _ => rfl⟩
  | none =>
    -- `f` is not a function literal
    have hkf : s.kind f = some .top := by
      unfold admits at ha
      cases hk : s.kind f with
      | none => simp [hk] at ha
      | some kd =>
        cases kd with
        | top => rfl
        | closure p refs vars => simp [hk, hrf] at ha
    cases hgv : s.gidx v with
    | some i =>
      have hr : r = (i, s.setRef f v i) := by simp [r, predefVarIndex, hrf, hc.share, hgv]
      rw [hr]
      refine ⟨⟨hs.g1, hs.g2, ?_⟩, by simp [Store.setRef], rfl, fun _ _ h => h, ?_, ?_⟩
      · intro f' v' k hne hk
        simp only [Store.setRef] at hk
        split at hk
        · rename_i heq
          obtain ⟨rfl, rfl⟩ := heq
          cases hk
          refine ⟨by simp [Store.setRef, hkf], i, hgv, ?_⟩
          simp [resolve, Store.setRef, hkf]
        · have := hs.r f' v' k hne hk
          exact ⟨this.1, this.2⟩
      · intro f' u k h
        simp only [Store.setRef]
        split
        · rename_i heq
          obtain ⟨rfl, rfl⟩ := heq
          rw [hrf] at h; cases h
        · exact h
      · intro f' u hne
        simp [Store.setRef, hne]
    | none =>
      have hr : r = (s.globals.length,
          { (s.setRef f v s.globals.length) with
              globals := s.globals ++ [⟨c.bindPkg, v⟩],
              gidx := fun v' => if v' = v then some s.globals.length else s.gidx v' }) := by
        simp [r, predefVarIndex, hrf, hc.share, hgv]
      rw [hr]
      refine ⟨⟨?_, ?_, ?_⟩, by simp [Store.setRef], rfl, ?_, ?_, ?_⟩
      · intro v' i hi
        simp only at hi
        split at hi
        · rename_i heq
          subst heq
          cases hi
          simp
        · have h1 := hs.g1 v' i hi
          have hlt : i < s.globals.length := by
            rcases Nat.lt_or_ge i s.globals.length with h | h
            · exact h
            · rw [List.getElem?_eq_none h] at h1; cases h1
          simp only [List.getElem?_append_left hlt]
          exact h1
      · intro i g hg hp
        simp only at hg ⊢
        rcases Nat.lt_or_ge i s.globals.length with hlt | hge
        · rw [List.getElem?_append_left hlt] at hg
          have h2 := hs.g2 i g hg hp
          split
          · rename_i heq
            rw [heq, hgv] at h2; cases h2
          · exact h2
        · rw [List.getElem?_append_right hge] at hg
          cases hi0 : i - s.globals.length with
          | zero =>
            rw [hi0] at hg
            simp at hg
            subst hg
            have : i = s.globals.length := by omega
            simp [this]
          | succ n =>
            rw [hi0] at hg
            simp at hg
      · intro f' v' k hne hk
        simp only [Store.setRef] at hk
        split at hk
        · rename_i heq
          obtain ⟨rfl, rfl⟩ := heq
          cases hk
          refine ⟨by simp [Store.setRef, hkf], s.globals.length, by simp, ?_⟩
          simp [resolve, Store.setRef, hkf]
        · obtain ⟨h1, g, h2, h3⟩ := hs.r f' v' k hne hk
          have hv' : v' ≠ v := by
            intro h; rw [h, hgv] at h2; cases h2
          refine ⟨h1, g, by simp [hv', h2], ?_⟩
          rw [← h3]
          exact resolve_kind rfl k
      · intro u j hj
        simp only
        split
        · rename_i heq
          rw [heq, hgv] at hj; cases hj
        · exact hj
      · intro f' u k h
        simp only [Store.setRef]
        split
        · rename_i heq
          obtain ⟨rfl, rfl⟩ := heq
          rw [hrf] at h; cases h
        · exact h
      · intro f' u hne
        simp [Store.setRef, hne]


/-- with the predefined lookup first, `nonLocalVarIndex` is `predefVarIndex`: same-named closure or
package variables are never consulted -/
theorem nonLocalVarIndex_sound {c : Cfg} (hc : c.Sound) (s : Store) (f : Fn) (v : String) :
    nonLocalVarIndex c s f v = predefVarIndex c s f v ⟨c.bindPkg, v⟩ := by
  unfold nonLocalVarIndex
  have h := hc.order
  cases hl : c.lookupOrder with
  | nil => simp [hl] at h
  | cons a rest =>
    simp only [hl, List.head?_cons, Option.some.injEq] at h
    subst h
    simp [nonLocalVarIndexFrom, hc.use v]

/-- the invariant only reads `globals`, `gidx`, `ref` and `kind` -/
theorem inv_congr {c : Cfg} {ex : Option Fn} {s s' : Store} (h1 : s'.globals = s.globals)
    (h2 : s'.gidx = s.gidx) (h3 : s'.ref = s.ref) (h4 : s'.kind = s.kind) (hs : Inv c ex s) :
    Inv c ex s' := by
  refine ⟨by rw [h1, h2]; exact hs.g1, by rw [h1, h2]; exact hs.g2, ?_⟩
  intro f v k hne hr
  rw [h3] at hr
  obtain ⟨a, g, b, d⟩ := hs.r f v k hne hr
  exact ⟨by rw [h4]; exact a, g, by rw [h2]; exact b, by rw [← d]; exact resolve_kind (by rw [h4]) k⟩

theorem admitsAll_congr {s s' : Store} (h3 : s'.ref = s.ref) (h4 : s'.kind = s.kind) (p : Fn)
    (ups : List Upvar) (h : admitsAll s p ups = true) : admitsAll s' p ups = true :=
  admitsAll_mono (by rw [h4]) (fun v k hk => by rw [h3]; exact hk) ups h

theorem setRef_inv {c : Cfg} {f : Fn} {s : Store} (hs : Inv c (some f) s) (v : String) (i : Nat) :
    Inv c (some f) (s.setRef f v i) := by
  refine ⟨hs.g1, hs.g2, ?_⟩
  intro f' v' k hne hk
  have hff : f' ≠ f := fun h => hne (by rw [h])
  simp only [Store.setRef, hff, false_and, if_false] at hk
  obtain ⟨h1, g, h2, h3⟩ := hs.r f' v' k hne hk
  exact ⟨h1, g, h2, by rw [← h3]; exact resolve_kind rfl k⟩

/-- Loop invariant of `setFunctionVarRefs`: every position recorded for the function literal `f`
holds a reference to a variable of the enclosing function `p` that is the variable's global. -/
theorem setRefs_spec {c : Cfg} (hc : c.Sound) {p f : Fn} (hpf : p ≠ f) :
    ∀ (ups : List Upvar) (i : Nat) (s : Store), Inv c (some f) s → admitsAll s p ups = true →
    let r := setRefs c p f ups i s
    Inv c (some f) r.2 ∧ r.2.kind = s.kind
      ∧ (∀ u j, s.gidx u = some j → r.2.gidx u = some j)
      ∧ (∀ v k, r.2.ref f v = some k → s.ref f v = some k ∨
          (i ≤ k ∧ ∃ q g, r.1[k - i]? = some (.var q) ∧ r.2.gidx v = some g ∧ resolve s p q = some g))
  | [], i, s, hs, _ => by
    intro r
    exact ⟨hs, rfl, fun _ _ h => h, fun _ _ h => Or.inl h⟩
  | .loc name :: us, i, s, hs, ha => by
    intro r
    simp only [admitsAll] at ha
    obtain ⟨h1, h2, h3, h4⟩ := setRefs_spec hc hpf us (i + 1)
      { s with closureVar := fun f' n => if f' = f ∧ n = name then some i else s.closureVar f' n }
      (inv_congr (s := s) rfl rfl rfl rfl hs) (admitsAll_congr (s := s) (s' := { s with closureVar := fun f' n => if f' = f ∧ n = name then some i else s.closureVar f' n }) rfl rfl p us ha)
    refine ⟨h1, h2, h3, ?_⟩
    intro v k hk
    rcases h4 v k hk with h | ⟨hle, q, g, hq, hg, hres⟩
    · exact Or.inl h
    · refine Or.inr ⟨by omega, q, g, ?_, hg, by rw [← hres]; exact resolve_kind rfl q⟩
      have : k - i = (k - (i + 1)) + 1 := by omega
      simp only [r, setRefs, this, List.getElem?_cons_succ]
      exact hq
  | .predef v :: us, i, s, hs, ha => by
    intro r
    simp only [admitsAll, Bool.and_eq_true] at ha
    have hr : r = (.var (predefVarIndex c s p v ⟨c.bindPkg, v⟩).1 ::
          (setRefs c p f us (i + 1) ((predefVarIndex c s p v ⟨c.bindPkg, v⟩).2.setRef f v i)).1,
        (setRefs c p f us (i + 1) ((predefVarIndex c s p v ⟨c.bindPkg, v⟩).2.setRef f v i)).2) := by
      simp [r, setRefs, hc.upvar v, hc.owner]
    rw [hr]
    clear hr r
    obtain ⟨i1, i2, i3, i4, i5, i6⟩ := predefVarIndex_spec hc hs (f := p) (v := v)
      (fun h => hpf (Option.some.inj h)) ha.1
    generalize predefVarIndex c s p v ⟨c.bindPkg, v⟩ = P at *
    -- the reference recorded for `p` resolves to the variable's global
    obtain ⟨_, g, hg, hres⟩ := i1.r p v _ (fun h => hpf (Option.some.inj h)) i2
    have hs2 := setRef_inv i1 v i
    have ha2 : admitsAll (P.2.setRef f v i) p us = true := by
      refine admitsAll_mono (s := s) ?_ ?_ us ha.2
      · simp [Store.setRef, i3]
      · intro u k hk
        simp only [Store.setRef, hpf, false_and, if_false]
        exact i5 p u k hk
    obtain ⟨h1, h2, h3, h4⟩ := setRefs_spec hc hpf us (i + 1) _ hs2 ha2
    generalize setRefs c p f us (i + 1) (P.2.setRef f v i) = R at *
    refine ⟨h1, ?_, ?_, ?_⟩
    · rw [h2]; simp [Store.setRef, i3]
    · intro u j hj
      exact h3 u j (by simpa [Store.setRef] using i4 u j hj)
    · intro v' k hk
      have hkind : ∀ q, resolve (P.2.setRef f v i) p q = resolve s p q :=
        fun q => resolve_kind (by simp [Store.setRef, i3]) q
      rcases h4 v' k hk with h | ⟨hle, q, g', hq, hg', hres'⟩
      · simp only [Store.setRef, true_and] at h
        split at h
        · rename_i heq
          subst heq
          cases h
          refine Or.inr ⟨Nat.le_refl _, P.1, g, by simp, ?_, ?_⟩
          · exact h3 v' g (by simpa [Store.setRef] using hg)
          · rw [← hres]; exact (resolve_kind (by rw [i3]) _).symm
        · left
          rw [← i6 f v' (fun h => hpf h.symm)]
          exact h
      · refine Or.inr ⟨by omega, q, g', ?_, hg', by rw [← hkind q]; exact hres'⟩
        have : k - i = (k - (i + 1)) + 1 := by omega
        simp only [this, List.getElem?_cons_succ]
        exact hq

theorem init_inv (c : Cfg) : Inv c none Store.init :=
  ⟨by simp [Store.init], by simp [Store.init], by simp [Store.init]⟩

theorem inv_weaken {c : Cfg} {s : Store} (hs : Inv c none s) (f : Fn) : Inv c (some f) s :=
  ⟨hs.g1, hs.g2, fun f' v k _ h => hs.r f' v k (by simp) h⟩

/-- every emission event keeps the invariant -/
theorem step_inv {c : Cfg} (hc : c.Sound) {s s' : Store} (hs : Inv c none s) (e : Event)
    (h : step c s e = some s') : Inv c none s' := by
  cases e with
  | declFunc f pkg =>
    simp only [step] at h
    cases hk : s.kind f with
    | some kd => simp [hk] at h
    | none =>
      simp only [hk, Option.some.injEq] at h
      subst h
      refine ⟨hs.g1, hs.g2, ?_⟩
      intro f' v k hne hr
      obtain ⟨h1, g, h2, h3⟩ := hs.r f' v k hne hr
      have hff : f' ≠ f := by
        intro heq; rw [heq, hk] at h1; cases h1
      refine ⟨by simp [hff, h1], g, h2, ?_⟩
      rw [← h3]
      exact resolve_kind (by simp [hff]) k
  | use f v =>
    simp only [step] at h
    split at h
    · rename_i ha
      cases h
      have := predefVarIndex_spec hc hs (f := f) (v := v) (by simp) ha
      rw [nonLocalVarIndex_sound hc]
      exact this.1
    · cases h
  | closure p f ups =>
    simp only [step] at h
    cases hk : s.kind f with
    | some kd => simp [hk] at h
    | none =>
      simp only [hk] at h
      split at h
      · rename_i ha
        cases h
        simp only [Bool.and_eq_true] at ha
        have hpf : p ≠ f := by
          intro heq; rw [heq, hk] at ha; simp at ha
        obtain ⟨h1, h2, h3, h4⟩ := setRefs_spec hc hpf ups 0 s (inv_weaken hs f) ha.2
        generalize setRefs c p f ups 0 s = R at *
        refine ⟨h1.g1, h1.g2, ?_⟩
        intro f' v k _ hr
        by_cases hff : f' = f
        · subst hff
          simp only at hr
          rcases h4 v k hr with h | ⟨_, q, g, hq, hg, hres⟩
          · have := (hs.r f' v k (by simp) h).1
            rw [hk] at this; cases this
          · refine ⟨by simp, g, hg, ?_⟩
            have hres2 : resolve R.2 p q = some g := by
              rw [← hres]; exact resolve_kind (by rw [h2]) q
            simp only [Nat.sub_zero] at hq
            refine resolve_closure (p := p) (refs := R.1) (vars := R.1.map (loadVar R.2 p)) (by simp) ?_
            simp [List.getElem?_map, hq, loadVar, hres2]
        · simp only at hr
          obtain ⟨k1, g, k2, k3⟩ := h1.r f' v k (fun h => hff (Option.some.inj h)) hr
          refine ⟨by simp [hff, k1], g, k2, ?_⟩
          rw [← k3]
          exact resolve_kind (by simp [hff]) k
      · cases h
  | bindImport t k x =>
    simp only [step, Option.some.injEq] at h
    subst h
    exact inv_congr (s := s) rfl rfl rfl rfl hs
  | pkgVar k x =>
    simp only [step, Option.some.injEq] at h
    subst h
    refine ⟨?_, ?_, ?_⟩
    · intro v i hi
      have h1 := hs.g1 v i hi
      have hlt : i < s.globals.length := by
        rcases Nat.lt_or_ge i s.globals.length with h | h
        · exact h
        · rw [List.getElem?_eq_none h] at h1; cases h1
      simp only [List.getElem?_append_left hlt]
      exact h1
    · intro i g hg hp
      simp only at hg ⊢
      rcases Nat.lt_or_ge i s.globals.length with hlt | hge
      · rw [List.getElem?_append_left hlt] at hg
        exact hs.g2 i g hg hp
      · rw [List.getElem?_append_right hge] at hg
        cases hi0 : i - s.globals.length with
        | zero =>
          rw [hi0] at hg
          simp at hg
          subst hg
          exact absurd hp hc.tmpl
        | succ n =>
          rw [hi0] at hg
          simp at hg
    · intro f v k hne hr
      obtain ⟨h1, g, h2, h3⟩ := hs.r f v k hne hr
      exact ⟨h1, g, h2, by rw [← h3]; exact resolve_kind rfl k⟩

theorem run_inv {c : Cfg} (hc : c.Sound) : ∀ (es : List Event) (s s' : Store), Inv c none s →
    run c es s = some s' → Inv c none s'
  | [], s, s', hs, h => by simp only [run, Option.some.injEq] at h; exact h ▸ hs
  | e :: es, s, s', hs, h => by
    simp only [run] at h
    cases hst : step c s e with
    | none => simp [hst] at h
    | some s1 =>
      simp only [hst] at h
      exact run_inv hc es s1 s' (step_inv hc hs e hst) h


/-! ### `Run` -/

theorem initGlobalVariables_getElem {c : Cfg} {init : List (String × InitVal)}
    (gs : List Global) (slots : List Slot) (h : initGlobalVariables c init gs = .ok slots)
    (i : Nat) (g : Global) (hg : gs[i]? = some g) :
    ∃ sl, slots[i]? = some sl ∧ initOne c init g = .ok sl := by
  induction gs generalizing slots i with
  | nil => simp at hg
  | cons g0 gs ih =>
    simp only [initGlobalVariables] at h
    cases h0 : initOne c init g0 with
    | error e => simp [h0] at h
    | ok sl0 =>
      simp only [h0] at h
      cases h1 : initGlobalVariables c init gs with
      | error e => simp [h1] at h
      | ok sls =>
        simp only [h1, Except.ok.injEq] at h
        subst h
        cases i with
        | zero =>
          simp only [List.getElem?_cons_zero, Option.some.injEq] at hg
          subst hg
          exact ⟨sl0, by simp, h0⟩
        | succ n =>
          simp only [List.getElem?_cons_succ] at hg ⊢
          exact ih sls h1 n hg

/-- the run-time variables agree with the one-variable-per-name view `env` -/
structure Sim (s : Store) (slots : List Slot) (init : List (String × InitVal)) (m : Mem)
    (env : String → Int) : Prop where
  var : ∀ v g, s.gidx v = some g → readG slots m g = .ok (env v)
  ptr : ∀ v n, init.lookup v = some (.pointer n) → m.caller v = env v

/-- what `initGlobalVariables` made of the global of `v` -/
theorem slot_of_var {c : Cfg} (hc : c.Sound) {s : Store} (hs : Inv c none s)
    {init : List (String × InitVal)} {slots : List Slot}
    (hi : initGlobalVariables c init s.globals = .ok slots) {v : String} {g : Nat}
    (hg : s.gidx v = some g) :
    (∃ n, init.lookup v = some (.pointer n) ∧ slots[g]? = some (.shared v)) ∨
    (∃ n, (∀ k, init.lookup v ≠ some (.pointer k)) ∧ slots[g]? = some (.own n) ∧ Spec.initial init v = n) := by
  obtain ⟨sl, h1, h2⟩ := initGlobalVariables_getElem _ _ hi g _ (hs.g1 v g hg)
  simp only [initOne, if_true] at h2
  cases hl : init.lookup v with
  | none =>
    simp only [hl, Except.ok.injEq] at h2
    exact Or.inr ⟨0, by simp, h2 ▸ h1, by simp [Spec.initial, hl]⟩
  | some iv =>
    cases iv with
    | value n =>
      simp only [hl, Except.ok.injEq] at h2
      exact Or.inr ⟨n, by simp, h2 ▸ h1, by simp [Spec.initial, hl]⟩
    | pointer n =>
      simp only [hl, hc.ptr, Except.ok.injEq] at h2
      exact Or.inl ⟨n, rfl, h2 ▸ h1⟩
    | nilValue => simp [hl] at h2
    | nilPointer => simp [hl] at h2
    | wrongType => simp [hl] at h2

theorem sim_init {c : Cfg} (hc : c.Sound) {s : Store} (hs : Inv c none s)
    {init : List (String × InitVal)} {slots : List Slot}
    (hi : initGlobalVariables c init s.globals = .ok slots) :
    Sim s slots init (Mem.init slots init) (Spec.initial init) := by
  refine ⟨?_, ?_⟩
  · intro v g hg
    rcases slot_of_var hc hs hi hg with ⟨n, h1, h2⟩ | ⟨n, _, h2, h3⟩
    · simp [readG, h2, Mem.init, h1, Spec.initial]
    · simp [readG, h2, Mem.init, h3]
  · intro v n h
    simp [Mem.init, h, Spec.initial]

/-- a reference emitted for `v` in `f` is, at run time, the global of `v` -/
theorem globalOf_spec {c : Cfg} {s : Store} (hs : Inv c none s) {f : Fn} {v : String}
    (he : (s.ref f v).isSome = true) : ∃ g, globalOf s f v = .ok g ∧ s.gidx v = some g := by
  cases hr : s.ref f v with
  | none => simp [hr] at he
  | some k =>
    obtain ⟨_, g, h1, h2⟩ := hs.r f v k (by simp) hr
    exact ⟨g, by simp [globalOf, hr, h2], h1⟩

theorem sim_write {c : Cfg} (hc : c.Sound) {s : Store} (hs : Inv c none s)
    {init : List (String × InitVal)} {slots : List Slot}
    (hi : initGlobalVariables c init s.globals = .ok slots) {m : Mem} {env : String → Int}
    (hsim : Sim s slots init m env) {v : String} {g : Nat} (hg : s.gidx v = some g) (n : Int) :
    ∃ m', writeG slots m g n = .ok m' ∧ Sim s slots init m' (fun u => if u = v then n else env u) := by
  -- two variables have two globals
  have hinj : ∀ u g', s.gidx u = some g' → u ≠ v → g' ≠ g := by
    intro u g' hu hne heq
    subst heq
    have a := hs.g1 u g' hu
    have b := hs.g1 v g' hg
    rw [a] at b
    exact hne (by injection b with b; injection b)
  rcases slot_of_var hc hs hi hg with ⟨k, h1, h2⟩ | ⟨k, h1, h2, _⟩
  · simp only [writeG, h2]
    refine ⟨_, rfl, ⟨?_, ?_⟩⟩
    · intro u g' hu
      by_cases huv : u = v
      · subst huv
        rw [hg] at hu; cases hu
        simp [readG, h2]
      · have := hsim.var u g' hu
        rcases slot_of_var hc hs hi hu with ⟨_, _, h4⟩ | ⟨_, _, h4, _⟩
        · simp only [readG, h4] at this ⊢
          simp [huv, this]
        · simp only [readG, h4] at this ⊢
          simp [huv, this]
    · intro u n' hu
      by_cases huv : u = v
      · simp [huv]
      · simp [huv, hsim.ptr u n' hu]
  · simp only [writeG, h2]
    refine ⟨_, rfl, ⟨?_, ?_⟩⟩
    · intro u g' hu
      by_cases huv : u = v
      · subst huv
        rw [hg] at hu; cases hu
        simp [readG, h2]
      · have := hsim.var u g' hu
        have hne := hinj u g' hu huv
        rcases slot_of_var hc hs hi hu with ⟨_, _, h4⟩ | ⟨_, _, h4, _⟩
        · simp only [readG, h4] at this ⊢
          simp [huv, this]
        · simp only [readG, h4] at this ⊢
          simp [huv, hne, this]
    · intro u n' hu
      have huv : u ≠ v := by
        intro h; subst h; exact h1 n' hu
      simp [huv, hsim.ptr u n' hu]

def Action.fn : Action → Fn
  | .show f _ => f
  | .set f _ _ => f
def Action.var : Action → String
  | .show _ v => v
  | .set _ v _ => v

/-- the actions refer only to references the emitter has emitted -/
def emitted (s : Store) (as : List Action) : Prop := ∀ a ∈ as, (s.ref a.fn a.var).isSome = true

instance (s : Store) (as : List Action) : Decidable (emitted s as) := by
  unfold emitted; exact inferInstance

theorem exec_spec {c : Cfg} (hc : c.Sound) {s : Store} (hs : Inv c none s)
    {init : List (String × InitVal)} {slots : List Slot}
    (hi : initGlobalVariables c init s.globals = .ok slots) :
    ∀ (as : List Action) (m : Mem) (env : String → Int), emitted s as → Sim s slots init m env →
      ∃ m', exec s slots as m = .ok ((Spec.run as env).1, m') ∧ Sim s slots init m' (Spec.run as env).2
  | [], m, env, _, hsim => ⟨m, rfl, hsim⟩
  | .show f v :: as, m, env, he, hsim => by
    obtain ⟨g, h1, h2⟩ := globalOf_spec hs (f := f) (v := v) (he (.show f v) (by simp))
    obtain ⟨m', h3, h4⟩ := exec_spec hc hs hi as m env (fun a ha => he a (by simp [ha])) hsim
    exact ⟨m', by simp [exec, h1, hsim.var v g h2, h3, Spec.run], by simpa [Spec.run] using h4⟩
  | .set f v n :: as, m, env, he, hsim => by
    obtain ⟨g, h1, h2⟩ := globalOf_spec hs (f := f) (v := v) (he (.set f v n) (by simp))
    obtain ⟨m1, h3, h4⟩ := sim_write hc hs hi hsim h2 n
    obtain ⟨m', h5, h6⟩ := exec_spec hc hs hi as m1 _ (fun a ha => he a (by simp [ha])) h4
    exact ⟨m', by simp [exec, h1, h3, h5, Spec.run], by simpa [Spec.run] using h6⟩


/-! ### `UsedVars` -/

theorem predefVarIndex_seen {c : Cfg} (hc : c.Sound) {ex : Option Fn} {s : Store} (hs : Inv c ex s)
    {f : Fn} {v : String} (hf : some f ≠ ex) (u : String) :
    ((predefVarIndex c s f v ⟨c.bindPkg, v⟩).2.gidx u).isSome = true ↔
      ((s.gidx u).isSome = true ∨ u = v) := by
  cases hrf : s.ref f v with
  | some i =>
    obtain ⟨_, g, hg, _⟩ := hs.r f v i hf hrf
    simp only [predefVarIndex, hrf]
    constructor
    · exact Or.inl
    · rintro (h | rfl)
      · exact h
      · simp [hg]
  | none =>
    cases hgv : s.gidx v with
    | some i =>
      simp only [predefVarIndex, hrf, hc.share, hgv, if_true, Store.setRef]
      constructor
      · exact Or.inl
      · rintro (h | rfl)
        · exact h
        · simp [hgv]
    | none =>
      simp only [predefVarIndex, hrf, hc.share, hgv, if_true]
      by_cases huv : u = v <;> simp [huv]

open Spec (predefs)

theorem setRefs_seen {c : Cfg} (hc : c.Sound) {p f : Fn} (hpf : p ≠ f) :
    ∀ (ups : List Upvar) (i : Nat) (s : Store), Inv c (some f) s → admitsAll s p ups = true →
    ∀ u, ((setRefs c p f ups i s).2.gidx u).isSome = true ↔
      ((s.gidx u).isSome = true ∨ u ∈ predefs ups)
  | [], i, s, _, _, u => by simp [setRefs, predefs]
  | .loc name :: us, i, s, hs, ha, u => by
    simp only [admitsAll] at ha
    have := setRefs_seen hc hpf us (i + 1)
      { s with closureVar := fun f' n => if f' = f ∧ n = name then some i else s.closureVar f' n }
      (inv_congr (s := s) rfl rfl rfl rfl hs) (admitsAll_congr (s := s) (s' := { s with closureVar := fun f' n => if f' = f ∧ n = name then some i else s.closureVar f' n }) rfl rfl p us ha) u
    simpa [setRefs, predefs] using this
  | .predef v :: us, i, s, hs, ha, u => by
    simp only [admitsAll, Bool.and_eq_true] at ha
    have hne : some p ≠ some f := fun h => hpf (Option.some.inj h)
    obtain ⟨i1, _, i3, _, i5, _⟩ := predefVarIndex_spec hc hs (f := p) (v := v) hne ha.1
    have hseen := predefVarIndex_seen hc hs (f := p) (v := v) hne u
    have hs2 := setRef_inv i1 v i
    have ha2 : admitsAll ((predefVarIndex c s p v ⟨c.bindPkg, v⟩).2.setRef f v i) p us = true := by
      refine admitsAll_mono (s := s) ?_ ?_ us ha.2
      · simp [Store.setRef, i3]
      · intro u k hk
        simp only [Store.setRef, hpf, false_and, if_false]
        exact i5 p u k hk
    have ih := setRefs_seen hc hpf us (i + 1) _ hs2 ha2 u
    simp only [setRefs, hc.upvar v, hc.owner]
    rw [ih]
    have : ((predefVarIndex c s p v ⟨c.bindPkg, v⟩).2.setRef f v i).gidx u =
        (predefVarIndex c s p v ⟨c.bindPkg, v⟩).2.gidx u := rfl
    rw [this, hseen]
    simp only [predefs, List.filterMap_cons, List.mem_cons]
    constructor
    · rintro ((h | h) | h)
      · exact Or.inl h
      · exact Or.inr (Or.inl h)
      · exact Or.inr (Or.inr h)
    · rintro (h | h | h)
      · exact Or.inl (Or.inl h)
      · exact Or.inl (Or.inr h)
      · exact Or.inr h

theorem step_seen {c : Cfg} (hc : c.Sound) {s s' : Store} (hs : Inv c none s) (e : Event)
    (h : step c s e = some s') (u : String) :
    (s'.gidx u).isSome = true ↔ ((s.gidx u).isSome = true ∨ u ∈ Spec.referenced [e]) := by
  cases e with
  | declFunc f pkg =>
    simp only [step] at h
    cases hk : s.kind f with
    | some kd => simp [hk] at h
    | none =>
      simp only [hk, Option.some.injEq] at h
      subst h
      simp [Spec.referenced]
  | use f v =>
    simp only [step] at h
    split at h
    · cases h
      rw [nonLocalVarIndex_sound hc, predefVarIndex_seen hc hs (by simp) u]
      simp [Spec.referenced]
    · cases h
  | closure p f ups =>
    simp only [step] at h
    cases hk : s.kind f with
    | some kd => simp [hk] at h
    | none =>
      simp only [hk] at h
      split at h
      · rename_i ha
        cases h
        simp only [Bool.and_eq_true] at ha
        have hpf : p ≠ f := by
          intro heq; rw [heq, hk] at ha; simp at ha
        have := setRefs_seen hc hpf ups 0 s (inv_weaken hs f) ha.2 u
        simpa [Spec.referenced] using this
      · cases h
  | bindImport t k x =>
    simp only [step, Option.some.injEq] at h
    subst h
    simp [Spec.referenced]
  | pkgVar k x =>
    simp only [step, Option.some.injEq] at h
    subst h
    simp [Spec.referenced]

theorem referenced_cons (e : Event) (es : List Event) :
    Spec.referenced (e :: es) = Spec.referenced [e] ++ Spec.referenced es := by
  cases e <;> simp [Spec.referenced]

theorem run_seen {c : Cfg} (hc : c.Sound) : ∀ (es : List Event) (s s' : Store), Inv c none s →
    run c es s = some s' → ∀ u,
      ((s'.gidx u).isSome = true ↔ ((s.gidx u).isSome = true ∨ u ∈ Spec.referenced es))
  | [], s, s', _, h, u => by
    simp only [run, Option.some.injEq] at h
    subst h
    simp [Spec.referenced]
  | e :: es, s, s', hs, h, u => by
    simp only [run] at h
    cases hst : step c s e with
    | none => simp [hst] at h
    | some s1 =>
      simp only [hst] at h
      rw [run_seen hc es s1 s' (step_inv hc hs e hst) h u, step_seen hc hs e hst u,
        referenced_cons e es, List.mem_append, or_assoc]

/-- under a sound configuration `UsedVars` reports every global of the bound package -/
theorem usedVars_eq {c : Cfg} (hc : c.Sound) (s : Store) :
    usedVars c s = ((s.globals.filter fun g => g.pkg == c.bindPkg).map Global.name) ∨
    usedVars c s = s.globals.map Global.name := by
  rcases hc.used with h | h
  · right
    have : ∀ l : List Global, l.filter (fun _ => true) = l := fun l => List.filter_eq_self.mpr (by simp)
    simp [usedVars, h, this]
  · left; simp [usedVars, h]

theorem mem_usedVars {c : Cfg} (hc : c.Sound) {s : Store} (hs : Inv c none s) (v : String)
    (hv : (s.gidx v).isSome = true) : v ∈ usedVars c s := by
  cases hg : s.gidx v with
  | none => simp [hg] at hv
  | some i =>
    have hm : (⟨c.bindPkg, v⟩ : Global) ∈ s.globals := List.mem_iff_getElem?.mpr ⟨i, hs.g1 v i hg⟩
    rcases usedVars_eq hc s with h | h <;> rw [h] <;> simp only [List.mem_map, List.mem_filter]
    · exact ⟨_, ⟨hm, by simp⟩, rfl⟩
    · exact ⟨_, hm, rfl⟩

/-- with the filter of `UsedVars` on the bound package (the code as fixed) only referenced
variables are reported, each once -/
theorem usedVars_filtered {c : Cfg} (hu : c.usedPkg = some c.bindPkg) {s : Store} (hs : Inv c none s) :
    (usedVars c s).Nodup ∧ ∀ v, v ∈ usedVars c s → (s.gidx v).isSome = true := by
  have heq : usedVars c s = ((s.globals.filter fun g => g.pkg == c.bindPkg).map Global.name) := by
    simp [usedVars, hu]
  rw [heq]
  constructor
  · -- two globals of the bound package have two names
    have hp : s.globals.Pairwise (fun a b => a.pkg = c.bindPkg → b.pkg = c.bindPkg → a.name ≠ b.name) := by
      rw [List.pairwise_iff_getElem]
      intro i j hi hj hij ha hb hn
      have a := hs.g2 i s.globals[i] (List.getElem?_eq_getElem hi) ha
      have b := hs.g2 j s.globals[j] (List.getElem?_eq_getElem hj) hb
      rw [hn, b] at a
      injection a with a
      omega
    rw [List.Nodup, List.pairwise_map]
    have hf := hp.sublist (List.filter_sublist (p := fun g => g.pkg == c.bindPkg) (l := s.globals))
    refine hf.imp_of_mem ?_
    intro a b ha hb h
    simp only [List.mem_filter, beq_iff_eq] at ha hb
    exact h ha.2 hb.2
  · intro v hv
    simp only [List.mem_map, List.mem_filter, beq_iff_eq] at hv
    obtain ⟨g, ⟨hg, hp⟩, rfl⟩ := hv
    obtain ⟨i, hi⟩ := List.mem_iff_getElem?.mp hg
    simp [hs.g2 i g hi hp]

end ScriggoV.VarStore
