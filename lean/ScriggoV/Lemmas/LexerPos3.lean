import ScriggoV.Lemmas.LexerPos2
/-! # Position invariant: the cases of the main loop that only move over known bytes
(`</style`, `</script`, escapes and comment markers in CSS / JS / JSON contexts) -/
namespace ScriggoV.Lexer
open ScriggoV ScriggoV.Gen.LexTables ScriggoV.Spec.Position

theorem allM_true {l : List (Except Fault Bool)} (h : allM l = .ok true) : ∀ x ∈ l, x = .ok true := by
  induction l with
  | nil => intro x hx; cases hx
  | cons y rest ih =>
    cases y with
    | error f => simp [allM] at h
    | ok b =>
      rw [allM_ok_cons] at h
      cases b with
      | false => simp at h
      | true =>
        simp only [if_true] at h
        intro x hx
        rcases List.mem_cons.mp hx with rfl | hm
        · rfl
        · exact ih h x hm

theorem at_true {s : Bytes} {i : Nat} {pred : UInt8 → Bool} (h : at_ s i pred = .ok true) :
    ∃ c, s[i]? = some c ∧ pred c = true := by
  unfold at_ at h
  cases hg : getAt s i with
  | error f => rw [hg] at h; cases h
  | ok c =>
    rw [hg] at h
    refine ⟨c, getAt_eq_ok_iff.mp hg, ?_⟩
    simpa using Except.ok.inj h

/-- a case-insensitive ASCII letter test only accepts plain bytes -/
theorem eqCI_plain {lo : UInt8} (hlo : allBytes (fun c => !(eqCI lo c) || plainByte c) = true) {c : UInt8}
    (h : eqCI lo c = true) : plainByte c = true := by
  have := allBytes_spec hlo c
  simpa [h] using this

theorem eq_plain {k c : UInt8} (hk : plainByte k = true) (h : (c == k) = true) : plainByte c = true := by
  have : c = k := by simpa using h
  rw [this]; exact hk

/-- `isEndStyle(s)`: the seven bytes `</style` are plain -/
theorem isEndStyle_plain {s : Bytes} (h : isEndStyle s = .ok true) : ∀ j, j < 7 → ∃ c, s[j]? = some c ∧ plainByte c = true := by
  unfold isEndStyle at h
  have hall := allM_true h
  intro j hj
  have pick : ∀ (i : Nat) (pred : UInt8 → Bool), at_ s i pred ∈
      [.ok (decide (s.length ≥ 8)), at_ s 0 (· == 0x3c), at_ s 1 (· == 0x2f), at_ s 7 (fun c => c == 0x3e || isSpace c),
       at_ s 2 (eqCI 0x73), at_ s 3 (eqCI 0x74), at_ s 4 (eqCI 0x79), at_ s 5 (eqCI 0x6c), at_ s 6 (eqCI 0x65)] →
      ∃ c, s[i]? = some c ∧ pred c = true := fun i pred hm => at_true (hall _ hm)
  rcases (by omega : j = 0 ∨ j = 1 ∨ j = 2 ∨ j = 3 ∨ j = 4 ∨ j = 5 ∨ j = 6) with rfl | rfl | rfl | rfl | rfl | rfl | rfl
  · obtain ⟨c, h1, h2⟩ := pick 0 (· == 0x3c) (by simp); exact ⟨c, h1, eq_plain (k := 0x3c) (by decide) h2⟩
  · obtain ⟨c, h1, h2⟩ := pick 1 (· == 0x2f) (by simp); exact ⟨c, h1, eq_plain (k := 0x2f) (by decide) h2⟩
  · obtain ⟨c, h1, h2⟩ := pick 2 (eqCI 0x73) (by simp); exact ⟨c, h1, eqCI_plain (by decide +kernel) h2⟩
  · obtain ⟨c, h1, h2⟩ := pick 3 (eqCI 0x74) (by simp); exact ⟨c, h1, eqCI_plain (by decide +kernel) h2⟩
  · obtain ⟨c, h1, h2⟩ := pick 4 (eqCI 0x79) (by simp); exact ⟨c, h1, eqCI_plain (by decide +kernel) h2⟩
  · obtain ⟨c, h1, h2⟩ := pick 5 (eqCI 0x6c) (by simp); exact ⟨c, h1, eqCI_plain (by decide +kernel) h2⟩
  · obtain ⟨c, h1, h2⟩ := pick 6 (eqCI 0x65) (by simp); exact ⟨c, h1, eqCI_plain (by decide +kernel) h2⟩

/-- `isEndScript(s)`: the eight bytes `</script` are plain -/
theorem isEndScript_plain {s : Bytes} (h : isEndScript s = .ok true) : ∀ j, j < 8 → ∃ c, s[j]? = some c ∧ plainByte c = true := by
  unfold isEndScript at h
  have hall := allM_true h
  intro j hj
  have pick : ∀ (i : Nat) (pred : UInt8 → Bool), at_ s i pred ∈
      [.ok (decide (s.length ≥ 9)), at_ s 0 (· == 0x3c), at_ s 1 (· == 0x2f), at_ s 8 (fun c => c == 0x3e || isSpace c),
       at_ s 2 (eqCI 0x73), at_ s 3 (eqCI 0x63), at_ s 4 (eqCI 0x72), at_ s 5 (eqCI 0x69), at_ s 6 (eqCI 0x70),
       at_ s 7 (eqCI 0x74)] →
      ∃ c, s[i]? = some c ∧ pred c = true := fun i pred hm => at_true (hall _ hm)
  rcases (by omega : j = 0 ∨ j = 1 ∨ j = 2 ∨ j = 3 ∨ j = 4 ∨ j = 5 ∨ j = 6 ∨ j = 7) with rfl | rfl | rfl | rfl | rfl | rfl | rfl | rfl
  · obtain ⟨c, h1, h2⟩ := pick 0 (· == 0x3c) (by simp); exact ⟨c, h1, eq_plain (k := 0x3c) (by decide) h2⟩
  · obtain ⟨c, h1, h2⟩ := pick 1 (· == 0x2f) (by simp); exact ⟨c, h1, eq_plain (k := 0x2f) (by decide) h2⟩
  · obtain ⟨c, h1, h2⟩ := pick 2 (eqCI 0x73) (by simp); exact ⟨c, h1, eqCI_plain (by decide +kernel) h2⟩
  · obtain ⟨c, h1, h2⟩ := pick 3 (eqCI 0x63) (by simp); exact ⟨c, h1, eqCI_plain (by decide +kernel) h2⟩
  · obtain ⟨c, h1, h2⟩ := pick 4 (eqCI 0x72) (by simp); exact ⟨c, h1, eqCI_plain (by decide +kernel) h2⟩
  · obtain ⟨c, h1, h2⟩ := pick 5 (eqCI 0x69) (by simp); exact ⟨c, h1, eqCI_plain (by decide +kernel) h2⟩
  · obtain ⟨c, h1, h2⟩ := pick 6 (eqCI 0x70) (by simp); exact ⟨c, h1, eqCI_plain (by decide +kernel) h2⟩
  · obtain ⟨c, h1, h2⟩ := pick 7 (eqCI 0x74) (by simp); exact ⟨c, h1, eqCI_plain (by decide +kernel) h2⟩

/-- the run of plain bytes of a source slice, as a run of the text -/
theorem plainRun_of_drop {E : Env} {st : St} {p k : Nat}
    (h : ∀ j, j < k → ∃ c, (E.text.drop (st.base + p))[j]? = some c ∧ plainByte c = true) :
    PlainRun E (st.base + p) k := by
  intro j hj
  obtain ⟨c, hc, hp⟩ := h j hj
  rw [List.getElem?_drop] at hc
  exact ⟨c, hc, hp⟩

/-- a fall that moves over `k` plain bytes and lands on a plain byte, entered on a plain byte `c` -/
theorem fallPos_move {E : Env} {c : UInt8} {st st' : St} {lp lp' : Loop} (k : Nat) (h : PInv E st lp)
    (hcp : plainByte c = true)
    (hb : st'.base = st.base) (ht : st'.toks = st.toks) (hl : st'.line = st.line) (hc : st'.col = st.col + k)
    (hp : lp'.p = lp.p + k) (hlin : lp'.lin = lp.lin) (htc : lp'.tcol = lp.tcol)
    (hrun : PlainRun E (st.base + lp.p) (k + 1)) : FallPos E c st' lp' := by
  refine ⟨PInv.plain k h hb ht hl hc hp hlin htc (fun j hj => hrun j (by omega)), ?_⟩
  obtain ⟨c', hc', hpl⟩ := hrun k (by omega)
  refine ⟨c', ?_, SameKind.of_plain hcp hpl⟩
  unfold peek; rw [hb, hp, ← Nat.add_assoc]; exact hc'

/-- a fall that does not move -/
theorem fallPos_stay {E : Env} {c : UInt8} {st st' : St} {lp lp' : Loop} (h : PInv E st lp)
    (hpk : peek E st lp.p = some c)
    (hb : st'.base = st.base) (ht : st'.toks = st.toks) (hl : st'.line = st.line) (hc : st'.col = st.col)
    (hp : lp'.p = lp.p) (hlin : lp'.lin = lp.lin) (htc : lp'.tcol = lp.tcol) : FallPos E c st' lp' := by
  refine ⟨PInv.same h hb ht hl hc hp hlin htc, c, ?_, SameKind.refl c⟩
  unfold peek at hpk ⊢; rw [hb, hp]; exact hpk

end ScriggoV.Lexer
