import ScriggoV.Lemmas.ComposeInline
/-! C16 — name resolution in the expansion model (`Model/Compose.lean`): every scope a reference is
resolved in belongs to *one* file (`cur`), and holds declarations of that file or *exported*
declarations of other files — so the same unexported identifier declared in several files of one
build never leaks from one file into another. Helper lemmas for the theorems of Props/C16. -/
namespace ScriggoV.Compose

/-- the file a macro was declared in: `some q` for an imported / extending file, `none` for the
file that is being run (main file, rendered file, layout) -/
def MacroVal.home : MacroVal → Option Nat
  | .mk _ _ _ _ h => h

/-- the environment a macro of a run file closed over at its declaration -/
def MacroVal.cenv : MacroVal → Env
  | .mk _ _ _ e _ => e

/-- **A scope of file `cur`** (`none` = the file being run): every entry is a declaration of `cur`
itself or an exported name; hereditarily — the environment a macro of the run file closed over is
again such a scope. -/
inductive ScopeOK : Option Nat → Env → Prop
  | nil {cur : Option Nat} : ScopeOK cur []
  | cons {cur : Option Nat} {m : Nat} {v : MacroVal} {env : Env} :
      (v.home = cur ∨ exported m = true) → (v.home = none → ScopeOK none v.cenv) →
      ScopeOK cur env → ScopeOK cur ((m, v) :: env)

/-- what file `q` hands to its importers: exported names, declared in `q` -/
def ExportsOf (q : Nat) (ex : Env) : Prop :=
  ∀ m v, (m, v) ∈ ex → exported m = true ∧ v.home = some q

theorem ExportsOf.nil (q : Nat) : ExportsOf q [] := by
  intro m v h; cases h

theorem ExportsOf.expAdd {q m : Nat} {v : MacroVal} {ex : Env} (hv : v.home = some q)
    (h : ExportsOf q ex) : ExportsOf q (expAdd m v ex) := by
  intro k w hw
  cases he : exported m with
  | false => simp only [Compose.expAdd, he] at hw; exact h k w hw
  | true =>
    simp only [Compose.expAdd, he, if_true, List.mem_cons] at hw
    rcases hw with hw | hw
    · cases hw; exact ⟨he, hv⟩
    · exact h k w hw

theorem ScopeOK.append {cur : Option Nat} {a b : Env} (ha : ScopeOK cur a) (hb : ScopeOK cur b) :
    ScopeOK cur (a ++ b) := by
  induction ha with
  | nil => exact hb
  | cons h1 h2 _ _ ih => exact .cons h1 h2 (ih hb)

/-- imported names may enter any scope -/
theorem ScopeOK.of_exports {q : Nat} {ex : Env} (cur : Option Nat) (h : ExportsOf q ex) :
    ScopeOK cur ex := by
  induction ex with
  | nil => exact .nil
  | cons e rest ih =>
    obtain ⟨m, v⟩ := e
    have hm := h m v (List.mem_cons_self ..)
    refine .cons (.inr hm.1) (fun hn => ?_) (ih (fun k w hw => h k w (List.mem_cons_of_mem _ hw)))
    rw [hm.2] at hn; cases hn

/-- **resolution**: what a reference `m` resolves to in a scope of file `cur` is a declaration of
`cur` or an exported name; and the scope a macro of the run file closed over is a scope again -/
theorem ScopeOK.lookup {cur : Option Nat} {env : Env} (h : ScopeOK cur env) (m : Nat) (v : MacroVal)
    (hl : lookup env m = some v) :
    (v.home = cur ∨ exported m = true) ∧ (v.home = none → ScopeOK none v.cenv) := by
  induction h with
  | nil => simp [Compose.lookup] at hl
  | @cons cur k w env' h1 h2 _ _ ih =>
    simp only [Compose.lookup] at hl
    by_cases hk : k = m
    · simp only [hk, if_true] at hl
      cases hl
      exact ⟨by rw [← hk]; exact h1, h2⟩
    · simp only [hk, if_false] at hl
      exact ih hl

theorem foldE_inv {σ α : Type} {P : σ → Prop} {f : σ → α → Except Err σ} (l : List α)
    (hstep : ∀ s a s', P s → f s a = .ok s' → P s') :
    ∀ s s', P s → foldE f s l = .ok s' → P s' := by
  induction l with
  | nil => intro s s' hs h; simp only [foldE] at h; cases h; exact hs
  | cons a rest ih =>
    intro s s' hs h
    simp only [foldE] at h
    cases hf : f s a with
    | error e => rw [hf] at h; cases h
    | ok s1 => rw [hf] at h; exact ih s1 s' (hstep s a s1 hs hf) h

/-- one item of the pass over the imported file `q` keeps: the package scope is a scope of `q`,
the exports are exported declarations of `q` -/
theorem passStep_scope {X : Nat → Except Err Env} (hX : ∀ q' ex, X q' = .ok ex → ExportsOf q' ex)
    (q : Nat) (fmt : Format) (st : ISt) (it : Item) (st' : ISt)
    (h : ScopeOK (some q) st.loc ∧ ExportsOf q st.exp) (hs : passStep X q fmt st it = .ok st') :
    ScopeOK (some q) st'.loc ∧ ExportsOf q st'.exp := by
  cases it with
  | atom a => simp only [passStep] at hs; cases hs; exact h
  | extends_ p => simp only [passStep] at hs; cases hs; exact h
  | macroDecl m fm ps body =>
    simp only [passStep] at hs
    cases hs
    exact ⟨.cons (.inl rfl) (fun hn => by cases hn) h.1, ExportsOf.expAdd rfl h.2⟩
  | import_ q' =>
    simp only [passStep] at hs
    cases hx : X q' with
    | error e => rw [hx] at hs; cases hs
    | ok ex =>
      rw [hx] at hs
      cases hs
      exact ⟨ScopeOK.append (ScopeOK.of_exports _ (hX q' ex hx)) h.1, h.2⟩

/-- the pass over an imported (or extending) file, whatever the file set and the import DAG -/
theorem passOf_scope (files : List File) :
    ∀ (n q : Nat) (st : ISt), passOf files n q = .ok st →
      ScopeOK (some q) st.loc ∧ ExportsOf q st.exp := by
  intro n
  induction n with
  | zero => intro q st h; simp [passOf] at h
  | succ n ih =>
    intro q st h
    rw [passOf] at h
    cases hf : files[q]? with
    | none => rw [hf] at h; cases h
    | some f =>
      rw [hf] at h
      simp only at h
      refine foldE_inv (P := fun s => ScopeOK (some q) s.loc ∧ ExportsOf q s.exp) f.items
        (fun s a s' hs hstep => passStep_scope (fun q' ex hx => ?_) q f.format s a s' hs hstep)
        ⟨[], []⟩ st ⟨.nil, ExportsOf.nil q⟩ h
      cases hp : passOf files n q' with
      | error e => rw [hp] at hx; cases hx
      | ok st1 =>
        rw [hp] at hx
        simp only [expOf] at hx
        cases hx
        exact (ih q' st1 hp).2

theorem exportsOf_exports (files : List File) (n q : Nat) (ex : Env)
    (h : exportsOf files n q = .ok ex) : ExportsOf q ex := by
  unfold exportsOf at h
  cases hp : passOf files n q with
  | error e => rw [hp] at h; cases h
  | ok st => rw [hp] at h; cases h; exact (passOf_scope files n q st hp).2

theorem scopeOf_scope (files : List File) (n q : Nat) (loc : Env)
    (h : scopeOf files n q = .ok loc) : ScopeOK (some q) loc := by
  unfold scopeOf at h
  cases hp : passOf files n q with
  | error e => rw [hp] at h; cases h
  | ok st => rw [hp] at h; cases h; exact (passOf_scope files n q st hp).1

/-- one item of a file that is run keeps its environment a scope of that file -/
theorem stepItem_scope (E : Engine) (R : Nat → Except Err (Format × Bytes))
    (S X : Nat → Except Err Env) (hX : ∀ q ex, X q = .ok ex → ExportsOf q ex)
    (n : Nat) (fmt : Format) (st : St) (it : Item) (st' : St)
    (h : ScopeOK none st.env) (hs : stepItem E R S X n fmt st it = .ok st') : ScopeOK none st'.env := by
  cases it with
  | atom a =>
    simp only [stepItem] at hs
    cases ha : evalAtom E R S n st.env [] a with
    | error e => rw [ha] at hs; cases hs
    | ok x => rw [ha] at hs; cases hs; exact h
  | macroDecl m fm ps body =>
    simp only [stepItem] at hs
    cases hs
    exact .cons (.inl rfl) (fun _ => h) h
  | extends_ p => simp [stepItem] at hs
  | import_ q =>
    simp only [stepItem] at hs
    cases hq : X q with
    | error e => rw [hq] at hs; cases hs
    | ok ex =>
      rw [hq] at hs
      cases hs
      exact ScopeOK.append (ScopeOK.of_exports _ (hX q ex hq)) h

end ScriggoV.Compose
