import ScriggoV.Lemmas.EscapeLoop
/-! HTML text / attribute value: every reference the escapers write is decoded back to the
byte it replaces by one step of the character-reference decoder. -/
namespace ScriggoV.Escape
open ScriggoV ScriggoV.Decode ScriggoV.Gen.EscapeTables

/-- `e` is a character reference that decodes to the byte `c`: `&amp;` `&lt;` `&gt;`, or a
two-digit decimal reference `&#dd;` of an ASCII code point -/
def refOk (c : UInt8) (e : Bytes) : Bool :=
  (e == [38, 97, 109, 112, 59] && c == 38) || (e == [38, 108, 116, 59] && c == 60) ||
  (e == [38, 103, 116, 59] && c == 62) ||
  (match e with
   | [a, h, d1, d2, z] =>
     a == 38 && h == 35 && z == 59 &&
     (match decDig? d1, decDig? d2 with
      | some x, some y => x * 10 + y == c.toNat && decide (0 < c.toNat) && decide (c.toNat < 128)
      | _, _ => false)
   | _ => false)

theorem decDig_not_x (d : UInt8) (v : Nat) (h : decDig? d = some v) :
    (d == 0x78 || d == 0x58) = false ∧ v < 10 := by
  unfold decDig? at h
  split at h
  · rename_i hr
    injection h with h
    refine ⟨?_, by omega⟩
    have h1 : d ≠ 0x78 := by intro e; subst e; simp at hr
    have h2 : d ≠ 0x58 := by intro e; subst e; simp at hr
    simp [h1, h2]
  · cases h

/-- one decoder step undoes a reference accepted by `refOk`, whatever follows -/
theorem htmlStep_refOk (named : Named) (hstd : Named.Std named) (c : UInt8) (e : Bytes)
    (h : refOk c e = true) (t : Bytes) : htmlStep named (e ++ t) = some ([c], t) := by
  unfold refOk at h
  simp only [Bool.or_eq_true, Bool.and_eq_true, beq_iff_eq] at h
  rcases h with ((⟨he, hc⟩ | ⟨he, hc⟩) | ⟨he, hc⟩) | h
  · subst he hc; simp [htmlStep, hstd.amp]
  · subst he hc; simp [htmlStep, hstd.lt]
  · subst he hc; simp [htmlStep, hstd.gt]
  · match e, h with
    | [a, hh, d1, d2, z], h =>
      simp only [Bool.and_eq_true, beq_iff_eq] at h
      obtain ⟨⟨⟨ha, hh'⟩, hz⟩, hd⟩ := h
      subst ha hh' hz
      cases h1 : decDig? d1 with
      | none => simp [h1] at hd
      | some x =>
        cases h2 : decDig? d2 with
        | none => simp [h1, h2] at hd
        | some y =>
          simp only [h1, h2, Bool.and_eq_true, beq_iff_eq, decide_eq_true_eq] at hd
          obtain ⟨⟨hv, hpos⟩, hlt⟩ := hd
          have hx := (decDig_not_x d1 x h1).1
          have h59 : decDig? 59 = none := by decide
          have hnum : numericRef (d1 :: d2 :: 59 :: t) = some ([c], t) := by
            unfold numericRef
            simp only [hx, List.length_cons, Bool.false_eq_true, if_false, takeNum, h1, h2, h59]
            simp only [Nat.zero_mul, Nat.zero_add, hv]
            have : numericCodePoint c.toNat = c.toNat := by
              unfold numericCodePoint Utf8.isSurrogate
              have : ¬ (c.toNat = 0 ∨ c.toNat > 0x10FFFF ∨
                  (decide (0xD800 ≤ c.toNat) && decide (c.toNat ≤ 0xDFFF)) = true) := by
                simp; omega
              rw [if_neg this, if_neg (by omega)]
            simp [this, encodeRune_ascii c hlt, dropSemicolon]
          simp [htmlStep, hnum]

end ScriggoV.Escape

namespace ScriggoV.Escape
open ScriggoV ScriggoV.Decode ScriggoV.Gen.EscapeTables

/-- the obligation on a `switch s[i]` table: every case writes a reference that decodes to the
byte, and `&` is never left unescaped -/
def caseFact (cs : UInt8 → Option Bytes) (c : UInt8) : Bool :=
  match cs c with
  | some e => refOk c e
  | none => c != 38

theorem refOk_ne_nil (c : UInt8) (e : Bytes) (h : refOk c e = true) : e ≠ [] := by
  intro he; subst he; simp [refOk] at h

theorem piece_ofCase_none (cs : UInt8 → Option Bytes) (c : UInt8) (rest : Bytes)
    (h : cs c = none) : piece (fun c _ => ofCase (cs c)) c rest = [c] := by
  simp [piece, ofCase, h]

theorem piece_ofCase_some (cs : UInt8 → Option Bytes) (c : UInt8) (rest e : Bytes)
    (h : cs c = some e) : piece (fun c _ => ofCase (cs c)) c rest = e := by
  simp [piece, ofCase, h]

/-- round trip for any loop whose switch table satisfies `caseFact` -/
theorem html_roundtrip_of_caseFact (cs : UInt8 → Option Bytes)
    (hfact : ∀ c, caseFact cs c = true) (named : Named) (hstd : Named.Std named) (s : Bytes) :
    htmlDecodeO named (escLoop (fun c _ => ofCase (cs c)) [] s).flatten = some s := by
  rw [escLoop_flatten, List.nil_append]
  have key := decodeAll_simple (htmlStep named) (fun c _ => ofCase (cs c)) (fun c => [c])
    (by
      intro c rest
      have hf := hfact c
      unfold caseFact at hf
      cases hcs : cs c with
      | none => rw [piece_ofCase_none cs c rest hcs]; simp
      | some e =>
        rw [hcs] at hf
        rw [piece_ofCase_some cs c rest e hcs]
        exact refOk_ne_nil c e hf)
    (by
      intro c rest
      have hf := hfact c
      unfold caseFact at hf
      cases hcs : cs c with
      | none =>
        rw [hcs] at hf
        have : (c == 38) = false := by simpa using hf
        rw [piece_ofCase_none cs c rest hcs]
        simp [htmlStep, this]
      | some e =>
        rw [hcs] at hf
        rw [piece_ofCase_some cs c rest e hcs]
        exact htmlStep_refOk named hstd c e hf _)
    s
  unfold htmlDecodeO
  rw [key, flatMap_singleton]

theorem htmlFact_all : ∀ c, caseFact htmlEscapeCase c = true := allBytes_spec (by decide +kernel)
theorem attrFact_all : ∀ c, caseFact (attributeEscapeCase true) c = true :=
  allBytes_spec (by decide +kernel)

end ScriggoV.Escape
