import ScriggoV.Model.NativeDispatch
/-! Lemmas about `Model/NativeDispatch.lean` used by `Props/C12.lean`. -/
namespace ScriggoV.NativeDispatch
open ScriggoV.Gen.ConvertPanic ScriggoV.Gen.NativeCalls

/-- the three cases of `convertPanic` that stand for "native code was running" give every
documented payload its documented outcome (stated over the regenerated `classify`) -/
theorem recognisedB_sound (op : Op) (neg nc : Bool) (h : recognisedB op neg nc = true) :
    Recognised op neg nc := by
  intro p o hd
  have hop : (op = .OpCallNative ∧ neg = false) ∨ (op = .OpReturn ∧ neg = false) ∨
      (op = .OpCallIndirect ∧ neg = false ∧ nc = true) := by
    cases op <;> cases neg <;> simp_all [recognisedB]
  rcases hop with ⟨rfl, rfl⟩ | ⟨rfl, rfl⟩ | ⟨rfl, rfl, rfl⟩ <;>
    cases p <;> simp_all [documented, classify, classifyOp, tail, Payload.isStopError,
      Payload.isOutError, Payload.isScriggoRuntimeError, Payload.isFatalError, Payload.isRuntimeError]

/-- with no running function (`vm.fn == nil`: a deferred native function called while the
program is unwinding) the documented outcomes hold whatever the program counter is -/
theorem noFn_sound (op : Op) (neg nc : Bool) (p : Payload) (o : Outcome)
    (hd : documented p = some o) : classify false op neg nc p = o := by
  cases p <;> simp_all [documented, classify, classifyNoFn, Payload.isStopError,
    Payload.isOutError, Payload.isScriggoRuntimeError, Payload.isFatalError, Payload.isRuntimeError]

theorem decode_encode (op : Op) (neg : Bool) (h : neg = true → op ≠ .OpNone) :
    decode (encode op neg) = some (op, neg) := by
  cases op <;> cases neg <;> first | rfl | (exact absurd rfl (h rfl))

/-- at a sound site `convertPanic` looks at the call instruction itself -/
theorem classifyAt_site (s : Site) (hs : siteOk s = true) (op : Op) (neg : Bool)
    (ho : (op, neg) ∈ s.ops) (body : List Word) (addr : Nat)
    (hb : body[addr]? = some (encode op neg)) (p : Payload) (o : Outcome)
    (hd : documented p = some o) :
    classifyAt body (addr + s.pcAtCall) s.nativeCallee p = o := by
  simp only [siteOk, Bool.and_eq_true, beq_iff_eq, List.all_eq_true] at hs
  obtain ⟨hpc, hall⟩ := hs
  have hr := hall (op, neg) ho
  have hneg : neg = true → op ≠ .OpNone := by
    intro hn he
    subst hn; subst he
    simp [recognisedB] at hr
  have hrec := recognisedB_sound op neg s.nativeCallee hr p o hd
  simp only [classifyAt, hpc, Nat.add_sub_cancel, hb, decode_encode op neg hneg]
  exact hrec

end ScriggoV.NativeDispatch
