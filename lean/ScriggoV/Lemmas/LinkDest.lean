import ScriggoV.Model.LinkDest
/-! Helper lemmas for C29: the round trip of the destination escaping and the loop invariant
of `applyReplacements`. -/
namespace ScriggoV.LinkDest
open ScriggoV.Gen.LinkDestTables

/-! ### markdownUnescape ∘ markdownURLEscape -/

/-- the input class of the partial theorem: no U+00A0 (bytes C2 A0) -/
def noNbsp : Bytes → Bool
  | [] => true
  | c :: rest =>
    !(c == 194 && (match rest with
                   | d :: _ => d == 160
                   | [] => false)) && noNbsp rest

/-- the backslash is escapable (regenerated table) -/
theorem escapable_slash : isMarkdownEscapable 92 = true := by decide

theorem urlEscape_head (d : UInt8) (r : Bytes) : ∃ T, urlEscape (d :: r) = d :: T := by
  unfold urlEscape
  by_cases h : (d == 92) = true
  · have hd : d = 92 := by simpa using h
    subst hd
    simp only [beq_self_eq_true, if_true]
    split
    · exact ⟨_, rfl⟩
    · split <;> exact ⟨_, rfl⟩
  · simp only [h, Bool.false_eq_true, if_false]; exact ⟨_, rfl⟩

/-- a pending backslash before a byte that is not escapable is just a backslash -/
theorem unesc_slash_plain (d : UInt8) (U : Bytes) (h : isMarkdownEscapable d = false) :
    unescFrom .slash (d :: U) = 92 :: unescFrom .none (d :: U) := by
  simp [unescFrom, h]

/-- a pending C2 before a byte other than A0 is just C2 -/
theorem unesc_c2_plain (d : UInt8) (U : Bytes) (h : (d == 160) = false) :
    unescFrom .c2 (d :: U) = 194 :: unescFrom .none (d :: U) := by
  simp [unescFrom, h]

theorem unesc_escape (s : Bytes) : noNbsp s = true → unescFrom .none (urlEscape s) = s := by
  induction s with
  | nil => intro _; simp [urlEscape, unescFrom]
  | cons c rest ih =>
    intro hn
    simp only [noNbsp, Bool.and_eq_true, Bool.not_eq_true'] at hn
    obtain ⟨hc, hrest⟩ := hn
    have ih' := ih hrest
    by_cases h92 : (c == 92) = true
    · have : c = 92 := by simpa using h92
      subst this
      cases rest with
      | nil => simp [urlEscape, unescFrom, escapable_slash]
      | cons d r =>
        by_cases he : isMarkdownEscapable d = true
        · have e1 : urlEscape (92 :: d :: r) = 92 :: 92 :: urlEscape (d :: r) := by
            simp [urlEscape, he]
          rw [e1]
          have : unescFrom .none (92 :: 92 :: urlEscape (d :: r))
              = 92 :: unescFrom .none (urlEscape (d :: r)) := by
            simp [unescFrom, escapable_slash]
          rw [this, ih']
        · have he' : isMarkdownEscapable d = false := by simpa using he
          have e1 : urlEscape (92 :: d :: r) = 92 :: urlEscape (d :: r) := by
            simp [urlEscape, he']
          rw [e1]
          obtain ⟨T, hT⟩ := urlEscape_head d r
          rw [hT] at ih' ⊢
          have : unescFrom .none (92 :: d :: T) = unescFrom .slash (d :: T) := by
            simp [unescFrom]
          rw [this, unesc_slash_plain d T he', ih']
    · have h92' : (c == 92) = false := by simpa using h92
      have e1 : urlEscape (c :: rest) = c :: urlEscape rest := by
        simp [urlEscape, h92']
      rw [e1]
      by_cases h194 : (c == 194) = true
      · have : c = 194 := by simpa using h194
        subst this
        have e2 : unescFrom .none (194 :: urlEscape rest) = unescFrom .c2 (urlEscape rest) := by
          simp [unescFrom]
        rw [e2]
        cases rest with
        | nil => simp [urlEscape, unescFrom]
        | cons d r =>
          have hd : (d == 160) = false := by simpa using hc
          obtain ⟨T, hT⟩ := urlEscape_head d r
          rw [hT] at ih' ⊢
          rw [unesc_c2_plain d T hd, ih']
      · have h194' : (c == 194) = false := by simpa using h194
        have : unescFrom .none (c :: urlEscape rest) = c :: unescFrom .none (urlEscape rest) := by
          simp [unescFrom, h92', h194']
        rw [this, ih']

/-! ### applyReplacements: what is spliced -/

/-- a replacement lies inside the source -/
def Valid (src : Bytes) (r : Repl) : Prop := r.start ≤ r.stop ∧ r.stop ≤ src.length

/-- the replacements the loop applies, out of a list in `start` order: those that do not
start before the end of the previously applied one -/
def applied : Nat → List Repl → List Repl
  | _, [] => []
  | prev, r :: rs => if r.start < prev then applied prev rs else r :: applied r.stop rs

/-- the source segments between the applied ranges, from `prev` on -/
def untouched (src : Bytes) : Nat → List Repl → List Bytes
  | prev, [] => [src.drop prev]
  | prev, r :: rs => (src.take r.start).drop prev :: untouched src r.stop rs

/-- untouched segments interleaved with the replacement texts -/
def interleave (src : Bytes) : Nat → List Repl → Bytes
  | prev, [] => src.drop prev
  | prev, r :: rs => (src.take r.start).drop prev ++ r.text ++ interleave src r.stop rs

/-- ranges in order, each starting at or after the end of the one before (`prev` first) -/
def Chain : Nat → List Repl → Prop
  | _, [] => True
  | prev, r :: rs => prev ≤ r.start ∧ r.start ≤ r.stop ∧ Chain r.stop rs

theorem mem_insertByStart (r x : Repl) (l : List Repl) :
    x ∈ insertByStart r l ↔ x = r ∨ x ∈ l := by
  induction l with
  | nil => simp [insertByStart]
  | cons y ys ih =>
    unfold insertByStart
    split
    · simp
    · simp only [List.mem_cons, ih]
      constructor
      · rintro (h | h | h)
        · exact Or.inr (Or.inl h)
        · exact Or.inl h
        · exact Or.inr (Or.inr h)
      · rintro (h | h | h)
        · exact Or.inr (Or.inl h)
        · exact Or.inl h
        · exact Or.inr (Or.inr h)

theorem mem_sortByStart (x : Repl) (l : List Repl) : x ∈ sortByStart l ↔ x ∈ l := by
  induction l with
  | nil => simp [sortByStart]
  | cons y ys ih => simp [sortByStart, mem_insertByStart, ih]

theorem length_insertByStart (r : Repl) (l : List Repl) :
    (insertByStart r l).length = l.length + 1 := by
  induction l with
  | nil => simp [insertByStart]
  | cons y ys ih =>
    unfold insertByStart
    split <;> simp [ih]

theorem length_sortByStart (l : List Repl) : (sortByStart l).length = l.length := by
  induction l with
  | nil => rfl
  | cons y ys ih => simp [sortByStart, length_insertByStart, ih]

/-- sorted by `start` -/
def SortedByStart : List Repl → Prop
  | [] => True
  | r :: rs => (∀ x ∈ rs, r.start ≤ x.start) ∧ SortedByStart rs

theorem sorted_insertByStart (r : Repl) (l : List Repl) (h : SortedByStart l) :
    SortedByStart (insertByStart r l) := by
  induction l with
  | nil => simp [insertByStart, SortedByStart]
  | cons y ys ih =>
    unfold insertByStart
    obtain ⟨h1, h2⟩ := h
    split
    · rename_i hlt
      refine ⟨?_, h1, h2⟩
      intro x hx
      rcases List.mem_cons.1 hx with hx | hx
      · subst hx; omega
      · have := h1 x hx; omega
    · rename_i hge
      refine ⟨?_, ih h2⟩
      intro x hx
      rcases (mem_insertByStart r x ys).1 hx with hx | hx
      · subst hx; omega
      · exact h1 x hx

theorem sorted_sortByStart (l : List Repl) : SortedByStart (sortByStart l) := by
  induction l with
  | nil => trivial
  | cons y ys ih => exact sorted_insertByStart y _ ih

/-- loop invariant of `applyReplacements` -/
theorem applyLoop_eq (src : Bytes) (rs : List Repl) :
    ∀ (prev : Nat) (out : Bytes), prev ≤ src.length → (∀ r ∈ rs, Valid src r) →
      applyLoop src prev rs out = .ok (out ++ interleave src prev (applied prev rs)) := by
  induction rs with
  | nil =>
    intro prev out hp _
    simp [applyLoop, sliceOf, hp, applied, interleave, List.take_length]
  | cons r rs ih =>
    intro prev out hp hv
    have hr : Valid src r := hv r (List.mem_cons_self)
    have hv' : ∀ x ∈ rs, Valid src x := fun x hx => hv x (List.mem_cons_of_mem _ hx)
    unfold applyLoop applied
    by_cases hlt : r.start < prev
    · simp only [hlt, if_true]
      exact ih prev out hp hv'
    · simp only [hlt, if_false]
      have hs : sliceOf src prev r.start = .ok ((src.take r.start).drop prev) := by
        unfold sliceOf
        rw [if_pos ⟨by omega, by unfold Valid at hr; omega⟩]
      rw [hs]
      simp only
      rw [ih r.stop _ hr.2 hv']
      simp [interleave, List.append_assoc]

theorem chain_applied (src : Bytes) (rs : List Repl) :
    ∀ prev, (∀ r ∈ rs, Valid src r) → Chain prev (applied prev rs) := by
  induction rs with
  | nil => intro _ _; trivial
  | cons r rs ih =>
    intro prev hv
    have hr : Valid src r := hv r (List.mem_cons_self)
    have hv' : ∀ x ∈ rs, Valid src x := fun x hx => hv x (List.mem_cons_of_mem _ hx)
    unfold applied
    by_cases hlt : r.start < prev
    · simp only [hlt, if_true]; exact ih prev hv'
    · simp only [hlt, if_false]
      exact ⟨by omega, hr.1, ih r.stop hv'⟩

theorem mem_applied (rs : List Repl) : ∀ prev x, x ∈ applied prev rs → x ∈ rs := by
  induction rs with
  | nil => intro _ x h; simp [applied] at h
  | cons r rs ih =>
    intro prev x h
    unfold applied at h
    split at h
    · exact List.mem_cons_of_mem _ (ih _ _ h)
    · rcases List.mem_cons.1 h with h | h
      · subst h; exact List.mem_cons_self
      · exact List.mem_cons_of_mem _ (ih _ _ h)

/-! ### the untouched segments are the source outside the applied ranges -/

/-- index `i` of the source is kept: it is at or after `prev` and in no range of `A` -/
def keepAt (A : List Repl) (prev i : Nat) : Bool :=
  decide (prev ≤ i) && A.all (fun r => !(decide (r.start ≤ i) && decide (i < r.stop)))

/-- the kept bytes of `bs`, whose first byte stands at index `i` of the source -/
def outsideFrom (A : List Repl) (prev : Nat) : Nat → Bytes → Bytes
  | _, [] => []
  | i, b :: bs =>
    if keepAt A prev i then b :: outsideFrom A prev (i + 1) bs else outsideFrom A prev (i + 1) bs

theorem outsideFrom_append (A : List Repl) (prev : Nat) (xs ys : Bytes) :
    ∀ i, outsideFrom A prev i (xs ++ ys)
      = outsideFrom A prev i xs ++ outsideFrom A prev (i + xs.length) ys := by
  induction xs with
  | nil => intro i; simp [outsideFrom]
  | cons x xs ih =>
    intro i
    simp only [List.cons_append, outsideFrom, List.length_cons]
    have e : i + (xs.length + 1) = i + 1 + xs.length := by omega
    split
    · rw [ih (i + 1), e]; rfl
    · rw [ih (i + 1), e]

theorem outsideFrom_congr (A A' : List Repl) (prev prev' : Nat) (xs : Bytes) :
    ∀ i, (∀ j, i ≤ j → j < i + xs.length → keepAt A prev j = keepAt A' prev' j) →
      outsideFrom A prev i xs = outsideFrom A' prev' i xs := by
  induction xs with
  | nil => intro i _; rfl
  | cons x xs ih =>
    intro i h
    have h0 := h i (Nat.le_refl i) (by simp)
    have hrest := ih (i + 1) (fun j hj1 hj2 => h j (by omega) (by simp at hj2 ⊢; omega))
    simp only [outsideFrom, h0, hrest]

theorem outsideFrom_all (A : List Repl) (prev : Nat) (xs : Bytes) :
    ∀ i, (∀ j, i ≤ j → j < i + xs.length → keepAt A prev j = true) →
      outsideFrom A prev i xs = xs := by
  induction xs with
  | nil => intro i _; rfl
  | cons x xs ih =>
    intro i h
    have h0 := h i (Nat.le_refl i) (by simp)
    have hrest := ih (i + 1) (fun j hj1 hj2 => h j (by omega) (by simp at hj2 ⊢; omega))
    simp only [outsideFrom, h0, hrest, if_true]

theorem outsideFrom_none (A : List Repl) (prev : Nat) (xs : Bytes) :
    ∀ i, (∀ j, i ≤ j → j < i + xs.length → keepAt A prev j = false) →
      outsideFrom A prev i xs = [] := by
  induction xs with
  | nil => intro i _; rfl
  | cons x xs ih =>
    intro i h
    have h0 := h i (Nat.le_refl i) (by simp)
    have hrest := ih (i + 1) (fun j hj1 hj2 => h j (by omega) (by simp at hj2 ⊢; omega))
    simp only [outsideFrom, h0, hrest, Bool.false_eq_true, if_false]

theorem chain_lower (A : List Repl) : ∀ p, Chain p A → ∀ x ∈ A, p ≤ x.start := by
  induction A with
  | nil => intro _ _ x hx; cases hx
  | cons r rs ih =>
    intro p hc x hx
    obtain ⟨h1, h2, h3⟩ := hc
    rcases List.mem_cons.1 hx with hx | hx
    · subst hx; exact h1
    · have := ih r.stop h3 x hx; omega

theorem drop_split (l : Bytes) (p a : Nat) (hpa : p ≤ a) (hal : a ≤ l.length) :
    l.drop p = (l.take a).drop p ++ l.drop a := by
  have h : l.drop p = (l.take a ++ l.drop a).drop p := by rw [List.take_append_drop]
  rw [h, List.drop_append_of_le_length (by rw [List.length_take]; omega)]

theorem outside_eq_untouched (src : Bytes) (A : List Repl) :
    ∀ prev, Chain prev A → (∀ r ∈ A, r.stop ≤ src.length) → prev ≤ src.length →
      outsideFrom A prev prev (src.drop prev) = (untouched src prev A).flatten := by
  induction A with
  | nil =>
    intro prev _ _ _
    simp only [untouched, List.flatten_cons, List.flatten_nil, List.append_nil]
    apply outsideFrom_all
    intro j hj _
    simp [keepAt, hj]
  | cons r rs ih =>
    intro prev hc hstop hp
    obtain ⟨h1, h2, h3⟩ := hc
    have hb : r.stop ≤ src.length := hstop r (List.mem_cons_self)
    have hlow := chain_lower rs r.stop h3
    have e1 := drop_split src prev r.start h1 (by omega)
    have e2 := drop_split src r.start r.stop h2 hb
    have l1 : ((src.take r.start).drop prev).length = r.start - prev := by
      rw [List.length_drop, List.length_take]; omega
    have l2 : ((src.take r.stop).drop r.start).length = r.stop - r.start := by
      rw [List.length_drop, List.length_take]; omega
    rw [e1, e2, outsideFrom_append, outsideFrom_append, l1, l2]
    have ea : prev + (r.start - prev) = r.start := by omega
    have eb : r.start + (r.stop - r.start) = r.stop := by omega
    rw [ea, eb]
    -- before the range: everything is kept
    have p1 : outsideFrom (r :: rs) prev prev ((src.take r.start).drop prev)
        = (src.take r.start).drop prev := by
      apply outsideFrom_all
      intro j hj1 hj2
      rw [l1] at hj2
      simp only [keepAt, List.all_cons, Bool.and_eq_true, decide_eq_true_eq, Bool.not_eq_true',
        Bool.and_eq_false_imp, List.all_eq_true]
      refine ⟨hj1, ⟨fun h => by omega, ?_⟩⟩
      intro x hx h
      have := hlow x hx
      omega
    -- inside the range: nothing is kept
    have p2 : outsideFrom (r :: rs) prev r.start ((src.take r.stop).drop r.start) = [] := by
      apply outsideFrom_none
      intro j hj1 hj2
      rw [l2] at hj2
      have hA : decide (r.start ≤ j) = true := by simpa using hj1
      have hB : decide (j < r.stop) = true := by simp; omega
      simp [keepAt, hA, hB]
    -- after the range: the remaining ranges decide
    have p3 : outsideFrom (r :: rs) prev r.stop (src.drop r.stop)
        = outsideFrom rs r.stop r.stop (src.drop r.stop) := by
      apply outsideFrom_congr
      intro j hj1 _
      have hA : decide (prev ≤ j) = true := by simp; omega
      have hB : decide (r.stop ≤ j) = true := by simpa using hj1
      have hC : decide (j < r.stop) = false := by simp; omega
      simp [keepAt, hA, hB, hC]
    rw [p1, p2, p3, ih r.stop h3 (fun x hx => hstop x (List.mem_cons_of_mem _ hx)) hb]
    simp [untouched]

/-- segments and texts, alternating, starting with a segment -/
def weave : List Bytes → List Bytes → Bytes
  | seg :: segs, t :: ts => seg ++ t ++ weave segs ts
  | segs, [] => segs.flatten
  | [], _ :: _ => []

theorem interleave_eq_weave (src : Bytes) (A : List Repl) :
    ∀ prev, interleave src prev A = weave (untouched src prev A) (A.map (·.text)) := by
  induction A with
  | nil => intro prev; simp [interleave, untouched, weave]
  | cons r rs ih => intro prev; simp [interleave, untouched, weave, ih]

end ScriggoV.LinkDest
