import ScriggoV.Lemmas.ExprPP
/-! `norm` against `strip`, `print`, `WF`, `Plain` and itself (C27) -/
namespace ScriggoV.ExprPP
open ScriggoV.Gen.Precedence

/-! ### functions that only look at the node under the parentheses -/

theorem core_wrapP (c : Bool) (e : Expr) : (wrapP c e).core = e.core := by
  cases c <;> simp [wrapP, Expr.core]

/-- `norm` keeps the kind of the node and removes its parentheses -/
theorem core_norm : ∀ e : Expr, (norm e).core = norm e.core
  | .paren e => by simpa [norm, Expr.core] using core_norm e
  | .ident _ => by simp [norm, Expr.core]
  | .lit _ _ => by simp [norm, Expr.core]
  | .unary _ _ => by simp [norm, Expr.core]
  | .binary _ _ _ => by simp [norm, Expr.core]
  | .call _ _ _ => by simp [norm, Expr.core]
  | .index _ _ => by simp [norm, Expr.core]
  | .slicing _ _ _ _ _ => by simp [norm, Expr.core]
  | .selector _ _ => by simp [norm, Expr.core]
  | .typeAssert _ _ => by simp [norm, Expr.core]
  | .dflt _ _ => by simp [norm, Expr.core]
  | .sliceT _ => by simp [norm, Expr.core]
  | .arrayT _ _ => by simp [norm, Expr.core]
  | .mapT _ _ => by simp [norm, Expr.core]
  | .chanT _ _ => by simp [norm, Expr.core]
  | .iface => by simp [norm, Expr.core]

theorem prec?_wrapP (c : Bool) (e : Expr) : (wrapP c e).prec? = e.prec? := by
  cases c <;> simp [wrapP, Expr.prec?]

theorem prec?_norm : ∀ e : Expr, (norm e).prec? = e.prec?
  | .paren e => by simp [norm, Expr.prec?, prec?_norm e]
  | .ident _ => by simp [norm]
  | .lit _ _ => by simp [norm]
  | .unary _ _ => by simp [norm, Expr.prec?]
  | .binary _ _ _ => by simp [norm, Expr.prec?]
  | .call _ _ _ => by simp [norm, Expr.prec?]
  | .index _ _ => by simp [norm, Expr.prec?]
  | .slicing _ _ _ _ _ => by simp [norm, Expr.prec?]
  | .selector _ _ => by simp [norm, Expr.prec?]
  | .typeAssert _ _ => by simp [norm, Expr.prec?]
  | .dflt _ _ => by simp [norm, Expr.prec?]
  | .sliceT _ => by simp [norm, Expr.prec?]
  | .arrayT _ _ => by simp [norm, Expr.prec?]
  | .mapT _ _ => by simp [norm, Expr.prec?]
  | .chanT _ _ => by simp [norm, Expr.prec?]
  | .iface => by simp [norm, Expr.prec?]

theorem needs_wrapP_norm (rule : Nat → Bool) (c : Bool) (e : Expr) :
    needs rule (wrapP c (norm e)) = needs rule e := by
  simp [needs, prec?_wrapP, prec?_norm]

theorem isOperator_norm (e : Expr) : isOperator (norm e) = isOperator e := by
  simp [isOperator, prec?_norm]

theorem isOperator_wrapP_norm (c : Bool) (e : Expr) : isOperator (wrapP c (norm e)) = isOperator e := by
  simp [isOperator, prec?_wrapP, prec?_norm]

/-- the kind of the node under the parentheses, as far as the printer and the predicates look -/
inductive Kind where
  | ident | unPointer | unReceive | chanRecv | chanOther | dflt | call | other
  deriving DecidableEq

def kindOf : Expr → Kind
  | .ident _ => .ident
  | .unary .pointer _ => .unPointer
  | .unary .receive _ => .unReceive
  | .chanT .ReceiveDirection _ => .chanRecv
  | .chanT _ _ => .chanOther
  | .dflt _ _ => .dflt
  | .call _ _ _ => .call
  | .paren e => kindOf e
  | _ => .other

theorem kindOf_wrapP (c : Bool) (e : Expr) : kindOf (wrapP c e) = kindOf e := by
  cases c <;> simp [wrapP, kindOf]

theorem kindOf_norm : ∀ e : Expr, kindOf (norm e) = kindOf e
  | .paren e => by simpa [norm, kindOf] using kindOf_norm e
  | .ident _ => by simp [norm, kindOf]
  | .lit _ _ => by simp [norm, kindOf]
  | .unary u _ => by cases u <;> simp [norm, kindOf]
  | .binary _ _ _ => by simp [norm, kindOf]
  | .call _ _ _ => by simp [norm, kindOf]
  | .index _ _ => by simp [norm, kindOf]
  | .slicing _ _ _ _ _ => by simp [norm, kindOf]
  | .selector _ _ => by simp [norm, kindOf]
  | .typeAssert _ _ => by simp [norm, kindOf]
  | .dflt _ _ => by simp [norm, kindOf]
  | .sliceT _ => by simp [norm, kindOf]
  | .arrayT _ _ => by simp [norm, kindOf]
  | .mapT _ _ => by simp [norm, kindOf]
  | .chanT d _ => by cases d <;> simp [norm, kindOf]
  | .iface => by simp [norm, kindOf]

theorem callParens_kind : ∀ e : Expr, callParens e =
    (match kindOf e with | .unPointer | .unReceive | .chanRecv | .chanOther => true | _ => false)
  | .paren e => by simpa [callParens, Expr.core, kindOf] using callParens_kind e
  | .ident _ => by simp [callParens, Expr.core, kindOf]
  | .lit _ _ => by simp [callParens, Expr.core, kindOf]
  | .unary u _ => by cases u <;> simp [callParens, Expr.core, kindOf]
  | .binary _ _ _ => by simp [callParens, Expr.core, kindOf]
  | .call _ _ _ => by simp [callParens, Expr.core, kindOf]
  | .index _ _ => by simp [callParens, Expr.core, kindOf]
  | .slicing _ _ _ _ _ => by simp [callParens, Expr.core, kindOf]
  | .selector _ _ => by simp [callParens, Expr.core, kindOf]
  | .typeAssert _ _ => by simp [callParens, Expr.core, kindOf]
  | .dflt _ _ => by simp [callParens, Expr.core, kindOf]
  | .sliceT _ => by simp [callParens, Expr.core, kindOf]
  | .arrayT _ _ => by simp [callParens, Expr.core, kindOf]
  | .mapT _ _ => by simp [callParens, Expr.core, kindOf]
  | .chanT d _ => by cases d <;> simp [callParens, Expr.core, kindOf]
  | .iface => by simp [callParens, Expr.core, kindOf]

theorem chanParens_kind (d : ChanDirection) : ∀ e : Expr, chanParens d e =
    (match d, kindOf e with | .NoDirection, .chanRecv => true | _, _ => false)
  | .paren e => by simpa [chanParens, Expr.core, kindOf] using chanParens_kind d e
  | .ident _ => by cases d <;> simp [chanParens, Expr.core, kindOf]
  | .lit _ _ => by cases d <;> simp [chanParens, Expr.core, kindOf]
  | .unary u _ => by cases d <;> cases u <;> simp [chanParens, Expr.core, kindOf]
  | .binary _ _ _ => by cases d <;> simp [chanParens, Expr.core, kindOf]
  | .call _ _ _ => by cases d <;> simp [chanParens, Expr.core, kindOf]
  | .index _ _ => by cases d <;> simp [chanParens, Expr.core, kindOf]
  | .slicing _ _ _ _ _ => by cases d <;> simp [chanParens, Expr.core, kindOf]
  | .selector _ _ => by cases d <;> simp [chanParens, Expr.core, kindOf]
  | .typeAssert _ _ => by cases d <;> simp [chanParens, Expr.core, kindOf]
  | .dflt _ _ => by cases d <;> simp [chanParens, Expr.core, kindOf]
  | .sliceT _ => by cases d <;> simp [chanParens, Expr.core, kindOf]
  | .arrayT _ _ => by cases d <;> simp [chanParens, Expr.core, kindOf]
  | .mapT _ _ => by cases d <;> simp [chanParens, Expr.core, kindOf]
  | .chanT d' _ => by cases d <;> cases d' <;> simp [chanParens, Expr.core, kindOf]
  | .iface => by cases d <;> simp [chanParens, Expr.core, kindOf]

theorem isDflt_kind : ∀ e : Expr, isDflt e = (match kindOf e with | .dflt => true | _ => false)
  | .paren e => by simpa [isDflt, Expr.core, kindOf] using isDflt_kind e
  | .ident _ => by simp [isDflt, Expr.core, kindOf]
  | .lit _ _ => by simp [isDflt, Expr.core, kindOf]
  | .unary u _ => by cases u <;> simp [isDflt, Expr.core, kindOf]
  | .binary _ _ _ => by simp [isDflt, Expr.core, kindOf]
  | .call _ _ _ => by simp [isDflt, Expr.core, kindOf]
  | .index _ _ => by simp [isDflt, Expr.core, kindOf]
  | .slicing _ _ _ _ _ => by simp [isDflt, Expr.core, kindOf]
  | .selector _ _ => by simp [isDflt, Expr.core, kindOf]
  | .typeAssert _ _ => by simp [isDflt, Expr.core, kindOf]
  | .dflt _ _ => by simp [isDflt, Expr.core, kindOf]
  | .sliceT _ => by simp [isDflt, Expr.core, kindOf]
  | .arrayT _ _ => by simp [isDflt, Expr.core, kindOf]
  | .mapT _ _ => by simp [isDflt, Expr.core, kindOf]
  | .chanT d _ => by cases d <;> simp [isDflt, Expr.core, kindOf]
  | .iface => by simp [isDflt, Expr.core, kindOf]

theorem dfltLhsOk_kind : ∀ e : Expr, dfltLhsOk e = (match kindOf e with | .ident | .call => true | _ => false)
  | .paren e => by simpa [dfltLhsOk, kindOf] using dfltLhsOk_kind e
  | .ident _ => by simp [dfltLhsOk, kindOf]
  | .lit _ _ => by simp [dfltLhsOk, kindOf]
  | .unary u _ => by cases u <;> simp [dfltLhsOk, kindOf]
  | .binary _ _ _ => by simp [dfltLhsOk, kindOf]
  | .call _ _ _ => by simp [dfltLhsOk, kindOf]
  | .index _ _ => by simp [dfltLhsOk, kindOf]
  | .slicing _ _ _ _ _ => by simp [dfltLhsOk, kindOf]
  | .selector _ _ => by simp [dfltLhsOk, kindOf]
  | .typeAssert _ _ => by simp [dfltLhsOk, kindOf]
  | .dflt _ _ => by simp [dfltLhsOk, kindOf]
  | .sliceT _ => by simp [dfltLhsOk, kindOf]
  | .arrayT _ _ => by simp [dfltLhsOk, kindOf]
  | .mapT _ _ => by simp [dfltLhsOk, kindOf]
  | .chanT d _ => by cases d <;> simp [dfltLhsOk, kindOf]
  | .iface => by simp [dfltLhsOk, kindOf]

theorem identCore_kind : ∀ e : Expr,
    (match e.core with | .ident _ => true | _ => false) = (match kindOf e with | .ident => true | _ => false)
  | .paren e => by simpa [Expr.core, kindOf] using identCore_kind e
  | .ident _ => by simp [Expr.core, kindOf]
  | .lit _ _ => by simp [Expr.core, kindOf]
  | .unary u _ => by cases u <;> simp [Expr.core, kindOf]
  | .binary _ _ _ => by simp [Expr.core, kindOf]
  | .call _ _ _ => by simp [Expr.core, kindOf]
  | .index _ _ => by simp [Expr.core, kindOf]
  | .slicing _ _ _ _ _ => by simp [Expr.core, kindOf]
  | .selector _ _ => by simp [Expr.core, kindOf]
  | .typeAssert _ _ => by simp [Expr.core, kindOf]
  | .dflt _ _ => by simp [Expr.core, kindOf]
  | .sliceT _ => by simp [Expr.core, kindOf]
  | .arrayT _ _ => by simp [Expr.core, kindOf]
  | .mapT _ _ => by simp [Expr.core, kindOf]
  | .chanT d _ => by cases d <;> simp [Expr.core, kindOf]
  | .iface => by simp [Expr.core, kindOf]

theorem callParens_wrapP_norm (c : Bool) (e : Expr) : callParens (wrapP c (norm e)) = callParens e := by
  rw [callParens_kind, callParens_kind, kindOf_wrapP, kindOf_norm]
theorem callParens_norm (e : Expr) : callParens (norm e) = callParens e := by
  rw [callParens_kind, callParens_kind, kindOf_norm]
theorem chanParens_wrapP_norm (d : ChanDirection) (c : Bool) (e : Expr) :
    chanParens d (wrapP c (norm e)) = chanParens d e := by
  rw [chanParens_kind, chanParens_kind, kindOf_wrapP, kindOf_norm]
theorem isDflt_norm (e : Expr) : isDflt (norm e) = isDflt e := by
  rw [isDflt_kind, isDflt_kind, kindOf_norm]
theorem isDflt_wrapP_norm (c : Bool) (e : Expr) : isDflt (wrapP c (norm e)) = isDflt e := by
  rw [isDflt_kind, isDflt_kind, kindOf_wrapP, kindOf_norm]
theorem dfltLhsOk_norm (e : Expr) : dfltLhsOk (norm e) = dfltLhsOk e := by
  rw [dfltLhsOk_kind, dfltLhsOk_kind, kindOf_norm]

theorem strip_wrapP (c : Bool) (e : Expr) : strip (wrapP c e) = strip e := by
  cases c <;> simp [wrapP, strip]
theorem norm_wrapP (c : Bool) (e : Expr) : norm (wrapP c e) = norm e := by
  cases c <;> simp [wrapP, norm]
theorem print_wrapP (c : Bool) (e : Expr) : print (wrapP c e) = print e := by
  cases c <;> simp [wrapP, print]
theorem WF_wrapP (c : Bool) (e : Expr) : WF (wrapP c e) ↔ WF e := by
  cases c <;> simp [wrapP, WF]
theorem Plain_wrapP (c : Bool) (e : Expr) : Plain (wrapP c e) ↔ Plain e := by
  cases c <;> simp [wrapP, Plain]
theorem IsType_wrapP (c : Bool) (e : Expr) : IsType (wrapP c e) = IsType e := by
  cases c <;> simp [wrapP, IsType]
theorem endsTy_wrapP (b c : Bool) (e : Expr) : endsTy b (wrapP c e) = endsTy b e := by
  cases c <;> cases b <;> simp [wrapP, endsTy]
theorem startsChan_wrapP (c : Bool) (e : Expr) : startsChan (wrapP c e) = startsChan e := by
  cases c <;> simp [wrapP, startsChan]

/-! ### all the facts at once, by the recursor of the nested type -/

def NormFacts (e : Expr) : Prop :=
  strip (norm e) = strip e ∧ norm (norm e) = norm e ∧ print (norm e) = print e ∧
    IsType (norm e) = IsType e ∧ (∀ b, endsTy b (norm e) = endsTy b e) ∧
    startsChan (norm e) = startsChan e ∧ (WF e → WF (norm e)) ∧ (Plain e → Plain (norm e))

def NormFactsArgs (as : List Expr) : Prop :=
  stripArgs (normArgs as) = stripArgs as ∧ normArgs (normArgs as) = normArgs as ∧
    printArgs (normArgs as) = printArgs as ∧ (WFArgs as → WFArgs (normArgs as)) ∧
    (as ≠ [] → normArgs as ≠ []) ∧ (PlainArgs as → PlainArgs (normArgs as))

def NormFactsOpt (o : Option Expr) : Prop :=
  stripOpt (normOpt o) = stripOpt o ∧ normOpt (normOpt o) = normOpt o ∧
    printOpt (normOpt o) = printOpt o ∧ (WFOpt o → WFOpt (normOpt o)) ∧
    (normOpt o).isSome = o.isSome ∧ (PlainOpt o → PlainOpt (normOpt o))

theorem isType_selector_eq (e : Expr) (n : Nat) :
    IsType (.selector e n) = (match kindOf e with | .ident => true | _ => false) := by
  rw [← identCore_kind]; simp only [IsType]
  generalize e.core = c
  cases c <;> rfl

theorem normFacts (e : Expr) : NormFacts e := by
  refine Expr.rec (motive_1 := NormFacts) (motive_2 := NormFactsArgs) (motive_3 := NormFactsOpt)
    ?_ ?_ ?_ ?_ ?_ ?_ ?_ ?_ ?_ ?_ ?_ ?_ ?_ ?_ ?_ ?_ ?_ ?_ ?_ ?_ e
  · intro n; simp [NormFacts, norm]
  · intro k n; simp [NormFacts, norm]
  · -- unary
    intro u e ⟨h1, h2, h3, h4, h5, h6, h7, h8⟩
    refine ⟨?_, ?_, ?_, ?_, ?_, ?_, ?_, ?_⟩
    · simp [norm, strip, strip_wrapP, h1]
    · simp [norm, needs_wrapP_norm, norm_wrapP, h2]
    · simp [norm, print, needs_wrapP_norm, print_wrapP, h3]
    · cases u <;> simp [norm, IsType, IsType_wrapP, h4]
    · intro b; cases b <;> simp [norm, endsTy, needs_wrapP_norm, endsTy_wrapP, h5]
    · simp [norm, startsChan]
    · simpa [norm, WF, WF_wrapP] using h7
    · simp only [norm, Plain, Plain_wrapP, isDflt_wrapP_norm, needs_wrapP_norm, startsChan_wrapP, h6]
      exact fun h => ⟨h8 h.1, h.2⟩
  · -- binary
    intro b l r ⟨l1, l2, l3, _, l5, l6, l7, l8⟩ ⟨r1, r2, r3, _, r5, _, r7, r8⟩
    refine ⟨?_, ?_, ?_, ?_, ?_, ?_, ?_, ?_⟩
    · simp [norm, strip, strip_wrapP, l1, r1]
    · simp [norm, needs_wrapP_norm, norm_wrapP, l2, r2]
    · simp [norm, print, needs_wrapP_norm, print_wrapP, l3, r3]
    · simp [norm, IsType]
    · intro c; cases c <;> simp [norm, endsTy, needs_wrapP_norm, endsTy_wrapP, r5]
    · simp [norm, startsChan, needs_wrapP_norm, startsChan_wrapP, l6]
    · simp only [norm, WF, WF_wrapP]; exact fun h => ⟨l7 h.1, r7 h.2⟩
    · simp only [norm, Plain, Plain_wrapP, isDflt_wrapP_norm]
      exact fun h => ⟨l8 h.1, r8 h.2.1, h.2.2⟩
  · -- call
    intro f args v ⟨f1, f2, f3, _, _, f6, f7, f8⟩ ⟨a1, a2, a3, a4, a5, a6⟩
    refine ⟨?_, ?_, ?_, ?_, ?_, ?_, ?_, ?_⟩
    · simp [norm, strip, strip_wrapP, f1, a1]
    · simp [norm, callParens_wrapP_norm, norm_wrapP, f2, a2]
    · simp [norm, print, callParens_wrapP_norm, print_wrapP, f3, a3]
    · simp [norm, IsType]
    · intro b; cases b <;> simp [norm, endsTy]
    · simp [norm, startsChan, callParens_wrapP_norm, startsChan_wrapP, f6]
    · simp only [norm, WF, WF_wrapP]; exact fun h => ⟨f7 h.1, a4 h.2.1, fun hv => a5 (h.2.2 hv)⟩
    · simp only [norm, Plain, Plain_wrapP, isOperator_wrapP_norm, callParens_wrapP_norm, isDflt_wrapP_norm]
      exact fun h => ⟨f8 h.1, a6 h.2.1, h.2.2⟩
  · -- index
    intro e i ⟨e1, e2, e3, _, _, e6, e7, e8⟩ ⟨i1, i2, i3, _, _, _, i7, i8⟩
    refine ⟨?_, ?_, ?_, ?_, ?_, ?_, ?_, ?_⟩
    · simp [norm, strip, e1, i1]
    · simp [norm, e2, i2]
    · simp [norm, print, e3, i3]
    · simp [norm, IsType]
    · intro b; cases b <;> simp [norm, endsTy]
    · simp [norm, startsChan, e6]
    · simp only [norm, WF]; exact fun h => ⟨e7 h.1, i7 h.2⟩
    · simp only [norm, Plain, isOperator_norm, isDflt_norm]; exact fun h => ⟨e8 h.1, i8 h.2.1, h.2.2⟩
  · -- slicing
    intro e lo hi mx full ⟨e1, e2, e3, _, _, e6, e7, e8⟩ ⟨lo1, lo2, lo3, lo4, _, lo6⟩
      ⟨hi1, hi2, hi3, hi4, _, hi6⟩ ⟨mx1, mx2, mx3, mx4, mx5, mx6⟩
    refine ⟨?_, ?_, ?_, ?_, ?_, ?_, ?_, ?_⟩
    · simp [norm, strip, e1, lo1, hi1, mx1]
    · simp [norm, e2, lo2, hi2, mx2]
    · cases mx with
      | none => simp [norm, print, normOpt, e3, lo3, hi3]
      | some m =>
        have : print (norm m) = print m := by simpa [normOpt, printOpt] using mx3
        simp [norm, print, normOpt, e3, lo3, hi3, this]
    · simp [norm, IsType]
    · intro b; cases b <;> simp [norm, endsTy]
    · simp [norm, startsChan, e6]
    · simp only [norm, WF, mx5]; exact fun h => ⟨e7 h.1, lo4 h.2.1, hi4 h.2.2.1, mx4 h.2.2.2.1, h.2.2.2.2⟩
    · simp only [norm, Plain, isOperator_norm, isDflt_norm]
      exact fun h => ⟨e8 h.1, lo6 h.2.1, hi6 h.2.2.1, mx6 h.2.2.2.1, h.2.2.2.2⟩
  · -- selector
    intro e n ⟨e1, e2, e3, _, e5, e6, e7, e8⟩
    refine ⟨?_, ?_, ?_, ?_, ?_, ?_, ?_, ?_⟩
    · simp [norm, strip, e1]
    · simp [norm, e2]
    · simp [norm, print, e3]
    · simp only [norm]; rw [isType_selector_eq, isType_selector_eq, kindOf_norm]
    · intro b; cases b <;> simp [norm, endsTy]
    · simp [norm, startsChan, e6]
    · simpa [norm, WF] using e7
    · simp only [norm, Plain, isOperator_norm, isDflt_norm, e5]; exact fun h => ⟨e8 h.1, h.2⟩
  · -- typeAssert
    intro e t ⟨e1, e2, e3, _, e5, e6, e7, e8⟩ ⟨t1, t2, t3, t4, _, _, t7, t8⟩
    refine ⟨?_, ?_, ?_, ?_, ?_, ?_, ?_, ?_⟩
    · simp [norm, strip, e1, t1]
    · simp [norm, e2, t2]
    · simp [norm, print, e3, t3]
    · simp [norm, IsType]
    · intro b; cases b <;> simp [norm, endsTy]
    · simp [norm, startsChan, e6]
    · simp only [norm, WF, t4]; exact fun h => ⟨e7 h.1, t7 h.2.1, h.2.2⟩
    · simp only [norm, Plain, isOperator_norm, isDflt_norm, e5]; exact fun h => ⟨e8 h.1, t8 h.2.1, h.2.2⟩
  · -- dflt
    intro l r ⟨l1, l2, l3, _, _, l6, l7, l8⟩ ⟨r1, r2, r3, _, r5, _, r7, r8⟩
    refine ⟨?_, ?_, ?_, ?_, ?_, ?_, ?_, ?_⟩
    · simp [norm, strip, l1, r1]
    · simp [norm, l2, r2]
    · simp [norm, print, l3, r3]
    · simp [norm, IsType]
    · intro b; cases b <;> simp [norm, endsTy, r5]
    · simp [norm, startsChan, l6]
    · simp only [norm, WF, dfltLhsOk_norm]; exact fun h => ⟨l7 h.1, r7 h.2.1, h.2.2⟩
    · simp only [norm, Plain]; exact fun h => ⟨l8 h.1, r8 h.2⟩
  · -- sliceT
    intro t ⟨t1, t2, t3, t4, t5, _, t7, t8⟩
    refine ⟨?_, ?_, ?_, ?_, ?_, ?_, ?_, ?_⟩
    · simp [norm, strip, t1]
    · simp [norm, t2]
    · simp [norm, print, t3]
    · simp [norm, IsType]
    · intro b; cases b <;> simp [norm, endsTy, t5]
    · simp [norm, startsChan]
    · simp only [norm, WF, t4]; exact fun h => ⟨t7 h.1, h.2⟩
    · simpa [norm, Plain] using t8
  · -- arrayT
    intro len t ⟨n1, n2, n3, n4, _, n6⟩ ⟨t1, t2, t3, t4, t5, _, t7, t8⟩
    refine ⟨?_, ?_, ?_, ?_, ?_, ?_, ?_, ?_⟩
    · simp [norm, strip, t1, n1]
    · simp [norm, t2, n2]
    · cases len with
      | none => simp [norm, print, normOpt, t3]
      | some l =>
        have : print (norm l) = print l := by simpa [normOpt, printOpt] using n3
        simp [norm, print, normOpt, t3, this]
    · simp [norm, IsType]
    · intro b; cases b <;> simp [norm, endsTy, t5]
    · simp [norm, startsChan]
    · simp only [norm, WF, t4]; exact fun h => ⟨n4 h.1, t7 h.2.1, h.2.2⟩
    · simp only [norm, Plain]; exact fun h => ⟨n6 h.1, t8 h.2⟩
  · -- mapT
    intro k v ⟨k1, k2, k3, k4, _, _, k7, k8⟩ ⟨v1, v2, v3, v4, v5, _, v7, v8⟩
    refine ⟨?_, ?_, ?_, ?_, ?_, ?_, ?_, ?_⟩
    · simp [norm, strip, k1, v1]
    · simp [norm, k2, v2]
    · simp [norm, print, k3, v3]
    · simp [norm, IsType]
    · intro b; cases b <;> simp [norm, endsTy, v5]
    · simp [norm, startsChan]
    · simp only [norm, WF, k4, v4]; exact fun h => ⟨k7 h.1, h.2.1, v7 h.2.2.1, h.2.2.2⟩
    · simp only [norm, Plain]; exact fun h => ⟨k8 h.1, v8 h.2⟩
  · -- chanT
    intro d t ⟨t1, t2, t3, t4, t5, _, t7, t8⟩
    refine ⟨?_, ?_, ?_, ?_, ?_, ?_, ?_, ?_⟩
    · simp [norm, strip, strip_wrapP, t1]
    · simp [norm, chanParens_wrapP_norm, norm_wrapP, t2]
    · simp [norm, print, chanParens_wrapP_norm, print_wrapP, t3]
    · simp [norm, IsType]
    · intro b; cases b <;> simp [norm, endsTy, chanParens_wrapP_norm, endsTy_wrapP, t5]
    · cases d <;> simp [norm, startsChan]
    · simp only [norm, WF, WF_wrapP, IsType_wrapP, t4]; exact fun h => ⟨t7 h.1, h.2⟩
    · simpa [norm, Plain, Plain_wrapP] using t8
  · simp [NormFacts, norm]
  · -- paren
    intro e ⟨e1, e2, e3, e4, e5, e6, e7, e8⟩
    refine ⟨?_, ?_, ?_, ?_, ?_, ?_, ?_, ?_⟩
    · simp [norm, strip, e1]
    · simp [norm, e2]
    · simp [norm, print, e3]
    · simp [norm, IsType, e4]
    · intro b; cases b <;> simp [norm, endsTy, e5]
    · simp [norm, startsChan, e6]
    · simpa [norm, WF] using e7
    · simpa [norm, Plain] using e8
  · simp [NormFactsArgs, normArgs]
  · intro a as ⟨h1, h2, h3, _, _, _, h7, h8⟩ ⟨a1, a2, a3, a4, a5, a6⟩
    refine ⟨?_, ?_, ?_, ?_, ?_, ?_⟩
    · simp [normArgs, stripArgs, h1, a1]
    · simp [normArgs, h2, a2]
    · cases as with
      | nil => simp [normArgs, printArgs, h3]
      | cons b bs =>
        have : printArgs (norm b :: normArgs bs) = printArgs (b :: bs) := by simpa [normArgs] using a3
        simp only [normArgs]
        rw [printArgs_cons2, printArgs_cons2, h3, this]
    · simp only [normArgs, WFArgs]; exact fun h => ⟨h7 h.1, a4 h.2⟩
    · simp [normArgs]
    · simp only [normArgs, PlainArgs]; exact fun h => ⟨h8 h.1, a6 h.2⟩
  · simp [NormFactsOpt, normOpt]
  · intro e ⟨e1, e2, e3, _, _, _, e7, e8⟩
    exact ⟨by simp [normOpt, stripOpt, e1], by simp [normOpt, e2], by simp [normOpt, printOpt, e3],
      by simpa [normOpt, WFOpt] using e7, by simp [normOpt], by simpa [normOpt, PlainOpt] using e8⟩

theorem strip_norm (e : Expr) : strip (norm e) = strip e := (normFacts e).1
theorem norm_norm (e : Expr) : norm (norm e) = norm e := (normFacts e).2.1
theorem print_norm (e : Expr) : print (norm e) = print e := (normFacts e).2.2.1
theorem WF_norm (e : Expr) (h : WF e) : WF (norm e) := (normFacts e).2.2.2.2.2.2.1 h
theorem Plain_norm (e : Expr) (h : Plain e) : Plain (norm e) := (normFacts e).2.2.2.2.2.2.2 h

end ScriggoV.ExprPP
