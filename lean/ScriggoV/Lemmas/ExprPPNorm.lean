import ScriggoV.Lemmas.ExprPP
/-! `norm` against `strip`, `print`, `WF` and itself (C27) -/
namespace ScriggoV.ExprPP
open ScriggoV.Gen.Precedence

theorem prec?_wrapP (c : Bool) (e : Expr) : (wrapP c e).prec? = e.prec? := by
  cases c <;> simp [wrapP, Expr.prec?]

theorem prec?_norm : ∀ e : Expr, (norm e).prec? = e.prec?
  | .ident _ => by simp [norm]
  | .lit _ => by simp [norm]
  | .unary _ _ => by simp [norm, Expr.prec?]
  | .binary _ _ _ => by simp [norm, Expr.prec?]
  | .call _ _ _ => by simp [norm, Expr.prec?]
  | .index _ _ => by simp [norm, Expr.prec?]
  | .selector _ _ => by simp [norm, Expr.prec?]
  | .paren e => by simp [norm, Expr.prec?, prec?_norm e]

theorem needs_wrapP_norm (rule : Nat → Bool) (c : Bool) (e : Expr) :
    needs rule (wrapP c (norm e)) = needs rule e := by
  simp [needs, prec?_wrapP, prec?_norm]

theorem isOperator_wrapP_norm (c : Bool) (e : Expr) : isOperator (wrapP c (norm e)) = isOperator e := by
  simp [isOperator, prec?_wrapP, prec?_norm]

theorem unaryOp?_wrapP (c : Bool) (e : Expr) : (wrapP c e).unaryOp? = e.unaryOp? := by
  cases c <;> simp [wrapP, Expr.unaryOp?]

theorem unaryOp?_norm : ∀ e : Expr, (norm e).unaryOp? = e.unaryOp?
  | .ident _ => by simp [norm]
  | .lit _ => by simp [norm]
  | .unary _ _ => by simp [norm, Expr.unaryOp?]
  | .binary _ _ _ => by simp [norm, Expr.unaryOp?]
  | .call _ _ _ => by simp [norm, Expr.unaryOp?]
  | .index _ _ => by simp [norm, Expr.unaryOp?]
  | .selector _ _ => by simp [norm, Expr.unaryOp?]
  | .paren e => by simp [norm, Expr.unaryOp?, unaryOp?_norm e]

theorem callParens_wrapP_norm (c : Bool) (e : Expr) : callParens (wrapP c (norm e)) = callParens e := by
  simp [callParens, unaryOp?_wrapP, unaryOp?_norm]

theorem isOperator_norm (e : Expr) : isOperator (norm e) = isOperator e := by
  simp [isOperator, prec?_norm]

theorem Plain_wrapP (c : Bool) (e : Expr) : Plain (wrapP c e) ↔ Plain e := by
  cases c <;> simp [wrapP, Plain]

theorem strip_wrapP (c : Bool) (e : Expr) : strip (wrapP c e) = strip e := by
  cases c <;> simp [wrapP, strip]

theorem norm_wrapP (c : Bool) (e : Expr) : norm (wrapP c e) = norm e := by
  cases c <;> simp [wrapP, norm]

theorem print_wrapP (c : Bool) (e : Expr) : print (wrapP c e) = print e := by
  cases c <;> simp [wrapP, print]

theorem WF_wrapP (c : Bool) (e : Expr) : WF (wrapP c e) ↔ WF e := by
  cases c <;> simp [wrapP, WF]

/-- all four facts at once, by the recursor of the nested type -/
def NormFacts (e : Expr) : Prop :=
  strip (norm e) = strip e ∧ norm (norm e) = norm e ∧ print (norm e) = print e ∧ (WF e → WF (norm e)) ∧
    (Plain e → Plain (norm e))

def NormFactsArgs (as : List Expr) : Prop :=
  stripArgs (normArgs as) = stripArgs as ∧ normArgs (normArgs as) = normArgs as ∧
    printArgs (normArgs as) = printArgs as ∧ (WFArgs as → WFArgs (normArgs as)) ∧
    (as ≠ [] → normArgs as ≠ []) ∧ (PlainArgs as → PlainArgs (normArgs as))

theorem normFacts (e : Expr) : NormFacts e := by
  refine Expr.rec (motive_1 := NormFacts) (motive_2 := NormFactsArgs) ?_ ?_ ?_ ?_ ?_ ?_ ?_ ?_ ?_ ?_ e
  · intro n; simp [NormFacts, norm]
  · intro n; simp [NormFacts, norm]
  · intro u e ⟨h1, h2, h3, h4, h5⟩
    refine ⟨?_, ?_, ?_, ?_, ?_⟩
    · simp [norm, strip, strip_wrapP, h1]
    · simp [norm, needs_wrapP_norm, norm_wrapP, h2]
    · simp [norm, print, needs_wrapP_norm, print_wrapP, h3]
    · simpa [norm, WF, WF_wrapP] using h4
    · simpa [norm, Plain, Plain_wrapP] using h5
  · intro b l r ⟨l1, l2, l3, l4, l5⟩ ⟨r1, r2, r3, r4, r5⟩
    refine ⟨?_, ?_, ?_, ?_, ?_⟩
    · simp [norm, strip, strip_wrapP, l1, r1]
    · simp [norm, needs_wrapP_norm, norm_wrapP, l2, r2]
    · simp [norm, print, needs_wrapP_norm, print_wrapP, l3, r3]
    · simp only [norm, WF, WF_wrapP]; exact fun h => ⟨l4 h.1, r4 h.2⟩
    · simp only [norm, Plain, Plain_wrapP]; exact fun h => ⟨l5 h.1, r5 h.2⟩
  · intro f args v ⟨f1, f2, f3, f4, f5⟩ ⟨a1, a2, a3, a4, a5, a6⟩
    refine ⟨?_, ?_, ?_, ?_, ?_⟩
    · simp [norm, strip, strip_wrapP, f1, a1]
    · simp [norm, callParens_wrapP_norm, norm_wrapP, f2, a2]
    · simp [norm, print, callParens_wrapP_norm, print_wrapP, f3, a3]
    · simp only [norm, WF, WF_wrapP]; exact fun h => ⟨f4 h.1, a4 h.2.1, fun hv => a5 (h.2.2 hv)⟩
    · simp only [norm, Plain, Plain_wrapP, isOperator_wrapP_norm, callParens_wrapP_norm]
      exact fun h => ⟨f5 h.1, a6 h.2.1, h.2.2⟩
  · intro e i ⟨e1, e2, e3, e4, e5⟩ ⟨i1, i2, i3, i4, i5⟩
    refine ⟨?_, ?_, ?_, ?_, ?_⟩
    · simp [norm, strip, e1, i1]
    · simp [norm, e2, i2]
    · simp [norm, print, e3, i3]
    · simp only [norm, WF]; exact fun h => ⟨e4 h.1, i4 h.2⟩
    · simp only [norm, Plain, isOperator_norm]; exact fun h => ⟨e5 h.1, i5 h.2.1, h.2.2⟩
  · intro e n ⟨e1, e2, e3, e4, e5⟩
    refine ⟨?_, ?_, ?_, ?_, ?_⟩
    · simp [norm, strip, e1]
    · simp [norm, e2]
    · simp [norm, print, e3]
    · simpa [norm, WF] using e4
    · simp only [norm, Plain, isOperator_norm]; exact fun h => ⟨e5 h.1, h.2⟩
  · intro e ⟨e1, e2, e3, e4, e5⟩
    refine ⟨?_, ?_, ?_, ?_, ?_⟩
    · simp [norm, strip, e1]
    · simp [norm, e2]
    · simp [norm, print, e3]
    · simpa [norm, WF] using e4
    · simpa [norm, Plain] using e5
  · simp [NormFactsArgs, normArgs]
  · intro a as ⟨h1, h2, h3, h4, h5⟩ ⟨a1, a2, a3, a4, a5, a6⟩
    refine ⟨?_, ?_, ?_, ?_, ?_, ?_⟩
    · simp [normArgs, stripArgs, h1, a1]
    · simp [normArgs, h2, a2]
    · cases as with
      | nil => simp [normArgs, printArgs, h3]
      | cons b bs =>
        have : printArgs (norm b :: normArgs bs) = printArgs (b :: bs) := by simpa [normArgs] using a3
        simp only [normArgs]
        rw [printArgs_cons2, printArgs_cons2, h3, this]
    · simp only [normArgs, WFArgs]; exact fun h => ⟨h4 h.1, a4 h.2⟩
    · simp [normArgs]
    · simp only [normArgs, PlainArgs]; exact fun h => ⟨h5 h.1, a6 h.2⟩

theorem strip_norm (e : Expr) : strip (norm e) = strip e := (normFacts e).1
theorem norm_norm (e : Expr) : norm (norm e) = norm e := (normFacts e).2.1
theorem print_norm (e : Expr) : print (norm e) = print e := (normFacts e).2.2.1
theorem WF_norm (e : Expr) (h : WF e) : WF (norm e) := (normFacts e).2.2.2.1 h
theorem Plain_norm (e : Expr) (h : Plain e) : Plain (norm e) := (normFacts e).2.2.2.2 h

end ScriggoV.ExprPP
