import ScriggoV.Lemmas.LexCtxSimJs
/-! # C06 layer 2: one step of the context machine inside a style element

Core Lean only. -/
set_option linter.unusedSimpArgs false
namespace ScriggoV.LexCtx
open ScriggoV ScriggoV.Lexer ScriggoV.Gen.LexTables ScriggoV.HtmlTok

/-- the lexer's modes inside a style element -/
def CssMode (s : CSt) : Prop :=
  (s.ctx = ContextCSS ∧ s.quote = 0) ∨ (s.ctx = ContextCSSString ∧ (s.quote = 0x22 ∨ s.quote = 0x27))

theorem CssRef_mode {text : Bytes} {s : CSt} {k : CssS} (hj : CssRef text s k) : CssMode s := by
  cases k <;> simp only [CssRef] at hj
  · exact Or.inl hj
  · exact Or.inl hj
  · exact Or.inl hj
  · exact Or.inl hj
  · obtain ⟨h1, h3, h4⟩ := hj
    exact Or.inr ⟨h1, by rw [h3]; exact h4⟩
  · obtain ⟨h1, h3, h4, _⟩ := hj
    exact Or.inr ⟨h1, by rw [h3]; exact h4⟩
  · obtain ⟨h1, h3, h4⟩ := hj
    exact Or.inr ⟨h1, by rw [h3]; exact h4⟩

theorem sw_css_lt_false (U : Unicode) {text : Bytes} {s : CSt} (hmode : CssMode s)
    (he : okBool (isEndStyle (text.drop s.pos)) = false) : ctxSwitchP U text s 0x3c = (s, true) := by
  rcases hmode with ⟨hctx, hq⟩ | ⟨hctx, hq⟩
  · simp only [ctxSwitchP, hctx, caseCSSP, endStyleP, he]
    simp [ContextHTML, ContextTag, ContextQuotedAttr, ContextUnquotedAttr, ContextCSS, ContextCSSString]
  · simp only [ctxSwitchP, hctx, caseCSSP, endStyleP, he]
    rcases hq with hq | hq <;>
    simp [hq, ContextHTML, ContextTag, ContextQuotedAttr, ContextUnquotedAttr, ContextCSS, ContextCSSString]

theorem sw_css_lt_true (U : Unicode) {text : Bytes} {s : CSt} (hmode : CssMode s)
    (htc : s.tagCtx = ContextHTML) (hu : s.url = false) (hjc : s.jsComment = 0)
    (he : okBool (isEndStyle (text.drop s.pos)) = true) :
    ∃ s1, ctxSwitchP U text s 0x3c = (s1, true) ∧ s1.pos = s.pos + 6 ∧ s1.ctx = ContextHTML ∧ Clean s1 := by
  rcases hmode with ⟨hctx, hq⟩ | ⟨hctx, hq⟩
  · refine ⟨{ s with ctx := ContextHTML, pos := s.pos + 6 }, ?_, rfl, rfl, htc, hq, hu, hjc⟩
    simp only [ctxSwitchP, hctx, caseCSSP, endStyleP, he]
    simp [ContextHTML, ContextTag, ContextQuotedAttr, ContextUnquotedAttr, ContextCSS, ContextCSSString]
  · refine ⟨{ s with ctx := ContextHTML, pos := s.pos + 6, quote := 0 }, ?_, rfl, rfl, htc, rfl, hu, hjc⟩
    simp only [ctxSwitchP, hctx, caseCSSP, endStyleP, he]
    rcases hq with hq | hq <;>
    simp [hq, ContextHTML, ContextTag, ContextQuotedAttr, ContextUnquotedAttr, ContextCSS, ContextCSSString]

theorem CssRef_lt {text : Bytes} {s : CSt} {k : CssS} (hj : CssRef text s k) (p : Nat) :
    CssRef text { s with pos := p } (cssStep k 0x3c) := by
  cases k <;> simp only [CssRef] at hj
  · exact hj
  · exact hj
  · exact hj
  · exact hj
  · next q =>
    obtain ⟨h1, h3, h4⟩ := hj
    have : cssStep (.str q) 0x3c = .str q := by
      rcases h4 with rfl | rfl <;> simp [cssStep, cssStr]
    rw [this]; exact ⟨h1, h3, h4⟩
  · next q =>
    obtain ⟨h1, h3, h4, _⟩ := hj
    exact ⟨h1, h3, h4⟩
  · next q =>
    obtain ⟨h1, h3, h4⟩ := hj
    have : cssStep (.strBs q) 0x3c = .str q := by
      rcases h4 with rfl | rfl <;> simp [cssStep, cssStr]
    rw [this]; exact ⟨h1, h3, h4⟩

theorem css_lt {U : Unicode} {text : Bytes} {lo n : Nat} (H : Hole text lo n) {s : CSt} (hlt : s.pos < n)
    {k : CssS} {m : Nat} (hc : text[s.pos]? = some 0x3c)
    (hrr : rs text s.pos = .raw (.css k) m) (hm : m ≤ 1) (hm1 : m = 1 → text[s.pos]? ≠ some 0x2f)
    (htc : s.tagCtx = ContextHTML) (hu : s.url = false) (hjc : s.jsComment = 0)
    (hj : CssRef text s k) : StepOK U text n s := by
  have hmode := CssRef_mode hj
  by_cases he : okBool (isEndStyle (text.drop s.pos)) = true
  · have hE := (isEndStyle_iff _).mp he
    obtain ⟨s1, hsw, hp, hcx, hcl⟩ := sw_css_lt_true U hmode htc hu hjc he
    exact raw_lt_jump H hlt hc hrr hm hm1 hE hsw (by rw [hp]; rfl) hcx hcl
  · have hE : ¬ EndTagAt (RawK.css k).name (text.drop s.pos) := fun h => he ((isEndStyle_iff _).mpr h)
    obtain ⟨hb, hr1, hne⟩ := raw_lt_stay H hlt hc hrr hm hm1 hE
    have hsw := sw_css_lt_false U hmode (by simpa using he)
    refine finish_tail hc hsw (by decide) (Nat.le_refl _) hlt ?_
    rw [hr1]
    exact R_css (Nat.le_refl _) (fun _ => hne) htc hu hjc (CssRef_lt hj _)

theorem css_tail_free {U : Unicode} {text : Bytes} {lo n : Nat} (H : Hole text lo n) {s s1 : CSt} {c : UInt8}
    (hlt : s.pos < n) (hc : text[s.pos]? = some c) (hsw : ctxSwitchP U text s c = (s1, true))
    (hpos : s1.pos = s.pos) (htc : s1.tagCtx = ContextHTML) (hu : s1.url = false)
    (hjc : s1.jsComment = 0) {k' : CssS}
    (hr1 : rs text (s.pos + 1) = .raw (.css k') 0) (hJ : ∀ p, CssRef text { s1 with pos := p } k')
    (hcr : c = 0x0a → cssStep k' 0x0d = .bad ∨ ∀ p, CssRef text { s1 with pos := p } (cssStep k' 0x0d)) :
    StepOK U text n s := by
  apply tail_ok H hlt hc hsw hpos
  · rw [hr1]; exact R_css (Nat.zero_le _) (by simp) htc hu hjc (hJ _)
  · intro hc1 hc2 hlt2
    obtain ⟨hb, hr2⟩ := raw_rs1 H hr1 (Nat.zero_le _) (by simp) hlt2 hc2
    simp only [RawK.step, RawK.isBad] at hb hr2
    rcases hcr hc1 with h | h
    · rw [h] at hb; simp at hb
    · show R text _ (rs text (s.pos + 1 + 1))
      rw [hr2]
      exact R_css (by simp) (by simp) htc hu hjc (h _)

/-! ## code and comments -/

def cssPlain : CssS → Prop
  | .code | .slash | .blockC | .blockCStar => True
  | _ => False

theorem cssPlain_step {k : CssS} {c : UInt8} (hk : cssPlain k) (h1 : c ≠ 0x22) (h2 : c ≠ 0x27) :
    cssPlain (cssStep k c) := by
  cases k <;> simp only [cssPlain] at hk
  · by_cases h : c = 0x2f <;> simp [cssStep, cssCode, h1, h2, h, cssPlain]
  · by_cases ha : c = 0x2a
    · simp [cssStep, ha, cssPlain]
    · by_cases h : c = 0x2f <;> simp [cssStep, cssCode, h1, h2, h, ha, cssPlain]
  · by_cases ha : c = 0x2a <;> simp [cssStep, h1, h2, ha, cssPlain]
  · by_cases ha : c = 0x2a
    · simp [cssStep, ha, cssPlain]
    · by_cases h : c = 0x2f <;> simp [cssStep, h1, h2, h, ha, cssPlain]

theorem CssRef_plain {text : Bytes} {s : CSt} {k : CssS} (hk : cssPlain k) (hctx : s.ctx = ContextCSS)
    (hq : s.quote = 0) : CssRef text s k := by
  cases k <;> simp only [cssPlain] at hk <;> exact ⟨hctx, hq⟩

theorem css_code {U : Unicode} {text : Bytes} {lo n : Nat} (H : Hole text lo n) {s : CSt} (hlt : s.pos < n)
    {c : UInt8} (hc : text[s.pos]? = some c) (h3c : c ≠ 0x3c)
    (hctx : s.ctx = ContextCSS) (hq : s.quote = 0)
    (htc : s.tagCtx = ContextHTML) (hu : s.url = false) (hjc : s.jsComment = 0) {k : CssS}
    (hk : cssPlain k) (hb : cssStep k c ≠ .bad)
    (hr1 : rs text (s.pos + 1) = .raw (.css (cssStep k c)) 0) : StepOK U text n s := by
  by_cases hqq : c = 0x22 ∨ c = 0x27
  · have hsw : ctxSwitchP U text s c = ({ s with ctx := ContextCSSString, quote := c }, true) := by
      simp only [ctxSwitchP, hctx, caseCSSP, endStyleP]
      rcases hqq with rfl | rfl <;>
      simp [ContextHTML, ContextTag, ContextQuotedAttr, ContextUnquotedAttr, ContextCSS, ContextCSSString]
    have hk1 : cssStep k c = .str c := by
      cases k <;> simp only [cssPlain] at hk
      · rcases hqq with rfl | rfl <;> simp [cssStep, cssCode]
      · rcases hqq with rfl | rfl <;> simp [cssStep, cssCode]
      · exfalso; apply hb; rcases hqq with rfl | rfl <;> simp [cssStep]
      · exfalso; apply hb; rcases hqq with rfl | rfl <;> simp [cssStep]
    rw [hk1] at hr1
    refine finish_tail hc hsw (by rcases hqq with rfl | rfl <;> decide) (Nat.le_refl _) hlt ?_
    rw [hr1]
    exact R_css (Nat.zero_le _) (by simp) htc hu hjc ⟨rfl, rfl, hqq⟩
  · simp only [not_or] at hqq
    have hsw : ctxSwitchP U text s c = (s, true) := by
      simp only [ctxSwitchP, hctx, caseCSSP, endStyleP]
      simp [ContextHTML, ContextTag, ContextQuotedAttr, ContextUnquotedAttr, ContextCSS, ContextCSSString,
        h3c, hqq.1, hqq.2]
    have hp1 := cssPlain_step (c := c) hk hqq.1 hqq.2
    refine css_tail_free H hlt hc hsw rfl htc hu hjc hr1 (fun p => CssRef_plain hp1 hctx hq) ?_
    intro _; right; intro p
    exact CssRef_plain (cssPlain_step hp1 (by decide) (by decide)) hctx hq

/-! ## strings -/

theorem css_string {U : Unicode} {text : Bytes} {lo n : Nat} (H : Hole text lo n) {s : CSt} (hlt : s.pos < n)
    {c : UInt8} (hc : text[s.pos]? = some c) (h3c : c ≠ 0x3c)
    (hctx : s.ctx = ContextCSSString) (hjc : s.jsComment = 0) {q : UInt8} (hq : s.quote = q)
    (hqq : q = 0x22 ∨ q = 0x27) (htc : s.tagCtx = ContextHTML) (hu : s.url = false) {k : CssS}
    (hk : k = .str q ∨ k = .strBs q ∨ (k = .strEsc q ∧ c ≠ q ∧ c ≠ 0x5c))
    (hb : cssStep k c ≠ .bad)
    (hr1 : rs text (s.pos + 1) = .raw (.css (cssStep k c)) 0) : StepOK U text n s := by
  obtain ⟨c2, hc2⟩ := H.get (i := s.pos + 1) hlt
  have hq5c : q ≠ 0x5c := by rcases hqq with rfl | rfl <;> decide
  have hq3c : q ≠ 0x3c := by rcases hqq with rfl | rfl <;> decide
  have hq7b : q ≠ 0x7b := by rcases hqq with rfl | rfl <;> decide
  have hq0d : (0x0d : UInt8) ≠ q := by rcases hqq with rfl | rfl <;> decide
  by_cases hbs : c = 0x5c
  · subst hbs
    -- the reference is in `str` / `strBs` and goes to `strEsc`
    have hk1 : cssStep k 0x5c = .strEsc q := by
      rcases hk with rfl | rfl | ⟨_, _, h⟩
      · simp [cssStep, cssStr]
      · simp [cssStep, cssStr]
      · exact absurd rfl h
    rw [hk1] at hr1
    by_cases h1 : c2 = q
    · subst h1
      have hlt1 : s.pos + 1 < n := H.lt_of_ne hlt hc2 hq7b
      obtain ⟨hb2, hr2⟩ := raw_rs1 H hr1 (Nat.zero_le _) (by simp) hlt1 hc2
      have hsw : ctxSwitchP U text s 0x5c = ({ s with pos := s.pos + 1 }, true) := by
        simp only [ctxSwitchP, hctx, caseCSSP, hq, hc2]
        simp [ContextHTML, ContextTag, ContextQuotedAttr, ContextUnquotedAttr, ContextCSS, ContextCSSString]
      have hk2 : cssStep (.strEsc c2) c2 = .str c2 := by simp [cssStep, hq5c]
      simp only [RawK.step, hk2, hq3c, if_false] at hr2
      refine finish_tail hc hsw (by decide) (by simp) hlt1 ?_
      show R text _ (rs text (s.pos + 1 + 1))
      rw [hr2]
      exact R_css (by simp) (by simp) htc hu hjc ⟨hctx, hq, hqq⟩
    · by_cases h2 : c2 = 0x5c
      · subst h2
        have hlt1 : s.pos + 1 < n := H.lt_of_ne hlt hc2 (by decide)
        obtain ⟨hb2, hr2⟩ := raw_rs1 H hr1 (Nat.zero_le _) (by simp) hlt1 hc2
        have hsw : ctxSwitchP U text s 0x5c = ({ s with pos := s.pos + 1 }, true) := by
          simp only [ctxSwitchP, hctx, caseCSSP, hq, hc2]
          simp [ContextHTML, ContextTag, ContextQuotedAttr, ContextUnquotedAttr, ContextCSS, ContextCSSString]
        have hk2 : cssStep (.strEsc q) 0x5c = .strBs q := by simp [cssStep]
        simp only [RawK.step, hk2, (by decide : (0x5c : UInt8) ≠ 0x3c), if_false] at hr2
        refine finish_tail hc hsw (by decide) (by simp) hlt1 ?_
        show R text _ (rs text (s.pos + 1 + 1))
        rw [hr2]
        exact R_css (by simp) (by simp) htc hu hjc ⟨hctx, hq, hqq⟩
      · have hsw : ctxSwitchP U text s 0x5c = (s, true) := by
          simp only [ctxSwitchP, hctx, caseCSSP, hq, hc2]
          simp [ContextHTML, ContextTag, ContextQuotedAttr, ContextUnquotedAttr, ContextCSS, ContextCSSString,
            h1, h2]
        have hne : text[s.pos + 1]? ≠ some q := by rw [hc2]; simpa using h1
        have hne2 : text[s.pos + 1]? ≠ some 0x5c := by rw [hc2]; simpa using h2
        refine finish_tail hc hsw (by decide) (Nat.le_refl _) hlt ?_
        rw [hr1]
        exact R_css (Nat.zero_le _) (by simp) htc hu hjc ⟨hctx, hq, hqq, hne, hne2⟩
  · by_cases hcq : c = q
    · subst hcq
      have hsw : ctxSwitchP U text s c = ({ s with ctx := ContextCSS, quote := 0 }, true) := by
        simp only [ctxSwitchP, hctx, caseCSSP, hq]
        simp [ContextHTML, ContextTag, ContextQuotedAttr, ContextUnquotedAttr, ContextCSS, ContextCSSString, hbs]
      have hk1 : cssStep k c = .code := by
        rcases hk with rfl | rfl | ⟨_, hne, _⟩
        · simp [cssStep, cssStr, hbs]
        · simp [cssStep, cssStr, hbs]
        · exact absurd rfl hne
      rw [hk1] at hr1
      refine finish_tail hc hsw (by rcases hqq with rfl | rfl <;> decide) (Nat.le_refl _) hlt ?_
      rw [hr1]
      exact R_css (Nat.zero_le _) (by simp) htc hu hjc ⟨rfl, rfl⟩
    · have hsw : ctxSwitchP U text s c = (s, true) := by
        simp only [ctxSwitchP, hctx, caseCSSP, hq]
        simp [ContextHTML, ContextTag, ContextQuotedAttr, ContextUnquotedAttr, ContextCSS, ContextCSSString,
          hbs, hcq, h3c]
      have hk1 : cssStep k c = .str q := by
        rcases hk with rfl | rfl | ⟨rfl, _⟩
        · by_cases hnl : c = 10 ∨ c = 13 ∨ c = 12
          · exfalso; apply hb; rcases hnl with rfl | rfl | rfl <;> simp [cssStep, cssStr, hcq]
          · simp only [not_or] at hnl; simp [cssStep, cssStr, hbs, hcq, hnl.1, hnl.2.1, hnl.2.2]
        · by_cases hnl : c = 10 ∨ c = 13 ∨ c = 12
          · exfalso; apply hb; rcases hnl with rfl | rfl | rfl <;> simp [cssStep, cssStr, hcq]
          · simp only [not_or] at hnl; simp [cssStep, cssStr, hbs, hcq, hnl.1, hnl.2.1, hnl.2.2]
        · simp [cssStep, hbs]
      rw [hk1] at hr1
      refine css_tail_free H hlt hc hsw rfl htc hu hjc hr1 (fun p => ⟨hctx, hq, hqq⟩) ?_
      intro _; left
      simp [cssStep, cssStr, hq0d]

/-! ## one step inside a style element -/

theorem step_css {U : Unicode} {text : Bytes} {lo n : Nat} (H : Hole text lo n) {s : CSt} (hlt : s.pos < n)
    {k : CssS} {m : Nat} (hrr : rs text s.pos = .raw (.css k) m) (hm : m ≤ 1)
    (hm1 : m = 1 → text[s.pos]? ≠ some 0x2f) (htc : s.tagCtx = ContextHTML) (hu : s.url = false)
    (hjc : s.jsComment = 0) (hj : CssRef text s k) : StepOK U text n s := by
  obtain ⟨c, hc⟩ := H.get (Nat.le_of_lt hlt)
  by_cases h3c : c = 0x3c
  · subst h3c; exact css_lt H hlt hc hrr hm hm1 htc hu hjc hj
  obtain ⟨hb, hr1⟩ := raw_rs1 H hrr hm hm1 hlt hc
  simp only [h3c, if_false, RawK.step] at hb hr1
  have hb' : cssStep k c ≠ .bad := by intro h; rw [h] at hb; simp [RawK.isBad] at hb
  cases k <;> simp only [CssRef] at hj
  · exact css_code H hlt hc h3c hj.1 hj.2 htc hu hjc (k := .code) trivial hb' hr1
  · exact css_code H hlt hc h3c hj.1 hj.2 htc hu hjc (k := .slash) trivial hb' hr1
  · exact css_code H hlt hc h3c hj.1 hj.2 htc hu hjc (k := .blockC) trivial hb' hr1
  · exact css_code H hlt hc h3c hj.1 hj.2 htc hu hjc (k := .blockCStar) trivial hb' hr1
  · next q =>
    obtain ⟨hctx, hq, hqq⟩ := hj
    exact css_string H hlt hc h3c hctx hjc hq hqq htc hu (Or.inl rfl) hb' hr1
  · next q =>
    obtain ⟨hctx, hq, hqq, hn, hn2⟩ := hj
    have hcq : c ≠ q := by intro h; subst h; exact hn hc
    have hc5c : c ≠ 0x5c := by intro h; subst h; exact hn2 hc
    exact css_string H hlt hc h3c hctx hjc hq hqq htc hu (Or.inr (Or.inr ⟨rfl, hcq, hc5c⟩)) hb' hr1
  · next q =>
    obtain ⟨hctx, hq, hqq⟩ := hj
    exact css_string H hlt hc h3c hctx hjc hq hqq htc hu (Or.inr (Or.inl rfl)) hb' hr1

end ScriggoV.LexCtx
