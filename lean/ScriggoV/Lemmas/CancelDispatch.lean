import ScriggoV.Model.CancelDispatch
/-! helper lemmas for the dispatch-loop part of C11 -/
namespace ScriggoV.Cancel.Dispatch

theorem fetch_lt {prog : Prog} {s : DState} {i : DInstr} (h : fetch prog s = some i) :
    s.pc < bodyLen prog s.fn := by
  unfold fetch at h
  unfold bodyLen
  split at h
  · cases h
  · rename_i body hb
    have := List.getElem?_eq_some_iff.mp h
    exact this.1

/-- an instruction of a forward class keeps the function and moves the program counter forward -/
theorem exec_forward {s : DState} {ch : Nat} {i : DInstr} (h : i.cls.forward = true) :
    ∃ s', exec s ch i = .running s' ∧ s'.fn = s.fn ∧ s.pc + 1 ≤ s'.pc ∧ s'.stack = s.stack := by
  cases i <;> simp [DInstr.cls, Flow.forward] at h
  · exact ⟨_, rfl, rfl, Nat.le_refl _, rfl⟩
  · refine ⟨_, rfl, rfl, ?_, rfl⟩
    simp only
    omega

theorem runFlag_cons (P : Flow → Bool) (prog : Prog) (s : DState) (ch : Nat) (chs : List Nat) :
    runFlag P prog s (ch :: chs) =
      match dispatch P prog s ch with
      | .running s' => runFlag P prog s' chs
      | r => r := rfl

end ScriggoV.Cancel.Dispatch
