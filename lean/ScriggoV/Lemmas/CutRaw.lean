import ScriggoV.Model.Cut
/-! C15 helper lemmas, part 4: `endRawIndex` returns the *first* position at which an end
statement with the block's marker starts. -/
namespace ScriggoV.Cut

theorem endRawIndex_some (marker : Bytes) : ∀ (src : Bytes) (off k : Nat),
    endRawIndex marker src off = .ok (some k) →
    ∃ pre s, src = pre ++ 123 :: s ∧ k = off + pre.length ∧ matchEndRaw marker s = .ok true
      ∧ ∀ pre' s', src = pre' ++ 123 :: s' → pre'.length < pre.length →
          matchEndRaw marker s' = .ok false := by
  intro src
  induction src with
  | nil => intro off k h; simp [endRawIndex] at h
  | cons c rest ih =>
    intro off k h
    unfold endRawIndex at h
    by_cases hc : (c == 123) = true
    · have hc' : c = 123 := eq_of_beq hc
      simp only [hc, if_true] at h
      cases hm : matchEndRaw marker rest with
      | error e => simp [hm] at h
      | ok b =>
        cases b with
        | true =>
          simp only [hm, Except.ok.injEq, Option.some.injEq] at h
          refine ⟨[], rest, by simp [hc'], by simp [h], hm, ?_⟩
          intro pre' s' _ hl; simp at hl
        | false =>
          simp only [hm] at h
          obtain ⟨pre, s, e1, e2, e3, e4⟩ := ih (off + 1) k h
          refine ⟨c :: pre, s, by simp [e1], by simp [e2]; omega, e3, ?_⟩
          intro pre' s' e hl
          cases pre' with
          | nil =>
            simp only [List.nil_append, List.cons.injEq] at e
            rw [← e.2]; exact hm
          | cons d pre'' =>
            simp only [List.cons_append, List.cons.injEq] at e
            exact e4 pre'' s' e.2 (by simpa using hl)
    · have hc' : (c == 123) = false := by simpa using hc
      simp only [hc', Bool.false_eq_true, if_false] at h
      obtain ⟨pre, s, e1, e2, e3, e4⟩ := ih (off + 1) k h
      refine ⟨c :: pre, s, by simp [e1], by simp [e2]; omega, e3, ?_⟩
      intro pre' s' e hl
      cases pre' with
      | nil =>
        simp only [List.nil_append, List.cons.injEq] at e
        rw [e.1] at hc'; simp at hc'
      | cons d pre'' =>
        simp only [List.cons_append, List.cons.injEq] at e
        exact e4 pre'' s' e.2 (by simpa using hl)

theorem endRawIndex_none (marker : Bytes) : ∀ (src : Bytes) (off : Nat),
    endRawIndex marker src off = .ok none →
    ∀ pre' s', src = pre' ++ 123 :: s' → matchEndRaw marker s' = .ok false := by
  intro src
  induction src with
  | nil => intro off _ pre' s' e; simp at e
  | cons c rest ih =>
    intro off h pre' s' e
    unfold endRawIndex at h
    by_cases hc : (c == 123) = true
    · simp only [hc, if_true] at h
      cases hm : matchEndRaw marker rest with
      | error e => simp [hm] at h
      | ok b =>
        cases b with
        | true => simp [hm] at h
        | false =>
          simp only [hm] at h
          cases pre' with
          | nil =>
            simp only [List.nil_append, List.cons.injEq] at e
            rw [← e.2]; exact hm
          | cons d pre'' =>
            simp only [List.cons_append, List.cons.injEq] at e
            exact ih (off + 1) h pre'' s' e.2
    · have hc' : (c == 123) = false := by simpa using hc
      simp only [hc', Bool.false_eq_true, if_false] at h
      cases pre' with
      | nil =>
        simp only [List.nil_append, List.cons.injEq] at e
        rw [e.1] at hc'; simp at hc'
      | cons d pre'' =>
        simp only [List.cons_append, List.cons.injEq] at e
        exact ih (off + 1) h pre'' s' e.2

end ScriggoV.Cut
