import ScriggoV.Lemmas.LinkDest
/-! Helper lemmas for C29: `appendReplacement`'s decision over an abstract net/url. -/
namespace ScriggoV.LinkDest
open ScriggoV.Gen.LinkDestTables

/-- what is assumed of net/url and of the path rewriting, for the base scheme `b` (validated
against the real packages by the harness, `spec_validation`): a parsed URL that is given the
base scheme and relocated (base host, joined path), printed and parsed again, has scheme `b` -/
structure UrlLaws (L : UrlLib) (b : Bytes) : Prop where
  relocated_reads_back : ∀ u : Url, ∃ w,
    L.parse (L.str (L.relocate { u with scheme := b })) = some w ∧ w.scheme = b

theorem urlEscape_slash_cases (rest : Bytes) :
    urlEscape (92 :: rest) = 92 :: 92 :: urlEscape rest ∨
    urlEscape (92 :: rest) = 92 :: urlEscape rest := by
  cases rest with
  | nil => left; simp [urlEscape]
  | cons d r =>
    by_cases he : isMarkdownEscapable d = true
    · left; simp [urlEscape, he]
    · have he' : isMarkdownEscapable d = false := Bool.eq_false_iff.2 he
      right; simp [urlEscape, he']

theorem noNbsp_slash (U : Bytes) : noNbsp (92 :: U) = noNbsp U := by
  have e : ((92 : UInt8) == 194) = false := by decide
  simp [noNbsp, e]

/-- `markdownURLEscape` only inserts backslashes: it creates no U+00A0 and hides none -/
theorem noNbsp_of_urlEscape (s : Bytes) : noNbsp (urlEscape s) = true → noNbsp s = true := by
  induction s with
  | nil => intro _; rfl
  | cons c rest ih =>
    intro h
    by_cases h92 : (c == 92) = true
    · have hc : c = 92 := by simpa using h92
      subst hc
      have hU : noNbsp (urlEscape rest) = true := by
        rcases urlEscape_slash_cases rest with e | e
        · rw [e, noNbsp_slash, noNbsp_slash] at h; exact h
        · rw [e, noNbsp_slash] at h; exact h
      rw [noNbsp_slash]
      exact ih hU
    · have h92' : (c == 92) = false := Bool.eq_false_iff.2 h92
      have e1 : urlEscape (c :: rest) = c :: urlEscape rest := by simp [urlEscape, h92']
      rw [e1] at h
      cases rest with
      | nil => simp [noNbsp]
      | cons d T =>
        obtain ⟨T', hT⟩ := urlEscape_head d T
        rw [hT] at h
        simp only [noNbsp, Bool.and_eq_true] at h ⊢
        refine ⟨h.1, ?_⟩
        have := ih (by rw [hT]; simp only [noNbsp, Bool.and_eq_true]; exact h.2)
        simpa only [noNbsp, Bool.and_eq_true] using this

theorem appendDecision_some {L : UrlLib} {b dest t : Bytes} (h : appendDecision L b dest = some t) :
    ∃ u, L.parse (mdUnescape dest) = some u ∧ u.scheme = [] ∧
      t = urlEscape (L.str (L.relocate { u with scheme := b })) := by
  unfold appendDecision at h
  split at h
  · cases h
  · rename_i u hu
    split at h
    · cases h
    · rename_i hc
      simp only [Bool.or_eq_true, Bool.not_eq_true', Bool.and_eq_true, not_or] at hc
      refine ⟨u, hu, ?_, (Option.some.inj h).symm⟩
      have := hc.1
      simpa using this

end ScriggoV.LinkDest
