import ScriggoV.Lemmas.LexCtxRefineLoops
/-! # The full lexer model refines the context projection — part 2: the cases of `switch l.ctx`

For every `case` of the main loop (CSS, JS, JSON and their strings; attribute values; the `<` of
HTML): the full model returns `.ok`, and the projection of what it returns is what the pure case of
`Model/LexCtx.lean` computes. Also: which tokens the case pushes (`TokInv`). Core Lean only. -/
namespace ScriggoV.LexCtx
open ScriggoV ScriggoV.Lexer ScriggoV.Gen.LexTables

/-! ## the tokens of a delimiter-free prefix -/

/-- `emittedURL` as the token list (most recent first) tells it: the last URL token is a start -/
def urlOf : List Tok → Bool
  | [] => false
  | t :: ts => if t.typ = tokenStartURL then true else if t.typ = tokenEndURL then false else urlOf ts

/-- only Text / StartURL / EndURL tokens were emitted, and `url` says whether a URL is open -/
def TokInv (toks : List Tok) (url : Bool) : Prop :=
  (∀ t ∈ toks, t.typ = tokenText ∨ t.typ = tokenStartURL ∨ t.typ = tokenEndURL) ∧ urlOf toks = url

theorem TokInv.text {toks : List Tok} {url : Bool} {t : Tok} (h : TokInv toks url) (ht : t.typ = tokenText) :
    TokInv (t :: toks) url := by
  refine ⟨?_, ?_⟩
  · intro x hx
    rcases List.mem_cons.mp hx with rfl | hx
    · exact Or.inl ht
    · exact h.1 x hx
  · unfold urlOf
    rw [ht]
    simp only [tokenText, tokenStartURL, tokenEndURL]
    exact h.2

theorem TokInv.startURL {toks : List Tok} {url : Bool} {t : Tok} (h : TokInv toks url) (ht : t.typ = tokenStartURL) :
    TokInv (t :: toks) true := by
  refine ⟨?_, ?_⟩
  · intro x hx
    rcases List.mem_cons.mp hx with rfl | hx
    · exact Or.inr (Or.inl ht)
    · exact h.1 x hx
  · unfold urlOf
    rw [ht]
    simp

theorem TokInv.endURL {toks : List Tok} {url : Bool} {t : Tok} (h : TokInv toks url) (ht : t.typ = tokenEndURL) :
    TokInv (t :: toks) false := by
  refine ⟨?_, ?_⟩
  · intro x hx
    rcases List.mem_cons.mp hx with rfl | hx
    · exact Or.inr (Or.inr ht)
    · exact h.1 x hx
  · unfold urlOf
    rw [ht]
    simp [tokenEndURL, tokenStartURL]

/-- what a case returns, against what the pure case returns -/
def CaseRef (st : St) (lp : Loop) (r : CSt × Bool) : CaseOut → Prop
  | .next st' lp' => r = (proj st' lp', false) ∧ (TokInv st.toks lp.emittedURL → TokInv st'.toks lp'.emittedURL) ∧
      st'.lbase = st.lbase
  | .fall st' lp' => r = (proj st' lp', true) ∧ (TokInv st.toks lp.emittedURL → TokInv st'.toks lp'.emittedURL) ∧
      st'.lbase = st.lbase

/-! ## `isEndScript` / `isEndStyle` at the current position -/

theorem endScriptAt_val {E : Env} {st : St} {lp : Loop} {c : UInt8} (hlt : lp.p < srcLen E st) :
    endScriptAt E FHtml st lp c = .ok (endScriptP E.text (proj st lp) c) := by
  unfold endScriptAt endScriptP
  by_cases hc : c = 0x3c
  · rw [srcFrom_ok (by omega)]
    obtain ⟨b, hb⟩ := isEndScript_ok (E.text.drop (st.base + lp.p))
    simp [FHtml, hc, proj, hb, okBool]
  · simp [hc]

theorem endStyleAt_val {E : Env} {st : St} {lp : Loop} {c : UInt8} (hlt : lp.p < srcLen E st) :
    endStyleAt E FHtml st lp c = .ok (endStyleP E.text (proj st lp) c) := by
  unfold endStyleAt endStyleP
  by_cases hc : c = 0x3c
  · rw [srcFrom_ok (by omega)]
    obtain ⟨b, hb⟩ := isEndStyle_ok (E.text.drop (st.base + lp.p))
    simp [FHtml, hc, proj, hb, okBool]
  · simp [hc]

theorem peek_abs1 (E : Env) (st : St) (lp : Loop) : E.text[(proj st lp).pos + 1]? = peek E st (lp.p + 1) := by
  unfold peek proj; rw [Nat.add_assoc]

theorem peek_abs2 (E : Env) (st : St) (lp : Loop) : E.text[(proj st lp).pos + 2]? = peek E st (lp.p + 2) := by
  unfold peek proj; rw [Nat.add_assoc]

theorem peek2_bound {E : Env} {st : St} {p : Nat} {a : UInt8} (h : peek E st (p + 2) = some a) :
    p + 2 < srcLen E st := by
  unfold peek at h; unfold srcLen
  have := (List.getElem?_eq_some_iff.mp h).1
  omega

/-- the bound `p+2 < len(l.src)` of the U+2028 / U+2029 test is implied by the access at `p+2` -/
theorem lineEnd_bound (E : Env) (st : St) (lp : Loop) (c : UInt8) :
    (c = 0xe2 ∧ lp.p + 2 < srcLen E st ∧ peek E st (lp.p + 1) = some 0x80 ∧
      (peek E st (lp.p + 2) = some 0xa8 ∨ peek E st (lp.p + 2) = some 0xa9)) ↔
    (c = 0xe2 ∧ peek E st (lp.p + 1) = some 0x80 ∧
      (peek E st (lp.p + 2) = some 0xa8 ∨ peek E st (lp.p + 2) = some 0xa9)) := by
  constructor
  · rintro ⟨h1, _, h3, h4⟩; exact ⟨h1, h3, h4⟩
  · rintro ⟨h1, h3, h4⟩
    exact ⟨h1, by rcases h4 with h | h <;> exact peek2_bound h, h3, h4⟩

/-- close a goal `(s', b) = (proj st' lp', b)` where both sides are explicit -/
macro "proj_eq" : tactic =>
  `(tactic| (simp [proj, FHtml, addCol, newline, Nat.add_assoc]))

/-- split the next `if` of the goal and reduce its twin on the other side -/
macro "isplit" : tactic =>
  `(tactic| (split <;> rename_i hsplit <;> first | simp only [if_pos hsplit] | simp only [if_neg hsplit] | skip))

theorem caseJS_ref {E : Env} {st : St} {lp : Loop} {c : UInt8}
    (hlt : lp.p < srcLen E st) :
    ∃ o, caseJS E FHtml st lp c = .ok o ∧ CaseRef st lp (caseJSP E.text (proj st lp) c) o := by
  unfold caseJS caseJSP
  rw [endScriptAt_val hlt]
  have hlen : (proj st lp).pos + 1 < E.text.length ↔ lp.p + 1 < srcLen E st := by
    unfold proj srcLen; simp only []; omega
  have hjs : (proj st lp).jsComment = lp.jsComment := rfl
  simp only [bind_ok, peek_abs1, peek_abs2, hlen, hjs, peekIs, beq_iff_eq, lineEnd_bound]
  cases hes : endScriptP E.text (proj st lp) c with
  | true =>
    simp only [if_true]
    exact ⟨_, rfl, by proj_eq, id, rfl⟩
  | false =>
    simp only [Bool.false_eq_true, if_false]
    isplit
    · isplit
      · exact ⟨_, rfl, by proj_eq, id, rfl⟩
      · exact ⟨_, rfl, by proj_eq, id, rfl⟩
    · isplit
      · isplit
        · exact ⟨_, rfl, by proj_eq, id, rfl⟩
        · exact ⟨_, rfl, by proj_eq, id, rfl⟩
      · isplit
        · generalize peek E st (lp.p + 1) = d
          split
          · exact ⟨_, rfl, by proj_eq, id, rfl⟩
          · exact ⟨_, rfl, by proj_eq, id, rfl⟩
          · rename_i _ h47 h42
            split
            · exact (h47 rfl).elim
            · exact (h42 rfl).elim
            · exact ⟨_, rfl, by proj_eq, id, rfl⟩
        · isplit
          · exact ⟨_, rfl, by proj_eq, id, rfl⟩
          · exact ⟨_, rfl, by proj_eq, id, rfl⟩

theorem caseJSString_ref {E : Env} {st : St} {lp : Loop} {c : UInt8} (back : Nat) (q : UInt8)
    (hlt : lp.p < srcLen E st) :
    ∃ o, caseJSString E FHtml st lp c back q = .ok o ∧
      CaseRef st lp (caseJSStringP E.text (proj st lp) c back q) o := by
  unfold caseJSString caseJSStringP
  rw [endScriptAt_val hlt]
  simp only [bind_ok, peek_abs1]
  isplit
  · isplit
    · exact ⟨_, rfl, by proj_eq, id, rfl⟩
    · exact ⟨_, rfl, by proj_eq, id, rfl⟩
  · isplit
    · exact ⟨_, rfl, by proj_eq, id, rfl⟩
    · isplit
      · cases hes : endScriptP E.text (proj st lp) c with
        | true => exact ⟨_, rfl, by proj_eq, id, rfl⟩
        | false => exact ⟨_, rfl, by proj_eq, id, rfl⟩
      · exact ⟨_, rfl, by proj_eq, id, rfl⟩

theorem caseJSON_ref {E : Env} {st : St} {lp : Loop} {c : UInt8}
    (hlt : lp.p < srcLen E st) :
    ∃ o, caseJSON E FHtml st lp c = .ok o ∧ CaseRef st lp (caseJSONP E.text (proj st lp) c) o := by
  unfold caseJSON caseJSONP
  rw [endScriptAt_val hlt]
  simp only [bind_ok]
  cases hes : endScriptP E.text (proj st lp) c with
  | true => exact ⟨_, rfl, by proj_eq, id, rfl⟩
  | false =>
    simp only [Bool.false_eq_true, if_false]
    isplit
    · exact ⟨_, rfl, by proj_eq, id, rfl⟩
    · exact ⟨_, rfl, by proj_eq, id, rfl⟩

theorem caseCSS_ref {E : Env} {st : St} {lp : Loop} {c : UInt8}
    (hlt : lp.p < srcLen E st) :
    ∃ o, caseCSS E FHtml st lp c = .ok o ∧ CaseRef st lp (caseCSSP E.text (proj st lp) c) o := by
  unfold caseCSS caseCSSP
  rw [endStyleAt_val hlt]
  have hctx : (proj st lp).ctx = st.ctx := rfl
  have hq : (proj st lp).quote = lp.quote := rfl
  simp only [bind_ok, peek_abs1, hctx, hq]
  isplit
  · cases hes : endStyleP E.text (proj st lp) c with
    | true => exact ⟨_, rfl, by proj_eq, id, rfl⟩
    | false =>
      simp only [Bool.false_eq_true, if_false]
      isplit
      · exact ⟨_, rfl, by proj_eq, id, rfl⟩
      · exact ⟨_, rfl, by proj_eq, id, rfl⟩
  · isplit
    · isplit
      · exact ⟨_, rfl, by proj_eq, id, rfl⟩
      · exact ⟨_, rfl, by proj_eq, id, rfl⟩
    · isplit
      · exact ⟨_, rfl, by proj_eq, id, rfl⟩
      · isplit
        · cases hes : endStyleP E.text (proj st lp) c with
          | true => exact ⟨_, rfl, by proj_eq, id, rfl⟩
          | false => exact ⟨_, rfl, by proj_eq, id, rfl⟩
        · exact ⟨_, rfl, by proj_eq, id, rfl⟩

/-! ## emit, with the token it pushes -/

theorem emitAt_val {E : Env} {st : St} {line col typ n : Nat} (h : n ≤ srcLen E st) (hb : st.base ≤ E.text.length) :
    ∃ st' t, emitAt E st line col typ n = .ok st' ∧ Ext E st st' ∧ st'.base = st.base + n ∧ CF st st' ∧
      st'.line = st.line ∧ st'.col = st.col ∧ st'.toks = t :: st.toks ∧ t.typ = typ ∧
      t.ctx = (if typ = tokenText then ContextText else st.ctx) ∧ (0 < n → t.start = (st.base : Int)) := by
  obtain ⟨st', h1, hext, hbase, hl, hc, hctx, _, htn, hta, hti, htc, t, htoks, htyp, _, _, htl, hspan⟩ :=
    emitAt_ok (E := E) (st := st) (line := line) (col := col) (typ := typ) (n := n) h hb
  have hlb : st'.lbase = st.lbase := by
    have h1' := h1
    unfold emitAt at h1'
    have hn : ¬ srcLen E st < n := by omega
    simp only [hn, if_false] at h1'
    injection h1' with h1'
    rw [← h1']
  refine ⟨st', t, h1, hext, hbase, ⟨hctx, htc, htn, hta, hti, hlb⟩, hl, hc, htoks, htyp, ?_, ?_⟩
  · unfold emitAt at h1
    have hn : ¬ srcLen E st < n := by omega
    simp only [hn, if_false] at h1
    injection h1 with h1
    subst h1
    injection htoks with ht _
    subst ht
    rfl
  · intro hpos
    rw [← htl] at hpos
    exact (hspan.1 hpos).1

theorem flushText_val {E : Env} {st : St} {lp : Loop} (hI : LoopInv E st lp) :
    ∃ st', flushText E st lp = .ok st' ∧ Ext E st st' ∧ st'.base = st.base + lp.p ∧ CF st st' ∧
      st'.line = st.line ∧ st'.col = st.col ∧
      (∀ url, TokInv st.toks url → TokInv st'.toks url) := by
  unfold flushText
  split
  · obtain ⟨st', t, h1, h2, h3, h4, h5, h6, h7, h8, _⟩ :=
      emitAt_val (E := E) (st := st) (line := lp.lin) (col := lp.tcol) (typ := tokenText) (n := lp.p) hI.p_le hI.base_le
    exact ⟨st', h1, h2, h3, h4, h5, h6, fun url hu => by rw [h7]; exact hu.text h8⟩
  · rename_i h
    have : lp.p = 0 := by omega
    exact ⟨st, rfl, Ext.refl hI.base_le, by rw [this]; rfl, CF.refl st, rfl, rfl, fun _ hu => hu⟩

theorem emit_val {E : Env} {st : St} {typ n : Nat} (h : n ≤ srcLen E st) (hb : st.base ≤ E.text.length) :
    ∃ st' t, emit E st typ n = .ok st' ∧ Ext E st st' ∧ st'.base = st.base + n ∧ CF st st' ∧
      st'.line = st.line ∧ st'.col = st.col ∧ st'.toks = t :: st.toks ∧ t.typ = typ ∧
      t.ctx = (if typ = tokenText then ContextText else st.ctx) ∧ (0 < n → t.start = (st.base : Int)) := by
  unfold emit
  exact emitAt_val h hb

theorem eq_proj {s : CSt} {st : St} {lp : Loop} (h1 : s.pos = st.base + lp.p) (h2 : s.ctx = st.ctx)
    (h3 : s.tagCtx = st.tagCtx) (h4 : s.tagName = st.tagName) (h5 : s.tagAttr = st.tagAttr)
    (h6 : s.tagIndex = st.tagIndex) (h7 : s.quote = lp.quote) (h8 : s.url = lp.emittedURL)
    (h9 : s.jsComment = lp.jsComment) : s = proj st lp := by
  cases s
  simp only at h1 h2 h3 h4 h5 h6 h7 h8 h9
  subst h1 h2 h3 h4 h5 h6 h7 h8 h9
  rfl

/-! ## attribute values -/

theorem typeAttr_val {E : Env} {st : St} {lp : Loop} (hI : LoopInv E st lp) :
    typeAttr E FHtml st lp.p = .ok { st with tagCtx := typeAttrP E.U E.text (proj st lp) } := by
  unfold typeAttr typeAttrP sliceP
  have hsl : sliceOf E.text st.tagIndex (st.base + lp.p) = .ok ((E.text.take (st.base + lp.p)).drop st.tagIndex) :=
    sliceOf_ok hI.tag_le hI.pos_le
  have hcond : (proj st lp).tagIndex ≤ (proj st lp).pos ∧ (proj st lp).pos ≤ E.text.length := ⟨hI.tag_le, hI.pos_le⟩
  have ha : (proj st lp).tagAttr = st.tagAttr := rfl
  have hn : (proj st lp).tagName = st.tagName := rfl
  have hp : (proj st lp).pos = st.base + lp.p := rfl
  have hti : (proj st lp).tagIndex = st.tagIndex := rfl
  have htc : (proj st lp).tagCtx = st.tagCtx := rfl
  simp only [hsl, bind_ok, if_pos hcond, ha, hn]
  simp only [hp, hti, htc, FHtml]
  isplit
  · isplit
    · isplit
      · rfl
      · isplit
        · isplit
          · rfl
          · isplit
            · rfl
            · rfl
        · rfl
    · isplit
      · isplit
        · rfl
        · rfl
      · rfl
  · rfl

theorem caseAttr_ref {E : Env} {st : St} {lp : Loop} {c : UInt8} (hI : LoopInv E st lp) :
    ∃ o, caseAttr E FHtml st lp c = .ok o ∧ CaseRef st lp (caseAttrP E.U E.text (proj st lp) c) o := by
  unfold caseAttr caseAttrP
  have hctx : (proj st lp).ctx = st.ctx := rfl
  have hq : (proj st lp).quote = lp.quote := rfl
  simp only [hctx, hq]
  isplit
  · have hu : (proj st lp).url = lp.emittedURL := rfl
    simp only [hu]
    by_cases hurl : lp.emittedURL = true
    · simp only [if_pos hurl]
      have hI' : LoopInv E st { lp with quote := 0 } := ⟨hI.base_le, hI.p_le, hI.tag_le⟩
      obtain ⟨st1, h1, e1, b1, cf1, _, _, tk1⟩ := flushText_val hI'
      simp only [h1, bind_ok]
      obtain ⟨st2, t, h2, e2, b2, cf2, _, _, tk2, ty2, _⟩ := emit_val (E := E) (st := st1) (typ := tokenEndURL) (n := 0)
        (Nat.zero_le _) e1.le_len
      simp only [h2, bind_ok, pure_eq_ok]
      have cf := cf1.trans cf2
      have htok : TokInv st.toks lp.emittedURL → TokInv st2.toks false := by
        intro hinv
        rw [tk2]
        exact (tk1 _ hinv).endURL ty2
      have hpos : st.base + lp.p = st2.base + 0 := by rw [b2, b1]; rfl
      isplit
      · refine ⟨_, rfl, ?_, htok, cf.lbase⟩
        congr 1
        apply eq_proj <;> simp only [resetTok, proj, hpos, cf.tagCtx, cf.tagName]
      · refine ⟨_, rfl, ?_, htok, cf.lbase⟩
        congr 1
        apply eq_proj <;> simp only [resetTok, proj, hpos, cf.tagCtx, cf.tagName]
    · simp only [if_neg hurl]
      rw [typeAttr_val hI]
      simp only [bind_ok, pure_eq_ok]
      have hf : lp.emittedURL = false := by simpa using hurl
      isplit
      · exact ⟨_, rfl, by simp [proj, typeAttrP], id, rfl⟩
      · exact ⟨_, rfl, by simp [proj, typeAttrP], id, rfl⟩
  · exact ⟨_, rfl, rfl, id, rfl⟩

/-! ## the `<` of HTML -/

theorem cdata_val {E : Env} {st : St} {lp : Loop} (hctx : st.ctx = ContextHTML) :
    (if st.ctx = ContextHTML ∧ lp.p + 8 < srcLen E st then do
        let d ← srcAt E st (lp.p + 1)
        if d = 0x21 then pure (hasPrefix (E.text.drop (st.base + lp.p)) cdataStart) else pure false
      else pure false : Except Fault Bool) = .ok (cdataAt E.text (proj st lp)) := by
  unfold cdataAt
  have hp : (proj st lp).pos = st.base + lp.p := rfl
  simp only [hp]
  by_cases h8 : lp.p + 8 < srcLen E st
  · have h8' : st.base + lp.p + 8 < E.text.length := by unfold srcLen at h8; omega
    obtain ⟨d, hd, _⟩ := srcAt_ok_of_lt (E := E) (st := st) (i := lp.p + 1) (by omega)
    have hd' := getElem?_of_srcAt hd
    rw [← Nat.add_assoc] at hd'
    simp only [hctx, h8, and_self, if_true, hd, bind_ok, hd', h8', decide_true, Bool.true_and]
    by_cases h21 : d = 0x21
    · simp [h21]
    · simp [h21]
  · have h8' : ¬ st.base + lp.p + 8 < E.text.length := by unfold srcLen at h8; omega
    simp [h8, h8']

theorem caseLT_ref {E : Env} {st : St} {lp : Loop} (hI : LoopInv E st lp) (hlt : lp.p < srcLen E st)
    (hctx : st.ctx = ContextHTML) :
    ∃ o, caseLT E st lp = .ok o ∧ CaseRef st lp (caseLTP E.U E.text (proj st lp)) o := by
  unfold caseLT caseLTP
  simp only []
  rw [cdata_val hctx]
  simp only [bind_ok]
  have hb := hI.base_le
  cases hcd : cdataAt E.text (proj st lp) with
  | true =>
    have h8 : lp.p + 8 < srcLen E st := by
      unfold cdataAt at hcd
      simp only [Bool.and_eq_true, decide_eq_true_eq] at hcd
      have := hcd.1.1
      unfold proj at this; unfold srcLen; simp only [] at this; omega
    simp only [if_true]
    have hs := SameButPos.addCol st 6
    have hbs : (addCol st 6).base = st.base := rfl
    rw [srcFrom_ok (by rw [hs.srcLen]; omega)]
    simp only [bind_ok]
    have hp : (addCol st 6).base + (lp.p + 6) = (proj st lp).pos + 6 := by
      show st.base + (lp.p + 6) = st.base + lp.p + 6; omega
    have hpp : (proj st lp).pos = st.base + lp.p := rfl
    rw [hp]
    unfold cdataEndAt
    have key : ∀ t T, lp.p + 6 < t → t ≤ srcLen E st → st.base + t = T →
        ∃ o, (do
            let st ← walk E (t - (lp.p + 6)) (lp.p + 6) (addCol st 6)
            pure (CaseOut.next st { lp with p := if lp.p + 6 < t then t else lp.p + 6 }) : Except Fault CaseOut) = .ok o ∧
          CaseRef st lp ({ (proj st lp) with pos := if (proj st lp).pos + 6 < T then T else (proj st lp).pos + 6 }, false) o := by
      intro t T ht2 ht3 ht4
      obtain ⟨st1, hw, hs1⟩ := walkCode_ok (E := E) (t - (lp.p + 6)) (lp.p + 6) (addCol st 6) (by rw [hs.srcLen]; omega)
      simp only [walk, hw, bind_ok, pure_eq_ok]
      have hs2 := hs.trans hs1
      have cf := CF.of_same hs2
      refine ⟨_, rfl, ?_, by rw [hs2.toks]; exact id, cf.lbase⟩
      rw [← ht4]
      congr 1
      apply eq_proj
      · show (if (proj st lp).pos + 6 < st.base + t then st.base + t else (proj st lp).pos + 6) =
          st1.base + (if lp.p + 6 < t then t else lp.p + 6)
        rw [hs2.base, if_pos ht2, if_pos (by rw [hpp]; omega)]
      · exact cf.ctx.symm
      · exact cf.tagCtx.symm
      · exact cf.tagName.symm
      · exact cf.tagAttr.symm
      · exact cf.tagIndex.symm
      · rfl
      · rfl
      · rfl
    cases hi : indexSub (E.text.drop ((proj st lp).pos + 6)) cdataEnd with
    | none =>
      simp only []
      exact key _ _ (by rw [hs.srcLen]; omega) (by rw [hs.srcLen]; exact Nat.le_refl _)
        (by rw [hs.srcLen]; unfold srcLen; omega)
    | some i =>
      simp only []
      have h3 := indexSub_bound _ i hi
      simp only [List.length_drop, cdataEnd, List.length_cons, List.length_nil] at h3
      rw [hpp] at h3
      exact key _ _ (by omega) (by unfold srcLen; omega) (by rw [hpp]; omega)
  | false =>
    simp only [Bool.false_eq_true, if_false]
    have hs := SameButPos.addCol st 1
    have hbs : (addCol st 1).base = st.base := rfl
    obtain ⟨st1, name, q, h1, h2, h3, h4, h5⟩ := scanTag_val (E := E) (st := addCol st 1) (p := lp.p + 1)
      (by rw [hs.srcLen]; omega) hb
    rw [hbs, ← Nat.add_assoc] at h5
    have hp : (proj st lp).pos = st.base + lp.p := rfl
    simp only [h1, bind_ok, pure_eq_ok, hp, h5]
    have hs2 := hs.trans h2
    have cf := CF.of_same hs2
    refine ⟨_, rfl, ?_, ?_, ?_⟩
    rotate_left 2
    · have hlb := cf.lbase
      repeat' split
      all_goals exact hlb
    · congr 1
      have hb2 := hs2.base
      isplit
      · isplit
        · apply eq_proj <;> simp only [proj, hb2, cf.tagIndex, cf.tagAttr]
        · isplit
          · apply eq_proj <;> simp only [proj, hb2, cf.tagIndex, cf.tagAttr]
          · apply eq_proj <;> simp only [proj, hb2, cf.tagIndex, cf.tagAttr, cf.tagCtx]
      · apply eq_proj <;> simp only [proj, hb2, cf.tagIndex, cf.tagAttr, cf.tagCtx, cf.ctx]
    · have ht := hs2.toks
      split
      · split
        · exact fun h => by rw [show _ = st.toks from ht]; exact h
        · split
          · exact fun h => by rw [show _ = st.toks from ht]; exact h
          · exact fun h => by rw [show _ = st.toks from ht]; exact h
      · exact fun h => by rw [show _ = st.toks from ht]; exact h

/-! ## inside a tag -/

/-- the URL branch of `caseTag`: text token, context switch, StartURL token -/
theorem caseTag_url {E : Env} (st2 : St) (lp2 : Loop) (actx : Nat) (hb : st2.base ≤ E.text.length)
    (hp : lp2.p ≤ srcLen E st2) :
    ∃ st4, (do
        let st ← emitAt E st2 lp2.lin lp2.tcol tokenText lp2.p
        let st := { st with ctx := actx }
        let st ← emit E st tokenStartURL 0
        pure (CaseOut.next st { resetTok st lp2 with emittedURL := true }) : Except Fault CaseOut) =
        .ok (.next st4 { resetTok st4 lp2 with emittedURL := true }) ∧
      st4.base = st2.base + lp2.p ∧ st4.ctx = actx ∧ st4.tagCtx = st2.tagCtx ∧ st4.tagName = st2.tagName ∧
      st4.tagAttr = st2.tagAttr ∧ st4.tagIndex = st2.tagIndex ∧
      (∀ url, TokInv st2.toks url → TokInv st4.toks true) ∧ st4.lbase = st2.lbase := by
  obtain ⟨st3, t3, h3, e3, b3, cf3, _, _, tk3, ty3, _⟩ := emitAt_val (E := E) (st := st2) (line := lp2.lin) (col := lp2.tcol)
    (typ := tokenText) (n := lp2.p) hp hb
  simp only [h3, bind_ok]
  obtain ⟨st4, t4, h4, e4, b4, cf4, _, _, tk4, ty4, _⟩ := emit_val (E := E) (st := { st3 with ctx := actx })
    (typ := tokenStartURL) (n := 0) (Nat.zero_le _) e3.le_len
  simp only [h4, bind_ok, pure_eq_ok]
  refine ⟨st4, rfl, ?_, cf4.ctx, ?_, ?_, ?_, ?_, ?_, by rw [cf4.lbase]; exact cf3.lbase⟩
  · rw [b4]; show st3.base + 0 = _; rw [b3]; rfl
  · rw [cf4.tagCtx]; exact cf3.tagCtx
  · rw [cf4.tagName]; exact cf3.tagName
  · rw [cf4.tagAttr]; exact cf3.tagAttr
  · rw [cf4.tagIndex]; exact cf3.tagIndex
  · intro url hu
    rw [tk4]
    show TokInv (t4 :: st3.toks) true
    rw [tk3]
    exact (hu.text ty3).startURL ty4

theorem caseTag_ref {E : Env} {st : St} {lp : Loop} {c : UInt8} (hI : LoopInv E st lp)
    (hlt : lp.p < srcLen E st) (hc : peek E st lp.p = some c) :
    ∃ o, caseTag E FHtml st lp c = .ok o ∧ CaseRef st lp (caseTagP E.U E.text (proj st lp) c) o := by
  unfold caseTag caseTagP
  have hb := hI.base_le
  have hpp : (proj st lp).pos = st.base + lp.p := rfl
  have e1 : (c = 0x3e ∨ (c = 0x2f ∧ peekIs E st lp.p 0x3e = true)) ↔ c = 0x3e := by
    constructor
    · intro h
      rcases h with h | h
      · exact h
      · have := h.2; unfold peekIs at this; rw [hc] at this; simpa using this
    · exact Or.inl
  have e2 : (c = 0x3e ∨ (c = 0x2f ∧ E.text[(proj st lp).pos]? = some 0x3e)) ↔ c = 0x3e := by
    constructor
    · intro h
      rcases h with h | h
      · exact h
      · have := h.2; rw [hpp] at this; unfold peek at hc; rw [hc] at this; simpa using this
    · exact Or.inl
  simp only [e1, e2]
  isplit
  · rename_i h3e
    have hne : ¬ c = 0x2f := by rw [h3e]; decide
    simp only [if_neg hne]
    exact ⟨_, rfl, by proj_eq, id, rfl⟩
  · isplit
    · obtain ⟨st1, attr, next, h1, hs1, hn1, hn2, h5⟩ := scanAttribute_val (E := E) (st := st) (p := lp.p) (by omega) hb
      have hp1 : (proj st lp).tagName = st.tagName := rfl
      have hp2 : (proj st lp).quote = lp.quote := rfl
      simp only [h1, bind_ok, hpp, h5, hp1, hp2]
      -- make `st1` explicit
      unfold SameButPos at hs1
      generalize st1.line = L at hs1
      generalize st1.col = C at hs1
      subst hs1
      by_cases hgt : next > lp.p
      · have hgt' : st.base + next > st.base + lp.p := by omega
        simp only [if_pos hgt, if_pos hgt']
        have hd : (if attr ≠ [] then peek E { ({ st with line := L, col := C } : St) with tagAttr := attr } next else none) =
            (if attr ≠ [] then E.text[st.base + next]? else none) := rfl
        rw [hd]
        generalize hdv : (if attr ≠ [] then E.text[st.base + next]? else none) = d
        cases d with
        | none => exact ⟨_, rfl, by proj_eq, id, rfl⟩
        | some q =>
          have hqlt : next < srcLen E st := by
            split at hdv
            · have := lt_of_getElem?_eq_some hdv; unfold srcLen; omega
            · cases hdv
          simp only []
          by_cases hq : q = 0x22 ∨ q = 0x27
          · simp only [if_pos hq]
            have hqne : ¬ q = 0 := by rcases hq with h | h <;> rw [h] <;> decide
            by_cases hurl : containsURL st.tagName attr = true
            · obtain ⟨st4, h4, b4, c4, tc4, tn4, ta4, ti4, tk4, lb4⟩ := caseTag_url (E := E)
                (addCol { ({ st with line := L, col := C } : St) with tagAttr := attr } 1)
                ({ ({ lp with p := next } : Loop) with quote := q, p := next + 1 })
                (if q = 0 then ContextUnquotedAttr else ContextQuotedAttr) hb (by show next + 1 ≤ srcLen E st; omega)
              simp only [addCol, hurl, ↓reduceIte]
              refine ⟨_, h4, ?_, ?_, lb4⟩
              · congr 1
                apply eq_proj
                · rw [b4]; simp only [addCol, resetTok]; omega
                · rw [c4] <;> rfl
                · rw [tc4] <;> rfl
                · rw [tn4] <;> rfl
                · rw [ta4] <;> rfl
                · rw [ti4] <;> rfl
                · rfl
                · rfl
                · rfl
              · exact tk4 _
            · have hf : containsURL st.tagName attr = false := by simpa using hurl
              simp only [addCol, hf, Bool.false_eq_true, ↓reduceIte]
              exact ⟨_, rfl, by proj_eq, id, rfl⟩
          · simp only [if_neg hq]
            by_cases hurl : containsURL st.tagName attr = true
            · obtain ⟨st4, h4, b4, c4, tc4, tn4, ta4, ti4, tk4, lb4⟩ := caseTag_url (E := E)
                ({ ({ st with line := L, col := C } : St) with tagAttr := attr })
                ({ lp with p := next } : Loop)
                (if lp.quote = 0 then ContextUnquotedAttr else ContextQuotedAttr) hb (by show next ≤ srcLen E st; omega)
              simp only [hurl, ↓reduceIte]
              refine ⟨_, h4, ?_, ?_, lb4⟩
              · congr 1
                apply eq_proj
                · rw [b4]; simp only [resetTok]; omega
                · rw [c4] <;> rfl
                · rw [tc4] <;> rfl
                · rw [tn4] <;> rfl
                · rw [ta4] <;> rfl
                · rw [ti4] <;> rfl
                · rfl
                · rfl
                · rfl
              · exact tk4 _
            · have hf : containsURL st.tagName attr = false := by simpa using hurl
              simp only [hf, Bool.false_eq_true, ↓reduceIte]
              exact ⟨_, rfl, by proj_eq, id, rfl⟩
      · have hgt' : ¬ st.base + next > st.base + lp.p := by omega
        simp only [if_neg hgt, if_neg hgt']
        have : next = lp.p := by omega
        subst this
        exact ⟨_, rfl, by proj_eq, id, rfl⟩
    · exact ⟨_, rfl, rfl, id, rfl⟩

end ScriggoV.LexCtx
