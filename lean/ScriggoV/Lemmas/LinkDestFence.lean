import ScriggoV.Model.LinkDestFence
import ScriggoV.Spec.CommonMarkFence
/-! Lemmas for the fence detection of C29: the regenerated conditions read as arithmetic,
`indentWidth` / `countRun` as decompositions of the line, and from them the agreement of
`isFenceStart` / `isFenceClose` with CommonMark's opening / closing fence. -/
namespace ScriggoV.LinkDest
open ScriggoV.Gen.LinkDestFence ScriggoV.CommonMarkFence ScriggoV.CommonMarkLex

/-! ### the regenerated conditions (re-proved on every check against the source) -/

theorem closeRejectIndent_false (width pos len : Nat) :
    closeRejectIndent width pos len = false ↔ width ≤ 3 ∧ pos < len := by
  simp [closeRejectIndent]

/-- the run of a closing fence is compared with the length of the *opening* fence -/
theorem closeRejectRun_false (run fenceLen : Nat) :
    closeRejectRun run fenceLen = false ↔ fenceLen ≤ run := by
  simp [closeRejectRun]

theorem startRejectIndent_false (width pos len : Nat) :
    startRejectIndent width pos len = false ↔ width ≤ 3 ∧ pos < len := by
  simp [startRejectIndent]

theorem startRejectChar_false (c : UInt8) : startRejectChar c = false ↔ isFenceChar c = true := by
  simp [startRejectChar, isFenceChar]
  by_cases h : c = 96 <;> simp [h]

theorem startRejectRun_false (run : Nat) : startRejectRun run = false ↔ 3 ≤ run := by
  simp [startRejectRun]

theorem startRejectInfo_false (c : UInt8) (info : Bytes) :
    startRejectInfo c info = false ↔ (c = 96 → info.contains 96 = false) := by
  simp [startRejectInfo]

theorem indentedCode_true (width : Nat) (blank : Bool) :
    indentedCode width blank = true ↔ 4 ≤ width ∧ blank = false := by
  simp [indentedCode]

/-! ### bytes -/

theorem isSpace_eq_isTrail (c : UInt8) : isSpace c = isTrail c := by
  simp [isSpace, isTrail, isSpTab, isEol, Bool.or_assoc]

theorem isBlank_eq (bs : Bytes) : isBlank bs = bs.all isTrail := by
  unfold isBlank
  congr 1
  funext c
  exact isSpace_eq_isTrail c

theorem fenceChar_not_trail (c : UInt8) (h : isFenceChar c = true) : isTrail c = false := by
  simp [isFenceChar] at h
  rcases h with h | h <;> subst h <;> decide

theorem fenceChar_ne_space (c : UInt8) (h : isFenceChar c = true) : c ≠ 32 ∧ c ≠ 9 := by
  simp [isFenceChar] at h
  rcases h with h | h <;> subst h <;> decide

/-! ### indentWidth -/

theorem indentWidthFrom_mono (l : Bytes) : ∀ w p, w ≤ (indentWidthFrom w p l).1 := by
  induction l with
  | nil => intro w p; simp [indentWidthFrom]
  | cons c rest ih =>
    intro w p
    unfold indentWidthFrom
    split
    · exact Nat.le_trans (Nat.le_succ w) (ih (w + 1) (p + 1))
    · split
      · exact Nat.le_trans (Nat.le_add_right w _) (ih _ _)
      · exact Nat.le_refl w

theorem indentWidthFrom_replicate (k : Nat) : ∀ (w p : Nat) (rest : Bytes),
    indentWidthFrom w p (List.replicate k 32 ++ rest) = indentWidthFrom (w + k) (p + k) rest := by
  induction k with
  | zero => intro w p rest; simp
  | succ k ih =>
    intro w p rest
    rw [List.replicate_succ, List.cons_append]
    have e : ∀ l, indentWidthFrom w p (32 :: l) = indentWidthFrom (w + 1) (p + 1) l := by
      intro l; simp [indentWidthFrom]
    rw [e, ih, show w + 1 + k = w + (k + 1) by omega, show p + 1 + k = p + (k + 1) by omega]

theorem indentWidthFrom_stop (w p : Nat) (rest : Bytes)
    (h32 : rest.head? ≠ some 32) (h9 : rest.head? ≠ some 9) :
    indentWidthFrom w p rest = (w, p) := by
  cases rest with
  | nil => rfl
  | cons c r =>
    have a : c ≠ 32 := fun e => h32 (by simp [e])
    have b : c ≠ 9 := fun e => h9 (by simp [e])
    simp [indentWidthFrom, a, b]

/-- a width of at most three columns is made of at most three spaces and no tab -/
theorem indentWidthFrom_le3 (line : Bytes) : ∀ w p, w ≤ 3 → (indentWidthFrom w p line).1 ≤ 3 →
    ∃ k rest, line = List.replicate k 32 ++ rest ∧ indentWidthFrom w p line = (w + k, p + k) ∧
      rest.head? ≠ some 32 ∧ rest.head? ≠ some 9 := by
  induction line with
  | nil => intro w p _ _; exact ⟨0, [], by simp, by simp [indentWidthFrom], by simp, by simp⟩
  | cons c rest ih =>
    intro w p hw h
    by_cases h32 : c = 32
    · subst h32
      have e : indentWidthFrom w p (32 :: rest) = indentWidthFrom (w + 1) (p + 1) rest := by
        simp [indentWidthFrom]
      rw [e] at h
      have hw1 : w + 1 ≤ 3 := Nat.le_trans (indentWidthFrom_mono rest (w + 1) (p + 1)) h
      obtain ⟨k, r, hl, hv, a, b⟩ := ih (w + 1) (p + 1) hw1 h
      refine ⟨k + 1, r, by rw [List.replicate_succ, List.cons_append, ← hl], ?_, a, b⟩
      rw [e, hv]
      congr 1 <;> omega
    · by_cases h9 : c = 9
      · subst h9
        have e : indentWidthFrom w p (9 :: rest) = indentWidthFrom (w + (4 - w % 4)) (p + 1) rest := by
          simp [indentWidthFrom]
        rw [e] at h
        have := Nat.le_trans (indentWidthFrom_mono rest (w + (4 - w % 4)) (p + 1)) h
        omega
      · refine ⟨0, c :: rest, by simp, ?_, by simpa using h32, by simpa using h9⟩
        simp [indentWidthFrom, h32, h9]

theorem indentWidth_le3 (line : Bytes) (h : (indentWidth line).1 ≤ 3) :
    ∃ k rest, line = List.replicate k 32 ++ rest ∧ indentWidth line = (k, k) ∧ k ≤ 3 ∧
      rest.head? ≠ some 32 ∧ rest.head? ≠ some 9 := by
  obtain ⟨k, rest, hl, hv, a, b⟩ := indentWidthFrom_le3 line 0 0 (by omega) h
  unfold indentWidth at h ⊢
  rw [hv] at h
  simp only [Nat.zero_add] at hv h
  exact ⟨k, rest, hl, hv, h, a, b⟩

theorem indentWidth_spaces (k : Nat) (rest : Bytes)
    (h32 : rest.head? ≠ some 32) (h9 : rest.head? ≠ some 9) :
    indentWidth (List.replicate k 32 ++ rest) = (k, k) := by
  unfold indentWidth
  rw [indentWidthFrom_replicate, indentWidthFrom_stop _ _ _ h32 h9]
  simp

/-- goldmark's `util.IndentWidth` measures CommonMark's columns of indentation (§2.2) -/
theorem indentWidthFrom_eq_indentCols (line : Bytes) : ∀ w p,
    (indentWidthFrom w p line).1 = indentCols w line := by
  induction line with
  | nil => intro w p; rfl
  | cons c rest ih =>
    intro w p
    unfold indentWidthFrom indentCols
    split
    · exact ih _ _
    · split
      · rw [ih]
        congr 1
        have := Nat.mod_lt w (by omega : 4 > 0)
        omega
      · rfl

theorem drop_replicate_append (k : Nat) (c : UInt8) (rest : Bytes) :
    (List.replicate k c ++ rest).drop k = rest := by
  induction k with
  | zero => simp
  | succ k ih => simp [List.replicate_succ, ih]

/-! ### countRun -/

theorem countRun_split (c : UInt8) (l : Bytes) :
    l = List.replicate (countRun c l) c ++ l.drop (countRun c l) ∧
      (l.drop (countRun c l)).head? ≠ some c := by
  induction l with
  | nil => simp [countRun]
  | cons x rest ih =>
    by_cases h : x = c
    · subst h
      have e : countRun x (x :: rest) = countRun x rest + 1 := by simp [countRun]
      rw [e]
      refine ⟨?_, by simpa using ih.2⟩
      rw [List.replicate_succ, List.cons_append, List.drop_succ_cons, ← ih.1]
    · have e : countRun c (x :: rest) = 0 := by simp [countRun, h]
      rw [e]
      exact ⟨by simp, by simpa using h⟩

theorem countRun_replicate (c : UInt8) (m : Nat) (t : Bytes) (h : t.head? ≠ some c) :
    countRun c (List.replicate m c ++ t) = m := by
  induction m with
  | zero =>
    cases t with
    | nil => rfl
    | cons x r =>
      have : x ≠ c := fun e => h (by simp [e])
      simp [countRun, this]
  | succ m ih => simp [List.replicate_succ, countRun, ih]

theorem head_of_all_trail (ch : UInt8) (hc : isFenceChar ch = true) (t : Bytes)
    (h : t.all isTrail = true) : t.head? ≠ some ch := by
  cases t with
  | nil => simp
  | cons x r =>
    intro e
    simp at e
    subst e
    simp [fenceChar_not_trail x hc] at h

/-! ### isFenceClose against CommonMark -/

theorem isFenceClose_sound (line : Bytes) (ch : UInt8) (n : Nat)
    (h : isFenceClose line ch n = true) : ClosingFence ch n line := by
  unfold isFenceClose at h
  generalize hiw : indentWidth line = iw at h
  obtain ⟨width, pos⟩ := iw
  simp only at h
  split at h
  · cases h
  · rename_i hind
    split at h
    · cases h
    · rename_i hrun
      have hind := (closeRejectIndent_false _ _ _).1 (by simpa using hind)
      have hrun := (closeRejectRun_false _ _).1 (by simpa using hrun)
      obtain ⟨k, rest, hl, hv, hk, _, _⟩ := indentWidth_le3 line (by rw [hiw]; exact hind.1)
      rw [hv] at hiw
      have hw : width = k := (Prod.mk.inj hiw).1.symm
      have hp : pos = k := (Prod.mk.inj hiw).2.symm
      rw [hp] at h hrun
      have hd : line.drop k = rest := by rw [hl]; exact drop_replicate_append k 32 rest
      rw [hd] at hrun
      have hsp := countRun_split ch rest
      refine ⟨k, countRun ch rest, rest.drop (countRun ch rest), ?_, hk, hrun, ?_⟩
      · rw [← hsp.1]; exact hl
      · rw [← List.drop_drop, hd] at h
        rw [← isBlank_eq]; exact h

theorem isFenceClose_complete (line : Bytes) (ch : UInt8) (n : Nat)
    (hc : isFenceChar ch = true) (hn : 1 ≤ n) (h : ClosingFence ch n line) :
    isFenceClose line ch n = true := by
  obtain ⟨k, m, trail, hl, hk, hm, ht⟩ := h
  have hm1 : 1 ≤ m := Nat.le_trans hn hm
  have hhead : (List.replicate m ch ++ trail).head? = some ch := by
    cases m with
    | zero => omega
    | succ m => simp [List.replicate_succ]
  have hne := fenceChar_ne_space ch hc
  have hiw : indentWidth line = (k, k) := by
    rw [hl]
    apply indentWidth_spaces
    · rw [hhead]; intro e; exact hne.1 (by simpa using e)
    · rw [hhead]; intro e; exact hne.2 (by simpa using e)
  have hd : line.drop k = List.replicate m ch ++ trail := by
    rw [hl]; exact drop_replicate_append k 32 _
  have hrun : countRun ch (line.drop k) = m := by
    rw [hd]; exact countRun_replicate ch m trail (head_of_all_trail ch hc trail ht)
  have hlen : k < line.length := by
    rw [hl]; simp; omega
  unfold isFenceClose
  rw [hiw]
  simp only
  rw [(closeRejectIndent_false k k line.length).2 ⟨hk, hlen⟩, hrun,
    (closeRejectRun_false m n).2 hm]
  simp only [Bool.false_eq_true, if_false]
  rw [← List.drop_drop, hd, drop_replicate_append, isBlank_eq]
  exact ht

/-! ### isFenceStart against CommonMark -/

theorem isFenceStart_sound (line : Bytes) (ch : UInt8) (n : Nat)
    (h : isFenceStart line = some (ch, n)) : OpeningFence ch n line := by
  unfold isFenceStart at h
  generalize hiw : indentWidth line = iw at h
  obtain ⟨width, pos⟩ := iw
  simp only at h
  split at h
  · cases h
  · rename_i hind
    have hind := (startRejectIndent_false _ _ _).1 (by simpa using hind)
    obtain ⟨k, rest, hl, hv, hk, h32, h9⟩ := indentWidth_le3 line (by rw [hiw]; exact hind.1)
    rw [hv] at hiw
    have hp : pos = k := (Prod.mk.inj hiw).2.symm
    rw [hp] at h
    have hd : line.drop k = rest := by rw [hl]; exact drop_replicate_append k 32 rest
    rw [hd] at h
    split at h
    · cases h
    · rename_i c r
      split at h
      · cases h
      · rename_i hchar
        split at h
        · cases h
        · rename_i hrun
          split at h
          · cases h
          · rename_i hinfo
            have hchar := (startRejectChar_false _).1 (by simpa using hchar)
            have hrun := (startRejectRun_false _).1 (by simpa using hrun)
            have hinfo := (startRejectInfo_false _ _).1 (by simpa using hinfo)
            simp only [Option.some.injEq, Prod.mk.injEq] at h
            obtain ⟨hc, hnn⟩ := h
            subst hc
            have hsp := countRun_split c (c :: r)
            rw [hnn] at hsp hrun hinfo
            refine ⟨k, (c :: r).drop n, ?_, hk, hrun, hchar, hsp.2, hinfo⟩
            rw [← hsp.1]; exact hl

theorem isFenceStart_complete (line : Bytes) (ch : UInt8) (n : Nat)
    (h : OpeningFence ch n line) : isFenceStart line = some (ch, n) := by
  obtain ⟨k, info, hl, hk, hn, hc, hhd, hinfo⟩ := h
  obtain ⟨n', rfl⟩ : ∃ n', n = n' + 1 := ⟨n - 1, by omega⟩
  have hne := fenceChar_ne_space ch hc
  have hrest : List.replicate (n' + 1) ch ++ info = ch :: (List.replicate n' ch ++ info) := by
    simp [List.replicate_succ]
  have hiw : indentWidth line = (k, k) := by
    rw [hl]
    apply indentWidth_spaces
    · rw [hrest]; intro e; exact hne.1 (by simpa using e)
    · rw [hrest]; intro e; exact hne.2 (by simpa using e)
  have hd : line.drop k = ch :: (List.replicate n' ch ++ info) := by
    rw [hl, drop_replicate_append, hrest]
  have hrun : countRun ch (ch :: (List.replicate n' ch ++ info)) = n' + 1 := by
    rw [← hrest]; exact countRun_replicate ch (n' + 1) info hhd
  have hlen : k < line.length := by
    rw [hl]; simp; omega
  unfold isFenceStart
  rw [hiw]
  simp only
  rw [(startRejectIndent_false k k line.length).2 ⟨hk, hlen⟩]
  simp only [Bool.false_eq_true, if_false]
  rw [hd]
  simp only
  rw [(startRejectChar_false ch).2 hc, hrun, (startRejectRun_false (n' + 1)).2 hn]
  simp only [Bool.false_eq_true, if_false]
  have hdi : (ch :: (List.replicate n' ch ++ info)).drop (n' + 1) = info := by
    rw [← hrest]; exact drop_replicate_append (n' + 1) ch info
  rw [hdi, (startRejectInfo_false ch info).2 hinfo]
  simp

/-! ### the extent of a fenced block -/

theorem fenceScan_some_cons (ch : UInt8) (n : Nat) (l : Bytes) (ls : List Bytes) :
    fenceScan (some (ch, n)) (l :: ls) =
      true :: fenceScan (if isFenceClose l ch n then none else some (ch, n)) ls := by
  simp [fenceScan]

theorem fenceScan_content (ch : UInt8) (n : Nat) (content tail : List Bytes)
    (h : ∀ l ∈ content, isFenceClose l ch n = false) :
    fenceScan (some (ch, n)) (content ++ tail) =
      List.replicate content.length true ++ fenceScan (some (ch, n)) tail := by
  induction content with
  | nil => simp
  | cons l ls ih =>
    have hl : isFenceClose l ch n = false := h l (by simp)
    rw [List.cons_append, fenceScan_some_cons, hl]
    simp only [Bool.false_eq_true, if_false, List.length_cons, List.replicate_succ, List.cons_append]
    rw [ih (fun x hx => h x (by simp [hx]))]

end ScriggoV.LinkDest
