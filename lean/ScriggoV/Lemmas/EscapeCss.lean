import ScriggoV.Lemmas.EscapeLoop
/-! CSS strings: one step of the CSS escape decoder undoes what `cssStringEscape` writes for a
byte — including the separating space after a hexadecimal escape, which is where the
regenerated predicate `prefixWithSpace` matters (`prefixFact_all`). -/
namespace ScriggoV.Escape
open ScriggoV ScriggoV.Decode ScriggoV.Gen.EscapeTables

/-- a hex digit as the decoder sees it, and not one of the newline bytes -/
def hexOk (h : UInt8) : Bool := (hexDig? h).isSome && !(h == 10 || h == 12 || h == 13)

/-- everything the proof needs to know about the table entry of one byte -/
def cssFact (c : UInt8) : Bool :=
  match cssEscOf c with
  | [] => c != 0x5C && c != 0 && c != 12 && c != 13
  | e :: es =>
    if c == 0x5C then (e :: es) == [0x5C, 0x5C]
    else decide (c.toNat < 128) &&
      (match e :: es with
       | [b, h1] => b == 0x5C && hexOk h1 && (hexDig? h1).getD 999 == c.toNat
       | [b, h1, h2] => b == 0x5C && hexOk h1 && hexOk h2 &&
           (hexDig? h1).getD 999 * 16 + (hexDig? h2).getD 999 == c.toNat
       | _ => false)

theorem cssFact_all : ∀ c, cssFact c = true := allBytes_spec (by decide +kernel)

/-- **the table fact behind DESIGN §8 row 2**: a byte that does not get a separating space is
neither a hex digit nor CSS whitespace. False at `c d e f C D E F` for the predicate that
covered only `a–b`/`A–B`. -/
def prefixFact (d : UInt8) : Bool := prefixWithSpace d || ((hexDig? d).isNone && !cssIsWs d)

theorem prefixFact_all : ∀ d, prefixFact d = true := allBytes_spec (by decide +kernel)

/-- the input starts with a byte that ends a hex escape without being consumed by it -/
def startsPlain : Bytes → Prop
  | [] => True
  | y :: _ => hexDig? y = none ∧ cssIsWs y = false

theorem takeNum_stop (max acc n : Nat) (t : Bytes) (h : startsPlain t) :
    takeNum 16 hexDig? max acc n t = (acc, n, t) := by
  cases max with
  | zero => simp [takeNum]
  | succ m =>
    cases t with
    | nil => simp [takeNum]
    | cons y t => simp [startsPlain] at h; simp [takeNum, h.1]

theorem cssDropWs_plain (t : Bytes) (h : startsPlain t) : cssDropWs t = t := by
  cases t with
  | nil => rfl
  | cons y t =>
    simp [startsPlain] at h
    have hy := h.2
    have h13 : (y == 13) = false := by
      cases hc : y == 13 with
      | false => rfl
      | true => simp at hc; subst hc; simp [cssIsWs] at hy
    simp [cssDropWs, h13, hy]

theorem cssDropWs_space (t : Bytes) : cssDropWs (0x20 :: t) = t := by
  simp [cssDropWs, cssIsWs]

theorem cssStep_plain (c : UInt8) (X : Bytes) (h1 : c ≠ 0x5C) (h2 : c ≠ 13) :
    cssStep (c :: X) = some (cssPre c, X) := by
  simp [cssStep, h1, h2]

theorem cssStep_bs_bs (X : Bytes) : cssStep (0x5C :: 0x5C :: X) = some ([0x5C], X) := by
  have : hexDig? 0x5C = none := by decide
  simp [cssStep, cssEscaped, this, cssPre]

theorem cssStep_hex (d : UInt8) (X : Bytes) (hd : hexOk d = true) :
    cssStep (0x5C :: d :: X) =
      some (Utf8.encodeRune (cssCodePoint (takeNum 16 hexDig? 6 0 0 (d :: X)).1),
            cssDropWs (takeNum 16 hexDig? 6 0 0 (d :: X)).2.2) := by
  unfold hexOk at hd
  simp only [Bool.and_eq_true, Bool.not_eq_true', Option.isSome_iff_exists, Bool.or_eq_false_iff,
    beq_eq_false_iff_ne] at hd
  obtain ⟨⟨v, hv⟩, ⟨h10, h12⟩, h13⟩ := hd
  simp [cssStep, cssEscaped, h10, h12, h13, hv]

theorem piece_css_nil (c : UInt8) (rest : Bytes) (h : cssEscOf c = []) :
    piece cssBody c rest = [c] := by
  simp [piece, cssBody, h]

theorem piece_css_cons (c : UInt8) (rest : Bytes) (e : UInt8) (es : Bytes)
    (h : cssEscOf c = e :: es) :
    piece cssBody c rest = (e :: es) ++ (if cssNeedsSpace c rest then [0x20] else []) := by
  unfold piece cssBody
  rw [h]
  by_cases hs : cssNeedsSpace c rest = true <;> simp [hs]

/-- CSS cannot represent U+0000: the escape `\0` (like a raw NUL) is U+FFFD -/
def cssValue (c : UInt8) : Bytes := if c == 0 then [0xEF, 0xBF, 0xBD] else [c]

/-- the shapes a non-empty table entry can have (from `cssFact`) -/
theorem cssFact_shape (c e : UInt8) (es : Bytes) (h : cssEscOf c = e :: es) :
    (c = 0x5C ∧ e = 0x5C ∧ es = [0x5C]) ∨
    (c ≠ 0x5C ∧ e = 0x5C ∧ c.toNat < 128 ∧
      ((∃ h1 v1, es = [h1] ∧ hexOk h1 = true ∧ hexDig? h1 = some v1 ∧ v1 = c.toNat) ∨
       (∃ h1 h2 v1 v2, es = [h1, h2] ∧ hexOk h1 = true ∧ hexOk h2 = true ∧ hexDig? h1 = some v1 ∧
          hexDig? h2 = some v2 ∧ v1 * 16 + v2 = c.toNat))) := by
  have hf := cssFact_all c
  unfold cssFact at hf
  rw [h] at hf
  by_cases hc : c = 0x5C
  · left
    simp [hc] at hf
    exact ⟨hc, hf.1, hf.2⟩
  · right
    have hc' : (c == 0x5C) = false := by simpa using hc
    simp only [hc', Bool.false_eq_true, if_false, Bool.and_eq_true, decide_eq_true_eq] at hf
    obtain ⟨hlt, hm⟩ := hf
    match es, hm with
    | [h1], hm =>
      simp only [Bool.and_eq_true, beq_iff_eq] at hm
      obtain ⟨⟨hb, hh1⟩, hv⟩ := hm
      have hh1' := hh1
      unfold hexOk at hh1'
      simp only [Bool.and_eq_true, Option.isSome_iff_exists] at hh1'
      obtain ⟨⟨v1, hv1⟩, _⟩ := hh1'
      refine ⟨hc, hb, hlt, Or.inl ⟨h1, v1, rfl, hh1, hv1, ?_⟩⟩
      simpa [hv1] using hv
    | [h1, h2], hm =>
      simp only [Bool.and_eq_true, beq_iff_eq] at hm
      obtain ⟨⟨⟨hb, hh1⟩, hh2⟩, hv⟩ := hm
      have hh1' := hh1
      have hh2' := hh2
      unfold hexOk at hh1' hh2'
      simp only [Bool.and_eq_true, Option.isSome_iff_exists] at hh1' hh2'
      obtain ⟨⟨v1, hv1⟩, _⟩ := hh1'
      obtain ⟨⟨v2, hv2⟩, _⟩ := hh2'
      refine ⟨hc, hb, hlt, Or.inr ⟨h1, h2, v1, v2, rfl, hh1, hh2, hv1, hv2, ?_⟩⟩
      simpa [hv1, hv2] using hv

theorem startsPlain_bs (t : Bytes) : startsPlain (0x5C :: t) := by
  have h1 : hexDig? 0x5C = none := by decide
  simp [startsPlain, h1, cssIsWs]

/-- the escaped form of a string whose first byte gets no separating space in front of it
starts with a byte that ends a hexadecimal escape -/
theorem simple_css_head (d : UInt8) (rest : Bytes) (h : prefixWithSpace d = false) :
    startsPlain (simple cssBody (d :: rest)) := by
  simp only [simple]
  cases he : cssEscOf d with
  | nil =>
    rw [piece_css_nil d rest he]
    have hp := prefixFact_all d
    unfold prefixFact at hp
    simp only [h, Bool.false_or, Bool.and_eq_true, Option.isNone_iff_eq_none, Bool.not_eq_true'] at hp
    simpa [startsPlain] using hp
  | cons e es =>
    rw [piece_css_cons d rest e es he]
    rcases cssFact_shape d e es he with ⟨_, he', _⟩ | ⟨_, he', _⟩ <;>
      (subst he'; exact startsPlain_bs _)

/-- after the escape of `c ≠ '\\'`: either a separating space follows, or what follows ends
the escape by itself -/
theorem css_sep_cases (c : UInt8) (rest : Bytes) (hc : c ≠ 0x5C) :
    (cssNeedsSpace c rest = true) ∨
    (cssNeedsSpace c rest = false ∧ startsPlain (simple cssBody rest)) := by
  have hc' : (c != 0x5C) = true := by simpa using hc
  cases rest with
  | nil => left; simp [cssNeedsSpace, hc']
  | cons d rest =>
    by_cases hp : prefixWithSpace d = true
    · left; simp [cssNeedsSpace, hc', hp]
    · right
      have hp' : prefixWithSpace d = false := by simpa using hp
      exact ⟨by simp [cssNeedsSpace, hp'], simple_css_head d rest hp'⟩

theorem cssCodePoint_ascii (c : UInt8) (h : c.toNat < 128) :
    Utf8.encodeRune (cssCodePoint c.toNat) = cssValue c := by
  unfold cssCodePoint cssValue
  by_cases h0 : c = 0
  · subst h0; decide
  · have hn : c.toNat ≠ 0 := by
      intro e; apply h0; exact UInt8.toNat_inj.mp (by simpa using e)
    have : ¬ (c.toNat = 0 ∨ c.toNat > 0x10FFFF ∨ Utf8.isSurrogate c.toNat = true) := by
      simp [Utf8.isSurrogate]; omega
    rw [if_neg this, encodeRune_ascii c h]
    simp [h0]

/-- one decoder step undoes what the loop wrote for `c`, whatever the rest of the input is -/
theorem cssStep_piece (c : UInt8) (rest : Bytes) :
    cssStep (piece cssBody c rest ++ simple cssBody rest) = some (cssValue c, simple cssBody rest) := by
  cases he : cssEscOf c with
  | nil =>
    rw [piece_css_nil c rest he]
    have hf := cssFact_all c
    unfold cssFact at hf
    rw [he] at hf
    simp only [Bool.and_eq_true, bne_iff_ne, ne_eq] at hf
    obtain ⟨⟨⟨h5c, h0⟩, h12⟩, h13⟩ := hf
    rw [List.singleton_append, cssStep_plain c _ h5c h13]
    simp [cssPre, cssValue, h0, h12, h13]
  | cons e es =>
    rw [piece_css_cons c rest e es he]
    rcases cssFact_shape c e es he with ⟨hc, he', hes⟩ | ⟨hc, he', hlt, hshape⟩
    · subst hc he' hes
      simp only [cssNeedsSpace, bne_self_eq_false, Bool.false_and, Bool.false_eq_true, if_false,
        List.append_nil, List.cons_append, List.nil_append]
      rw [cssStep_bs_bs]
      simp [cssValue]
    · subst he'
      have hex20 : hexDig? 32 = none := by decide
      rcases hshape with ⟨h1, v1, hes, hh1, hv1, hval⟩ | ⟨h1, h2, v1, v2, hes, hh1, hh2, hv1, hv2, hval⟩
      · subst hes
        rcases css_sep_cases c rest hc with hs | ⟨hs, hpl⟩
        · simp only [hs, if_true, List.cons_append, List.nil_append]
          rw [cssStep_hex h1 _ hh1]
          simp [takeNum, hv1, hex20, cssDropWs_space, hval, cssCodePoint_ascii c hlt]
        · simp only [hs, Bool.false_eq_true, if_false, List.append_nil, List.cons_append, List.nil_append]
          rw [cssStep_hex h1 _ hh1]
          simp [takeNum, hv1, takeNum_stop _ _ _ _ hpl, cssDropWs_plain _ hpl, hval, cssCodePoint_ascii c hlt]
      · subst hes
        rcases css_sep_cases c rest hc with hs | ⟨hs, hpl⟩
        · simp only [hs, if_true, List.cons_append, List.nil_append]
          rw [cssStep_hex h1 _ hh1]
          simp [takeNum, hv1, hv2, hex20, cssDropWs_space, hval, cssCodePoint_ascii c hlt]
        · simp only [hs, Bool.false_eq_true, if_false, List.append_nil, List.cons_append, List.nil_append]
          rw [cssStep_hex h1 _ hh1]
          simp [takeNum, hv1, hv2, takeNum_stop _ _ _ _ hpl, cssDropWs_plain _ hpl, hval, cssCodePoint_ascii c hlt]

theorem piece_css_ne_nil (c : UInt8) (rest : Bytes) : piece cssBody c rest ≠ [] := by
  cases he : cssEscOf c with
  | nil => rw [piece_css_nil c rest he]; simp
  | cons e es => rw [piece_css_cons c rest e es he]; simp

/-- decoding the output of the CSS escaper gives every byte back (NUL as U+FFFD) -/
theorem css_decode_out (s : Bytes) :
    cssDecodeO (cssStringEscapeOut s) = some (s.flatMap cssValue) := by
  unfold cssStringEscapeOut cssStringEscapeChunks cssDecodeO
  rw [escLoop_flatten, List.nil_append]
  exact decodeAll_simple cssStep cssBody cssValue piece_css_ne_nil cssStep_piece s

theorem flatMap_cssValue_of_no_nul (s : Bytes) (h : ∀ c ∈ s, c ≠ 0) : s.flatMap cssValue = s := by
  induction s with
  | nil => rfl
  | cons c rest ih =>
    have hc : (c == 0) = false := by simpa using h c (List.mem_cons_self)
    simp only [List.flatMap_cons, cssValue, hc, Bool.false_eq_true, if_false]
    rw [ih (fun x hx => h x (List.mem_cons_of_mem _ hx))]
    rfl

end ScriggoV.Escape
