import ScriggoV.Lemmas.LexCtxSimEnd
/-! # C06 layer 2: one step of the context machine inside a script element

Core Lean only. -/
set_option linter.unusedSimpArgs false
namespace ScriggoV.LexCtx
open ScriggoV ScriggoV.Lexer ScriggoV.Gen.LexTables ScriggoV.HtmlTok

/-! ## generalities on script / style content -/

theorem rawStep_low (k : RawK) {m : Nat} (c : UInt8) (hm : m ≤ 1) (hm1 : m = 1 → c ≠ 0x2f) :
    rstep (.raw k m) c =
      if (k.step c).isBad = true then .bad else .raw (k.step c) (if c = 0x3c then 1 else 0) := by
  have : m = 0 ∨ m = 1 := by omega
  rcases this with rfl | rfl
  · simp [rstep, HtmlTok.rawStep]
  · have := hm1 rfl
    simp [rstep, HtmlTok.rawStep, this]

/-- the reference state one byte after a state inside raw content -/
theorem raw_rs1 {text : Bytes} {lo n : Nat} (H : Hole text lo n) {pos : Nat} {k : RawK} {m : Nat}
    (hrr : rs text pos = .raw k m) (hm : m ≤ 1) (hm1 : m = 1 → text[pos]? ≠ some 0x2f)
    (hlt : pos < n) {c : UInt8} (hc : text[pos]? = some c) :
    (k.step c).isBad = false ∧ rs text (pos + 1) = .raw (k.step c) (if c = 0x3c then 1 else 0) := by
  have hg := H.step hlt hc
  have hne : m = 1 → c ≠ 0x2f := by
    intro h1 h2; subst h2; exact hm1 h1 hc
  rw [hrr, rawStep_low k c hm hne] at hg
  rw [rs_succ hc, hrr, rawStep_low k c hm hne]
  cases hb : (k.step c).isBad
  · simp
  · simp [hb] at hg

theorem R_js {text : Bytes} {s : CSt} {k : JsS} {m : Nat} (hm : m ≤ 1)
    (hm1 : m = 1 → text[s.pos]? ≠ some 0x2f) (h1 : s.tagCtx = ContextHTML) (h2 : s.url = false)
    (h3 : JsRef text s k) : R text s (.raw (.js k) m) :=
  Or.inr (Or.inr (Or.inr (Or.inl ⟨k, m, rfl, hm, hm1, h1, h2, h3⟩)))

theorem R_css {text : Bytes} {s : CSt} {k : CssS} {m : Nat} (hm : m ≤ 1)
    (hm1 : m = 1 → text[s.pos]? ≠ some 0x2f) (h1 : s.tagCtx = ContextHTML) (h2 : s.url = false)
    (h3 : s.jsComment = 0) (h4 : CssRef text s k) : R text s (.raw (.css k) m) :=
  Or.inr (Or.inr (Or.inr (Or.inr ⟨k, m, rfl, hm, hm1, h1, h2, h3, h4⟩)))

/-- the tail of an iteration on a byte other than LF -/
theorem finish_tail {U : Unicode} {text : Bytes} {n : Nat} {s s1 : CSt} {c : UInt8}
    (hc : text[s.pos]? = some c) (hsw : ctxSwitchP U text s c = (s1, true)) (hne : c ≠ 0x0a)
    (hge : s.pos ≤ s1.pos) (hle : s1.pos + 1 ≤ n)
    (hR : R text { s1 with pos := s1.pos + 1 } (rs text (s1.pos + 1))) : StepOK U text n s := by
  have he := cstep_eq hc hsw
  simp only [if_true] at he
  rcases tailP_cases text s1 c with ⟨e, _⟩ | ⟨_, hc1, _⟩
  · rw [e] at he
    exact StepOK.intro he hle hR (Or.inl (by simp; omega))
  · exact absurd hc1 hne

/-- at a `<` whose end-tag test succeeds -/
theorem raw_lt_jump {U : Unicode} {text : Bytes} {lo n : Nat} (H : Hole text lo n) {s s1 : CSt} {k : RawK} {m : Nat}
    (hlt : s.pos < n) (hc : text[s.pos]? = some 0x3c)
    (hrr : rs text s.pos = .raw k m) (hm : m ≤ 1) (hm1 : m = 1 → text[s.pos]? ≠ some 0x2f)
    (hE : EndTagAt k.name (text.drop s.pos))
    (hsw : ctxSwitchP U text s 0x3c = (s1, true)) (hpos : s1.pos = s.pos + k.name.length + 1)
    (hctx : s1.ctx = ContextHTML) (hcl : Clean s1) : StepOK U text n s := by
  obtain ⟨hb, hr1⟩ := raw_rs1 H hrr hm hm1 hlt hc
  simp only [if_true] at hr1
  obtain ⟨j1, j2⟩ := endtag_jump H (k.step 0x3c) hlt (by
    have : (k.step 0x3c).name = k.name := by cases k <;> rfl
    rw [this]; exact hE) hr1
  have hnm : (k.step 0x3c).name = k.name := by cases k <;> rfl
  rw [hnm] at j1 j2
  refine finish_tail hc hsw (by decide) (by omega) (by omega) ?_
  refine R_html (by exact hctx) (by exact hcl) ?_
  show HtmlRef text _ (rs text (s1.pos + 1))
  rw [hpos, show s.pos + k.name.length + 1 + 1 = s.pos + k.name.length + 2 by omega, j2]
  show _ = _
  rw [hnm]

/-- at a `<` whose end-tag test fails: the next byte is not `/` -/
theorem raw_lt_stay {text : Bytes} {lo n : Nat} (H : Hole text lo n) {pos : Nat} {k : RawK} {m : Nat}
    (hlt : pos < n) (hc : text[pos]? = some 0x3c)
    (hrr : rs text pos = .raw k m) (hm : m ≤ 1) (hm1 : m = 1 → text[pos]? ≠ some 0x2f)
    (hE : ¬ EndTagAt k.name (text.drop pos)) :
    (k.step 0x3c).isBad = false ∧ rs text (pos + 1) = .raw (k.step 0x3c) 1 ∧
      text[pos + 1]? ≠ some 0x2f := by
  obtain ⟨hb, hr1⟩ := raw_rs1 H hrr hm hm1 hlt hc
  simp only [if_true] at hr1
  refine ⟨hb, hr1, ?_⟩
  intro hc1
  have hlt1 : pos + 1 < n := H.lt_of_ne hlt hc1 (by decide)
  have hnm : (k.step 0x3c).name = k.name := by cases k <;> rfl
  exact endtag_nojump H (k.step 0x3c) hlt1 hc hc1 hr1 (by rw [hnm]; exact hE)

/-! ## the lexer's switch in the script contexts -/

/-- the lexer's modes inside a script element -/
def JsMode (s : CSt) : Prop :=
  (s.ctx = ContextJS ∧ s.quote = 0) ∨
  (s.ctx = ContextJSString ∧ s.jsComment = 0 ∧ (s.quote = 0x22 ∨ s.quote = 0x27))

theorem JsRef_mode {text : Bytes} {s : CSt} {k : JsS} (hj : JsRef text s k) : JsMode s := by
  cases k <;> simp only [JsRef] at hj
  · exact Or.inl ⟨hj.1, hj.2.2⟩
  · exact Or.inl ⟨hj.1, hj.2.2.1⟩
  · exact Or.inl ⟨hj.1, hj.2.2⟩
  · exact Or.inl ⟨hj.1, hj.2.2⟩
  · exact Or.inl ⟨hj.1, hj.2.2.1⟩
  · obtain ⟨h1, h2, h3, h4⟩ := hj
    exact Or.inr ⟨h1, h2, by rw [h3]; exact h4⟩
  · obtain ⟨h1, h2, h3, h4, _⟩ := hj
    exact Or.inr ⟨h1, h2, by rw [h3]; exact h4⟩
  · obtain ⟨h1, h2, h3, h4⟩ := hj
    exact Or.inr ⟨h1, h2, by rw [h3]; exact h4⟩

theorem sw_js_lt_false (U : Unicode) {text : Bytes} {s : CSt} (hmode : JsMode s)
    (he : okBool (isEndScript (text.drop s.pos)) = false) : ctxSwitchP U text s 0x3c = (s, true) := by
  rcases hmode with ⟨hctx, hq⟩ | ⟨hctx, hjc, hq⟩
  · simp only [ctxSwitchP, hctx, caseJSP, endScriptP, he]
    simp [ContextJS, ContextHTML, ContextTag, ContextQuotedAttr, ContextUnquotedAttr, ContextCSS,
      ContextCSSString]
  · simp only [ctxSwitchP, hctx, caseJSStringP, endScriptP, he]
    rcases hq with hq | hq <;>
    simp [hq, ContextJS, ContextJSString, ContextHTML, ContextTag, ContextQuotedAttr, ContextUnquotedAttr,
      ContextCSS, ContextCSSString]

theorem sw_js_lt_true (U : Unicode) {text : Bytes} {s : CSt} (hmode : JsMode s)
    (htc : s.tagCtx = ContextHTML) (hu : s.url = false)
    (he : okBool (isEndScript (text.drop s.pos)) = true) :
    ∃ s1, ctxSwitchP U text s 0x3c = (s1, true) ∧ s1.pos = s.pos + 7 ∧ s1.ctx = ContextHTML ∧ Clean s1 := by
  rcases hmode with ⟨hctx, hq⟩ | ⟨hctx, hjc, hq⟩
  · refine ⟨{ s with ctx := ContextHTML, pos := s.pos + 7, jsComment := 0 }, ?_, rfl, rfl, htc, hq, hu, rfl⟩
    simp only [ctxSwitchP, hctx, caseJSP, endScriptP, he]
    simp [ContextJS, ContextHTML, ContextTag, ContextQuotedAttr, ContextUnquotedAttr, ContextCSS,
      ContextCSSString]
  · refine ⟨{ s with ctx := ContextHTML, pos := s.pos + 7, quote := 0 }, ?_, rfl, rfl, htc, rfl, hu, hjc⟩
    simp only [ctxSwitchP, hctx, caseJSStringP, endScriptP, he]
    rcases hq with hq | hq <;>
    simp [hq, ContextJS, ContextJSString, ContextHTML, ContextTag, ContextQuotedAttr, ContextUnquotedAttr,
      ContextCSS, ContextCSSString]

/-! ## the step at a `<` -/

theorem JsRef_lt {text : Bytes} {s : CSt} {k : JsS} (hj : JsRef text s k)
    (hb : ((RawK.js k).step 0x3c).isBad = false) (p : Nat) :
    JsRef text { s with pos := p } (jsStep k 0x3c) := by
  cases k <;> simp only [JsRef] at hj
  · exact hj
  · next ro =>
    cases ro
    · exact ⟨hj.1, hj.2.1, hj.2.2.1⟩
    · simp [RawK.step, jsStep, RawK.isBad] at hb
  · exact hj
  · exact hj
  · exact ⟨hj.1, hj.2.1, hj.2.2.1⟩
  · next q =>
    obtain ⟨h1, h2, h3, h4⟩ := hj
    have : jsStep (.str q) 0x3c = .str q := by
      rcases h4 with rfl | rfl <;> simp [jsStep, jsStr]
    rw [this]; exact ⟨h1, h2, h3, h4⟩
  · next q =>
    obtain ⟨h1, h2, h3, h4, _⟩ := hj
    exact ⟨h1, h2, h3, h4⟩
  · next q =>
    obtain ⟨h1, h2, h3, h4⟩ := hj
    have : jsStep (.strBs q) 0x3c = .str q := by
      rcases h4 with rfl | rfl <;> simp [jsStep, jsStr]
    rw [this]; exact ⟨h1, h2, h3, h4⟩

theorem js_lt {U : Unicode} {text : Bytes} {lo n : Nat} (H : Hole text lo n) {s : CSt} (hlt : s.pos < n)
    {k : JsS} {m : Nat} (hc : text[s.pos]? = some 0x3c)
    (hrr : rs text s.pos = .raw (.js k) m) (hm : m ≤ 1) (hm1 : m = 1 → text[s.pos]? ≠ some 0x2f)
    (htc : s.tagCtx = ContextHTML) (hu : s.url = false) (hj : JsRef text s k) : StepOK U text n s := by
  have hmode := JsRef_mode hj
  by_cases he : okBool (isEndScript (text.drop s.pos)) = true
  · have hE := (isEndScript_iff _).mp he
    obtain ⟨s1, hsw, hp, hcx, hcl⟩ := sw_js_lt_true U hmode htc hu he
    exact raw_lt_jump H hlt hc hrr hm hm1 hE hsw (by rw [hp]; rfl) hcx hcl
  · have hE : ¬ EndTagAt (RawK.js k).name (text.drop s.pos) := fun h => he ((isEndScript_iff _).mpr h)
    obtain ⟨hb, hr1, hne⟩ := raw_lt_stay H hlt hc hrr hm hm1 hE
    have hsw := sw_js_lt_false U hmode (by simpa using he)
    refine finish_tail hc hsw (by decide) (Nat.le_refl _) hlt ?_
    rw [hr1]
    exact R_js (Nat.le_refl _) (fun _ => hne) htc hu (JsRef_lt hj hb _)

/-- the tail when the reference states after the byte (and after a CR following a LF) carry no
condition on the text -/
theorem js_tail_free {U : Unicode} {text : Bytes} {lo n : Nat} (H : Hole text lo n) {s s1 : CSt} {c : UInt8}
    (hlt : s.pos < n) (hc : text[s.pos]? = some c) (hsw : ctxSwitchP U text s c = (s1, true))
    (hpos : s1.pos = s.pos) (htc : s1.tagCtx = ContextHTML) (hu : s1.url = false) {k' : JsS}
    (hr1 : rs text (s.pos + 1) = .raw (.js k') 0) (hJ : ∀ p, JsRef text { s1 with pos := p } k')
    (hcr : c = 0x0a → jsStep k' 0x0d = .bad ∨ ∀ p, JsRef text { s1 with pos := p } (jsStep k' 0x0d)) :
    StepOK U text n s := by
  apply tail_ok H hlt hc hsw hpos
  · rw [hr1]; exact R_js (Nat.zero_le _) (by simp) htc hu (hJ _)
  · intro hc1 hc2 hlt2
    obtain ⟨hb, hr2⟩ := raw_rs1 H hr1 (Nat.zero_le _) (by simp) hlt2 hc2
    simp only [RawK.step, RawK.isBad] at hb hr2
    rcases hcr hc1 with h | h
    · rw [h] at hb; simp at hb
    · show R text _ (rs text (s.pos + 1 + 1))
      rw [hr2]
      exact R_js (by simp) (by simp) htc hu (h _)

/-! ## code position -/

theorem jsCode_cases (ro : Bool) (c : UInt8) (h1 : c ≠ 0x22) (h2 : c ≠ 0x27) (h3 : c ≠ 0x2f)
    (hb : jsCode ro c ≠ .bad) : ∃ ro', jsCode ro c = .code ro' := by
  simp only [jsCode] at hb ⊢
  have hq : (c == 0x22 || c == 0x27) = false := by simp [h1, h2]
  rw [hq] at hb ⊢
  simp only [Bool.false_eq_true, if_false] at hb ⊢
  by_cases h60 : c = 0x60
  · simp [h60] at hb
  · have h2f : (c == 0x2F) = false := by simp [h3]
    have h60' : (c == 0x60) = false := by simp [h60]
    rw [h60', h2f]
    simp only [Bool.false_eq_true, if_false]
    split
    · exact ⟨_, rfl⟩
    · split <;> exact ⟨_, rfl⟩

/-- in code position (lexer: context JS, no comment), a byte other than `<` and `/` -/
theorem js_code_other {U : Unicode} {text : Bytes} {lo n : Nat} (H : Hole text lo n) {s : CSt} (hlt : s.pos < n)
    {c : UInt8} (hc : text[s.pos]? = some c) (h3c : c ≠ 0x3c) (h2f : c ≠ 0x2f)
    (hctx : s.ctx = ContextJS) (hjc : s.jsComment = 0) (hq : s.quote = 0)
    (htc : s.tagCtx = ContextHTML) (hu : s.url = false) (ro : Bool) (hb : jsCode ro c ≠ .bad)
    (hr1 : rs text (s.pos + 1) = .raw (.js (jsCode ro c)) 0) : StepOK U text n s := by
  by_cases hqq : c = 0x22 ∨ c = 0x27
  · have hsw : ctxSwitchP U text s c = ({ s with ctx := ContextJSString, quote := c }, true) := by
      simp only [ctxSwitchP, hctx, caseJSP, endScriptP, hjc]
      rcases hqq with rfl | rfl <;>
      simp [ContextJS, ContextHTML, ContextTag, ContextQuotedAttr, ContextUnquotedAttr, ContextCSS,
        ContextCSSString]
    have hk : jsCode ro c = .str c := by
      rcases hqq with rfl | rfl <;> simp [jsCode]
    rw [hk] at hr1
    refine finish_tail hc hsw (by rcases hqq with rfl | rfl <;> decide) (Nat.le_refl _) hlt ?_
    rw [hr1]
    exact R_js (Nat.zero_le _) (by simp) htc hu ⟨rfl, hjc, rfl, hqq⟩
  · simp only [not_or] at hqq
    have hsw : ctxSwitchP U text s c = (s, true) := by
      simp only [ctxSwitchP, hctx, caseJSP, endScriptP, hjc]
      simp [ContextJS, ContextHTML, ContextTag, ContextQuotedAttr, ContextUnquotedAttr, ContextCSS,
        ContextCSSString, h3c, h2f, hqq.1, hqq.2]
    obtain ⟨ro', hk⟩ := jsCode_cases ro c hqq.1 hqq.2 h2f hb
    rw [hk] at hr1
    refine js_tail_free H hlt hc hsw rfl htc hu hr1 (fun p => ⟨hctx, hjc, hq⟩) ?_
    intro _
    right; intro p
    have : jsStep (.code ro') 0x0d = .code ro' := by simp [jsStep, jsCode, ws]
    rw [this]; exact ⟨hctx, hjc, hq⟩

/-- in code position, a `/` -/
theorem js_code_slash {U : Unicode} {text : Bytes} {lo n : Nat} (H : Hole text lo n) {s : CSt} (hlt : s.pos < n)
    (hc : text[s.pos]? = some 0x2f)
    (hctx : s.ctx = ContextJS) (hjc : s.jsComment = 0) (hq : s.quote = 0)
    (htc : s.tagCtx = ContextHTML) (hu : s.url = false) (ro : Bool)
    (hr1 : rs text (s.pos + 1) = .raw (.js (.slash ro)) 0) : StepOK U text n s := by
  obtain ⟨c2, hc2⟩ := H.get (i := s.pos + 1) hlt
  have hlen : s.pos + 1 < text.length := (List.getElem?_eq_some_iff.mp hc2).1
  by_cases h1 : c2 = 0x2f
  · subst h1
    have hlt1 : s.pos + 1 < n := H.lt_of_ne hlt hc2 (by decide)
    obtain ⟨_, hr2⟩ := raw_rs1 H hr1 (Nat.zero_le _) (by simp) hlt1 hc2
    have hsw : ctxSwitchP U text s 0x2f = ({ s with pos := s.pos + 1, jsComment := 1 }, true) := by
      simp only [ctxSwitchP, hctx, caseJSP, endScriptP, hjc, hc2]
      simp [ContextJS, ContextHTML, ContextTag, ContextQuotedAttr, ContextUnquotedAttr, ContextCSS,
        ContextCSSString, hlen]
    refine finish_tail hc hsw (by decide) (by simp) hlt1 ?_
    show R text _ (rs text (s.pos + 1 + 1))
    rw [hr2]
    exact R_js (by simp) (by simp) htc hu ⟨hctx, rfl, hq⟩
  by_cases h2 : c2 = 0x2a
  · subst h2
    have hlt1 : s.pos + 1 < n := H.lt_of_ne hlt hc2 (by decide)
    obtain ⟨_, hr2⟩ := raw_rs1 H hr1 (Nat.zero_le _) (by simp) hlt1 hc2
    have hsw : ctxSwitchP U text s 0x2f = ({ s with pos := s.pos + 1, jsComment := 2 }, true) := by
      simp only [ctxSwitchP, hctx, caseJSP, endScriptP, hjc, hc2]
      simp [ContextJS, ContextHTML, ContextTag, ContextQuotedAttr, ContextUnquotedAttr, ContextCSS,
        ContextCSSString, hlen]
    refine finish_tail hc hsw (by decide) (by simp) hlt1 ?_
    show R text _ (rs text (s.pos + 1 + 1))
    rw [hr2]
    exact R_js (by simp) (by simp) htc hu ⟨hctx, rfl, hq⟩
  · have hsw : ctxSwitchP U text s 0x2f = (s, true) := by
      simp only [ctxSwitchP, hctx, caseJSP, endScriptP, hjc, hc2]
      simp [ContextJS, ContextHTML, ContextTag, ContextQuotedAttr, ContextUnquotedAttr, ContextCSS,
        ContextCSSString, hlen]
      split <;> simp_all
    refine finish_tail hc hsw (by decide) (Nat.le_refl _) hlt ?_
    rw [hr1]
    refine R_js (Nat.zero_le _) (by simp) htc hu ⟨hctx, hjc, hq, ?_, ?_⟩
    · show text[s.pos + 1]? ≠ _; rw [hc2]; simpa using h1
    · show text[s.pos + 1]? ≠ _; rw [hc2]; simpa using h2

/-! ## comments -/

theorem js_line {U : Unicode} {text : Bytes} {lo n : Nat} (H : Hole text lo n) {s : CSt} (hlt : s.pos < n)
    {c : UInt8} (hc : text[s.pos]? = some c) (h3c : c ≠ 0x3c)
    (hctx : s.ctx = ContextJS) (hjc : s.jsComment = 1) (hq : s.quote = 0)
    (htc : s.tagCtx = ContextHTML) (hu : s.url = false) (hb : jsStep .lineC c ≠ .bad)
    (hr1 : rs text (s.pos + 1) = .raw (.js (jsStep .lineC c)) 0) : StepOK U text n s := by
  by_cases hnl : c = 0x0a ∨ c = 0x0d
  · have hsw : ctxSwitchP U text s c = ({ s with jsComment := 0 }, true) := by
      simp only [ctxSwitchP, hctx, caseJSP, endScriptP, hjc]
      rcases hnl with rfl | rfl <;>
        simp [ContextJS, ContextHTML, ContextTag, ContextQuotedAttr, ContextUnquotedAttr, ContextCSS,
          ContextCSSString]
    have hk : jsStep .lineC c = .code true := by
      rcases hnl with rfl | rfl <;> simp [jsStep]
    rw [hk] at hr1
    refine js_tail_free H hlt hc hsw rfl htc hu hr1 (fun p => ⟨hctx, rfl, hq⟩) ?_
    intro _; right; intro p
    have : jsStep (.code true) 0x0d = .code true := by simp [jsStep, jsCode, ws]
    rw [this]; exact ⟨hctx, rfl, hq⟩
  · -- 0xE2 (the first byte of U+2028 / U+2029) in a line comment is outside `D`
    have he2 : c ≠ 0xe2 := by
      intro he2; apply hb; subst he2; simp [jsStep]
    have hsw : ctxSwitchP U text s c = (s, true) := by
      simp only [ctxSwitchP, hctx, caseJSP, endScriptP, hjc]
      simp [ContextJS, ContextHTML, ContextTag, ContextQuotedAttr, ContextUnquotedAttr, ContextCSS,
        ContextCSSString, h3c, hnl, he2]
    simp only [not_or] at hnl
    have hk : jsStep .lineC c = .lineC := by
      simp [jsStep, hnl.1, hnl.2, he2]
    rw [hk] at hr1
    refine js_tail_free H hlt hc hsw rfl htc hu hr1 (fun p => ⟨hctx, hjc, hq⟩) ?_
    intro h; exact absurd h hnl.1

/-- in a block comment (reference: `blockC`, or `blockCStar` when the byte is not `/`) -/
theorem js_block {U : Unicode} {text : Bytes} {lo n : Nat} (H : Hole text lo n) {s : CSt} (hlt : s.pos < n)
    {c : UInt8} (hc : text[s.pos]? = some c) (h3c : c ≠ 0x3c)
    (hctx : s.ctx = ContextJS) (hjc : s.jsComment = 2) (hq : s.quote = 0)
    (htc : s.tagCtx = ContextHTML) (hu : s.url = false) {k : JsS}
    (hk : k = .blockC ∨ (k = .blockCStar ∧ c ≠ 0x2f))
    (hr1 : rs text (s.pos + 1) = .raw (.js (jsStep k c)) 0) : StepOK U text n s := by
  obtain ⟨c2, hc2⟩ := H.get (i := s.pos + 1) hlt
  by_cases hst : c = 0x2a
  · subst hst
    have hk1 : jsStep k 0x2a = .blockCStar := by
      rcases hk with rfl | ⟨rfl, _⟩ <;> simp [jsStep]
    rw [hk1] at hr1
    by_cases h1 : c2 = 0x2f
    · subst h1
      have hlt1 : s.pos + 1 < n := H.lt_of_ne hlt hc2 (by decide)
      obtain ⟨_, hr2⟩ := raw_rs1 H hr1 (Nat.zero_le _) (by simp) hlt1 hc2
      have hsw : ctxSwitchP U text s 0x2a = ({ s with pos := s.pos + 1, jsComment := 0 }, true) := by
        simp only [ctxSwitchP, hctx, caseJSP, endScriptP, hjc, hc2]
        simp [ContextJS, ContextHTML, ContextTag, ContextQuotedAttr, ContextUnquotedAttr, ContextCSS,
          ContextCSSString]
      refine finish_tail hc hsw (by decide) (by simp) hlt1 ?_
      show R text _ (rs text (s.pos + 1 + 1))
      rw [hr2]
      exact R_js (by simp) (by simp) htc hu ⟨hctx, rfl, hq⟩
    · have hsw : ctxSwitchP U text s 0x2a = (s, true) := by
        simp only [ctxSwitchP, hctx, caseJSP, endScriptP, hjc, hc2]
        simp [ContextJS, ContextHTML, ContextTag, ContextQuotedAttr, ContextUnquotedAttr, ContextCSS,
          ContextCSSString, h1]
      refine finish_tail hc hsw (by decide) (Nat.le_refl _) hlt ?_
      rw [hr1]
      refine R_js (Nat.zero_le _) (by simp) htc hu ⟨hctx, hjc, hq, ?_⟩
      show text[s.pos + 1]? ≠ _; rw [hc2]; simpa using h1
  · have hsw : ctxSwitchP U text s c = (s, true) := by
      simp only [ctxSwitchP, hctx, caseJSP, endScriptP, hjc]
      simp [ContextJS, ContextHTML, ContextTag, ContextQuotedAttr, ContextUnquotedAttr, ContextCSS,
        ContextCSSString, h3c, hst]
    have hk1 : jsStep k c = .blockC := by
      rcases hk with rfl | ⟨rfl, h⟩
      · simp [jsStep, hst]
      · simp [jsStep, hst, h]
    rw [hk1] at hr1
    refine js_tail_free H hlt hc hsw rfl htc hu hr1 (fun p => ⟨hctx, hjc, hq⟩) ?_
    intro _; right; intro p
    have : jsStep .blockC 0x0d = .blockC := by simp [jsStep]
    rw [this]; exact ⟨hctx, hjc, hq⟩

/-! ## string literals -/

theorem js_string {U : Unicode} {text : Bytes} {lo n : Nat} (H : Hole text lo n) {s : CSt} (hlt : s.pos < n)
    {c : UInt8} (hc : text[s.pos]? = some c) (h3c : c ≠ 0x3c)
    (hctx : s.ctx = ContextJSString) (hjc : s.jsComment = 0) {q : UInt8} (hq : s.quote = q)
    (hqq : q = 0x22 ∨ q = 0x27) (htc : s.tagCtx = ContextHTML) (hu : s.url = false) {k : JsS}
    (hk : k = .str q ∨ k = .strBs q ∨ (k = .strEsc q ∧ c ≠ q ∧ c ≠ 0x5c))
    (hb : jsStep k c ≠ .bad)
    (hr1 : rs text (s.pos + 1) = .raw (.js (jsStep k c)) 0) : StepOK U text n s := by
  obtain ⟨c2, hc2⟩ := H.get (i := s.pos + 1) hlt
  have hq5c : q ≠ 0x5c := by rcases hqq with rfl | rfl <;> decide
  have hq3c : q ≠ 0x3c := by rcases hqq with rfl | rfl <;> decide
  have hq7b : q ≠ 0x7b := by rcases hqq with rfl | rfl <;> decide
  have hq0d : (0x0d : UInt8) ≠ q := by rcases hqq with rfl | rfl <;> decide
  by_cases hbs : c = 0x5c
  · subst hbs
    -- the reference is in `str` / `strBs` and goes to `strEsc`
    have hk1 : jsStep k 0x5c = .strEsc q := by
      rcases hk with rfl | rfl | ⟨_, _, h⟩
      · simp [jsStep, jsStr]
      · simp [jsStep, jsStr]
      · exact absurd rfl h
    rw [hk1] at hr1
    by_cases h1 : c2 = q
    · -- `\q`: the lexer skips the pair, the reference is back in `str`
      subst h1
      have hlt1 : s.pos + 1 < n := H.lt_of_ne hlt hc2 hq7b
      obtain ⟨hb2, hr2⟩ := raw_rs1 H hr1 (Nat.zero_le _) (by simp) hlt1 hc2
      have hsw : ctxSwitchP U text s 0x5c = ({ s with pos := s.pos + 1 }, true) := by
        simp only [ctxSwitchP, hctx, caseJSStringP, hq, hc2]
        simp [ContextJS, ContextJSString, ContextHTML, ContextTag, ContextQuotedAttr, ContextUnquotedAttr,
          ContextCSS, ContextCSSString]
      have hk2 : jsStep (.strEsc c2) c2 = .str c2 := by simp [jsStep, hq5c]
      simp only [RawK.step, hk2, hq3c, if_false] at hr2
      refine finish_tail hc hsw (by decide) (by simp) hlt1 ?_
      show R text _ (rs text (s.pos + 1 + 1))
      rw [hr2]
      exact R_js (by simp) (by simp) htc hu ⟨hctx, hjc, hq, hqq⟩
    · by_cases h2 : c2 = 0x5c
      · -- `\\`: the lexer skips the pair, the reference is in `strBs` (which behaves as `str`)
        subst h2
        have hlt1 : s.pos + 1 < n := H.lt_of_ne hlt hc2 (by decide)
        obtain ⟨hb2, hr2⟩ := raw_rs1 H hr1 (Nat.zero_le _) (by simp) hlt1 hc2
        have hsw : ctxSwitchP U text s 0x5c = ({ s with pos := s.pos + 1 }, true) := by
          simp only [ctxSwitchP, hctx, caseJSStringP, hq, hc2]
          simp [ContextJS, ContextJSString, ContextHTML, ContextTag, ContextQuotedAttr, ContextUnquotedAttr,
            ContextCSS, ContextCSSString]
        have hk2 : jsStep (.strEsc q) 0x5c = .strBs q := by simp [jsStep]
        simp only [RawK.step, hk2, (by decide : (0x5c : UInt8) ≠ 0x3c), if_false] at hr2
        refine finish_tail hc hsw (by decide) (by simp) hlt1 ?_
        show R text _ (rs text (s.pos + 1 + 1))
        rw [hr2]
        exact R_js (by simp) (by simp) htc hu ⟨hctx, hjc, hq, hqq⟩
      · have hsw : ctxSwitchP U text s 0x5c = (s, true) := by
          simp only [ctxSwitchP, hctx, caseJSStringP, hq, hc2]
          simp [ContextJS, ContextJSString, ContextHTML, ContextTag, ContextQuotedAttr, ContextUnquotedAttr,
            ContextCSS, ContextCSSString, h1, h2]
        have hne : text[s.pos + 1]? ≠ some q := by rw [hc2]; simpa using h1
        have hne2 : text[s.pos + 1]? ≠ some 0x5c := by rw [hc2]; simpa using h2
        refine finish_tail hc hsw (by decide) (Nat.le_refl _) hlt ?_
        rw [hr1]
        exact R_js (Nat.zero_le _) (by simp) htc hu ⟨hctx, hjc, hq, hqq, hne, hne2⟩
  · by_cases hcq : c = q
    · subst hcq
      have hsw : ctxSwitchP U text s c = ({ s with ctx := ContextJS, quote := 0 }, true) := by
        simp only [ctxSwitchP, hctx, caseJSStringP, hq]
        simp [ContextJS, ContextJSString, ContextHTML, ContextTag, ContextQuotedAttr, ContextUnquotedAttr,
          ContextCSS, ContextCSSString, hbs]
      have hk1 : jsStep k c = .code false := by
        rcases hk with rfl | rfl | ⟨_, hne, _⟩
        · simp [jsStep, jsStr, hbs]
        · simp [jsStep, jsStr, hbs]
        · exact absurd rfl hne
      rw [hk1] at hr1
      refine finish_tail hc hsw (by rcases hqq with rfl | rfl <;> decide) (Nat.le_refl _) hlt ?_
      rw [hr1]
      exact R_js (Nat.zero_le _) (by simp) htc hu ⟨rfl, hjc, rfl⟩
    · have hsw : ctxSwitchP U text s c = (s, true) := by
        simp only [ctxSwitchP, hctx, caseJSStringP, hq]
        simp [ContextJS, ContextJSString, ContextHTML, ContextTag, ContextQuotedAttr, ContextUnquotedAttr,
          ContextCSS, ContextCSSString, hbs, hcq, h3c]
      have hk1 : jsStep k c = .str q := by
        rcases hk with rfl | rfl | ⟨rfl, _⟩
        · by_cases hnl : c = 10 ∨ c = 13
          · exfalso; apply hb; rcases hnl with rfl | rfl <;> simp [jsStep, jsStr, hcq]
          · simp only [not_or] at hnl; simp [jsStep, jsStr, hbs, hcq, hnl.1, hnl.2]
        · by_cases hnl : c = 10 ∨ c = 13
          · exfalso; apply hb; rcases hnl with rfl | rfl <;> simp [jsStep, jsStr, hcq]
          · simp only [not_or] at hnl; simp [jsStep, jsStr, hbs, hcq, hnl.1, hnl.2]
        · simp [jsStep, hbs]
      rw [hk1] at hr1
      refine js_tail_free H hlt hc hsw rfl htc hu hr1 (fun p => ⟨hctx, hjc, hq, hqq⟩) ?_
      intro _; left
      simp [jsStep, jsStr, hq0d]

/-! ## one step inside a script element -/

theorem step_js {U : Unicode} {text : Bytes} {lo n : Nat} (H : Hole text lo n) {s : CSt} (hlt : s.pos < n)
    {k : JsS} {m : Nat} (hrr : rs text s.pos = .raw (.js k) m) (hm : m ≤ 1)
    (hm1 : m = 1 → text[s.pos]? ≠ some 0x2f) (htc : s.tagCtx = ContextHTML) (hu : s.url = false)
    (hj : JsRef text s k) : StepOK U text n s := by
  obtain ⟨c, hc⟩ := H.get (Nat.le_of_lt hlt)
  by_cases h3c : c = 0x3c
  · subst h3c; exact js_lt H hlt hc hrr hm hm1 htc hu hj
  obtain ⟨hb, hr1⟩ := raw_rs1 H hrr hm hm1 hlt hc
  simp only [h3c, if_false, RawK.step] at hb hr1
  have hb' : jsStep k c ≠ .bad := by intro h; rw [h] at hb; simp [RawK.isBad] at hb
  cases k <;> simp only [JsRef] at hj
  · next ro =>
    obtain ⟨hctx, hjc, hq⟩ := hj
    by_cases h2f : c = 0x2f
    · subst h2f
      have : jsStep (.code ro) 0x2f = .slash ro := by simp [jsStep, jsCode]
      rw [this] at hr1
      exact js_code_slash H hlt hc hctx hjc hq htc hu ro hr1
    · exact js_code_other H hlt hc h3c h2f hctx hjc hq htc hu ro hb' hr1
  · next ro =>
    obtain ⟨hctx, hjc, hq, hn1, hn2⟩ := hj
    have h2f : c ≠ 0x2f := by intro h; subst h; exact hn1 hc
    have h2a : c ≠ 0x2a := by intro h; subst h; exact hn2 hc
    cases ro
    · have : jsStep (.slash false) c = jsCode true c := by simp [jsStep, h2f, h2a]
      rw [this] at hr1 hb'
      exact js_code_other H hlt hc h3c h2f hctx hjc hq htc hu true hb' hr1
    · exfalso; apply hb'; simp [jsStep, h2f, h2a]
  · obtain ⟨hctx, hjc, hq⟩ := hj
    exact js_line H hlt hc h3c hctx hjc hq htc hu hb' hr1
  · obtain ⟨hctx, hjc, hq⟩ := hj
    exact js_block H hlt hc h3c hctx hjc hq htc hu (Or.inl rfl) hr1
  · obtain ⟨hctx, hjc, hq, hn1⟩ := hj
    have h2f : c ≠ 0x2f := by intro h; subst h; exact hn1 hc
    exact js_block H hlt hc h3c hctx hjc hq htc hu (Or.inr ⟨rfl, h2f⟩) hr1
  · next q =>
    obtain ⟨hctx, hjc, hq, hqq⟩ := hj
    exact js_string H hlt hc h3c hctx hjc hq hqq htc hu (Or.inl rfl) hb' hr1
  · next q =>
    obtain ⟨hctx, hjc, hq, hqq, hn, hn2⟩ := hj
    have hcq : c ≠ q := by intro h; subst h; exact hn hc
    have hc5c : c ≠ 0x5c := by intro h; subst h; exact hn2 hc
    exact js_string H hlt hc h3c hctx hjc hq hqq htc hu (Or.inr (Or.inr ⟨rfl, hcq, hc5c⟩)) hb' hr1
  · next q =>
    obtain ⟨hctx, hjc, hq, hqq⟩ := hj
    exact js_string H hlt hc h3c hctx hjc hq hqq htc hu (Or.inr (Or.inl rfl)) hb' hr1

end ScriggoV.LexCtx
