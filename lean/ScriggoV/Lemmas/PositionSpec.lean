import ScriggoV.Spec.Position
/-! # What `Spec.Position.lineCol` computes, in closed form (C21)

`lineCol_spec`: the line of an offset is 1 + the number of `'\n'` before it; the column is 1 + the
number of characters (bytes that are not UTF-8 continuation bytes) after the last `'\n'` before it
(a leading byte order mark not counted). -/
namespace ScriggoV.Spec.Position
open ScriggoV

/-- the bytes after the last `'\n'` -/
def lastLine : Bytes → Bytes
  | [] => []
  | c :: rest => if (0x0a : UInt8) ∈ rest then lastLine rest else if c = 0x0a then rest else c :: rest

/-- characters: bytes that are not continuation bytes -/
def chars (s : Bytes) : Nat := s.countP (fun b => !isCont b)

/-- `lastLine` is what its name says: it has no newline, and what stands before it is empty or ends
with a newline -/
theorem lastLine_spec (s : Bytes) :
    (0x0a : UInt8) ∉ lastLine s ∧ ∃ pre, s = pre ++ lastLine s ∧ (pre = [] ∨ ∃ pre', pre = pre' ++ [0x0a]) := by
  induction s with
  | nil => exact ⟨by simp [lastLine], [], rfl, Or.inl rfl⟩
  | cons c rest ih =>
    unfold lastLine
    split
    · obtain ⟨h1, pre, h2, h3⟩ := ih
      refine ⟨h1, c :: pre, by rw [List.cons_append, ← h2], Or.inr ?_⟩
      rcases h3 with h3 | ⟨pre', h3⟩
      · -- `pre = []`: then `rest = lastLine rest` has no newline, contradiction
        subst h3
        rename_i hin
        simp only [List.nil_append] at h2
        rw [← h2] at h1
        exact absurd hin h1
      · exact ⟨c :: pre', by rw [h3]; rfl⟩
    · rename_i hnot
      split
      · rename_i hc
        exact ⟨hnot, [c], rfl, Or.inr ⟨[], by rw [hc]; rfl⟩⟩
      · rename_i hc
        refine ⟨?_, [], rfl, Or.inl rfl⟩
        intro hm
        rcases List.mem_cons.mp hm with h | h
        · exact hc h.symm
        · exact hnot h

theorem lastLine_cons (c : UInt8) (rest : Bytes) :
    lastLine (c :: rest) = if (0x0a : UInt8) ∈ rest then lastLine rest else if c = 0x0a then rest else c :: rest := rfl

/-- `advance` in closed form -/
theorem advance_closed (s : Bytes) : ∀ (l k : Nat), advance s (l, k) =
    (l + s.count 0x0a, if s.count 0x0a = 0 then k + chars s else 1 + chars (lastLine s)) := by
  induction s with
  | nil => intro l k; simp [advance, chars]
  | cons c rest ih =>
    intro l k
    unfold advance
    by_cases hc : c = 0x0a
    · rw [if_pos hc, ih]
      subst hc
      have hcnt : List.count (0x0a : UInt8) (0x0a :: rest) = rest.count 0x0a + 1 := by simp
      rw [hcnt, if_neg (Nat.succ_ne_zero _)]
      refine Prod.ext (by simp; omega) ?_
      simp only []
      rw [lastLine_cons]
      by_cases hz : rest.count 0x0a = 0
      · have hnot : (0x0a : UInt8) ∉ rest := List.count_eq_zero.mp hz
        rw [if_pos hz, if_neg hnot, if_pos rfl]
      · have hin : (0x0a : UInt8) ∈ rest := by
          apply Classical.byContradiction; intro hn; exact hz (List.count_eq_zero.mpr hn)
        rw [if_neg hz, if_pos hin]
    · rw [if_neg hc]
      have hcnt : List.count (0x0a : UInt8) (c :: rest) = rest.count 0x0a := by
        rw [List.count_cons]; simp [hc]
      by_cases hk : isCont c = true
      · rw [if_pos hk, ih, hcnt]
        refine Prod.ext rfl ?_
        simp only []
        by_cases hz : rest.count 0x0a = 0
        · rw [if_pos hz, if_pos hz]
          simp [chars, hk]
        · have hin : (0x0a : UInt8) ∈ rest := by
            apply Classical.byContradiction; intro hn; exact hz (List.count_eq_zero.mpr hn)
          rw [if_neg hz, if_neg hz, lastLine_cons, if_pos hin]
      · rw [if_neg hk, ih, hcnt]
        refine Prod.ext rfl ?_
        simp only []
        have hk' : isCont c = false := by simpa using hk
        by_cases hz : rest.count 0x0a = 0
        · rw [if_pos hz, if_pos hz]
          simp [chars, hk']; omega
        · have hin : (0x0a : UInt8) ∈ rest := by
            apply Classical.byContradiction; intro hn; exact hz (List.count_eq_zero.mpr hn)
          rw [if_neg hz, if_neg hz, lastLine_cons, if_pos hin]

/-- `lineCol_spec`: line = 1 + newlines before the offset; column = 1 + characters since the last
newline (on the first line of a file that starts with a byte order mark: one less, the mark is not a
character of the line) -/
theorem lineCol_spec (src : Bytes) (off : Nat) :
    (lineCol src off).1 = 1 + (src.take off).count 0x0a ∧
    (lineCol src off).2 =
      if (src.take off).count 0x0a = 0 then (if 3 ≤ off ∧ hasBOM src then 0 else 1) + chars (src.take off)
      else 1 + chars (lastLine (src.take off)) := by
  unfold lineCol
  rw [advance_closed]
  exact ⟨rfl, rfl⟩

end ScriggoV.Spec.Position
