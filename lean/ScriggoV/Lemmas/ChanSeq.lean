import ScriggoV.Model.ChanSeq
/-! lemmas for `Model/ChanSeq.lean`: with an empty buffer at its start, an operation of the VM under
a Done channel that is never ready does what Go's operation does -/
namespace ScriggoV.ChanSeq

theorem ready_done (chans : List Ch) : ready chans .done = false := rfl

/-- a case that is neither ready nor a default case at the end of the buffer changes nothing -/
theorem choose_append_done (chans : List Ch) (l : List BCase) :
    choose chans (l ++ [.done]) = choose chans l := by
  unfold choose
  rw [List.findIdx?_append, List.findIdx?_append]
  cases h1 : l.findIdx? (ready chans) with
  | some i => simp
  | none =>
    cases h2 : l.findIdx? isDflt with
    | some j => simp [ready, isDflt]
    | none => simp [ready, isDflt]

theorem choose_lt (chans : List Ch) (l : List BCase) (i : Nat) (h : choose chans l = some i) :
    i < l.length := by
  unfold choose at h
  cases h1 : l.findIdx? (ready chans) with
  | some k =>
    rw [h1] at h
    simp only [Option.some.injEq] at h
    subst h
    exact (List.findIdx?_eq_some_iff_getElem.mp h1).1
  | none =>
    rw [h1] at h
    exact (List.findIdx?_eq_some_iff_getElem.mp h).1

/-- selecting over the buffer with the Done case appended = selecting over the buffer -/
theorem vmSelect_append_done (chans : List Ch) (l : List BCase) :
    vmSelect chans (l ++ [.done]) = vmSelect chans l := by
  unfold vmSelect
  rw [choose_append_done]
  cases h : choose chans l with
  | none => rfl
  | some i =>
    have hi := choose_lt chans l i h
    simp only [List.getElem?_append_left hi]

theorem vmSelect_lt (chans : List Ch) (l : List BCase) (i : Nat) (f : Fired)
    (h : vmSelect chans l = .ok (i, f)) : i < l.length := by
  unfold vmSelect at h
  cases hc : choose chans l with
  | none => rw [hc] at h; cases h
  | some k =>
    rw [hc] at h
    have hk := choose_lt chans l k hc
    simp only at h
    split at h
    · cases h
    · split at h
      · cases h
      · simp only [Except.ok.injEq, Prod.mk.injEq] at h
        omega

/-- OpReceive / OpSend / OpRange with an empty buffer: the Done path gives what the plain path gives -/
theorem single_ctx (chans : List Ch) (x : BCase) :
    (single true chans [] x).map Prod.fst = (single false chans [] x).map Prod.fst := by
  unfold single
  simp only [List.nil_append, if_true, Bool.false_eq_true, if_false]
  have h : vmSelect chans [x, .done] = vmSelect chans [x] := vmSelect_append_done chans [x]
  rw [h]
  cases hv : vmSelect chans [x] with
  | error e => rfl
  | ok r =>
    obtain ⟨i, f⟩ := r
    have hi := vmSelect_lt chans [x] i f hv
    simp only [List.length_singleton] at hi
    have : i ≠ 1 := by omega
    simp [this, Except.map]

theorem single_plain_buf (chans : List Ch) (stale : List BCase) (x : BCase) (f : Fired)
    (buf : List BCase) (h : single false chans stale x = .ok (f, buf)) : buf = stale := by
  unfold single at h
  simp only [Bool.false_eq_true, if_false] at h
  split at h
  · cases h
  · simp only [Except.ok.injEq, Prod.mk.injEq] at h
    exact h.2.symm

/-- the same, with the buffers: under a Done channel the instruction holds `[x, done]` -/
theorem single_ctx' (chans : List Ch) (x : BCase) :
    single true chans [] x = (single false chans [] x).map (fun p => (p.1, [x, .done])) := by
  unfold single
  simp only [List.nil_append, if_true, Bool.false_eq_true, if_false]
  have h : vmSelect chans [x, .done] = vmSelect chans [x] := vmSelect_append_done chans [x]
  rw [h]
  cases hv : vmSelect chans [x] with
  | error e => rfl
  | ok r =>
    obtain ⟨i, f⟩ := r
    have hi := vmSelect_lt chans [x] i f hv
    simp only [List.length_singleton] at hi
    have : i ≠ 1 := by omega
    simp [this, Except.map]

/-- a select statement with an empty buffer before its OpCase instructions -/
theorem selectStmt_ctx (chans : List Ch) (cases : List SCase) (dflt : Bool) :
    selectStmt true chans [] cases dflt
      = (selectStmt false chans [] cases dflt).map (fun p => (p.1, p.2.1, p.2.2 ++ [.done])) := by
  unfold selectStmt
  simp only [List.nil_append, if_true, Bool.false_eq_true, if_false, List.length_nil,
    Nat.not_lt_zero, Bool.true_and, Bool.false_and, Nat.sub_zero, decide_eq_true_eq]
  rw [vmSelect_append_done]
  cases hv : vmSelect chans (List.map SCase.toB cases ++ if dflt = true then [BCase.dflt] else []) with
  | error e => rfl
  | ok r =>
    obtain ⟨i, f⟩ := r
    have hi := vmSelect_lt chans _ i f hv
    have : i ≠ (List.map SCase.toB cases ++ if dflt = true then [BCase.dflt] else []).length := by omega
    simp only [List.length_append, List.length_map] at this
    simp [this, Except.map]

/-- **one operation**: from an empty buffer, with the buffer emptied on every way out, the VM's
operation under a Done channel is Go's operation -/
theorem step_ctx_eq_plain (c : Cfg) (h : c.cases = []) :
    step true Policy.good c = step false Policy.good c := by
  unfold step
  rw [h]
  split
  · rfl
  · rw [single_ctx']; cases single false c.chans [] _ <;> simp [Except.map, keep, Policy.good]
  · rw [single_ctx']; cases single false c.chans [] _ <;> simp [Except.map, keep, Policy.good]
  · rw [single_ctx']; cases single false c.chans [] _ <;> simp [Except.map, keep, Policy.good]
  · rw [single_ctx']; cases single false c.chans [] _ <;> simp [Except.map, keep, Policy.good]
  · rw [selectStmt_ctx]; cases selectStmt false c.chans [] _ _ <;> simp [Except.map, keep, Policy.good]
  · rfl
  · rfl
  · rfl

/-- … and leaves the buffer empty -/
theorem step_cases_nil (ctx : Bool) (c c' : Cfg) (h : c.cases = [])
    (hs : step ctx Policy.good c = .ok c') : c'.cases = [] := by
  unfold step at hs
  split at hs
  · cases hs; exact h
  all_goals (first
    | (split at hs
       · cases hs
       · first
         | (simp only [Except.ok.injEq] at hs; subst hs; simp [keep, Policy.good])
         | (split at hs <;> (simp only [Except.ok.injEq] at hs; subst hs; simp [keep, Policy.good]))
         | (split at hs
            · cases hs
            · simp only [Except.ok.injEq] at hs; subst hs; exact h))
    | (split at hs <;> (simp only [Except.ok.injEq] at hs; subst hs; exact h)))

end ScriggoV.ChanSeq
