import ScriggoV.Lemmas.LexCtxSimCss
/-! # C06 layer 2: the lexer's context machine agrees with the reference tokenizer

`ctx_agree_pure_html` (no script / style element), `ctx_agree_pure_script` (no style element),
`ctx_agree_pure` (the whole class `D`): the context machine of the template lexer (`Model/LexCtx`),
run over a delimiter-free prefix `p` of a template whose next bytes open a hole, stops exactly at the
hole, in the context and with the URL flag that abstract the state of the reference HTML tokenizer
(`Spec/HtmlTok`) after `p`.

The proof is a simulation: `R text s r` (`LexCtxSimBasic`) relates the lexer state `s` at position
`s.pos` with the reference state `r = rs text s.pos` after the same number of bytes; every `cstep`
from a related state before the hole leads to a related state, never passes the hole, and either
advances or leaves an unquoted-attribute context (`StepOK`); `crun_sim` lifts this to `crun`, and
`R_readout` reads context and URL flag off `R` at the hole. One step is proved per lexer context:
`step_html`, `step_tag`, `step_attr` (`LexCtxSimTag`, with the inner loops in `LexCtxSimLoops`),
`step_js` (`LexCtxSimJs`), `step_css` (`LexCtxSimCss`); the end tags `</script` / `</style` are in
`LexCtxSimEnd`.

The step lemmas and `crun_sim` are stated for the NEXT hole after an offset `lo` (`Hole text lo n`:
no delimiter starts in `[lo, n)`, the reference run over the real text stays in `D` up to `n`); the
three theorems here are the case `lo = 0`. `LexCtxAll*` use the general form for every later hole.
Core Lean only. -/
namespace ScriggoV.LexCtx
open ScriggoV ScriggoV.Lexer ScriggoV.Gen.LexTables ScriggoV.HtmlTok

/-- one step from a related state whose reference state is not inside script / style content -/
theorem step_noraw {U : Unicode} {text : Bytes} {lo n : Nat} (H : Hole text lo n) {s : CSt} (hlt : s.pos < n)
    (hR : R text s (rs text s.pos)) (hnr : noRaw (rs text s.pos) = true) : StepOK U text n s := by
  rcases hR with ⟨h1, h2, h3⟩ | ⟨h1, h2, h3⟩ | ⟨h1, h2⟩ | ⟨k, m, h, _⟩ | ⟨k, m, h, _⟩
  · exact step_html H hlt h1 h2 h3
  · exact step_tag H hlt h1 h2 h3
  · exact step_attr H hlt h1 h2
  · rw [h] at hnr; simp [noRaw] at hnr
  · rw [h] at hnr; simp [noRaw] at hnr

/-- the predicate of `noStyle` -/
def notCss (r : RSt) : Bool :=
  match r with
  | .raw (.css _) _ => false
  | _ => true

/-- one step from a related state whose reference state is not inside style content -/
theorem step_nocss {U : Unicode} {text : Bytes} {lo n : Nat} (H : Hole text lo n) {s : CSt} (hlt : s.pos < n)
    (hR : R text s (rs text s.pos)) (hnr : notCss (rs text s.pos) = true) : StepOK U text n s := by
  rcases hR with ⟨h1, h2, h3⟩ | ⟨h1, h2, h3⟩ | ⟨h1, h2⟩ | ⟨k, m, h, h4, h5, h6, h7, h8⟩ | ⟨k, m, h, _⟩
  · exact step_html H hlt h1 h2 h3
  · exact step_tag H hlt h1 h2 h3
  · exact step_attr H hlt h1 h2
  · exact step_js H hlt h h4 h5 h6 h7 h8
  · rw [h] at hnr; simp [notCss] at hnr

/-- one step from a related state -/
theorem step_all {U : Unicode} {text : Bytes} {lo n : Nat} (H : Hole text lo n) {s : CSt} (hlt : s.pos < n)
    (hR : R text s (rs text s.pos)) : StepOK U text n s := by
  rcases hR with ⟨h1, h2, h3⟩ | ⟨h1, h2, h3⟩ | ⟨h1, h2⟩ | ⟨k, m, h, h4, h5, h6, h7, h8⟩ |
    ⟨k, m, h, h4, h5, h6, h7, h8, h9⟩
  · exact step_html H hlt h1 h2 h3
  · exact step_tag H hlt h1 h2 h3
  · exact step_attr H hlt h1 h2
  · exact step_js H hlt h h4 h5 h6 h7 h8
  · exact step_css H hlt h h4 h5 h6 h7 h8 h9

/-- Stage 1: `p` never enters a script or style element. -/
theorem ctx_agree_pure_html (U : Lexer.Unicode) (p t : Bytes) (ht : startsDelim t)
    (hfree : delimFree (p ++ t) p.length) (hhtml : HtmlTok.htmlOnly p = true)
    (c : HtmlTok.Ctx) (u : Bool) (habs : HtmlTok.abs Lexer.containsURL (HtmlTok.run p) = some (c, u)) :
    (ctxAt U (p ++ t) p.length).pos = p.length ∧ (ctxAt U (p ++ t) p.length).ctx = ctxNat c ∧
      (ctxAt U (p ++ t) p.length).url = u := by
  apply ctx_agree_of_step ht hfree habs
  intro H s hlt hR
  exact step_noraw H hlt hR (rs_of_trace_all noRaw rfl p t hhtml _ (Nat.le_of_lt hlt))

/-- Stage 2: `p` never enters a style element (scripts allowed). -/
theorem ctx_agree_pure_script (U : Lexer.Unicode) (p t : Bytes) (ht : startsDelim t)
    (hfree : delimFree (p ++ t) p.length) (hns : HtmlTok.noStyle p = true)
    (c : HtmlTok.Ctx) (u : Bool) (habs : HtmlTok.abs Lexer.containsURL (HtmlTok.run p) = some (c, u)) :
    (ctxAt U (p ++ t) p.length).pos = p.length ∧ (ctxAt U (p ++ t) p.length).ctx = ctxNat c ∧
      (ctxAt U (p ++ t) p.length).url = u := by
  apply ctx_agree_of_step ht hfree habs
  intro H s hlt hR
  exact step_nocss H hlt hR (rs_of_trace_all notCss rfl p t hns _ (Nat.le_of_lt hlt))

/-- The context machine of the lexer, run over the delimiter-free prefix `p` (in the class `D` of the
reference tokenizer, at a point where `abs` makes a claim) of a template whose next bytes open a
hole, stops exactly at the hole, in the context and with the URL flag that abstract the state of the
reference tokenizer after `p`. -/
theorem ctx_agree_pure (U : Lexer.Unicode) (p t : Bytes) (ht : startsDelim t)
    (hfree : delimFree (p ++ t) p.length)
    (c : HtmlTok.Ctx) (u : Bool) (habs : HtmlTok.abs Lexer.containsURL (HtmlTok.run p) = some (c, u)) :
    (ctxAt U (p ++ t) p.length).pos = p.length ∧ (ctxAt U (p ++ t) p.length).ctx = ctxNat c ∧
      (ctxAt U (p ++ t) p.length).url = u := by
  apply ctx_agree_of_step ht hfree habs
  intro H s hlt hR
  exact step_all H hlt hR

end ScriggoV.LexCtx
