import ScriggoV.Model.URLRender
/-! The renderer's URL state machine from C07's point of view: when is a shown value written
with `queryEscape`? -/
namespace ScriggoV.URLRender
open ScriggoV ScriggoV.URLState

/-- the flags only make sense nested: `addAmpersand → removeQuestionMark → query` -/
def Inv (r : State) : Prop :=
  (r.addAmpersand = true → r.removeQuestionMark = true) ∧ (r.removeQuestionMark = true → r.query = true)

/-- inside a URL, in the query, and no "a value has just started the query" flags pending -/
def Settled (r : State) : Prop :=
  r.inURL = true ∧ r.query = true ∧ r.removeQuestionMark = false ∧ r.addAmpersand = false

/-- not a `Text` of a `srcset`-like attribute (those reset `query` at a comma) -/
def notSet : Call → Bool
  | .text _ _ isSet => !isSet
  | _ => true

/-- a call inside a URL attribute that is not a set attribute -/
def urlCall : Call → Bool
  | .text _ inURL isSet => inURL && !isSet
  | .show _ inURL _ => inURL
  | .showErr inURL => inURL

/-- `bytes.ContainsAny(txt, "?#")` -/
def hasQ (txt : Bytes) : Bool := txt.any (fun c => c == 0x3F || c == 0x23)

/-- what a call writes once the state is settled -/
def tok : Call → List Out
  | .text txt _ _ => [.raw txt]
  | .show s _ _ => [.query s]
  | .showErr _ => []

theorem inv_init : Inv {} := by simp [Inv]

theorem inv_enter (r : State) (b : Bool) (h : Inv r) : Inv (enter r b) := by
  unfold enter
  split
  · cases b <;> simp_all [Inv, endURL]
  · exact h

theorem enter_inURL (r : State) (b : Bool) : (enter r b).inURL = b := by
  unfold enter
  split
  · cases b <;> simp [endURL]
  · rename_i h; simpa using h

theorem enter_of_inURL (r : State) (h : r.inURL = true) : enter r true = r := by
  simp [enter, h]

theorem textQuery_state (r r' : State) (txt : Bytes) (o : List Out)
    (h : textQuery r txt = .ok (r', o)) :
    r' = { r with removeQuestionMark := false, addAmpersand := false } := by
  unfold textQuery at h
  simp only [bind, Except.bind, pure, Except.pure] at h
  cases hr : r.removeQuestionMark <;> simp only [hr] at h
  · simp at h; exact h.1.symm
  · cases hg : getAt txt 0 with
    | error f => simp [hg] at h
    | ok v => simp [hg] at h; exact h.1.symm

/-- the nesting of the flags is kept by every call that is not a set-attribute `Text` -/
theorem inv_step (r r' : State) (o : List Out) (c : Call) (hi : Inv r) (hc : notSet c = true)
    (h : step r c = .ok (r', o)) : Inv r' := by
  have he : ∀ b, Inv (enter r b) := fun b => inv_enter r b hi
  cases c with
  | text txt inURL isSet =>
    simp only [notSet, Bool.not_eq_true'] at hc
    subst hc
    simp only [step, text, Bool.false_and, Bool.false_eq_true, if_false] at h
    have hE := he inURL
    generalize enter r inURL = e at h hE
    cases inURL with
    | false => simp at h; obtain ⟨h1, _⟩ := h; subst h1; exact hE
    | true =>
      simp only [if_true] at h
      split at h
      · rw [textQuery_state _ _ _ _ h]; simp [Inv]
      · rename_i hq
        simp at h; obtain ⟨h1, _⟩ := h; subst h1
        obtain ⟨ha, hb⟩ := hE
        have hq' : e.query = false := by simpa using hq
        have hr : e.removeQuestionMark = false := by
          cases hx : e.removeQuestionMark with
          | false => rfl
          | true => rw [hb hx] at hq'; cases hq'
        have haa : e.addAmpersand = false := by
          cases hx : e.addAmpersand with
          | false => rfl
          | true => rw [ha hx] at hr; cases hr
        simp [Inv, hr, haa]
  | «show» s inURL quoted =>
    simp only [step] at h
    have hE := he inURL
    generalize enter r inURL = e at h hE
    cases inURL with
    | false => simp at h; obtain ⟨h1, _⟩ := h; subst h1; exact hE
    | true =>
      simp only [if_true, showInURL] at h
      split at h
      · split at h
        · unfold showRemoveQ at h
          rename_i hq hr
          split at h
          · simp only [bind, Except.bind, pure, Except.pure] at h
            split at h
            · cases h
            · simp at h; obtain ⟨h1, _⟩ := h; subst h1; simp [Inv, hq, hr]
          · simp at h; obtain ⟨h1, _⟩ := h; subst h1; exact hE
        · simp at h; obtain ⟨h1, _⟩ := h; subst h1; exact hE
      · split at h
        · unfold showStartQuery at h
          simp only [bind, Except.bind, pure, Except.pure] at h
          split at h
          · cases h
          · simp at h; obtain ⟨h1, _⟩ := h; subst h1
            split <;> simp [Inv]
        · simp at h; obtain ⟨h1, _⟩ := h; subst h1; exact hE
  | showErr inURL =>
    simp only [step] at h
    simp at h; obtain ⟨h1, _⟩ := h; subst h1; exact he inURL

/-- a literal text inside the URL settles the state as soon as the URL has a query: because
the query had started before, or because this text contains `?` or `#` -/
theorem settle_text (r r' : State) (o : List Out) (txt : Bytes) (hi : Inv r) (hu : r.inURL = true)
    (h : step r (.text txt true false) = .ok (r', o)) (hq : r.query = true ∨ hasQ txt = true) :
    Settled r' := by
  simp only [step, text, enter_of_inURL r hu, if_true, Bool.false_and, Bool.false_eq_true,
    if_false] at h
  split at h
  · rename_i hqq
    rw [textQuery_state _ _ _ _ h]
    simp [Settled, hu, hqq]
  · rename_i hqq
    have hq' : hasQ txt = true := by
      rcases hq with hq | hq
      · exact absurd hq hqq
      · exact hq
    simp at h; obtain ⟨h1, _⟩ := h; subst h1
    obtain ⟨ha, hb⟩ := hi
    have hqf : r.query = false := by simpa using hqq
    have hr : r.removeQuestionMark = false := by
      cases hx : r.removeQuestionMark with
      | false => rfl
      | true => rw [hb hx] at hqf; cases hqf
    have haa : r.addAmpersand = false := by
      cases hx : r.addAmpersand with
      | false => rfl
      | true => rw [ha hx] at hr; cases hr
    unfold hasQ at hq'
    simp [Settled, hu, hr, haa, hq']

/-- in a settled state a literal text is written as it is and a value is query-escaped; the
state stays settled; nothing can fault -/
theorem settled_step (r : State) (c : Call) (hs : Settled r) (hc : urlCall c = true) :
    ∃ r', step r c = .ok (r', tok c) ∧ Settled r' := by
  obtain ⟨hu, hq, hr, ha⟩ := hs
  cases c with
  | text txt inURL isSet =>
    simp only [urlCall, Bool.and_eq_true, Bool.not_eq_true'] at hc
    obtain ⟨h1, h2⟩ := hc
    subst h1 h2
    refine ⟨r, ?_, hu, hq, hr, ha⟩
    simp only [step, text, enter_of_inURL r hu, if_true, Bool.false_and, Bool.false_eq_true,
      if_false, hq, textQuery, hr, ha, tok]
    simp [bind, Except.bind, pure, Except.pure]
    cases r; simp_all
  | «show» s inURL quoted =>
    simp only [urlCall] at hc
    subst hc
    refine ⟨r, ?_, hu, hq, hr, ha⟩
    simp [step, enter_of_inURL r hu, showInURL, hq, hr, tok]
  | showErr inURL =>
    simp only [urlCall] at hc
    subst hc
    exact ⟨r, by simp [step, enter_of_inURL r hu, tok], hu, hq, hr, ha⟩

theorem settled_run (cs : List Call) : ∀ r, Settled r → (∀ c ∈ cs, urlCall c = true) →
    ∃ r', runFrom r cs = .ok (r', cs.flatMap tok) ∧ Settled r' := by
  induction cs with
  | nil => intro r hs _; exact ⟨r, rfl, hs⟩
  | cons c cs ih =>
    intro r hs hc
    obtain ⟨r1, h1, hs1⟩ := settled_step r c hs (hc c List.mem_cons_self)
    obtain ⟨r2, h2, hs2⟩ := ih r1 hs1 (fun x hx => hc x (List.mem_cons_of_mem _ hx))
    refine ⟨r2, ?_, hs2⟩
    simp [runFrom, h1, h2, bind, Except.bind, pure, Except.pure]

theorem runFrom_append (a b : List Call) : ∀ r,
    runFrom r (a ++ b) = (do
      let (r1, o1) ← runFrom r a
      let (r2, o2) ← runFrom r1 b
      pure (r2, o1 ++ o2)) := by
  induction a with
  | nil =>
    intro r
    simp only [List.nil_append, runFrom, bind, Except.bind, pure, Except.pure]
    cases runFrom r b with
    | error f => rfl
    | ok p => simp
  | cons c a ih =>
    intro r
    simp only [List.cons_append, runFrom, bind, Except.bind, pure, Except.pure]
    cases step r c with
    | error f => rfl
    | ok p =>
      obtain ⟨r1, o1⟩ := p
      simp only [ih r1, bind, Except.bind, pure, Except.pure]
      cases runFrom r1 a with
      | error f => rfl
      | ok p2 =>
        obtain ⟨r2, o2⟩ := p2
        simp only []
        cases runFrom r2 b with
        | error f => rfl
        | ok p3 => simp

theorem inv_run (cs : List Call) : ∀ r r' o, Inv r → (∀ c ∈ cs, notSet c = true) →
    runFrom r cs = .ok (r', o) → Inv r' := by
  induction cs with
  | nil => intro r r' o hi _ h; simp [runFrom] at h; rw [← h.1]; exact hi
  | cons c cs ih =>
    intro r r' o hi hc h
    simp only [runFrom, bind, Except.bind, pure, Except.pure] at h
    cases h1 : step r c with
    | error f => simp [h1] at h
    | ok p =>
      obtain ⟨r1, o1⟩ := p
      simp only [h1] at h
      cases h2 : runFrom r1 cs with
      | error f => simp [h2] at h
      | ok p2 =>
        obtain ⟨r2, o2⟩ := p2
        simp [h2] at h
        rw [← h.1]
        exact ih r1 r2 o2 (inv_step r r1 o1 c hi (hc c List.mem_cons_self) h1)
          (fun x hx => hc x (List.mem_cons_of_mem _ hx)) h2

end ScriggoV.URLRender
