import ScriggoV.Model.Paths
import ScriggoV.Lemmas.PathsSegs
/-! `ValidTemplatePath` and `rooted` (C18): the loops never fault, the shape of a valid
template path, `path.Dir` of a rooted path, and `rooted` against the element walk. -/
namespace ScriggoV.Paths
open ScriggoV.GoPath

/-- a valid file system path other than `.` — what every name on the `paths` stack is -/
def ValidRooted (p : Bytes) : Prop := validPath p = true ∧ p ≠ dotSeg

/-! ### ValidTemplatePath never faults; closed form -/

/-- `path` without its leading `../`s -/
def stripAll : Bytes → Bytes
  | a :: b :: c :: rest => if a = 46 ∧ b = 46 ∧ c = 47 then stripAll rest else a :: b :: c :: rest
  | p => p

theorem hasPrefix_dds (p : Bytes) :
    hasPrefix p dotdotSlash = true ↔ ∃ rest, p = 46 :: 46 :: 47 :: rest := by
  unfold hasPrefix dotdotSlash
  constructor
  · intro h
    match p, h with
    | a :: b :: c :: rest, h =>
      simp [List.isPrefixOf] at h
      obtain ⟨h1, h2, h3⟩ := h
      exact ⟨rest, by rw [← h1, ← h2, ← h3]⟩
    | [], h => simp [List.isPrefixOf] at h
    | [_], h => simp [List.isPrefixOf] at h
    | [_, _], h => simp [List.isPrefixOf] at h
  · rintro ⟨rest, rfl⟩
    simp [List.isPrefixOf]

theorem stripAll_of_not_prefix (p : Bytes) (h : hasPrefix p dotdotSlash = false) :
    stripAll p = p := by
  match p with
  | a :: b :: c :: rest =>
    unfold stripAll
    split
    · rename_i habc
      obtain ⟨rfl, rfl, rfl⟩ := habc
      have := (hasPrefix_dds (46 :: 46 :: 47 :: rest)).2 ⟨rest, rfl⟩
      rw [this] at h; cases h
    · rfl
  | [] => rfl
  | [_] => rfl
  | [_, _] => rfl

theorem stripUps_eq : ∀ (fuel : Nat) (p : Bytes), p.length ≤ fuel →
    stripUps fuel p = .ok (stripAll p) := by
  intro fuel
  induction fuel with
  | zero =>
    intro p hp
    have : p = [] := by
      cases p with
      | nil => rfl
      | cons _ _ => simp at hp
    subst this
    rfl
  | succ n ih =>
    intro p hp
    unfold stripUps
    by_cases h : hasPrefix p dotdotSlash = true
    · obtain ⟨rest, rfl⟩ := (hasPrefix_dds p).1 h
      simp only [h, if_true]
      have hs : sliceOf (46 :: 46 :: 47 :: rest) 3 (46 :: 46 :: 47 :: rest).length = .ok rest := by
        unfold sliceOf
        rw [if_pos (by simp), List.take_length]
        rfl
      rw [hs]
      simp only
      rw [ih rest (by simp at hp; omega)]
      simp [stripAll]
    · have h' : hasPrefix p dotdotSlash = false := by simpa using h
      simp only [h', Bool.false_eq_true, if_false]
      rw [stripAll_of_not_prefix p h']

/-- closed form of `ValidTemplatePath` -/
def vtpSpec (name : Bytes) : Bool :=
  let p := if isAbs name then name.drop 1 else stripAll name
  !(p == dotSeg) && validPath p

theorem vtpStrip_eq (name : Bytes) :
    vtpStrip name = .ok (if isAbs name then name.drop 1 else stripAll name) := by
  unfold vtpStrip
  cases name with
  | nil => simp [isAbs, stripUps_eq]
  | cons c cs =>
    simp only [List.length_cons, Nat.zero_lt_succ, if_true, getAt]
    simp only [List.getElem?_cons_zero]
    by_cases hc : c = 47
    · subst hc
      have : sliceOf (47 :: cs) 1 (cs.length + 1) = .ok cs := by
        unfold sliceOf
        rw [if_pos (by simp)]
        have : (47 :: cs).take (cs.length + 1) = 47 :: cs := by
          simp [List.take_length]
        rw [this]; rfl
      simp [isAbs, this]
    · have h1 : (c == 47) = false := by simpa using hc
      have h2 : isAbs (c :: cs) = false := by simp [isAbs, hc]
      simp only [h1, h2, Bool.false_eq_true, if_false]
      exact stripUps_eq _ _ (by simp)

/-- **`ValidTemplatePath` never faults** and equals its closed form -/
theorem validTemplatePath_eq (name : Bytes) : validTemplatePath name = .ok (vtpSpec name) := by
  unfold validTemplatePath vtpSpec
  rw [vtpStrip_eq]
  simp only
  generalize (if isAbs name = true then List.drop 1 name else stripAll name) = p
  by_cases hp : p = dotSeg
  · simp [hp]
  · have : (p == dotSeg) = false := by simpa using hp
    simp [this]

/-- shape of a valid template path -/
theorem vtp_cases (name : Bytes) (h : validTemplatePath name = .ok true) :
    (∃ v, name = 47 :: v ∧ ValidRooted v) ∨
    (isAbs name = false ∧ ValidRooted (stripAll name)) := by
  rw [validTemplatePath_eq] at h
  have h : vtpSpec name = true := by simpa using h
  unfold vtpSpec at h
  by_cases ha : isAbs name = true
  · left
    cases name with
    | nil => simp [isAbs] at ha
    | cons c cs =>
      have : c = 47 := by simpa [isAbs] using ha
      subst this
      simp only [ha, if_true, List.drop_succ_cons, List.drop_zero] at h
      refine ⟨cs, rfl, ?_⟩
      simp only [Bool.and_eq_true, Bool.not_eq_true', beq_eq_false_iff_ne] at h
      exact ⟨h.2, h.1⟩
  · right
    have ha' : isAbs name = false := by simpa using ha
    simp only [ha', Bool.false_eq_true, if_false] at h
    simp only [Bool.and_eq_true, Bool.not_eq_true', beq_eq_false_iff_ne] at h
    exact ⟨ha', h.2, h.1⟩

/-! ### elements of valid paths -/

theorem validRooted_segs (p : Bytes) (h : ValidRooted p) :
    (∀ s ∈ splitSlash p, Normal s) ∧ (∀ s ∈ splitSlash p, validUTF8 s = true) := by
  obtain ⟨hv, hd⟩ := h
  unfold validPath at hv
  have hd' : (p == dotSeg) = false := by simpa using hd
  simp only [hd', Bool.false_or, Bool.and_eq_true] at hv
  obtain ⟨hu, hall⟩ := hv
  rw [validUTF8_iff_segs] at hu
  rw [List.all_eq_true] at hu hall
  exact ⟨fun s hs => (okElem_iff s).1 (hall s hs), hu⟩

theorem validRooted_of_segs (segs : List Bytes) (hne : segs ≠ [])
    (hn : ∀ s ∈ segs, Normal s) (hs : ∀ s ∈ segs, NoSlash s) (hu : ∀ s ∈ segs, validUTF8 s = true) :
    ValidRooted (joinSlash segs) ∧ splitSlash (joinSlash segs) = segs := by
  have hsp := splitSlash_joinSlash segs hne hs
  refine ⟨⟨?_, ?_⟩, hsp⟩
  · unfold validPath
    rw [validUTF8_joinSlash, hsp]
    simp only [Bool.and_eq_true, Bool.or_eq_true]
    refine ⟨List.all_eq_true.2 hu, Or.inr (List.all_eq_true.2 fun s hs' => (okElem_iff s).2 (hn s hs'))⟩
  · intro he
    rw [he] at hsp
    have : splitSlash dotSeg = [dotSeg] := by decide
    rw [this] at hsp
    have := hn dotSeg (by rw [← hsp]; simp)
    exact this.2.1 rfl

theorem splitSlash_stripAll (p : Bytes) :
    ∃ k, splitSlash p = List.replicate k dotdot ++ splitSlash (stripAll p) := by
  induction p using stripAll.induct with
  | case1 a b c rest habc ih =>
    obtain ⟨rfl, rfl, rfl⟩ := habc
    obtain ⟨k, hk⟩ := ih
    refine ⟨k + 1, ?_⟩
    have h1 : stripAll (46 :: 46 :: 47 :: rest) = stripAll rest := by simp [stripAll]
    have h2 : splitSlash (46 :: 46 :: 47 :: rest) = dotdot :: splitSlash rest := by
      have := splitSlash_append_slash [46, 46] rest
      simp only [List.cons_append, List.nil_append] at this
      rw [this]; rfl
    rw [h1, h2, hk, List.replicate_succ]; rfl
  | case2 a b c rest hn =>
    refine ⟨0, ?_⟩
    simp [stripAll, hn]
  | case3 p hp =>
    refine ⟨0, ?_⟩
    have : stripAll p = p := by
      unfold stripAll
      split
      · rename_i a b c rest
        exact (hp a b c rest rfl).elim
      · rfl
    simp [this]

/-- elements of a valid relative reference: `..`s then normal ones, the last one normal -/
theorem relSegs (name : Bytes) (h : ValidRooted (stripAll name)) :
    (∀ s ∈ splitSlash name, Normal s ∨ s = dotdot) ∧
    (∀ s ∈ splitSlash name, validUTF8 s = true) ∧
    (∃ init l, splitSlash name = init ++ [l] ∧ Normal l) := by
  obtain ⟨k, hk⟩ := splitSlash_stripAll name
  obtain ⟨hn, hu⟩ := validRooted_segs _ h
  refine ⟨?_, ?_, ?_⟩
  · intro s hs
    rw [hk, List.mem_append] at hs
    rcases hs with hs | hs
    · right; exact (List.mem_replicate.1 hs).2
    · left; exact hn s hs
  · intro s hs
    rw [hk, List.mem_append] at hs
    rcases hs with hs | hs
    · rw [(List.mem_replicate.1 hs).2]; decide
    · exact hu s hs
  · have hne := splitSlash_ne_nil (stripAll name)
    refine ⟨List.replicate k dotdot ++ (splitSlash (stripAll name)).dropLast,
      (splitSlash (stripAll name)).getLast hne, ?_, ?_⟩
    · rw [hk, List.append_assoc, List.dropLast_concat_getLast]
    · exact hn _ (List.getLast_mem hne)

/-! ### `path.Dir` of a rooted path -/

theorem head_joinSlash (s : Bytes) (ss : List Bytes) (hs : s ≠ []) :
    (joinSlash (s :: ss)).head? = s.head? := by
  cases s with
  | nil => exact absurd rfl hs
  | cons c cs =>
    cases ss with
    | nil => rfl
    | cons t ts => rfl

theorem isAbs_joinSlash (s : Bytes) (ss : List Bytes) (hs : s ≠ []) (hn : NoSlash s) :
    isAbs (joinSlash (s :: ss)) = false := by
  unfold isAbs
  rw [head_joinSlash s ss hs]
  cases s with
  | nil => exact absurd rfl hs
  | cons c cs =>
    have : c ≠ 47 := by intro e; apply hn; simp [e]
    simp [this]

theorem joinSlash_ne_nil (s : Bytes) (ss : List Bytes) (hs : s ≠ []) : joinSlash (s :: ss) ≠ [] := by
  intro h
  have := head_joinSlash s ss hs
  rw [h] at this
  cases s with
  | nil => exact hs rfl
  | cons c cs => simp at this

/-- the stack `Clean` starts the reference's elements from, after the directory of `parent` -/
theorem join_dir (parent name : Bytes) (hp : ValidRooted parent) (hn : name ≠ [])
    (_hrel : isAbs name = false) :
    join2 (dir parent) name =
      (let st := cleanSegs false (dirSegs parent).reverse (splitSlash name)
       if st = [] then dotSeg else joinSlash st.reverse) := by
  obtain ⟨hnorm, _⟩ := validRooted_segs parent hp
  have hnos := noSlash_of_mem_splitSlash parent
  unfold dir dirPart dirSegs
  cases hinit : (splitSlash parent).dropLast with
  | nil =>
    -- Dir = "."
    have hclean : clean [] = dotSeg := rfl
    simp only [hclean]
    unfold join2
    have h1 : dotSeg ≠ [] := by decide
    simp only [h1, hn, if_false]
    unfold clean
    have h2 : dotSeg ++ 47 :: name ≠ [] := by simp [dotSeg]
    have h3 : isAbs (dotSeg ++ 47 :: name) = false := by simp [dotSeg, isAbs]
    simp only [h2, h3, if_false, Bool.false_eq_true]
    rw [splitSlash_append_slash]
    have h4 : splitSlash dotSeg = [dotSeg] := by decide
    rw [h4]
    simp only [List.cons_append, List.nil_append, cleanSegs_cons, cleanStep_dot, List.reverse_nil]
    rfl
  | cons s ss =>
    have hmem : ∀ x ∈ s :: ss, x ∈ splitSlash parent := by
      intro x hx
      rw [← hinit] at hx
      exact List.dropLast_subset _ hx
    have hs : Normal s := hnorm s (hmem s (by simp))
    have hsn : NoSlash s := hnos s (hmem s (by simp))
    -- Dir = the elements but the last
    have hsplit : splitSlash (joinSlash (s :: ss)) = s :: ss :=
      splitSlash_joinSlash _ (by simp) (fun x hx => hnos x (hmem x hx))
    have hallnorm : ∀ x ∈ s :: ss, Normal x := fun x hx => hnorm x (hmem x hx)
    have hdir : clean (joinSlash (s :: ss) ++ [47]) = joinSlash (s :: ss) := by
      unfold clean
      have h2 : joinSlash (s :: ss) ++ [47] ≠ [] := by simp
      have h3 : isAbs (joinSlash (s :: ss) ++ [47]) = false := by
        have := isAbs_joinSlash s ss hs.1 hsn
        unfold isAbs at this ⊢
        have hne := joinSlash_ne_nil s ss hs.1
        cases hj : joinSlash (s :: ss) with
        | nil => exact absurd hj hne
        | cons c cs => rw [hj] at this; simpa using this
      simp only [h2, h3, if_false, Bool.false_eq_true]
      rw [splitSlash_append_slash, hsplit, cleanSegs_append, cleanSegs_normal false _ hallnorm]
      simp only [List.append_nil]
      have : splitSlash [] = [[]] := rfl
      rw [this, cleanSegs_cons, cleanStep_empty]
      simp [cleanSegs]
    simp only [hdir]
    unfold join2
    have h1 : joinSlash (s :: ss) ≠ [] := joinSlash_ne_nil s ss hs.1
    simp only [h1, hn, if_false]
    unfold clean
    have h2 : joinSlash (s :: ss) ++ 47 :: name ≠ [] := by simp
    have h3 : isAbs (joinSlash (s :: ss) ++ 47 :: name) = false := by
      have := isAbs_joinSlash s ss hs.1 hsn
      unfold isAbs at this ⊢
      cases hj : joinSlash (s :: ss) with
      | nil => exact absurd hj h1
      | cons c cs => rw [hj] at this; simpa using this
    simp only [h2, h3, if_false, Bool.false_eq_true]
    rw [splitSlash_append_slash, hsplit, cleanSegs_append, cleanSegs_normal false _ hallnorm]
    simp only [List.append_nil]

theorem walk_mem (segs : List Bytes) : ∀ stack res, walk stack segs = some res →
    ∀ s ∈ res, s ∈ stack ∨ s ∈ segs := by
  induction segs with
  | nil =>
    intro stack res h s hs
    simp only [walk, Option.some.injEq] at h
    subst h
    left; simpa using hs
  | cons x xs ih =>
    intro stack res h s hs
    by_cases hd : x = dotdot
    · subst hd
      cases stack with
      | nil => simp [walk] at h
      | cons t ts =>
        have : walk (t :: ts) (dotdot :: xs) = walk ts xs := by simp [walk]
        rw [this] at h
        rcases ih ts res h s hs with h' | h'
        · left; exact List.mem_cons_of_mem _ h'
        · right; exact List.mem_cons_of_mem _ h'
    · have : walk stack (x :: xs) = walk (x :: stack) xs := by simp [walk, hd]
      rw [this] at h
      rcases ih _ res h s hs with h' | h'
      · simp only [List.mem_cons] at h'
        rcases h' with rfl | h'
        · right; simp
        · left; exact h'
      · right; exact List.mem_cons_of_mem _ h'

theorem hasPrefix_joinSlash_dotdot (rest : List Bytes) :
    hasPrefix (joinSlash (dotdot :: rest)) dotdot = true := by
  cases rest with
  | nil => decide
  | cons t ts =>
    rw [joinSlash_cons_cons]
    simp [hasPrefix, dotdot, List.isPrefixOf]

/-- **`rooted` on a relative reference, against the element walk** -/
theorem rooted_rel (parent name : Bytes) (hp : ValidRooted parent)
    (hrel : isAbs name = false) (hv : ValidRooted (stripAll name)) :
    (resolve parent name = none → rooted parent name = .error .notExist) ∧
    (∀ res, resolve parent name = some res →
      ValidRooted (joinSlash res) ∧ splitSlash (joinSlash res) = res ∧
      rooted parent name =
        if hasPrefix (joinSlash res) dotdot then .error .notExist else .ok (joinSlash res)) := by
  obtain ⟨hsegs, hutf, init, l, hlast, hl⟩ := relSegs name hv
  obtain ⟨hpn, hpu⟩ := validRooted_segs parent hp
  have hne : name ≠ [] := by
    intro e
    rw [e] at hlast
    have : splitSlash [] = [[]] := rfl
    rw [this] at hlast
    have h1 : l = [] := by
      have := congrArg List.getLast? hlast
      simp at this
      exact this
    exact hl.1 h1
  have hstack : ∀ s ∈ (dirSegs parent).reverse, Normal s := by
    intro s hs
    rw [List.mem_reverse] at hs
    exact hpn s (List.dropLast_subset _ hs)
  have hres : resolve parent name = walk (dirSegs parent).reverse (splitSlash name) := by
    simp [resolve, hrel]
  obtain ⟨hsome, hnone⟩ := cleanSegs_walk (splitSlash name) hsegs (dirSegs parent).reverse hstack
  have hroot : rooted parent name =
      (let r := join2 (dir parent) name
       if hasPrefix r dotdot then .error .notExist else .ok r) := by
    simp [rooted, hrel]
  rw [hres]
  constructor
  · intro hw
    have hb := hnone hw
    rw [hroot, join_dir parent name hp hne hrel]
    simp only
    cases hst : cleanSegs false (dirSegs parent).reverse (splitSlash name) with
    | nil => rw [hst] at hb; simp at hb
    | cons t ts =>
      rw [hst] at hb
      have : (t :: ts).reverse = dotdot :: ((t :: ts).reverse).tail := by
        have h1 : (t :: ts).reverse.head? = some dotdot := by
          rw [List.head?_reverse]; exact hb
        cases hr : (t :: ts).reverse with
        | nil => simp at hr
        | cons u us => rw [hr] at h1; simp at h1; simp [h1]
      simp only [List.cons_ne_nil, if_false]
      rw [this, hasPrefix_joinSlash_dotdot]
      simp
  · intro res hw
    obtain ⟨hc, hnorm⟩ := hsome res hw
    have hresne : res ≠ [] := by
      rw [hlast] at hw
      exact walk_last_normal init l hl _ res hw
    have hmem := walk_mem _ _ _ hw
    have hnos : ∀ s ∈ res, NoSlash s := by
      intro s hs
      rcases hmem s hs with h | h
      · rw [List.mem_reverse] at h
        exact noSlash_of_mem_splitSlash parent s (List.dropLast_subset _ h)
      · exact noSlash_of_mem_splitSlash name s h
    have hu : ∀ s ∈ res, validUTF8 s = true := by
      intro s hs
      rcases hmem s hs with h | h
      · rw [List.mem_reverse] at h
        exact hpu s (List.dropLast_subset _ h)
      · exact hutf s h
    obtain ⟨hvr, hsp⟩ := validRooted_of_segs res hresne hnorm hnos hu
    refine ⟨hvr, hsp, ?_⟩
    rw [hroot, join_dir parent name hp hne hrel]
    simp only
    rw [hc]
    have : res.reverse ≠ [] := by simpa using hresne
    simp [this]

/-- **`rooted` on an absolute reference** -/
theorem rooted_abs (parent v : Bytes) :
    rooted parent (47 :: v) = .ok v ∧ resolve parent (47 :: v) = some (splitSlash v) := by
  constructor
  · unfold rooted
    have : sliceOf (47 :: v) 1 (47 :: v).length = .ok v := by
      unfold sliceOf
      rw [if_pos (by simp), List.take_length]
      rfl
    rw [if_pos (by simp [isAbs]), this]
  · simp [resolve, isAbs]

/-- `rooted` never faults -/
theorem rooted_no_fault (parent name : Bytes) (f : Fault) : rooted parent name ≠ .error (.fault f) := by
  unfold rooted
  split
  · rename_i h
    cases name with
    | nil => simp [isAbs] at h
    | cons c cs =>
      have : sliceOf (c :: cs) 1 (c :: cs).length = .ok cs := by
        unfold sliceOf
        rw [if_pos (by simp), List.take_length]
        rfl
      rw [this]
      intro h; cases h
  · simp only
    split <;> intro h <;> cases h

end ScriggoV.Paths
