import ScriggoV.Lemmas.ShowValue
/-! C08 helper lemmas, part 5: map keys come out sorted, as a permutation of the stringified
keys (so keys that collide after stringification are all emitted, next to each other); and the
`std` flag of `abs` only matters where one of the listed encoding/json clauses applies. -/
namespace ScriggoV.ShowValue
open ScriggoV ScriggoV.JSON ScriggoV.Gen.ShowJS

/-! ### the order -/
theorem bytesLe_total : ∀ (a b : Bytes), bytesLe a b = true ∨ bytesLe b a = true
  | [], _ => Or.inl (by rw [bytesLe])
  | _ :: _, [] => Or.inr (by rw [bytesLe])
  | a :: as, b :: bs => by
    rw [bytesLe, bytesLe]
    by_cases h1 : a.toNat < b.toNat
    · simp [h1]
    · by_cases h2 : b.toNat < a.toNat
      · simp [h1, h2]
      · simp only [h1, h2, if_false]
        exact bytesLe_total as bs

theorem bytesLe_trans : ∀ (a b c : Bytes), bytesLe a b = true → bytesLe b c = true → bytesLe a c = true
  | [], _, _, _, _ => by rw [bytesLe]
  | _ :: _, [], _, h, _ => by rw [bytesLe] at h; exact absurd h (by simp)
  | _ :: _, _ :: _, [], _, h => by rw [bytesLe] at h; exact absurd h (by simp)
  | a :: as, b :: bs, c :: cs, h1, h2 => by
    rw [bytesLe] at h1 h2 ⊢
    by_cases ab : a.toNat < b.toNat
    · by_cases bc : b.toNat < c.toNat
      · have : a.toNat < c.toNat := by omega
        simp [this]
      · by_cases cb : c.toNat < b.toNat
        · simp [bc, cb] at h2
        · have : a.toNat < c.toNat := by omega
          simp [this]
    · by_cases ba : b.toNat < a.toNat
      · simp [ab, ba] at h1
      · simp only [ab, ba, if_false] at h1
        by_cases bc : b.toNat < c.toNat
        · have : a.toNat < c.toNat := by omega
          simp [this]
        · by_cases cb : c.toNat < b.toNat
          · simp [bc, cb] at h2
          · simp only [bc, cb, if_false] at h2
            have e1 : ¬ a.toNat < c.toNat := by omega
            have e2 : ¬ c.toNat < a.toNat := by omega
            simp only [e1, e2, if_false]
            exact bytesLe_trans as bs cs h1 h2

/-- sorted by key -/
def SortedKeys {α : Type} (l : List (Bytes × α)) : Prop :=
  l.Pairwise (fun p q => bytesLe p.1 q.1 = true)

theorem sorted_insertByKey {α : Type} (p : Bytes × α) (l : List (Bytes × α)) (h : SortedKeys l) :
    SortedKeys (insertByKey p l) := by
  induction l with
  | nil => simp [insertByKey, SortedKeys]
  | cons q r ih =>
    unfold SortedKeys at h ⊢
    rw [List.pairwise_cons] at h
    simp only [insertByKey]
    split
    · rename_i hpq
      rw [List.pairwise_cons]
      refine ⟨?_, List.pairwise_cons.mpr h⟩
      intro z hz
      simp only [List.mem_cons] at hz
      rcases hz with hz | hz
      · subst hz; exact hpq
      · exact bytesLe_trans _ _ _ hpq (h.1 z hz)
    · rename_i hpq
      have hqp : bytesLe q.1 p.1 = true := by
        rcases bytesLe_total p.1 q.1 with t | t
        · exact absurd t hpq
        · exact t
      rw [List.pairwise_cons]
      refine ⟨?_, ih h.2⟩
      intro z hz
      rcases mem_insertByKey p z r hz with hz | hz
      · subst hz; exact hqp
      · exact h.1 z hz

theorem sorted_sortByKey {α : Type} (l : List (Bytes × α)) : SortedKeys (sortByKey l) := by
  induction l with
  | nil => simp [sortByKey, SortedKeys]
  | cons p r ih => rw [sortByKey]; exact sorted_insertByKey p _ ih

theorem perm_insertByKey {α : Type} (p : Bytes × α) (l : List (Bytes × α)) :
    (insertByKey p l).Perm (p :: l) := by
  induction l with
  | nil => simp [insertByKey]
  | cons q r ih =>
    simp only [insertByKey]
    split
    · exact List.Perm.refl _
    · exact (List.Perm.cons q ih).trans (List.Perm.swap p q r)

theorem perm_sortByKey {α : Type} (l : List (Bytes × α)) : (sortByKey l).Perm l := by
  induction l with
  | nil => simp [sortByKey]
  | cons p r ih => rw [sortByKey]; exact (perm_insertByKey p _).trans (List.Perm.cons p ih)

/-! ### where the encoding/json clauses matter -/

mutual
/-- none of the clauses in which Scriggo's output differs from encoding/json's data applies: no
field with the `,string` or `,omitzero` option, no embedded struct whose fields encoding/json
would promote, no nil `[]byte`, no non-nil slice of a defined byte type, and (JSON) no time
with a fraction of a second -/
def stdSame (m : Mode) : GoVal → Bool
  | .bytes isNil _ => !isNil
  | .nbytes isNil _ => isNil
  | .time t => m.isJS || t.nsec == 0
  | .verb _ _ inner => stdSame m inner
  | .iface v => stdSame m v
  | .slice _ es => stdSameL m es
  | .array es => stdSameL m es
  | .map _ _ vs => stdSameL m vs
  | .struct fs vs =>
    fs.all (fun f => !hasStringOpt f && !hasOmitzeroOpt f && !promoted f) && stdSameL m vs
  | .ptr _ _ e => stdSame m e
  | _ => true
def stdSameL (m : Mode) : List GoVal → Bool
  | [] => true
  | v :: vs => stdSame m v && stdSameL m vs
end

theorem fieldName_std (f : Field) (v : GoVal) (h : hasOmitzeroOpt f = false) :
    fieldName true f v = fieldName false f v := by
  unfold fieldName
  by_cases h1 : f.exported = true
  · by_cases h2 : f.tag.isEmpty = true
    · simp [h1, h2]
    · by_cases h3 : (f.tag == [0x2D]) = true
      · simp [h1, h2, h3]
      · have : ¬ (omitzeroLit ∈ (specTag f.tag).2) := by
          simpa [hasOmitzeroOpt, tagOpts, h2, h3] using h
        simp [h1, h2, h3, this]
  · simp [h1]

theorem fmtRFC3339Nano_whole (t : TimeRec) (h : t.nsec = 0) : fmtRFC3339Nano t = fmtRFC3339 t := by
  unfold fmtRFC3339Nano; simp [h]

mutual
theorem abs_std (m : Mode) : ∀ (v : GoVal), stdSame m v = true → abs true m v = abs false m v
  | .nil, _ => by rw [abs, abs]
  | .verb js json inner, h => by
    rw [stdSame] at h
    rw [abs, abs, abs_std m inner h]
  | .time t, h => by
    rw [stdSame] at h
    rw [abs, abs]
    cases m with
    | js => rfl
    | json =>
      have : t.nsec = 0 := by simpa [Mode.isJS] using h
      simp [Mode.isJS, fmtRFC3339Nano_whole t this]
  | .err _ _, _ => by rw [abs, abs]
  | .iface v, h => by rw [stdSame] at h; rw [abs, abs, abs_std m v h]
  | .bool _, _ => by rw [abs, abs]
  | .int _ _, _ => by rw [abs, abs]
  | .uint _ _, _ => by rw [abs, abs]
  | .float _ _ _ _, _ => by rw [abs, abs]
  | .str _, _ => by rw [abs, abs]
  | .bytes isNil b, h => by
    rw [stdSame] at h
    have : isNil = false := by simpa using h
    subst this
    rw [abs, abs]; simp
  | .nbytes isNil b, h => by
    rw [stdSame] at h
    subst h
    rw [abs, abs]; simp
  | .slice _ es, h => by rw [stdSame] at h; rw [abs, abs, absList_std m es h]
  | .array es, h => by rw [stdSame] at h; rw [abs, abs, absList_std m es h]
  | .ptr _ _ e, h => by rw [stdSame] at h; rw [abs, abs, abs_std m e h]
  | .struct fs vs, h => by
    rw [stdSame, Bool.and_eq_true] at h
    rw [abs, abs, absFields_std m fs vs h.1 h.2]
  | .map _ ks vs, h => by rw [stdSame] at h; rw [abs, abs, absList_std m vs h]
  | .other _ _, _ => by rw [abs, abs]
theorem absList_std (m : Mode) : ∀ (vs : List GoVal), stdSameL m vs = true →
    absList true m vs = absList false m vs
  | [], _ => by rw [absList, absList]
  | v :: vs, h => by
    rw [stdSameL, Bool.and_eq_true] at h
    rw [absList, absList, abs_std m v h.1, absList_std m vs h.2]
theorem absFields_std (m : Mode) : ∀ (fs : List Field) (vs : List GoVal),
    fs.all (fun f => !hasStringOpt f && !hasOmitzeroOpt f && !promoted f) = true → stdSameL m vs = true →
    absFields true m fs vs = absFields false m fs vs
  | f :: fs, v :: vs, hf, h => by
    rw [stdSameL, Bool.and_eq_true] at h
    rw [List.all_cons, Bool.and_eq_true, Bool.and_eq_true, Bool.and_eq_true] at hf
    have hs : hasStringOpt f = false := by simpa using hf.1.1.1
    have ho : hasOmitzeroOpt f = false := by simpa using hf.1.1.2
    have hp : promoted f = false := by simpa using hf.1.2
    rw [absFields_scriggo_cons, absFields.eq_def]
    simp only [hp, hs, Bool.and_false, Bool.false_eq_true, if_false, fieldName_std f v ho,
      abs_std m v h.1, absFields_std m fs vs hf.2 h.2]
    cases fieldName false f v <;> rfl
  | [], _, _, _ => by simp [absFields]
  | _ :: _, [], _, _ => by simp [absFields]
end

end ScriggoV.ShowValue
