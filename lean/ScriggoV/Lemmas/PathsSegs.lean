import ScriggoV.Spec.GoPath
/-! Lemmas about `/`-separated elements, the UTF-8 automaton and `Clean` on lists of
elements (C18). -/
namespace ScriggoV.GoPath

/-! ### split / join -/

def NoSlash (s : Bytes) : Prop := (47 : UInt8) ∉ s

theorem splitSlash_ne_nil (p : Bytes) : splitSlash p ≠ [] := by
  induction p with
  | nil => simp [splitSlash]
  | cons c cs ih =>
    unfold splitSlash
    split
    · simp
    · split <;> simp

theorem splitSlash_cons_ne (c : UInt8) (cs : Bytes) (hc : c ≠ 47) :
    ∃ s ss, splitSlash cs = s :: ss ∧ splitSlash (c :: cs) = (c :: s) :: ss := by
  cases hs : splitSlash cs with
  | nil => exact absurd hs (splitSlash_ne_nil cs)
  | cons s ss =>
    refine ⟨s, ss, rfl, ?_⟩
    rw [splitSlash]
    simp [hc, hs]

theorem splitSlash_cons_slash (cs : Bytes) : splitSlash (47 :: cs) = [] :: splitSlash cs := by
  rw [splitSlash]; simp

theorem splitSlash_append_slash (a b : Bytes) :
    splitSlash (a ++ 47 :: b) = splitSlash a ++ splitSlash b := by
  induction a with
  | nil => simp [splitSlash]
  | cons c cs ih =>
    simp only [List.cons_append]
    by_cases hc : c = 47
    · subst hc
      rw [splitSlash_cons_slash, splitSlash_cons_slash, ih]; rfl
    · obtain ⟨s, ss, h1, h2⟩ := splitSlash_cons_ne c cs hc
      obtain ⟨s', ss', h1', h2'⟩ := splitSlash_cons_ne c (cs ++ 47 :: b) hc
      rw [h2, h2']
      rw [ih, h1] at h1'
      simp only [List.cons_append, List.cons.injEq] at h1'
      obtain ⟨rfl, rfl⟩ := h1'
      rfl

theorem splitSlash_noSlash (s : Bytes) (h : NoSlash s) : splitSlash s = [s] := by
  induction s with
  | nil => rfl
  | cons c cs ih =>
    have hc : c ≠ 47 := by
      intro e; apply h; simp [e]
    have hcs : NoSlash cs := by
      intro m; apply h; simp [m]
    rw [splitSlash]
    simp [hc, ih hcs]

theorem noSlash_of_mem_splitSlash (p : Bytes) : ∀ s ∈ splitSlash p, NoSlash s := by
  induction p with
  | nil => intro s hs; simp [splitSlash] at hs; subst hs; simp [NoSlash]
  | cons c cs ih =>
    intro s hs
    rw [splitSlash] at hs
    by_cases hc : c = 47
    · simp only [hc, if_true, List.mem_cons] at hs
      rcases hs with rfl | hs
      · simp [NoSlash]
      · exact ih s hs
    · simp only [hc, if_false] at hs
      cases hsp : splitSlash cs with
      | nil => exact absurd hsp (splitSlash_ne_nil cs)
      | cons t ts =>
        rw [hsp] at hs ih
        simp only [List.mem_cons] at hs
        rcases hs with rfl | hs
        · have := ih t (by simp)
          intro m
          simp only [List.mem_cons] at m
          rcases m with m | m
          · exact hc m.symm
          · exact this m
        · exact ih s (by simp [hs])

theorem joinSlash_cons_cons (s t : Bytes) (ss : List Bytes) :
    joinSlash (s :: t :: ss) = s ++ 47 :: joinSlash (t :: ss) := rfl

theorem joinSlash_cons_of_ne_nil (s : Bytes) (ss : List Bytes) (h : ss ≠ []) :
    joinSlash (s :: ss) = s ++ 47 :: joinSlash ss := by
  cases ss with
  | nil => exact absurd rfl h
  | cons t ts => rfl

theorem joinSlash_splitSlash (p : Bytes) : joinSlash (splitSlash p) = p := by
  induction p with
  | nil => rfl
  | cons c cs ih =>
    rw [splitSlash]
    by_cases hc : c = 47
    · simp only [hc, if_true]
      rw [joinSlash_cons_of_ne_nil _ _ (splitSlash_ne_nil cs), ih]; rfl
    · simp only [hc, if_false]
      cases hsp : splitSlash cs with
      | nil => exact absurd hsp (splitSlash_ne_nil cs)
      | cons t ts =>
        rw [hsp] at ih
        cases ts with
        | nil => simp [joinSlash] at ih ⊢; exact ih
        | cons u us =>
          rw [joinSlash_cons_cons] at ih ⊢
          simp [← ih]

theorem splitSlash_joinSlash (segs : List Bytes) (hne : segs ≠ [])
    (h : ∀ s ∈ segs, NoSlash s) : splitSlash (joinSlash segs) = segs := by
  induction segs with
  | nil => exact absurd rfl hne
  | cons s ss ih =>
    cases ss with
    | nil => simp [joinSlash]; exact splitSlash_noSlash s (h s (by simp))
    | cons t ts =>
      rw [joinSlash_cons_cons, splitSlash_append_slash, splitSlash_noSlash s (h s (by simp)),
        ih (by simp) (fun x hx => h x (List.mem_cons_of_mem _ hx))]
      rfl

theorem joinSlash_append (a b : List Bytes) (ha : a ≠ []) (hb : b ≠ []) :
    joinSlash (a ++ b) = joinSlash a ++ 47 :: joinSlash b := by
  induction a with
  | nil => exact absurd rfl ha
  | cons s ss ih =>
    cases ss with
    | nil =>
      simp only [List.cons_append, List.nil_append]
      rw [joinSlash_cons_of_ne_nil _ _ hb]; rfl
    | cons t ts =>
      have := ih (by simp)
      simp only [List.cons_append] at this ⊢
      rw [joinSlash_cons_cons, this, joinSlash_cons_cons]
      simp

/-! ### UTF-8 automaton -/

theorem u8run_append (s : U8) (a b : Bytes) : u8run s (a ++ b) = u8run (u8run s a) b := by
  simp [u8run, List.foldl_append]

theorem u8run_rej (p : Bytes) : u8run .rej p = .rej := by
  induction p with
  | nil => rfl
  | cons c cs ih => simpa [u8run, U8.step] using ih

theorem u8step_slash (s : U8) : U8.step s 47 = if s = .acc then .acc else .rej := by
  cases s <;> decide

theorem validUTF8_append_slash (a b : Bytes) :
    validUTF8 (a ++ 47 :: b) = (validUTF8 a && validUTF8 b) := by
  unfold validUTF8
  rw [u8run_append]
  have : u8run (u8run .acc a) (47 :: b) = u8run (U8.step (u8run .acc a) 47) b := rfl
  rw [this, u8step_slash]
  by_cases h : u8run .acc a = .acc
  · simp [h]
  · have h' : (u8run .acc a == .acc) = false := by simpa using h
    simp only [h, if_false, u8run_rej, h', Bool.false_and]
    rfl

theorem validUTF8_nil : validUTF8 [] = true := rfl

theorem validUTF8_joinSlash (segs : List Bytes) :
    validUTF8 (joinSlash segs) = segs.all validUTF8 := by
  induction segs with
  | nil => rfl
  | cons s ss ih =>
    cases ss with
    | nil => simp [joinSlash]
    | cons t ts =>
      rw [joinSlash_cons_cons, validUTF8_append_slash, ih]
      simp

theorem validUTF8_iff_segs (p : Bytes) : validUTF8 p = (splitSlash p).all validUTF8 := by
  rw [← validUTF8_joinSlash, joinSlash_splitSlash]

/-! ### elements -/

/-- an element that is neither empty, `.` nor `..` -/
def Normal (s : Bytes) : Prop := s ≠ [] ∧ s ≠ dotSeg ∧ s ≠ dotdot

theorem okElem_iff (s : Bytes) : okElem s = true ↔ Normal s := by
  simp [okElem, Normal, and_assoc]

theorem cleanStep_normal (r : Bool) (stack : List Bytes) (s : Bytes) (h : Normal s) :
    cleanStep r stack s = s :: stack := by
  obtain ⟨h1, h2, h3⟩ := h
  simp [cleanStep, h1, h2, h3]

theorem cleanStep_empty (r : Bool) (stack : List Bytes) : cleanStep r stack [] = stack := by
  simp [cleanStep]

theorem cleanStep_dot (r : Bool) (stack : List Bytes) : cleanStep r stack dotSeg = stack := by
  simp [cleanStep]

theorem dotdot_ne_nil : dotdot ≠ [] := by decide
theorem dotdot_ne_dotSeg : dotdot ≠ dotSeg := by decide

theorem cleanStep_dotdot_cons (r : Bool) (t : Bytes) (ts : List Bytes) (ht : t ≠ dotdot) :
    cleanStep r (t :: ts) dotdot = ts := by
  simp [cleanStep, dotdot_ne_nil, dotdot_ne_dotSeg, ht]

theorem cleanStep_dotdot_nil : cleanStep false [] dotdot = [dotdot] := by
  simp [cleanStep, dotdot_ne_nil, dotdot_ne_dotSeg]

theorem cleanStep_dotdot_dotdot (ts : List Bytes) :
    cleanStep false (dotdot :: ts) dotdot = dotdot :: dotdot :: ts := by
  simp [cleanStep, dotdot_ne_nil, dotdot_ne_dotSeg]

theorem cleanSegs_append (r : Bool) (stack : List Bytes) (a b : List Bytes) :
    cleanSegs r stack (a ++ b) = cleanSegs r (cleanSegs r stack a) b := by
  simp [cleanSegs, List.foldl_append]

theorem cleanSegs_cons (r : Bool) (stack : List Bytes) (s : Bytes) (ss : List Bytes) :
    cleanSegs r stack (s :: ss) = cleanSegs r (cleanStep r stack s) ss := rfl

theorem cleanSegs_normal (r : Bool) (segs : List Bytes) (h : ∀ s ∈ segs, Normal s) :
    ∀ stack, cleanSegs r stack segs = segs.reverse ++ stack := by
  induction segs with
  | nil => intro stack; rfl
  | cons s ss ih =>
    intro stack
    rw [cleanSegs_cons, cleanStep_normal r stack s (h s (by simp)),
      ih (fun x hx => h x (List.mem_cons_of_mem _ hx))]
    simp

/-! ### walking vs. cleaning -/

theorem dotdot_not_normal : ¬ Normal dotdot := fun h => h.2.2 rfl

/-- the bottom element of the stack is `..` and stays there -/
theorem cleanSegs_bottom_dotdot (segs : List Bytes) (hs : ∀ s ∈ segs, Normal s ∨ s = dotdot) :
    ∀ stack : List Bytes, stack.getLast? = some dotdot →
      (cleanSegs false stack segs).getLast? = some dotdot := by
  induction segs with
  | nil => intro stack h; exact h
  | cons s ss ih =>
    intro stack hst
    rw [cleanSegs_cons]
    apply ih (fun x hx => hs x (List.mem_cons_of_mem _ hx))
    rcases hs s (by simp) with hn | rfl
    · rw [cleanStep_normal _ _ _ hn]
      cases stack with
      | nil => simp at hst
      | cons t ts => simpa [List.getLast?_cons_cons] using hst
    · cases stack with
      | nil => simp at hst
      | cons t ts =>
        by_cases ht : t = dotdot
        · subst ht
          rw [cleanStep_dotdot_dotdot]
          simpa [List.getLast?_cons_cons] using hst
        · rw [cleanStep_dotdot_cons _ _ _ ht]
          cases ts with
          | nil => simp at hst; exact absurd hst ht
          | cons u us => simpa [List.getLast?_cons_cons] using hst

/-- On elements that are normal or `..`, starting from a stack of normal elements, `Clean`
computes the walk when the walk stays inside, and leaves a `..` at the bottom otherwise. -/
theorem cleanSegs_walk (segs : List Bytes) (hs : ∀ s ∈ segs, Normal s ∨ s = dotdot) :
    ∀ stack : List Bytes, (∀ s ∈ stack, Normal s) →
      (∀ res, walk stack segs = some res →
          cleanSegs false stack segs = res.reverse ∧ (∀ s ∈ res, Normal s)) ∧
      (walk stack segs = none → (cleanSegs false stack segs).getLast? = some dotdot) := by
  induction segs with
  | nil =>
    intro stack hst
    refine ⟨?_, by simp [walk]⟩
    intro res h
    simp only [walk, Option.some.injEq] at h
    subst h
    simp [cleanSegs]
    exact hst
  | cons s ss ih =>
    intro stack hst
    have hss := fun x hx => hs x (List.mem_cons_of_mem s hx)
    rcases hs s (by simp) with hn | rfl
    · have hne : s ≠ dotdot := hn.2.2
      have hw : walk stack (s :: ss) = walk (s :: stack) ss := by simp [walk, hne]
      rw [hw, cleanSegs_cons, cleanStep_normal _ _ _ hn]
      exact ih hss (s :: stack) (by
        intro x hx
        simp only [List.mem_cons] at hx
        rcases hx with rfl | hx
        · exact hn
        · exact hst x hx)
    · cases stack with
      | nil =>
        have hw : walk [] (dotdot :: ss) = none := by simp [walk]
        rw [hw]
        refine ⟨by simp, ?_⟩
        intro _
        rw [cleanSegs_cons]
        rw [cleanStep_dotdot_nil]
        exact cleanSegs_bottom_dotdot ss hss [dotdot] (by simp)
      | cons t ts =>
        have ht : t ≠ dotdot := (hst t (by simp)).2.2
        have hw : walk (t :: ts) (dotdot :: ss) = walk ts ss := by simp [walk]
        have hc : cleanStep false (t :: ts) dotdot = ts := cleanStep_dotdot_cons _ _ _ ht
        rw [hw, cleanSegs_cons, hc]
        exact ih hss ts (fun x hx => hst x (List.mem_cons_of_mem _ hx))

/-- the walk keeps the last element when that element is normal -/
theorem walk_last_normal (segs : List Bytes) (l : Bytes) (hl : Normal l) :
    ∀ stack res, walk stack (segs ++ [l]) = some res → res ≠ [] := by
  induction segs with
  | nil =>
    intro stack res h
    have hne : l ≠ dotdot := hl.2.2
    simp [walk, hne] at h
    subst h
    simp
  | cons s ss ih =>
    intro stack res h
    simp only [List.cons_append] at h
    by_cases hd : s = dotdot
    · subst hd
      cases stack with
      | nil => simp [walk] at h
      | cons t ts =>
        have : walk (t :: ts) (dotdot :: (ss ++ [l])) = walk ts (ss ++ [l]) := by simp [walk]
        rw [this] at h
        exact ih ts res h
    · have : walk stack (s :: (ss ++ [l])) = walk (s :: stack) (ss ++ [l]) := by simp [walk, hd]
      rw [this] at h
      exact ih _ res h

end ScriggoV.GoPath
