import ScriggoV.Model.Scopes
/-! C19 — the provenance invariant of the scope stack and of the emitter's native functions. -/
namespace ScriggoV.Scopes
open ScriggoV.Gen.Universe

/-- a scope entry is accounted for by what the embedder configured -/
def Entry.Legit (c : Cfg) (name : String) (e : Entry) : Prop :=
  match e.prov with
  | .univ => (name, e) ∈ universeScope ∨ (name, e) ∈ formatScope true
  | .global => ∃ g ∈ c.globals, g.name = name ∧ g.kind = e.kind ∧ g.members = e.members
  | .importer p => ∃ pkg, c.importPath p = some (.pkg pkg) ∧
      ((e.kind = .pkg ∧ e.members = pkg.decls) ∨ (⟨name, e.kind⟩ ∈ pkg.decls ∧ e.members = []))
  | .code => e.members = []

/-- a recorded native function is a function the embedder supplied: a global, a member of an
auto-imported package among the globals, or a declaration of a package the importer returned -/
def NativeFn.Legit (c : Cfg) (nf : NativeFn) : Prop :=
  match nf.prov with
  | .univ => False
  | .code => False
  | .global => ∃ g ∈ c.globals,
      (g.kind = .func ∧ nf.name = g.name) ∨
      (g.kind = .pkg ∧ ∃ d ∈ g.members, d.kind = .func ∧ nf.name = g.name ++ "." ++ d.name)
  | .importer p => ∃ pkg, c.importPath p = some (.pkg pkg) ∧ ∃ d ∈ pkg.decls, d.kind = .func ∧
      (nf.name = d.name ∨ ∃ q, nf.name = q ++ "." ++ d.name)

def ScopesLegit (c : Cfg) (scopes : List Scope) : Prop :=
  ∀ sc ∈ scopes, ∀ ne ∈ sc, Entry.Legit c ne.1 ne.2

structure State.Legit (c : Cfg) (st : State) : Prop where
  scopes : ScopesLegit c st.scopes
  natives : ∀ nf ∈ st.natives, NativeFn.Legit c nf

/-- table facts about the regenerated universe: nothing in it is a native function or a package -/
theorem universe_kinds : ∀ ne ∈ universeScope, ne.2.kind ≠ .func ∧ ne.2.kind ≠ .pkg := by
  have h : universeScope.all (fun ne => ne.2.kind != .func && ne.2.kind != .pkg) = true := by decide
  intro ne hne
  have := List.all_eq_true.mp h ne hne
  simpa using this

theorem format_kinds : ∀ ne ∈ formatScope true, ne.2.kind ≠ .func ∧ ne.2.kind ≠ .pkg := by
  have h : (formatScope true).all (fun ne => ne.2.kind != .func && ne.2.kind != .pkg) = true := by decide
  intro ne hne
  have := List.all_eq_true.mp h ne hne
  simpa using this

theorem assoc_lookup_mem {sc : Scope} {name : String} {e : Entry} (h : sc.lookup name = some e) :
    (name, e) ∈ sc := by
  induction sc with
  | nil => simp [List.lookup] at h
  | cons x xs ih =>
    obtain ⟨k, v⟩ := x
    simp only [List.lookup] at h
    split at h
    · rename_i heq
      have : name = k := by simpa using heq
      cases h
      simp [this]
    · exact List.mem_cons_of_mem _ (ih h)

theorem lookup_mem {scopes : List Scope} {name : String} {e : Entry} (h : lookup scopes name = some e) :
    ∃ sc ∈ scopes, (name, e) ∈ sc := by
  induction scopes with
  | nil => simp [lookup] at h
  | cons sc rest ih =>
    simp only [lookup] at h
    cases hl : sc.lookup name with
    | some e' =>
      simp only [hl, Option.some.injEq] at h
      subst h
      exact ⟨sc, by simp, assoc_lookup_mem hl⟩
    | none =>
      simp only [hl] at h
      obtain ⟨sc', h1, h2⟩ := ih h
      exact ⟨sc', List.mem_cons_of_mem _ h1, h2⟩

theorem lookup_legit {c : Cfg} {scopes : List Scope} (hs : ScopesLegit c scopes) {name : String}
    {e : Entry} (h : lookup scopes name = some e) : Entry.Legit c name e := by
  obtain ⟨sc, h1, h2⟩ := lookup_mem h
  exact hs sc h1 _ h2

theorem declareIn_legit {c : Cfg} {scopes : List Scope} (hs : ScopesLegit c scopes) (name : String)
    (e : Entry) (he : Entry.Legit c name e) : ScopesLegit c (declareIn scopes name e).1 := by
  cases scopes with
  | nil => simpa [declareIn] using hs
  | cons sc rest =>
    simp only [declareIn]
    cases sc.lookup name with
    | some _ => exact hs
    | none =>
      intro sc' hsc' ne hne
      simp only [List.mem_cons] at hsc'
      rcases hsc' with rfl | hsc'
      · simp only [List.mem_cons] at hne
        rcases hne with rfl | hne
        · exact he
        · exact hs sc (by simp) ne hne
      · exact hs sc' (List.mem_cons_of_mem _ hsc') ne hne

theorem declareAll_legit {c : Cfg} {path : String} {p : NativePkg}
    (hp : c.importPath path = some (.pkg p)) :
    ∀ (ds : List Decl) (scopes : List Scope), (∀ d ∈ ds, d ∈ p.decls) → ScopesLegit c scopes →
      ScopesLegit c (declareAll scopes path ds)
  | [], scopes, _, hs => hs
  | d :: ds, scopes, hd, hs => by
    simp only [declareAll]
    refine declareAll_legit hp ds _ (fun d' h => hd d' (List.mem_cons_of_mem _ h)) ?_
    refine declareIn_legit hs _ _ ?_
    exact ⟨p, hp, Or.inr ⟨hd d (by simp), rfl⟩⟩

theorem declareFor_legit {c : Cfg} {path : String} {p : NativePkg}
    (hp : c.importPath path = some (.pkg p)) :
    ∀ (ns : List String) (scopes sc' : List Scope), ScopesLegit c scopes →
      declareFor scopes path p.decls ns = .ok sc' → ScopesLegit c sc'
  | [], scopes, sc', hs, h => by
    simp only [declareFor, Except.ok.injEq] at h
    exact h ▸ hs
  | n :: ns, scopes, sc', hs, h => by
    simp only [declareFor] at h
    cases hf : p.decls.find? (fun d => d.name == n) with
    | none => simp [hf] at h
    | some d =>
      simp only [hf] at h
      have hmem := List.mem_of_find?_eq_some hf
      have hname : d.name = n := by simpa using List.find?_some hf
      refine declareFor_legit hp ns _ sc' ?_ h
      refine declareIn_legit hs _ _ ⟨p, hp, Or.inr ⟨?_, rfl⟩⟩
      rw [← hname]
      exact hmem

theorem record_legit {c : Cfg} {st : State} (hs : st.Legit c) (prov : Prov) (kind : Kind)
    (name : String) (h : kind = .func → prov ≠ .code → NativeFn.Legit c ⟨prov, name⟩) :
    (record st prov kind name).Legit c := by
  unfold record
  split
  · exact hs
  · rename_i hne
    refine ⟨hs.scopes, ?_⟩
    intro nf hnf
    simp only [List.mem_cons] at hnf
    rcases hnf with rfl | hnf
    · exact h rfl (fun hp => hne hp)
    · exact hs.natives nf hnf
  · exact hs

theorem init_legit (c : Cfg) (template : Bool) : (State.init c template).Legit c := by
  refine ⟨?_, by simp [State.init]⟩
  intro sc hsc ne hne
  simp only [State.init, List.mem_cons, List.not_mem_nil, or_false] at hsc
  rcases hsc with rfl | rfl | rfl | rfl
  · simp at hne
  · simp only [globalScope, List.mem_map] at hne
    obtain ⟨g, hg, rfl⟩ := hne
    exact ⟨g, hg, rfl, rfl, rfl⟩
  · have hsub : ne ∈ formatScope true := by
      cases template with
      | true => exact hne
      | false => simp [formatScope] at hne
    have hprov : ne.2.prov = .univ := by
      simp only [formatScope, if_true, List.mem_map] at hsub
      obtain ⟨n, _, rfl⟩ := hsub
      rfl
    simp only [Entry.Legit, hprov]
    exact Or.inr hsub
  · have hprov : ne.2.prov = .univ := by
      simp only [universeScope, List.mem_map] at hne
      obtain ⟨x, _, rfl⟩ := hne
      rfl
    simp only [Entry.Legit, hprov]
    exact Or.inl hne

theorem declarePackageName_legit {c : Cfg} {st st' : State} (hs : st.Legit c) {n : String}
    {e : Entry} (he : Entry.Legit c n e) (h : declarePackageName st n e = .ok st') : st'.Legit c := by
  unfold declarePackageName at h
  split at h
  · cases h
  · have hd := declareIn_legit hs.scopes n e he
    split at h
    · rename_i sc heq
      simp only [Except.ok.injEq] at h
      subst h
      rw [heq] at hd
      exact ⟨hd, hs.natives⟩
    · cases h

theorem importNative_legit {c : Cfg} {st st' : State} (hs : st.Legit c) {path : String}
    {form : ImportForm} (h : importNative c st path form = .ok st') : st'.Legit c := by
  unfold importNative at h
  cases hp : c.importPath path with
  | none => simp [hp] at h
  | some r =>
    cases r with
    | err => simp [hp] at h
    | nilPkg => simp [hp] at h
    | pkg p =>
      simp only [hp] at h
      have hpkg : ∀ n, Entry.Legit c n ⟨.pkg, .importer path, p.decls⟩ :=
        fun n => ⟨p, hp, Or.inl ⟨rfl, rfl⟩⟩
      cases form with
      | blank => simp only [Except.ok.injEq] at h; exact h ▸ hs
      | forNames ns =>
        simp only at h
        cases hd : declareFor st.scopes path p.decls ns with
        | error e => simp [hd] at h
        | ok sc =>
          simp only [hd, Except.ok.injEq] at h
          subst h
          exact ⟨declareFor_legit hp ns _ _ hs.scopes hd, hs.natives⟩
      | dot =>
        simp only [Except.ok.injEq] at h
        subst h
        exact ⟨declareAll_legit hp _ _ (fun _ h => h) hs.scopes, hs.natives⟩
      | default =>
        simp only at h
        split at h
        · cases h
        · exact declarePackageName_legit hs (hpkg _) h
      | named n => exact declarePackageName_legit hs (hpkg _) h

theorem step_legit {c : Cfg} {st st' : State} (hs : st.Legit c) (op : Op)
    (h : step c st op = .ok st') : st'.Legit c := by
  cases op with
  | enter =>
    simp only [step, Except.ok.injEq] at h
    subst h
    refine ⟨?_, hs.natives⟩
    intro sc hsc ne hne
    simp only [List.mem_cons] at hsc
    rcases hsc with rfl | hsc
    · simp at hne
    · exact hs.scopes sc hsc ne hne
  | exit =>
    simp only [step] at h
    cases hsc : st.scopes with
    | nil => simp [hsc] at h
    | cons sc rest =>
      simp only [hsc] at h
      split at h
      · cases h
      · simp only [Except.ok.injEq] at h
        subst h
        exact ⟨fun sc' h1 => hs.scopes sc' (by rw [hsc]; exact List.mem_cons_of_mem _ h1), hs.natives⟩
  | declare name k =>
    simp only [step] at h
    split at h
    · simp only [Except.ok.injEq] at h
      subst h
      exact ⟨declareIn_legit hs.scopes _ _ (by simp [Entry.Legit]), hs.natives⟩
    · cases h
  | importNative path form => exact importNative_legit hs h
  | goStmt =>
    simp only [step] at h
    split at h
    · simp only [Except.ok.injEq] at h; exact h ▸ hs
    · cases h
  | useIdent name =>
    simp only [step] at h
    cases hl : lookup st.scopes name with
    | none => simp [hl] at h
    | some e =>
      simp only [hl, Except.ok.injEq] at h
      subst h
      have hleg := lookup_legit hs.scopes hl
      refine record_legit hs _ _ _ ?_
      intro hk hp
      cases hprov : e.prov with
      | code => exact absurd hprov hp
      | univ =>
        simp only [Entry.Legit, hprov] at hleg
        rcases hleg with h1 | h1
        · exact absurd hk (universe_kinds _ h1).1
        · exact absurd hk (format_kinds _ h1).1
      | global =>
        simp only [Entry.Legit, hprov] at hleg
        obtain ⟨g, hg, h1, h2, _⟩ := hleg
        exact ⟨g, hg, Or.inl ⟨by rw [h2, hk], h1.symm⟩⟩
      | importer p =>
        simp only [Entry.Legit, hprov] at hleg
        obtain ⟨pkg, h1, h2⟩ := hleg
        rcases h2 with ⟨h2, _⟩ | ⟨h2, _⟩
        · rw [hk] at h2; cases h2
        · exact ⟨pkg, h1, ⟨name, e.kind⟩, h2, hk, Or.inl rfl⟩
  | useSelector pkg name =>
    simp only [step] at h
    cases hl : lookup st.scopes pkg with
    | none => simp [hl] at h
    | some e =>
      simp only [hl] at h
      split at h
      · cases h
      · rename_i hkind
        have hkind : e.kind = .pkg := by simpa using hkind
        cases hf : e.members.find? (fun d => d.name == name) with
        | none => simp [hf] at h
        | some d =>
          simp only [hf, Except.ok.injEq] at h
          subst h
          have hmem := List.mem_of_find?_eq_some hf
          have hname : d.name = name := by simpa using List.find?_some hf
          have hleg := lookup_legit hs.scopes hl
          refine record_legit hs _ _ _ ?_
          intro hk hp
          cases hprov : e.prov with
          | code =>
            simp only [Entry.Legit, hprov] at hleg
            rw [hleg] at hmem; cases hmem
          | univ =>
            simp only [Entry.Legit, hprov] at hleg
            rcases hleg with h1 | h1
            · exact absurd hkind (universe_kinds _ h1).2
            · exact absurd hkind (format_kinds _ h1).2
          | global =>
            simp only [Entry.Legit, hprov] at hleg
            obtain ⟨g, hg, h1, h2, h3⟩ := hleg
            refine ⟨g, hg, Or.inr ⟨by rw [h2, hkind], d, by rw [h3]; exact hmem, hk, ?_⟩⟩
            simp [h1, hname]
          | importer p =>
            simp only [Entry.Legit, hprov] at hleg
            obtain ⟨pk, h1, h2⟩ := hleg
            rcases h2 with ⟨_, h2⟩ | ⟨_, h2⟩
            · exact ⟨pk, h1, d, by rw [← h2]; exact hmem, hk, Or.inr ⟨pkg, by simp [hname]⟩⟩
            · rw [h2] at hmem; cases hmem

theorem run_legit {c : Cfg} : ∀ (ops : List Op) (st st' : State), st.Legit c →
    run c ops st = .ok st' → st'.Legit c
  | [], st, st', hs, h => by simp only [run, Except.ok.injEq] at h; exact h ▸ hs
  | op :: ops, st, st', hs, h => by
    simp only [run] at h
    cases hst : step c st op with
    | error e => simp [hst] at h
    | ok s1 =>
      simp only [hst] at h
      exact run_legit ops s1 st' (step_legit hs op hst) h

/-- an operation that fails in every state makes every check containing it fail -/
theorem run_fails_of_mem {c : Cfg} {op : Op} (hop : ∀ st, ∃ e, step c st op = .error e) :
    ∀ (ops : List Op), op ∈ ops → ∀ st, ∃ e, run c ops st = .error e
  | o :: rest, hmem, st => by
    simp only [run]
    cases hst : step c st o with
    | error e => exact ⟨e, rfl⟩
    | ok s1 =>
      simp only [List.mem_cons] at hmem
      rcases hmem with rfl | hmem
      · obtain ⟨e, he⟩ := hop st
        rw [he] at hst; cases hst
      · exact run_fails_of_mem hop rest hmem s1

end ScriggoV.Scopes
