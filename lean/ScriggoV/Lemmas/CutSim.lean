import ScriggoV.Lemmas.CutLines
/-! C15 helper lemmas, part 2: the parser's token loop simulates the line rule.

`Inv` relates the state of `ParseTemplateSource`'s loop (`PSt`) after a prefix of the tokens
to the specification's position in its line walk: the lines that are final (`D` and the part
of `firstText` up to its last LF, minus what `Cut.Left` already took) and the line under
construction (`curOf`: what follows the last LF of `firstText`, then the other nodes of the
group). `sim` is the induction over the remaining tokens. -/
namespace ScriggoV.Cut
open ScriggoV.CutSpec

/-! ### what the tokenizer guarantees -/

theorem Raw.span_pos {r : Raw} (h : r.wf = true) : 0 < r.span := by
  cases r with
  | text bs => cases bs <;> simp [Raw.wf, Raw.span] at *
  | nt t =>
    simp only [Raw.wf, NT.wf, Bool.and_eq_true, decide_eq_true_eq] at h
    simp only [Raw.span]
    by_cases hc : t.comment
    · simp [hc] at h; omega
    · simp [hc] at h; omega

theorem spanSum_pos {rs : List Raw} (h : rs.all Raw.wf = true) (hne : rs ≠ []) : 0 < spanSum rs := by
  cases rs with
  | nil => exact absurd rfl hne
  | cons r rs =>
    simp only [List.all_cons, Bool.and_eq_true] at h
    have := Raw.span_pos h.1
    simp only [spanSum]; omega

/-! ### nodes -/

def Node.zero : Node → Bool
  | .text t => t.cutL == 0 && t.cutR == 0
  | .nt _ => true
def Node.isText : Node → Bool
  | .text _ => true
  | .nt _ => false
def Node.cuttable : Node → Bool
  | .text _ => false
  | .nt x => x.cuttable
def nodeBytes : Node → Bytes
  | .text t => t.bs
  | .nt x => x.out
def nodeItems : Node → List Item
  | .text t => bytesI t.bs
  | .nt x => [.tok x]

theorem emit_append {a b : List Node} {x y : Bytes} (ha : emit a = .ok x) (hb : emit b = .ok y) :
    emit (a ++ b) = .ok (x ++ y) := by
  induction a generalizing x with
  | nil => simp [emit] at ha; subst ha; simpa using hb
  | cons n ns ih =>
    simp only [List.cons_append, emit] at *
    cases hn : emitNode n with
    | error f => simp [hn] at ha
    | ok u =>
      simp only [hn] at ha ⊢
      cases hs : emit ns with
      | error f => simp [hs] at ha
      | ok v =>
        simp only [hs] at ha
        rw [ih hs]
        simp only [Except.ok.injEq] at ha
        subst ha
        simp

theorem emit_zero (ns : List Node) (h : ns.all Node.zero = true) :
    emit ns = .ok (ns.flatMap nodeBytes) := by
  induction ns with
  | nil => rfl
  | cons n ns ih =>
    simp only [List.all_cons, Bool.and_eq_true] at h
    simp only [emit, ih h.2, List.flatMap_cons]
    cases n with
    | nt x => simp [emitNode, nodeBytes]
    | text t =>
      simp only [Node.zero, Bool.and_eq_true, beq_iff_eq] at h
      simp [emitNode, nodeBytes, sliceOf, h.1.1, h.1.2]

theorem emitNode_text (bs : Bytes) (l r : Nat) (h : l + r ≤ bs.length) :
    emitNode (.text ⟨bs, l, r⟩) = .ok ((bs.take (bs.length - r)).drop l) := by
  simp only [emitNode]
  rw [if_pos (by omega)]
  unfold sliceOf
  rw [if_pos (by omega)]

theorem keepLine_nodeItems (ns : List Node) : keepLine (ns.flatMap nodeItems) = ns.flatMap nodeBytes := by
  induction ns with
  | nil => rfl
  | cons n ns ih =>
    cases n <;> simp [nodeItems, nodeBytes, keepLine, ih]

/-- number of non-text nodes -/
def ntCount : List Node → Nat
  | [] => 0
  | .text _ :: ns => ntCount ns
  | .nt _ :: ns => ntCount ns + 1

theorem lineToks_nodeItems_length (ns : List Node) :
    (lineToks (ns.flatMap nodeItems)).length = ntCount ns := by
  induction ns with
  | nil => rfl
  | cons n ns ih => cases n <;> simp [nodeItems, lineToks, ntCount, ih]

theorem ntCount_append (a b : List Node) : ntCount (a ++ b) = ntCount a + ntCount b := by
  induction a with
  | nil => simp [ntCount]
  | cons n ns ih => cases n <;> simp [ntCount, ih] <;> omega

theorem ntCount_reverse (a : List Node) : ntCount a.reverse = ntCount a := by
  induction a with
  | nil => rfl
  | cons n ns ih => cases n <;> simp [ntCount, ntCount_append, ih]

theorem ntCount_pos_of_mem {ns : List Node} {n : Node} (hm : n ∈ ns) (hn : n.isText = false) :
    0 < ntCount ns := by
  induction ns with
  | nil => cases hm
  | cons m ms ih =>
    cases hm with
    | head => cases n <;> simp [Node.isText, ntCount] at *
    | tail _ h => cases m <;> simp [ntCount] <;> exact ih h


/-! ### the invariant -/

/-- the last node added is a text -/
def lastIsText (ms : PSt) : Bool :=
  match ms.rest with
  | n :: _ => n.isText
  | [] => ms.first.isSome

def restBytes (ms : PSt) : Bytes := ms.rest.reverse.flatMap nodeBytes
def restItems (ms : PSt) : List Item := ms.rest.reverse.flatMap nodeItems

/-- the specification's line under construction -/
def curOf (ms : PSt) (X : Bytes) : List Item := bytesI (lastAux X []) ++ restItems ms

/-- `X` is the text of `firstText` (empty when nil), `cutL` its `Cut.Left`, `D` what the nodes
of the lines already left emit -/
structure Inv (ms : PSt) (X : Bytes) (cutL : Nat) (D : Bytes) : Prop where
  hdone : emit ms.done.reverse = .ok D
  hfirst : (ms.first = none ∧ X = [] ∧ cutL = 0) ∨ ms.first = some ⟨X, cutL, 0⟩
  hcut : cutL ≤ (doneAux X []).length
  hzero : ms.rest.all Node.zero = true
  hnum : ms.num = ms.rest.length
  hcst : ms.cst = ms.rest.any Node.cuttable
  hhead : ∀ n, ms.rest.getLast? = some n → n.isText = false
  hne : ∀ t, Node.text t ∈ ms.rest → t.bs ≠ []

/-- `line` is the lexer's line at the next token, or nothing has been read yet -/
def LineOK (ms : PSt) (l : Nat) : Prop :=
  (ms.line = l ∧ (ms.first ≠ none ∨ ms.rest ≠ []))
  ∨ (ms.line = 0 ∧ 0 < l ∧ ms.first = none ∧ ms.rest = [] ∧ ms.cst = false)

theorem keepLine_curOf (ms : PSt) (X : Bytes) :
    keepLine (curOf ms X) = lastAux X [] ++ restBytes ms := by
  simp [curOf, restItems, restBytes, keepLine_nodeItems]

theorem endsWithTok_snoc_tok (l : List Item) (t : NT) : endsWithTok (l ++ [.tok t]) = true := by
  simp [endsWithTok]

theorem endsWithTok_snoc_byte (l : List Item) (c : UInt8) : endsWithTok (l ++ [.byte c]) = false := by
  simp [endsWithTok]

theorem endsWithTok_append_bytes (l : List Item) (bs : Bytes) (h : bs ≠ []) :
    endsWithTok (l ++ bytesI bs) = false := by
  have : ∃ c cs, bs = cs ++ [c] := by
    rcases List.eq_nil_or_concat bs with h' | ⟨cs, c, h'⟩
    · exact absurd h' h
    · exact ⟨c, cs, by simpa using h'⟩
  obtain ⟨c, cs, rfl⟩ := this
  rw [bytesI_append, ← List.append_assoc]
  exact endsWithTok_snoc_byte _ _

/-- end of the tokens: the line under construction stays (no tokens on it, or the file ends
right after its last token) -/
theorem sim_nil {ms : PSt} {X : Bytes} {cutL : Nat} {D : Bytes} (inv : Inv ms X cutL D)
    (hh : ∀ n, ms.rest.head? = some n → n.isText = false) :
    emit ms.nodes = .ok (D ++ (doneAux X []).drop cutL ++ renderLine (curOf ms X)) := by
  have hrest : emit ms.rest.reverse = .ok (restBytes ms) := by
    apply emit_zero
    simpa using inv.hzero
  have hX : X = doneAux X [] ++ lastAux X [] := by
    have := done_append_last X []; simpa using this.symm
  have hf : emit (optNode ms.first) = .ok ((doneAux X []).drop cutL ++ lastAux X []) := by
    rcases inv.hfirst with ⟨h1, h2, h3⟩ | h1
    · subst h2; subst h3; simp [h1, optNode, emit]
    · rw [h1]
      simp only [optNode, emit]
      rw [emitNode_text _ _ _ (by have := inv.hcut; have := congrArg List.length hX; simp at this; omega)]
      simp only [Nat.sub_zero, List.take_length, List.append_nil]
      congr 1
      conv => lhs; rw [hX]
      rw [List.drop_append_of_le_length inv.hcut]
  have hnot : renderLine (curOf ms X) = keepLine (curOf ms X) := by
    unfold renderLine
    have : removable (curOf ms X) = false := by
      unfold removable
      cases hr : ms.rest with
      | nil => simp [curOf, restItems, hr, oneCuttable]
      | cons n tl =>
        have hn := hh n (by simp [hr])
        cases n with
        | text t => simp [Node.isText] at hn
        | nt x =>
          have : curOf ms X = (bytesI (lastAux X []) ++ tl.reverse.flatMap nodeItems) ++ [.tok x] := by
            simp [curOf, restItems, hr, nodeItems]
          rw [this, endsWithTok_snoc_tok]
          simp
    simp [this]
  unfold PSt.nodes
  rw [emit_append inv.hdone (emit_append hf hrest), hnot, keepLine_curOf]
  simp

/-! ### the group test -/

/-- `p.cutSpacesToken && numTokenInLine == 1` says: the group is one cuttable token besides
`firstText`; so does "exactly one token, cuttable" on the line, when the group neither begins
nor ends with a text -/
theorem one_tok {ms : PSt} {X : Bytes} {cutL : Nat} {D : Bytes} (inv : Inv ms X cutL D)
    (hh : ∀ n, ms.rest.head? = some n → n.isText = false) :
    (ms.cst && ms.num == 1) = oneCuttable (lineToks (restItems ms))
    ∧ ((ms.cst && ms.num == 1) = true → ∃ t, ms.rest = [.nt t] ∧ t.cuttable = true) := by
  have hnum := inv.hnum
  have hcst := inv.hcst
  cases hr : ms.rest with
  | nil =>
    rw [hr] at hcst hnum
    simp [restItems, hr, hcst, lineToks, oneCuttable]
  | cons n tl =>
    have hn := hh n (by simp [hr])
    cases n with
    | text t => simp [Node.isText] at hn
    | nt x =>
      cases tl with
      | nil =>
        rw [hr] at hcst hnum
        simp [restItems, hr, hcst, hnum, nodeItems, lineToks, Node.cuttable, oneCuttable]
      | cons m tl' =>
        rw [hr] at hnum
        have h1 : (ms.num == 1) = false := by simp [hnum]
        have hlen : 2 ≤ (lineToks (restItems ms)).length := by
          rw [restItems, lineToks_nodeItems_length, ntCount_reverse, hr]
          simp only [ntCount]
          obtain ⟨b, hb⟩ : ∃ b, (m :: tl').getLast? = some b := by
            cases hg : (m :: tl').getLast? with
            | none => simp at hg
            | some b => exact ⟨b, rfl⟩
          have hb' : ms.rest.getLast? = some b := by
            rw [hr]; simpa [List.getLast?_cons_cons] using hb
          have := ntCount_pos_of_mem (List.mem_of_getLast? hb) (inv.hhead b hb')
          omega
        constructor
        · rw [h1, Bool.and_false]
          generalize lineToks (restItems ms) = l at hlen
          match l, hlen with
          | a :: b :: _, _ => rfl
        · rw [h1, Bool.and_false]; intro h; cases h


/-! ### closing a line -/

/-- the decision `cutSpaces` takes for the group when the text `N` follows it -/
def dec (ms : PSt) (X N : Bytes) : Bool :=
  ms.cst && ms.num == 1 && allBlank (lastAux X []) && (scanLast N).isSome

/-- specification side: the line under construction, closed by the bytes `tl` (the head of the
next text with its LF, or a final text) -/
theorem close_line {ms : PSt} {X : Bytes} {cutL : Nat} {D : Bytes} (inv : Inv ms X cutL D)
    (hh : ∀ n, ms.rest.head? = some n → n.isText = false)
    (tl : Bytes) (htl : tl ≠ []) (b : Bool) (hb : lineBlank (bytesI tl) = b) :
    renderLine (curOf ms X ++ bytesI tl)
      = if ms.cst && ms.num == 1 && allBlank (lastAux X []) && b then restBytes ms
        else lastAux X [] ++ restBytes ms ++ tl := by
  obtain ⟨h1, h2⟩ := one_tok inv hh
  have hnl : noLF (lastAux X []) = true := lastAux_noLF X [] rfl
  have hlb : lineBlank (curOf ms X ++ bytesI tl)
      = (allBlank (lastAux X []) && lineBlank (restItems ms) && b) := by
    simp [curOf, lineBlank_bytes _ hnl, hb, Bool.and_assoc]
  have hlt : lineToks (curOf ms X ++ bytesI tl) = lineToks (restItems ms) := by
    simp [curOf]
  unfold renderLine removable
  rw [hlt, ← h1, hlb, endsWithTok_append_bytes _ _ htl]
  by_cases hc : (ms.cst && ms.num == 1) = true
  · obtain ⟨t, hr, _⟩ := h2 hc
    have hri : restItems ms = [.tok t] := by simp [restItems, hr, nodeItems]
    have hrb : restBytes ms = t.out := by simp [restBytes, hr, nodeBytes]
    rw [hc, hri]
    by_cases hx : (allBlank (lastAux X []) && b) = true
    · have : (allBlank (lastAux X []) && lineBlank [Item.tok t] && b) = true := by
        rw [Bool.and_eq_true] at hx; simp [lineBlank, hx.1, hx.2]
      simp only [Bool.true_and, this, Bool.not_false, Bool.and_true, if_true]
      rw [hx]
      simp [cutLine, curOf, hri, lineToks, hrb]
    · have hx' : (allBlank (lastAux X []) && b) = false := by simpa using hx
      have : (allBlank (lastAux X []) && lineBlank [Item.tok t] && b) = false := by
        simp only [lineBlank, Bool.and_true]; exact hx'
      simp only [Bool.true_and, this, Bool.false_and, Bool.false_eq_true, if_false]
      rw [hx']
      simp [curOf, hri, keepLine, hrb]
  · have hc' : (ms.cst && ms.num == 1) = false := by simpa using hc
    rw [hc']
    simp only [Bool.false_and, Bool.false_eq_true, if_false]
    rw [keepLine_append, keepLine_curOf, keepLine_bytes]

/-! ### `cutSpaces` with a following text -/

theorem cutSpaces_some {ms : PSt} {X : Bytes} {cutL : Nat} {D : Bytes} (inv : Inv ms X cutL D)
    (N : Bytes) :
    cutSpaces ms.first (some ⟨N, 0, 0⟩)
      = if allBlank (lastAux X []) && (scanLast N).isSome then
          (ms.first.map (setCutR (doneAux X []).length), some ⟨N, (scanLast N).getD 0, 0⟩)
        else (ms.first, some ⟨N, 0, 0⟩) := by
  unfold cutSpaces
  rcases inv.hfirst with ⟨h1, h2, _⟩ | h1
  · subst h2
    rw [h1]
    cases hs : scanLast N with
    | none => simp [hs]
    | some lc => simp [hs, setCutL]
  · rw [h1]
    simp only [scanFirst_closed]
    by_cases hb : allBlank (lastAux X []) = true
    · simp only [hb, if_true, Bool.true_and]
      cases hs : scanLast N with
      | none => simp
      | some lc => simp [setCutL]
    · have hb' : allBlank (lastAux X []) = false := by simpa using hb
      simp [hb']

/-- what `firstText` emits once its line is left: everything up to its last LF (minus
`Cut.Left`), and what follows unless the line was cut -/
theorem emit_first {ms : PSt} {X : Bytes} {cutL : Nat} {D : Bytes} (inv : Inv ms X cutL D)
    (cut : Bool) :
    emit (optNode (if cut then ms.first.map (setCutR (doneAux X []).length) else ms.first))
      = .ok ((doneAux X []).drop cutL ++ (if cut then [] else lastAux X [])) := by
  have hX : X = doneAux X [] ++ lastAux X [] := by
    have := done_append_last X []; simpa using this.symm
  have hlen : X.length = (doneAux X []).length + (lastAux X []).length := by
    have := congrArg List.length hX; simpa using this
  rcases inv.hfirst with ⟨h1, h2, h3⟩ | h1
  · subst h2; subst h3
    cases cut <;> simp [h1, optNode, emit]
  · rw [h1]
    cases cut with
    | false =>
      simp only [Bool.false_eq_true, if_false, optNode, emit]
      rw [emitNode_text _ _ _ (by have := inv.hcut; omega)]
      simp only [Nat.sub_zero, List.take_length, List.append_nil]
      congr 1
      conv => lhs; rw [hX]
      rw [List.drop_append_of_le_length inv.hcut]
    | true =>
      simp only [if_true, Option.map_some, optNode, emit, setCutR]
      rw [emitNode_text _ _ _ (by have := inv.hcut; simp; omega)]
      simp only [List.append_nil]
      congr 1
      have e : X.length - (X.length - (doneAux X []).length) = (doneAux X []).length := by omega
      rw [e]
      have ht := List.take_left' (l₁ := doneAux X []) (l₂ := lastAux X []) rfl
      rw [← hX] at ht
      rw [ht]

/-- model side: the state after `fire` with the text `N` -/
theorem fire_text {ms : PSt} {X : Bytes} {cutL : Nat} {D : Bytes} (inv : Inv ms X cutL D)
    (N : Bytes) (lin : Nat) :
    ∃ done', fire ms (some ⟨N, 0, 0⟩) lin
        = ⟨lin, done', some ⟨N, if dec ms X N then (scanLast N).getD 0 else 0, 0⟩, [], false, 0⟩
      ∧ emit done'.reverse
        = .ok (D ++ (doneAux X []).drop cutL ++ (if dec ms X N then [] else lastAux X [])
                ++ restBytes ms) := by
  have hrest : emit ms.rest.reverse = .ok (restBytes ms) := by
    apply emit_zero
    simpa using inv.hzero
  unfold fire
  have hp : (if (ms.cst && ms.num == 1) = true then cutSpaces ms.first (some ⟨N, 0, 0⟩)
        else (ms.first, some ⟨N, 0, 0⟩))
      = (if dec ms X N then ms.first.map (setCutR (doneAux X []).length) else ms.first,
         some ⟨N, if dec ms X N then (scanLast N).getD 0 else 0, 0⟩) := by
    rw [cutSpaces_some inv]
    unfold dec
    by_cases h1 : (ms.cst && ms.num == 1) = true
    · rw [h1]
      simp only [if_true, Bool.true_and]
      by_cases h2 : (allBlank (lastAux X []) && (scanLast N).isSome) = true
      · simp [h2]
      · have : (allBlank (lastAux X []) && (scanLast N).isSome) = false := by simpa using h2
        simp [this]
    · have : (ms.cst && ms.num == 1) = false := by simpa using h1
      simp [this]
  refine ⟨ms.rest ++ (optNode (if dec ms X N then ms.first.map (setCutR (doneAux X []).length)
      else ms.first) ++ ms.done), ?_, ?_⟩
  · rw [hp]
  · simp only [List.reverse_append]
    have hopt : ∀ o : Option TextNode, (optNode o).reverse = optNode o := by
      intro o; cases o <;> rfl
    rw [hopt]
    have := emit_append inv.hdone (emit_append (emit_first inv (dec ms X N)) hrest)
    rw [List.append_assoc, this]
    simp


/-! ### one iteration -/

@[simp] theorem catchUp_done (ms : PSt) (toks : List Tok) : (catchUp ms toks).done = ms.done := by
  cases toks <;> simp [catchUp]; split <;> rfl
@[simp] theorem catchUp_first (ms : PSt) (toks : List Tok) : (catchUp ms toks).first = ms.first := by
  cases toks <;> simp [catchUp]; split <;> rfl
@[simp] theorem catchUp_rest (ms : PSt) (toks : List Tok) : (catchUp ms toks).rest = ms.rest := by
  cases toks <;> simp [catchUp]; split <;> rfl
@[simp] theorem catchUp_cst (ms : PSt) (toks : List Tok) : (catchUp ms toks).cst = ms.cst := by
  cases toks <;> simp [catchUp]; split <;> rfl
@[simp] theorem catchUp_num (ms : PSt) (toks : List Tok) : (catchUp ms toks).num = ms.num := by
  cases toks <;> simp [catchUp]; split <;> rfl

theorem catchUp_line (ms : PSt) (n : Tok) (tl : List Tok) (h : ms.line ≤ n.posLine) :
    (catchUp ms (n :: tl)).line = n.posLine := by
  simp only [catchUp]
  split
  · rfl
  · omega

theorem inv_catchUp {ms : PSt} {X : Bytes} {cutL : Nat} {D : Bytes} (inv : Inv ms X cutL D)
    (toks : List Tok) : Inv (catchUp ms toks) X cutL D :=
  ⟨by simpa using inv.hdone, by simpa using inv.hfirst, inv.hcut, by simpa using inv.hzero,
   by simpa using inv.hnum, by simpa using inv.hcst, by simpa using inv.hhead,
   by simpa using inv.hne⟩

theorem curOf_catchUp (ms : PSt) (toks : List Tok) (X : Bytes) :
    curOf (catchUp ms toks) X = curOf ms X := by simp [curOf, restItems]

theorem lastIsText_catchUp (ms : PSt) (toks : List Tok) :
    lastIsText (catchUp ms toks) = lastIsText ms := by simp [lastIsText]

theorem assignAux_posLine (total l off : Nat) (r : Raw) (rs : List Raw) :
    ∃ tl, assignAux total l off (r :: rs) = ⟨r, l, l + r.linAdd, off + r.head == total⟩ :: tl := ⟨_, rfl⟩

/-- a statement, show or one-line comment that is not the first token read does not start a new
line; as the first token it does, with nothing to cut -/
theorem step_nt {ms : PSt} {X : Bytes} {cutL : Nat} {D : Bytes} (inv : Inv ms X cutL D)
    (l pl : Nat) (hl : LineOK ms l) (x : NT) :
    ∃ ms', step ms ⟨.nt x, pl, l, false⟩ = ms' ∧ ms'.line = l ∧ Inv ms' X cutL D
      ∧ ms'.rest = .nt x :: ms.rest := by
  unfold step fires
  simp only [Bool.or_false]
  rcases hl with ⟨h1, _⟩ | ⟨h1, h2, h3, h4, h5⟩
  · have : decide (ms.line < l) = false := by simp [h1]
    rw [this]
    simp only [Bool.false_eq_true, if_false]
    refine ⟨_, rfl, h1, ⟨inv.hdone, inv.hfirst, inv.hcut, ?_, ?_, ?_, ?_, ?_⟩, rfl⟩
    · simpa [Node.zero] using inv.hzero
    · simp [inv.hnum]
    · simp [inv.hcst, Node.cuttable, Bool.or_comm]
    · intro n hn
      cases hr : ms.rest with
      | nil => rw [hr] at hn; simp at hn; subst hn; rfl
      | cons m tl =>
        rw [hr] at hn
        exact inv.hhead n (by rw [hr]; simpa [List.getLast?_cons_cons] using hn)
    · intro t ht
      simp only [List.mem_cons] at ht
      rcases ht with ht | ht
      · cases ht
      · exact inv.hne t ht
  · have : decide (ms.line < l) = true := by simp [h1, h2]
    rw [this]
    simp only [if_true, fire, h5, Bool.false_and, Bool.false_eq_true, if_false, h3, h4, optNode,
      List.nil_append, Bool.false_or]
    have hX : X = [] ∧ cutL = 0 := by
      rcases inv.hfirst with ⟨_, a, b⟩ | a
      · exact ⟨a, b⟩
      · rw [h3] at a; cases a
    refine ⟨_, rfl, rfl, ⟨inv.hdone, Or.inl ⟨rfl, hX.1, hX.2⟩, inv.hcut, ?_, ?_, ?_, ?_, ?_⟩, by simp⟩
    · simp [Node.zero]
    · simp
    · simp [Node.cuttable]
    · intro n hn; simp at hn; subst hn; rfl
    · intro t ht; simp at ht


/-! ### a line closed by a comment -/

/-- the decision `cutSpaces` takes for the group when a comment makes the loop leave the line -/
def decC (ms : PSt) (X : Bytes) : Bool := ms.cst && ms.num == 1 && allBlank (lastAux X [])

theorem close_lineC {ms : PSt} {X : Bytes} {cutL : Nat} {D : Bytes} (inv : Inv ms X cutL D) :
    renderLineE (true, curOf ms X)
      = if decC ms X then restBytes ms else lastAux X [] ++ restBytes ms := by
  have hnl : noLF (lastAux X []) = true := lastAux_noLF X [] rfl
  have hkeep : keepLine (curOf ms X) = lastAux X [] ++ restBytes ms := keepLine_curOf ms X
  have hnum := inv.hnum
  have hcst := inv.hcst
  simp only [renderLineE]
  unfold removableC decC
  cases hr : ms.rest with
  | nil =>
    rw [hr] at hcst
    simp [curOf, restItems, restBytes, hr, hcst, oneCuttable]
  | cons n tl =>
    cases tl with
    | nil =>
      rw [hr] at hcst hnum
      cases n with
      | text t =>
        have : ms.cst = false := by simpa [Node.cuttable] using hcst
        simp [curOf, restItems, restBytes, hr, this, nodeItems, nodeBytes, oneCuttable, lineToks]
      | nt x =>
        have hc : ms.cst = x.cuttable := by simpa [Node.cuttable] using hcst
        have hcur : curOf ms X = bytesI (lastAux X []) ++ [.tok x] := by
          simp [curOf, restItems, hr, nodeItems]
        have hrb : restBytes ms = x.out := by simp [restBytes, hr, nodeBytes]
        rw [hcur, endsWithTok_snoc_tok, hrb]
        simp only [lineToks_append, lineToks_bytes, List.nil_append, lineToks, oneCuttable,
          lineBlank_append, lineBlank_bytes _ hnl, lineBlank, Bool.and_true, hc, hnum,
          List.length_singleton, beq_self_eq_true]
        by_cases h : (x.cuttable && allBlank (lastAux X [])) = true
        · rw [h]; simp [cutLine, lineToks]
        · have h' : (x.cuttable && allBlank (lastAux X [])) = false := by simpa using h
          rw [h']; simp [keepLine]
    | cons m tl' =>
      rw [hr] at hnum
      have h1 : (ms.num == 1) = false := by simp [hnum]
      have hfalse : (oneCuttable (lineToks (curOf ms X)) && lineBlank (curOf ms X)
          && endsWithTok (curOf ms X)) = false := by
        cases n with
        | text t =>
          have hb : t.bs ≠ [] := inv.hne t (by rw [hr]; simp)
          have : curOf ms X = (bytesI (lastAux X []) ++ (m :: tl').reverse.flatMap nodeItems) ++ bytesI t.bs := by
            simp [curOf, restItems, hr, nodeItems]
          rw [this, endsWithTok_append_bytes _ _ hb]
          simp
        | nt x =>
          have hlen : 2 ≤ (lineToks (curOf ms X)).length := by
            have : lineToks (curOf ms X) = lineToks (restItems ms) := by simp [curOf]
            rw [this, restItems, lineToks_nodeItems_length, ntCount_reverse, hr]
            simp only [ntCount]
            obtain ⟨b, hb⟩ : ∃ b, (m :: tl').getLast? = some b := by
              cases hg : (m :: tl').getLast? with
              | none => simp at hg
              | some b => exact ⟨b, rfl⟩
            have hb' : ms.rest.getLast? = some b := by
              rw [hr]; simpa [List.getLast?_cons_cons] using hb
            have := ntCount_pos_of_mem (List.mem_of_getLast? hb) (inv.hhead b hb')
            omega
          generalize lineToks (curOf ms X) = l at hlen
          match l, hlen with
          | a :: b :: _, _ => simp [oneCuttable]
      rw [hfalse, h1]
      simp [hkeep]

theorem cutSpaces_none {ms : PSt} {X : Bytes} {cutL : Nat} {D : Bytes} (inv : Inv ms X cutL D) :
    cutSpaces ms.first none
      = (if allBlank (lastAux X []) then ms.first.map (setCutR (doneAux X []).length) else ms.first,
         none) := by
  unfold cutSpaces
  rcases inv.hfirst with ⟨h1, h2, _⟩ | h1
  · subst h2; rw [h1]; simp
  · rw [h1]
    simp only [scanFirst_closed]
    by_cases hb : allBlank (lastAux X []) = true
    · simp [hb]
    · have hb' : allBlank (lastAux X []) = false := by simpa using hb
      simp [hb']

/-- model side: a comment that spans lines or ends the file closes the group and starts the
next one -/
theorem step_break {ms : PSt} {X : Bytes} {cutL : Nat} {D : Bytes} (inv : Inv ms X cutL D)
    (x : NT) (pl lin : Nat) (at' : Bool) (hf : fires ms ⟨.nt x, pl, lin, at'⟩ = true) :
    ∃ done', step ms ⟨.nt x, pl, lin, at'⟩ = ⟨lin, done', none, [.nt x], x.cuttable, 1⟩
      ∧ emit done'.reverse
        = .ok (D ++ (doneAux X []).drop cutL ++ (if decC ms X then [] else lastAux X [])
                ++ restBytes ms) := by
  have hrest : emit ms.rest.reverse = .ok (restBytes ms) := by
    apply emit_zero
    simpa using inv.hzero
  have hp : (if (ms.cst && ms.num == 1) = true then cutSpaces ms.first none else (ms.first, none))
      = (if decC ms X then ms.first.map (setCutR (doneAux X []).length) else ms.first, none) := by
    rw [cutSpaces_none inv]
    unfold decC
    by_cases h1 : (ms.cst && ms.num == 1) = true
    · rw [h1]; simp
    · have : (ms.cst && ms.num == 1) = false := by simpa using h1
      simp [this]
  refine ⟨ms.rest ++ (optNode (if decC ms X then ms.first.map (setCutR (doneAux X []).length)
      else ms.first) ++ ms.done), ?_, ?_⟩
  · unfold step
    simp only [hf, if_true, fire, hp]
    simp
  · simp only [List.reverse_append]
    have hopt : ∀ o : Option TextNode, (optNode o).reverse = optNode o := by
      intro o; cases o <;> rfl
    rw [hopt]
    have := emit_append inv.hdone (emit_append (emit_first inv (decC ms X)) hrest)
    rw [List.append_assoc, this]
    simp

theorem items_isEmpty (rs : List Raw) (h : rs.all Raw.wf = true) : (items rs).isEmpty = rs.isEmpty := by
  cases rs with
  | nil => rfl
  | cons r rs' =>
    cases r with
    | nt t => simp [items]
    | text bs =>
      simp only [List.all_cons, Bool.and_eq_true, Raw.wf] at h
      cases bs with
      | nil => simp at h
      | cons b bs' => simp [items]

/-! ### the induction over the tokens -/

theorem inClass_tail_text (N : Bytes) (rs : List Raw) (h : inClass (.text N :: rs) = true) :
    inClass rs = true := by
  cases rs with
  | nil => rfl
  | cons r rs' => simpa [inClass] using h

theorem inClass_nt (x : NT) (rs : List Raw) (h : inClass (.nt x :: rs) = true) :
    inClass rs = true ∧ (x.comment = true → x.nl = 0) ∧ (rs = [] → x.comment = false) := by
  cases rs with
  | nil =>
    simp only [inClass, Bool.not_eq_true'] at h
    refine ⟨rfl, ?_, fun _ => h⟩
    intro hc; rw [h] at hc; cases hc
  | cons r rs' =>
    simp only [inClass, Bool.and_eq_true, Bool.not_eq_true', Bool.and_eq_false_iff] at h
    refine ⟨h.2, ?_, by intro e; cases e⟩
    intro hc
    rcases h.1 with h1 | h1
    · rw [h1] at hc; cases hc
    · simpa using h1

theorem sim (total : Nat) (rs : List Raw) : ∀ (ms : PSt) (l off : Nat) (X : Bytes) (cutL : Nat) (D : Bytes),
    rs.all Raw.wf = true → noAdj (lastIsText ms) rs = true →
    off + spanSum rs = total → Inv ms X cutL D → (rs ≠ [] → LineOK ms l) →
    (∀ n, ms.rest.head? = some n → n.isText = true → rs ≠ []) →
    emit (run ms (assignAux total l off rs)).nodes
      = .ok (D ++ (doneAux X []).drop cutL
              ++ (splitLinesE (items rs) (curOf ms X)).flatMap renderLineE) := by
  induction rs with
  | nil =>
    intro ms l off X cutL D _ _ _ inv _ hmore
    have hh : ∀ n, ms.rest.head? = some n → n.isText = false := by
      intro n hn
      cases hb : n.isText with
      | false => rfl
      | true => exact absurd rfl (hmore n hn hb)
    simp only [assignAux, run, items, splitLinesE_nil, List.flatMap_cons, List.flatMap_nil,
      List.append_nil, renderLineE]
    exact sim_nil inv hh
  | cons r rs' ih =>
    intro ms l off X cutL D hwf hadj hoff inv hline hmore
    have hl : LineOK ms l := hline (by simp)
    simp only [List.all_cons, Bool.and_eq_true] at hwf
    cases r with
    | nt x =>
      have hxw : x.wf = true := hwf.1
      simp only [NT.wf, Bool.and_eq_true, decide_eq_true_eq] at hxw
      have hadj' : noAdj false rs' = true := by simpa [noAdj] using hadj
      have hie : (items rs').isEmpty = rs'.isEmpty := items_isEmpty rs' hwf.2
      by_cases hbrk : breaksBefore x rs'.isEmpty = true
      · -- a comment that spans lines or ends the file: the line under construction is closed
        simp only [breaksBefore, Bool.and_eq_true, Bool.or_eq_true, bne_iff_ne, ne_eq] at hbrk
        obtain ⟨hcm, hwhy⟩ := hbrk
        have hhs : x.head = x.span := by
          have := hxw.2; simpa [hcm] using this
        have hlin : (Raw.nt x).linAdd = x.nl := by simp [Raw.linAdd, hcm]
        simp only [assignAux, hlin, run]
        have hf : fires ms ⟨.nt x, l, l + x.nl, off + (Raw.nt x).head == total⟩ = true := by
          unfold fires
          simp only [Bool.or_eq_true, decide_eq_true_eq]
          rcases hwhy with hnl | hlast
          · left
            rcases hl with ⟨h1, _⟩ | ⟨h1, h2, _⟩ <;> omega
          · right
            have : rs' = [] := by cases rs' <;> simp at hlast ⊢
            subst this
            simp only [spanSum, Raw.span, Nat.add_zero] at hoff
            simp only [Raw.head, beq_iff_eq]; omega
        obtain ⟨done', hs, hd⟩ := step_break inv x l (l + x.nl) _ hf
        rw [hs]
        have inv' : Inv ⟨l + x.nl, done', none, [.nt x], x.cuttable, 1⟩ [] 0
            ((D ++ List.drop cutL (doneAux X []) ++ if decC ms X = true then [] else lastAux X [])
              ++ restBytes ms) := by
          refine ⟨hd, Or.inl ⟨rfl, rfl, rfl⟩, Nat.le_refl _, rfl, rfl, ?_, ?_, ?_⟩
          · simp [Node.cuttable]
          · intro n hn; simp at hn; subst hn; rfl
          · intro t ht; simp at ht
        have := ih (catchUp _ (assignAux total (l + (Raw.nt x).nl) (off + (Raw.nt x).span) rs'))
          (l + (Raw.nt x).nl) (off + (Raw.nt x).span) [] 0 _ hwf.2
          (by rw [lastIsText_catchUp]; simpa [lastIsText, Node.isText] using hadj')
          (by simp only [spanSum] at hoff; omega) (inv_catchUp inv' _)
          (by
            intro hne
            cases hrs : rs' with
            | nil => exact absurd hrs hne
            | cons r2 rs2 =>
              left
              refine ⟨?_, Or.inr (by simp)⟩
              simp only [assignAux]
              rw [catchUp_line]
              simp [Raw.nl])
          (by
            intro n hn hb
            simp only [catchUp_rest, List.head?_cons, Option.some.injEq] at hn
            subst hn; cases hb)
        rw [this, curOf_catchUp]
        have hbb : breaksBefore x (items rs').isEmpty = true := by
          rw [hie]; simp only [breaksBefore, hcm, Bool.true_and, Bool.or_eq_true, bne_iff_ne, ne_eq]
          exact hwhy
        simp only [items]
        rw [splitLinesE_tok_break _ _ _ hbb, List.flatMap_cons, close_lineC inv]
        have hcur : curOf ⟨l + x.nl, done', none, [.nt x], x.cuttable, 1⟩ [] = [Item.tok x] := by
          simp [curOf, restItems, nodeItems]
        rw [hcur]
        cases decC ms X <;> simp
      · -- any other statement, show or comment joins the line under construction
        have hbrk' : breaksBefore x rs'.isEmpty = false := by simpa using hbrk
        have hcn : x.comment = true → x.nl = 0 ∧ rs' ≠ [] := by
          intro hc
          simp only [breaksBefore, hc, Bool.true_and, Bool.or_eq_false_iff, bne_eq_false_iff_eq] at hbrk'
          exact ⟨hbrk'.1, by intro e; subst e; simp at hbrk'⟩
        have hlin : (Raw.nt x).linAdd = 0 := by
          simp only [Raw.linAdd]
          by_cases hc : x.comment = true
          · simp [hc, (hcn hc).1]
          · simp [hc]
        have hat : (off + (Raw.nt x).head == total) = false := by
          simp only [Raw.head, beq_eq_false_iff_ne, ne_eq]
          simp only [spanSum, Raw.span] at hoff
          by_cases hc : x.comment = true
          · have := spanSum_pos hwf.2 (hcn hc).2
            have h2 := hxw.2
            simp [hc] at h2; omega
          · have h2 := hxw.2
            simp [hc] at h2; omega
        simp only [assignAux, hlin, hat, Nat.add_zero, run]
        obtain ⟨ms', hs, hl', inv', hr'⟩ := step_nt inv l l hl x
        rw [hs]
        have := ih (catchUp ms' (assignAux total (l + (Raw.nt x).nl) (off + (Raw.nt x).span) rs'))
          (l + (Raw.nt x).nl) (off + (Raw.nt x).span) X cutL D hwf.2
          (by rw [lastIsText_catchUp]; simpa [lastIsText, hr', Node.isText] using hadj')
          (by simp only [spanSum] at hoff; omega) (inv_catchUp inv' _)
          (by
            intro hne
            cases hrs : rs' with
            | nil => exact absurd hrs hne
            | cons r2 rs2 =>
              left
              refine ⟨?_, Or.inr (by simp [hr'])⟩
              simp only [assignAux]
              rw [catchUp_line]
              simp only [hl']; omega)
          (by
            intro n hn hb
            simp only [catchUp_rest, hr', List.head?_cons, Option.some.injEq] at hn
            subst hn; cases hb)
        rw [this, curOf_catchUp]
        have hbb : breaksBefore x (items rs').isEmpty = false := by rw [hie]; exact hbrk'
        simp only [items]
        rw [splitLinesE_tok_plain _ _ _ hbb]
        have : curOf ms' X = curOf ms X ++ [Item.tok x] := by
          simp [curOf, restItems, hr', nodeItems]
        rw [this]
    | text N =>
      have hN : N ≠ [] := by
        have := hwf.1; simp only [Raw.wf] at this; intro e; subst e; simp at this
      have hlt : lastIsText ms = false ∧ noAdj true rs' = true := by
        simp only [noAdj, Bool.and_eq_true, Bool.not_eq_true'] at hadj; exact hadj
      have hh : ∀ n, ms.rest.head? = some n → n.isText = false := by
        intro n hn
        have := hlt.1
        cases hr : ms.rest with
        | nil => rw [hr] at hn; cases hn
        | cons m tl =>
          rw [hr] at hn; simp at hn; subst hn
          simpa [lastIsText, hr] using this
      simp only [spanSum, Raw.span] at hoff
      simp only [assignAux, Raw.linAdd, Raw.head, Raw.nl, Raw.span, run, items]
      have hitems : List.map Item.byte N = bytesI N := rfl
      rw [hitems]
      by_cases hlf : noLF N = true
      · -- the text has no LF
        have hnl : nlCount N = 0 := (nlCount_eq_zero_iff N).mpr hlf
        have hsl : scanLast N = if allBlank N then some N.length else none := scanLast_noLF N hlf
        by_cases hrs : rs' = []
        · -- last token: the `tok.pos.End == lastIndex` clause
          subst hrs
          simp only [spanSum, Nat.add_zero] at hoff
          have hat : (off + N.length == total) = true := by simp [hoff]
          simp only [assignAux, run, catchUp, items, List.append_nil, hnl, Nat.add_zero]
          unfold step fires
          simp only [hat, Bool.or_true, if_true]
          obtain ⟨done', hf, hd⟩ := fire_text inv N l
          rw [hf]
          simp only [PSt.nodes, optNode, List.reverse_nil, List.append_nil]
          have hdec : dec ms X N = (ms.cst && ms.num == 1 && allBlank (lastAux X []) && allBlank N) := by
            unfold dec; rw [hsl]; cases allBlank N <;> simp
          have hnode : emit [Node.text ⟨N, if dec ms X N then (scanLast N).getD 0 else 0, 0⟩]
              = .ok (if dec ms X N then [] else N) := by
            simp only [emit]
            by_cases hd' : dec ms X N = true
            · have hb : allBlank N = true := by
                rw [hdec] at hd'; simp only [Bool.and_eq_true] at hd'; exact hd'.2
              rw [emitNode_text _ _ _ (by simp [hd', hsl, hb])]
              simp [hd', hsl, hb]
            · have hd'' : dec ms X N = false := by simpa using hd'
              rw [emitNode_text _ _ _ (by simp [hd''])]
              simp [hd'']
          have hsp : splitLinesE (bytesI N) (curOf ms X) = [(false, curOf ms X ++ bytesI N)] := by
            have := splitLinesE_noLF N [] (curOf ms X) hlf
            simpa using this
          rw [emit_append hd hnode, hsp]
          simp only [List.flatMap_cons, List.flatMap_nil, List.append_nil, renderLineE]
          rw [close_line inv hh N hN (allBlank N) (lineBlank_bytes N hlf), ← hdec]
          cases dec ms X N <;> simp
        · -- not the last token
          have hpos := spanSum_pos hwf.2 hrs
          have hat : (off + N.length == total) = false := by
            simp only [beq_eq_false_iff_ne, ne_eq]; omega
          simp only [hnl, Nat.add_zero]
          rcases hl with ⟨h1, h2⟩ | ⟨h1, h2, h3, h4, h5⟩
          · -- it joins the line under construction
            have hne : ms.rest ≠ [] := by
              rcases h2 with h2 | h2
              · intro hr
                have := hlt.1
                simp only [lastIsText, hr] at this
                cases hf : ms.first with
                | none => exact h2 hf
                | some f => rw [hf] at this; cases this
              · exact h2
            have hst : step ms ⟨.text N, l, l, false⟩
                = { ms with rest := .text ⟨N, 0, 0⟩ :: ms.rest, num := ms.num + 1 } := by
              unfold step fires
              simp [h1]
            rw [hat, hst]
            have inv' : Inv { ms with rest := .text ⟨N, 0, 0⟩ :: ms.rest, num := ms.num + 1 } X cutL D := by
              refine ⟨inv.hdone, inv.hfirst, inv.hcut, ?_, ?_, ?_, ?_, ?_⟩
              · simpa [Node.zero] using inv.hzero
              · simp [inv.hnum]
              · simp [inv.hcst, Node.cuttable]
              · intro n hn
                cases hr : ms.rest with
                | nil => exact absurd hr hne
                | cons m tl =>
                  simp only [hr, List.getLast?_cons_cons] at hn
                  exact inv.hhead n (by rw [hr]; exact hn)
              · intro t ht
                simp only [List.mem_cons] at ht
                rcases ht with ht | ht
                · cases ht; exact hN
                · exact inv.hne t ht
            have := ih (catchUp _ (assignAux total l (off + N.length) rs')) l (off + N.length) X cutL D
              hwf.2 (by rw [lastIsText_catchUp]; simpa [lastIsText, Node.isText] using hlt.2)
              (by omega) (inv_catchUp inv' _)
              (by
                intro _
                left
                cases hr2 : rs' with
                | nil => exact absurd hr2 hrs
                | cons r2 rs2 =>
                  refine ⟨?_, Or.inr (by simp)⟩
                  simp only [assignAux]
                  rw [catchUp_line]
                  simp [h1])
              (by intro _ _ _; exact hrs)
            rw [this, curOf_catchUp, splitLinesE_noLF _ _ _ hlf]
            have : curOf { ms with rest := .text ⟨N, 0, 0⟩ :: ms.rest, num := ms.num + 1 } X
                = curOf ms X ++ bytesI N := by
              simp [curOf, restItems, nodeItems]
            rw [this]
          · -- first token read
            have hX : X = [] ∧ cutL = 0 := by
              rcases inv.hfirst with ⟨_, a, b⟩ | a
              · exact ⟨a, b⟩
              · rw [h3] at a; cases a
            obtain ⟨hX1, hX2⟩ := hX
            subst hX1; subst hX2
            have hst : step ms ⟨.text N, l, l, (off + N.length == total)⟩ = fire ms (some ⟨N, 0, 0⟩) l := by
              unfold step fires
              simp [h1, h2]
            rw [hst]
            obtain ⟨done', hf, hd⟩ := fire_text inv N l
            have hdec : dec ms [] N = false := by simp [dec, h5]
            rw [hdec] at hf hd
            simp only [Bool.false_eq_true, if_false] at hf hd
            rw [hf]
            have hrb : restBytes ms = [] := by simp [restBytes, h4]
            rw [hrb] at hd
            simp only [doneAux_nil, List.drop_nil, lastAux_nil, List.append_nil] at hd
            have inv' : Inv ⟨l, done', some ⟨N, 0, 0⟩, [], false, 0⟩ N 0 D := by
              refine ⟨hd, Or.inr rfl, Nat.zero_le _, rfl, rfl, rfl, ?_, ?_⟩
              · intro n hn; cases hn
              · intro t ht; cases ht
            have := ih (catchUp _ (assignAux total l (off + N.length) rs')) l (off + N.length) N 0 D
              hwf.2 (by rw [lastIsText_catchUp]; simpa [lastIsText] using hlt.2)
              (by omega) (inv_catchUp inv' _)
              (by
                intro _
                left
                cases hr2 : rs' with
                | nil => exact absurd hr2 hrs
                | cons r2 rs2 =>
                  refine ⟨?_, Or.inl (by simp)⟩
                  simp only [assignAux]
                  rw [catchUp_line]
                  simp)
              (by intro n hn; simp at hn)
            rw [this, curOf_catchUp, splitLinesE_noLF _ _ _ hlf]
            simp [curOf, restItems, h4, doneAux_of_noLF N [] hlf, lastAux_of_noLF N [] hlf]
      · -- the text has a LF: the line under construction ends in it
        have hlf' : noLF N = false := by simpa using hlf
        obtain ⟨H, R, hN', hH⟩ := split_first_LF N hlf'
        have hnl : 0 < nlCount N := by
          apply Nat.pos_of_ne_zero
          intro h0
          exact hlf ((nlCount_eq_zero_iff N).mp h0)
        have hsl : scanLast N = if allBlank H then some (H.length + 1) else none := by
          rw [hN']; exact scanLast_split H R hH
        have hst : step ms ⟨.text N, l, l + nlCount N, (off + N.length == total)⟩
            = fire ms (some ⟨N, 0, 0⟩) (l + nlCount N) := by
          unfold step fires
          have : decide (ms.line < l + nlCount N) = true := by
            rcases hl with ⟨h1, _⟩ | ⟨h1, _⟩ <;> simp [h1] <;> omega
          simp [this]
        rw [hst]
        obtain ⟨done', hf, hd⟩ := fire_text inv N (l + nlCount N)
        rw [hf]
        have hdec : dec ms X N = (ms.cst && ms.num == 1 && allBlank (lastAux X []) && allBlank H) := by
          unfold dec; rw [hsl]; cases allBlank H <;> simp
        have hdn : doneAux N [] = H ++ [LF] ++ doneAux R [] := by
          rw [hN', doneAux_split H R [] hH]; simp
        have hln : lastAux N [] = lastAux R [] := by rw [hN', lastAux_split H R [] hH]
        let c : Nat := if dec ms X N then (scanLast N).getD 0 else 0
        have hc : c ≤ (doneAux N []).length := by
          show (if dec ms X N then (scanLast N).getD 0 else 0) ≤ _
          rw [hdn, hsl]
          by_cases hd' : dec ms X N = true
          · have hb : allBlank H = true := by
              rw [hdec] at hd'; simp only [Bool.and_eq_true] at hd'; exact hd'.2
            simp [hd', hb]
          · have : dec ms X N = false := by simpa using hd'
            simp [this]
        have inv' : Inv ⟨l + nlCount N, done', some ⟨N, c, 0⟩, [], false, 0⟩ N c
            ((D ++ List.drop cutL (doneAux X []) ++ if dec ms X N = true then [] else lastAux X [])
              ++ restBytes ms) := by
          refine ⟨hd, Or.inr rfl, hc, rfl, rfl, rfl, ?_, ?_⟩
          · intro n hn; cases hn
          · intro t ht; cases ht
        have := ih (catchUp _ (assignAux total (l + nlCount N) (off + N.length) rs'))
          (l + nlCount N) (off + N.length) N c
          ((D ++ List.drop cutL (doneAux X []) ++ if dec ms X N = true then [] else lastAux X [])
              ++ restBytes ms)
          hwf.2 (by rw [lastIsText_catchUp]; simpa [lastIsText] using hlt.2)
          (by omega) (inv_catchUp inv' _)
          (by
            intro hne
            left
            cases hr2 : rs' with
            | nil => exact absurd hr2 hne
            | cons r2 rs2 =>
              refine ⟨?_, Or.inl (by simp)⟩
              simp only [assignAux]
              rw [catchUp_line]
              simp)
          (by intro n hn; simp at hn)
        rw [this, curOf_catchUp]
        have hcur : curOf ⟨l + nlCount N, done', some ⟨N, c, 0⟩, [], false, 0⟩ N = bytesI (lastAux R []) := by
          simp [curOf, restItems, hln]
        rw [hcur]
        conv => rhs; rw [hN', splitLinesE_first_LF H R _ _ hH]
        simp only [List.flatMap_cons, renderLineE]
        have hrt := render_text_linesE R [] (items rs')
        simp only [bytesI_nil] at hrt
        rw [hrt]
        have hcl1 : curOf ms X ++ bytesI H ++ [Item.byte LF] = curOf ms X ++ bytesI (H ++ [LF]) := by simp
        have hbl : lineBlank (bytesI (H ++ [LF])) = allBlank H := by
          rw [bytesI_append, lineBlank_append, lineBlank_bytes H hH]
          simp [lineBlank]
        rw [hcl1, close_line inv hh (H ++ [LF]) (by simp) (allBlank H) hbl, ← hdec, hdn]
        show Except.ok (_ ++ List.drop (if dec ms X N then (scanLast N).getD 0 else 0) _ ++ _) = _
        rw [hsl]
        by_cases hd' : dec ms X N = true
        · have hb : allBlank H = true := by
            rw [hdec] at hd'; simp only [Bool.and_eq_true] at hd'; exact hd'.2
          simp [hd', hb]
        · have hd'' : dec ms X N = false := by simpa using hd'
          simp [hd'']

end ScriggoV.Cut
