import ScriggoV.Spec.GoConst
/-! Lemmas about the specification's bitwise operators (`Spec/GoConst.lean`): the width at which
they are computed does not matter once it holds both operands, hence they agree with the
two's complement operators of any fixed width on values of that width. -/
namespace ScriggoV.Spec.GoConst

theorem two_pow_cast (e : Nat) : ((2 ^ e : Nat) : Int) = (2 : Int) ^ e := by
  simp [Int.natCast_pow]

/-- `bitsFor a` bits hold `a` in two's complement -/
theorem fits_bitsFor (a : Int) :
    -(2 : Int) ^ (bitsFor a - 1) ≤ a ∧ a < (2 : Int) ^ (bitsFor a - 1) := by
  unfold bitsFor
  by_cases h : 0 ≤ a
  · simp only [h, if_true]
    have := @Nat.lt_log2_self a.toNat
    have e : a.toNat.log2 + 2 - 1 = a.toNat.log2 + 1 := by omega
    rw [e, ← two_pow_cast]
    omega
  · simp only [h, if_false]
    have := @Nat.lt_log2_self (-a - 1).toNat
    have e : (-a - 1).toNat.log2 + 2 - 1 = (-a - 1).toNat.log2 + 1 := by omega
    rw [e, ← two_pow_cast]
    omega

theorem bitsFor_pos (a : Int) : 0 < bitsFor a := by unfold bitsFor; omega

theorem pow_mono_int {v w : Nat} (h : v ≤ w) : (2 : Int) ^ v ≤ (2 : Int) ^ w := by
  rw [← two_pow_cast, ← two_pow_cast]
  exact Int.ofNat_le.mpr (Nat.pow_le_pow_right (by decide) h)

/-- a value that fits `v` bits, written at `v` bits and sign-extended to `w ≥ v` bits, is the
value written at `w` bits -/
theorem ofInt_signExtend {v w : Nat} (a : Int) (hv : 0 < v) (h : v ≤ w)
    (lo : -(2 : Int) ^ (v - 1) ≤ a) (hi : a < (2 : Int) ^ (v - 1)) :
    (BitVec.ofInt v a).signExtend w = BitVec.ofInt w a := by
  apply BitVec.eq_of_toInt_eq
  rw [BitVec.toInt_signExtend_of_le h, BitVec.toInt_ofInt_eq_self hv lo hi]
  have hm := pow_mono_int (show v - 1 ≤ w - 1 by omega)
  rw [BitVec.toInt_ofInt_eq_self (by omega) (by omega) (by omega)]

theorem fits_bitWidth_left (a b : Int) :
    -(2 : Int) ^ (bitWidth a b - 1) ≤ a ∧ a < (2 : Int) ^ (bitWidth a b - 1) := by
  have := fits_bitsFor a
  have hm := pow_mono_int (show bitsFor a - 1 ≤ bitWidth a b - 1 by unfold bitWidth; omega)
  omega

theorem fits_bitWidth_right (a b : Int) :
    -(2 : Int) ^ (bitWidth a b - 1) ≤ b ∧ b < (2 : Int) ^ (bitWidth a b - 1) := by
  have := fits_bitsFor b
  have hm := pow_mono_int (show bitsFor b - 1 ≤ bitWidth a b - 1 by unfold bitWidth; omega)
  omega

theorem bitWidth_pos (a b : Int) : 0 < bitWidth a b := by
  have := bitsFor_pos a; unfold bitWidth; omega

/-- the four operators at any width `w` that holds both operands -/
theorem bitAnd_at (a b : Int) (w : Nat) (h : bitWidth a b ≤ w) :
    bitAnd a b = (BitVec.ofInt w a &&& BitVec.ofInt w b).toInt := by
  obtain ⟨la, ha⟩ := fits_bitWidth_left a b
  obtain ⟨lb, hb⟩ := fits_bitWidth_right a b
  have p := bitWidth_pos a b
  rw [← ofInt_signExtend a p h la ha, ← ofInt_signExtend b p h lb hb, ← BitVec.signExtend_and,
    BitVec.toInt_signExtend_of_le h]
  rfl

theorem bitOr_at (a b : Int) (w : Nat) (h : bitWidth a b ≤ w) :
    bitOr a b = (BitVec.ofInt w a ||| BitVec.ofInt w b).toInt := by
  obtain ⟨la, ha⟩ := fits_bitWidth_left a b
  obtain ⟨lb, hb⟩ := fits_bitWidth_right a b
  have p := bitWidth_pos a b
  rw [← ofInt_signExtend a p h la ha, ← ofInt_signExtend b p h lb hb, ← BitVec.signExtend_or,
    BitVec.toInt_signExtend_of_le h]
  rfl

theorem bitXor_at (a b : Int) (w : Nat) (h : bitWidth a b ≤ w) :
    bitXor a b = (BitVec.ofInt w a ^^^ BitVec.ofInt w b).toInt := by
  obtain ⟨la, ha⟩ := fits_bitWidth_left a b
  obtain ⟨lb, hb⟩ := fits_bitWidth_right a b
  have p := bitWidth_pos a b
  rw [← ofInt_signExtend a p h la ha, ← ofInt_signExtend b p h lb hb, ← BitVec.signExtend_xor,
    BitVec.toInt_signExtend_of_le h]
  rfl

theorem bitAndNot_at (a b : Int) (w : Nat) (h : bitWidth a b ≤ w) :
    bitAndNot a b = (BitVec.ofInt w a &&& ~~~ BitVec.ofInt w b).toInt := by
  obtain ⟨la, ha⟩ := fits_bitWidth_left a b
  obtain ⟨lb, hb⟩ := fits_bitWidth_right a b
  have p := bitWidth_pos a b
  rw [← ofInt_signExtend a p h la ha, ← ofInt_signExtend b p h lb hb, ← BitVec.signExtend_not p,
    ← BitVec.signExtend_and, BitVec.toInt_signExtend_of_le h]
  rfl

/-- a 64-bit two's complement value needs at most 64 bits -/
theorem bitsFor_toInt_le (x : BitVec 64) : bitsFor x.toInt ≤ 64 := by
  have h1 := @BitVec.toInt_lt 64 x
  have h2 := BitVec.le_toInt x
  unfold bitsFor
  by_cases h : 0 ≤ x.toInt
  · simp only [h, if_true]
    by_cases hz : x.toInt.toNat = 0
    · rw [hz]; decide
    · have := (Nat.log2_lt hz (k := 63)).mpr (by omega)
      omega
  · simp only [h, if_false]
    by_cases hz : (-x.toInt - 1).toNat = 0
    · rw [hz]; decide
    · have := (Nat.log2_lt hz (k := 63)).mpr (by omega)
      omega

theorem bitWidth_toInt_le (x y : BitVec 64) : bitWidth x.toInt y.toInt ≤ 64 := by
  have := bitsFor_toInt_le x; have := bitsFor_toInt_le y; unfold bitWidth; omega

/-! the int64 operators compute the specification's operators -/
theorem toInt_and64 (x y : BitVec 64) : (x &&& y).toInt = bitAnd x.toInt y.toInt := by
  rw [bitAnd_at _ _ 64 (bitWidth_toInt_le x y), BitVec.ofInt_toInt, BitVec.ofInt_toInt]
theorem toInt_or64 (x y : BitVec 64) : (x ||| y).toInt = bitOr x.toInt y.toInt := by
  rw [bitOr_at _ _ 64 (bitWidth_toInt_le x y), BitVec.ofInt_toInt, BitVec.ofInt_toInt]
theorem toInt_xor64 (x y : BitVec 64) : (x ^^^ y).toInt = bitXor x.toInt y.toInt := by
  rw [bitXor_at _ _ 64 (bitWidth_toInt_le x y), BitVec.ofInt_toInt, BitVec.ofInt_toInt]
theorem toInt_andNot64 (x y : BitVec 64) : (x &&& ~~~y).toInt = bitAndNot x.toInt y.toInt := by
  rw [bitAndNot_at _ _ 64 (bitWidth_toInt_le x y), BitVec.ofInt_toInt, BitVec.ofInt_toInt]

/-- `-1 ^ a` is the complement `-a - 1` -/
theorem bitXor_neg_one (a : Int) : bitXor (-1) a = -a - 1 := by
  have hw := bitWidth_pos (-1) a
  obtain ⟨la, ha⟩ := fits_bitWidth_right (-1) a
  unfold bitXor
  generalize bitWidth (-1) a = w at *
  have e : BitVec.ofInt w (-1) = BitVec.allOnes w := by
    apply BitVec.eq_of_toInt_eq
    rw [BitVec.toInt_ofInt_eq_self hw (by have := pow_mono_int (Nat.zero_le (w-1)); omega)
      (by have := pow_mono_int (Nat.zero_le (w-1)); omega)]
    simp [BitVec.toInt_allOnes, hw]
  rw [e, BitVec.allOnes_xor, BitVec.toInt_not, BitVec.toNat_ofInt]
  have hp : (0 : Int) < 2 ^ w := by rw [← two_pow_cast]; exact Int.ofNat_lt.mpr (Nat.two_pow_pos w)
  have e2 : (2 : Int) ^ w = 2 * 2 ^ (w - 1) := by
    have : w = (w - 1) + 1 := by omega
    rw [this, Int.pow_succ]; simp; omega
  rw [Int.toNat_of_nonneg (Int.emod_nonneg _ (by rw [two_pow_cast]; omega)), two_pow_cast]
  apply (Int.bmod_eq_iff (by exact Nat.two_pow_pos w)).mpr
  rw [two_pow_cast]
  refine ⟨by omega, by omega, ?_⟩
  have h3 : -a - 1 - (2 ^ w - 1 - a % 2 ^ w) = -(2 ^ w * (a / 2 ^ w)) - 2 ^ w := by
    have := Int.emod_add_mul_ediv a (2 ^ w); omega
  rw [h3]
  exact Int.dvd_sub (Int.dvd_neg.mpr (Int.dvd_mul_right _ _)) (Int.dvd_refl _)

/-- for non-negative operands `^` is the natural-number xor -/
theorem bitXor_natCast (a b : Nat) : bitXor (a : Int) (b : Int) = ((a ^^^ b : Nat) : Int) := by
  have hw := bitWidth_pos (a : Int) (b : Int)
  obtain ⟨la, ha⟩ := fits_bitWidth_left (a : Int) (b : Int)
  obtain ⟨lb, hb⟩ := fits_bitWidth_right (a : Int) (b : Int)
  unfold bitXor
  generalize bitWidth (a : Int) (b : Int) = w at *
  have e2 : (2 : Nat) ^ w = 2 * 2 ^ (w - 1) := by
    have : w = (w - 1) + 1 := by omega
    rw [this, Nat.pow_succ]; simp; omega
  rw [← two_pow_cast] at ha hb
  have ha' : a < 2 ^ (w - 1) := by exact_mod_cast ha
  have hb' : b < 2 ^ (w - 1) := by exact_mod_cast hb
  have hx : a ^^^ b < 2 ^ (w - 1) := Nat.xor_lt_two_pow ha' hb'
  rw [BitVec.ofInt_natCast, BitVec.ofInt_natCast, BitVec.toInt_eq_toNat_cond, BitVec.toNat_xor,
    BitVec.toNat_ofNat, BitVec.toNat_ofNat, Nat.mod_eq_of_lt (by omega), Nat.mod_eq_of_lt (by omega)]
  rw [if_pos (by omega)]

/-- `x >> n` is `⌊x / 2^n⌋` -/
theorem shiftRight_eq_floor_div (a : Int) (n : Nat) : shiftRight a n = a / (2 : Int) ^ n := by
  unfold shiftRight
  rw [Int.shiftRight_eq_div_pow, two_pow_cast]

end ScriggoV.Spec.GoConst
