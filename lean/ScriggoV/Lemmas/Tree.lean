import ScriggoV.Model.Tree
/-! Generic facts about schema-driven `clone` and `walk` (C28), by mutual structural
induction on trees / forests. Nothing here mentions the real tables. -/
namespace ScriggoV.Tree
variable {κ φ : Type} [DecidableEq φ]

/-! ### clone -/

mutual
/-- the copy has the shape and labels of the original when every field that holds a child
is one the clone copies -/
theorem erase_clone (S C : κ → List φ) (off : Nat) (h : ∀ k, ∀ f ∈ S k, f ∈ C k) :
    ∀ t : T κ φ, WF S t → erase (clone C off t) = erase t
  | .node k i cs => by
    intro wf
    simp only [clone, erase]
    rw [eraseF_cloneF S C off h k cs (C k) (h k) wf]
theorem eraseF_cloneF (S C : κ → List φ) (off : Nat) (h : ∀ k, ∀ f ∈ S k, f ∈ C k) (k : κ) :
    ∀ cs : F κ φ, ∀ keep : List φ, (∀ f ∈ S k, f ∈ keep) → WF.WFF S k cs →
      eraseF (cloneF C off keep cs) = eraseF cs
  | .nil => by intro keep _ _; simp [cloneF, eraseF]
  | .cons f t rest => by
    intro keep hk wf
    obtain ⟨hf, wt, wr⟩ := wf
    simp only [cloneF, if_pos (hk f hf), eraseF]
    rw [erase_clone S C off h t wt, eraseF_cloneF S C off h k rest keep hk wr]
end

mutual
/-- the identities of the copy are (some of) the original identities shifted by `off` -/
theorem ids_clone_sublist (C : κ → List φ) (off : Nat) :
    ∀ t : T κ φ, List.Sublist (ids (clone C off t)) ((ids t).map (· + off))
  | .node k i cs => by
    simp only [clone, ids, List.map_cons]
    exact List.Sublist.cons_cons _ (idsF_cloneF_sublist C off cs (C k))
theorem idsF_cloneF_sublist (C : κ → List φ) (off : Nat) :
    ∀ cs : F κ φ, ∀ keep : List φ,
      List.Sublist (idsF (cloneF C off keep cs)) ((idsF cs).map (· + off))
  | .nil => by intro keep; simp [cloneF, idsF]
  | .cons f t rest => by
    intro keep
    simp only [cloneF, idsF, List.map_append]
    split
    · simp only [idsF]
      exact List.Sublist.append (ids_clone_sublist C off t) (idsF_cloneF_sublist C off rest keep)
    · exact (idsF_cloneF_sublist C off rest keep).trans (List.sublist_append_right _ _)
end

/-- when the fields that hold children are all copied, the copy has exactly the original's
identities shifted: as many nodes, none shared, none missing -/
theorem ids_clone_eq (S C : κ → List φ) (off : Nat) (h : ∀ k, ∀ f ∈ S k, f ∈ C k)
    (t : T κ φ) (wf : WF S t) : ids (clone C off t) = (ids t).map (· + off) := by
  have key : ∀ (t : T κ φ), ids (erase t) = (ids t).map (fun _ => 0) := by
    intro t
    exact (T.rec (motive_1 := fun t => ids (erase t) = (ids t).map (fun _ => 0))
      (motive_2 := fun cs => idsF (eraseF cs) = (idsF cs).map (fun _ => 0))
      (fun k i cs ih => by simp [erase, ids, ih])
      (by simp [eraseF, idsF])
      (fun f t rest iht ihr => by simp [eraseF, idsF, iht, ihr]) t)
  have hlen : (ids (clone C off t)).length = ((ids t).map (· + off)).length := by
    have := congrArg (fun t => (ids t).length) (erase_clone S C off h t wf)
    simpa [key] using this
  exact (ids_clone_sublist C off t).eq_of_length hlen

/-! ### walk -/

/-- the steps of one case never make `Walk` reach the same child twice: a field is either
walked (once) or looked through (each inner field at most once), not both -/
def StepsOK (steps : List (Step φ)) : Prop :=
  ∀ f, (steps.count (.field f) = 0 ∧ ∀ g, steps.count (.through f g) ≤ 1)
     ∨ (steps.count (.field f) = 1 ∧ ∀ g, steps.count (.through f g) = 0)

/-- the guard in `walkChild` / `walkThrough` is only there for strict evaluation -/
@[simp] theorem ite_zero_replicate {α} (n : Nat) (l : List α) :
    (if n = 0 then [] else (List.replicate n l).flatten) = (List.replicate n l).flatten := by
  cases n <;> simp

theorem flatten_replicate_zero {α} (l : List α) : (List.replicate 0 l).flatten = [] := by simp
theorem flatten_replicate_one {α} (l : List α) : (List.replicate 1 l).flatten = l := by simp

theorem flatten_replicate_le_one {α} (n : Nat) (l : List α) (h : n ≤ 1) :
    List.Sublist (List.replicate n l).flatten l := by
  match n, h with
  | 0, _ => simp
  | 1, _ => simp

theorem walkThrough_nil_of_no_through (W : κ → List (Step φ)) (steps : List (Step φ)) (f : φ)
    (h : ∀ g, steps.count (.through f g) = 0) : ∀ cs : F κ φ, walkThrough W steps f cs = []
  | .nil => by simp [walkThrough]
  | .cons g t rest => by
    simp [walkThrough, h g, walkThrough_nil_of_no_through W steps f h rest]

mutual
/-- `Walk` only ever visits nodes of the tree, in pre-order positions, each position at most
once: its visit list is a sublist of the pre-order list of the tree's nodes -/
theorem walk_sublist (W : κ → List (Step φ)) (ok : ∀ k, StepsOK (W k)) :
    ∀ t : T κ φ, List.Sublist (walk W t) (ids t)
  | .node k i cs => by
    simp only [walk, ids]
    exact List.Sublist.cons_cons _ (walkF_sublist W ok (W k) (ok k) cs)
theorem walkF_sublist (W : κ → List (Step φ)) (ok : ∀ k, StepsOK (W k))
    (steps : List (Step φ)) (sok : StepsOK steps) :
    ∀ cs : F κ φ, List.Sublist (walkF W steps cs) (idsF cs)
  | .nil => by simp [walkF, idsF]
  | .cons f t rest => by
    simp only [walkF, idsF]
    exact List.Sublist.append (walkChild_sublist W ok steps sok f t) (walkF_sublist W ok steps sok rest)
theorem walkChild_sublist (W : κ → List (Step φ)) (ok : ∀ k, StepsOK (W k))
    (steps : List (Step φ)) (sok : StepsOK steps) (f : φ) :
    ∀ t : T κ φ, List.Sublist (walkChild W steps f t) (ids t)
  | .node k i cs => by
    simp only [walkChild, ids, ite_zero_replicate]
    rcases sok f with ⟨h0, hg⟩ | ⟨h1, hg⟩
    · rw [h0]
      simp only [List.replicate_zero, List.flatten_nil, List.nil_append]
      exact (walkThrough_sublist W ok steps f hg cs).trans (List.sublist_cons_self _ _)
    · rw [h1, walkThrough_nil_of_no_through W steps f hg cs]
      simp only [flatten_replicate_one, List.append_nil]
      exact List.Sublist.cons_cons _ (walkF_sublist W ok (W k) (ok k) cs)
theorem walkThrough_sublist (W : κ → List (Step φ)) (ok : ∀ k, StepsOK (W k))
    (steps : List (Step φ)) (f : φ) (hg : ∀ g, steps.count (.through f g) ≤ 1) :
    ∀ cs : F κ φ, List.Sublist (walkThrough W steps f cs) (idsF cs)
  | .nil => by simp [walkThrough, idsF]
  | .cons g t rest => by
    simp only [walkThrough, idsF, ite_zero_replicate]
    exact List.Sublist.append
      ((flatten_replicate_le_one _ _ (hg g)).trans (walk_sublist W ok t))
      (walkThrough_sublist W ok steps f hg rest)
end

/-- the case of kind `k` walks exactly the fields that hold children, each once -/
def Complete (W : κ → List (Step φ)) (S : κ → List φ) (k : κ) : Prop :=
  W k = (S k).map Step.field ∧ (S k).Nodup

/-- every node of the tree has a kind satisfying `P` -/
def AllKinds (P : κ → Prop) : T κ φ → Prop
  | .node k _ cs => P k ∧ AllKindsF P cs
where
  AllKindsF (P : κ → Prop) : F κ φ → Prop
    | .nil => True
    | .cons _ t rest => AllKinds P t ∧ AllKindsF P rest

theorem count_field_map (l : List φ) (f : φ) :
    (l.map Step.field).count (.field f) = l.count f := by
  induction l with
  | nil => simp
  | cons a l ih =>
    simp only [List.map_cons, List.count_cons, ih]
    congr 1
    by_cases h : a = f <;> simp [h]

theorem count_through_map (l : List φ) (f g : φ) :
    (l.map Step.field).count (.through f g) = 0 := by
  induction l with
  | nil => simp
  | cons a l ih => simp [ih]

mutual
/-- on a tree all of whose node kinds are walked completely, `Walk` visits every node, each
exactly once — its visit list *is* the pre-order list of the tree's nodes -/
theorem walk_eq_ids (W : κ → List (Step φ)) (S : κ → List φ) :
    ∀ t : T κ φ, WF S t → AllKinds (Complete W S) t → walk W t = ids t
  | .node k i cs => by
    intro wf ⟨hk, hcs⟩
    simp only [walk, ids]
    rw [walkF_eq_idsF W S k hk cs wf hcs]
theorem walkF_eq_idsF (W : κ → List (Step φ)) (S : κ → List φ) (k : κ) (hk : Complete W S k) :
    ∀ cs : F κ φ, WF.WFF S k cs → AllKinds.AllKindsF (Complete W S) cs →
      walkF W (W k) cs = idsF cs
  | .nil => by intro _ _; simp [walkF, idsF]
  | .cons f t rest => by
    intro ⟨hf, wt, wr⟩ ⟨at', ar⟩
    simp only [walkF, idsF]
    rw [walkF_eq_idsF W S k hk rest wr ar]
    congr 1
    have h1 : (W k).count (.field f) = 1 := by
      rw [hk.1, count_field_map]
      have hle := List.nodup_iff_count.mp hk.2 f
      have hpos := List.count_pos_iff.mpr hf
      omega
    have h0 : ∀ g, (W k).count (.through f g) = 0 := by
      intro g; rw [hk.1]; exact count_through_map _ _ _
    match t, wt, at' with
    | .node k' i' cs', wt, at' =>
      simp only [walkChild, h1, flatten_replicate_one,
        walkThrough_nil_of_no_through W (W k) f h0 cs', List.append_nil]
      exact walk_eq_ids W S (.node k' i' cs') wt at'
end

theorem nodup_map_add (l : List Nat) (off : Nat) (nd : l.Nodup) : (l.map (· + off)).Nodup := by
  induction l with
  | nil => simp
  | cons a l ih =>
    rw [List.nodup_cons] at nd
    simp only [List.map_cons, List.nodup_cons, List.mem_map, not_exists, not_and]
    refine ⟨?_, ih nd.2⟩
    intro b hb h
    have : b = a := by omega
    subst this
    exact nd.1 hb

/-! ### store frame -/

theorem write_other {α : Type} (σ : Nat → α) (a b : Nat) (v : α) (h : b ≠ a) :
    write σ a v b = σ b := by
  simp [write, h]

end ScriggoV.Tree
