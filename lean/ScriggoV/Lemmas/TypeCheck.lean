import ScriggoV.Spec.TypeCheckEval
/-! Lemmas for C03: wrap-around facts and the operator-level soundness lemmas
(static check succeeded ∧ operands as promised → the dynamic operation gives an acceptable result). -/
namespace ScriggoV.TypeCheck

theorem wrap_inRange (k : IKind) (n : Int) : inRange k (wrap k n) = true := by
  cases k <;> simp [wrap, inRange, IKind.minVal, IKind.maxVal, IKind.bits, IKind.signed] <;> omega

theorem wrap_id (k : IKind) (n : Int) (h : inRange k n = true) : wrap k n = n := by
  cases k <;> simp [wrap, inRange, IKind.minVal, IKind.maxVal, IKind.bits, IKind.signed] at h ⊢ <;> omega

/-- complementing an in-range value of an unsigned type within its width is `wrap (-x-1)` -/
theorem wrap_bitNot (k : IKind) (n : Int) (h : inRange k n = true) :
    wrap k (bitNot n) = complement (some k) n := by
  cases k <;> simp [wrap, inRange, bitNot, complement, IKind.minVal, IKind.maxVal, IKind.bits, IKind.signed] at h ⊢ <;> omega

variable {F : Type} (fs : FloatSem F)

@[simp] theorem Res.bind_ok {α β : Type} (v : α) (f : α → Res β) : (Res.ok v).bind f = f v := rfl
@[simp] theorem Res.bind_panic {α β : Type} (p : Panic) (f : α → Res β) : (Res.panic p : Res α).bind f = .panic p := rfl
@[simp] theorem Res.bind_stuck {α β : Type} (f : α → Res β) : (Res.stuck : Res α).bind f = .stuck := rfl

/-- `ValOK`, one constructor per shape of operand -/
inductive VOK : Operand → Val F → Prop
  | intC (k n) (h : inRange k n = true) : VOK ⟨.typed (.int k), some (.int n)⟩ (.int k n)
  | intV (k n) (h : inRange k n = true) : VOK ⟨.typed (.int k), none⟩ (.int k n)
  | fltC (q) : VOK ⟨.typed .float64, some (.rat q)⟩ (.fconst q)
  | fltV (f) : VOK ⟨.typed .float64, none⟩ (.float f)
  | strC (s) : VOK ⟨.typed .string, some (.str s)⟩ (.str s)
  | strV (s) : VOK ⟨.typed .string, none⟩ (.str s)
  | boolC (b) : VOK ⟨.typed .bool, some (.bool b)⟩ (.bool b)
  | boolV (b) : VOK ⟨.typed .bool, none⟩ (.bool b)
  | uintC (n) : VOK ⟨.untyped .int, some (.int n)⟩ (.uint .int n)
  | uruneC (n) : VOK ⟨.untyped .rune, some (.int n)⟩ (.uint .rune n)
  | ufloatC (q) : VOK ⟨.untyped .float, some (.rat q)⟩ (.ufloat q)
  | uboolC (b) : VOK ⟨.untyped .bool, some (.bool b)⟩ (.bool b)
  | uboolV (b) : VOK ⟨.untyped .bool, none⟩ (.bool b)
  | ustrC (s) : VOK ⟨.untyped .string, some (.str s)⟩ (.str s)

theorem vok_of_valOK {x : Operand} {v : Val F} (h : ValOK x v) : VOK x v := by
  obtain ⟨ty, val⟩ := x
  cases val with
  | none =>
    cases ty with
    | typed t =>
      cases t <;> cases v <;> simp [ValOK, HasType] at h
      · obtain ⟨rfl, h2⟩ := h; exact .intV _ _ h2
      · exact .fltV _
      · exact .strV _
      · exact .boolV _
    | untyped u =>
      cases u <;> simp [ValOK] at h
      rcases h with rfl | rfl <;> exact .uboolV _
    | nil => simp [ValOK] at h
  | some c =>
    cases ty with
    | typed t =>
      cases t <;> cases c <;> simp [ValOK, constValue] at h
      · obtain ⟨h1, rfl⟩ := h; exact .intC _ _ h1
      · subst h; exact .fltC _
      · subst h; exact .strC _
      · subst h; exact .boolC _
    | untyped u =>
      cases u <;> cases c <;> simp [ValOK, constValue] at h <;> subst h
      · exact .uintC _
      · exact .uruneC _
      · exact .ufloatC _
      · exact .uboolC _
      · exact .ustrC _
    | nil => simp [ValOK, constValue] at h

theorem valOK_of_vok {x : Operand} {v : Val F} (h : VOK x v) : ValOK x v := by
  cases h <;> simp [ValOK, constValue, HasType, *]

theorem complement_inRange (k : IKind) (n : Int) (h : inRange k n = true) :
    inRange k (complement (some k) n) = true := by
  cases k <;> simp [inRange, bitNot, complement, IKind.minVal, IKind.maxVal, IKind.bits, IKind.signed] at h ⊢ <;> omega

@[simp] theorem complement_none (n : Int) : complement none n = bitNot n := rfl

/-! ### what a successful `representable` / `checkOverflow` says -/

@[simp] theorem representable_int_int (n : Int) (k : IKind) (s : Bool) (v : CVal) :
    representable (.int n) (.int k) s = .ok v ↔ inRange k n = true ∧ v = .int n := by
  simp only [representable, CVal.toInt?]
  by_cases h : inRange k n = true
  · simp only [h, if_true, true_and, Except.ok.injEq]; exact eq_comm
  · simp [h]

@[simp] theorem representable_rat_int (q : Rat) (k : IKind) (s : Bool) (v : CVal) :
    representable (.rat q) (.int k) s = .ok v ↔ q.den = 1 ∧ inRange k q.num = true ∧ v = .int q.num := by
  simp only [representable, CVal.toInt?]
  by_cases hd : q.den = 1
  · simp only [hd, if_true, true_and]
    by_cases h : inRange k q.num = true
    · simp only [h, if_true, true_and, Except.ok.injEq]; exact eq_comm
    · simp [h]
  · simp [hd, CVal.isNumeric]

/-- the side conditions of converting the rational `q` to `float64` -/
def F64OK (q : Rat) (strict : Bool) : Prop :=
  ¬ (q ≥ f64Overflow ∨ q ≤ -f64Overflow) ∧ ¬ ((strict && !exactF64 q) = true)

@[simp] theorem representable_int_float (n : Int) (s : Bool) (v : CVal) :
    representable (.int n) .float64 s = .ok v ↔ F64OK (n : Rat) s ∧ v = .rat (n : Rat) := by
  simp only [representable, CVal.toRat?, F64OK]
  split
  · rename_i h; simp [h]
  · rename_i h
    split
    · rename_i h2; simp [h2]
    · rename_i h2; simp only [h, h2, not_false_eq_true, true_and, Except.ok.injEq, Bool.false_eq_true]; exact eq_comm

@[simp] theorem representable_rat_float (q : Rat) (s : Bool) (v : CVal) :
    representable (.rat q) .float64 s = .ok v ↔ F64OK q s ∧ v = .rat q := by
  simp only [representable, CVal.toRat?, F64OK]
  split
  · rename_i h; simp [h]
  · rename_i h
    split
    · rename_i h2; simp [h2]
    · rename_i h2; simp only [h, h2, not_false_eq_true, true_and, Except.ok.injEq, Bool.false_eq_true]; exact eq_comm

@[simp] theorem representable_string (c : CVal) (s : Bool) (v : CVal) :
    representable c .string s = .ok v ↔ ∃ t, c = .str t ∧ v = .str t := by
  cases c <;> simp [representable]
  exact eq_comm

@[simp] theorem representable_bool (c : CVal) (s : Bool) (v : CVal) :
    representable c .bool s = .ok v ↔ ∃ b, c = .bool b ∧ v = .bool b := by
  cases c <;> simp [representable]
  exact eq_comm

@[simp] theorem representable_str_int (t : String) (k : IKind) (s : Bool) (v : CVal) :
    representable (.str t) (.int k) s = .ok v ↔ False := by
  simp [representable, CVal.toInt?, CVal.isNumeric]

@[simp] theorem representable_bool_int (b : Bool) (k : IKind) (s : Bool) (v : CVal) :
    representable (.bool b) (.int k) s = .ok v ↔ False := by
  simp [representable, CVal.toInt?, CVal.isNumeric]

@[simp] theorem representable_str_float (t : String) (s : Bool) (v : CVal) :
    representable (.str t) .float64 s = .ok v ↔ False := by
  simp [representable, CVal.toRat?]

@[simp] theorem representable_bool_float (b : Bool) (s : Bool) (v : CVal) :
    representable (.bool b) .float64 s = .ok v ↔ False := by
  simp [representable, CVal.toRat?]

@[simp] theorem checkOverflow_int (k : IKind) (n : Int) (z : Operand) :
    checkOverflow (.typed (.int k)) (.int n) = .ok z ↔
      inRange k n = true ∧ z = ⟨.typed (.int k), some (.int n)⟩ := by
  simp only [checkOverflow, bind, Except.bind, pure, Except.pure, representable, CVal.toInt?]
  by_cases h : inRange k n = true
  · simp only [h, if_true, true_and, Except.ok.injEq]; exact eq_comm
  · simp [h]

theorem checkOverflow_float {q : Rat} {z : Operand}
    (h : checkOverflow (.typed .float64) (.rat q) = .ok z) : z = ⟨.typed .float64, some (.rat q)⟩ := by
  simp only [checkOverflow, bind, Except.bind, pure, Except.pure] at h
  split at h
  · simp at h
  · rename_i v hv
    have := ((representable_rat_float _ _ _).1 hv).2
    subst this; simp at h; exact h.symm

theorem checkOverflow_untyped {u : UKind} {c : CVal} {z : Operand}
    (h : checkOverflow (.untyped u) c = .ok z) : z = ⟨.untyped u, some c⟩ := by
  simp only [checkOverflow] at h
  split at h <;> simp at h
  exact h.symm

theorem checkOverflow_typed_other {t : BType} {c : CVal} {z : Operand}
    (h : checkOverflow (.typed t) c = .ok z) : ∃ v, representable c t true = .ok v ∧ z = ⟨.typed t, some v⟩ := by
  simp only [checkOverflow, bind, Except.bind, pure, Except.pure] at h
  split at h
  · simp at h
  · rename_i v hv; simp at h; exact ⟨v, hv, h.symm⟩

theorem unary_sound (op : UnOp) (x z : Operand) (v : Val F)
    (h : checkUnary op x = .ok z) (hv : ValOK x v) : ResultOK z (evalUnary fs op v) := by
  have hv := vok_of_valOK hv
  cases hv <;> cases op <;>
    simp [checkUnary, Ty.isNumeric, Ty.isInteger, Ty.isBoolean, UKind.isNumeric, unaryConst, Ty.intKind?] at h
  all_goals first
    | (obtain ⟨h1, rfl⟩ := h
       simp_all [ResultOK, evalUnary, ValOK, constValue, HasType, wrap_id, wrap_inRange, wrap_bitNot, complement_inRange])
    | (have := checkOverflow_float h; subst this
       simp [ResultOK, evalUnary, ValOK, constValue])
    | (have := checkOverflow_untyped h; subst this
       simp [ResultOK, evalUnary, ValOK, constValue])
    | (subst h
       simp_all [ResultOK, evalUnary, ValOK, constValue, HasType, wrap_id, wrap_inRange, wrap_bitNot, complement_inRange])

@[simp] theorem checkOverflow_typed (t : BType) (c : CVal) (z : Operand) :
    checkOverflow (.typed t) c = .ok z ↔ ∃ v, representable c t true = .ok v ∧ z = ⟨.typed t, some v⟩ := by
  constructor
  · exact checkOverflow_typed_other
  · rintro ⟨v, hv, rfl⟩
    simp [checkOverflow, bind, Except.bind, pure, Except.pure, hv]

@[simp] theorem checkOverflow_untyped_iff (u : UKind) (c : CVal) (z : Operand) :
    checkOverflow (.untyped u) c = .ok z ↔ untypedOverflow c = false ∧ z = ⟨.untyped u, some c⟩ := by
  simp only [checkOverflow]
  by_cases h : untypedOverflow c = true
  · simp [h]
  · simp only [h, Bool.false_eq_true, if_false, Except.ok.injEq] at *
    simp only [true_and]; exact eq_comm

/-! ### binary operators -/

@[simp] theorem ite_error_right {ε α : Type} (c : Prop) [Decidable c] (a : Except ε α) (e : ε) (z : α) :
    (if c then a else .error e) = .ok z ↔ c ∧ a = .ok z := by
  by_cases h : c <;> simp [h]

@[simp] theorem ite_error_left {ε α : Type} (c : Prop) [Decidable c] (a : Except ε α) (e : ε) (z : α) :
    (if c then .error e else a) = .ok z ↔ ¬ c ∧ a = .ok z := by
  by_cases h : c <;> simp [h]

theorem bind_ok_iff {ε α β : Type} (e : Except ε α) (f : α → Except ε β) (r : β) :
    (e >>= f) = .ok r ↔ ∃ v, e = .ok v ∧ f v = .ok r := by
  cases e <;> simp [bind, Except.bind]

theorem map_ok_iff {ε α β : Type} (e : Except ε α) (f : α → β) (r : β) :
    (f <$> e) = .ok r ↔ ∃ v, e = .ok v ∧ f v = r := by
  cases e <;> simp [Functor.map, Except.map]

@[simp] theorem pure_ok_iff {ε α : Type} (a r : α) : (pure a : Except ε α) = .ok r ↔ a = r := by
  simp [pure, Except.pure]


theorem matchTypes_sound (x y x' y' : Operand) (v w : Val F)
    (h : matchTypes x y = .ok (x', y')) (hv : VOK x v) (hw : VOK y w) :
    ∃ v' w', matchVals v w = some (v', w') ∧ VOK x' v' ∧ VOK y' w' := by
  cases hv <;> cases hw <;>
    simp [matchTypes, convertTo, Ty.isTyped, Ty.isBoolean, Ty.isString, UKind.isNumeric, UKind.max, UKind.rank,
      bind_ok_iff, map_ok_iff] at h
  all_goals (
    revert h
    try simp only [and_imp, forall_exists_index]
    intros
    subst_vars
    simp_all [matchVals]
    exact ⟨_, _, ⟨rfl, rfl⟩, by constructor <;> assumption, by constructor <;> assumption⟩)

theorem arith_sound (op : BinOp) (x y z : Operand) (v w : Val F)
    (h : checkArith op x y = .ok z) (hv : VOK x v) (hw : VOK y w) :
    ResultOK z (evalArith fs op v w) := by
  cases hv <;> cases hw <;> simp [checkArith] at h
  all_goals (cases op <;> simp [opDefined, Ty.isNumeric, Ty.isInteger, Ty.isBoolean, Ty.isString, UKind.isNumeric,
      arithConst, arithInt, arithRat, CVal.isZero] at h)
  all_goals (
    revert h
    try simp only [and_imp, forall_exists_index]
    intros
    subst_vars
    simp_all [ResultOK, evalArith, intOp, arithInt, arithRat, ValOK, constValue, HasType, wrap_id, wrap_inRange,
      BinOp.isFloatArith, and_assoc])
  all_goals (rename_i n1 k n h1 h2; by_cases hn : n = 0 <;> simp [hn, wrap_inRange])

theorem cmp_sound (op : BinOp) (x y z : Operand) (v w : Val F)
    (h : checkComparison op x y = .ok z) (hv : VOK x v) (hw : VOK y w) :
    ResultOK z (evalCmp fs op v w) := by
  cases hv <;> cases hw <;> simp [checkComparison] at h
  all_goals (cases op <;> simp [Ty.isBoolean, cmpConst, cmpBool] at h)
  all_goals (
    revert h
    try simp only [and_imp]
    intros
    subst_vars
    simp_all [ResultOK, evalCmp, cmpBool, ValOK, constValue])

theorem shiftCountOf_sound (y : Operand) (cnt : Option Int) (w : Val F)
    (h : shiftCountOf y = .ok cnt) (hw : VOK y w) :
    (∀ s, cnt = some s → 0 ≤ s ∧ shiftCount w = .ok s.toNat) ∧
    (cnt = none → (∃ n, shiftCount w = Res.ok n) ∨ shiftCount w = .panic .negShift) := by
  cases hw <;> simp [shiftCountOf, Ty.isInteger, Ty.isTyped, CVal.toInt?, CVal.isNumeric] at h
  case intC k n hr =>
    obtain ⟨h0, rfl⟩ := h
    simp [shiftCount]; omega
  case intV k n hr =>
    subst h
    simp only [shiftCount, reduceCtorEq, false_implies, implies_true, true_and]
    intro _
    by_cases hn : n < 0 <;> simp [hn]
  case fltC q =>
    exfalso; revert h
    by_cases hd : q.den = 1 <;> simp [hd]
  case uintC n =>
    obtain ⟨h0, _, rfl⟩ := h
    simp [shiftCount]; omega
  case uruneC n =>
    obtain ⟨h0, _, rfl⟩ := h
    simp [shiftCount]; omega
  case ufloatC q =>
    by_cases hd : q.den = 1
    · simp [hd] at h
      obtain ⟨h0, _, rfl⟩ := h
      simp [shiftCount, hd]; omega
    · simp [hd] at h

end ScriggoV.TypeCheck
