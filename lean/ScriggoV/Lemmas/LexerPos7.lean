import ScriggoV.Lemmas.LexerPos6
/-! # Position invariant: `caseTag`, `ctxSwitch` -/
namespace ScriggoV.Lexer
open ScriggoV ScriggoV.Gen.LexTables ScriggoV.Spec.Position

theorem caseTag_pos {E : Env} (hal : Aligned E.text) {F : Fixed} {st : St} {lp : Loop} {c : UInt8} {o : CaseOut}
    (hI : PInv E st lp) (hq : QuoteOK lp.quote) (hpk : peek E st lp.p = some c)
    (h : caseTag E F st lp c = .ok o) : CasePos E c o := by
  unfold caseTag at h
  have hlt : lp.p < srcLen E st := peek_some_lt_srcLen hpk
  split at h
  · rename_i hcond
    simp only [] at h
    split at h
    · rename_i hslash
      exfalso
      rcases hcond with hh | hh
      · rw [hh] at hslash; cases hslash
      · have := hh.2; unfold peekIs at this; rw [hpk] at this
        have : c = 0x3e := by simpa using this
        rw [this] at hslash; cases hslash
    · simp only [pure_eq_ok] at h; cases h
      exact ⟨fallPos_stay hI hpk rfl rfl rfl rfl rfl rfl rfl, hq⟩
  · split at h
    · cases hsa : scanAttribute E st lp.p with
      | error f => rw [hsa] at h; cases h
      | ok r =>
        obtain ⟨st1, attr, next⟩ := r
        rw [hsa] at h
        simp only [bind_ok] at h
        have pa := scanAttribute_pos hal hsa hI.cur
        obtain ⟨s', a', n', hsa', hsb, hn1, hn2⟩ := scanAttribute_ok (E := E) (st := st) (p := lp.p) (by omega)
        rw [hsa] at hsa'
        cases hsa'
        have hb1 : st1.base = st.base := hsb.base
        -- a state with the line and column of `st1` at offset `base + k`
        have at_ : ∀ (s : St) (l : Loop), s.base = st.base → s.toks = st.toks → s.line = st1.line → s.col = st1.col →
            l.p = next → l.lin = lp.lin → l.tcol = lp.tcol → PInv E s l := by
          intro s l a b c' d e f g
          refine ⟨by rw [a, e]; exact posAt_congr pa c' d, by rw [f, g, a]; exact hI.strt, ?_⟩
          intro tk hm; rw [b] at hm; exact hI.toks tk hm
        split at h
        · rename_i hgt
          split at h
          · rename_i q hqq
            have hnext : E.text[st.base + next]? = some q := by
              split at hqq
              · unfold peek at hqq; rw [← hb1]; exact hqq
              · cases hqq
            -- after the optional quote
            by_cases hquo : q = 0x22 ∨ q = 0x27
            · simp only [hquo, if_true] at h
              have base2 : PInv E (addCol { st1 with tagAttr := attr } 1) { ({ lp with p := next } : Loop) with quote := q, p := next + 1 } := by
                have b0 := at_ { st1 with tagAttr := attr } { lp with p := next } hb1 hsb.toks rfl rfl rfl rfl rfl
                refine PInv.plain 1 b0 rfl rfl rfl rfl rfl rfl rfl ?_
                intro j hj
                have : j = 0 := by omega
                subst this
                refine ⟨q, by show E.text[st1.base + next + 0]? = _; rw [hb1]; simpa using hnext, ?_⟩
                rcases hquo with e | e <;> (subst e; decide)
              have hq2 : QuoteOK q := by rcases hquo with e | e <;> (subst e; first | exact Or.inr (Or.inl rfl) | exact Or.inr (Or.inr rfl))
              split at h
              · -- URL attribute
                cases he1 : emitAt E (addCol { st1 with tagAttr := attr } 1) lp.lin lp.tcol tokenText (next + 1) with
                | error f => rw [he1] at h; cases h
                | ok s3 =>
                  rw [he1] at h
                  simp only [bind_ok] at h
                  cases he2 : emit E { s3 with ctx := if q = 0 then ContextUnquotedAttr else ContextQuotedAttr } tokenStartURL 0 with
                  | error f => rw [he2] at h; cases h
                  | ok s4 =>
                    rw [he2] at h
                    simp only [bind_ok, pure_eq_ok] at h
                    cases h
                    have hf : flushText E (addCol { st1 with tagAttr := attr } 1) { ({ lp with p := next } : Loop) with quote := q, p := next + 1 } = .ok s3 := by
                      unfold flushText
                      simp only [show next + 1 > 0 from by omega, if_true]
                      exact he1
                    obtain ⟨p1, a1, b1, l1, c1⟩ := flushText_pos base2 hf
                    have p1' : PosAt E { s3 with ctx := if q = 0 then ContextUnquotedAttr else ContextQuotedAttr }
                        ({ s3 with ctx := if q = 0 then ContextUnquotedAttr else ContextQuotedAttr } : St).base := p1
                    obtain ⟨a2, b2, l2, c2⟩ := emit_pos he2 p1' a1
                    have hp4 : PosAt E s4 s4.base := by
                      rw [b2]; simpa using posAt_congr p1' l2 c2
                    exact ⟨⟨by show PosAt E s4 (s4.base + 0); exact hp4, hp4, a2⟩, hq2⟩
              · simp only [pure_eq_ok] at h; cases h
                exact ⟨PInv.same base2 rfl rfl rfl rfl rfl rfl rfl, hq2⟩
            · simp only [hquo, if_false] at h
              have base2 := at_ { st1 with tagAttr := attr } { lp with p := next } hb1 hsb.toks rfl rfl rfl rfl rfl
              split at h
              · cases he1 : emitAt E { st1 with tagAttr := attr } lp.lin lp.tcol tokenText next with
                | error f => rw [he1] at h; cases h
                | ok s3 =>
                  rw [he1] at h
                  simp only [bind_ok] at h
                  cases he2 : emit E { s3 with ctx := if lp.quote = 0 then ContextUnquotedAttr else ContextQuotedAttr } tokenStartURL 0 with
                  | error f => rw [he2] at h; cases h
                  | ok s4 =>
                    rw [he2] at h
                    simp only [bind_ok, pure_eq_ok] at h
                    cases h
                    have hf : flushText E { st1 with tagAttr := attr } { lp with p := next } = .ok s3 := by
                      unfold flushText
                      simp only [show next > 0 from by omega, if_true]
                      exact he1
                    obtain ⟨p1, a1, b1, l1, c1⟩ := flushText_pos base2 hf
                    have p1' : PosAt E { s3 with ctx := if lp.quote = 0 then ContextUnquotedAttr else ContextQuotedAttr }
                        ({ s3 with ctx := if lp.quote = 0 then ContextUnquotedAttr else ContextQuotedAttr } : St).base := p1
                    obtain ⟨a2, b2, l2, c2⟩ := emit_pos he2 p1' a1
                    have hp4 : PosAt E s4 s4.base := by
                      rw [b2]; simpa using posAt_congr p1' l2 c2
                    exact ⟨⟨by show PosAt E s4 (s4.base + 0); exact hp4, hp4, a2⟩, hq⟩
              · simp only [pure_eq_ok] at h; cases h
                exact ⟨PInv.same base2 rfl rfl rfl rfl rfl rfl rfl, hq⟩
          · simp only [pure_eq_ok] at h; cases h
            exact ⟨at_ _ _ hb1 hsb.toks rfl rfl rfl rfl rfl, hq⟩
        · rename_i hle
          simp only [pure_eq_ok] at h; cases h
          have hnp : next = lp.p := by omega
          refine ⟨⟨at_ _ _ hb1 hsb.toks rfl rfl hnp.symm rfl rfl, c, ?_, SameKind.refl c⟩, hq⟩
          show peek E { st1 with tagAttr := attr } lp.p = some c
          unfold peek at hpk ⊢
          show E.text[st1.base + lp.p]? = _
          rw [hb1]; exact hpk
    · simp only [pure_eq_ok] at h; cases h
      exact ⟨fallPos_stay hI hpk rfl rfl rfl rfl rfl rfl rfl, hq⟩


theorem ctxSwitch_pos {E : Env} (hal : Aligned E.text) {F : Fixed} {st : St} {lp : Loop} {c : UInt8} {o : CaseOut}
    (hI : PInv E st lp) (hq : QuoteOK lp.quote) (hpk : peek E st lp.p = some c)
    (h : ctxSwitch E F st lp c = .ok o) : CasePos E c o := by
  unfold ctxSwitch at h
  have stay : CasePos E c (.fall st lp) := ⟨fallPos_stay hI hpk rfl rfl rfl rfl rfl rfl rfl, hq⟩
  split at h
  · cases hm : caseMarkdown E st lp with
    | error f => rw [hm] at h; cases h
    | ok o1 =>
      rw [hm] at h
      simp only [bind_ok] at h
      have pm := caseMarkdown_pos hI hq hpk hm
      cases o1 with
      | next s l => simp only [pure_eq_ok] at h; cases h; exact pm
      | fall s l =>
        simp only [] at h
        split at h
        · rename_i hc
          subst hc
          obtain ⟨⟨hI', c', hc', hk⟩, hq'⟩ := pm
          -- the byte at the new position is still `<`
          have hsame : c' = 0x3c := by
            have hb := allBytes_spec (p := fun c => !(isStartChar c && c != 0x0a) || true) (by decide +kernel) c'
            -- `caseMarkdown` keeps the byte: it only re-bases `p`
            clear hb
            unfold caseMarkdown at hm
            cases hs : srcFrom E st lp.p with
            | error f => rw [hs] at hm; cases hm
            | ok rest =>
              rw [hs] at hm
              simp only [bind_ok] at hm
              split at hm
              · cases he : isMarkdownEndURL rest with
                | error f => rw [he] at hm; cases hm
                | ok b =>
                  rw [he] at hm
                  simp only [bind_ok] at hm
                  cases b with
                  | false =>
                    simp only [Bool.false_eq_true, if_false, pure_eq_ok] at hm
                    cases hm
                    rw [hpk] at hc'; exact (Option.some.inj hc').symm
                  | true =>
                    simp only [if_true] at hm
                    cases h1 : flushText E st lp with
                    | error f => rw [h1] at hm; cases hm
                    | ok st1 =>
                      rw [h1] at hm
                      simp only [bind_ok] at hm
                      cases h2 : emit E st1 tokenEndURL 0 with
                      | error f => rw [h2] at hm; cases hm
                      | ok st2 =>
                        rw [h2] at hm
                        simp only [bind_ok, pure_eq_ok] at hm
                        cases hm
                        obtain ⟨_, hb, _, _⟩ := flush_emit0 hI h1 h2
                        have : peek E s 0 = some 0x3c := by
                          unfold peek at hpk ⊢; rw [hb]; simpa using hpk
                        have hc'' : peek E s 0 = some c' := hc'
                        rw [this] at hc''
                        exact (Option.some.inj hc'').symm
              · cases hp : (if lp.p = 0 then pure true else Except.map (fun c => !isAlpha c) (srcAtPred E st lp.p) : Except Fault Bool) with
                | error f => rw [hp] at hm; cases hm
                | ok b =>
                  rw [hp] at hm
                  simp only [bind_ok] at hm
                  split at hm
                  · cases h1 : flushText E st lp with
                    | error f => rw [h1] at hm; cases hm
                    | ok st1 =>
                      rw [h1] at hm
                      simp only [bind_ok] at hm
                      cases h2 : emit E st1 tokenStartURL 0 with
                      | error f => rw [h2] at hm; cases hm
                      | ok st2 =>
                        rw [h2] at hm
                        simp only [bind_ok] at hm
                        cases h4 : srcAt E st2 4 with
                        | error f => rw [h4] at hm; cases hm
                        | ok c4 =>
                          rw [h4] at hm
                          simp only [bind_ok, pure_eq_ok] at hm
                          cases hm
                  · simp only [pure_eq_ok] at hm
                    cases hm
                    rw [hpk] at hc'; exact (Option.some.inj hc').symm
          subst hsame
          exact caseLT_pos hal hI' hq' hc' h
        · simp only [pure_eq_ok] at h; cases h; exact pm
  · split at h
    · split at h
      · rename_i hc
        subst hc
        exact caseLT_pos hal hI hq hpk h
      · simp only [pure_eq_ok] at h; cases h; exact stay
    · split at h
      · exact caseTag_pos hal hI hq hpk h
      · split at h
        · exact caseAttr_pos hI hq hpk h
        · split at h
          · exact caseCSS_pos hI hpk hq h
          · split at h
            · exact caseJS_pos hI hpk hq h
            · split at h
              · exact caseJSString_pos _ _ hI hpk hq hq.plain h
              · split at h
                · exact caseJSON_pos hI hpk hq h
                · split at h
                  · exact caseJSString_pos _ _ hI hpk hq (by decide) h
                  · simp only [pure_eq_ok] at h; cases h; exact stay

end ScriggoV.Lexer
