import ScriggoV.Lemmas.BvInt
import ScriggoV.Model.Compile
/-! Helper lemmas for the compile-correctness theorem of C01 (`Props/C01.lean`,
`compile_correct_partial`): a small Hoare-style calculus for `runS` (`Post`, `Post_seq`), the
specifications of `emitInto` / `operand` (`IntoSpec`, `OperSpec`) and the induction over the
expression (`into_correct`), parametrised by the opcode refinement facts (`OpcodeFacts`), which
`Props/C01.lean` discharges with `vmOp_refines_spec` etc. -/
set_option linter.unusedSimpArgs false
set_option linter.unusedVariables false
namespace ScriggoV.Compile
open ScriggoV ScriggoV.GoInt ScriggoV.Eval ScriggoV.Gen.VMInt ScriggoV.VM

local notation "Reg" => Nat

/-! ## running code -/

theorem runS_nil (tbl : List (BitVec 64)) (s : RegFile × Bool) : runS tbl [] s = .ok s := rfl

theorem runS_cons (tbl : List (BitVec 64)) (i : Instr) (rest : List Instr) (rf : RegFile) :
    runS tbl (i :: rest) (rf, false) =
      match exec tbl i rf with
      | .ok s => runS tbl rest s
      | .error f => .error f := rfl

theorem runS_skip (tbl : List (BitVec 64)) (i : Instr) (rest : List Instr) (rf : RegFile) :
    runS tbl (i :: rest) (rf, true) = runS tbl rest (rf, false) := rfl

theorem runS_append (tbl : List (BitVec 64)) (a b : List Instr) (s : RegFile × Bool) :
    runS tbl (a ++ b) s = (runS tbl a s >>= runS tbl b) := by
  induction a generalizing s with
  | nil => rfl
  | cons i rest ih =>
    obtain ⟨rf, skip⟩ := s
    cases skip
    · simp only [List.cons_append, runS_cons]
      cases exec tbl i rf with
      | ok s' => exact ih s'
      | error f => rfl
    · simp only [List.cons_append, runS_skip]
      exact ih _

/-- running `code` from `rf` (nothing to skip) matches the reference outcome `res`: same fault, or
it ends (nothing to skip) in registers related to the value by `Q` -/
def Post {α : Type} (tbl : List (BitVec 64)) (code : List Instr) (rf : RegFile) (res : Except Fault α)
    (Q : α → RegFile → Prop) : Prop :=
  match res with
  | .ok v => ∃ rf', runS tbl code (rf, false) = .ok (rf', false) ∧ Q v rf'
  | .error f => runS tbl code (rf, false) = .error f

theorem Post_nil {α : Type} {tbl : List (BitVec 64)} {rf : RegFile} {v : α} {Q : α → RegFile → Prop}
    (h : Q v rf) : Post tbl [] rf (.ok v) Q := ⟨rf, rfl, h⟩

theorem Post_seq {α β : Type} {tbl : List (BitVec 64)} {c1 c2 : List Instr} {rf : RegFile}
    {r1 : Except Fault α} {f : α → Except Fault β} {Q1 : α → RegFile → Prop} {Q : β → RegFile → Prop}
    (h1 : Post tbl c1 rf r1 Q1)
    (h2 : ∀ v rf1, r1 = .ok v → Q1 v rf1 → Post tbl c2 rf1 (f v) Q) :
    Post tbl (c1 ++ c2) rf (r1 >>= f) Q := by
  cases r1 with
  | error e =>
    show runS tbl (c1 ++ c2) (rf, false) = .error e
    rw [runS_append, show runS tbl c1 (rf, false) = .error e from h1]; rfl
  | ok v =>
    obtain ⟨rf1, hr, hq⟩ := h1
    have h := h2 v rf1 rfl hq
    show Post tbl (c1 ++ c2) rf (f v) Q
    cases hf : f v with
    | ok w =>
      rw [hf] at h
      obtain ⟨rf2, hr2, hq2⟩ := h
      exact ⟨rf2, by rw [runS_append, hr]; exact hr2, hq2⟩
    | error e =>
      rw [hf] at h
      show runS tbl (c1 ++ c2) (rf, false) = .error e
      rw [runS_append, hr]; exact h

theorem Post_mono {α : Type} {tbl : List (BitVec 64)} {c : List Instr} {rf : RegFile}
    {r : Except Fault α} {Q Q' : α → RegFile → Prop}
    (h : Post tbl c rf r Q) (hq : ∀ v rf', r = .ok v → Q v rf' → Q' v rf') : Post tbl c rf r Q' := by
  cases r with
  | error e => exact h
  | ok v => obtain ⟨rf', hr, hq'⟩ := h; exact ⟨rf', hr, hq v rf' rfl hq'⟩

/-! ## registers -/

theorem setReg_same (rf : RegFile) (r : Reg) (v : BitVec 64) : setReg rf r v r = v := by
  simp [setReg]

theorem setReg_other (rf : RegFile) {r r' : Reg} (v : BitVec 64) (h : r' ≠ r) : setReg rf r v r' = rf r' := by
  simp [setReg, h]

theorem srcVal_setReg (rf : RegFile) (s : Src) (d : Reg) (v : BitVec 64) (h : ∀ r, s = .reg r → r ≠ d) :
    srcVal (setReg rf d v) s = srcVal rf s := by
  cases s with
  | reg r => exact setReg_other rf v (h r rfl)
  | imm b => rfl

/-! ## the constant table -/

theorem findConst_some {v : BitVec 64} {cs : List (BitVec 64)} {i : Nat} (h : findConst v cs = some i) :
    cs[i]? = some v := by
  induction cs generalizing i with
  | nil => cases h
  | cons c cs ih =>
    unfold findConst at h
    split at h
    · rename_i hc; cases h; simp [hc]
    · cases hf : findConst v cs with
      | none => rw [hf] at h; cases h
      | some j =>
        rw [hf] at h; cases h
        simpa using ih hf

theorem getElem?_of_prefix {cs tbl : List (BitVec 64)} {i : Nat} {v : BitVec 64}
    (hp : cs <+: tbl) (h : cs[i]? = some v) : tbl[i]? = some v := by
  obtain ⟨t, rfl⟩ := hp
  have hi : i < cs.length := by
    rcases Nat.lt_or_ge i cs.length with h' | h'
    · exact h'
    · rw [List.getElem?_eq_none h'] at h; cases h
  rw [List.getElem?_append_left hi]; exact h

theorem makeIntValue_spec (v : BitVec 64) (st : St) :
    (makeIntValue v st).2.numRegs = st.numRegs ∧ st.consts <+: (makeIntValue v st).2.consts ∧
    ∀ tbl, (makeIntValue v st).2.consts <+: tbl → tbl[(makeIntValue v st).1]? = some v := by
  unfold makeIntValue
  cases hf : findConst v st.consts with
  | some i =>
    refine ⟨rfl, List.prefix_refl _, ?_⟩
    intro tbl hp
    exact getElem?_of_prefix hp (findConst_some hf)
  | none =>
    refine ⟨rfl, List.prefix_append _ _, ?_⟩
    intro tbl hp
    refine getElem?_of_prefix hp ?_
    simp

/-! ## values in registers -/

/-- the register content `w` represents the value `v` of static type `τ` -/
def Holds (τ : Ty) : Val → BitVec 64 → Prop
  | .int k z, w => τ = .int k ∧ Canon k w ∧ val k w = z
  | .bool b, w => τ = .bool ∧ w = (if b then 1#64 else 0#64)

theorem val_reg {k : Kind} {z : Int} (h : InRange k z) : val k (reg z) = z := by
  unfold InRange minOf maxOf at h
  unfold val reg
  have hb := k.bits_le
  have hp := k.bits_pos
  cases hs : k.signed
  · rw [hs] at h
    simp only [Bool.false_eq_true, if_false] at h ⊢
    have : (2 ^ k.bits : Nat) ≤ 2 ^ 64 := Nat.pow_le_pow_right (by decide) hb
    rw [BitVec.toNat_ofInt]
    have h1 : z < ((2 ^ 64 : Nat) : Int) := by omega
    rw [Int.emod_eq_of_lt h.1 h1]
    omega
  · rw [hs] at h
    simp only [if_true] at h ⊢
    have : (2 ^ (k.bits - 1) : Nat) ≤ 2 ^ 63 := Nat.pow_le_pow_right (by decide) (by omega)
    rw [BitVec.toInt_ofInt]
    apply Int.bmod_eq_of_le <;> omega

theorem holds_reg {k : Kind} {z : Int} (h : InRange k z) : Holds (.int k) (.int k z) (reg z) := by
  have hv := val_reg h
  exact ⟨rfl, canon_of_inRange (by rw [hv]; exact h), hv⟩

/-- an immediate operand gives back the constant -/
theorem imm_roundtrip {w : BitVec 64} (h : immOK w = true) : (w.setWidth 8).signExtend 64 = w := by
  unfold immOK immMin immMax at h
  simp only [Bool.and_eq_true, decide_eq_true_eq] at h
  apply BitVec.eq_of_toInt_eq
  have := toInt_sx (b := 8) (by decide) w
  unfold sx at this
  rw [this]
  have h2 : ((w.toNat : Int)).bmod (2 ^ 8) = (w.toInt).bmod (2 ^ 8) := by
    rw [BitVec.toInt_eq_toNat_bmod]
    exact (Int.bmod_bmod_of_dvd (by decide : (2 ^ 8 : Nat) ∣ 2 ^ 64)).symm
  rw [h2]
  apply Int.bmod_eq_of_le <;> omega

/-! ## hypotheses of the theorem -/

/-- every variable of the tree lives in a register `≤ nv` that holds the canonical representation
(at the declared kind) of its value in `ρ` -/
def VarsIn (vr : Nat → Reg) (ρ : Env) (rf : RegFile) (nv : Nat) : Expr → Prop
  | .lit _ _ => True
  | .var k i => vr i ≤ nv ∧ ∃ z, ρ[i]? = some z ∧ Canon k (rf (vr i)) ∧ val k (rf (vr i)) = z
  | .un _ e => VarsIn vr ρ rf nv e
  | .bin _ a b => VarsIn vr ρ rf nv a ∧ VarsIn vr ρ rf nv b
  | .sh _ a b => VarsIn vr ρ rf nv a ∧ VarsIn vr ρ rf nv b
  | .cmp _ a b => VarsIn vr ρ rf nv a ∧ VarsIn vr ρ rf nv b
  | .conv _ e => VarsIn vr ρ rf nv e

theorem VarsIn_frame {vr : Nat → Reg} {ρ : Env} {rf rf' : RegFile} {nv : Nat} (e : Expr)
    (h : ∀ r, r ≤ nv → rf' r = rf r) : VarsIn vr ρ rf nv e → VarsIn vr ρ rf' nv e := by
  induction e with
  | lit k z => exact id
  | var k i => intro ⟨hle, z, h1, h2, h3⟩; exact ⟨hle, z, h1, by rw [h _ hle]; exact h2, by rw [h _ hle]; exact h3⟩
  | un op e ih => exact ih
  | bin op a b iha ihb => intro ⟨h1, h2⟩; exact ⟨iha h1, ihb h2⟩
  | sh op a b iha ihb => intro ⟨h1, h2⟩; exact ⟨iha h1, ihb h2⟩
  | cmp op a b iha ihb => intro ⟨h1, h2⟩; exact ⟨iha h1, ihb h2⟩
  | conv k e ih => exact ih

/-- no shift in the tree is executed with a negative count (the `0 ≤ count` hypothesis of
`vmShift_refines_spec_partial`, for every shift node) -/
def NonNegShifts (ρ : Env) : Expr → Prop
  | .lit _ _ => True
  | .var _ _ => True
  | .un _ e => NonNegShifts ρ e
  | .bin _ a b => NonNegShifts ρ a ∧ NonNegShifts ρ b
  | .sh _ a n => NonNegShifts ρ a ∧ NonNegShifts ρ n ∧ ∀ kc c, eval ρ n = .ok (.int kc c) → 0 ≤ c
  | .cmp _ a b => NonNegShifts ρ a ∧ NonNegShifts ρ b
  | .conv _ e => NonNegShifts ρ e

/-! ## typing inversion -/

theorem typeOf_lit {k : Kind} {z : Int} {τ : Ty} (h : typeOf (.lit k z) = some τ) : InRange k z ∧ τ = .int k := by
  simp only [typeOf] at h
  split at h
  · rename_i hr; cases h; exact ⟨hr, rfl⟩
  · cases h

theorem typeOf_un {op : UnOp} {e : Expr} {τ : Ty} (h : typeOf (.un op e) = some τ) :
    ∃ k, typeOf e = some (.int k) ∧ τ = .int k := by
  simp only [typeOf] at h
  split at h
  · rename_i k hk; cases h; exact ⟨k, hk, rfl⟩
  · cases h

theorem typeOf_conv {k : Kind} {e : Expr} {τ : Ty} (h : typeOf (.conv k e) = some τ) :
    ∃ ks, typeOf e = some (.int ks) ∧ τ = .int k := by
  simp only [typeOf] at h
  split at h
  · rename_i ks hk; cases h; exact ⟨ks, hk, rfl⟩
  · cases h

theorem typeOf_bin {op : BinOp} {a b : Expr} {τ : Ty} (h : typeOf (.bin op a b) = some τ) :
    ∃ k, typeOf a = some (.int k) ∧ typeOf b = some (.int k) ∧ τ = .int k := by
  simp only [typeOf] at h
  split at h
  · rename_i k k' hka hkb
    split at h
    · rename_i hkk; subst hkk; cases h; exact ⟨k, hka, hkb, rfl⟩
    · cases h
  · cases h

theorem typeOf_sh {op : ShiftOp} {a n : Expr} {τ : Ty} (h : typeOf (.sh op a n) = some τ) :
    ∃ k kc, typeOf a = some (.int k) ∧ typeOf n = some (.int kc) ∧ τ = .int k := by
  simp only [typeOf] at h
  split at h
  · rename_i k kc hka hkn; cases h; exact ⟨k, kc, hka, hkn, rfl⟩
  · cases h

theorem typeOf_cmp {op : CmpOp} {a b : Expr} {τ : Ty} (h : typeOf (.cmp op a b) = some τ) :
    ∃ k, typeOf a = some (.int k) ∧ typeOf b = some (.int k) ∧ τ = .bool := by
  simp only [typeOf] at h
  split at h
  · rename_i k k' hka hkb
    split at h
    · rename_i hkk; subst hkk; cases h; exact ⟨k, hka, hkb, rfl⟩
    · cases h
  · cases h

theorem kindOf_of_typeOf (e : Expr) : ∀ k, typeOf e = some (.int k) → kindOf e = k := by
  induction e with
  | lit k' z => intro k h; obtain ⟨_, h2⟩ := typeOf_lit h; cases h2; rfl
  | var k' i => intro k h; simp only [typeOf] at h; cases h; rfl
  | un op e ih => intro k h; obtain ⟨k', h1, h2⟩ := typeOf_un h; cases h2; exact ih _ h1
  | bin op a b iha ihb => intro k h; obtain ⟨k', h1, _, h2⟩ := typeOf_bin h; cases h2; exact iha _ h1
  | sh op a b iha ihb => intro k h; obtain ⟨k', kc, h1, _, h2⟩ := typeOf_sh h; cases h2; exact iha _ h1
  | cmp op a b iha ihb => intro k h; obtain ⟨k', _, _, h2⟩ := typeOf_cmp h; cases h2
  | conv k' e ih => intro k h; obtain ⟨ks, _, h2⟩ := typeOf_conv h; cases h2; rfl

/-! ## single instructions -/

theorem exec_move (tbl : List (BitVec 64)) (s : Src) (d : Reg) (rf : RegFile) :
    exec tbl (.move s d) rf = .ok (setReg rf d (srcVal rf s), false) := rfl

theorem exec_load (tbl : List (BitVec 64)) {i : Nat} {v : BitVec 64} (d : Reg) (rf : RegFile) (h : tbl[i]? = some v) :
    exec tbl (.load i d) rf = .ok (setReg rf d v, false) := by
  simp only [exec, h]

def okA : Operand → Bool
  | .x => true
  | .kind _ => true
  | _ => false

/-- shape of the regenerated `emit` table: B is `y`, C is `z`, A is `x` or a kind -/
theorem emit_shape (f : EmitFn) (k : Kind) :
    (emit f k).b = .y ∧ (emit f k).c = .z ∧ okA (emit f k).a = true := by
  cases f <;> cases k <;> exact ⟨rfl, rfl, rfl⟩

/-- an opcode body whose operand A is a register does not look at a kind -/
theorem body_kind_indep (f : EmitFn) (k : Kind) (h : (emit f k).a = .x) (ra rb rc : BitVec 64) :
    vmBody (emit f k).op .int ra rb rc = vmBody (emit f k).op k ra rb rc := by
  cases f <;> cases k <;> first | rfl | exact absurd h (by decide)

/-- executing the instruction an `emit…` function appends is `runEmitted` on the register contents -/
theorem exec_instrOf (tbl : List (BitVec 64)) (f : EmitFn) (k : Kind) (x : Reg) (y : Src) (z : Reg) (rf : RegFile)
    (hz : (emit f k).zEqX = true → z = x) :
    exec tbl (instrOf (emit f k) x y z) rf =
      match runEmitted (emit f k) k (rf x) (srcVal rf y) (rf z) with
      | .ok v => .ok (setReg rf z v, false)
      | .error e => .error e := by
  have hsh := emit_shape f k
  have hki := body_kind_indep f k
  revert hsh hki hz
  generalize emit f k = e
  obtain ⟨o, a, b, c, zx⟩ := e
  intro hz ⟨hb, hc, ha⟩ hki
  simp only at hb hc ha hki hz
  subst hb hc
  cases a with
  | x =>
    have hk := hki rfl
    simp only [instrOf, exec, runEmitted, Src.toReg, srcVal]
    rw [hk]
    cases zx
    · rfl
    · have := hz rfl; subst this; rfl
  | kind k' =>
    simp only [instrOf, exec, runEmitted, Src.toReg, srcVal]
    cases zx
    · rfl
    · have := hz rfl; subst this; rfl
  | y => cases ha
  | z => cases ha

/-! ## the opcode refinement facts the induction stands on (proved in `Props/C01.lean`) -/

structure OpcodeFacts : Prop where
  bin : ∀ (op : BinOp) (k : Kind) (x y junk : BitVec 64), Canon k x → Canon k y →
    Refines k (vmOp op k x y junk) (binop op k (val k x) (val k y))
  sh : ∀ (op : ShiftOp) (k kc : Kind) (x n junk : BitVec 64), Canon k x → 0 ≤ val kc n →
    Refines k (vmShift op k x n junk) (shift op k (val k x) (val kc n))
  un : ∀ (op : UnOp) (k : Kind) (y junk : BitVec 64), Canon k y →
    Refines k (vmUn op k y junk) (.ok (unop op k (val k y)))
  conv : ∀ (src dst : Kind) (x : BitVec 64), Canon src x →
    Refines dst (vmConv src dst x) (.ok (conv dst (val src x)))
  cmp : ∀ (op : CmpOp) (k : Kind) (x y : BitVec 64), vmCmp op k x y = cmp op (val k x) (val k y)

/-- one instruction that stores a refined result into `dst` -/
theorem post_refines {tbl : List (BitVec 64)} {rf : RegFile} {k : Kind} {i : Instr} {dst : Reg}
    {vm : Except Fault (BitVec 64)} {spec : Except Fault Int}
    (hex : exec tbl i rf = match vm with
      | .ok v => .ok (setReg rf dst v, false)
      | .error e => .error e)
    (href : Refines k vm spec) :
    Post tbl [i] rf (spec.map (Val.int k))
      (fun v rf' => Holds (.int k) v (rf' dst) ∧ ∀ r, r ≠ dst → rf' r = rf r) := by
  cases vm with
  | ok v =>
    cases spec with
    | error g => exact href.elim
    | ok z =>
      obtain ⟨h1, h2⟩ := href
      refine ⟨setReg rf dst v, ?_, ?_, ?_⟩
      · rw [runS_cons, hex]; rfl
      · rw [setReg_same]; exact ⟨rfl, h1, h2⟩
      · intro r hr; exact setReg_other rf v hr
  | error e =>
    cases spec with
    | ok z => exact href.elim
    | error g =>
      have : e = g := href
      subst this
      show runS tbl [i] (rf, false) = .error e
      rw [runS_cons, hex]

/-- the emitter never trips the `z must be == x` panic of the builder: where `emitBinaryOp` passes
the destination itself as `z`, the emit function does not insist on `z == x` -/
def planOK (sop : SrcOp) (k : Kind) : Bool :=
  match binPlan sop k with
  | some (f, false) => !(emit f k).zEqX
  | _ => true

theorem planOK_all (sop : SrcOp) (k : Kind) : planOK sop k = true := by
  cases sop <;> cases k <;> rfl

theorem binPlan_bin (op : BinOp) (k : Kind) : binPlan (srcOpOfBin op) k ≠ none := by
  cases op <;> cases k <;> (intro h; cases h)

theorem binPlan_shift (op : ShiftOp) (k : Kind) : binPlan (srcOpOfShift op) k ≠ none := by
  cases op <;> cases k <;> (intro h; cases h)

/-- the tail of `emitBinaryOp` computes what `runPlan` (i.e. `vmOp` / `vmShift`) says, into `dst`,
touching only `dst` and registers above `n` -/
theorem binTail_post {tbl : List (BitVec 64)} (sop : SrcOp) (k : Kind) (rx : Reg) (y : Src) (dst n : Nat)
    (rf : RegFile) (spec : Except Fault Int)
    (hplan : binPlan sop k ≠ none)
    (href : ∀ junk, Refines k (runPlan sop k (rf rx) (srcVal rf y) junk) spec)
    (hy : ∀ r, y = .reg r → r ≤ n) :
    Post tbl (binTail sop k rx y dst n) rf (spec.map (Val.int k))
      (fun v rf' => Holds (.int k) v (rf' dst) ∧ ∀ r, r ≤ n → r ≠ dst → rf' r = rf r) := by
  unfold binTail
  cases hp : binPlan sop k with
  | none => exact absurd hp hplan
  | some p =>
    obtain ⟨f, xz⟩ := p
    have hrp : ∀ a b junk, runPlan sop k a b junk = runEmitted (emit f k) k a b junk := by
      intro a b junk; unfold runPlan; rw [hp]
    cases xz
    · -- the destination is `z`
      have hz : (emit f k).zEqX = false := by
        have := planOK_all sop k
        unfold planOK at this
        rw [hp] at this
        simpa using this
      have hex := exec_instrOf tbl f k rx y dst rf (by rw [hz]; intro h; cases h)
      have hr := href (rf dst)
      rw [hrp] at hr
      exact Post_mono (post_refines hex hr) (fun v rf' _ ⟨h1, h2⟩ => ⟨h1, fun r _ hne => h2 r hne⟩)
    · -- `x` is moved into the new register `z = n + 1`, the result moved from there into `dst`
      show Post tbl [.move (.reg rx) (n + 1), instrOf (emit f k) (n + 1) y (n + 1), .move (.reg (n + 1)) dst] rf _ _
      have hyv : srcVal (setReg rf (n + 1) (rf rx)) y = srcVal rf y :=
        srcVal_setReg rf y (n + 1) _ (fun (r : Nat) hr => by have h3 : r ≤ n := hy r hr; show r ≠ n + 1; omega)
      have e2 := exec_instrOf tbl f k (n + 1) y (n + 1) (setReg rf (n + 1) (rf rx)) (fun _ => rfl)
      rw [setReg_same, hyv] at e2
      have hr := href (rf rx)
      rw [hrp] at hr
      cases hvm : runEmitted (emit f k) k (rf rx) (srcVal rf y) (rf rx) with
      | error e =>
        rw [hvm] at hr e2
        cases spec with
        | ok z => exact hr.elim
        | error g =>
          have : e = g := hr
          subst this
          show runS tbl _ (rf, false) = .error e
          rw [runS_cons, exec_move]
          show runS tbl _ (setReg rf (n + 1) (rf rx), false) = _
          rw [runS_cons, e2]
      | ok v =>
        rw [hvm] at hr e2
        cases spec with
        | error g => exact hr.elim
        | ok z =>
          obtain ⟨h1, h2⟩ := hr
          refine ⟨setReg (setReg (setReg rf (n + 1) (rf rx)) (n + 1) v) dst v, ?_, ?_, ?_⟩
          · rw [runS_cons, exec_move]
            show runS tbl _ (setReg rf (n + 1) (rf rx), false) = _
            rw [runS_cons, e2]
            show runS tbl _ (setReg (setReg rf (n + 1) (rf rx)) (n + 1) v, false) = _
            rw [runS_cons, exec_move]
            show runS tbl [] (_, false) = _
            rw [runS_nil]
            simp only [srcVal, setReg_same]
          · rw [setReg_same]; exact ⟨rfl, h1, h2⟩
          · intro r hrn hrd
            have hne : r ≠ n + 1 := by omega
            rw [setReg_other _ _ hrd, setReg_other _ _ hne, setReg_other _ _ hne]

/-! ## specifications of `emitInto` and `operand` -/

/-- `emitInto e dst st`: allocation only grows, the constant table is only extended, and with any
table extending the final one the code leaves the value of `e` in `dst`, changing no other
register `≤ st.numRegs` — or faults as `eval` does -/
def IntoSpec (vr : Nat → Reg) (ρ : Env) (e : Expr) : Prop :=
  ∀ (τ : Ty) (dst : Reg) (st : St) (rf : RegFile) (nv : Nat),
    typeOf e = some τ → VarsIn vr ρ rf nv e → NonNegShifts ρ e → nv < dst → dst ≤ st.numRegs →
    st.numRegs ≤ (emitInto vr e dst st).st.numRegs ∧ st.consts <+: (emitInto vr e dst st).st.consts ∧
    ∀ tbl, (emitInto vr e dst st).st.consts <+: tbl →
      Post tbl (emitInto vr e dst st).code rf (eval ρ e)
        (fun v rf' => Holds τ v (rf' dst) ∧ ∀ r, r ≤ st.numRegs → r ≠ dst → rf' r = rf r)

/-- what `operand` promises about its result `o`: the operand is an immediate, a variable's register
or a register allocated above `st.numRegs`, still allocated afterwards; no register
`≤ st.numRegs` changes -/
def OperPost (ρ : Env) (e : Expr) (τ : Ty) (st : St) (rf : RegFile) (nv : Nat) (o : OperOut) : Prop :=
  st.numRegs ≤ o.st.numRegs ∧ st.consts <+: o.st.consts ∧
  (∀ r, o.src = .reg r → (r ≤ nv ∨ st.numRegs < r) ∧ r ≤ o.st.numRegs) ∧
  ∀ tbl, o.st.consts <+: tbl →
    Post tbl o.code rf (eval ρ e)
      (fun v rf' => Holds τ v (srcVal rf' o.src) ∧ ∀ r, r ≤ st.numRegs → rf' r = rf r)

def OperSpec (vr : Nat → Reg) (ρ : Env) (e : Expr) : Prop :=
  ∀ (τ : Ty) (allowK : Bool) (st : St) (rf : RegFile) (nv : Nat),
    typeOf e = some τ → VarsIn vr ρ rf nv e → NonNegShifts ρ e → nv ≤ st.numRegs →
    OperPost ρ e τ st rf nv (operand vr e allowK (emitInto vr e) st) ∧
    (allowK = false → ∃ r, (operand vr e allowK (emitInto vr e) st).src = .reg r)

theorem fresh_post {vr : Nat → Reg} {ρ : Env} {e : Expr} (hi : IntoSpec vr ρ e) {τ : Ty} {st : St}
    {rf : RegFile} {nv : Nat} (ht : typeOf e = some τ) (hv : VarsIn vr ρ rf nv e) (hn : NonNegShifts ρ e)
    (hnv : nv ≤ st.numRegs) :
    OperPost ρ e τ st rf nv
      ⟨(emitInto vr e (st.numRegs + 1) { st with numRegs := st.numRegs + 1 }).code, .reg (st.numRegs + 1),
        (emitInto vr e (st.numRegs + 1) { st with numRegs := st.numRegs + 1 }).st⟩ := by
  obtain ⟨h1, h2, h3⟩ := hi τ (st.numRegs + 1) { st with numRegs := st.numRegs + 1 } rf nv ht hv hn
    (by omega) (Nat.le_refl _)
  simp only at h1 h2 h3
  refine ⟨by simp only; omega, h2, ?_, ?_⟩
  · intro r hr
    simp only [Src.reg.injEq] at hr
    subst hr
    exact ⟨Or.inr (Nat.lt_succ_self _), h1⟩
  · intro tbl hp
    refine Post_mono (h3 tbl hp) ?_
    intro v rf' _ ⟨hh, hf⟩
    exact ⟨hh, fun (r : Nat) hr => hf r (by omega) (by omega)⟩

theorem operand_of_into {vr : Nat → Reg} {ρ : Env} {e : Expr} (hi : IntoSpec vr ρ e) : OperSpec vr ρ e := by
  intro τ allowK st rf nv ht hv hn hnv
  have hf := fresh_post hi ht hv hn hnv
  cases e with
  | lit k z =>
    simp only [operand]
    split
    · rename_i hc
      simp only [Bool.and_eq_true] at hc
      obtain ⟨hk, himm⟩ := hc
      obtain ⟨hr, hτ⟩ := typeOf_lit ht
      subst hτ
      refine ⟨⟨Nat.le_refl _, List.prefix_refl _, ?_, ?_⟩, ?_⟩
      · intro r h; cases h
      · intro tbl _
        refine Post_nil ⟨?_, fun _ _ => rfl⟩
        show Holds _ _ (((reg z).setWidth 8).signExtend 64)
        rw [imm_roundtrip himm]
        exact holds_reg hr
      · intro h; rw [h] at hk; cases hk
    · exact ⟨hf, fun _ => ⟨_, rfl⟩⟩
  | var k i =>
    simp only [operand]
    simp only [typeOf] at ht
    cases ht
    obtain ⟨hle, z, hz, hc, hvz⟩ := hv
    refine ⟨⟨Nat.le_refl _, List.prefix_refl _, ?_, ?_⟩, fun _ => ⟨_, rfl⟩⟩
    · intro r h
      simp only [Src.reg.injEq] at h
      subst h
      exact ⟨Or.inl hle, Nat.le_trans hle hnv⟩
    · intro tbl _
      have he : eval ρ (.var k i) = .ok (.int k z) := by
        have hin := inRange_val hc
        rw [hvz] at hin
        simp only [eval, hz, hin, if_true]
      rw [he]
      exact Post_nil ⟨⟨rfl, hc, hvz⟩, fun _ _ => rfl⟩
  | un op e => exact ⟨hf, fun _ => ⟨_, rfl⟩⟩
  | bin op a b => exact ⟨hf, fun _ => ⟨_, rfl⟩⟩
  | sh op a b => exact ⟨hf, fun _ => ⟨_, rfl⟩⟩
  | cmp op a b => exact ⟨hf, fun _ => ⟨_, rfl⟩⟩
  | conv k e => exact ⟨hf, fun _ => ⟨_, rfl⟩⟩

/-! ## the induction -/

theorem holds_int {k : Kind} {v : Val} {w : BitVec 64} (h : Holds (.int k) v w) :
    ∃ z, v = .int k z ∧ Canon k w ∧ val k w = z := by
  cases v with
  | int k' z => obtain ⟨h1, h2, h3⟩ := h; cases h1; exact ⟨z, rfl, h2, h3⟩
  | bool b => obtain ⟨h1, _⟩ := h; cases h1

/-- the body of `OpXor` does not look at its destination -/
theorem xor_junk (k : Kind) (m y j : BitVec 64) :
    runEmitted (emit .emitXor k) k m y j = runEmitted (emit .emitXor k) k m y 0 := by
  cases k <;> rfl

/-- `^y`: the mask is put into `x` by `i0` (a move of the immediate -1, or a load), then
`Xor x y x` and the move into `dst` -/
theorem notTail_post (H : OpcodeFacts) {tbl : List (BitVec 64)} (k : Kind) (i0 : Instr) (x y dst : Reg)
    (rf1 : RegFile) (z : Int)
    (h0 : exec tbl i0 rf1 = .ok (setReg rf1 x (notMask k), false))
    (hxy : y ≠ x) (hc : Canon k (rf1 y)) (hvz : val k (rf1 y) = z) :
    Post tbl [i0, instrOf (emit .emitXor k) x (.reg y) x, .move (.reg x) dst] rf1 (unVal .not (.int k z))
      (fun v rf' => Holds (.int k) v (rf' dst) ∧ ∀ r, r ≠ dst → r ≠ x → rf' r = rf1 r) := by
  have hr := H.un .not k (rf1 y) 0 hc
  rw [hvz] at hr
  have e2 := exec_instrOf tbl .emitXor k x (.reg y) x (setReg rf1 x (notMask k)) (fun _ => rfl)
  simp only [srcVal, setReg_same, setReg_other _ _ hxy] at e2
  rw [xor_junk] at e2
  change exec tbl _ _ = (match vmNot k (rf1 y) with
    | .ok v => .ok (setReg (setReg rf1 x (notMask k)) x v, false)
    | .error e => .error e) at e2
  change Refines k (vmNot k (rf1 y)) _ at hr
  cases hvm : vmNot k (rf1 y) with
  | error e => rw [hvm] at hr; exact hr.elim
  | ok v =>
    rw [hvm] at hr e2
    obtain ⟨h1, h2⟩ := hr
    refine ⟨setReg (setReg (setReg rf1 x (notMask k)) x v) dst v, ?_, ?_, ?_⟩
    · rw [runS_cons, h0]
      show runS tbl _ (setReg rf1 x (notMask k), false) = _
      rw [runS_cons, e2]
      show runS tbl _ (setReg (setReg rf1 x (notMask k)) x v, false) = _
      rw [runS_cons, exec_move]
      show runS tbl [] (_, false) = _
      rw [runS_nil]
      simp only [srcVal, setReg_same]
    · rw [setReg_same]; exact ⟨rfl, h1, h2⟩
    · intro r hrd hrx
      rw [setReg_other _ _ hrd, setReg_other _ _ hrx, setReg_other _ _ hrx]

theorem eval_un (ρ : Env) (op : UnOp) (e : Expr) : eval ρ (.un op e) = (eval ρ e >>= unVal op) := rfl
theorem eval_conv (ρ : Env) (k : Kind) (e : Expr) : eval ρ (.conv k e) = (eval ρ e >>= convVal k) := rfl
theorem eval_bin (ρ : Env) (op : BinOp) (a b : Expr) :
    eval ρ (.bin op a b) = (eval ρ a >>= fun va => eval ρ b >>= fun vb => binVal op va vb) := rfl
theorem eval_sh (ρ : Env) (op : ShiftOp) (a b : Expr) :
    eval ρ (.sh op a b) = (eval ρ a >>= fun va => eval ρ b >>= fun vb => shVal op va vb) := rfl
theorem eval_cmp (ρ : Env) (op : CmpOp) (a b : Expr) :
    eval ρ (.cmp op a b) = (eval ρ a >>= fun va => eval ρ b >>= fun vb => cmpVal op va vb) := rfl

theorem into_lit (vr : Nat → Reg) (ρ : Env) (k : Kind) (z : Int) : IntoSpec vr ρ (.lit k z) := by
  intro τ dst st rf nv ht hv hn hlt hle
  obtain ⟨hr, hτ⟩ := typeOf_lit ht
  subst hτ
  obtain ⟨m1, m2, m3⟩ := makeIntValue_spec (reg z) st
  simp only [emitInto]
  refine ⟨by rw [m1]; exact Nat.le_refl _, m2, ?_⟩
  intro tbl hp
  have hl := m3 tbl hp
  refine ⟨setReg rf dst (reg z), ?_, ?_, ?_⟩
  · rw [runS_cons, exec_load tbl dst rf hl]; rfl
  · rw [setReg_same]; exact holds_reg hr
  · intro r _ hne; exact setReg_other rf _ hne

theorem into_var (vr : Nat → Reg) (ρ : Env) (k : Kind) (i : Nat) : IntoSpec vr ρ (.var k i) := by
  intro τ dst st rf nv ht hv hn hlt hle
  simp only [typeOf] at ht
  cases ht
  obtain ⟨hle', z, hz, hc, hvz⟩ := hv
  have hne : vr i ≠ dst := by
    have h1 : (vr i : Nat) ≤ nv := hle'
    show (vr i : Nat) ≠ dst
    omega
  simp only [emitInto, hne, if_false]
  refine ⟨Nat.le_refl _, List.prefix_refl _, ?_⟩
  intro tbl _
  have he : eval ρ (.var k i) = .ok (.int k z) := by
    have hin := inRange_val hc
    rw [hvz] at hin
    simp only [eval, hz, hin, if_true]
  rw [he]
  refine ⟨setReg rf dst (rf (vr i)), ?_, ?_, ?_⟩
  · rw [runS_cons, exec_move]; rfl
  · rw [setReg_same]; exact ⟨rfl, hc, hvz⟩
  · intro r _ h; exact setReg_other rf _ h

theorem into_un (H : OpcodeFacts) (vr : Nat → Reg) (ρ : Env) (op : UnOp) (e : Expr) (ih : IntoSpec vr ρ e) :
    IntoSpec vr ρ (.un op e) := by
  intro τ dst st rf nv ht hv hn hlt hle
  obtain ⟨k, hk, hτ⟩ := typeOf_un ht
  subst hτ
  have hkind := kindOf_of_typeOf e k hk
  subst hkind
  have hnv : nv ≤ st.numRegs := by omega
  cases op with
  | plus =>
    simp only [emitInto]
    obtain ⟨h1, h2, h3⟩ := ih _ dst st rf nv hk hv hn hlt hle
    refine ⟨h1, h2, ?_⟩
    intro tbl hp
    rw [eval_un, ← List.append_nil (emitInto vr e dst st).code]
    refine Post_seq (h3 tbl hp) ?_
    intro v rf1 _ ⟨hh, hfr⟩
    obtain ⟨z, rfl, hc, hvz⟩ := holds_int hh
    exact Post_nil ⟨⟨rfl, hc, hvz⟩, hfr⟩
  | neg =>
    simp only [emitInto]
    obtain ⟨⟨o1, o2, o3, o4⟩, o5⟩ := operand_of_into ih _ false st rf nv hk hv hn hnv
    generalize operand vr e false (emitInto vr e) st = o at *
    refine ⟨Nat.le_refl _, o2, ?_⟩
    intro tbl hp
    rw [eval_un]
    refine Post_seq (o4 tbl hp) ?_
    intro v rf1 _ ⟨hh, hfr⟩
    obtain ⟨z, rfl, hc, hvz⟩ := holds_int hh
    have hex := exec_instrOf tbl .emitNeg (kindOf e) dst o.src dst rf1 (fun _ => rfl)
    have hr := H.un .neg (kindOf e) (srcVal rf1 o.src) (rf1 dst) hc
    rw [hvz] at hr
    refine Post_mono (post_refines hex hr) ?_
    intro v rf' _ ⟨ha, hb⟩
    exact ⟨ha, fun r hr hne => by rw [hb r hne]; exact hfr r hr⟩
  | not =>
    simp only [emitInto]
    obtain ⟨i1, i2, i3⟩ := ih _ (st.numRegs + 1) { st with numRegs := st.numRegs + 1 } rf nv hk hv hn
      (by omega) (Nat.le_refl _)
    simp only at i1 i2 i3
    generalize emitInto vr e (st.numRegs + 1) { st with numRegs := st.numRegs + 1 } = o at *
    have hxy : st.numRegs + 1 ≠ o.st.numRegs + 1 := by omega
    cases hs : (kindOf e).signed
    · -- unsigned: the mask is loaded from the constant table
      simp only [Bool.false_eq_true, if_false]
      obtain ⟨m1, m2, m3⟩ := makeIntValue_spec (notMask (kindOf e)) o.st
      refine ⟨Nat.le_refl _, List.IsPrefix.trans i2 m2, ?_⟩
      intro tbl hp
      rw [eval_un, List.append_assoc]
      refine Post_seq (i3 tbl (List.IsPrefix.trans m2 hp)) ?_
      intro v rf1 _ ⟨hh, hfr⟩
      obtain ⟨z, rfl, hc, hvz⟩ := holds_int hh
      have h0 := exec_load tbl (o.st.numRegs + 1) rf1 (m3 tbl hp)
      refine Post_mono (notTail_post H (kindOf e) _ (o.st.numRegs + 1) (st.numRegs + 1) dst rf1 z h0 hxy hc hvz) ?_
      intro v rf' _ ⟨ha, hb⟩
      refine ⟨ha, fun (r : Nat) hr hne => ?_⟩
      rw [hb r hne (by omega)]
      exact hfr r (by omega) (by omega)
    · -- signed: the immediate -1
      simp only [if_true]
      refine ⟨Nat.le_refl _, i2, ?_⟩
      intro tbl hp
      rw [eval_un, List.append_assoc]
      refine Post_seq (i3 tbl hp) ?_
      intro v rf1 _ ⟨hh, hfr⟩
      obtain ⟨z, rfl, hc, hvz⟩ := holds_int hh
      have h0 : exec tbl (.move (.imm (-1)) (o.st.numRegs + 1)) rf1 =
          .ok (setReg rf1 (o.st.numRegs + 1) (notMask (kindOf e)), false) := by
        rw [exec_move]
        have : srcVal rf1 (.imm (-1)) = notMask (kindOf e) := by
          show BitVec.signExtend 64 (-1 : BitVec 8) = notMask (kindOf e)
          unfold notMask; rw [hs, if_pos rfl]; decide
        rw [this]
      refine Post_mono (notTail_post H (kindOf e) _ (o.st.numRegs + 1) (st.numRegs + 1) dst rf1 z h0 hxy hc hvz) ?_
      intro v rf' _ ⟨ha, hb⟩
      refine ⟨ha, fun (r : Nat) hr hne => ?_⟩
      rw [hb r hne (by omega)]
      exact hfr r (by omega) (by omega)

theorem into_conv (H : OpcodeFacts) (vr : Nat → Reg) (ρ : Env) (kd : Kind) (e : Expr) (ih : IntoSpec vr ρ e) :
    IntoSpec vr ρ (.conv kd e) := by
  intro τ dst st rf nv ht hv hn hlt hle
  obtain ⟨ks, hk, hτ⟩ := typeOf_conv ht
  subst hτ
  have hkind := kindOf_of_typeOf e ks hk
  subst hkind
  have hnv : nv ≤ st.numRegs := by omega
  simp only [emitInto]
  obtain ⟨⟨o1, o2, o3, o4⟩, o5⟩ := operand_of_into ih _ false st rf nv hk hv hn hnv
  generalize operand vr e false (emitInto vr e) st = o at *
  obtain ⟨r, hsrc⟩ := o5 rfl
  obtain ⟨o3a, o3b⟩ := o3 r hsrc
  have hrd : r ≠ dst := by omega
  refine ⟨o1, o2, ?_⟩
  intro tbl hp
  rw [eval_conv]
  refine Post_seq (o4 tbl hp) ?_
  intro v rf1 _ ⟨hh, hfr⟩
  rw [hsrc] at hh ⊢
  obtain ⟨z, rfl, hc, hvz⟩ := holds_int hh
  have hr := H.conv (kindOf e) kd (rf1 r) hc
  rw [show val (kindOf e) (rf1 r) = z from hvz] at hr
  have hfin : ∀ (i : Instr),
      (exec tbl i rf1 = match vmConv (kindOf e) kd (rf1 r) with
        | .ok v => .ok (setReg rf1 dst v, false)
        | .error e => .error e) →
      Post tbl [i] rf1 (convVal kd (.int (kindOf e) z))
        (fun v rf' => Holds (.int kd) v (rf' dst) ∧ ∀ r, r ≤ st.numRegs → r ≠ dst → rf' r = rf r) := by
    intro i hex
    refine Post_mono (post_refines hex hr) ?_
    intro v rf' _ ⟨ha, hb⟩
    exact ⟨ha, fun r hr hne => by rw [hb r hne]; exact hfr r hr⟩
  unfold changeReg
  simp only [Src.toReg]
  by_cases hkk : kindOf e = kd
  · simp only [hkk, if_true, hrd, if_false]
    apply hfin
    unfold vmConv
    simp only [hkk, if_true]
    rfl
  · simp only [hkk, if_false]
    cases hs : (kindOf e).signed
    · simp only [Bool.false_eq_true, if_false]
      apply hfin
      unfold vmConv
      simp only [hkk, if_false, hs, Bool.false_eq_true]
      rfl
    · simp only [if_true]
      apply hfin
      unfold vmConv
      simp only [hkk, if_false, hs, if_true]
      rfl

/-- shared part of `+ - * / % & | ^ &^` and `<< >>`: both operands, then `binTail` -/
theorem into_binlike (vr : Nat → Reg) (ρ : Env) (a b : Expr) (iha : IntoSpec vr ρ a) (ihb : IntoSpec vr ρ b)
    (sop : SrcOp) (k kb : Kind) (f : Val → Val → Except Fault Val) (spec : Int → Int → Except Fault Int)
    (hka : typeOf a = some (.int k)) (hkb : typeOf b = some (.int kb))
    (hplan : binPlan sop k ≠ none)
    (hf : ∀ x y, f (.int k x) (.int kb y) = (spec x y).map (Val.int k))
    (href : ∀ (x y junk : BitVec 64), Canon k x → Canon kb y →
      eval ρ b = .ok (.int kb (val kb y)) →
      Refines k (runPlan sop k x y junk) (spec (val k x) (val kb y)))
    (dst : Nat) (st : St) (rf : RegFile) (nv : Nat)
    (hva : VarsIn vr ρ rf nv a) (hvb : VarsIn vr ρ rf nv b) (hna : NonNegShifts ρ a) (hnb : NonNegShifts ρ b)
    (hlt : nv < dst) (hle : dst ≤ st.numRegs) :
    let oa := operand vr a false (emitInto vr a) st
    let ob := operand vr b true (emitInto vr b) oa.st
    st.numRegs ≤ ob.st.numRegs ∧ st.consts <+: ob.st.consts ∧
    ∀ tbl, ob.st.consts <+: tbl →
      Post tbl (oa.code ++ ob.code ++ binTail sop k oa.src.toReg ob.src dst ob.st.numRegs) rf
        (eval ρ a >>= fun va => eval ρ b >>= fun vb => f va vb)
        (fun v rf' => Holds (.int k) v (rf' dst) ∧ ∀ r, r ≤ st.numRegs → r ≠ dst → rf' r = rf r) := by
  have hnv : nv ≤ st.numRegs := by omega
  obtain ⟨⟨a1, a2, a3, a4⟩, a5⟩ := operand_of_into iha _ false st rf nv hka hva hna hnv
  intro oa
  have hoa : operand vr a false (emitInto vr a) st = oa := rfl
  rw [hoa] at a1 a2 a3 a4 a5
  clear_value oa
  have hb := fun rf' hv' => operand_of_into ihb (.int kb) true oa.st rf' nv hkb hv' hnb (by omega)
  obtain ⟨⟨b1, b2, b3, _⟩, _⟩ := hb rf hvb
  intro ob
  have hob : operand vr b true (emitInto vr b) oa.st = ob := rfl
  rw [hob] at b1 b2 b3 hb
  clear_value ob
  refine ⟨by omega, List.IsPrefix.trans a2 b2, ?_⟩
  intro tbl hp
  rw [List.append_assoc]
  refine Post_seq (a4 tbl (List.IsPrefix.trans b2 hp)) ?_
  intro va rf1 _ ⟨hha, hfra⟩
  have hvb1 : VarsIn vr ρ rf1 nv b := VarsIn_frame b (fun r hr => hfra r (by omega)) hvb
  obtain ⟨⟨_, _, _, b4⟩, _⟩ := hb rf1 hvb1
  refine Post_seq (b4 tbl hp) ?_
  intro vb rf2 hevb ⟨hhb, hfrb⟩
  obtain ⟨rx, hsx⟩ := a5 rfl
  rw [hsx] at hha ⊢
  obtain ⟨x, rfl, hcx, hvx⟩ := holds_int hha
  obtain ⟨y, rfl, hcy, hvy⟩ := holds_int hhb
  have hx2 : rf2 rx = rf1 rx := hfrb rx (a3 rx hsx).2
  rw [hf]
  simp only [Src.toReg]
  have hr : ∀ junk, Refines k (runPlan sop k (rf2 rx) (srcVal rf2 ob.src) junk) (spec x y) := by
    intro junk
    have := href (rf1 rx) (srcVal rf2 ob.src) junk hcx hcy (by rw [hvy]; exact hevb)
    rw [show val k (rf1 rx) = x from hvx, hvy] at this
    rw [hx2]; exact this
  refine Post_mono (binTail_post sop k rx ob.src dst ob.st.numRegs rf2 (spec x y) hplan hr
    (fun r hr => (b3 r hr).2)) ?_
  intro v rf3 _ ⟨hh, hfr⟩
  refine ⟨hh, fun (r : Nat) hr hne => ?_⟩
  rw [hfr r (by omega) hne, hfrb r (by omega), hfra r hr]

theorem into_bin (H : OpcodeFacts) (vr : Nat → Reg) (ρ : Env) (op : BinOp) (a b : Expr)
    (iha : IntoSpec vr ρ a) (ihb : IntoSpec vr ρ b) : IntoSpec vr ρ (.bin op a b) := by
  intro τ dst st rf nv ht hv hn hlt hle
  obtain ⟨k, hka, hkb, hτ⟩ := typeOf_bin ht
  subst hτ
  have hkind := kindOf_of_typeOf a k hka
  simp only [emitInto, hkind, eval_bin]
  exact into_binlike vr ρ a b iha ihb (srcOpOfBin op) k k (binVal op) (binop op k) hka hkb (binPlan_bin op k)
    (fun x y => by simp [binVal])
    (fun x y junk hx hy _ => H.bin op k x y junk hx hy)
    dst st rf nv hv.1 hv.2 hn.1 hn.2 hlt hle

theorem into_sh (H : OpcodeFacts) (vr : Nat → Reg) (ρ : Env) (op : ShiftOp) (a n : Expr)
    (iha : IntoSpec vr ρ a) (ihn : IntoSpec vr ρ n) : IntoSpec vr ρ (.sh op a n) := by
  intro τ dst st rf nv ht hv hn hlt hle
  obtain ⟨k, kc, hka, hkn, hτ⟩ := typeOf_sh ht
  subst hτ
  have hkind := kindOf_of_typeOf a k hka
  simp only [emitInto, hkind, eval_sh]
  exact into_binlike vr ρ a n iha ihn (srcOpOfShift op) k kc (shVal op) (shift op k) hka hkn (binPlan_shift op k)
    (fun x y => rfl)
    (fun x y junk hx hy hev => H.sh op k kc x y junk hx (hn.2.2 kc _ hev))
    dst st rf nv hv.1 hv.2 hn.1 hn.2.1 hlt hle

theorem into_cmp (H : OpcodeFacts) (vr : Nat → Reg) (ρ : Env) (op : CmpOp) (a b : Expr)
    (iha : IntoSpec vr ρ a) (ihb : IntoSpec vr ρ b) : IntoSpec vr ρ (.cmp op a b) := by
  intro τ dst st rf nv ht hv hn hlt hle
  obtain ⟨k, hka, hkb, hτ⟩ := typeOf_cmp ht
  subst hτ
  have hkind := kindOf_of_typeOf a k hka
  simp only [emitInto, hkind, eval_cmp]
  have hnv : nv ≤ st.numRegs := by omega
  obtain ⟨⟨a1, a2, a3, a4⟩, a5⟩ := operand_of_into iha _ false st rf nv hka hv.1 hn.1 hnv
  generalize operand vr a false (emitInto vr a) st = oa at *
  have hb := fun rf' hv' => operand_of_into ihb (.int k) true oa.st rf' nv hkb hv' hn.2 (by omega)
  obtain ⟨⟨b1, b2, b3, _⟩, _⟩ := hb rf hv.2
  generalize operand vr b true (emitInto vr b) oa.st = ob at *
  refine ⟨by omega, List.IsPrefix.trans a2 b2, ?_⟩
  intro tbl hp
  rw [List.append_assoc]
  refine Post_seq (a4 tbl (List.IsPrefix.trans b2 hp)) ?_
  intro va rf1 _ ⟨hha, hfra⟩
  have hvb1 : VarsIn vr ρ rf1 nv b := VarsIn_frame b (fun r hr => hfra r (by omega)) hv.2
  obtain ⟨⟨_, _, _, b4⟩, _⟩ := hb rf1 hvb1
  refine Post_seq (b4 tbl hp) ?_
  intro vb rf2 _ ⟨hhb, hfrb⟩
  obtain ⟨rx, hsx⟩ := a5 rfl
  rw [hsx] at hha ⊢
  obtain ⟨x, rfl, hcx, hvx⟩ := holds_int hha
  obtain ⟨y, rfl, hcy, hvy⟩ := holds_int hhb
  have hx2 : rf2 rx = rf1 rx := hfrb rx (a3 rx hsx).2
  have hrxd : rx ≠ dst := by have := (a3 rx hsx).1; omega
  have hyd : ∀ r, ob.src = .reg r → r ≠ dst := by
    intro r hr; have := (b3 r hr).1; omega
  have hcv : cmpVal op (.int k x) (.int k y) = .ok (.bool (cmp op x y)) := by simp [cmpVal]
  rw [hcv]
  simp only [Src.toReg]
  have hone : srcVal rf2 (.imm 1) = 1#64 := by
    show BitVec.signExtend 64 (1 : BitVec 8) = 1#64
    decide
  -- after `Move 1 dst`
  have hx3 : setReg rf2 dst 1#64 rx = rf1 rx := by rw [setReg_other _ _ hrxd, hx2]
  have hy3 : srcVal (setReg rf2 dst 1#64) ob.src = srcVal rf2 ob.src := srcVal_setReg rf2 ob.src dst _ hyd
  have hcond : vmIfInt (condOf op k) (rf1 rx) (srcVal rf2 ob.src) = cmp op x y := by
    have := H.cmp op k (rf1 rx) (srcVal rf2 ob.src)
    rw [show val k (rf1 rx) = x from hvx, hvy] at this
    exact this
  have hframe : ∀ (w : BitVec 64) (r : Nat), r ≤ st.numRegs → r ≠ dst → setReg rf2 dst w r = rf r := by
    intro w r hr hne
    rw [setReg_other _ _ hne, hfrb r (by omega), hfra r hr]
  cases hc : cmp op x y
  · -- condition false: `Move 0 dst` is executed
    refine ⟨setReg (setReg rf2 dst 1#64) dst 0#64, ?_, ?_, ?_⟩
    · rw [runS_cons, exec_move, hone]
      show runS tbl _ (setReg rf2 dst 1#64, false) = _
      rw [runS_cons]
      show (match (Except.ok (setReg rf2 dst 1#64, vmIfInt (condOf op k) (setReg rf2 dst 1#64 rx)
        (srcVal (setReg rf2 dst 1#64) ob.src)) : Except Fault (RegFile × Bool)) with
        | .ok s => runS tbl _ s
        | .error f => .error f) = _
      rw [hx3, hy3, hcond, hc]
      show runS tbl [.move (.imm 0) dst] (setReg rf2 dst 1#64, false) = _
      rw [runS_cons, exec_move]
      rfl
    · rw [setReg_same]; exact ⟨rfl, rfl⟩
    · intro r hr hne
      rw [setReg_other _ _ hne]; exact hframe _ r hr hne
  · -- condition true: `Move 0 dst` is skipped
    refine ⟨setReg rf2 dst 1#64, ?_, ?_, ?_⟩
    · rw [runS_cons, exec_move, hone]
      show runS tbl _ (setReg rf2 dst 1#64, false) = _
      rw [runS_cons]
      show (match (Except.ok (setReg rf2 dst 1#64, vmIfInt (condOf op k) (setReg rf2 dst 1#64 rx)
        (srcVal (setReg rf2 dst 1#64) ob.src)) : Except Fault (RegFile × Bool)) with
        | .ok s => runS tbl _ s
        | .error f => .error f) = _
      rw [hx3, hy3, hcond, hc]
      rfl
    · rw [setReg_same]; exact ⟨rfl, rfl⟩
    · intro r hr hne; exact hframe _ r hr hne

/-- **every tree satisfies the specification of `emitInto`** -/
theorem into_correct (H : OpcodeFacts) (vr : Nat → Reg) (ρ : Env) (e : Expr) : IntoSpec vr ρ e := by
  induction e with
  | lit k z => exact into_lit vr ρ k z
  | var k i => exact into_var vr ρ k i
  | un op e ih => exact into_un H vr ρ op e ih
  | bin op a b iha ihb => exact into_bin H vr ρ op a b iha ihb
  | sh op a b iha ihb => exact into_sh H vr ρ op a b iha ihb
  | cmp op a b iha ihb => exact into_cmp H vr ρ op a b iha ihb
  | conv k e ih => exact into_conv H vr ρ k e ih

theorem operand_correct (H : OpcodeFacts) (vr : Nat → Reg) (ρ : Env) (e : Expr) : OperSpec vr ρ e :=
  operand_of_into (into_correct H vr ρ e)

end ScriggoV.Compile
