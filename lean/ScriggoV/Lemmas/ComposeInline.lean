import ScriggoV.Lemmas.ComposeFuel
/-! C16 helper lemmas, part 3: an import is the imported file's items (its imports and its
declarations) written in place — observational simulation of environments — from which
`extends` = layout + the child's imports and macros. The imported file may import other files
(transitively, diamonds included: the pass over a file is a function of the file set); its macros have
package scope in the engine, so the expansion into a sequentially scoped file needs the imported file
to be free of forward references (`NoFwd`). -/
namespace ScriggoV.Compose

def MacroVal.fmt : MacroVal → Format
  | .mk f _ _ _ _ => f

def MacroVal.params : MacroVal → List Format
  | .mk _ ps _ _ _ => ps

section
variable (E : Engine) (R : Nat → Except Err (Format × Bytes)) (S : Nat → Except Err Env)

/-- the body of a macro, evaluated in the macro's scope with constant arguments -/
def bodyEval (k : Nat) : MacroVal → List Bytes → Except Err Bytes
  | .mk _ ps body cenv home, cargs =>
    match scopeEnv S cenv home with
    | .error e => .error e
    | .ok senv => mapE (evalAtom E R S k senv (ps.zip cargs)) body

theorem evalAtom_call_eq (n : Nat) (env : Env) (args : List (Format × Bytes)) (ctx : Ctx) (m : Nat)
    (v : Bool) (cargs : List Bytes) :
    evalAtom E R S (n+1) env args (.call ctx m v cargs) =
      match lookup env m with
      | none => .error (.undefined m)
      | some mv =>
        if cargs.length ≠ mv.params.length then .error .badArgs else
        match bodyEval E R S n mv cargs with
        | .error e => .error e
        | .ok content => showSite E (E.macroGuard mv.fmt ctx) v mv.fmt ctx content := by
  simp only [evalAtom]
  cases lookup env m with
  | none => rfl
  | some mv =>
    obtain ⟨f, ps, body, cenv, home⟩ := mv
    show (if cargs.length ≠ ps.length then Except.error Err.badArgs else _) =
      (if cargs.length ≠ ps.length then Except.error Err.badArgs else _)
    by_cases hlen : cargs.length ≠ ps.length
    · rw [if_pos hlen, if_pos hlen]
    · rw [if_neg hlen, if_neg hlen]
      simp only [bodyEval, MacroVal.fmt]
      cases scopeEnv S cenv home with
      | error e => rfl
      | ok senv => rfl

/-- `v'` does whatever `v` does: same result format and parameters, and whenever the body of `v`
evaluates (with any fuel and arguments) the body of `v'` evaluates to the same bytes. -/
def ValLe (v v' : MacroVal) : Prop :=
  v.fmt = v'.fmt ∧ v.params = v'.params ∧
  ∀ k cargs content, bodyEval E R S k v cargs = .ok content → bodyEval E R S k v' cargs = .ok content

/-- every macro visible in `env` is visible in `env2` and does at least the same -/
def EnvLe (env env2 : Env) : Prop :=
  ∀ m v, lookup env m = some v → ∃ v', lookup env2 m = some v' ∧ ValLe E R S v v'

theorem ValLe.refl (v : MacroVal) : ValLe E R S v v := ⟨rfl, rfl, fun _ _ _ h => h⟩

theorem EnvLe.refl (env : Env) : EnvLe E R S env env :=
  fun _ v h => ⟨v, h, ValLe.refl E R S v⟩

theorem EnvLe.nil (env2 : Env) : EnvLe E R S [] env2 := by
  intro m v h; simp [lookup] at h

theorem EnvLe.cons {env env2 : Env} {v v' : MacroVal} (m : Nat) (hv : ValLe E R S v v')
    (h : EnvLe E R S env env2) : EnvLe E R S ((m, v) :: env) ((m, v') :: env2) := by
  intro k w hw
  simp only [lookup] at hw ⊢
  by_cases hk : m = k
  · simp only [hk, if_true] at hw ⊢
    cases hw
    exact ⟨v', rfl, hv⟩
  · simp only [hk, if_false] at hw ⊢
    exact h k w hw

theorem lookup_append (a b : Env) (m : Nat) :
    lookup (a ++ b) m = match lookup a m with | some v => some v | none => lookup b m := by
  induction a with
  | nil => rfl
  | cons kv rest ih =>
    obtain ⟨k, v⟩ := kv
    simp only [List.cons_append, lookup]
    by_cases hk : k = m
    · simp [hk]
    · simp only [hk, if_false]; exact ih

theorem EnvLe.append_left (ex : Env) {env env2 : Env} (h : EnvLe E R S env env2) :
    EnvLe E R S (ex ++ env) (ex ++ env2) := by
  intro m v hv
  rw [lookup_append] at hv ⊢
  cases hl : lookup ex m with
  | some w => rw [hl] at hv; simp only at hv ⊢; cases hv; exact ⟨_, rfl, ValLe.refl E R S _⟩
  | none => rw [hl] at hv; simp only at hv ⊢; exact h m v hv

/-- Lemma A: an atom evaluates the same when the macro it calls (if any) is at least as good -/
theorem evalAtom_of_calleeLe {env env2 : Env} (k : Nat) (args : List (Format × Bytes)) (a : Atom)
    (h : ∀ m, a.callee = some m → ∀ v, lookup env m = some v →
      ∃ v', lookup env2 m = some v' ∧ ValLe E R S v v') :
    ∀ x, evalAtom E R S k env args a = .ok x → evalAtom E R S k env2 args a = .ok x := by
  intro x hx
  cases a with
  | text b => cases k <;> simpa [evalAtom] using hx
  | showConst ctx b => cases k <;> simpa [evalAtom] using hx
  | showParam ctx i => cases k <;> simpa [evalAtom] using hx
  | render ctx p v => cases k <;> simpa [evalAtom] using hx
  | call ctx m v cargs =>
    cases k with
    | zero => simp [evalAtom] at hx
    | succ n =>
      rw [evalAtom_call_eq] at hx ⊢
      cases hl : lookup env m with
      | none => rw [hl] at hx; cases hx
      | some mv =>
        rw [hl] at hx
        obtain ⟨mv', hl', hf, hp, hb⟩ := h m rfl mv hl
        rw [hl']
        simp only at hx ⊢
        rw [← hp, ← hf]
        split at hx
        · cases hx
        · rename_i hlen
          rw [if_neg hlen]
          cases hm : bodyEval E R S n mv cargs with
          | error e => rw [hm] at hx; cases hx
          | ok content => rw [hm] at hx; rw [hb n cargs content hm]; exact hx

theorem evalAtom_envLe {env env2 : Env} (h : EnvLe E R S env env2) (k : Nat)
    (args : List (Format × Bytes)) (a : Atom) (x : Bytes)
    (hx : evalAtom E R S k env args a = .ok x) : evalAtom E R S k env2 args a = .ok x :=
  evalAtom_of_calleeLe E R S k args a (fun m _ v hv => h m v hv) x hx

/-- Lemma B: the same declaration in a bigger environment is a bigger macro -/
theorem ValLe.of_envLe {env env2 : Env} (h : EnvLe E R S env env2) (f : Format) (ps : List Format)
    (body : List Atom) : ValLe E R S (.mk f ps body env none) (.mk f ps body env2 none) :=
  ⟨rfl, rfl, fun k cargs content hc => by
    simp only [bodyEval, scopeEnv] at hc ⊢
    exact mapE_mono body (fun a _ x hx => evalAtom_envLe E R S h k _ a x hx) content hc⟩

/-- Lemma B′: a macro with package scope against the same declaration with an environment in
which everything its body calls is at least as good -/
theorem ValLe.of_scope {q : Nat} {full envR : Env} (hS : S q = .ok full) (f : Format)
    (ps : List Format) (body : List Atom)
    (h : ∀ a ∈ body, ∀ m, a.callee = some m → ∀ v, lookup full m = some v →
      ∃ v', lookup envR m = some v' ∧ ValLe E R S v v') :
    ValLe E R S (.mk f ps body [] (some q)) (.mk f ps body envR none) :=
  ⟨rfl, rfl, fun k cargs content hc => by
    simp only [bodyEval, scopeEnv, hS] at hc ⊢
    exact mapE_mono body (fun a ha x hx => evalAtom_of_calleeLe E R S k _ a (h a ha) x hx) content hc⟩

/-- states of the pass over a run file: bigger environment, same output so far -/
def StLe (s t : St) : Prop := EnvLe E R S s.env t.env ∧ s.out = t.out

/-- Lemma D: one item, related states -/
theorem stepItem_stLe (X : Nat → Except Err Env) (n : Nat) (fmt : Format) {s t : St}
    (hst : StLe E R S s t) (it : Item) (s' : St) (h : stepItem E R S X n fmt s it = .ok s') :
    ∃ t', stepItem E R S X n fmt t it = .ok t' ∧ StLe E R S s' t' := by
  obtain ⟨henv, hout⟩ := hst
  cases it with
  | atom a =>
    simp only [stepItem] at h ⊢
    cases ha : evalAtom E R S n s.env [] a with
    | error e => rw [ha] at h; cases h
    | ok x =>
      rw [ha] at h
      rw [evalAtom_envLe E R S henv n [] a x ha]
      cases h
      exact ⟨_, rfl, henv, by simp [hout]⟩
  | macroDecl m fm ps body =>
    simp only [stepItem] at h ⊢
    cases h
    exact ⟨_, rfl, EnvLe.cons E R S m (ValLe.of_envLe E R S henv _ ps body) henv, hout⟩
  | extends_ p => simp [stepItem] at h
  | import_ q =>
    simp only [stepItem] at h ⊢
    cases hq : X q with
    | error e => rw [hq] at h; cases h
    | ok ex =>
      rw [hq] at h
      cases h
      exact ⟨_, rfl, EnvLe.append_left E R S ex henv, hout⟩

/-- **No forward reference** in the imported file `q` (whose package scope is `full`): every macro
called in the body of a declaration resolves, in the scope built *before* that declaration, to
what it resolves to in the whole file. -/
def NoFwd (X' : Nat → Except Err Env) (q : Nat) (qfmt : Format) (full : Env) : ISt → List Item → Prop
  | _, [] => True
  | st, it :: rest =>
    (match it with
     | .macroDecl _ _ _ body => ∀ a ∈ body, ∀ m, a.callee = some m → lookup full m = lookup st.loc m
     | _ => True) ∧
    ∀ st', passStep X' q qfmt st it = .ok st' → NoFwd X' q qfmt full st' rest

/-- Lemma C: the pass over the imported file `q` against the pass over its inlined items inside
the importing file. `envL0` is the importer's environment at the import. -/
theorem inline_sim (X X' : Nat → Except Err Env) (hXX : OkLe X' X) (n : Nat) (fmt qfmt : Format)
    (q : Nat) (full : Env) (hS : S q = .ok full) (envL0 : Env) :
    ∀ (items : List Item) (Lloc Lexp envR : Env) (out : Bytes) (r : ISt),
      NoFwd X' q qfmt full ⟨Lloc, Lexp⟩ items →
      EnvLe E R S Lloc envR →
      (∀ m v, lookup Lloc m = none → lookup envL0 m = some v →
        ∃ v', lookup envR m = some v' ∧ ValLe E R S v v') →
      foldE (passStep X' q qfmt) ⟨Lloc, Lexp⟩ items = .ok r →
      ∃ envRf,
        foldE (stepItem E R S X n fmt) ⟨envR, out⟩ (items.filterMap (inlineItem qfmt))
          = .ok ⟨envRf, out⟩ ∧
        EnvLe E R S r.loc envRf ∧
        (∀ m v, lookup r.loc m = none → lookup envL0 m = some v →
          ∃ v', lookup envRf m = some v' ∧ ValLe E R S v v') := by
  intro items
  induction items with
  | nil =>
    intro Lloc Lexp envR out r _ h1 h2 hf
    simp only [foldE] at hf
    cases hf
    exact ⟨envR, rfl, h1, h2⟩
  | cons it rest ih =>
    intro Lloc Lexp envR out r hnf h1 h2 hf
    obtain ⟨hhead, htail⟩ := hnf
    cases it with
    | atom a =>
      simp only [foldE, passStep] at hf
      simpa [List.filterMap, inlineItem] using
        ih Lloc Lexp envR out r (htail _ rfl) h1 h2 hf
    | extends_ p =>
      simp only [foldE, passStep] at hf
      simpa [List.filterMap, inlineItem] using
        ih Lloc Lexp envR out r (htail _ rfl) h1 h2 hf
    | import_ q' =>
      simp only [foldE, passStep] at hf
      cases hx : X' q' with
      | error e => rw [hx] at hf; cases hf
      | ok ex =>
        rw [hx] at hf
        simp only at hf
        have h1' : EnvLe E R S (ex ++ Lloc) (ex ++ envR) := EnvLe.append_left E R S ex h1
        have h2' : ∀ m v, lookup (ex ++ Lloc) m = none → lookup envL0 m = some v →
            ∃ v', lookup (ex ++ envR) m = some v' ∧ ValLe E R S v v' := by
          intro m v hn hv
          rw [lookup_append] at hn ⊢
          cases hl : lookup ex m with
          | some w => rw [hl] at hn; cases hn
          | none => rw [hl] at hn; simp only at hn ⊢; exact h2 m v hn hv
        have hnf' := htail ⟨ex ++ Lloc, Lexp⟩ (by simp [passStep, hx])
        obtain ⟨envRf, e1, e2, e3⟩ := ih (ex ++ Lloc) Lexp (ex ++ envR) out r hnf' h1' h2' hf
        refine ⟨envRf, ?_, e2, e3⟩
        simp only [List.filterMap, inlineItem, foldE, stepItem, hXX q' ex hx]
        exact e1
    | macroDecl m fm ps body =>
      simp only [foldE, passStep] at hf
      have hv : ValLe E R S (.mk (fm.getD qfmt) ps body [] (some q)) (.mk (fm.getD qfmt) ps body envR none) := by
        apply ValLe.of_scope E R S hS
        intro a ha m' hm' v hfull
        rw [hhead a ha m' hm'] at hfull
        exact h1 m' v hfull
      have h1' := EnvLe.cons E R S m hv h1
      have h2' : ∀ k v, lookup ((m, MacroVal.mk (fm.getD qfmt) ps body [] (some q)) :: Lloc) k = none →
          lookup envL0 k = some v →
          ∃ v', lookup ((m, MacroVal.mk (fm.getD qfmt) ps body envR none) :: envR) k = some v' ∧
            ValLe E R S v v' := by
        intro k v hn hv'
        simp only [lookup] at hn ⊢
        by_cases hk : m = k
        · simp [hk] at hn
        · simp only [hk, if_false] at hn ⊢
          exact h2 k v hn hv'
      have hnf' := htail _ rfl
      obtain ⟨envRf, e1, e2, e3⟩ := ih _ _ _ out r hnf' h1' h2' hf
      refine ⟨envRf, ?_, e2, e3⟩
      simp only [List.filterMap, inlineItem, foldE, stepItem, Option.getD_some]
      exact e1

/-- **import = the imported file's items in place**, at the level of item lists, for any way `R` of
rendering and `X`/`S` of importing other files that is consistent with the pass `r` over the
imported file `q`. The imported file may itself import. Hypotheses beyond consistency: no forward
references in `q` (`hNoFwd`); and the absence of name clashes, which the engine reports as build
errors: a macro `q` declares is not shadowed inside `q` by one of its imports (`hOwn`), and what `q`
imports does not clash with what is visible at the import (`hHidden`). -/
theorem runItems_import_inline (X X' : Nat → Except Err Env) (hXX : OkLe X' X) (n : Nat) (fmt : Format)
    (q : Nat) (fq : File) (r : ISt)
    (hX : X q = .ok r.exp) (hS : S q = .ok r.loc)
    (hfold : foldE (passStep X' q fq.format) ⟨[], []⟩ fq.items = .ok r)
    (hNoFwd : NoFwd X' q fq.format r.loc ⟨[], []⟩ fq.items)
    (hOwn : ∀ m v, lookup r.exp m = some v → lookup r.loc m = some v)
    (pre post : List Item)
    (hHidden : ∀ s1, foldE (stepItem E R S X n fmt) ⟨[], []⟩ pre = .ok s1 →
      ∀ m, lookup r.exp m = none → lookup r.loc m ≠ none → lookup s1.env m = none)
    (out : Bytes)
    (h : runItems E R S X n fmt (pre ++ .import_ q :: post) = .ok out) :
    runItems E R S X n fmt (pre ++ inlineDecls fq ++ post) = .ok out := by
  unfold runItems at h ⊢
  rw [foldE_append] at h
  rw [List.append_assoc, foldE_append]
  cases hpre : foldE (stepItem E R S X n fmt) ⟨[], []⟩ pre with
  | error e => rw [hpre] at h; cases h
  | ok s1 =>
    have hHid := hHidden s1 hpre
    obtain ⟨env1, out1⟩ := s1
    rw [hpre] at h
    simp only at h ⊢
    rw [foldE_append]
    simp only [foldE, stepItem, hX] at h
    obtain ⟨envRf, e1, e2, e3⟩ := inline_sim E R S X X' hXX n fmt fq.format q r.loc hS env1 fq.items
      [] [] env1 out1 r hNoFwd (EnvLe.nil E R S _)
      (fun m v _ hv => ⟨v, hv, ValLe.refl E R S v⟩) hfold
    unfold inlineDecls
    rw [e1]
    simp only
    have hrel : EnvLe E R S (r.exp ++ env1) envRf := by
      intro m v hv
      rw [lookup_append] at hv
      cases hl : lookup r.exp m with
      | some w =>
        rw [hl] at hv
        cases hv
        exact e2 m _ (hOwn m _ hl)
      | none =>
        rw [hl] at hv
        simp only at hv
        cases hloc : lookup r.loc m with
        | none => exact e3 m v hloc hv
        | some w =>
          have := hHid m hl (by rw [hloc]; simp)
          simp only at this
          rw [this] at hv
          cases hv
    cases hpost : foldE (stepItem E R S X n fmt) ⟨r.exp ++ env1, out1⟩ post with
    | error e => rw [hpost] at h; cases h
    | ok s2 =>
      rw [hpost] at h
      obtain ⟨t2, ht2, hrel2⟩ := foldE_rel (Rel := StLe E R S) (f := stepItem E R S X n fmt)
        (g := stepItem E R S X n fmt) post
        (fun s t hst a _ s' hs' => stepItem_stLe E R S X n fmt hst a s' hs')
        ⟨r.exp ++ env1, out1⟩ ⟨envRf, out1⟩ ⟨hrel, rfl⟩ s2 hpost
      rw [ht2]
      simp only at h ⊢
      rw [← hrel2.2]; exact h

end

/-- the exports of a pass hold exported names only -/
theorem lookup_expAdd_exported {m : Nat} {v : MacroVal} {e : Env}
    (he : ∀ k w, lookup e k = some w → exported k = true) :
    ∀ k w, lookup (expAdd m v e) k = some w → exported k = true := by
  intro k w hw
  cases hx : exported m with
  | false => simp only [expAdd, hx] at hw; exact he k w hw
  | true =>
    simp only [expAdd, hx, if_true, lookup] at hw
    by_cases hk : m = k
    · rw [← hk]; exact hx
    · simp only [hk, if_false] at hw; exact he k w hw

/-- When the imports of a file precede its declarations, none of its own *exported* macros is
shadowed in its package scope by an imported one (sufficient condition for `hOwn`). -/
theorem own_of_importsFirst (X' : Nat → Except Err Env) (q : Nat) (qfmt : Format) :
    ∀ (items : List Item) (seen : Bool) (st r : ISt), importsFirst seen items = true →
      (seen = false → st.exp = []) →
      (∀ m v, lookup st.exp m = some v → exported m = true) →
      (∀ m v, lookup st.exp m = some v → lookup st.loc m = some v) →
      foldE (passStep X' q qfmt) st items = .ok r →
      ∀ m v, lookup r.exp m = some v → lookup r.loc m = some v := by
  intro items
  induction items with
  | nil =>
    intro seen st r _ _ _ h hf
    simp only [foldE] at hf
    cases hf
    exact h
  | cons it rest ih =>
    intro seen st r hif hs hexpd h hf
    cases it with
    | atom a =>
      simp only [foldE, passStep] at hf
      exact ih seen st r (by simpa [importsFirst] using hif) hs hexpd h hf
    | extends_ p =>
      simp only [foldE, passStep] at hf
      exact ih seen st r (by simpa [importsFirst] using hif) hs hexpd h hf
    | import_ q' =>
      simp only [importsFirst, Bool.and_eq_true, Bool.not_eq_true'] at hif
      obtain ⟨hseen, hrest⟩ := hif
      simp only [foldE, passStep] at hf
      cases hx : X' q' with
      | error e => rw [hx] at hf; cases hf
      | ok ex =>
        rw [hx] at hf
        simp only at hf
        refine ih seen ⟨ex ++ st.loc, st.exp⟩ r hrest hs hexpd ?_ hf
        intro m v hv
        rw [hs hseen] at hv
        simp [lookup] at hv
    | macroDecl m fm ps body =>
      simp only [foldE, passStep] at hf
      refine ih true _ r (by simpa [importsFirst] using hif) (by simp)
        (lookup_expAdd_exported hexpd) ?_ hf
      intro k v hv
      simp only [lookup] at hv ⊢
      cases he : exported m with
      | true =>
        simp only [expAdd, he, if_true, lookup] at hv
        by_cases hk : m = k
        · simp only [hk, if_true] at hv ⊢; exact hv
        · simp only [hk, if_false] at hv ⊢; exact h k v hv
      | false =>
        simp only [expAdd, he] at hv
        by_cases hk : m = k
        · -- `k = m` is unexported, the exports hold exported names only
          have := hexpd k v hv
          rw [← hk, he] at this
          cases this
        · simp only [hk, if_false]; exact h k v hv

/-- **extends = layout with the child's imports and macros in front.** A successful run of a file
that extends `l` is the run of `inlineDecls child ++ layout's items` in the same file set; the
child may import other files. `st` is the pass over the child. -/
theorem runFile_extends_substituted (E : Engine) (files : List File) (n p l : Nat)
    (child lay : File) (rest : List Item) (r : Format × Bytes) (st : ISt)
    (hc : files[p]? = some child) (hi : child.items = .extends_ l :: rest)
    (hl : files[l]? = some lay)
    (hpass : passOf files (n+1) p = .ok st)
    (hNoFwd : NoFwd (exportsOf files n) p child.format st.loc ⟨[], []⟩ child.items)
    (hOwn : ∀ m v, lookup st.exp m = some v → lookup st.loc m = some v)
    (h : runFile E files (n+2) true p = .ok r) :
    r.1 = lay.format ∧
    runItems E (fun q => runFile E files (n+1) false q) (scopeOf files (n+1)) (exportsOf files (n+1)) (n+1)
      lay.format (inlineDecls child ++ lay.items) = .ok r.2 := by
  rw [runFile] at h
  rw [hc] at h
  simp only [hi, hl, Bool.not_true, Bool.false_eq_true, if_false] at h
  split at h
  · cases h
  · cases hrun : runItems E (fun q => runFile E files (n+1) false q) (scopeOf files (n+1))
        (exportsOf files (n+1)) (n+1) lay.format (.import_ p :: lay.items) with
    | error e => rw [hrun] at h; cases h
    | ok out =>
      rw [hrun] at h
      cases h
      refine ⟨rfl, ?_⟩
      have hfold : foldE (passStep (exportsOf files n) p child.format) ⟨[], []⟩ child.items = .ok st := by
        have := hpass
        rw [passOf, hc] at this
        exact this
      have := runItems_import_inline E (fun q => runFile E files (n+1) false q) (scopeOf files (n+1))
        (exportsOf files (n+1)) (exportsOf files n) (exportsOf_mono files n) (n+1) lay.format p child st
        (by simp [exportsOf, hpass, expOf]) (by simp [scopeOf, hpass, locOf]) hfold hNoFwd hOwn
        [] lay.items
        (by intro s1 hs1 m _ _; simp only [foldE] at hs1; cases hs1; rfl)
        out (by simpa using hrun)
      simpa using this

end ScriggoV.Compose
