import ScriggoV.Lemmas.ComposeFuel
/-! C16 helper lemmas, part 3: an import is the imported declarations written in place
(observational simulation of environments), from which `extends` = layout + the child's macros. -/
namespace ScriggoV.Compose

section
variable (E : Engine) (R : Nat → Except Err (Format × Bytes))

/-- `v'` does whatever `v` does: same result format, and whenever the body of `v` evaluates (with any
fuel) the body of `v'` evaluates to the same bytes. -/
def ValLe : MacroVal → MacroVal → Prop
  | .mk f b env, .mk f' b' env' =>
    f = f' ∧ ∀ k content, mapE (evalAtom E R k env) b = .ok content →
      mapE (evalAtom E R k env') b' = .ok content

/-- every macro visible in `env` is visible in `env2` and does at least the same -/
def EnvLe (env env2 : Env) : Prop :=
  ∀ m v, lookup env m = some v → ∃ v', lookup env2 m = some v' ∧ ValLe E R v v'

theorem ValLe.refl (v : MacroVal) : ValLe E R v v := by
  obtain ⟨f, b, env⟩ := v
  exact ⟨rfl, fun _ _ h => h⟩

theorem EnvLe.refl (env : Env) : EnvLe E R env env :=
  fun _ v h => ⟨v, h, ValLe.refl E R v⟩

theorem EnvLe.nil (env2 : Env) : EnvLe E R [] env2 := by
  intro m v h; simp [lookup] at h

theorem EnvLe.cons {env env2 : Env} {v v' : MacroVal} (m : Nat) (hv : ValLe E R v v')
    (h : EnvLe E R env env2) : EnvLe E R ((m, v) :: env) ((m, v') :: env2) := by
  intro k w hw
  simp only [lookup] at hw ⊢
  by_cases hk : m = k
  · simp only [hk, if_true] at hw ⊢
    cases hw
    exact ⟨v', rfl, hv⟩
  · simp only [hk, if_false] at hw ⊢
    exact h k w hw

theorem lookup_append (a b : Env) (m : Nat) :
    lookup (a ++ b) m = match lookup a m with | some v => some v | none => lookup b m := by
  induction a with
  | nil => rfl
  | cons kv rest ih =>
    obtain ⟨k, v⟩ := kv
    simp only [List.cons_append, lookup]
    by_cases hk : k = m
    · simp [hk]
    · simp only [hk, if_false]; exact ih

theorem EnvLe.append_left (ex : Env) {env env2 : Env} (h : EnvLe E R env env2) :
    EnvLe E R (ex ++ env) (ex ++ env2) := by
  intro m v hv
  rw [lookup_append] at hv ⊢
  cases hl : lookup ex m with
  | some w => rw [hl] at hv; simp only at hv ⊢; cases hv; exact ⟨_, rfl, ValLe.refl E R _⟩
  | none => rw [hl] at hv; simp only at hv ⊢; exact h m v hv

/-- Lemma A: an atom evaluates the same in a bigger environment -/
theorem evalAtom_envLe {env env2 : Env} (h : EnvLe E R env env2) :
    ∀ k a x, evalAtom E R k env a = .ok x → evalAtom E R k env2 a = .ok x := by
  intro k a x hx
  cases a with
  | text b => cases k <;> simpa [evalAtom] using hx
  | showConst ctx b => cases k <;> simpa [evalAtom] using hx
  | render ctx p v => cases k <;> simpa [evalAtom] using hx
  | call ctx m v =>
    cases k with
    | zero => simp [evalAtom] at hx
    | succ n =>
      simp only [evalAtom] at hx ⊢
      cases hl : lookup env m with
      | none => rw [hl] at hx; cases hx
      | some mv =>
        rw [hl] at hx
        obtain ⟨mv', hl', hle⟩ := h m mv hl
        rw [hl']
        obtain ⟨f, body, env'⟩ := mv
        obtain ⟨f', body', env''⟩ := mv'
        obtain ⟨hf, hb⟩ := hle
        subst hf
        simp only at hx ⊢
        cases hm : mapE (evalAtom E R n env') body with
        | error e => rw [hm] at hx; cases hx
        | ok content => rw [hm] at hx; rw [hb n content hm]; exact hx

/-- Lemma B: the same declaration in a bigger environment is a bigger macro -/
theorem ValLe.of_envLe {env env2 : Env} (h : EnvLe E R env env2) (f : Format) (body : List Atom) :
    ValLe E R (.mk f body env) (.mk f body env2) :=
  ⟨rfl, fun k content hc =>
    mapE_mono body (fun a _ x hx => evalAtom_envLe E R h k a x hx) content hc⟩

/-- states of the pass over a run file: bigger environment, same output so far -/
def StLe (s t : St) : Prop := EnvLe E R s.env t.env ∧ s.out = t.out

/-- Lemma D: one item, related states -/
theorem stepItem_stLe (X : Nat → Except Err Env) (n : Nat) (fmt : Format) {s t : St}
    (hst : StLe E R s t) (it : Item) (s' : St) (h : stepItem E R X n fmt s it = .ok s') :
    ∃ t', stepItem E R X n fmt t it = .ok t' ∧ StLe E R s' t' := by
  obtain ⟨henv, hout⟩ := hst
  cases it with
  | atom a =>
    simp only [stepItem] at h ⊢
    cases ha : evalAtom E R n s.env a with
    | error e => rw [ha] at h; cases h
    | ok x =>
      rw [ha] at h
      rw [evalAtom_envLe E R henv n a x ha]
      cases h
      exact ⟨_, rfl, henv, by simp [hout]⟩
  | macroDecl m fm body =>
    simp only [stepItem] at h ⊢
    cases h
    exact ⟨_, rfl, EnvLe.cons E R m (ValLe.of_envLe E R henv _ body) henv, hout⟩
  | extends_ p => simp [stepItem] at h
  | import_ q =>
    simp only [stepItem] at h ⊢
    cases hq : X q with
    | error e => rw [hq] at h; cases h
    | ok ex =>
      rw [hq] at h
      cases h
      exact ⟨_, rfl, EnvLe.append_left E R ex henv, hout⟩

/-- Lemma C: the pass over an import-free imported file against the pass over its inlined
declarations inside the importing file. -/
theorem inline_sim (X X' : Nat → Except Err Env) (n : Nat) (fmt qfmt : Format) (envL0 : Env) :
    ∀ (items : List Item), items.all (fun it => !it.isImport) = true →
    ∀ (Lacc envR : Env) (out : Bytes) (r : ISt),
      EnvLe E R Lacc envR → EnvLe E R (Lacc ++ envL0) envR →
      foldE (exportStep X' qfmt) ⟨Lacc, Lacc⟩ items = .ok r →
      ∃ envRf, r.loc = r.exp ∧
        foldE (stepItem E R X n fmt) ⟨envR, out⟩
          (items.filterMap (inlineItem qfmt)) = .ok ⟨envRf, out⟩ ∧
        EnvLe E R (r.exp ++ envL0) envRf := by
  intro items
  induction items with
  | nil =>
    intro _ Lacc envR out r h1 h2 hf
    simp only [foldE] at hf
    cases hf
    exact ⟨envR, rfl, rfl, h2⟩
  | cons it rest ih =>
    intro hall Lacc envR out r h1 h2 hf
    simp only [List.all_cons, Bool.and_eq_true] at hall
    obtain ⟨hit, hrest⟩ := hall
    cases it with
    | atom a =>
      simp only [foldE, exportStep] at hf
      simpa [List.filterMap, inlineItem] using ih hrest Lacc envR out r h1 h2 hf
    | extends_ p =>
      simp only [foldE, exportStep] at hf
      simpa [List.filterMap, inlineItem] using ih hrest Lacc envR out r h1 h2 hf
    | import_ q => simp [Item.isImport] at hit
    | macroDecl m fm body =>
      simp only [foldE, exportStep] at hf
      have hv : ValLe E R (.mk (fm.getD qfmt) body Lacc) (.mk (fm.getD qfmt) body envR) :=
        ValLe.of_envLe E R h1 _ body
      have h1' := EnvLe.cons E R m hv h1
      have h2' : EnvLe E R (((m, MacroVal.mk (fm.getD qfmt) body Lacc) :: Lacc) ++ envL0)
          ((m, MacroVal.mk (fm.getD qfmt) body envR) :: envR) := by
        simpa using EnvLe.cons E R m hv h2
      obtain ⟨envRf, e1, e2, e3⟩ := ih hrest _ _ out r h1' h2' hf
      refine ⟨envRf, e1, ?_, e3⟩
      simp only [List.filterMap, inlineItem, foldE, stepItem, Option.getD_some]
      exact e2

/-- **import = declarations in place** at the level of item lists, for any way `R` of rendering
and `X` of importing other files: if `X q` is what the pass over `q`'s items gives and `q` imports
nothing, replacing `import q` by `q`'s declarations (with their result formats made explicit)
preserves every successful run. -/
theorem runItems_import_inline (X X' : Nat → Except Err Env) (n : Nat) (fmt : Format)
    (q : Nat) (fq : File) (r : ISt)
    (hX : X q = .ok r.exp)
    (hfold : foldE (exportStep X' fq.format) ⟨[], []⟩ fq.items = .ok r)
    (hfree : fq.importFree = true) (pre post : List Item) (out : Bytes)
    (h : runItems E R X n fmt (pre ++ .import_ q :: post) = .ok out) :
    runItems E R X n fmt (pre ++ inlineDecls fq ++ post) = .ok out := by
  unfold runItems at h ⊢
  rw [foldE_append] at h
  rw [List.append_assoc, foldE_append]
  cases hpre : foldE (stepItem E R X n fmt) ⟨[], []⟩ pre with
  | error e => rw [hpre] at h; cases h
  | ok s1 =>
    obtain ⟨env1, out1⟩ := s1
    rw [hpre] at h
    simp only at h ⊢
    rw [foldE_append]
    simp only [foldE, stepItem, hX] at h
    obtain ⟨envRf, _, e2, e3⟩ := inline_sim E R X X' n fmt fq.format env1 fq.items hfree [] env1 out1 r
      (EnvLe.nil E R _) (by simpa using EnvLe.refl E R env1) hfold
    unfold inlineDecls
    rw [e2]
    simp only
    cases hpost : foldE (stepItem E R X n fmt) ⟨r.exp ++ env1, out1⟩ post with
    | error e => rw [hpost] at h; cases h
    | ok s2 =>
      rw [hpost] at h
      obtain ⟨t2, ht2, hrel⟩ := foldE_rel (Rel := StLe E R) (f := stepItem E R X n fmt)
        (g := stepItem E R X n fmt) post
        (fun s t hst a _ s' hs' => stepItem_stLe E R X n fmt hst a s' hs')
        ⟨r.exp ++ env1, out1⟩ ⟨envRf, out1⟩ ⟨e3, rfl⟩ s2 hpost
      rw [ht2]
      simp only at h ⊢
      rw [← hrel.2]; exact h

end

/-- **extends = layout with the child's macros substituted.** A successful run of a file that
extends `l` is the run of the layout's items with the child's declarations written in front
(result formats explicit), in the same file set — for a child that imports nothing. -/
theorem runFile_extends_substituted (E : Engine) (files : List File) (n p l : Nat)
    (child lay : File) (rest : List Item) (r : Format × Bytes)
    (hc : files[p]? = some child) (hi : child.items = .extends_ l :: rest)
    (hl : files[l]? = some lay) (hfree : child.importFree = true)
    (h : runFile E files (n+1) true p = .ok r) :
    r.1 = lay.format ∧
    runItems E (fun q => runFile E files n false q) (exportsOf files n) n lay.format
      (inlineDecls child ++ lay.items) = .ok r.2 := by
  rw [runFile] at h
  rw [hc] at h
  simp only [hi, hl, Bool.not_true, Bool.false_eq_true, if_false] at h
  split at h
  · cases h
  · cases hrun : runItems E (fun q => runFile E files n false q) (exportsOf files n) n lay.format
        (.import_ p :: lay.items) with
    | error e => rw [hrun] at h; cases h
    | ok out =>
      rw [hrun] at h
      cases h
      refine ⟨rfl, ?_⟩
      -- the import of the child succeeded, so the pass over the child's items did
      have hex : ∃ ex, exportsOf files n p = .ok ex := by
        unfold runItems at hrun
        simp only [foldE, stepItem] at hrun
        cases hx : exportsOf files n p with
        | error e => rw [hx] at hrun; cases hrun
        | ok ex => exact ⟨ex, rfl⟩
      obtain ⟨ex, hex⟩ := hex
      cases n with
      | zero => simp [exportsOf] at hex
      | succ k =>
        have hex' := hex
        rw [exportsOf] at hex'
        rw [hc] at hex'
        simp only at hex'
        cases hf : foldE (exportStep (exportsOf files k) child.format) ⟨[], []⟩ child.items with
        | error e => rw [hf] at hex'; cases hex'
        | ok st =>
          rw [hf] at hex'
          cases hex'
          have := runItems_import_inline E (fun q => runFile E files (k+1) false q)
            (exportsOf files (k+1)) (exportsOf files k) (k+1) lay.format p child st hex hf hfree
            [] lay.items out (by simpa using hrun)
          simpa using this

end ScriggoV.Compose
