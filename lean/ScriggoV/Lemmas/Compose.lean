import ScriggoV.Model.Compose
/-! C16 helper lemmas, part 1: the fast path against the generic path at one site; list combinators;
the evaluator with sound guards is the evaluator with the fast paths switched off; fuel. -/
namespace ScriggoV.Compose

/-! ### one site -/

theorem choice_same (f : Format) : choice f f.ctx = .same := by
  cases f <;> rfl

theorem choice_of_incompatible {f : Format} {ctx : Ctx} (h : compatible f ctx = false) :
    choice f ctx = .fresh := by
  cases f <;> cases ctx <;> first | rfl | (exact absurd h (by decide))

theorem fast_eq_generic_of_compatible {esc : Format → Ctx → Bytes → Bytes} {conv : Bytes → Bytes}
    (h : EscFacts esc conv) {f : Format} {ctx : Ctx} (hc : compatible f ctx = true) (c : Bytes) :
    fast conv f ctx c = generic esc f ctx c := by
  have hs := h.same f c
  have ht := h.text f c
  have hm := h.mdhtml c
  unfold generic
  cases f <;> cases ctx <;>
    first
    | (exact absurd hc (by decide))
    | (simp only [Format.ctx] at hs; rw [hs]; rfl)
    | (rw [ht]; rfl)
    | (rw [hm]; rfl)

theorem fast_ne_generic_of_incompatible {esc : Format → Ctx → Bytes → Bytes} {conv : Bytes → Bytes}
    (h : EscFacts esc conv) {f : Format} {ctx : Ctx} (hc : compatible f ctx = false) :
    ∃ c, fast conv f ctx c ≠ generic esc f ctx c := by
  obtain ⟨c, hne⟩ := h.differ f ctx hc
  refine ⟨c, ?_⟩
  unfold fast generic
  rw [choice_of_incompatible hc]
  exact fun e => hne e.symm

theorem sameOrMdHtml_compatible {f : Format} {ctx : Ctx} (h : sameOrMdHtml f ctx = true) :
    compatible f ctx = true := by
  unfold compatible; unfold sameOrMdHtml at h; rw [h]; rfl

/-! ### list combinators -/

theorem mapE_congr {α : Type} {f g : α → Except Err Bytes} (l : List α)
    (h : ∀ a ∈ l, f a = g a) : mapE f l = mapE g l := by
  induction l with
  | nil => rfl
  | cons a as ih =>
    simp only [mapE]
    rw [h a (List.mem_cons_self), ih (fun b hb => h b (List.mem_cons_of_mem _ hb))]

theorem mapE_mono {α : Type} {f g : α → Except Err Bytes} (l : List α)
    (h : ∀ a ∈ l, ∀ x, f a = .ok x → g a = .ok x) :
    ∀ y, mapE f l = .ok y → mapE g l = .ok y := by
  induction l with
  | nil => intro y hy; simpa [mapE] using hy
  | cons a as ih =>
    intro y hy
    simp only [mapE] at hy ⊢
    cases hfa : f a with
    | error e => rw [hfa] at hy; cases hy
    | ok x =>
      rw [hfa] at hy
      rw [h a (List.mem_cons_self) x hfa]
      cases hm : mapE f as with
      | error e => rw [hm] at hy; cases hy
      | ok z =>
        rw [hm] at hy
        rw [ih (fun b hb => h b (List.mem_cons_of_mem _ hb)) z hm]
        exact hy

theorem foldE_congr {σ α : Type} {f g : σ → α → Except Err σ} (l : List α)
    (h : ∀ s, ∀ a ∈ l, f s a = g s a) : ∀ s, foldE f s l = foldE g s l := by
  induction l with
  | nil => intro s; rfl
  | cons a as ih =>
    intro s
    simp only [foldE]
    rw [h s a (List.mem_cons_self)]
    cases g s a with
    | error e => rfl
    | ok s' => exact ih (fun t b hb => h t b (List.mem_cons_of_mem _ hb)) s'

theorem foldE_append {σ α : Type} (f : σ → α → Except Err σ) (l1 l2 : List α) :
    ∀ s, foldE f s (l1 ++ l2) =
      match foldE f s l1 with
      | .error e => .error e
      | .ok s' => foldE f s' l2 := by
  induction l1 with
  | nil => intro s; rfl
  | cons a as ih =>
    intro s
    simp only [List.cons_append, foldE]
    cases f s a with
    | error e => rfl
    | ok s' => exact ih s'

/-- relational fold: related states stay related as long as the left run succeeds -/
theorem foldE_rel {σ τ α : Type} {Rel : σ → τ → Prop} {f : σ → α → Except Err σ}
    {g : τ → α → Except Err τ} (l : List α)
    (h : ∀ s t, Rel s t → ∀ a ∈ l, ∀ s', f s a = .ok s' → ∃ t', g t a = .ok t' ∧ Rel s' t') :
    ∀ s t, Rel s t → ∀ r, foldE f s l = .ok r → ∃ r', foldE g t l = .ok r' ∧ Rel r r' := by
  induction l with
  | nil =>
    intro s t hst r hr
    simp only [foldE] at hr ⊢
    cases hr
    exact ⟨t, rfl, hst⟩
  | cons a as ih =>
    intro s t hst r hr
    simp only [foldE] at hr ⊢
    cases hfa : f s a with
    | error e => rw [hfa] at hr; cases hr
    | ok s' =>
      rw [hfa] at hr
      obtain ⟨t', hg, hrel⟩ := h s t hst a (List.mem_cons_self) s' hfa
      rw [hg]
      exact ih (fun s t hst b hb => h s t hst b (List.mem_cons_of_mem _ hb)) s' t' hrel r hr

theorem foldE_mono {σ α : Type} {f g : σ → α → Except Err σ} (l : List α)
    (h : ∀ s, ∀ a ∈ l, ∀ s', f s a = .ok s' → g s a = .ok s') :
    ∀ s r, foldE f s l = .ok r → foldE g s l = .ok r := by
  intro s r hr
  obtain ⟨r', h1, h2⟩ := foldE_rel (Rel := fun (a b : σ) => a = b) (g := g) l
    (fun s t hst a ha s' hs' => ⟨s', by subst hst; exact h s a ha s' hs', rfl⟩) s s rfl r hr
  subst h2; exact h1

/-! ### sound guards: the engine is the engine without fast paths -/

/-- every fast path the engine takes is one on which fast and generic agree -/
def GuardSound (g : Format → Ctx → Bool) : Prop := ∀ f c, g f c = true → compatible f c = true

theorem showSite_generic_of_sound {E : Engine} {esc : Format → Ctx → Bytes → Bytes}
    (hE : E.esc = liftEsc esc) (hf : EscFacts esc E.conv) {f : Format} {ctx : Ctx} {guard : Bool}
    (hg : guard = true → compatible f ctx = true) (viaVar : Bool) (content : Bytes) :
    showSite E guard viaVar f ctx content = .ok (generic esc f ctx content) := by
  unfold showSite
  cases viaVar <;> cases guard <;> simp [hE, liftEsc, generic]
  exact fast_eq_generic_of_compatible hf (hg rfl) content

theorem evalAtom_allGeneric {E : Engine} {esc : Format → Ctx → Bytes → Bytes}
    (hE : E.esc = liftEsc esc) (hf : EscFacts esc E.conv)
    (hm : GuardSound E.macroGuard) (hr : GuardSound E.renderGuard)
    (R : Nat → Except Err (Format × Bytes)) (S : Nat → Except Err Env) :
    ∀ k env args a, evalAtom E R S k env args a = evalAtom E.allGeneric R S k env args a := by
  have hE' : E.allGeneric.esc = liftEsc esc := hE
  have hf' : EscFacts esc E.allGeneric.conv := hf
  have hrender : ∀ k env args ctx p v,
      evalAtom E R S k env args (.render ctx p v) = evalAtom E.allGeneric R S k env args (.render ctx p v) := by
    intro k env args ctx p v
    cases k <;>
    · simp only [evalAtom]
      cases R p with
      | error e => rfl
      | ok fc =>
        obtain ⟨f, content⟩ := fc
        simp only
        rw [showSite_generic_of_sound hE hf (hr f ctx),
          showSite_generic_of_sound hE' hf' (f := f) (ctx := ctx) (guard := E.allGeneric.renderGuard f ctx)
            (fun h => by simp [Engine.allGeneric] at h)]
  intro k
  induction k with
  | zero =>
    intro env args a
    cases a with
    | text b => rfl
    | showConst ctx b => rfl
    | showParam ctx i => rfl
    | call ctx m v cargs => rfl
    | render ctx p v => exact hrender 0 env args ctx p v
  | succ n ih =>
    intro env args a
    cases a with
    | text b => rfl
    | showConst ctx b => rfl
    | showParam ctx i => rfl
    | render ctx p v => exact hrender (n+1) env args ctx p v
    | call ctx m v cargs =>
      simp only [evalAtom]
      cases lookup env m with
      | none => rfl
      | some mv =>
        obtain ⟨f, ps, body, cenv, home⟩ := mv
        simp only
        split
        · rfl
        · cases scopeEnv S cenv home with
          | error e => rfl
          | ok senv =>
            simp only
            rw [mapE_congr body (fun a _ => ih senv (ps.zip cargs) a)]
            cases mapE (evalAtom E.allGeneric R S n senv (ps.zip cargs)) body with
            | error e => rfl
            | ok content =>
              simp only
              rw [showSite_generic_of_sound hE hf (hm f ctx),
                showSite_generic_of_sound hE' hf' (f := f) (ctx := ctx) (guard := E.allGeneric.macroGuard f ctx)
                  (fun h => by simp [Engine.allGeneric] at h)]

theorem runItems_allGeneric {E : Engine} {esc : Format → Ctx → Bytes → Bytes}
    (hE : E.esc = liftEsc esc) (hf : EscFacts esc E.conv)
    (hm : GuardSound E.macroGuard) (hr : GuardSound E.renderGuard)
    (R : Nat → Except Err (Format × Bytes)) (S X : Nat → Except Err Env) (n : Nat) (fmt : Format)
    (items : List Item) :
    runItems E R S X n fmt items = runItems E.allGeneric R S X n fmt items := by
  unfold runItems
  rw [foldE_congr items (g := stepItem E.allGeneric R S X n fmt)]
  intro s a _
  cases a with
  | atom a => simp only [stepItem]; rw [evalAtom_allGeneric hE hf hm hr R S n s.env [] a]
  | macroDecl m fm ps body => rfl
  | import_ q => rfl
  | extends_ p => rfl

theorem runFile_allGeneric {E : Engine} {esc : Format → Ctx → Bytes → Bytes}
    (hE : E.esc = liftEsc esc) (hf : EscFacts esc E.conv)
    (hm : GuardSound E.macroGuard) (hr : GuardSound E.renderGuard) (files : List File) :
    ∀ n main p, runFile E files n main p = runFile E.allGeneric files n main p := by
  intro n
  induction n with
  | zero => intro main p; rfl
  | succ n ih =>
    intro main p
    have hR : (fun q => runFile E files n false q) = (fun q => runFile E.allGeneric files n false q) :=
      funext (fun q => ih false q)
    simp only [runFile]
    rw [hR]
    cases files[p]? with
    | none => rfl
    | some f =>
      simp only
      split
      · split
        · rfl
        · split
          · rfl
          · split
            · rfl
            · rw [runItems_allGeneric hE hf hm hr]
      · rw [runItems_allGeneric hE hf hm hr]

end ScriggoV.Compose
