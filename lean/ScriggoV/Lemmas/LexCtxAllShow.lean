import ScriggoV.Lemmas.LexCtxSim
/-! # C06 layer 2, every hole — the pure side: the simulation relation across a neutral show

The reference tokenizer reads the template text AS IT IS, show statements included. A *neutral*
show is `{{` + a run of ASCII letters, digits, `_`, `.` + `}}`; none of its bytes is a quote, a
backslash, `<`, `>`, `/`, `*`, white space or a newline. At a *stable* reference state (the
abstraction makes a claim, the context is not Tag, and the state is not "just after `<`") such
bytes keep the reference in a state with the same abstraction, which moreover needs no look-ahead
(`settled`). The lexer, on its side, jumps over the show with its context fields unchanged. So the
relation `R text s (rs text s.pos)` of `LexCtxSimBasic` is carried from the `{{` to the offset after
the `}}`: `R_across_show`. Core Lean only. -/
namespace ScriggoV.LexCtx
open ScriggoV ScriggoV.Lexer ScriggoV.Gen.LexTables ScriggoV.HtmlTok

def neutralByte (c : UInt8) : Bool :=
  (0x41 ≤ c && c ≤ 0x5A) || (0x61 ≤ c && c ≤ 0x7A) || (0x30 ≤ c && c ≤ 0x39) || c == 0x5F || c == 0x2E

/-- text[a..e) is `{{` neutral* `}}` -/
def NeutralShow (text : Bytes) (a e : Nat) : Prop :=
  a + 4 ≤ e ∧ text[a]? = some 0x7b ∧ text[a+1]? = some 0x7b ∧ text[e-2]? = some 0x7d ∧ text[e-1]? = some 0x7d ∧
  ∀ i, a + 2 ≤ i → i < e - 2 → ∃ c, text[i]? = some c ∧ neutralByte c = true

/-- a reference state at which a show may stand: the abstraction makes a claim, not the Tag context,
not directly after `<` -/
def stable (r : HtmlTok.RSt) : Prop :=
  r ≠ .tagOpen ∧ ∃ c u, HtmlTok.abs Lexer.containsURL r = some (c, u) ∧ c ≠ .tag

/-- a byte of a neutral show: `{`, `}` or a neutral byte -/
def showByte (c : UInt8) : Bool := c == 0x7b || c == 0x7d || neutralByte c

theorem NeutralShow.byte {text : Bytes} {a e : Nat} (h : NeutralShow text a e) {i : Nat} (hai : a ≤ i)
    (hie : i < e) : ∃ c, text[i]? = some c ∧ showByte c = true := by
  obtain ⟨h0, h1, h2, h3, h4, h5⟩ := h
  by_cases ha : i = a
  · subst ha; exact ⟨_, h1, by decide⟩
  by_cases ha1 : i = a + 1
  · subst ha1; exact ⟨_, h2, by decide⟩
  by_cases he2 : i = e - 2
  · subst he2; exact ⟨_, h3, by decide⟩
  by_cases he1 : i = e - 1
  · subst he1; exact ⟨_, h4, by decide⟩
  obtain ⟨c, hc, hn⟩ := h5 i (by omega) (by omega)
  exact ⟨c, hc, by simp [showByte, hn]⟩

/-- what a show byte is not -/
theorem showByte_spec (c : UInt8) (h : showByte c = true) :
    (c == 0x22) = false ∧ (c == 0x27) = false ∧ (c == 0x60) = false ∧ (c == 0x2F) = false ∧ ws c = false ∧
    (c == 11) = false ∧ (c == 0x5C) = false ∧ (c == 10) = false ∧ (c == 13) = false ∧ (c == 12) = false ∧
    (c == 0xE2) = false ∧ (c == 0x2A) = false ∧ (c == 0x3C) = false ∧ (c == 0x3E) = false := by
  have := allBytes_spec (p := fun c => !showByte c ||
    (!(c == 0x22) && !(c == 0x27) && !(c == 0x60) && !(c == 0x2F) && !ws c && !(c == 11) && !(c == 0x5C) &&
     !(c == 10) && !(c == 13) && !(c == 12) && !(c == 0xE2) && !(c == 0x2A) && !(c == 0x3C) && !(c == 0x3E)))
    (by decide +kernel) c
  simpa [h, and_assoc] using this

/-! ## settled states: no look-ahead, closed under show bytes -/

def JsSettled : JsS → Bool
  | .code _ | .lineC | .blockC | .str _ => true
  | _ => false

def CssSettled : CssS → Bool
  | .code | .blockC | .str _ => true
  | _ => false

/-- the reference states a neutral show leads to (and stays in) -/
def settled : RSt → Bool
  | .data | .attrValDq _ _ | .attrValSq _ _ | .attrValUnq _ _ => true
  | .raw (.js k) m => m == 0 && JsSettled k
  | .raw (.css k) m => m == 0 && CssSettled k
  | _ => false

theorem jsStep_show {text : Bytes} {s : CSt} {k : JsS} {c : UInt8} (hc : showByte c = true)
    (hr : JsRef text s k) (hnb : jsStep k c ≠ .bad) :
    JsSettled (jsStep k c) = true ∧ JsRef text s (jsStep k c) ∧ jsCtx (jsStep k c) = jsCtx k := by
  obtain ⟨f1, f2, f3, f4, f5, f6, f7, f8, f9, f10, f11, f12, f13, f14⟩ := showByte_spec c hc
  cases k with
  | code ro =>
    simp only [jsStep, jsCode, f1, f2, f3, f4, f5, f6, Bool.or_self, Bool.false_eq_true, if_false]
    split <;> exact ⟨rfl, hr, by first | rfl | trivial⟩
  | slash ro =>
    simp only [jsStep, f4, f12, Bool.false_eq_true, if_false] at hnb ⊢
    cases ro with
    | true => simp at hnb
    | false =>
      simp only [jsCode, f1, f2, f3, f4, f5, f6, Bool.or_self, Bool.false_eq_true, if_false]
      obtain ⟨h1, h2, h3, _⟩ := hr
      split <;> exact ⟨rfl, ⟨h1, h2, h3⟩, by first | rfl | trivial⟩
  | lineC =>
    simp only [jsStep, f8, f9, f11, Bool.or_self, Bool.false_eq_true, if_false]
    exact ⟨rfl, hr, by first | rfl | trivial⟩
  | blockC =>
    simp only [jsStep, f12, Bool.false_eq_true, if_false]
    exact ⟨rfl, hr, by first | rfl | trivial⟩
  | blockCStar =>
    simp only [jsStep, f4, f12, Bool.false_eq_true, if_false]
    obtain ⟨h1, h2, h3, _⟩ := hr
    exact ⟨rfl, ⟨h1, h2, h3⟩, by first | rfl | trivial⟩
  | str q =>
    obtain ⟨h1, h2, h3, h4⟩ := hr
    have hq : (c == q) = false := by rcases h4 with rfl | rfl <;> assumption
    simp only [jsStep, jsStr, f7, hq, f8, f9, Bool.or_self, Bool.false_eq_true, if_false]
    exact ⟨rfl, ⟨h1, h2, h3, h4⟩, by first | rfl | trivial⟩
  | strEsc q =>
    obtain ⟨h1, h2, h3, h4, _⟩ := hr
    simp only [jsStep, f7, Bool.false_eq_true, if_false]
    exact ⟨rfl, ⟨h1, h2, h3, h4⟩, by first | rfl | trivial⟩
  | strBs q =>
    obtain ⟨h1, h2, h3, h4⟩ := hr
    have hq : (c == q) = false := by rcases h4 with rfl | rfl <;> assumption
    simp only [jsStep, jsStr, f7, hq, f8, f9, Bool.or_self, Bool.false_eq_true, if_false]
    exact ⟨rfl, ⟨h1, h2, h3, h4⟩, by first | rfl | trivial⟩
  | bad => exact hr.elim

theorem cssStep_show {text : Bytes} {s : CSt} {k : CssS} {c : UInt8} (hc : showByte c = true)
    (hr : CssRef text s k) (hnb : cssStep k c ≠ .bad) :
    CssSettled (cssStep k c) = true ∧ CssRef text s (cssStep k c) ∧ cssCtx (cssStep k c) = cssCtx k := by
  obtain ⟨f1, f2, f3, f4, f5, f6, f7, f8, f9, f10, f11, f12, f13, f14⟩ := showByte_spec c hc
  cases k with
  | code =>
    simp only [cssStep, cssCode, f1, f2, f4, Bool.or_self, Bool.false_eq_true, if_false]
    exact ⟨rfl, hr, by first | rfl | trivial⟩
  | slash =>
    simp only [cssStep, cssCode, f1, f2, f4, f12, Bool.or_self, Bool.false_eq_true, if_false]
    exact ⟨rfl, hr, by first | rfl | trivial⟩
  | blockC =>
    simp only [cssStep, f1, f2, f12, Bool.or_self, Bool.false_eq_true, if_false]
    exact ⟨rfl, hr, by first | rfl | trivial⟩
  | blockCStar =>
    simp only [cssStep, f1, f2, f4, f12, Bool.or_self, Bool.false_eq_true, if_false]
    exact ⟨rfl, hr, by first | rfl | trivial⟩
  | str q =>
    obtain ⟨h1, h3, h4⟩ := hr
    have hq : (c == q) = false := by rcases h4 with rfl | rfl <;> assumption
    simp only [cssStep, cssStr, f7, hq, f8, f9, f10, Bool.or_self, Bool.false_eq_true, if_false]
    exact ⟨rfl, ⟨h1, h3, h4⟩, by first | rfl | trivial⟩
  | strEsc q =>
    obtain ⟨h1, h3, h4, _⟩ := hr
    simp only [cssStep, f7, Bool.false_eq_true, if_false]
    exact ⟨rfl, ⟨h1, h3, h4⟩, by first | rfl | trivial⟩
  | strBs q =>
    obtain ⟨h1, h3, h4⟩ := hr
    have hq : (c == q) = false := by rcases h4 with rfl | rfl <;> assumption
    simp only [cssStep, cssStr, f7, hq, f8, f9, f10, Bool.or_self, Bool.false_eq_true, if_false]
    exact ⟨rfl, ⟨h1, h3, h4⟩, by first | rfl | trivial⟩
  | bad => exact hr.elim

/-- script / style content on a show byte: the end-tag matcher falls back to 0 -/
theorem rawStep_show {k : RawK} {m : Nat} {c : UInt8} (hc : showByte c = true) (hm : m ≤ 1) :
    HtmlTok.rawStep k m c = if (k.step c).isBad then .bad else .raw (k.step c) 0 := by
  obtain ⟨f1, f2, f3, f4, f5, f6, f7, f8, f9, f10, f11, f12, f13, f14⟩ := showByte_spec c hc
  unfold HtmlTok.rawStep
  by_cases h0 : m = 0
  · simp [h0, f13]
  · have h1 : m = 1 := by omega
    simp [h1, f4, f13]

/-! ## one show byte -/

/-- the conclusion of the one-byte lemmas -/
def ShowStep (text : Bytes) (s : CSt) (r r' : RSt) : Prop :=
  settled r' = true ∧ R text s r' ∧ abs containsURL r' = abs containsURL r

theorem raw_ite_good (x : RawK) (h : x.isBad = false) :
    (if x.isBad = true then RSt.bad else RSt.raw x 0) = .raw x 0 := by simp [h]

theorem raw_ite_bad (x : RawK) (h : x.isBad = true) :
    (if x.isBad = true then RSt.bad else RSt.raw x 0) = .bad := by simp [h]

/-- script content on a show byte -/
theorem rstep_js_show {k : JsS} {m : Nat} {c : UInt8} (hc : showByte c = true) (hm : m ≤ 1)
    (hnb : rstep (.raw (.js k) m) c ≠ .bad) :
    jsStep k c ≠ .bad ∧ rstep (.raw (.js k) m) c = .raw (.js (jsStep k c)) 0 := by
  have e : rstep (.raw (.js k) m) c = HtmlTok.rawStep (.js k) m c := rfl
  rw [e, rawStep_show hc hm] at hnb ⊢
  by_cases hb : jsStep k c = .bad
  · exfalso; apply hnb
    exact raw_ite_bad _ (by show (RawK.js (jsStep k c)).isBad = true; rw [hb]; rfl)
  · have hib : (RawK.js (jsStep k c)).isBad = false := by
      cases hh : jsStep k c <;> simp [RawK.isBad] <;> exact hb hh
    exact ⟨hb, raw_ite_good ((RawK.js k).step c) hib⟩

/-- style content on a show byte -/
theorem rstep_css_show {k : CssS} {m : Nat} {c : UInt8} (hc : showByte c = true) (hm : m ≤ 1)
    (hnb : rstep (.raw (.css k) m) c ≠ .bad) :
    cssStep k c ≠ .bad ∧ rstep (.raw (.css k) m) c = .raw (.css (cssStep k c)) 0 := by
  have e : rstep (.raw (.css k) m) c = HtmlTok.rawStep (.css k) m c := rfl
  rw [e, rawStep_show hc hm] at hnb ⊢
  by_cases hb : cssStep k c = .bad
  · exfalso; apply hnb
    exact raw_ite_bad _ (by show (RawK.css (cssStep k c)).isBad = true; rw [hb]; rfl)
  · have hib : (RawK.css (cssStep k c)).isBad = false := by
      cases hh : cssStep k c <;> simp [RawK.isBad] <;> exact hb hh
    exact ⟨hb, raw_ite_good ((RawK.css k).step c) hib⟩

theorem settled_stable {r : RSt} (h : settled r = true) : stable r := by
  cases r with
  | data => exact ⟨by simp, .html, false, rfl, by simp⟩
  | attrValDq t n => exact ⟨by simp, .quotedAttr, _, rfl, by simp⟩
  | attrValSq t n => exact ⟨by simp, .quotedAttr, _, rfl, by simp⟩
  | attrValUnq t n => exact ⟨by simp, .unquotedAttr, _, rfl, by simp⟩
  | raw k m =>
    cases k with
    | js k =>
      simp only [settled, Bool.and_eq_true, beq_iff_eq] at h
      obtain ⟨rfl, hk⟩ := h
      cases k <;> simp [JsSettled] at hk
      · exact ⟨by simp, .js, false, rfl, by simp⟩
      · exact ⟨by simp, .js, false, rfl, by simp⟩
      · exact ⟨by simp, .js, false, rfl, by simp⟩
      · exact ⟨by simp, .jsString, false, rfl, by simp⟩
    | css k =>
      simp only [settled, Bool.and_eq_true, beq_iff_eq] at h
      obtain ⟨rfl, hk⟩ := h
      cases k <;> simp [CssSettled] at hk
      · exact ⟨by simp, .css, false, rfl, by simp⟩
      · exact ⟨by simp, .css, false, rfl, by simp⟩
      · exact ⟨by simp, .cssString, false, rfl, by simp⟩
  | _ => simp [settled] at h

/-- A show byte read in a stable state related to `s` (which stands at the `{{`): the reference
goes to a settled state, still related to `s`, with the same abstraction. -/
theorem show_byte {text : Bytes} {s : CSt} {r : RSt} {c : UInt8} (hc : showByte c = true)
    (h0 : text[s.pos]? = some 0x7b)
    (hst : stable r) (hR : R text s r) (hnb : rstep r c ≠ .bad) : ShowStep text s r (rstep r c) := by
  obtain ⟨f1, f2, f3, f4, f5, f6, f7, f8, f9, f10, f11, f12, f13, f14⟩ := showByte_spec c hc
  obtain ⟨hto, c0, u0, habs, hc0⟩ := hst
  unfold ShowStep
  rcases hR with ⟨h1, h2, h3⟩ | ⟨h1, h2, h3⟩ | ⟨h1, h2⟩ | ⟨k, m, rfl, h4, h5, h6, h7, h8⟩ |
    ⟨k, m, rfl, h4, h5, h6, h7, h8, h9⟩
  · cases r with
    | data => refine ⟨?_, Or.inl ⟨h1, h2, ?_⟩, ?_⟩ <;> simp [rstep, f13, settled, HtmlRef]
    | tagOpen => exact (hto rfl).elim
    | raw k m => exfalso; cases k <;> simp [HtmlRef, RawK.name] at h3 <;> subst h3 <;> simp [abs] at habs
    | _ => simp [HtmlRef, abs] at h3 habs
  · cases r <;> simp [TagRef, abs, h0] at h3 habs <;>
      (obtain ⟨rfl, _⟩ := habs; exact (hc0 rfl).elim)
  · cases r with
    | attrValDq t n =>
      refine ⟨?_, Or.inr (Or.inr (Or.inl ⟨h1, ?_⟩)), ?_⟩ <;> simp [rstep, f1, settled, abs]
      exact h2
    | attrValSq t n =>
      refine ⟨?_, Or.inr (Or.inr (Or.inl ⟨h1, ?_⟩)), ?_⟩ <;> simp [rstep, f2, settled, abs]
      exact h2
    | attrValUnq t n =>
      refine ⟨?_, Or.inr (Or.inr (Or.inl ⟨h1, ?_⟩)), ?_⟩ <;> simp [rstep, f5, f14, settled, abs]
      exact h2
    | beforeAttrValue t n =>
      obtain ⟨g1, g2, g3, g4, _⟩ := h2
      refine ⟨?_, Or.inr (Or.inr (Or.inl ⟨h1, ?_⟩)), ?_⟩ <;> simp [rstep, f1, f2, f5, f14, settled, abs]
      exact ⟨g1, g2, g3, g4⟩
    | _ => simp [AttrRef] at h2
  · obtain ⟨hnb', e⟩ := rstep_js_show hc h4 hnb
    obtain ⟨j1, j2, j3⟩ := jsStep_show hc h8 hnb'
    rw [e]
    refine ⟨by simp [settled, j1], ?_, ?_⟩
    · exact Or.inr (Or.inr (Or.inr (Or.inl ⟨_, 0, rfl, Nat.zero_le _, by simp, h6, h7, j2⟩)))
    · simp [abs, h4, j3]
  · obtain ⟨hnb', e⟩ := rstep_css_show hc h4 hnb
    obtain ⟨j1, j2, j3⟩ := cssStep_show hc h9 hnb'
    rw [e]
    refine ⟨by simp [settled, j1], ?_, ?_⟩
    · exact Or.inr (Or.inr (Or.inr (Or.inr ⟨_, 0, rfl, Nat.zero_le _, by simp, h6, h7, h8, j2⟩)))
    · simp [abs, h4, j3]

/-- in a settled reference state the relation does not look at the text: the lexer may stand
anywhere -/
theorem R_settled_pos {text : Bytes} {s : CSt} {r : RSt} (hs : settled r = true)
    (h0 : text[s.pos]? = some 0x7b) (hR : R text s r) (p : Nat) : R text { s with pos := p } r := by
  rcases hR with ⟨h1, h2, h3⟩ | ⟨h1, h2, h3⟩ | ⟨h1, h2⟩ | ⟨k, m, rfl, h4, h5, h6, h7, h8⟩ |
    ⟨k, m, rfl, h4, h5, h6, h7, h8, h9⟩
  · cases r with
    | data => exact Or.inl ⟨h1, h2, trivial⟩
    | raw k m => exfalso; cases k <;> simp [settled, HtmlRef, RawK.name] at h3 hs <;> omega
    | _ => simp [HtmlRef, settled] at h3 hs
  · cases r <;> simp [TagRef, settled, h0] at h3 hs
  · cases r with
    | attrValDq t n => exact Or.inr (Or.inr (Or.inl ⟨h1, h2⟩))
    | attrValSq t n => exact Or.inr (Or.inr (Or.inl ⟨h1, h2⟩))
    | attrValUnq t n => exact Or.inr (Or.inr (Or.inl ⟨h1, h2⟩))
    | _ => simp [AttrRef, settled] at h2 hs
  · simp only [settled, Bool.and_eq_true, beq_iff_eq] at hs
    obtain ⟨rfl, hk⟩ := hs
    refine Or.inr (Or.inr (Or.inr (Or.inl ⟨k, 0, rfl, Nat.zero_le _, by simp, h6, h7, ?_⟩)))
    cases k <;> simp [JsSettled] at hk <;> exact h8
  · simp only [settled, Bool.and_eq_true, beq_iff_eq] at hs
    obtain ⟨rfl, hk⟩ := hs
    refine Or.inr (Or.inr (Or.inr (Or.inr ⟨k, 0, rfl, Nat.zero_le _, by simp, h6, h7, h8, ?_⟩)))
    cases k <;> simp [CssSettled] at hk <;> exact h9

/-! ## the whole show -/

/-- The simulation relation crosses a neutral show that stands at a stable point: if the lexer
state `s` at the `{{` (offset `a`) is related to the reference state after `text[0..a)`, then the
same lexer fields at the offset `e` after the `}}` are related to the reference state after
`text[0..e)` — the reference having read the bytes of the show as they are. That state is settled
(in particular stable: the next show may follow immediately) and has the abstraction (context, URL
flag) of the state at `a`. -/
theorem R_across_show {text : Bytes} {s : CSt} {a e : Nat} (hR : R text s (rs text a)) (hp : s.pos = a)
    (hN : NeutralShow text a e) (hst : stable (rs text a)) (hnb : rs text e ≠ .bad) :
    R text { s with pos := e } (rs text e) ∧ settled (rs text e) = true ∧ stable (rs text e) ∧
      abs containsURL (rs text e) = abs containsURL (rs text a) := by
  have h0 : text[s.pos]? = some 0x7b := by rw [hp]; exact hN.2.1
  have hle : a + 4 ≤ e := hN.1
  have key : ∀ k, a + 1 + k ≤ e → ShowStep text s (rs text a) (rs text (a + 1 + k)) := by
    intro k
    induction k with
    | zero =>
      intro _
      obtain ⟨c, hc, hsb⟩ := hN.byte (Nat.le_refl a) (by omega)
      have hnb1 : rs text (a + 1) ≠ .bad := fun h => hnb (rs_bad_mono (by omega) h)
      rw [rs_succ hc] at hnb1 ⊢
      exact show_byte hsb h0 hst hR hnb1
    | succ k ih =>
      intro hk
      obtain ⟨i1, i2, i3⟩ := ih (by omega)
      obtain ⟨c, hc, hsb⟩ := hN.byte (i := a + 1 + k) (by omega) (by omega)
      have hnb1 : rs text (a + 1 + k + 1) ≠ .bad := fun h => hnb (rs_bad_mono (by omega) h)
      have e1 : a + 1 + (k + 1) = a + 1 + k + 1 := by omega
      rw [e1]
      rw [rs_succ hc] at hnb1 ⊢
      obtain ⟨j1, j2, j3⟩ := show_byte hsb h0 (settled_stable i1) i2 hnb1
      exact ⟨j1, j2, j3.trans i3⟩
  obtain ⟨i1, i2, i3⟩ := key (e - a - 1) (by omega)
  have e1 : a + 1 + (e - a - 1) = e := by omega
  rw [e1] at i1 i2 i3
  exact ⟨R_settled_pos i1 h0 i2 e, i1, settled_stable i1, i3⟩

end ScriggoV.LexCtx
